(* Properties_C08.v — C08: typed values survive set/get exactly.
   Integers: all values of the four types at once.  Booleans: every accepted
   spelling.  Floating point: see FloatFacts.v (digit sufficiency) — glibc's
   conversions are an oracle. *)
From Coq Require Import String Lia.
From Flocq Require Import Core.
From Econf Require Import Bytes BytesFacts MapSpec KeyfileFacts NumericSpec NumericFacts Generated_facts FloatFacts.
Local Open Scope Z_scope.

(* the typed setter followed by the matching getter, through the object *)
Definition set_get (kd : vkind) (kf : keyfile) (g : option str) (k : str) (text : option str) (z : Z) : out :=
  let kf' := fst (kstep kf (CSet 0 kd g (Some k) text z)) in
  snd (kstep kf' (CGet 0 kd g (Some k) DNone)).

Lemma kstep_set_fst kf o kd g k t z :
  fst (kstep kf (CSet o kd g k t z)) = fst (set_value kf g k (set_text kd t z)).
Proof. cbn [kstep]. now destruct (set_value kf g k (set_text kd t z)). Qed.

Lemma set_get_int kd kf g k z :
  wf_kf kf -> k <> [] ->
  convert kd (Some (fmt_dec z)) = OInt ECONF_SUCCESS z ->
  (kd = KInt \/ kd = KInt64 \/ kd = KUInt \/ kd = KUInt64) ->
  set_get kd kf g k None z = OInt ECONF_SUCCESS z.
Proof.
  intros Hwf Hk Hc Hkd. unfold set_get. rewrite kstep_set_fst.
  assert (E : set_text kd None z = SetTo (fmt_dec z)) by (destruct Hkd as [->|[->|[->| ->]]]; reflexivity).
  rewrite E. cbn [kstep snd]. unfold kstep_get. rewrite set_then_lookup by assumption. exact Hc.
Qed.

Theorem C08_int32 : forall kf g k z, wf_kf kf -> k <> [] -> - 2 ^ 31 <= z < 2 ^ 31 ->
  set_get KInt kf g k None z = OInt ECONF_SUCCESS z.
Proof.
  intros. apply (set_get_int KInt); auto. cbn [convert]. now rewrite int32_roundtrip.
Qed.
Print Assumptions C08_int32.

Theorem C08_int64 : forall kf g k z, wf_kf kf -> k <> [] -> - 2 ^ 63 <= z < 2 ^ 63 ->
  set_get KInt64 kf g k None z = OInt ECONF_SUCCESS z.
Proof.
  intros. apply (set_get_int KInt64); auto. cbn [convert]. now rewrite int64_roundtrip.
Qed.
Print Assumptions C08_int64.

Theorem C08_uint32 : forall kf g k z, wf_kf kf -> k <> [] -> 0 <= z < 2 ^ 32 ->
  set_get KUInt kf g k None z = OInt ECONF_SUCCESS z.
Proof.
  intros. apply (set_get_int KUInt); auto. cbn [convert]. now rewrite uint32_roundtrip.
Qed.
Print Assumptions C08_uint32.

Theorem C08_uint64 : forall kf g k z, wf_kf kf -> k <> [] -> 0 <= z < 2 ^ 64 ->
  set_get KUInt64 kf g k None z = OInt ECONF_SUCCESS z.
Proof.
  intros. apply (set_get_int KUInt64); auto. cbn [convert]. now rewrite uint64_roundtrip.
Qed.
Print Assumptions C08_uint64.

(* every accepted boolean spelling, in any letter case *)
Theorem C08_bool : forall kf g k s b, wf_kf kf -> k <> [] ->
  (b = true /\ (s = [49%N] \/ In (lower s) true_words)) \/
  (b = false /\ (s = [48%N] \/ In (lower s) false_words)) ->
  set_get KBool kf g k (Some s) 0 = OBool ECONF_SUCCESS b.
Proof.
  intros kf g k s b Hwf Hk Hs. destruct (bool_set_get s b Hs) as [H1 H2].
  unfold set_get. rewrite kstep_set_fst. cbn [set_text]. rewrite H1. cbn [kstep snd].
  unfold kstep_get. rewrite set_then_lookup by assumption. cbn [typed_out convert]. now rewrite H2.
Qed.
Print Assumptions C08_bool.

(* the text the integer setters store is plain: digits and an optional minus,
   so it is writable in the sense of DESIGN.md 5.4 *)
Theorem C08_int_text_plain : forall z, forallb (fun c => isdigit c || (c =? 45)%N) (fmt_dec z) = true.
Proof. exact fmt_dec_chars. Qed.
Print Assumptions C08_int_text_plain.

(* strings: any text comes back as it was set *)
Theorem C08_string : forall kf g k s, wf_kf kf -> k <> [] ->
  set_get KString kf g k (Some s) 0 = OStr ECONF_SUCCESS (Some s).
Proof.
  intros. unfold set_get. rewrite kstep_set_fst. cbn [set_text kstep snd].
  unfold kstep_get. now rewrite set_then_lookup by assumption.
Qed.
Print Assumptions C08_string.

(* ---- floating point ----
   The library's part is the choice of conversion; the generated facts say
   what the source uses today: "%.*g" with FLT_DECIMAL_DIG / DBL_DECIMAL_DIG
   digits for the setters, strtof / strtod without an errno veto for the
   getters.  Printing a binary32 (binary64) number with that many significant
   decimal digits, correctly rounded, and reading the decimal back, correctly
   rounded to nearest-even, returns the number itself — zero, subnormal and
   normal numbers of both signs (FloatFacts.v, Flocq).  That glibc's printf
   and strtof/strtod round correctly is assumed (oracle). *)
Theorem C08_conversions_used :
  gen_setters = [("Int", "%", "PRId32"); ("Int64", "%", "PRId64"); ("UInt", "%", "PRIu32");
                 ("UInt64", "%", "PRIu64"); ("Float", "%.*g", "FLT_DECIMAL_DIG");
                 ("Double", "%.*g", "DBL_DECIMAL_DIG")]%string /\
  gen_getters = [("Int", "strtol", true); ("Int64", "strtoll", true); ("UInt", "strtoul", true);
                 ("UInt64", "strtoull", true); ("Float", "strtof", false); ("Double", "strtod", false)]%string.
Proof. split; reflexivity. Qed.
Print Assumptions C08_conversions_used.

Theorem C08_float_digits : forall choice x,
  generic_format radix2 (FLT_exp (-149) 24) x ->
  round radix2 (FLT_exp (-149) 24) ZnearestE
        (round radix10 (FLX_exp gen_flt_decimal_dig) (Znearest choice) x) = x.
Proof. exact digits_float. Qed.
Print Assumptions C08_float_digits.

Theorem C08_double_digits : forall choice x,
  generic_format radix2 (FLT_exp (-1074) 53) x ->
  round radix2 (FLT_exp (-1074) 53) ZnearestE
        (round radix10 (FLX_exp gen_dbl_decimal_dig) (Znearest choice) x) = x.
Proof. exact digits_double. Qed.
Print Assumptions C08_double_digits.

Example C08_demo :
  set_get KInt64 new_ini (Some (bs "[net]")) (bs "mtu") None (-9223372036854775808) = OInt ECONF_SUCCESS (-9223372036854775808) /\
  set_get KUInt64 new_empty None (bs "n") None 18446744073709551615 = OInt ECONF_SUCCESS 18446744073709551615 /\
  set_get KBool new_ini None (bs "b") (Some (bs "YeS")) 0 = OBool ECONF_SUCCESS true.
Proof. vm_compute. repeat split. Qed.
