(* LayeredModel.v — the file system as a finite tree (oracle instance), the
   gate every file passes (read_file_with_callback), and the layered readers
   (lib/readconfig.c, lib/mergefiles.c, the wrappers of lib/libeconf.c).
   Model file: definitions only. *)
From Coq Require Import String.
From Econf Require Export WriterModel.
Local Open Scope N_scope.

(* ---------- file system ---------- *)
Inductive node :=
| NFile (content : str) (uid gid : N)
| NLink (target : str) (uid gid : N)
| NDir (uid gid : N).

Definition tree := list (str * node).     (* absolute paths, '/' separated *)

(* path normalisation: "a//b" = "a/b", "." components vanish, ".." steps up
   (no symbolic links among the directories of a tree) *)
Fixpoint norm_comps (comps : list str) (stack : list str) : list str :=
  match comps with
  | [] => rev stack
  | c :: rest =>
      match c with
      | [] => norm_comps rest stack
      | [46] => norm_comps rest stack
      | [46; 46] => norm_comps rest (tl stack)
      | _ => norm_comps rest (c :: stack)
      end
  end.

(* a relative name is looked up below the working directory, which the
   correspondence harness keeps at the root of the tree *)
Definition squeeze (p : str) : str :=
  match norm_comps (split_on 47 p) [] with
  | [] => [47]
  | cs => concat (map (fun c => 47 :: c) cs)
  end.

Fixpoint tlookup (t : tree) (p : str) : option node :=
  match t with
  | [] => None
  | (q, n) :: t' => if str_eqb q p then Some n else tlookup t' p
  end.

Definition dirname (p : str) : str :=
  match rfind_idx 47 p with
  | Some O => [47]
  | Some i => firstn i p
  | None => [46]
  end.

Definition dev_null : str := bs "/dev/null".

(* lstat: the entry itself, links not followed *)
Definition fs_lstat (t : tree) (p : str) : option node := tlookup t (squeeze p).

(* fopen(p, "r") + reading everything: links are followed (bounded chain);
   a directory opens and yields no data; /dev/null is always there *)
Fixpoint fs_slurp (fuel : nat) (t : tree) (p : str) : option str :=
  let q := squeeze p in
  if str_eqb q dev_null then Some []
  else
    match tlookup t q with
    | Some (NFile c _ _) => Some c
    | Some (NDir _ _) => Some []
    | Some (NLink target _ _) =>
        match fuel with
        | O => None
        | S f =>
            let tp := match target with
                      | 47 :: _ => target
                      | _ => dirname q ++ 47 :: target
                      end in
            fs_slurp f t tp
        end
    | None => None
    end.

(* get_absolute_path: a name starting with '/' is taken as it is; any other
   name goes through realpath(), which normalises it and follows symbolic
   links to the end (bounded chain; unresolvable names never get this far) *)
Fixpoint fs_resolve (fuel : nat) (t : tree) (q : str) : str :=
  if str_eqb q dev_null then q
  else
    match tlookup t q with
    | Some (NLink target _ _) =>
        match fuel with
        | O => q
        | S f =>
            let tp := match target with
                      | 47 :: _ => target
                      | _ => dirname q ++ 47 :: target
                      end in
            fs_resolve f t (squeeze tp)
        end
    | _ => q
    end.

Definition real_name (t : tree) (p : str) : str :=
  match p with
  | 47 :: _ => p
  | _ => fs_resolve 8 t (squeeze p)
  end.

(* scandir: the names directly below a directory, with "." and "..", sorted byte-wise *)
Definition child_name (dir : str) (p : str) : option str :=
  let d := if str_eqb dir [47] then [47] else dir ++ [47] in
  if is_prefix d p then
    let r := skipn (length d) p in
    match r with
    | [] => None
    | _ => if mem 47 r then None else Some r
    end
  else None.

Definition fs_scandir (t : tree) (p : str) : option (list str) :=
  let q := squeeze p in
  match tlookup t q with
  | Some (NDir _ _) =>
      Some (sort_strs ([46] :: [46; 46] ::
                       flat_map (fun e => match child_name q (fst e) with Some n => [n] | None => [] end) t))
  | _ => None
  end.

(* ---------- process-wide settings ---------- *)
Record secset := mkSec {
  sec_owner : option N;
  sec_group : option N;
  sec_nolinks : bool;
  sec_perms : option (N * N) }.      (* econf_requirePermissions: file mode bits, directory mode bits *)
Definition sec_none : secset := mkSec None None false None.

Record globals := mkG {
  g_sec : secset;
  g_conf_dirs : list str;            (* econf_set_conf_dirs *)
  g_errfile : str; g_errline : N }.  (* last_scanned_filename / last_scanned_line_nr *)
Definition globals0 : globals := mkG sec_none [] [] 0.

Inductive event :=
| EvCheck (p : str) (ok : bool)      (* the caller's callback was asked about p *)
| EvOpen (p : str).                  (* p was opened for reading *)

(* the caller's check: None = no callback given *)
Definition callback := option (str -> bool).

(* ---------- the gate: read_file_with_callback ---------- *)
Record gate_out := mkGO {
  go_res : econf_err + keyfile;
  go_events : list event;
  go_errfile : str; go_errline : N }.

Definition node_uid (n : node) : N := match n with NFile _ u _ | NLink _ u _ | NDir u _ => u end.
Definition node_gid (n : node) : N := match n with NFile _ _ g | NLink _ _ g | NDir _ g => g end.
Definition is_link (n : node) : bool := match n with NLink _ _ _ => true | _ => false end.

(* st_mode as lstat reports it.  The tree carries no modes of its own: the harness creates every regular file
   0644, every directory 0755 (its umask is fixed at 022), and a symbolic link is 0777 by definition. *)
Definition node_mode (n : node) : N :=
  match n with
  | NFile _ _ _ => 33188      (* 0100644 *)
  | NLink _ _ _ => 41471      (* 0120777 *)
  | NDir _ _ => 16877         (* 0040755 *)
  end.

(* econf_requirePermissions: the consulted file must have one of the file bits, the directory named by
   dirname(file_name) one of the directory bits *)
Definition perm_refusal (s : secset) (t : tree) (path : str) (n : node) : option econf_err :=
  match sec_perms s with
  | None => None
  | Some (fp, dp) =>
      if N.land (node_mode n) fp =? 0 then Some ECONF_WRONG_FILE_PERMISSION
      else match fs_lstat t (dirname path) with
           | None => Some ECONF_NOFILE
           | Some d => if N.land (node_mode d) dp =? 0 then Some ECONF_WRONG_DIR_PERMISSION else None
           end
  end.

Definition gate (t : tree) (g : globals) (cb : callback) (o : popts) (path dl cm : str) : gate_out :=
  let fail e evs := mkGO (inl e) evs (g_errfile g) (g_errline g) in
  match fs_lstat t path with
  | None => fail ECONF_NOFILE []
  | Some n =>
      if sec_nolinks (g_sec g) && is_link n then fail ECONF_ERROR_FILE_IS_SYM_LINK []
      else if match sec_owner (g_sec g) with Some u => negb (node_uid n =? u) | None => false end
      then fail ECONF_WRONG_OWNER []
      else if match sec_group (g_sec g) with Some u => negb (node_gid n =? u) | None => false end
      then fail ECONF_WRONG_GROUP []
      else
      match perm_refusal (g_sec g) t path n with
      | Some e => fail e []
      | None =>
        let '(ok, evs) := match cb with
                          | Some f => (f path, [EvCheck path (f path)])
                          | None => (true, [])
                          end in
        if negb ok then fail ECONF_PARSING_CALLBACK_FAILED evs
        else
          match fs_slurp 8 t path with
          | None => fail ECONF_NOFILE evs
          | Some content =>
              let r := read_bytes o dl cm content in
              (* last_scanned_line_nr is only assigned while lines are read *)
              let eline := match lines_of content with [] => g_errline g | _ => r_lines r end in
              let evs' := evs ++ [EvOpen path] in
              let ap := real_name t path in        (* what read_file is handed and records *)
              match r_err r with
              | ECONF_SUCCESS =>
                  let base := mkKF [] 0 [] 0 0 None (o_join o) (o_python o) [] [] None in
                  mkGO (inr (keyfile_of_read base ap dl cm r)) evs' ap eline
              | e => mkGO (inl e) evs' ap eline
              end
          end
      end
  end.

Definition with_err (g : globals) (f : str) (l : N) : globals :=
  mkG (g_sec g) (g_conf_dirs g) f l.

(* ---------- readConfigHistoryWithCallback ---------- *)
Record hist_out := mkHO {
  ho_res : econf_err + list keyfile;     (* consulted files in processing order *)
  ho_events : list event;
  ho_g : globals }.

Definition norm_suffix (sfx : option str) : str :=
  match sfx with
  | None => []
  | Some [] => []
  | Some (46 :: r) => 46 :: r
  | Some s => 46 :: s
  end.

(* main file: highest layer first; ECONF_NOFILE goes on to the next layer,
   any other error aborts *)
Fixpoint find_main (t : tree) (g : globals) (cb : callback) (o : popts) (dirs_rev : list str)
         (name sfx dl cm : str) (evs : list event) : (econf_err + option keyfile) * list event * globals :=
  match dirs_rev with
  | [] => (inr None, evs, g)
  | d :: rest =>
      let p := d ++ 47 :: name ++ sfx in
      let r := gate t g cb o p dl cm in
      let g' := with_err g (go_errfile r) (go_errline r) in
      let evs' := evs ++ go_events r in
      match go_res r with
      | inr kf => (inr (Some kf), evs', g')
      | inl ECONF_NOFILE => find_main t g' cb o rest name sfx dl cm evs'
      | inl e => (inl e, evs', g')
      end
  end.

(* check_conf_dir: one drop-in directory *)
Fixpoint read_names (t : tree) (g : globals) (cb : callback) (o : popts) (dir sfx dl cm : str)
         (names : list str) (acc : list keyfile) (evs : list event)
  : (econf_err + list keyfile) * list event * globals :=
  match names with
  | [] => (inr acc, evs, g)
  | nm :: rest =>
      if Nat.ltb (length sfx) (length nm) && is_suffix sfx nm then
        let p := dir ++ 47 :: nm in
        let r := gate t g cb o p dl cm in
        let g' := with_err g (go_errfile r) (go_errline r) in
        let evs' := evs ++ go_events r in
        match go_res r with
        | inr kf => read_names t g' cb o dir sfx dl cm rest (acc ++ [kf]) evs'
        | inl e => (inl e, evs', g')
        end
      else read_names t g cb o dir sfx dl cm rest acc evs
  end.

(* traverse_conf_dirs over all layers (lowest first) and all drop-in directory formats *)
Fixpoint read_dropins (t : tree) (g : globals) (cb : callback) (o : popts) (dirs : list str)
         (name sfx dl cm : str) (acc : list keyfile) (evs : list event)
  : (econf_err + list keyfile) * list event * globals :=
  match dirs with
  | [] => (inr acc, evs, g)
  | dir :: rest =>
      match fs_scandir t dir with
      | None => read_dropins t g cb o rest name sfx dl cm acc evs
      | Some names =>
          match read_names t g cb o dir sfx dl cm names acc evs with
          | (inr acc', evs', g') => read_dropins t g' cb o rest name sfx dl cm acc' evs'
          | (inl e, evs', g') => (inl e, evs', g')
          end
      end
  end.

Definition dropin_dirs (parse_dirs conf_dirs : list str) (name sfx : str) : list str :=
  let cds := match conf_dirs with [] => [sfx ++ bs ".d"] | _ => conf_dirs end in
  flat_map (fun d => map (fun cd => d ++ 47 :: name ++ cd) cds) parse_dirs.

Definition history (t : tree) (g : globals) (cb : callback) (o : popts)
           (parse_dirs conf_dirs : list str) (name : option str) (sfx : option str) (dl cm : str) : hist_out :=
  match name with
  | None => mkHO (inl ECONF_ERROR) [] g
  | Some nm =>
      let sx := match nm with [] => [] | _ => norm_suffix sfx end in
      let '(mainr, evs, g1) :=
        match nm with
        | [] => (inr None, [], g)
        | _ => find_main t g cb o (rev parse_dirs) nm sx dl cm []
        end in
      match mainr with
      | inl e => mkHO (inl e) evs g1
      | inr m =>
          let acc := match m with Some kf => [kf] | None => [] end in
          match read_dropins t g1 cb o (dropin_dirs parse_dirs conf_dirs nm sx) nm sx dl cm acc evs with
          | (inl e, evs', g2) => mkHO (inl e) evs' g2
          | (inr [], evs', g2) => mkHO (inl ECONF_NOFILE) evs' g2
          | (inr files, evs', g2) => mkHO (inr files) evs' g2
          end
      end
  end.

(* ---------- merge_econf_files ---------- *)
Definition path_base (kf : keyfile) : str := basename (get_path kf).

(* a file is skipped when a later file has the same name (not "." / "..") *)
Definition masked (kf : keyfile) (later : list keyfile) : bool :=
  let bn := path_base kf in
  negb (str_eqb bn [46]) && negb (str_eqb bn [46; 46]) &&
  existsb (fun x => str_eqb (path_base x) bn) later.

Fixpoint merge_rest (cur : keyfile) (files : list keyfile) : keyfile :=
  match files with
  | [] => cur
  | f :: rest => merge_rest (if masked f rest then cur else merge_model cur f) rest
  end.

(* the first file is taken unconditionally (known finding F14 when it is a drop-in) *)
Definition merge_files (files : list keyfile) : option keyfile :=
  match files with
  | [] => None
  | f :: rest => Some (merge_rest f rest)
  end.

(* ---------- the public entry points ---------- *)
Record read_out2 := mkR2 {
  r2_err : econf_err;
  r2_obj : option keyfile;          (* what the out-pointer holds afterwards *)
  r2_events : list event;
  r2_g : globals }.

(* readConfigWithCallback on an object carrying options *)
Definition read_config_obj (t : tree) (g : globals) (cb : callback) (obj : keyfile)
           (name sfx : option str) (dl cm : str) : read_out2 :=
  let cds := match kf_conf_dirs obj with [] => g_conf_dirs g | l => l end in
  let h := history t g cb (mkPopts (kf_python obj) (kf_join obj)) (kf_parse_dirs obj) cds name sfx dl cm in
  match ho_res h with
  | inl e => mkR2 e (Some obj) (ho_events h) (ho_g h)
  | inr files =>
      match merge_files files with
      | Some kf => mkR2 ECONF_SUCCESS (Some kf) (ho_events h) (ho_g h)
      | None => mkR2 ECONF_ERROR None (ho_events h) (ho_g h)
      end
  end.

Definition str_or_empty (o : option str) : str := match o with Some s => s | None => [] end.

(* econf_readDirs / econf_readDirsWithCallback *)
Definition read_dirs (t : tree) (g : globals) (cb : callback) (dist etc name sfx : option str) (dl cm : str) : read_out2 :=
  let obj := mkKF [] 0 [] 0 0 None false false [str_or_empty dist; str_or_empty etc] [] None in
  read_config_obj t g cb obj name sfx dl cm.

(* econf_readDirsHistory / ...WithCallback *)
Definition read_dirs_history (t : tree) (g : globals) (cb : callback) (dist etc name sfx : option str) (dl cm : str) : hist_out :=
  history t g cb (mkPopts false false) [str_or_empty dist; str_or_empty etc] (g_conf_dirs g) name sfx dl cm.

Definition PATH_MAX : nat := 4096.
Definition snprintf_path (p : str) : str := firstn (Nat.pred PATH_MAX) p.

(* econf_readConfig / econf_readConfigWithCallback; [obj0]: the object the
   caller passed in (None: *key_file == NULL) *)
Definition read_config (t : tree) (g : globals) (cb : callback) (obj0 : option keyfile)
           (project usr_subdir name sfx : option str) (dl cm : str) : read_out2 :=
  let obj1 := match obj0 with Some k => k | None => new_empty end in
  let dropin_only := match name with None => true | Some [] => true | _ => false end in
  let name' := if dropin_only then project else name in
  let project' := if dropin_only then None else project in
  let obj2 := if dropin_only then
                mkKF (kf_entries obj1) (kf_spare obj1) (kf_groups obj1) (kf_delim obj1) (kf_comment obj1)
                     (kf_path obj1) (kf_join obj1) (kf_python obj1) (kf_parse_dirs obj1) [bs ".d"] (kf_root_prefix obj1)
              else obj1 in
  let usr := str_or_empty usr_subdir in
  let mk sub :=
    snprintf_path
      (match kf_root_prefix obj2, project' with
       | Some r, Some p => r ++ 47 :: sub ++ 47 :: p
       | Some r, None => r ++ sub
       | None, Some p => sub ++ 47 :: p
       | None, None => sub
       end) in
  let obj3 := match kf_parse_dirs obj2 with
              | [] => mkKF (kf_entries obj2) (kf_spare obj2) (kf_groups obj2) (kf_delim obj2) (kf_comment obj2)
                           (kf_path obj2) (kf_join obj2) (kf_python obj2)
                           [mk usr; mk (bs "/run"); mk (bs "/etc")] (kf_conf_dirs obj2) (kf_root_prefix obj2)
              | _ => obj2
              end in
  let r := read_config_obj t g cb obj3 name' sfx dl cm in
  match r2_err r, obj0 with
  | ECONF_SUCCESS, _ => r
  | _, None => mkR2 (r2_err r) None (r2_events r) (r2_g r)     (* created here: released again *)
  | _, Some _ => r
  end.

(* econf_readFile / econf_readFileWithCallback *)
Definition read_file_api (t : tree) (g : globals) (cb : callback) (path dl cm : str) : read_out2 :=
  let r := gate t g cb (mkPopts false false) path dl cm in
  let g' := with_err g (go_errfile r) (go_errline r) in
  match go_res r with
  | inr kf => mkR2 ECONF_SUCCESS (Some kf) (go_events r) g'
  | inl e => mkR2 e None (go_events r) g'
  end.

(* ---------- option strings: econf_newKeyFile_with_options ---------- *)
Definition opt_item (kf : keyfile) (item : str) : econf_err + keyfile :=
  let upd j p pd cd rp := mkKF (kf_entries kf) (kf_spare kf) (kf_groups kf) (kf_delim kf) (kf_comment kf)
                               (kf_path kf) j p pd cd rp in
  if str_eqb item (bs "JOIN_SAME_ENTRIES=1") then inr (upd true (kf_python kf) (kf_parse_dirs kf) (kf_conf_dirs kf) (kf_root_prefix kf))
  else if str_eqb item (bs "PYTHON_STYLE=1") then inr (upd (kf_join kf) true (kf_parse_dirs kf) (kf_conf_dirs kf) (kf_root_prefix kf))
  else if str_eqb item (bs "JOIN_SAME_ENTRIES=0") then inr (upd false (kf_python kf) (kf_parse_dirs kf) (kf_conf_dirs kf) (kf_root_prefix kf))
  else if str_eqb item (bs "PYTHON_STYLE=0") then inr (upd (kf_join kf) false (kf_parse_dirs kf) (kf_conf_dirs kf) (kf_root_prefix kf))
  else if is_prefix (bs "PARSING_DIRS=") item then
    inr (upd (kf_join kf) (kf_python kf) (split_on 58 (skipn 13 item)) (kf_conf_dirs kf) (kf_root_prefix kf))
  else if is_prefix (bs "CONFIG_DIRS=") item then
    inr (upd (kf_join kf) (kf_python kf) (kf_parse_dirs kf) (split_on 58 (skipn 12 item)) (kf_root_prefix kf))
  else if is_prefix (bs "ROOT_PREFIX=") item then
    inr (upd (kf_join kf) (kf_python kf) (kf_parse_dirs kf) (kf_conf_dirs kf) (Some (skipn 12 item)))
  else inl ECONF_OPTION_NOT_FOUND.

Fixpoint opt_items (kf : keyfile) (items : list str) : econf_err * keyfile :=
  match items with
  | [] => (ECONF_SUCCESS, kf)
  | it :: rest => match opt_item kf it with
                  | inr kf' => opt_items kf' rest
                  | inl e => (e, kf)          (* the object stays allocated, with what was set so far *)
                  end
  end.

Definition new_with_options (opts : option str) : econf_err * keyfile :=
  match opts with
  | None => (ECONF_SUCCESS, new_empty)
  | Some [] => (ECONF_SUCCESS, new_empty)
  | Some s => opt_items new_empty (split_on 59 s)
  end.
