(* StoreFacts.v — the object store of the scenario model: get after put, and
   the two facts about merges inside a history that C03 states (a merge is a
   function of its two argument objects; nothing is remembered between merges). *)
From Coq Require Import String Lia List.
From Econf Require Import Bytes BytesFacts Scenario MergeModel.
Local Open Scope N_scope.

Lemma sget_sput_same s o kf : sget (sput s o kf) o = Some kf.
Proof. unfold sput. simpl. now rewrite Nat.eqb_refl. Qed.

(* a merge's result and return code are a function of its two argument objects
   only: whatever else the store holds and whatever history (earlier merges
   with the same override included) produced it *)
Lemma merge_history_independent : forall s1 s2 dst a b ka kb,
  sget s1 a = Some ka -> sget s1 b = Some kb ->
  sget s2 a = Some ka -> sget s2 b = Some kb ->
  snd (step s1 (CMerge dst a b)) = snd (step s2 (CMerge dst a b)) /\
  sget (fst (step s1 (CMerge dst a b))) dst = Some (merge_model ka kb) /\
  sget (fst (step s2 (CMerge dst a b))) dst = Some (merge_model ka kb).
Proof.
  intros s1 s2 dst a b ka kb H1a H1b H2a H2b. simpl.
  rewrite H1a, H1b, H2a, H2b. simpl. rewrite !Nat.eqb_refl. auto.
Qed.

Lemma sget_sdel_other s dst o : dst <> o -> sget (sdel s dst) o = sget s o.
Proof.
  intros Hn. induction s as [|[o' k'] s IH]; simpl; [reflexivity|].
  destruct (Nat.eqb dst o') eqn:E2; simpl.
  - apply Nat.eqb_eq in E2. subst o'.
    replace (Nat.eqb o dst) with false by (symmetry; apply Nat.eqb_neq; congruence). exact IH.
  - destruct (Nat.eqb o o'); [reflexivity|exact IH].
Qed.

Lemma sget_sput_other s dst kf o : dst <> o -> sget (sput s dst kf) o = sget s o.
Proof.
  intros Hn. unfold sput. simpl.
  replace (Nat.eqb o dst) with false by (symmetry; apply Nat.eqb_neq; congruence).
  now apply sget_sdel_other.
Qed.

(* the same override merged onto a second base after it has been merged onto a
   first one: the second result is what the second merge alone gives *)
Lemma merge_same_override_twice : forall s d1 d2 b1 b2 o k1 k2 ko,
  sget s b1 = Some k1 -> sget s b2 = Some k2 -> sget s o = Some ko ->
  d1 <> b2 -> d1 <> o ->
  sget (fst (step (fst (step s (CMerge d1 b1 o))) (CMerge d2 b2 o))) d2 = Some (merge_model k2 ko) /\
  sget (fst (step s (CMerge d2 b2 o))) d2 = Some (merge_model k2 ko).
Proof.
  intros s d1 d2 b1 b2 o k1 k2 ko H1 H2 Ho N2 No.
  assert (S' : fst (step s (CMerge d1 b1 o)) = sput s d1 (merge_model k1 ko)).
  { simpl. now rewrite H1, Ho. }
  assert (G : forall s', sget s' b2 = Some k2 -> sget s' o = Some ko ->
              sget (fst (step s' (CMerge d2 b2 o))) d2 = Some (merge_model k2 ko)).
  { intros s' A B. simpl. rewrite A, B. simpl. now rewrite Nat.eqb_refl. }
  rewrite S'. split.
  - apply G; rewrite sget_sput_other; assumption.
  - now apply G.
Qed.
