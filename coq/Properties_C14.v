(* Properties_C14.v — C14: no length limit: long keys, values, comments, lines
   and paths are kept whole.
   The model has no bound anywhere (lists, unbounded numbers): C02_parse,
   C03_*, C07_roundtrip, C17_* hold for all lengths.  What could truncate are
   fixed-size buffers in the C source: their inventory is regenerated from
   the source on every run and must be exactly the list below, each accounted
   for.  PARTIAL: stack exhaustion by alloca and operating-system limits are
   runtime behaviour. *)
From Coq Require Import String Lia List.
From Econf Require Import Bytes BytesFacts KeyfileModel WriterModel LayeredModel Generated_facts.
Local Open Scope N_scope.

(* every fixed-size char buffer of lib/ and util/, as the source has them now.
   lib/: the thread-local scratch text of econf_errString for codes outside the
   table (a fixed format plus an int: fits); the error-location file name
   (reporting only, snprintf); realpath's PATH_MAX buffer (operating-system
   limit); the three default layer paths of econf_readConfig (snprintf:
   modelled by [snprintf_path], see C14_paths).  util/econftool.c: path
   buffers (PATH_MAX, snprintf with truncation checks) and two 3-byte answer
   buffers (scanf "%2s"); the 1024-byte buffer of replace_str (finding F21) went
   with its repair.
   No buffer holds a key, value, section name, comment or line. *)
Theorem C14_buffer_inventory :
  gen_buffers =
  [("lib/econf_error.c", "econf_errString", "buffer", "1024");
   ("lib/getfilecontents.c", "(file scope)", "last_scanned_filename", "PATH_MAX");
   ("lib/helpers.c", "get_absolute_path", "buffer", "PATH_MAX");
   ("lib/libeconf.c", "econf_readConfigWithCallback", "usr_dir", "PATH_MAX");
   ("lib/libeconf.c", "econf_readConfigWithCallback", "run_dir", "PATH_MAX");
   ("lib/libeconf.c", "econf_readConfigWithCallback", "etc_dir", "PATH_MAX");
   ("util/econftool.c", "(file scope)", "conf_dir", "PATH_MAX");
   ("util/econftool.c", "(file scope)", "conf_basename", "PATH_MAX");
   ("util/econftool.c", "(file scope)", "conf_filename", "PATH_MAX");
   ("util/econftool.c", "(file scope)", "conf_path", "PATH_MAX");
   ("util/econftool.c", "(file scope)", "root_dir", "PATH_MAX");
   ("util/econftool.c", "(file scope)", "usr_root_dir", "PATH_MAX");
   ("util/econftool.c", "(file scope)", "change_path", "PATH_MAX");
   ("util/econftool.c", "econf_edit_editor", "tmpfile_edit", "FILENAME_MAX");
   ("util/econftool.c", "econf_edit_editor", "path_tmpfile_edit", "PATH_MAX");
   ("util/econftool.c", "econf_edit_editor", "tmp_name", "PATH_MAX");
   ("util/econftool.c", "econf_edit", "input", "3");
   ("util/econftool.c", "econf_revert", "input", "3");
   ("util/econftool.c", "main", "home_dir", "PATH_MAX")]%string /\
  gen_allocas = [("lib/readconfig.c", "readConfigHistoryWithCallback"); ("lib/readconfig.c", "readConfigHistoryWithCallback")]%string.
Proof. split; reflexivity. Qed.
Print Assumptions C14_buffer_inventory.

(* the extended getter hands out the whole value: a value of any length
   without blanks and newlines is one item, itself *)
Lemma trim_noblank v : forallb (fun c => negb (isspace c)) v = true -> trim v = v.
Proof.
  intros H. unfold trim, ltrim, rtrim.
  assert (E : forall l, forallb (fun c => negb (isspace c)) l = true -> drop_while isspace l = l).
  { intros l. destruct l as [|c r]; [reflexivity|]. simpl. intros Hc. apply andb_true_iff in Hc as [Hc _].
    destruct (isspace c); [discriminate|reflexivity]. }
  rewrite (E v H). rewrite E; [apply rev_involutive|].
  rewrite forallb_forall in *. intros x Hx. apply H. now apply in_rev.
Qed.

Lemma split_noNL v : forallb (fun c => negb (isspace c)) v = true -> split_on nl v = [v].
Proof.
  intros H. unfold split_on.
  assert (G : forall cur, split_aux nl cur v = [rev cur ++ v]).
  { induction v as [|c r IH]; intros cur; simpl; [now rewrite app_nil_r|].
    simpl in H. apply andb_true_iff in H as [Hc Hr].
    replace (c =? nl) with false.
    2:{ symmetry. apply N.eqb_neq. intros ->. discriminate. }
    rewrite (IH Hr). simpl. now rewrite <- app_assoc. }
  apply (G []).
Qed.

Theorem C14_ext_whole : forall v,
  forallb (fun c => negb (isspace c)) v = true -> hd 0 v <> 34 -> v <> [] ->
  ext_values (Some v) = [v].
Proof.
  intros v H Hq Hne. unfold ext_values. rewrite (trim_noblank v H).
  destruct v as [|c r]; [congruence|]. simpl in Hq.
  assert (E : map trim (split_on nl (c :: r)) = [c :: r]).
  { rewrite (split_noNL _ H). simpl. now rewrite (trim_noblank _ H). }
  destruct c as [|p]; [exact E|].
  do 6 (destruct p as [p|p|]; try exact E). congruence.
Qed.
Print Assumptions C14_ext_whole.

(* the writer emits a comment of any length whole *)
Theorem C14_writer_comment_whole : forall pre c text,
  forallb (fun x => negb (x =? nl)) text = true -> text <> [] ->
  comment_lines pre c (Some text) = pre ++ c :: text ++ [nl].
Proof.
  intros pre c text H Hne. unfold comment_lines. destruct text as [|x r]; [congruence|].
  assert (E : split_on nl (x :: r) = [x :: r]).
  { unfold split_on.
    assert (G : forall v cur, forallb (fun x => negb (x =? nl)) v = true -> split_aux nl cur v = [rev cur ++ v]).
    { induction v as [|a v IH]; intros cur Hv; simpl; [now rewrite app_nil_r|].
      simpl in Hv. apply andb_true_iff in Hv as [Ha Hv]. destruct (a =? nl); [discriminate|].
      rewrite (IH _ Hv). simpl. now rewrite <- app_assoc. }
    apply (G (x :: r) [] H). }
  rewrite E. simpl. now rewrite app_nil_r.
Qed.
Print Assumptions C14_writer_comment_whole.

(* layer paths below PATH_MAX are composed without truncation *)
Theorem C14_paths : forall p, (length p < PATH_MAX)%nat -> snprintf_path p = p.
Proof. intros p H. unfold snprintf_path. apply firstn_all2. unfold PATH_MAX in *. lia. Qed.
Print Assumptions C14_paths.
