(* Extract.v — extraction of the executable model to OCaml.
   Only ExtrOcamlBasic's directives are used; N, Z, positive, nat stay the
   extracted inductive types. *)
From Coq Require Extraction ExtrOcamlBasic.
From Econf Require Import Scenario.
Extraction Language OCaml.
Extraction "model.ml" step run bs err_code all_errs.
