(* Extract.v — extraction of the executable model to OCaml.
   Only ExtrOcamlBasic's directives are used; N, Z, positive, nat stay the
   extracted inductive types. *)
From Coq Require Extraction ExtrOcamlBasic.
From Econf Require Import Scenario Grammar LayeredScenario WriterSpec ToolModel CwdModel.
Extraction Language OCaml.
(* the one extraction directive of our own: Coq's List.rev is quadratic; OCaml's
   List.rev computes the same list (lists are mapped to OCaml lists by ExtrOcamlBasic) *)
Extract Constant List.rev => "List.rev".
Extraction "model.ml" step run wstep world0 tool_show tool_syntax tool_cat cli_delims writable chk_render chk_wf chk_roundtrip err_code all_errs render wf_file agrees expected keyfile_of_read respell.
