(* WriterRender.v — the bytes written by the writer model are the rendering of
   the conventional file [ast_of]. *)
From Coq Require Import String Lia List.
From Econf Require Import Bytes BytesFacts Grammar LineBase WriterSpec.
Local Open Scope N_scope.
Local Opaque none_s.

(* ---------- render ---------- *)
Lemma wr_render_app a b : render (a ++ b) = render a ++ render b.
Proof. unfold render. now rewrite map_app, concat_app. Qed.

Lemma wr_render_cons l ls : render (l :: ls) = render_line l ++ render ls.
Proof. reflexivity. Qed.

(* ---------- split_on ---------- *)
Lemma wr_split_aux_join sep v : forall cur,
  concat (map (fun l => l ++ [sep]) (split_aux sep cur v)) = rev cur ++ v ++ [sep].
Proof.
  induction v as [|x v IH]; intros cur; cbn [split_aux].
  - cbn [map concat app]. now rewrite app_nil_r.
  - destruct (x =? sep) eqn:E.
    + apply N.eqb_eq in E; subst x. cbn [map concat]. rewrite IH. cbn [rev app].
      now rewrite <- app_assoc.
    + rewrite IH. cbn [rev]. rewrite <- app_assoc. reflexivity.
Qed.

Lemma wr_split_join sep v : concat (map (fun l => l ++ [sep]) (split_on sep v)) = v ++ [sep].
Proof. unfold split_on. rewrite wr_split_aux_join. reflexivity. Qed.

Lemma wr_split_aux_nonnil sep v : forall cur, split_aux sep cur v <> [].
Proof.
  induction v as [|x v IH]; intros cur; cbn [split_aux]; [discriminate|].
  destruct (x =? sep); [discriminate|apply IH].
Qed.

Lemma wr_split_nonnil sep v : split_on sep v <> [].
Proof. apply wr_split_aux_nonnil. Qed.

(* ---------- comments ---------- *)
Lemma wr_render_comments pre c ls :
  render (map (fun l => LComment pre c l) ls) = concat (map (fun l => pre ++ c :: l ++ [nl]) ls).
Proof.
  induction ls as [|l ls IH]; [reflexivity|].
  cbn [map]. rewrite wr_render_cons, IH. cbn [concat]. f_equal.
  unfold render_line; cbn [render_body]. rewrite <- app_assoc. reflexivity.
Qed.

Lemma wr_comment_lines pre c t : comment_lines pre c t = render (comment_ast pre c t).
Proof.
  destruct t as [[|x r]|]; try reflexivity.
  unfold comment_lines, comment_ast. symmetry. apply wr_render_comments.
Qed.

(* ---------- continuation lines ---------- *)
Lemma wr_render_conts conts :
  render (map (fun l => let '(ind, text) := cont_split l in LCont ind text [] None) conts)
  = concat (map (fun l => l ++ [nl]) conts).
Proof.
  induction conts as [|l conts IH]; [reflexivity|].
  cbn [map]. rewrite wr_render_cons, IH. cbn [concat]. f_equal.
  unfold cont_split, render_line; cbn [render_body render_tc app].
  rewrite app_nil_r. now rewrite take_drop_while.
Qed.

(* ---------- the key line ---------- *)
Lemma wr_kline_body d key val post tc :
  render_body (LKey (mkKL [] key (if d =? 32 then [32] else []) (if d =? 32 then None else Some d)
                          [] val post tc))
  = key ++ d :: render_value val ++ post ++ render_tc tc.
Proof.
  cbn [render_body kl_indent kl_key kl_b1 kl_d kl_b2 kl_val kl_post kl_tc].
  destruct (d =? 32) eqn:E.
  - apply N.eqb_eq in E; subst d. reflexivity.
  - reflexivity.
Qed.

Lemma wr_keyline_nil d key val :
  key ++ d :: render_value val ++ [nl]
  = render_line (LKey (mkKL [] key (if d =? 32 then [32] else []) (if d =? 32 then None else Some d)
                            [] val [] None)).
Proof.
  unfold render_line. rewrite wr_kline_body. cbn [render_tc app]. rewrite app_nil_r.
  rewrite <- app_assoc. reflexivity.
Qed.

Lemma wr_keyline_cav d c key val l1 more :
  key ++ d :: render_value val ++ concat (map (fun l => [32] ++ c :: l ++ [nl]) (l1 :: more)) ++ [nl]
  = render (LKey (mkKL [] key (if d =? 32 then [32] else []) (if d =? 32 then None else Some d)
                       [] val [32] (Some (c, l1)))
            :: map (fun l => LComment [32] c l) more ++ [LBlank []]).
Proof.
  rewrite wr_render_cons, wr_render_app, wr_render_comments.
  unfold render_line at 1. rewrite wr_kline_body. cbn [render_tc map concat].
  rewrite <- !app_assoc. cbn [app]. rewrite <- !app_assoc. reflexivity.
Qed.

Lemma wr_cav c t :
  comment_lines [32] c t
  = concat (map (fun l => [32] ++ c :: l ++ [nl])
                (match t with Some (x :: r) => split_on nl (x :: r) | _ => [] end)).
Proof. destruct t as [[|x r]|]; reflexivity. Qed.

(* ---------- one entry ---------- *)
Lemma wr_entry d c e : writable_entry d c e = true -> write_entry d c e = render (entry_ast d c e).
Proof.
  unfold writable_entry. intros H.
  apply andb_true_iff in H as [H _]. apply andb_true_iff in H as [_ Hv].
  unfold write_entry, entry_ast.
  rewrite wr_cav, wr_comment_lines.
  assert (Hm : match e_value e with
               | Some v => if e_quotes e then True
                           else match split_on nl v with
                                | _ :: _ :: _ =>
                                    match e_cav e with Some (x :: r) => split_on nl (x :: r) | _ => [] end = []
                                | _ => True
                                end
               | None => True
               end).
  { unfold writable_value in Hv. destruct (e_value e) as [v|]; [|exact I].
    destruct (e_quotes e); [exact I|].
    destruct (split_on nl v) as [|l0 [|c1 conts]]; try exact I.
    apply andb_true_iff in Hv as [_ Hv].
    destruct (e_cav e) as [[|x r]|]; try reflexivity. discriminate. }
  clear Hv.
  generalize dependent (match e_cav e with Some (x :: r) => split_on nl (x :: r) | _ => [] end).
  intros cavs Hm.
  destruct cavs as [|l1 more]; cbv beta iota; rewrite wr_render_app; f_equal.
  - (* no comment after the value *)
    rewrite app_nil_r. cbn [map concat app].
    destruct (e_value e) as [v|].
    + destruct (e_quotes e).
      * change (34 :: v ++ [34]) with (render_value (VQuoted v)).
        rewrite wr_keyline_nil. unfold render. cbn [map concat]. now rewrite app_nil_r.
      * destruct (split_on nl v) as [|l0 conts] eqn:Es.
        { exfalso. exact (wr_split_nonnil _ _ Es). }
        pose proof (wr_split_join nl v) as Hj. rewrite Es in Hj. cbn [map concat] in Hj.
        rewrite wr_render_cons, wr_render_conts.
        rewrite <- wr_keyline_nil. cbn [render_value].
        change (e_key e ++ d :: v ++ [nl]) with (e_key e ++ [d] ++ v ++ [nl]).
        rewrite <- Hj.
        change (e_key e ++ d :: l0 ++ [nl]) with (e_key e ++ [d] ++ l0 ++ [nl]).
        rewrite <- !app_assoc. reflexivity.
    + change (@nil N) with (render_value (VPlain [])) at 1.
      rewrite wr_keyline_nil. unfold render. cbn [map concat]. now rewrite app_nil_r.
  - (* a comment after the (single-line) value *)
    destruct (e_value e) as [v|].
    + destruct (e_quotes e).
      * change (34 :: v ++ [34]) with (render_value (VQuoted v)).
        rewrite wr_keyline_cav. reflexivity.
      * destruct (split_on nl v) as [|l0 conts] eqn:Es.
        { exfalso. exact (wr_split_nonnil _ _ Es). }
        pose proof (wr_split_join nl v) as Hj. rewrite Es in Hj. cbn [map concat] in Hj.
        destruct conts as [|c1 conts]; [|discriminate Hm].
        cbn [concat] in Hj. rewrite app_nil_r in Hj. apply app_inv_tail in Hj. subst l0.
        change v with (render_value (VPlain v)) at 1.
        rewrite wr_keyline_cav. reflexivity.
    + change (@nil N) with (render_value (VPlain [])) at 1.
      rewrite wr_keyline_cav. reflexivity.
Qed.

(* ---------- section header ---------- *)
Lemma wr_add_brackets c g : wf_section [c] [] g [] = true -> add_brackets g = 91 :: g ++ [93].
Proof.
  unfold wf_section. intros H.
  apply andb_true_iff in H as [H _]. apply andb_true_iff in H as [H _].
  apply andb_true_iff in H as [H Hf]. apply andb_true_iff in H as [_ Hn].
  destruct g as [|x r]; [discriminate|]. clear Hn.
  cbn [forallb] in Hf. apply andb_true_iff in Hf as [Hf _].
  apply andb_true_iff in Hf as [Hf _]. apply andb_true_iff in Hf as [_ Hf].
  apply negb_true_iff in Hf. apply N.eqb_neq in Hf.
  unfold add_brackets.
  destruct x as [|p]; [reflexivity|].
  revert Hf.
  repeat (try (intros _; reflexivity); destruct p as [p|p|]).
  intros Hf. exfalso. apply Hf. reflexivity.
Qed.

Lemma wr_header c g :
  writable_group c g = true -> str_eqb g none_s = false ->
  add_brackets g ++ [nl] = render [LSection [] g []].
Proof.
  unfold writable_group. intros H Hn. rewrite Hn in H. cbn [orb] in H.
  rewrite (wr_add_brackets c g H).
  unfold render, render_line. cbn [map concat render_body app]. rewrite app_nil_r.
  rewrite <- app_assoc. reflexivity.
Qed.

(* ---------- one pass ---------- *)
Lemma wr_pass d c w es :
  forallb (writable_entry d c) es = true ->
  forall last,
    write_pass d c w es last
    = (render (fst (pass_ast d c w es last)), snd (pass_ast d c w es last)).
Proof.
  induction es as [|e es IH]; intros H last; [reflexivity|].
  cbn [forallb] in H. apply andb_true_iff in H as [He H].
  cbn [write_pass pass_ast].
  destruct (Bool.eqb (is_none e) w).
  - rewrite (IH H).
    destruct (pass_ast d c w es (Some (e_group e))) as [out l'].
    cbn [fst snd]. f_equal.
    rewrite !wr_render_app. rewrite (wr_entry d c e He). f_equal.
    assert (Hg : writable_group c (e_group e) = true).
    { unfold writable_entry in He. apply andb_true_iff in He as [He _].
      apply andb_true_iff in He as [He _]. apply andb_true_iff in He as [_ He]. exact He. }
    unfold is_none.
    destruct last as [g|].
    + destruct (str_eqb g (e_group e)); [reflexivity|].
      destruct (str_eqb (e_group e) none_s) eqn:En; [reflexivity|].
      rewrite (wr_header c _ Hg En). reflexivity.
    + destruct (str_eqb (e_group e) none_s) eqn:En; [reflexivity|].
      rewrite (wr_header c _ Hg En). reflexivity.
  - apply IH. exact H.
Qed.

(* ---------- the file ---------- *)
Theorem write_is_render : forall kf, writable kf = true -> write_model kf = render (ast_of kf).
Proof.
  intros kf H. unfold writable in H. apply andb_true_iff in H as [_ H].
  unfold write_model, ast_of.
  rewrite (wr_pass _ _ true _ H None).
  destruct (pass_ast (kf_delim kf) (kf_comment kf) true (kf_entries kf) None) as [a1 l1].
  cbn [fst snd].
  rewrite (wr_pass _ _ false _ H l1).
  destruct (pass_ast (kf_delim kf) (kf_comment kf) false (kf_entries kf) l1) as [a2 l2].
  cbn [fst snd]. now rewrite wr_render_app.
Qed.
