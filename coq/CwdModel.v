(* CwdModel.v — absolute names, and the working directory of the process
   (definitions only; facts in PathFacts.v). *)
From Coq Require Import String List.
From Econf Require Import Bytes LayeredModel.
Local Open Scope N_scope.

Definition is_abs (p : str) : bool := match p with 47 :: _ => true | _ => false end.

(* ---------- the working directory ----------
   The model keeps its working directory at the root of the tree.  A process
   that has moved to [cwd] and names a file relatively means the file
   [cwd ++ "/" ++ p]; [respell] spells that name relative to the root, so that
   it takes the model's relative-name route (realpath).  The model driver uses
   the extracted [respell] for `readfile` after `chdir`. *)
Fixpoint strip_slashes (s : str) : str :=
  match s with
  | c :: r => if c =? 47 then strip_slashes r else s
  | [] => []
  end.

Definition respell (cwd p : str) : str :=
  if is_abs p then p
  else match strip_slashes cwd with
       | [] => p
       | d => d ++ 47 :: p
       end.

