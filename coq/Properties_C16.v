(* Properties_C16.v — C16: owner, group and symlink restrictions gate every
   file of every read.  Proofs: LayeredFactsA.v.  The regenerated call-site
   inventory shows that the parser is entered only through the gate. *)
From Coq Require Import String Lia List.
From Econf Require Import Bytes BytesFacts LayeredSpec LayeredFactsA Generated_facts LayeredScenario ThreadsModel ThreadsGlobal SecOps.
Local Open Scope N_scope.

(* a file that violates a rule in force is refused with the specific code,
   before the callback is asked and before it is opened *)
Theorem C16_refuse : forall t g cb o path dl cm n,
  fs_lstat t path = Some n -> sec_ok (g_sec g) n = false ->
  go_res (gate t g cb o path dl cm) = inl (sec_code (g_sec g) n) /\ go_events (gate t g cb o path dl cm) = [].
Proof. exact gate_refuses. Qed.
Print Assumptions C16_refuse.

(* files that satisfy the rules are read as if no rule were in force *)
Theorem C16_unaffected : forall t g cb o path dl cm n,
  fs_lstat t path = Some n -> sec_ok (g_sec g) n = true -> perm_refusal (g_sec g) t path n = None ->
  go_res (gate t g cb o path dl cm) =
  go_res (gate t (mkG sec_none (g_conf_dirs g) (g_errfile g) (g_errline g)) cb o path dl cm) /\
  go_events (gate t g cb o path dl cm) =
  go_events (gate t (mkG sec_none (g_conf_dirs g) (g_errfile g) (g_errline g)) cb o path dl cm).
Proof. exact gate_unaffected. Qed.
Print Assumptions C16_unaffected.

(* the deprecated permission requirement (not named by the property, modelled since it shares the gate): a file that
   passes the three rules but lacks the demanded mode bits is refused with the permission code, before callback and
   open; [perm_refusal] is [None] whenever no requirement was set, so C16_unaffected covers the property's settings *)
Theorem C16_permission_refused : forall t g cb o path dl cm n e,
  fs_lstat t path = Some n -> sec_ok (g_sec g) n = true -> perm_refusal (g_sec g) t path n = Some e ->
  go_res (gate t g cb o path dl cm) = inl e /\ go_events (gate t g cb o path dl cm) = [].
Proof. exact gate_perm_refuses. Qed.
Print Assumptions C16_permission_refused.
Theorem C16_no_requirement_no_refusal : forall s t path n, sec_perms s = None -> perm_refusal s t path n = None.
Proof. intros s t path n H. unfold perm_refusal. rewrite H. reflexivity. Qed.
Print Assumptions C16_no_requirement_no_refusal.

(* every file a layered read opens satisfies the rules in force — whatever
   the tree, the parameters, the entry point *)
Theorem C16_every_opened_file : forall t g cb o parse_dirs conf_dirs name sfx dl cm,
  opened_ok t (g_sec g) (ho_events (history t g cb o parse_dirs conf_dirs name sfx dl cm)) = true.
Proof. intros. now destruct (history_events_corrected t g cb o parse_dirs conf_dirs name sfx dl cm) as (_ & H & _). Qed.
Print Assumptions C16_every_opened_file.
Theorem C16_readDirs : forall t g cb dist etc name sfx dl cm,
  opened_ok t (g_sec g) (r2_events (read_dirs t g cb dist etc name sfx dl cm)) = true.
Proof. intros. now destruct (read_dirs_events_corrected t g cb dist etc name sfx dl cm). Qed.
Print Assumptions C16_readDirs.
Theorem C16_readConfig : forall t g cb obj0 project usr name sfx dl cm,
  opened_ok t (g_sec g) (r2_events (read_config t g cb obj0 project usr name sfx dl cm)) = true.
Proof. intros. now destruct (read_config_events_corrected t g cb obj0 project usr name sfx dl cm). Qed.
Print Assumptions C16_readConfig.

(* after the reset call no rule is in force: everything is acceptable *)
Theorem C16_reset : forall n, sec_ok sec_none n = true.
Proof. intros n. reflexivity. Qed.
Print Assumptions C16_reset.

(* "in force" is process-wide: a requirement (or the reset, s = sec_none) issued by thread i is what gates the next call
   of every thread j, on j's own objects, tree and callback *)
Theorem C16_process_wide : forall g ts i j s c,
  run_sched g ts [(i, WSec s); (j, c)] =
  [(i, ORc ECONF_SUCCESS);
   (j, snd (tstep (mkG s (g_conf_dirs g) (g_errfile g) (g_errline g)) (ts j) c))].
Proof. exact settings_are_process_wide. Qed.
Print Assumptions C16_process_wide.

Theorem C16_permissions_process_wide : forall g ts i j fm dm c,
  run_sched g ts [(i, WPerms fm dm); (j, c)] =
  [(i, ORc ECONF_SUCCESS);
   (j, snd (tstep (mkG (mkSec (sec_owner (g_sec g)) (sec_group (g_sec g)) (sec_nolinks (g_sec g)) (Some (fm, dm)))
                       (g_conf_dirs g) (g_errfile g) (g_errline g)) (ts j) c))].
Proof. exact perms_are_process_wide. Qed.
Print Assumptions C16_permissions_process_wide.

(* the setters, one call at a time (SecOps.v): every setter ASSIGNS — the source says so (bodies regenerated from
   lib/libeconf.c on every run) — hence what is in force is what the LAST call for a field said, after any history of
   earlier calls (redundant ones, opposite ones, repeated ones) *)
Theorem C16_setters_assign :
  gen_security_setters =
  [("econf_requireOwner", ["file_owner_set=true"; "file_owner=owner"]);
   ("econf_requireGroup", ["file_group_set=true"; "file_group=group"]);
   ("econf_requirePermissions", ["file_permissions_set=true"; "file_perms_file=file_perms"; "file_perms_dir=dir_perms"]);
   ("econf_followSymlinks", ["allow_follow_symlinks=allow"]);
   ("econf_reset_security_settings", ["file_owner_set=false"; "file_group_set=false"; "file_permissions_set=false"; "allow_follow_symlinks=true"])]%string.
Proof. reflexivity. Qed.
Print Assumptions C16_setters_assign.

Theorem C16_last_call_counts : forall before allow after s,
  forallb (fun o => negb (touches_follow o)) after = true ->
  sec_nolinks (sec_run s (before ++ OpFollow allow :: after)) = negb allow.
Proof. exact follow_last_call_counts. Qed.
Print Assumptions C16_last_call_counts.

Theorem C16_last_owner_group_count : forall before after s,
  (forall u, forallb (fun o => negb (touches_owner o)) after = true -> sec_owner (sec_run s (before ++ OpOwner u :: after)) = Some u) /\
  (forall g, forallb (fun o => negb (touches_group o)) after = true -> sec_group (sec_run s (before ++ OpGroup g :: after)) = Some g) /\
  sec_run s (before ++ [OpReset]) = sec_none.
Proof.
  intros before after s. split; [|split].
  - intros u H. now apply owner_last_call_counts.
  - intros g H. now apply group_last_call_counts.
  - apply reset_forgets_everything.
Qed.
Print Assumptions C16_last_owner_group_count.

(* the six call sequences the harness uses for "sec o g n" all install the setting the scenario model installs at once *)
Theorem C16_harness_orders : forall k o g nolinks s0,
  sec_run s0 (harness_order k o g nolinks) = mkSec o g nolinks None.
Proof. exact harness_orders_agree. Qed.
Print Assumptions C16_harness_orders.

(* the source, as it is now: read_file is called only from the gate, the gate
   only from the three readers, fopen for reading only in read_file, lstat only
   in the gate (regenerated on every run) *)
Theorem C16_single_entrance :
  gen_callsites = [("getfilecontents.c", "read_file", "fopen");
                   ("getfilecontents.c", "read_file_with_callback", "lstat");
                   ("getfilecontents.c", "read_file_with_callback", "read_file");
                   ("libeconf.c", "econf_readFileWithCallback", "read_file_with_callback");
                   ("libeconf.c", "econf_writeFile", "fopen");
                   ("mergefiles.c", "check_conf_dir", "read_file_with_callback");
                   ("readconfig.c", "readConfigHistoryWithCallback", "read_file_with_callback")]%string.
Proof. reflexivity. Qed.
Print Assumptions C16_single_entrance.
