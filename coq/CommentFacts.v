(* CommentFacts.v — comment lines are inert: for the parser model in every
   state, at the level of meanings, and for whole files. *)
From Coq Require Import String Lia List.
From Econf Require Import Bytes BytesFacts Grammar CommentLoop LineBase ParserFacts ParserFile.
Local Open Scope N_scope.

(* ---------- cstr and removelast_nl ---------- *)
Lemma cf_cstr_app (a r : str) : nonzero a = true -> cstr (a ++ r) = a ++ cstr r.
Proof.
  induction a as [|x a IH]; intros H; [reflexivity|].
  rewrite nonzero_cons in H. apply andb_true_iff in H as [H1 H2].
  cbn [app cstr]. destruct (x =? 0); [discriminate|]. f_equal. now apply IH.
Qed.

Lemma cf_cstr_cons (c : N) (r : str) : c <> 0 -> cstr (c :: r) = c :: cstr r.
Proof. intros H. cbn [cstr]. apply N.eqb_neq in H. now rewrite H. Qed.

Lemma cf_cstr_no_nl (t : str) : no_nl t = true -> no_nl (cstr t) = true.
Proof.
  induction t as [|x t IH]; intros H; [reflexivity|].
  rewrite no_nl_cons in H. apply andb_true_iff in H as [H1 H2].
  cbn [cstr]. destruct (x =? 0); [reflexivity|]. rewrite no_nl_cons, H1. now apply IH.
Qed.

Lemma cf_no_nl_notin (x : str) : no_nl x = true -> ~ In 10 x.
Proof.
  unfold no_nl. intros H Hin. rewrite forallb_forall in H. specialize (H 10 Hin). discriminate.
Qed.

Lemma cf_removelast_no_nl (x : str) : no_nl x = true -> removelast_nl x = x.
Proof.
  intros H. unfold removelast_nl. destruct (rev x) as [|y r] eqn:E; [reflexivity|].
  destruct (N.eq_dec y 10) as [->|Hy].
  - exfalso. apply (cf_no_nl_notin x H). apply in_rev. rewrite E. now left.
  - destruct y as [|p]; [reflexivity|].
    do 4 (destruct p as [p|p|]; try reflexivity). congruence.
Qed.

Lemma cf_cstr_text_nl (text : str) :
  cstr (text ++ [10]) = cstr text ++ [10] \/ cstr (text ++ [10]) = cstr text.
Proof.
  induction text as [|x t IH]; [left; reflexivity|].
  cbn [app cstr]. destruct (x =? 0); [right; reflexivity|].
  destruct IH as [-> | ->]; [left|right]; reflexivity.
Qed.

Lemma cf_visible ind c text :
  nonzero ind = true -> c <> 0 -> no_nl (ind ++ c :: text) = true ->
  removelast_nl (cstr ((ind ++ c :: text) ++ [10])) = ind ++ c :: cstr text.
Proof.
  intros Hnz Hc Hnl.
  rewrite <- app_assoc, <- app_comm_cons.
  rewrite (cf_cstr_app ind _ Hnz), (cf_cstr_cons c _ Hc).
  rewrite no_nl_app, no_nl_cons in Hnl. apply andb_true_iff in Hnl as [Hn1 Hn2].
  apply andb_true_iff in Hn2 as [Hn2 Hn3].
  destruct (cf_cstr_text_nl text) as [-> | ->].
  - rewrite app_comm_cons, app_assoc. apply removelast_nl_app.
  - apply cf_removelast_no_nl. rewrite no_nl_app, no_nl_cons, Hn1, Hn2. now apply cf_cstr_no_nl.
Qed.

Lemma cf_visible_last ind c text :
  nonzero ind = true -> c <> 0 -> no_nl (ind ++ c :: text) = true ->
  removelast_nl (cstr (ind ++ c :: text)) = ind ++ c :: cstr text.
Proof.
  intros Hnz Hc Hnl.
  rewrite (cf_cstr_app ind _ Hnz), (cf_cstr_cons c _ Hc).
  rewrite no_nl_app, no_nl_cons in Hnl. apply andb_true_iff in Hnl as [Hn1 Hn2].
  apply andb_true_iff in Hn2 as [Hn2 Hn3].
  apply cf_removelast_no_nl. rewrite no_nl_app, no_nl_cons, Hn1, Hn2. now apply cf_cstr_no_nl.
Qed.

(* the comment branch of parse_line *)
Lemma cf_parse_shape o dl cm s raw X c t :
  removelast_nl (cstr raw) = X -> drop_while isspace X = c :: t -> mem c cm = true ->
  parse_line o dl cm s raw =
  PCont (mkPS (p_rev s) (p_groups s) (p_cur s) (append_opt (p_cbk s) t) (p_cav s) (p_line s + 1)).
Proof.
  intros HX Hd Hm. unfold parse_line. rewrite HX.
  destruct X as [|b0 buf']; [cbn [drop_while] in Hd; discriminate|].
  rewrite Hd, Hm. reflexivity.
Qed.

(* 1. *)
Theorem comment_inert : forall o dl cm s ind c text,
  forallb isspace ind = true -> nonzero ind = true ->
  mem c cm = true -> isspace c = false -> c <> 0 ->
  no_nl (ind ++ c :: text) = true ->
  parse_line o dl cm s ((ind ++ c :: text) ++ [10]) =
  PCont (mkPS (p_rev s) (p_groups s) (p_cur s) (append_opt (p_cbk s) (cstr text)) (p_cav s) (p_line s + 1)).
Proof.
  intros o dl cm s ind c text Hsp Hnz Hm Hc Hc0 Hnl.
  apply (cf_parse_shape o dl cm s _ (ind ++ c :: cstr text) c (cstr text)).
  - now apply cf_visible.
  - now apply drop_while_app_stop.
  - exact Hm.
Qed.

Theorem comment_inert_last : forall o dl cm s ind c text,
  forallb isspace ind = true -> nonzero ind = true ->
  mem c cm = true -> isspace c = false -> c <> 0 ->
  no_nl (ind ++ c :: text) = true ->
  parse_line o dl cm s (ind ++ c :: text) =
  PCont (mkPS (p_rev s) (p_groups s) (p_cur s) (append_opt (p_cbk s) (cstr text)) (p_cav s) (p_line s + 1)).
Proof.
  intros o dl cm s ind c text Hsp Hnz Hm Hc Hc0 Hnl.
  apply (cf_parse_shape o dl cm s _ (ind ++ c :: cstr text) c (cstr text)).
  - now apply cf_visible_last.
  - now apply drop_while_app_stop.
  - exact Hm.
Qed.

(* 2. what a user can see of an entry *)
Definition core (e : entry) : str * str * option str * bool := (e_group e, e_key e, e_value e, e_quotes e).

Definition cf_R (s s' : pstate) : Prop :=
  map core (p_rev s) = map core (p_rev s') /\ p_groups s = p_groups s' /\ p_cur s = p_cur s'.

Lemma cf_R_refl s : cf_R s s.
Proof. repeat split. Qed.

Lemma cf_R_step dl s s' l : cf_R s s' -> cf_R (exp_step dl s l) (exp_step dl s' l).
Proof.
  intros (H1 & H2 & H3).
  destruct l as [ws|ind c text|ind name post|k|ind text post tc]; cbn [exp_step].
  - unfold cf_R; cbn [p_rev p_groups p_cur]. auto.
  - unfold cf_R; cbn [p_rev p_groups p_cur]. auto.
  - unfold cf_R; cbn [p_rev p_groups p_cur]. rewrite H2. auto.
  - unfold cf_R; cbn [p_rev p_groups p_cur map]. rewrite H1, H2, H3.
    unfold core at 1 3; cbn [e_group e_key e_value e_quotes]. auto.
  - destruct (p_rev s) as [|e r] eqn:E1; destruct (p_rev s') as [|e' r'] eqn:E2;
      cbn [map] in H1; try discriminate.
    + unfold cf_R. rewrite E1, E2. auto.
    + injection H1 as Hg Hk Hv Hq Hr.
      unfold cf_R; cbn [p_rev p_groups p_cur map]. rewrite Hr, H2, H3.
      unfold core at 1 3; cbn [e_group e_key e_value e_quotes].
      rewrite Hg, Hk, Hv, Hq. auto.
Qed.

Lemma cf_R_comment dl s ind c text : cf_R s (exp_step dl s (LComment ind c text)).
Proof. cbn [exp_step]. unfold cf_R; cbn [p_rev p_groups p_cur]. auto. Qed.

Lemma cf_R_fold dl ls : forall s s', cf_R s s' ->
  cf_R (fold_left (exp_step dl) ls s) (fold_left (exp_step dl) ls s').
Proof.
  induction ls as [|l ls IH]; intros s s' H; [exact H|].
  cbn [fold_left]. apply IH. now apply cf_R_step.
Qed.

Theorem comment_insert_meaning : forall dl ls1 ls2 ind c text s,
  let a := fold_left (exp_step dl) (ls1 ++ ls2) s in
  let b := fold_left (exp_step dl) (ls1 ++ LComment ind c text :: ls2) s in
  map core (p_rev a) = map core (p_rev b) /\ p_groups a = p_groups b /\ p_cur a = p_cur b.
Proof.
  intros dl ls1 ls2 ind c text s a b. subst a b.
  rewrite !fold_left_app. cbn [fold_left].
  apply (cf_R_fold dl ls2). apply cf_R_comment.
Qed.

Definition no_cont (l : cline) : bool := match l with LCont _ _ _ _ => false | _ => true end.

(* ---------- well-formedness of the file with the inserted line ---------- *)
Lemma cf_wf_line_false dl cm p l :
  wf_line dl cm p l = true -> no_cont l = true -> wf_line dl cm false l = true.
Proof.
  intros H Hn. destruct p; [|exact H].
  destruct l as [ws|ind c text|ind name post|k|ind text post tc]; try exact H; [|discriminate].
  destruct ws as [|w ws]; [reflexivity|].
  cbn [wf_line] in *. apply andb_true_iff in H as [Hb Hc]. rewrite Hb.
  destruct (class_of dl); try discriminate; reflexivity.
Qed.

Lemma cf_wf_lines_false dl cm p ls :
  wf_lines dl cm p ls = true -> forallb no_cont ls = true -> wf_lines dl cm false ls = true.
Proof.
  destruct ls as [|l ls]; [reflexivity|]. cbn [wf_lines forallb]. intros H Hn.
  apply andb_true_iff in H as [H1 H2]. apply andb_true_iff in Hn as [Hn1 Hn2].
  rewrite (cf_wf_line_false dl cm p l H1 Hn1). exact H2.
Qed.

Lemma cf_wf_insert dl cm cl :
  (forall p, wf_line dl cm p cl = true) -> is_entry_line cl = false ->
  forall ls1 prev ls2,
  wf_lines dl cm prev (ls1 ++ ls2) = true -> forallb no_cont (ls1 ++ ls2) = true ->
  wf_lines dl cm prev (ls1 ++ cl :: ls2) = true.
Proof.
  intros Hcl He. induction ls1 as [|l ls1 IH]; intros prev ls2 H Hn.
  - cbn [app] in *. cbn [wf_lines]. rewrite Hcl, He. cbn [andb].
    now apply (cf_wf_lines_false dl cm prev).
  - cbn [app wf_lines forallb] in *.
    apply andb_true_iff in H as [H1 H2]. apply andb_true_iff in Hn as [Hn1 Hn2].
    rewrite H1. cbn [andb]. now apply IH.
Qed.

(* 3. *)
Theorem comment_insert_delete : forall dl cm ls1 ls2 ind c text,
  wf_file dl cm (ls1 ++ ls2) = true -> forallb no_cont (ls1 ++ ls2) = true ->
  blanks ind = true -> mem c cm = true -> forallb tb text = true ->
  let r1 := read_bytes std_opts dl cm (render (ls1 ++ ls2)) in
  let r2 := read_bytes std_opts dl cm (render (ls1 ++ LComment ind c text :: ls2)) in
  r_err r1 = ECONF_SUCCESS /\ r_err r2 = ECONF_SUCCESS /\
  map core (r_entries r1) = map core (r_entries r2) /\ r_groups r1 = r_groups r2.
Proof.
  intros dl cm ls1 ls2 ind c text Hwf Hnc Hi Hc Ht r1 r2.
  assert (Hwf2 : wf_file dl cm (ls1 ++ LComment ind c text :: ls2) = true).
  { unfold wf_file in *. apply andb_true_iff in Hwf as [Hok Hl]. rewrite Hok. cbn [andb].
    apply cf_wf_insert; [|reflexivity|exact Hl|exact Hnc].
    intros p. cbn [wf_line]. now rewrite Hi, Hc, Ht. }
  subst r1 r2.
  rewrite (parse_file_ok dl cm _ Hwf), (parse_file_ok dl cm _ Hwf2).
  cbn [r_err r_entries r_groups]. unfold expected.
  pose proof (comment_insert_meaning dl ls1 ls2 ind c text init_pstate) as H.
  cbv zeta in H. destruct H as (H1 & H2 & _).
  repeat split; [|exact H2].
  rewrite !map_rev. now rewrite H1.
Qed.
