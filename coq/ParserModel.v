(* ParserModel.v — lib/getfilecontents.c: read_file, store, join_same_entries.
   Model file: definitions only.  One physical line is processed by
   [parse_line]; [read_lines] folds it over the lines of the file. *)
From Coq Require Import String.
From Econf Require Export KeyfileModel.
Local Open Scope N_scope.

Record popts := mkPopts { o_python : bool; o_join : bool }.

Record pstate := mkPS {
  p_rev : list entry;          (* entries stored so far, LAST FIRST *)
  p_groups : list str;
  p_cur : option str;          (* current_group *)
  p_cbk : option str;          (* current_comment_before_key *)
  p_cav : option str;          (* current_comment_after_value *)
  p_line : N }.                (* lines read so far = last_scanned_line_nr *)

Inductive presult :=
| PCont (s : pstate)                     (* go on with the next line *)
| PStop (e : econf_err) (s : pstate).    (* goto out *)

Definition init_pstate : pstate := mkPS [] [] None None None 0.

(* asprintf("%s\n%s") onto a possibly absent first part *)
Definition append_opt (o : option str) (t : str) : option str :=
  match o with None => Some t | Some s => Some (s ++ nl :: t) end.

(* check_delim *)
Definition has_wsp (d : str) : bool := existsb isspace d.
Definition has_nonwsp (d : str) : bool := existsb (fun c => negb (isspace c)) d.
Definition is_mixed (d : str) : bool := has_wsp d && has_nonwsp d.

(* "no delimiter defined" test of read_file *)
Definition keys_only (d : str) : bool :=
  match d with [] => true | [10] => true | _ => false end.

(* end of the key: first blank or delimiter character *)
Definition key_stop (d : str) (c : byte) : bool := isspace c || mem c d.

Definition removelast_nl (s : str) : str :=
  match rev s with 10 :: r => rev r | _ => s end.

(* store(): trailing blanks of the key are removed, its first byte is kept *)
Definition key_trim (k : str) : str :=
  match k with [] => [] | c :: r => c :: rtrim r end.

Definition store_new (s : pstate) (key : str) (value : option str) (line : N) (quotes : bool) : pstate :=
  let g := match p_cur s with Some g => g | None => none_s end in
  let e := mkE g (key_trim key) value (p_cbk s) (p_cav s) line quotes in
  mkPS (e :: p_rev s) (intern (p_groups s) g) (p_cur s) None None line.

(* store() with append_entry; only called when an entry exists *)
Definition store_append (py : bool) (s : pstate) (value : str) (line : N) : pstate :=
  match p_rev s with
  | [] => s
  | e :: rest =>
      let v := if py then ltrim value else value in
      let nv := (match e_value e with Some x => x | None => [] end) ++ nl :: v in
      let ca := match e_cav e, p_cav s with
                | Some _, None => Some []
                | _, c => c
                end in
      let ncav := match ca with
                  | None => e_cav e
                  | Some c => match e_cav e with
                              | Some x => Some (x ++ nl :: c)
                              | None => Some (nl :: c)
                              end
                  end in
      let e' := mkE (e_group e) (e_key e) (Some nv) (e_cbk e) ncav line (e_quotes e) in
      mkPS (e' :: rest) (p_groups s) (p_cur s) None None line
  end.

(* One comment character of the trailing-comment loop, on the line buffer
   [nm] (bytes from the first non-blank on, cuts written as 0 bytes).
   Returns the buffer, the position of `data` if it was set, and the pending
   trailing comment. *)
Definition comment_step (d : str) (c : byte) (st : str * option nat * option str)
  : str * option nat * option str :=
  let '(nm, di, cav) := st in
  let vis := cstr nm in
  match rfind_idx c vis with
  | None => st
  | Some O => st                         (* unreachable: the line is no comment line *)
  | Some p =>
      let di' := Some (length (take_while (fun x => negb (key_stop d x)) vis)) in
      let quote_ok := match find_idx 34 vis, rfind_idx 34 vis with
                      | None, _ => true
                      | Some _, Some lq => Nat.ltb lq p
                      | Some _, None => true
                      end in
      if quote_ok then
        (firstn p nm ++ 0 :: skipn (S p) nm, di', append_opt cav (skipn (S p) vis))
      else (nm, di', cav)
  end.

(* strip comments from the raw copy of a continuation line *)
Definition cut_at_comments (cm : str) (o : str) : str :=
  fold_left (fun o c => match find_idx c o with Some i => firstn i o | None => o end) cm o.

Definition section_line (s : pstate) (rest : str) (line : N) : presult :=
  (* rest: bytes after '['; walk back over blanks, expect ']' *)
  let t := rtrim rest in
  match rev t with
  | 93 :: rname =>
      match rev rname with
      | [] => PStop ECONF_EMPTY_SECTION_NAME s
      | name => PCont (mkPS (p_rev s) (intern (p_groups s) name) (Some name)
                            (p_cbk s) (p_cav s) line)
      end
  | _ => if mem 93 rest then PStop ECONF_TEXT_AFTER_SECTION s
         else PStop ECONF_MISSING_BRACKET s
  end.

(* the value part of a key line: [d] = bytes after the separator character *)
Definition value_of (dl : str) (mixed : bool) (dwsp : bool) (delim_seen : bool) (d0 : str)
  : econf_err + (option str * bool) :=
  match d0 with
  | [] => inr (None, false)
  | _ =>
      let d1 := drop_while isspace d0 in
      let d2 : econf_err + str :=
        if negb dwsp && negb delim_seen then
          match d1 with
          | c :: r => if mem c dl then inr (drop_while isspace r) else inl ECONF_MISSING_DELIMITER
          | [] => inl ECONF_MISSING_DELIMITER
          end
        else if mixed && negb delim_seen then
          match d1 with
          | c :: r => if mem c dl then inr (drop_while isspace r) else inr d1
          | [] => inr d1
          end
        else inr d1 in
      match d2 with
      | inl e => inl e
      | inr d =>
          match d with
          | 34 :: q =>
              let v := key_trim q in
              match rev v with
              | 34 :: rv => inr (Some (rev rv), true)        (* closing quote: strip both *)
              | _ => inr (Some (34 :: v), true)              (* one-sided: keep the quote *)
              end
          | _ => inr (Some (key_trim d), false)
          end
      end
  end.

Definition last_line_is (s : pstate) (line : N) : bool :=
  match p_rev s with e :: _ => e_line e + 1 =? line | [] => false end.

Definition bump (s : pstate) : pstate :=
  mkPS (p_rev s) (p_groups s) (p_cur s) (p_cbk s) (p_cav s) (p_line s + 1).

Definition with_cav (s : pstate) (cav : option str) : pstate :=
  mkPS (p_rev s) (p_groups s) (p_cur s) (p_cbk s) cav (p_line s).

(* the raw copy of a continuation line as it is appended to the last value *)
Definition cont_text (o : popts) (cm org : str) : str :=
  removelast_nl (if o_python o then org else cut_at_comments cm org).

(* "key delimiter value" lines and continuation lines; [vis] is the line from
   its first non-blank byte, trailing comment removed; [s] has the line number
   of this line *)
Definition parse_kv (o : popts) (dl cm : str) (s : pstate) (org : str) (b0 : byte) (vis : str) : presult :=
  let line := p_line s in
  let k := take_while (fun x => negb (key_stop dl x)) vis in
  let rest := skipn (length k) vis in
  let mixed := is_mixed dl in
  let cut := match k, rest with _ :: _, _ :: _ => true | _, _ => false end in
  let sep := hd 0 rest in
  let delim_seen := cut && (if mixed then negb (isspace sep) && mem sep dl else mem sep dl) in
  let data := if cut then tl rest else rest in
  let key := if cut then k else vis in
  let continuation :=
    if mixed then false
    else
      let found :=
        if negb (o_python o) || negb (isspace b0) then
          delim_seen || existsb (fun x => mem x dl) data
        else false in
      negb found && last_line_is s line in
  if continuation then
    PCont (store_append (o_python o) s (cont_text o cm org) line)
  else
    match k with
    | [] => PCont s                       (* !*name || data == name *)
    | _ =>
      match value_of dl mixed (has_wsp dl) delim_seen data with
      | inl e => PStop e s
      | inr (v, q) => PCont (store_new s key v line q)
      end
    end.

(* a line that is not blank and not a comment line; [name]: from the first
   non-blank byte on *)
Definition parse_entry (o : popts) (dl cm : str) (s : pstate) (org : str) (b0 : byte) (name : str) : presult :=
  let line := p_line s in
  let '(nm, di, cav) :=
    if o_python o then (name, None, p_cav s)
    else fold_left (fun st c => comment_step dl c st) cm (name, None, p_cav s) in
  let s := with_cav s cav in
  let vis := cstr nm in
  match vis with
  | 91 :: rest => section_line s rest line
  | _ =>
    if keys_only dl then
      PCont (store_new s vis (option_map (fun i => cstr (skipn i nm)) di) line false)
    else parse_kv o dl cm s org b0 vis
  end.

(* a line of blanks only *)
Definition parse_blanks (o : popts) (dl cm : str) (s : pstate) (org : str) : presult :=
  let line := p_line s in
  if keys_only dl then PCont (store_new s [] None line false)
  else if is_mixed dl then PCont s
  else if last_line_is s line then PCont (store_append (o_python o) s (cont_text o cm org) line)
  else PCont s.

Definition parse_line (o : popts) (dl cm : str) (s0 : pstate) (raw : str) : presult :=
  let org := cstr raw in
  let s := bump s0 in
  match removelast_nl org with
  | [] => PCont s
  | b0 :: buf' =>
    match drop_while isspace (b0 :: buf') with
    | c :: ctext =>
      if mem c cm then
        (* a comment line, whatever it contains *)
        PCont (mkPS (p_rev s) (p_groups s) (p_cur s) (append_opt (p_cbk s) ctext) (p_cav s) (p_line s))
      else parse_entry o dl cm s org b0 (c :: ctext)
    | [] => parse_blanks o dl cm s org
    end
  end.

Fixpoint read_lines (o : popts) (dl cm : str) (s : pstate) (ls : list str) : presult :=
  match ls with
  | [] => PCont s
  | l :: ls' => match parse_line o dl cm s l with
                | PCont s' => read_lines o dl cm s' ls'
                | PStop e s' => PStop e s'
                end
  end.

(* ---------- join_same_entries ---------- *)

Definition is_empty_val (v : option str) : bool :=
  match v with None => true | Some [] => true | _ => false end.

Definition join_one (a b : entry) : entry :=
  (* a: entry i (being built), b: a later entry j with the same group and key *)
  let nv := if is_empty_val (e_value b) then Some []
            else Some ((match e_value a with Some x => x | None => [] end) ++
                       nl :: ltrim (match e_value b with Some x => x | None => [] end)) in
  let ncbk := match e_cbk b with
              | Some (c :: r) => Some ((match e_cbk a with Some x => x | None => [] end) ++ nl :: c :: r)
              | _ => e_cbk a
              end in
  let ncav := if is_empty_val (e_value b) then None
              else match e_cav b with
                   | Some (c :: r) => let post := ltrim (c :: r) in
                                      match e_cav a with
                                      | None => Some post
                                      | Some pre => Some (pre ++ nl :: post)
                                      end
                   | _ => e_cav a
                   end in
  mkE (e_group a) (e_key a) nv ncbk ncav (e_line a) (e_quotes a).

Definition same_gk (a b : entry) : bool :=
  str_eqb (e_group a) (e_group b) && str_eqb (e_key a) (e_key b).

Definition join_into (a : entry) (later : list entry) : entry :=
  fold_left (fun a b => if same_gk a b then join_one a b else a) later a.

Fixpoint join_same_entries (es : list entry) : list entry :=
  match es with
  | [] => []
  | e :: rest => join_into e rest :: join_same_entries rest
  end.

(* ---------- read_file ---------- *)

Record read_out := mkRO {
  r_err : econf_err;
  r_entries : list entry;      (* file order *)
  r_groups : list str;
  r_lines : N }.               (* last_scanned_line_nr *)

Definition read_bytes (o : popts) (dl cm : str) (content : str) : read_out :=
  let cm' := match cm with [] => [35] | _ => cm end in
  let '(err, s) := match read_lines o dl cm' init_pstate (lines_of content) with
                   | PCont s => (ECONF_SUCCESS, s)
                   | PStop e s => (e, s)
                   end in
  let es := rev (p_rev s) in
  mkRO err (if o_join o then join_same_entries es else es) (p_groups s) (p_line s).

(* the object read_file leaves in *key_file on success *)
Definition keyfile_of_read (base : keyfile) (path : str) (dl cm : str) (r : read_out) : keyfile :=
  mkKF (r_entries r) 0 (r_groups r) (hd 0 dl) (match cm with c :: _ => c | [] => 35 end)
       (Some path) (kf_join base) (kf_python base) (kf_parse_dirs base) (kf_conf_dirs base)
       (kf_root_prefix base).
