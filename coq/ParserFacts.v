(* ParserFacts.v — a conventional file parses to exactly what it means:
   line lemmas assembled by induction over the lines; lines_of on a rendered
   file; the file-level theorem about read_bytes. *)
From Coq Require Import String Lia List.
From Econf Require Import Bytes BytesFacts Grammar CommentLoop LineBase KeyLineN KeyLineW KeyLineM KeyLine0 ContLines.
Local Open Scope N_scope.

Lemma line_ok dl cm prev s l :
  cm_ok cm = true -> dl_ok dl cm = true ->
  wf_line dl cm prev l = true -> Inv prev s ->
  parse_line std_opts dl cm s (render_line l) = PCont (exp_step dl s l) /\
  Inv (is_entry_line l) (exp_step dl s l).
Proof.
  intros Hcm Hdl Hwf HI. destruct l as [ws|ind c text|ind name post|k|ind text post tc]; cbn [is_entry_line].
  - now apply (blank_line_ok dl cm prev).
  - now apply (comment_line_ok dl cm prev).
  - now apply (section_line_ok dl cm prev).
  - destruct (class_of dl) eqn:E.
    + now apply (key_line_ok_N dl cm prev).
    + now apply (key_line_ok_W dl cm prev).
    + now apply (key_line_ok_M dl cm prev).
    + now apply (key_line_ok_0 dl cm prev).
  - now apply (cont_line_ok dl cm prev).
Qed.

Theorem lines_ok dl cm : cm_ok cm = true -> dl_ok dl cm = true ->
  forall ls prev s, wf_lines dl cm prev ls = true -> Inv prev s ->
  read_lines std_opts dl cm s (map render_line ls) = PCont (fold_left (exp_step dl) ls s).
Proof.
  intros Hcm Hdl. induction ls as [|l ls IH]; intros prev s Hwf HI; [reflexivity|].
  cbn [wf_lines] in Hwf. apply andb_true_iff in Hwf as [Hl Hls].
  destruct (line_ok dl cm prev s l Hcm Hdl Hl HI) as [Hp HI'].
  cbn [map read_lines fold_left]. rewrite Hp. now apply (IH (is_entry_line l)).
Qed.

(* ---------- lines_of on a rendered file ---------- *)
Definition no_nl (s : str) : bool := forallb (fun c => negb (c =? 10)) s.

Lemma lines_aux_line body : forall cur rest,
  no_nl body = true ->
  lines_aux cur (body ++ 10 :: rest) = (rev cur ++ body ++ [10]) :: lines_aux [] rest.
Proof.
  induction body as [|c body IH]; intros cur rest H; cbn [app lines_aux].
  - reflexivity.
  - cbn [no_nl forallb] in H. apply andb_true_iff in H as [Hc Hb].
    destruct (c =? 10); [discriminate|]. rewrite IH by exact Hb. cbn [rev]. now rewrite <- app_assoc.
Qed.

Lemma lines_of_render ls :
  forallb (fun l => no_nl (render_body l)) ls = true ->
  lines_of (render ls) = map render_line ls.
Proof.
  unfold lines_of, render. induction ls as [|l ls IH]; intros H; [reflexivity|].
  cbn [forallb] in H. apply andb_true_iff in H as [Hl Hls].
  cbn [map concat]. unfold render_line at 1. rewrite <- app_assoc. cbn [app].
  rewrite lines_aux_line by exact Hl. cbn [rev app]. f_equal. now apply IH.
Qed.

Lemma no_nl_app a b : no_nl (a ++ b) = no_nl a && no_nl b.
Proof. apply forallb_app. Qed.
Lemma no_nl_blanks s : blanks s = true -> no_nl s = true.
Proof. unfold no_nl, blanks. apply forallb_impl. intros x Hx. destruct (isblank_cases x Hx); subst; reflexivity. Qed.
Lemma no_nl_tb s : forallb tb s = true -> no_nl s = true.
Proof. unfold no_nl. apply forallb_impl. intros x Hx. now rewrite tb_not_nl. Qed.
Lemma no_nl_tchar s : forallb tchar s = true -> no_nl s = true.
Proof. unfold no_nl. apply forallb_impl. intros x Hx. now rewrite tchar_not_nl. Qed.
