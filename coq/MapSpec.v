(* MapSpec.v — the reference the set/get/list API is compared with (C11):
   per section an insertion-ordered association list, plus the list of
   sections in order of first use.  Executable. *)
From Coq Require Import String.
From Econf Require Export Scenario.
Local Open Scope N_scope.

Definition alist := list (str * option str).

Fixpoint al_get (l : alist) (k : str) : option (option str) :=
  match l with
  | [] => None
  | (k', v) :: l' => if str_eqb k' k then Some v else al_get l' k
  end.

(* replace the binding of k, or add one at the end *)
Fixpoint al_set (l : alist) (k : str) (v : option str) : alist :=
  match l with
  | [] => [(k, v)]
  | (k', v') :: l' => if str_eqb k' k then (k', v) :: l' else (k', v') :: al_set l' k v
  end.

Record aspec := mkSpec {
  sp_secs : list str;          (* named sections in order of first use *)
  sp_touched : bool;           (* some section (named or not) was ever opened *)
  sp_binds : str -> alist }.   (* per section; "_none_" is the group-less one *)

(* how the value API reads its section argument *)
Definition sec_of (g : option str) : str := norm_group (strip_opt g).

Definition sp_set (a : aspec) (g k : str) (v : option str) : aspec :=
  mkSpec (if str_eqb g none_s then sp_secs a else intern (sp_secs a) g) true
         (fun g' => if str_eqb g' g then al_set (sp_binds a g) k v else sp_binds a g').

Definition spec_lookup (a : aspec) (g k : option str) : econf_err + option str :=
  match k with
  | None => inl ECONF_ERROR
  | Some [] => inl ECONF_ERROR
  | Some k' => match al_get (sp_binds a (sec_of g)) k' with
               | Some v => inr v
               | None => inl ECONF_NOKEY
               end
  end.

Definition sstep (a : aspec) (c : cmd) : aspec * out :=
  match c with
  | CSet _ kd g k text z =>
      match k with
      | None => (a, ORc ECONF_EMPTYKEY)
      | Some [] => (a, ORc ECONF_EMPTYKEY)
      | Some k' =>
          match set_text kd text z with
          | SetTo v => (sp_set a (sec_of g) k' (Some v), ORc ECONF_SUCCESS)
          | SetRefuse e =>
              (* quirk stated, not hidden: a refused boolean on a new key still
                 creates the key, with the text "_none_" *)
              (match al_get (sp_binds a (sec_of g)) k' with
               | Some _ => a
               | None => sp_set a (sec_of g) k' (Some none_s)
               end, ORc e)
          end
      end
  | CGet _ kd g k def => (a, typed_out kd (spec_lookup a g k) def)
  | CGroups _ =>
      (a, if sp_touched a then OList ECONF_SUCCESS (sp_secs a) else ORc ECONF_NOGROUP)
  | CKeys _ g =>
      (a, match map fst (sp_binds a (norm_group g)) with
          | [] => ORc ECONF_NOKEY
          | ks => OList ECONF_SUCCESS ks
          end)
  | _ => (a, ONoObj)
  end.

(* the commands the ordered-map view speaks about *)
Definition map_cmd (c : cmd) : bool :=
  match c with
  | CSet _ _ _ _ _ _ | CGet _ _ _ _ _ | CGroups _ | CKeys _ _ => true
  | _ => false
  end.

Fixpoint srun (a : aspec) (cs : list cmd) : list out :=
  match cs with
  | [] => []
  | c :: cs' => let '(a', r) := sstep a c in r :: srun a' cs'
  end.

Fixpoint krun (kf : keyfile) (cs : list cmd) : list out :=
  match cs with
  | [] => []
  | c :: cs' => let '(kf', r) := kstep kf c in r :: krun kf' cs'
  end.

Fixpoint kfinal (kf : keyfile) (cs : list cmd) : keyfile :=
  match cs with
  | [] => kf
  | c :: cs' => kfinal (fst (kstep kf c)) cs'
  end.

Fixpoint sfinal (a : aspec) (cs : list cmd) : aspec :=
  match cs with
  | [] => a
  | c :: cs' => sfinal (fst (sstep a c)) cs'
  end.

(* abstraction of an object *)
Definition proj (kf : keyfile) (g : str) : alist :=
  map (fun e => (e_key e, e_value e)) (filter (fun e => str_eqb (e_group e) g) (kf_entries kf)).

Definition named (gs : list str) : list str := filter (fun g => negb (str_eqb g none_s)) gs.

Definition abs (kf : keyfile) : aspec :=
  mkSpec (named (kf_groups kf)) (match kf_groups kf with [] => false | _ => true end) (proj kf).
