(* WriterWf.v — the conventional file [ast_of kf] of a writable object is a
   well-formed file of the grammar. *)
From Coq Require Import String Lia List.
From Econf Require Import Bytes BytesFacts Grammar LineBase WriterSpec.
Local Open Scope N_scope.

Local Opaque none_s.

(* a block that is well formed whatever the previous line was *)
Definition ww_any (dl cm : str) (ls : list cline) : Prop :=
  forall p, wf_lines dl cm p ls = true.

Lemma ww_lines_app dl cm a b : forall p,
  wf_lines dl cm p a = true -> ww_any dl cm b -> wf_lines dl cm p (a ++ b) = true.
Proof.
  induction a as [|x a IH]; intros p Ha Hb.
  - apply Hb.
  - cbn [app wf_lines] in *. apply andb_true_iff in Ha as [H1 H2].
    rewrite H1. cbn [andb]. apply IH; assumption.
Qed.

Lemma ww_any_app dl cm a b : ww_any dl cm a -> ww_any dl cm b -> ww_any dl cm (a ++ b).
Proof. intros Ha Hb p. apply ww_lines_app; [apply Ha|exact Hb]. Qed.

Lemma ww_any_nil dl cm : ww_any dl cm [].
Proof. intros p. reflexivity. Qed.

Lemma ww_any_blank dl cm : ww_any dl cm [LBlank []].
Proof. intros p. reflexivity. Qed.

Lemma ww_any_cons_blank dl cm ls : ww_any dl cm ls -> ww_any dl cm (LBlank [] :: ls).
Proof. intros H p. cbn [wf_lines wf_line andb]. apply H. Qed.

Lemma ww_any_comments dl cm ind c ls :
  blanks ind = true -> mem c cm = true -> forallb (forallb tb) ls = true ->
  ww_any dl cm (map (fun l => LComment ind c l) ls).
Proof.
  intros Hb Hm. induction ls as [|l ls IH]; intros H p.
  - reflexivity.
  - cbn [forallb] in H. apply andb_true_iff in H as [H1 H2].
    cbn [map wf_lines wf_line]. rewrite Hb, Hm, H1. cbn [andb]. apply IH. exact H2.
Qed.

Lemma ww_mem_self c : mem c [c] = true.
Proof. cbn [mem]. now rewrite N.eqb_refl. Qed.

Lemma ww_any_comment_ast dl c ind t :
  blanks ind = true ->
  match t with Some s => forallb (forallb tb) (split_on nl s) | None => true end = true ->
  ww_any dl [c] (comment_ast ind c t).
Proof.
  intros Hb H. unfold comment_ast. destruct t as [[|x r]|]; try apply ww_any_nil.
  apply ww_any_comments; [exact Hb|apply ww_mem_self|exact H].
Qed.

Lemma ww_conts dl cm conts :
  forallb (fun l => let '(ind, text) := cont_split l in wf_cont dl cm ind text [] None) conts = true ->
  wf_lines dl cm true
    (map (fun l => let '(ind, text) := cont_split l in LCont ind text [] None) conts) = true.
Proof.
  induction conts as [|l conts IH]; intros H.
  - reflexivity.
  - cbn [forallb] in H. apply andb_true_iff in H as [H1 H2].
    cbn [map]. unfold cont_split at 1. unfold cont_split at 1 in H1.
    cbn [wf_lines wf_line is_entry_line]. rewrite H1. cbn [andb]. apply IH. exact H2.
Qed.

(* ---------- the tags ---------- *)
Lemma ww_tags d c : tags_ok d c = true -> (d = 61 \/ d = 58 \/ d = 32) /\ (c = 35 \/ c = 59).
Proof.
  unfold tags_ok. intros H. apply andb_true_iff in H as [H1 H2].
  apply orb_true_iff in H1 as [H1|H1]; [apply orb_true_iff in H1 as [H1|H1]|];
  apply N.eqb_eq in H1; apply orb_true_iff in H2 as [H2|H2]; apply N.eqb_eq in H2; auto.
Qed.

Lemma ww_cm_ok d c : tags_ok d c = true -> cm_ok [c] = true.
Proof. intros H. apply ww_tags in H as [_ [->| ->]]; reflexivity. Qed.

Lemma ww_dl_ok d c : tags_ok d c = true -> dl_ok [d] [c] = true.
Proof. intros H. apply ww_tags in H as [[->|[->| ->]] [->| ->]]; reflexivity. Qed.

Lemma ww_kline d c key v post tc :
  tags_ok d c = true -> wf_key [d] [c] key = true -> wf_value [d] [c] v = true ->
  blanks post = true -> wf_tc [c] tc = true ->
  wf_kline [d] [c] (mkKL [] key (if d =? 32 then [32] else []) (if d =? 32 then None else Some d)
                         [] v post tc) = true.
Proof.
  intros Ht Hk Hv Hp Htc. unfold wf_kline.
  cbn [kl_indent kl_key kl_b1 kl_d kl_b2 kl_val kl_post kl_tc].
  rewrite Hk, Hv, Hp, Htc.
  apply ww_tags in Ht as [[->|[->| ->]] _]; reflexivity.
Qed.

Lemma ww_value_nil d c : wf_value [d] [c] (VPlain []) = true.
Proof. unfold wf_value. cbn [forallb ends_nonblank andb]. destruct (class_of [d]); reflexivity. Qed.

(* ---------- one entry ---------- *)
Lemma ww_entry_core d c e post tc tail :
  tags_ok d c = true -> wf_key [d] [c] (e_key e) = true -> writable_value d c e = true ->
  blanks post = true -> wf_tc [c] tc = true -> ww_any [d] [c] tail ->
  ww_any [d] [c]
    (match e_value e with
     | None => [LKey (mkKL [] (e_key e) (if d =? 32 then [32] else []) (if d =? 32 then None else Some d)
                           [] (VPlain []) post tc)]
     | Some v =>
         if e_quotes e
         then [LKey (mkKL [] (e_key e) (if d =? 32 then [32] else []) (if d =? 32 then None else Some d)
                          [] (VQuoted v) post tc)]
         else match split_on nl v with
              | [] => [LKey (mkKL [] (e_key e) (if d =? 32 then [32] else [])
                                  (if d =? 32 then None else Some d) [] (VPlain []) post tc)]
              | l0 :: conts =>
                  LKey (mkKL [] (e_key e) (if d =? 32 then [32] else [])
                             (if d =? 32 then None else Some d) [] (VPlain l0) post tc) ::
                  map (fun l => let '(ind, text) := cont_split l in LCont ind text [] None) conts
              end
     end ++ tail).
Proof.
  intros Ht Hk Hv Hp Htc Htail p. unfold writable_value in Hv.
  assert (K : forall v, wf_value [d] [c] v = true ->
            wf_line [d] [c] p (LKey (mkKL [] (e_key e) (if d =? 32 then [32] else [])
                      (if d =? 32 then None else Some d) [] v post tc)) = true).
  { intros v Hw. cbn [wf_line]. apply ww_kline; assumption. }
  destruct (e_value e) as [v|].
  - destruct (e_quotes e).
    + apply ww_lines_app; [|exact Htail]. cbn [wf_lines]. rewrite K; [reflexivity|].
      cbn [wf_value]. exact Hv.
    + destruct (split_on nl v) as [|l0 conts].
      * apply ww_lines_app; [|exact Htail]. cbn [wf_lines]. rewrite K; [reflexivity|].
        apply ww_value_nil.
      * apply andb_true_iff in Hv as [Hv _]. apply andb_true_iff in Hv as [Hv0 Hvc].
        apply ww_lines_app; [|exact Htail]. cbn [wf_lines]. rewrite (K _ Hv0).
        cbn [andb is_entry_line]. apply ww_conts. exact Hvc.
  - apply ww_lines_app; [|exact Htail]. cbn [wf_lines]. rewrite K; [reflexivity|].
    apply ww_value_nil.
Qed.

Lemma ww_entry d c e :
  tags_ok d c = true -> writable_entry d c e = true -> ww_any [d] [c] (entry_ast d c e).
Proof.
  intros Ht H. unfold writable_entry in H.
  apply andb_true_iff in H as [H Hc]. apply andb_true_iff in H as [H Hv].
  apply andb_true_iff in H as [Hk _].
  unfold writable_comments in Hc. apply andb_true_iff in Hc as [Hc1 Hc2].
  unfold entry_ast.
  destruct (e_cav e) as [[|x r]|] eqn:Ecav.
  - apply ww_any_app; [apply ww_any_comment_ast; [reflexivity|exact Hc1]|].
    apply ww_entry_core; try assumption; try reflexivity. apply ww_any_nil.
  - destruct (split_on nl (x :: r)) as [|l1 more].
    + apply ww_any_app; [apply ww_any_comment_ast; [reflexivity|exact Hc1]|].
      apply ww_entry_core; try assumption; try reflexivity. apply ww_any_nil.
    + apply andb_true_iff in Hc2 as [Htc Hmore].
      apply ww_any_app; [apply ww_any_comment_ast; [reflexivity|exact Hc1]|].
      apply ww_entry_core; try assumption; try reflexivity.
      apply ww_any_app; [|apply ww_any_blank].
      apply ww_any_comments; [reflexivity|apply ww_mem_self|exact Hmore].
  - apply ww_any_app; [apply ww_any_comment_ast; [reflexivity|exact Hc1]|].
    apply ww_entry_core; try assumption; try reflexivity. apply ww_any_nil.
Qed.

(* ---------- one pass ---------- *)
Lemma ww_any_section d c e :
  writable_entry d c e = true -> is_none e = false ->
  ww_any [d] [c] [LSection [] (e_group e) []].
Proof.
  intros H Hn p. unfold writable_entry in H.
  apply andb_true_iff in H as [H _]. apply andb_true_iff in H as [H _].
  apply andb_true_iff in H as [_ Hg]. unfold writable_group in Hg.
  unfold is_none in Hn. rewrite Hn in Hg. cbn [orb] in Hg.
  cbn [wf_lines wf_line]. rewrite Hg. reflexivity.
Qed.

Lemma ww_pass d c w es : forall last,
  tags_ok d c = true -> forallb (writable_entry d c) es = true ->
  ww_any [d] [c] (fst (pass_ast d c w es last)).
Proof.
  induction es as [|e es IH]; intros last Ht H.
  - apply ww_any_nil.
  - cbn [forallb] in H. apply andb_true_iff in H as [He Hes].
    cbn [pass_ast]. destruct (Bool.eqb (is_none e) w).
    + specialize (IH (Some (e_group e)) Ht Hes).
      destruct (pass_ast d c w es (Some (e_group e))) as [out last'].
      cbn [fst] in *.
      apply ww_any_app; [|apply ww_any_app; [apply ww_entry; assumption|exact IH]].
      assert (S : ww_any [d] [c] (if is_none e then [] else [LSection [] (e_group e) []])).
      { destruct (is_none e) eqn:En; [apply ww_any_nil|apply ww_any_section; assumption]. }
      destruct last as [g|]; [|exact S].
      destruct (str_eqb g (e_group e)); [apply ww_any_nil|].
      apply ww_any_cons_blank. exact S.
    + apply IH; assumption.
Qed.

Theorem ast_of_wf : forall kf,
  writable kf = true -> wf_file [kf_delim kf] [kf_comment kf] (ast_of kf) = true.
Proof.
  intros kf H. unfold writable in H. apply andb_true_iff in H as [Ht Hes].
  unfold wf_file. rewrite (ww_cm_ok _ _ Ht), (ww_dl_ok _ _ Ht). cbn [andb].
  unfold ast_of.
  pose proof (ww_pass (kf_delim kf) (kf_comment kf) true (kf_entries kf) None Ht Hes) as P1.
  destruct (pass_ast (kf_delim kf) (kf_comment kf) true (kf_entries kf) None) as [a1 l1].
  pose proof (ww_pass (kf_delim kf) (kf_comment kf) false (kf_entries kf) l1 Ht Hes) as P2.
  destruct (pass_ast (kf_delim kf) (kf_comment kf) false (kf_entries kf) l1) as [a2 l2].
  cbn [fst] in *. apply ww_any_app; assumption.
Qed.
