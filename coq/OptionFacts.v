(* OptionFacts.v — C15: option strings, JOIN_SAME_ENTRIES, PYTHON_STYLE. *)
From Coq Require Import String Lia List.
From Econf Require Import Bytes BytesFacts OptionSpec LineBase.
From Econf Require Import CommentLoop.
Local Open Scope N_scope.

(* ====================================================================== *)
(* PART 1 — option strings                                                 *)
(* ====================================================================== *)

(* ---- splitting and joining ---- *)
Lemma of_split_aux_piece sep p : forall cur,
  mem sep p = false -> split_aux sep cur p = [rev cur ++ p].
Proof.
  induction p as [|c p IH]; intros cur H; simpl.
  - now rewrite app_nil_r.
  - simpl in H. apply orb_false_iff in H as [H1 H2]. rewrite H1.
    rewrite IH by exact H2. simpl. now rewrite <- app_assoc.
Qed.

Lemma of_split_aux_piece_sep sep p r : forall cur,
  mem sep p = false ->
  split_aux sep cur (p ++ sep :: r) = (rev cur ++ p) :: split_aux sep [] r.
Proof.
  induction p as [|c p IH]; intros cur H; simpl.
  - rewrite N.eqb_refl. now rewrite app_nil_r.
  - simpl in H. apply orb_false_iff in H as [H1 H2]. rewrite H1.
    rewrite IH by exact H2. simpl. now rewrite <- app_assoc.
Qed.

Lemma of_split_join sep l :
  l <> [] -> forallb (fun t => negb (mem sep t)) l = true ->
  split_on sep (join_with [sep] l) = l.
Proof.
  induction l as [|x l IH]; intros Hne H; [congruence|].
  simpl in H. apply andb_true_iff in H as [H1 H2]. apply negb_true_iff in H1.
  destruct l as [|y l'].
  - simpl. unfold split_on. now rewrite of_split_aux_piece.
  - change (join_with [sep] (x :: y :: l')) with (x ++ sep :: join_with [sep] (y :: l')).
    unfold split_on. rewrite of_split_aux_piece_sep by exact H1. simpl rev. simpl app at 1.
    f_equal. apply IH; [discriminate|exact H2].
Qed.

Lemma of_split_nil sep : split_on sep [] = [[]].
Proof. reflexivity. Qed.

Lemma of_mem_app c a b : mem c (a ++ b) = mem c a || mem c b.
Proof. induction a as [|x a IH]; simpl; [reflexivity|]. now rewrite IH, orb_assoc. Qed.

Lemma of_mem_join c sep l :
  mem c sep = false -> forallb (fun d => negb (mem c d)) l = true -> mem c (join_with sep l) = false.
Proof.
  intros Hs. induction l as [|x l IH]; intros H; [reflexivity|].
  simpl in H. apply andb_true_iff in H as [H1 H2]. apply negb_true_iff in H1.
  destruct l as [|y l']; [exact H1|].
  change (join_with sep (x :: y :: l')) with (x ++ sep ++ join_with sep (y :: l')).
  rewrite !of_mem_app, H1, Hs, (IH H2). reflexivity.
Qed.

Lemma of_join_nil_head sep x l : join_with sep (x :: l) = [] -> x = [].
Proof.
  destruct l as [|y l']; simpl; [auto|]. intros H. now apply app_eq_nil in H as [H _].
Qed.

(* ---- one item ---- *)
Lemma of_opt_item_join kf b :
  opt_item kf (render_item (IJoin b)) = inr (apply_item kf (IJoin b)).
Proof. destruct b; reflexivity. Qed.

Lemma of_opt_item_python kf b :
  opt_item kf (render_item (IPython b)) = inr (apply_item kf (IPython b)).
Proof. destruct b; reflexivity. Qed.

Lemma of_opt_item_parsing kf t :
  opt_item kf (bs "PARSING_DIRS=" ++ t) =
  inr (mkKF (kf_entries kf) (kf_spare kf) (kf_groups kf) (kf_delim kf) (kf_comment kf) (kf_path kf)
            (kf_join kf) (kf_python kf) (split_on 58 t) (kf_conf_dirs kf) (kf_root_prefix kf)).
Proof. reflexivity. Qed.

Lemma of_opt_item_config kf t :
  opt_item kf (bs "CONFIG_DIRS=" ++ t) =
  inr (mkKF (kf_entries kf) (kf_spare kf) (kf_groups kf) (kf_delim kf) (kf_comment kf) (kf_path kf)
            (kf_join kf) (kf_python kf) (kf_parse_dirs kf) (split_on 58 t) (kf_root_prefix kf)).
Proof. reflexivity. Qed.

Lemma of_opt_item_root kf t :
  opt_item kf (bs "ROOT_PREFIX=" ++ t) =
  inr (mkKF (kf_entries kf) (kf_spare kf) (kf_groups kf) (kf_delim kf) (kf_comment kf) (kf_path kf)
            (kf_join kf) (kf_python kf) (kf_parse_dirs kf) (kf_conf_dirs kf) (Some t)).
Proof. reflexivity. Qed.

Lemma of_dirs_ok l :
  match l with [] => false | _ => true end &&
  forallb (fun d => negb (mem 58 d) && negb (mem 59 d)) l = true ->
  l <> [] /\ forallb (fun d => negb (mem 58 d)) l = true /\ forallb (fun d => negb (mem 59 d)) l = true.
Proof.
  intros H. apply andb_true_iff in H as [H1 H2]. split; [destruct l; [discriminate|discriminate]|].
  clear H1. induction l as [|d l IH]; [split; reflexivity|].
  simpl in H2. apply andb_true_iff in H2 as [Ha Hb]. apply andb_true_iff in Ha as [Ha1 Ha2].
  destruct (IH Hb) as [I1 I2]. simpl. rewrite Ha1, Ha2, I1, I2. split; reflexivity.
Qed.

Lemma of_opt_item_ok kf i :
  item_ok i = true -> opt_item kf (render_item i) = inr (apply_item kf i).
Proof.
  destruct i as [b|b|l|l|p]; intros H.
  - apply of_opt_item_join.
  - apply of_opt_item_python.
  - cbn [item_ok] in H. destruct (of_dirs_ok l H) as (Hne & H58 & _).
    cbn [render_item]. rewrite of_opt_item_parsing, of_split_join by assumption. reflexivity.
  - cbn [item_ok] in H. destruct (of_dirs_ok l H) as (Hne & H58 & _).
    cbn [render_item]. rewrite of_opt_item_config, of_split_join by assumption. reflexivity.
  - cbn [render_item]. rewrite of_opt_item_root. reflexivity.
Qed.

Lemma of_render_no_semi i : item_ok i = true -> mem 59 (render_item i) = false.
Proof.
  destruct i as [b|b|l|l|p]; intros H.
  - destruct b; reflexivity.
  - destruct b; reflexivity.
  - cbn [item_ok] in H. destruct (of_dirs_ok l H) as (_ & _ & H59).
    cbn [render_item]. rewrite of_mem_app, (of_mem_join 59 [58] l eq_refl H59). reflexivity.
  - cbn [item_ok] in H. destruct (of_dirs_ok l H) as (_ & _ & H59).
    cbn [render_item]. rewrite of_mem_app, (of_mem_join 59 [58] l eq_refl H59). reflexivity.
  - cbn [item_ok] in H. apply negb_true_iff in H.
    cbn [render_item]. rewrite of_mem_app, H. reflexivity.
Qed.

Lemma of_render_nonempty i : render_item i <> [].
Proof. destruct i; discriminate. Qed.

Lemma of_opt_items_ok items : forall kf,
  forallb item_ok items = true ->
  opt_items kf (map render_item items) = (ECONF_SUCCESS, fold_left apply_item items kf).
Proof.
  induction items as [|i items IH]; intros kf H; [reflexivity|].
  simpl in H. apply andb_true_iff in H as [H1 H2].
  cbn [map opt_items fold_left]. rewrite (of_opt_item_ok kf i H1). apply IH, H2.
Qed.

Theorem options_ok : forall items,
  items <> [] -> forallb item_ok items = true ->
  new_with_options (Some (render_options items)) = (ECONF_SUCCESS, options_meaning items).
Proof.
  intros items Hne Hok. unfold new_with_options, render_options, options_meaning.
  destruct (join_with [59] (map render_item items)) as [|c r] eqn:E.
  - destruct items as [|i items]; [congruence|]. cbn [map] in E.
    apply of_join_nil_head in E. now apply of_render_nonempty in E.
  - rewrite <- E. rewrite of_split_join.
    + now apply of_opt_items_ok.
    + destruct items; [congruence|discriminate].
    + clear E Hne. induction items as [|i items IH]; [reflexivity|].
      simpl in Hok. apply andb_true_iff in Hok as [H1 H2]. cbn [map forallb].
      rewrite (of_render_no_semi i H1), (IH H2). reflexivity.
Qed.

(* ---- unknown items ---- *)
Lemma of_opt_item_documented kf t :
  documented_text t = true -> exists kf', opt_item kf t = inr kf'.
Proof.
  unfold documented_text, opt_item. intros H.
  destruct (str_eqb t (bs "JOIN_SAME_ENTRIES=1")); [eexists; reflexivity|].
  destruct (str_eqb t (bs "PYTHON_STYLE=1")); [eexists; reflexivity|].
  destruct (str_eqb t (bs "JOIN_SAME_ENTRIES=0")); [eexists; reflexivity|].
  destruct (str_eqb t (bs "PYTHON_STYLE=0")); [eexists; reflexivity|].
  destruct (is_prefix (bs "PARSING_DIRS=") t); [eexists; reflexivity|].
  destruct (is_prefix (bs "CONFIG_DIRS=") t); [eexists; reflexivity|].
  destruct (is_prefix (bs "ROOT_PREFIX=") t); [eexists; reflexivity|].
  discriminate H.
Qed.

Lemma of_opt_item_undocumented kf t :
  documented_text t = false -> opt_item kf t = inl ECONF_OPTION_NOT_FOUND.
Proof.
  unfold documented_text, opt_item. intros H.
  destruct (str_eqb t (bs "JOIN_SAME_ENTRIES=1")); [discriminate H|].
  destruct (str_eqb t (bs "PYTHON_STYLE=1")); [destruct (str_eqb t (bs "JOIN_SAME_ENTRIES=0")); discriminate H|].
  destruct (str_eqb t (bs "JOIN_SAME_ENTRIES=0")); [discriminate H|].
  destruct (str_eqb t (bs "PYTHON_STYLE=0")); [discriminate H|].
  destruct (is_prefix (bs "PARSING_DIRS=") t); [discriminate H|].
  destruct (is_prefix (bs "CONFIG_DIRS=") t); [discriminate H|].
  destruct (is_prefix (bs "ROOT_PREFIX=") t); [discriminate H|].
  reflexivity.
Qed.

Lemma of_opt_items_unknown texts : forall kf,
  existsb (fun t => negb (documented_text t)) texts = true ->
  fst (opt_items kf texts) = ECONF_OPTION_NOT_FOUND.
Proof.
  induction texts as [|t texts IH]; intros kf H; [discriminate|].
  cbn [existsb] in H. cbn [opt_items].
  destruct (documented_text t) eqn:D.
  - destruct (of_opt_item_documented kf t D) as [kf' ->]. apply IH. exact H.
  - rewrite (of_opt_item_undocumented kf t D). reflexivity.
Qed.

Theorem options_unknown : forall texts,
  join_with [59] texts <> [] -> forallb (fun t => negb (mem 59 t)) texts = true ->
  existsb (fun t => negb (documented_text t)) texts = true ->
  fst (new_with_options (Some (join_with [59] texts))) = ECONF_OPTION_NOT_FOUND.
Proof.
  intros texts Hne Hfree Hex. unfold new_with_options.
  destruct (join_with [59] texts) as [|c r] eqn:E; [congruence|]. rewrite <- E.
  rewrite of_split_join; [now apply of_opt_items_unknown| |exact Hfree].
  intros ->. discriminate.
Qed.

Theorem options_absent :
  new_with_options None = (ECONF_SUCCESS, new_empty) /\ new_with_options (Some []) = (ECONF_SUCCESS, new_empty).
Proof. split; reflexivity. Qed.

(* ====================================================================== *)
(* PART 2 — JOIN_SAME_ENTRIES                                              *)
(* ====================================================================== *)

Lemma of_split_aux_cur sep s : forall cur,
  split_aux sep cur s =
  match split_aux sep [] s with h :: t => (rev cur ++ h) :: t | [] => [] end.
Proof.
  induction s as [|c s IH]; intros cur; simpl.
  - now rewrite app_nil_r.
  - destruct (c =? sep).
    + now rewrite app_nil_r.
    + rewrite (IH (c :: cur)), (IH [c]). destruct (split_aux sep [] s) as [|h t]; [reflexivity|].
      simpl. now rewrite <- app_assoc.
Qed.

Lemma of_split_aux_app sep a b : forall cur,
  split_aux sep cur (a ++ sep :: b) = split_aux sep cur a ++ split_on sep b.
Proof.
  induction a as [|c a IH]; intros cur; simpl.
  - now rewrite N.eqb_refl.
  - destruct (c =? sep); simpl; now rewrite IH.
Qed.

Lemma of_split_app sep a b :
  split_on sep (a ++ sep :: b) = split_on sep a ++ split_on sep b.
Proof. apply of_split_aux_app. Qed.

Definition of_nonempty (l : str) : bool := match l with [] => false | _ => true end.

Lemma of_value_lines_some s :
  value_lines (Some s) = filter of_nonempty (map trim (split_on nl s)).
Proof. reflexivity. Qed.

Lemma of_value_lines_none : value_lines None = [].
Proof. reflexivity. Qed.

Lemma of_value_lines_nil : value_lines (Some []) = [].
Proof. reflexivity. Qed.

Lemma of_value_lines_app a b :
  value_lines (Some (a ++ nl :: b)) = value_lines (Some a) ++ value_lines (Some b).
Proof. rewrite !of_value_lines_some, of_split_app, map_app, filter_app. reflexivity. Qed.

Lemma of_trim_space c h : isspace c = true -> trim (c :: h) = trim h.
Proof. intros H. unfold trim, ltrim. simpl. now rewrite H. Qed.

Lemma of_value_lines_ws w x :
  forallb isspace w = true -> value_lines (Some (w ++ x)) = value_lines (Some x).
Proof.
  induction w as [|c w IH]; intros H; [reflexivity|].
  simpl in H. apply andb_true_iff in H as [H1 H2]. specialize (IH H2).
  rewrite !of_value_lines_some in *. rewrite <- IH. clear IH.
  unfold split_on. simpl app. cbn [split_aux].
  destruct (c =? nl).
  - reflexivity.
  - rewrite (of_split_aux_cur nl (w ++ x) [c]).
    destruct (split_aux nl [] (w ++ x)) as [|h t]; [reflexivity|].
    cbn [rev app map]. now rewrite (of_trim_space c h H1).
Qed.

Lemma of_take_while_forallb (p : N -> bool) s : forallb p (take_while p s) = true.
Proof.
  induction s as [|c s IH]; simpl; [reflexivity|]. destruct (p c) eqn:E; simpl; [now rewrite E|reflexivity].
Qed.

Lemma of_value_lines_ltrim b : value_lines (Some (ltrim b)) = value_lines (Some b).
Proof.
  unfold ltrim. rewrite <- (take_drop_while isspace b) at 2.
  symmetry. apply of_value_lines_ws, of_take_while_forallb.
Qed.

(* one more definition joined onto the value being built *)
Lemma of_value_lines_joined a b :
  value_lines (Some (a ++ nl :: ltrim b)) = value_lines (Some a) ++ value_lines (Some b).
Proof. now rewrite of_value_lines_app, of_value_lines_ltrim. Qed.

Definition of_match (g k : str) (e : entry) : bool :=
  str_eqb (e_group e) g && str_eqb (e_key e) k.

Lemma of_join_one_gk a b :
  e_group (join_one a b) = e_group a /\ e_key (join_one a b) = e_key a.
Proof. split; reflexivity. Qed.

Lemma of_join_into_gk later : forall a,
  e_group (join_into a later) = e_group a /\ e_key (join_into a later) = e_key a.
Proof.
  unfold join_into. induction later as [|b later IH]; intros a; [split; reflexivity|].
  cbn [fold_left]. destruct (same_gk a b).
  - destruct (IH (join_one a b)) as [-> ->]. split; reflexivity.
  - apply IH.
Qed.

Lemma of_same_gk g k a b : of_match g k a = true -> same_gk a b = of_match g k b.
Proof.
  unfold of_match, same_gk. intros H. apply andb_true_iff in H as [H1 H2].
  apply str_eqb_eq in H1, H2. rewrite H1, H2.
  now rewrite (str_eqb_sym g), (str_eqb_sym k).
Qed.

Lemma of_join_one_value a b :
  value_lines (e_value (join_one a b)) =
  if is_empty_val (e_value b) then [] else value_lines (e_value a) ++ value_lines (e_value b).
Proof.
  unfold join_one. cbn [e_value].
  destruct (e_value b) as [[|c r]|]; cbn [is_empty_val]; try reflexivity.
  rewrite of_value_lines_joined. destruct (e_value a); reflexivity.
Qed.

Lemma of_join_into_value g k later : forall a,
  of_match g k a = true ->
  value_lines (e_value (join_into a later)) =
  since_last_empty (value_lines (e_value a)) (defs_of later g k).
Proof.
  unfold defs_of. fold (of_match g k).
  induction later as [|b later IH]; intros a Ha; [reflexivity|].
  unfold join_into. cbn [fold_left]. fold (join_into (if same_gk a b then join_one a b else a) later).
  rewrite (of_same_gk g k a b Ha). cbn [filter].
  destruct (of_match g k b) eqn:Hb.
  - rewrite IH.
    2:{ unfold of_match in *. destruct (of_join_one_gk a b) as [-> ->]. exact Ha. }
    cbn [map since_last_empty]. rewrite of_join_one_value.
    destruct (is_empty_val (e_value b)); reflexivity.
  - apply IH, Ha.
Qed.

Theorem join_values : forall es g k,
  match first_value (join_same_entries es) g k with
  | Some v => value_lines v = expected_join es g k
  | None => defs_of es g k = []
  end.
Proof.
  intros es g k. unfold first_value, expected_join, defs_of. fold (of_match g k).
  induction es as [|e rest IH]; [reflexivity|].
  cbn [join_same_entries filter].
  assert (E : of_match g k (join_into e rest) = of_match g k e).
  { unfold of_match. destruct (of_join_into_gk rest e) as [-> ->]. reflexivity. }
  rewrite E. destruct (of_match g k e) eqn:He.
  - cbn [map]. rewrite (of_join_into_value g k rest e He). reflexivity.
  - exact IH.
Qed.

Theorem nojoin_first : forall es g k,
  first_value es g k = match defs_of es g k with d :: _ => Some d | [] => None end.
Proof.
  intros es g k. unfold first_value, defs_of.
  destruct (filter _ es); reflexivity.
Qed.

(* ====================================================================== *)
(* PART 3 — PYTHON_STYLE                                                   *)
(* ====================================================================== *)

Definition no_nl_ (s : str) : bool := forallb (fun c => negb (c =? 10)) s.

Lemma of_parse_entry_python dl cm s org b0 name :
  parse_entry (mkPopts true false) dl cm s org b0 name =
  let s' := with_cav s (p_cav s) in
  match cstr name with
  | 91 :: rest => section_line s' rest (p_line s)
  | vis => if keys_only dl then
             PCont (store_new s' vis None (p_line s) false)
           else parse_kv (mkPopts true false) dl cm s' org b0 vis
  end.
Proof.
  unfold parse_entry. cbn [o_python]. cbn zeta.
  destruct (cstr name) as [|c r]; [reflexivity|].
  destruct c as [|p]; [reflexivity|].
  do 7 (destruct p as [p|p|]; try reflexivity).
Qed.

Lemma of_parse_kv_python_cont dl cm s org b0 vis :
  is_mixed dl = false -> isspace b0 = true -> last_line_is s (p_line s) = true ->
  parse_kv (mkPopts true false) dl cm s org b0 vis =
  PCont (store_append true s (removelast_nl org) (p_line s)).
Proof.
  intros Hm Hb Hl. unfold parse_kv. cbn [o_python]. rewrite Hm, Hb, Hl. reflexivity.
Qed.

Theorem python_indented_continues : forall dl cm s ind text,
  keys_only dl = false -> is_mixed dl = false ->
  Inv true s ->
  ind <> [] -> forallb isspace ind = true -> nonzero ind = true -> no_nl_ (ind ++ text) = true -> nonzero text = true ->
  (match text with c :: _ => isspace c = false /\ mem c cm = false /\ c <> 91 | [] => False end) ->
  parse_line (mkPopts true false) dl cm s ((ind ++ text) ++ [10]) =
  PCont (store_append true (bump s) (ind ++ text) (p_line s + 1)).
Proof.
  intros dl cm s ind text Hko Hmx HI Hne Hsp Hnzi _ Hnzt Ht.
  destruct text as [|c t]; [contradiction|]. destruct Ht as (Hc & Hcm & H91).
  rewrite parse_line_body by (rewrite nonzero_app, Hnzi, Hnzt; reflexivity).
  destruct ind as [|i0 ind']; [congruence|].
  rewrite (drop_while_app_stop isspace (i0 :: ind') c t Hsp Hc). rewrite Hcm.
  cbn [app]. rewrite of_parse_entry_python. cbn zeta.
  rewrite (cstr_nonzero (c :: t) Hnzt).
  simpl in Hsp. apply andb_true_iff in Hsp as [Hi0 _].
  assert (Hws : with_cav (bump s) (p_cav (bump s)) = bump s) by reflexivity.
  rewrite Hws.
  transitivity (if keys_only dl
                then PCont (store_new (bump s) (c :: t) None (p_line (bump s)) false)
                else parse_kv (mkPopts true false) dl cm (bump s) ((i0 :: ind' ++ c :: t) ++ [10]) i0 (c :: t)).
  { destruct c as [|p]; [reflexivity|].
    do 7 (destruct p as [p|p|]; try reflexivity). congruence. }
  rewrite Hko.
  rewrite of_parse_kv_python_cont; [|exact Hmx|exact Hi0|].
  - change (p_line (bump s)) with (p_line s + 1).
    rewrite (removelast_nl_app (i0 :: ind' ++ c :: t)). reflexivity.
  - change (p_line (bump s)) with (p_line s + 1). apply (last_line_is_inv true s HI).
Qed.
