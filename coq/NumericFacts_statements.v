(* Statements to be proved in NumericFacts.v (no Admitted, no axioms). *)
From Coq Require Import String Lia.
From Econf Require Import Bytes BytesFacts NumericSpec.
Local Open Scope Z_scope.

(* ---- printing then parsing (C08) ---- *)
Theorem strto_fmt_dec : forall z, strto (fmt_dec z) = Some (mkStrto (z <? 0) (Z.abs z)).
Theorem int32_roundtrip : forall z, - 2 ^ 31 <= z < 2 ^ 31 -> get_signed_text 32 (Some (fmt_dec z)) = inr z.
Theorem int64_roundtrip : forall z, - 2 ^ 63 <= z < 2 ^ 63 -> get_signed_text 64 (Some (fmt_dec z)) = inr z.
Theorem uint32_roundtrip : forall z, 0 <= z < 2 ^ 32 -> get_unsigned_text 32 (Some (fmt_dec z)) = inr z.
Theorem uint64_roundtrip : forall z, 0 <= z < 2 ^ 64 -> get_unsigned_text 64 (Some (fmt_dec z)) = inr z.
(* the printed text consists of an optional '-' and decimal digits only *)
Theorem fmt_dec_chars : forall z, forallb (fun c => isdigit c || (c =? 45)%N) (fmt_dec z) = true.

(* ---- literals (C09) ---- *)
Theorem strto_literal : forall l, lit_wf l = true ->
  strto (render_lit l) = Some (mkStrto (match l_sign l with SMinus => true | _ => false end)
                                        (horner (base_val (l_base l)) (l_digits l))).
Theorem signed_literal : forall bits l, (bits = 32 \/ bits = 64) -> lit_wf l = true ->
  get_signed_text bits (Some (render_lit l)) =
  if (- 2 ^ (bits - 1) <=? lit_value l) && (lit_value l <? 2 ^ (bits - 1)) then inr (lit_value l)
  else inl ECONF_VALUE_CONVERSION_ERROR.
Theorem unsigned_literal : forall bits l, (bits = 32 \/ bits = 64) -> lit_wf l = true ->
  get_unsigned_text bits (Some (render_lit l)) =
  if (0 <=? lit_value l) && (lit_value l <? 2 ^ bits) then inr (lit_value l)
  else inl ECONF_VALUE_CONVERSION_ERROR.

(* ---- booleans ---- *)
Theorem bool_get_exact : forall s b,
  bool_get_text (Some s) = inr b <->
  (b = true /\ (lower s = [49%N] \/ In (lower s) true_words)) \/
  (b = false /\ (lower s = [48%N] \/ s = [] \/ In (lower s) false_words)).
Theorem bool_set_get : forall s b,
  (b = true /\ (s = [49%N] \/ In (lower s) true_words)) \/
  (b = false /\ (s = [48%N] \/ In (lower s) false_words)) ->
  bool_set_text (Some s) = SetTo (if b then bs "true" else bs "false") /\
  bool_get_text (Some (if b then bs "true" else bs "false")) = inr b.
Theorem null_value_refused : forall bits,
  get_signed_text bits None = inl ECONF_KEY_HAS_NULL_VALUE /\
  get_unsigned_text bits None = inl ECONF_KEY_HAS_NULL_VALUE /\
  bool_get_text None = inl ECONF_KEY_HAS_NULL_VALUE /\
  get_float_text None = inl ECONF_KEY_HAS_NULL_VALUE.
