(* Properties_C05.v — C05: a commented-out line is inert whatever it contains. *)
From Coq Require Import String Lia List.
From Econf Require Import Bytes BytesFacts Grammar CommentLoop LineBase ParserFacts ParserFile CommentFacts.
Local Open Scope N_scope.

(* In EVERY parser state (any entries, any current section, any pending
   comments, directly after an entry or not), for every parsing option,
   delimiter set and comment set: a line whose first non-blank byte is a
   comment character only adds its text to the pending comment and counts as
   a line — no key, no value, no section, no continuation of the previous
   value, no error — whatever bytes follow (further comment characters,
   delimiters, quotes, brackets, 8-bit bytes; a NUL byte ends the text). *)
Theorem C05_inert : forall o dl cm s ind c text,
  forallb isspace ind = true -> nonzero ind = true ->
  mem c cm = true -> isspace c = false -> c <> 0 ->
  no_nl (ind ++ c :: text) = true ->
  parse_line o dl cm s ((ind ++ c :: text) ++ [10]) =
  PCont (mkPS (p_rev s) (p_groups s) (p_cur s) (append_opt (p_cbk s) (cstr text)) (p_cav s) (p_line s + 1)).
Proof. exact comment_inert. Qed.
Print Assumptions C05_inert.

Theorem C05_inert_last_line : forall o dl cm s ind c text,
  forallb isspace ind = true -> nonzero ind = true ->
  mem c cm = true -> isspace c = false -> c <> 0 ->
  no_nl (ind ++ c :: text) = true ->
  parse_line o dl cm s (ind ++ c :: text) =
  PCont (mkPS (p_rev s) (p_groups s) (p_cur s) (append_opt (p_cbk s) (cstr text)) (p_cav s) (p_line s + 1)).
Proof. exact comment_inert_last. Qed.
Print Assumptions C05_inert_last_line.

(* Inserting (read right to left: deleting) a comment line at any point of a
   conventional single-line-value file leaves every section, key, value and
   quote flag unchanged; both files are read successfully. *)
Theorem C05_insert_delete : forall dl cm ls1 ls2 ind c text,
  wf_file dl cm (ls1 ++ ls2) = true -> forallb no_cont (ls1 ++ ls2) = true ->
  blanks ind = true -> mem c cm = true -> forallb tb text = true ->
  let r1 := read_bytes std_opts dl cm (render (ls1 ++ ls2)) in
  let r2 := read_bytes std_opts dl cm (render (ls1 ++ LComment ind c text :: ls2)) in
  r_err r1 = ECONF_SUCCESS /\ r_err r2 = ECONF_SUCCESS /\
  map core (r_entries r1) = map core (r_entries r2) /\ r_groups r1 = r_groups r2.
Proof. exact comment_insert_delete. Qed.
Print Assumptions C05_insert_delete.

(* at the level of meanings the same holds for every list of lines *)
Theorem C05_meaning : forall dl ls1 ls2 ind c text s,
  let a := fold_left (exp_step dl) (ls1 ++ ls2) s in
  let b := fold_left (exp_step dl) (ls1 ++ LComment ind c text :: ls2) s in
  map core (p_rev a) = map core (p_rev b) /\ p_groups a = p_groups b /\ p_cur a = p_cur b.
Proof. exact comment_insert_meaning. Qed.
Print Assumptions C05_meaning.

(* non-vacuity: the witnesses of the defects repaired in /repo (F1-F4) *)
Example C05_demo :
  let s := mkPS [mkE none_s (bs "a") (Some (bs "1")) None None 1 false] [none_s] None None None 1 in
  parse_line std_opts (bs "=") (bs "#") s (bs "#old=1 # disabled" ++ [10]) =
    PCont (mkPS (p_rev s) (p_groups s) None (Some (bs "old=1 # disabled")) None 2) /\
  parse_line std_opts (bs "=") (bs "#") s (bs "  #a #b" ++ [10]) =
    PCont (mkPS (p_rev s) (p_groups s) None (Some (bs "a #b")) None 2) /\
  parse_line (mkPopts true false) (bs "=") (bs "#;") s (bs "## [x] = ""q""" ++ [10]) =
    PCont (mkPS (p_rev s) (p_groups s) None (Some (bs "# [x] = ""q""")) None 2).
Proof. vm_compute. repeat split. Qed.
