(* WalkModel.v — index-level models of the pointer walks of libeconf over
   NUL-terminated buffers, with CHECKED memory accesses.  Model file:
   definitions only, no proofs.

   A buffer is a [list N]; a pointer is an index (Z) into it.  Every read and
   write is bounds-checked ([rd] / [wr] return [None] outside the buffer) and
   every walk lives in the option monad: one out-of-bounds access anywhere
   makes the whole walk [None].  Loops are structural recursions on explicit
   [nat] fuel; running out of fuel is [None] too. *)
From Coq Require Import ZArith List Lia.
From Econf Require Import Bytes KeyfileModel ParserModel.
Local Open Scope Z_scope.

(* ---------- checked memory ---------- *)

Definition inb (buf : list N) (i : Z) : bool :=
  (0 <=? i) && (i <? Z.of_nat (length buf)).

(* *(buf + i) as an rvalue *)
Definition rd (buf : list N) (i : Z) : option N :=
  if inb buf i then nth_error buf (Z.to_nat i) else None.

(* *(buf + i) = c *)
Definition wr (buf : list N) (i : Z) (c : N) : option (list N) :=
  if inb buf i
  then Some (firstn (Z.to_nat i) buf ++ c :: skipn (S (Z.to_nat i)) buf)
  else None.

Definition bind {A B} (a : option A) (f : A -> option B) : option B :=
  match a with Some x => f x | None => None end.

Notation "'do' x <- a ; b" := (bind a (fun x => b))
  (at level 200, x name, a at level 100, b at level 200, right associativity).

(* ---------- libc primitives, byte by byte ---------- *)

(* strlen(buf + i) *)
Fixpoint strlen_at (buf : list N) (i : Z) (fuel : nat) : option Z :=
  match fuel with
  | O => None
  | S f => do c <- rd buf i;
           if N.eqb c 0 then Some 0
           else do n <- strlen_at buf (i + 1) f; Some (n + 1)
  end.

(* the C string starting at buf + i, as strdup / printf("%s") read it *)
Fixpoint cstr_at (buf : list N) (i : Z) (fuel : nat) : option (list N) :=
  match fuel with
  | O => None
  | S f => do c <- rd buf i;
           if N.eqb c 0 then Some []
           else do r <- cstr_at buf (i + 1) f; Some (c :: r)
  end.

(* strchr(buf + i, c) != NULL, for c <> 0 *)
Fixpoint strchr_at (buf : list N) (i : Z) (c : N) (fuel : nat) : option bool :=
  match fuel with
  | O => None
  | S f => do x <- rd buf i;
           if N.eqb x c then Some true
           else if N.eqb x 0 then Some false
           else strchr_at buf (i + 1) c f
  end.

(* ---------- the backward walks ---------- *)

(* while ([p > lo &&] isspace( *p)) p--;
   [lo = Some l]: the loop has its own bound test, evaluated BEFORE the read
   (short-circuit &&); [lo = None]: no bound test at all. *)
Fixpoint wb (buf : list N) (lo : option Z) (p : Z) (fuel : nat) : option Z :=
  match fuel with
  | O => None
  | S f =>
      if match lo with Some l => p >? l | None => true end
      then do c <- rd buf p;
           if isspace c then wb buf lo (p - 1) f else Some p
      else Some p
  end.

(* while (isspace( *--back)); *)
Fixpoint wb_pre (buf : list N) (back : Z) (fuel : nat) : option Z :=
  match fuel with
  | O => None
  | S f => let back := back - 1 in
           do c <- rd buf back;
           if isspace c then wb_pre buf back f else Some back
  end.

(* p = x + strlen(x); if (p > x) p--; while (p > x && isspace( *p)) p--;
   (the text shared by W1 and W2); returns p *)
Definition rwalk (buf : list N) (x : Z) (fuel : nat) : option Z :=
  do n <- strlen_at buf x fuel;
  let p := x + n in
  let p := if p >? x then p - 1 else p in
  wb buf (Some x) p fuel.

(* ---------- W1: store(), right-trim of the key ---------- *)
(* const char *p = key + strlen(key); if (p > key) p--;
   while (p > key && isspace( *p)) p--;  len = p + 1 - key;
   returns len (the argument of strndup(key, len)) *)
Definition W1 (buf : list N) (key : Z) (fuel : nat) : option Z :=
  do p <- rwalk buf key fuel;
  Some (p + 1 - key).

(* ---------- W2: read_file, right-trim of the value ---------- *)
(* if ( *p != '\0' && *(p + 1) != '\0') *(p + 1) = '\0'; *)
Definition cut_after (buf : list N) (p : Z) : option (list N) :=
  do c <- rd buf p;
  if negb (N.eqb c 0) then
    do c1 <- rd buf (p + 1);
    if negb (N.eqb c1 0) then wr buf (p + 1) 0 else Some buf
  else Some buf.

(* returns the buffer after the walk and the (possibly decremented) data *)
Definition W2 (buf : list N) (data : Z) (quote_seen : bool) (fuel : nat)
  : option (list N * Z) :=
  do p <- rwalk buf data fuel;
  do pd <- (if (p >=? data) && quote_seen then
              do c <- rd buf p;
              if N.eqb c 34 then Some (p - 1, data) else Some (p, data - 1)
            else Some (p, data));
  let '(p, data) := pd in
  do buf' <- cut_after buf p;
  Some (buf', data).

(* the C string the caller then sees at data *)
Definition W2_str (buf : list N) (data : Z) (quote_seen : bool) (fuel : nat)
  : option (list N) :=
  do r <- W2 buf data quote_seen fuel;
  let '(buf', data') := r in
  cstr_at buf' data' fuel.

(* ---------- W3: read_file, section header ---------- *)
Inductive w3res :=
| W3Name (nm : list N)          (* the section name left at name *)
| W3Err (e : econf_err).

(* p = name + strlen(name) - 1; while (isspace( *p)) p--;
   if ( *p != ']') error(strchr(name, ']') == NULL ? MISSING_BRACKET : TEXT_AFTER_SECTION);
   *p = '\0'; if (strlen(name) <= 0) error EMPTY_SECTION_NAME; *)
Definition W3 (buf : list N) (name : Z) (fuel : nat) : option w3res :=
  do n <- strlen_at buf name fuel;
  let p := name + n - 1 in
  do p <- wb buf None p fuel;
  do c <- rd buf p;
  if negb (N.eqb c 93) then
    do b <- strchr_at buf name 93 fuel;
    Some (W3Err (if b then ECONF_TEXT_AFTER_SECTION else ECONF_MISSING_BRACKET))
  else
    do buf' <- wr buf p 0;
    do n' <- strlen_at buf' name fuel;
    if n' <=? 0 then Some (W3Err ECONF_EMPTY_SECTION_NAME)
    else do nm <- cstr_at buf' name fuel; Some (W3Name nm).

(* ---------- W4: continuation line, newline strip ---------- *)
(* if ( *org_buf && org_buf[strlen(org_buf)-1] == '\n') org_buf[strlen(org_buf)-1] = 0; *)
Definition W4 (buf : list N) (org : Z) (fuel : nat) : option (list N) :=
  do c <- rd buf org;
  if negb (N.eqb c 0) then
    do n <- strlen_at buf org fuel;
    do c' <- rd buf (org + (n - 1));
    if N.eqb c' 10 then
      do n' <- strlen_at buf org fuel;
      wr buf (org + (n' - 1)) 0
    else Some buf
  else Some buf.

Definition W4_str (buf : list N) (org : Z) (fuel : nat) : option (list N) :=
  do buf' <- W4 buf org fuel; cstr_at buf' org fuel.

(* ---------- W5: libeconf_ext.c rtrim ---------- *)
(* if (strlen(s) <= 0) return s;
   char *back = s + strlen(s); while (isspace( *--back)); *(back+1) = '\0'; return s; *)
Definition W5 (buf : list N) (s : Z) (fuel : nat) : option (list N) :=
  do n <- strlen_at buf s fuel;
  if n <=? 0 then Some buf
  else
    do n' <- strlen_at buf s fuel;
    let back := s + n' in
    do back <- wb_pre buf back fuel;
    wr buf (back + 1) 0.

Definition W5_str (buf : list N) (s : Z) (fuel : nat) : option (list N) :=
  do buf' <- W5 buf s fuel; cstr_at buf' s fuel.

(* ---------- W6: helpers.c stripbrackets ---------- *)
(* while ( *(++string) != ']') { *buffer++ = *string; }
   returns the buffer and the final value of `buffer` *)
Fixpoint sb_loop (buf : list N) (string buffer : Z) (fuel : nat) : option (list N * Z) :=
  match fuel with
  | O => None
  | S f => let string := string + 1 in
           do c <- rd buf string;
           if negb (N.eqb c 93) then
             do buf' <- wr buf buffer c;
             sb_loop buf' string (buffer + 1) f
           else Some (buf, buffer)
  end.

(* char *ptr = string, *buffer = string; size_t length = strlen(string) - 1;
   if ( *string == '[' && string[length] == ']') { <loop> *buffer = 0; } return ptr;
   For the empty string length wraps to SIZE_MAX (here: -1), but then
   *string == '[' is false and && short-circuits: string[length] is not read. *)
Definition W6 (buf : list N) (string : Z) (fuel : nat) : option (list N) :=
  do n <- strlen_at buf string fuel;
  let length := n - 1 in
  do c0 <- rd buf string;
  if N.eqb c0 91 then
    do cl <- rd buf (string + length);
    if N.eqb cl 93 then
      do r <- sb_loop buf string string fuel;
      let '(buf', buffer) := r in
      wr buf' buffer 0
    else Some buf
  else Some buf.

Definition W6_str (buf : list N) (string : Z) (fuel : nat) : option (list N) :=
  do buf' <- W6 buf string fuel; cstr_at buf' string fuel.
