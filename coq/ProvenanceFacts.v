From Coq Require Import String Lia List.
From Econf Require Import Bytes BytesFacts MapSpec KeyfileFacts Grammar LineBase.
Local Open Scope N_scope.

Definition cmt (x : str * byte * str) : cline := LComment (fst (fst x)) (snd (fst x)) (snd x).
Definition cnt (x : str * str * str) : cline := LCont (fst (fst x)) (snd (fst x)) (snd x) None.

(* the text of a block of comment lines: their texts joined by newlines (None for no line) *)
Definition block_text (cs : list (str * byte * str)) : option str := fold_left append_opt (map snd cs) None.

(* the value of a key line followed by continuation lines: each continuation line is added as it stands *)
Definition cont_value (v0 : option str) (conts : list (str * str * str)) : option str :=
  fold_left (fun v x => Some ((match v with Some s => s | None => [] end) ++ nl :: fst (fst x) ++ snd (fst x) ++ snd x)) conts v0.

(* ---------- auxiliary lemmas ---------- *)

Lemma pv_comments dl : forall cs s,
  let s' := fold_left (exp_step dl) (map cmt cs) s in
  p_rev s' = p_rev s /\ p_cur s' = p_cur s /\ p_groups s' = p_groups s /\ p_cav s' = p_cav s /\
  p_line s' = p_line s + N.of_nat (length cs) /\
  p_cbk s' = fold_left append_opt (map snd cs) (p_cbk s).
Proof.
  induction cs as [|c cs IH]; intros s; simpl.
  - repeat split; auto. lia.
  - specialize (IH (exp_step dl s (cmt c))). simpl in IH.
    destruct IH as (H1 & H2 & H3 & H4 & H5 & H6).
    rewrite H1, H2, H3, H4, H5, H6. unfold cmt; simpl.
    repeat split; auto. lia.
Qed.

Lemma pv_conts dl : forall conts s e rest,
  p_rev s = e :: rest -> e_line e = p_line s ->
  let s' := fold_left (exp_step dl) (map cnt conts) s in
  exists e', p_rev s' = e' :: rest /\
    e_key e' = e_key e /\ e_group e' = e_group e /\ e_cbk e' = e_cbk e /\
    e_quotes e' = e_quotes e /\
    e_value e' = cont_value (e_value e) conts /\
    e_line e' = p_line s + N.of_nat (length conts) /\
    (conts = [] -> e_cav e' = e_cav e).
Proof.
  induction conts as [|c conts IH]; intros s e rest Hrev Hline; simpl.
  - exists e. repeat split; auto. lia.
  - set (s1 := exp_step dl s (cnt c)).
    assert (Hs1 : exists e1, p_rev s1 = e1 :: rest /\ e_line e1 = p_line s1 /\
              p_line s1 = p_line s + 1 /\
              e_key e1 = e_key e /\ e_group e1 = e_group e /\ e_cbk e1 = e_cbk e /\
              e_quotes e1 = e_quotes e /\
              e_value e1 = Some ((match e_value e with Some x => x | None => [] end) ++
                                 nl :: fst (fst c) ++ snd (fst c) ++ snd c)).
    { unfold s1, cnt. simpl. rewrite Hrev. simpl.
      eexists. repeat split; reflexivity. }
    destruct Hs1 as (e1 & R1 & L1 & PL & K1 & G1 & C1 & Q1 & V1).
    destruct (IH s1 e1 rest R1 L1) as (e' & A1 & A2 & A3 & A4 & A5 & A6 & A7 & _).
    exists e'. split; [exact A1|].
    rewrite A2, A3, A4, A5, A6, A7, K1, G1, C1, Q1, V1, PL.
    repeat split; auto.
    + lia.
    + discriminate.
Qed.

(* ---------- 1. provenance of a comment block + key line + continuation lines ---------- *)

Theorem provenance_block : forall dl s cs k conts,
  p_cbk s = None ->
  let s' := fold_left (exp_step dl) (map cmt cs ++ LKey k :: map cnt conts) s in
  exists e rest,
    p_rev s' = e :: rest /\ rest = p_rev s /\
    e_key e = kl_key k /\
    e_group e = (match p_cur s with Some g => g | None => none_s end) /\
    e_line e = p_line s + N.of_nat (length cs + 1 + length conts) /\
    e_cbk e = block_text cs /\
    e_value e = cont_value (val_of dl k) conts /\
    e_quotes e = is_quoted (kl_val k) /\
    (conts = [] -> e_cav e = option_map snd (kl_tc k)).
Proof.
  intros dl s cs k conts Hc s'. subst s'.
  rewrite fold_left_app. simpl.
  destruct (pv_comments dl cs s) as (H1 & H2 & H3 & H4 & H5 & H6).
  set (s1 := fold_left (exp_step dl) (map cmt cs) s) in *.
  set (s2 := exp_step dl s1 (LKey k)).
  set (e0 := mkE (match p_cur s1 with Some g => g | None => none_s end) (kl_key k) (val_of dl k)
                 (p_cbk s1) (option_map snd (kl_tc k)) (p_line s1 + 1) (is_quoted (kl_val k))).
  assert (R2 : p_rev s2 = e0 :: p_rev s1) by reflexivity.
  assert (L2 : e_line e0 = p_line s2) by reflexivity.
  destruct (pv_conts dl conts s2 e0 (p_rev s1) R2 L2) as (e' & A1 & A2 & A3 & A4 & A5 & A6 & A7 & A8).
  exists e', (p_rev s1). split; [exact A1|]. split; [exact H1|].
  rewrite A2, A3, A4, A5, A6, A7.
  unfold e0; simpl. rewrite H2, H5, H6, Hc.
  repeat split; auto.
  rewrite !Nat2N.inj_add. simpl. lia.
Qed.

(* ---------- 2. the extended getter ---------- *)

Theorem ext_of_entry : forall kf g k,
  k <> [] ->
  get_ext kf g (Some k) =
  match get_first (kf_entries kf) (norm_group g) k with
  | Some e => inr (mkExt (ext_values (e_value e)) (kf_path kf) (e_line e) (e_cbk e) (e_cav e))
  | None => inl ECONF_NOKEY
  end.
Proof.
  intros kf g k Hk. unfold get_ext, find_key.
  destruct k as [|c k]; [congruence|].
  pose proof (find_from_spec (kf_entries kf) (norm_group g) (c :: k) None 0) as F.
  destruct (find_from (kf_entries kf) (norm_group g) (c :: k) 0) as [n|].
  - destruct F as (_ & _ & Hg & _). rewrite Hg, Nat.sub_0_r. reflexivity.
  - destruct F as (Hg & _). rewrite Hg. reflexivity.
Qed.

Theorem ext_values_lines : forall v,
  ext_values (Some v) =
  match trim v with
  | 34 :: r => [34 :: r]
  | t => map trim (split_on nl t)
  end.
Proof.
  intros v. unfold ext_values.
  destruct (trim v) as [|c r]; [reflexivity|].
  destruct c as [|p]; [reflexivity|].
  do 6 (destruct p as [p|p|]; try reflexivity).
Qed.

Theorem ext_values_null : ext_values None = [].
Proof. reflexivity. Qed.

(* ---------- 3. the path query ---------- *)

Theorem path_of_read : forall base path dl cm r, get_path (keyfile_of_read base path dl cm r) = path.
Proof. reflexivity. Qed.

Theorem path_of_merge : forall a b, get_path (merge_model a b) = [].
Proof. reflexivity. Qed.

Theorem path_relative : forall p c r, p = c :: r -> c <> 47 -> abs_path p = 47 :: p.
Proof.
  intros p c r -> Hc. unfold abs_path.
  destruct c as [|q]; [reflexivity|].
  do 6 (destruct q as [q|q|]; try reflexivity).
  congruence.
Qed.
