From Coq Require Import String Lia List.
From Econf Require Import Bytes BytesFacts ThreadsModel.
Import ListNotations.
Local Open Scope N_scope.

(* ---------- settings_eq is an equivalence ---------- *)
Lemma th_seq_refl : forall g, settings_eq g g.
Proof. intros g; split; reflexivity. Qed.

Lemma th_seq_sym : forall g g', settings_eq g g' -> settings_eq g' g.
Proof. intros g g' [H1 H2]; split; symmetry; assumption. Qed.

Lemma th_seq_trans : forall g1 g2 g3, settings_eq g1 g2 -> settings_eq g2 g3 -> settings_eq g1 g3.
Proof. intros g1 g2 g3 [H1 H2] [H3 H4]; split; etransitivity; eassumption. Qed.

Lemma th_with_err_seq : forall g f l, settings_eq (with_err g f l) g.
Proof. intros; split; reflexivity. Qed.

Lemma th_with_err_seq2 : forall g g' f l f' l',
  settings_eq g g' -> settings_eq (with_err g f l) (with_err g' f' l').
Proof. intros g g' f l f' l' [H1 H2]; split; assumption. Qed.

Ltac th_fin :=
  solve [ repeat split; try reflexivity; try assumption;
          try (match goal with H : settings_eq _ _ |- _ => apply H end);
          try (apply th_with_err_seq2; assumption) ].

(* ---------- the gate ---------- *)
Lemma th_gate_eq : forall t g g' cb o p dl cm, settings_eq g g' ->
  go_res (gate t g cb o p dl cm) = go_res (gate t g' cb o p dl cm) /\
  go_events (gate t g cb o p dl cm) = go_events (gate t g' cb o p dl cm).
Proof.
  intros t g g' cb o p dl cm [Hs _]. unfold gate. rewrite <- Hs.
  destruct (fs_lstat t p) as [n|]; [|split; reflexivity].
  destruct (sec_nolinks (g_sec g) && is_link n)%bool; [split; reflexivity|].
  destruct (match sec_owner (g_sec g) with Some u => negb (node_uid n =? u) | None => false end);
    [split; reflexivity|].
  destruct (match sec_group (g_sec g) with Some u => negb (node_gid n =? u) | None => false end);
    [split; reflexivity|].
  destruct (perm_refusal (g_sec g) t p n); [split; reflexivity|].
  destruct (match cb with Some f => (f p, [EvCheck p (f p)]) | None => (true, []) end) as [ok evs].
  destruct (negb ok); [split; reflexivity|].
  destruct (fs_slurp 8 t p) as [content|]; [|split; reflexivity].
  destruct (r_err (read_bytes o dl cm content)); split; reflexivity.
Qed.

(* ---------- relation between two runs of a reader ---------- *)
Definition th_rel {A : Type} (x y : A * list event * globals) : Prop :=
  fst (fst x) = fst (fst y) /\ snd (fst x) = snd (fst y) /\ settings_eq (snd x) (snd y).

Lemma th_find_main_rel : forall t cb o dirs name sfx dl cm g g' evs,
  settings_eq g g' ->
  th_rel (find_main t g cb o dirs name sfx dl cm evs) (find_main t g' cb o dirs name sfx dl cm evs).
Proof.
  intros t cb o dirs name sfx dl cm. induction dirs as [|d rest IH]; intros g g' evs H.
  - cbn [find_main]. th_fin.
  - cbn [find_main].
    destruct (th_gate_eq t g g' cb o (d ++ 47 :: name ++ sfx) dl cm H) as [Hr He].
    rewrite <- Hr, <- He.
    destruct (go_res (gate t g cb o (d ++ 47 :: name ++ sfx) dl cm)) as [e|kf].
    + destruct e;
        try (th_fin).
      apply IH. apply th_with_err_seq2; assumption.
    + th_fin.
Qed.

Lemma th_find_main_pres : forall t cb o dirs name sfx dl cm g evs,
  settings_eq (snd (find_main t g cb o dirs name sfx dl cm evs)) g.
Proof.
  intros t cb o dirs name sfx dl cm. induction dirs as [|d rest IH]; intros g evs.
  - cbn [find_main]. apply th_seq_refl.
  - cbn [find_main].
    destruct (go_res (gate t g cb o (d ++ 47 :: name ++ sfx) dl cm)) as [e|kf].
    + destruct e; try apply th_with_err_seq.
      eapply th_seq_trans; [apply IH|apply th_with_err_seq].
    + apply th_with_err_seq.
Qed.

Lemma th_read_names_rel : forall t cb o dir sfx dl cm names g g' acc evs,
  settings_eq g g' ->
  th_rel (read_names t g cb o dir sfx dl cm names acc evs)
         (read_names t g' cb o dir sfx dl cm names acc evs).
Proof.
  intros t cb o dir sfx dl cm names. induction names as [|nm rest IH]; intros g g' acc evs H.
  - cbn [read_names]. th_fin.
  - cbn [read_names].
    destruct (Nat.ltb (length sfx) (length nm) && is_suffix sfx nm)%bool.
    + destruct (th_gate_eq t g g' cb o (dir ++ 47 :: nm) dl cm H) as [Hr He].
      rewrite <- Hr, <- He.
      destruct (go_res (gate t g cb o (dir ++ 47 :: nm) dl cm)) as [e|kf].
      * th_fin.
      * apply IH. apply th_with_err_seq2; assumption.
    + apply IH; assumption.
Qed.

Lemma th_read_names_pres : forall t cb o dir sfx dl cm names g acc evs,
  settings_eq (snd (read_names t g cb o dir sfx dl cm names acc evs)) g.
Proof.
  intros t cb o dir sfx dl cm names. induction names as [|nm rest IH]; intros g acc evs.
  - cbn [read_names]. apply th_seq_refl.
  - cbn [read_names].
    destruct (Nat.ltb (length sfx) (length nm) && is_suffix sfx nm)%bool.
    + destruct (go_res (gate t g cb o (dir ++ 47 :: nm) dl cm)) as [e|kf].
      * apply th_with_err_seq.
      * eapply th_seq_trans; [apply IH|apply th_with_err_seq].
    + apply IH.
Qed.

Lemma th_read_dropins_rel : forall t cb o dirs name sfx dl cm g g' acc evs,
  settings_eq g g' ->
  th_rel (read_dropins t g cb o dirs name sfx dl cm acc evs)
         (read_dropins t g' cb o dirs name sfx dl cm acc evs).
Proof.
  intros t cb o dirs name sfx dl cm. induction dirs as [|dir rest IH]; intros g g' acc evs H.
  - cbn [read_dropins]. th_fin.
  - cbn [read_dropins].
    destruct (fs_scandir t dir) as [names|]; [|apply IH; assumption].
    pose proof (th_read_names_rel t cb o dir sfx dl cm names g g' acc evs H) as Hn.
    destruct (read_names t g cb o dir sfx dl cm names acc evs) as [[r1 e1] g1].
    destruct (read_names t g' cb o dir sfx dl cm names acc evs) as [[r2 e2] g2].
    destruct Hn as (Ha & Hb & Hc). cbn [fst snd] in Ha, Hb, Hc. subst r2 e2.
    destruct r1 as [e|acc'].
    + th_fin.
    + apply IH; assumption.
Qed.

Lemma th_read_dropins_pres : forall t cb o dirs name sfx dl cm g acc evs,
  settings_eq (snd (read_dropins t g cb o dirs name sfx dl cm acc evs)) g.
Proof.
  intros t cb o dirs name sfx dl cm. induction dirs as [|dir rest IH]; intros g acc evs.
  - cbn [read_dropins]. apply th_seq_refl.
  - cbn [read_dropins].
    destruct (fs_scandir t dir) as [names|]; [|apply IH].
    pose proof (th_read_names_pres t cb o dir sfx dl cm names g acc evs) as Hn.
    destruct (read_names t g cb o dir sfx dl cm names acc evs) as [[r1 e1] g1].
    cbn [snd] in Hn.
    destruct r1 as [e|acc'].
    + exact Hn.
    + eapply th_seq_trans; [apply IH|exact Hn].
Qed.

(* ---------- history ---------- *)
Definition th_relh (h h' : hist_out) : Prop :=
  ho_res h = ho_res h' /\ ho_events h = ho_events h' /\ settings_eq (ho_g h) (ho_g h').

Lemma th_history_rel : forall t cb o pd cd name sfx dl cm g g',
  settings_eq g g' ->
  th_relh (history t g cb o pd cd name sfx dl cm) (history t g' cb o pd cd name sfx dl cm).
Proof.
  intros t cb o pd cd name sfx dl cm g g' H. unfold history.
  destruct name as [nm|]; [|th_fin].
  set (sx := match nm with [] => [] | _ => norm_suffix sfx end).
  assert (Hm : th_rel
    (match nm with
     | [] => (@inr econf_err (option keyfile) None, @nil event, g)
     | _ => find_main t g cb o (rev pd) nm sx dl cm []
     end)
    (match nm with
     | [] => (@inr econf_err (option keyfile) None, @nil event, g')
     | _ => find_main t g' cb o (rev pd) nm sx dl cm []
     end)).
  { destruct nm.
    - th_fin.
    - apply th_find_main_rel; assumption. }
  destruct (match nm with
     | [] => (@inr econf_err (option keyfile) None, @nil event, g)
     | _ => find_main t g cb o (rev pd) nm sx dl cm []
     end) as [[r1 e1] g1].
  destruct (match nm with
     | [] => (@inr econf_err (option keyfile) None, @nil event, g')
     | _ => find_main t g' cb o (rev pd) nm sx dl cm []
     end) as [[r2 e2] g2].
  destruct Hm as (Ha & Hb & Hc). cbn [fst snd] in Ha, Hb, Hc. subst r2 e2.
  destruct r1 as [e|m]; [th_fin|].
  set (acc := match m with Some kf => [kf] | None => [] end).
  pose proof (th_read_dropins_rel t cb o (dropin_dirs pd cd nm sx) nm sx dl cm g1 g2 acc e1 Hc) as Hd.
  destruct (read_dropins t g1 cb o (dropin_dirs pd cd nm sx) nm sx dl cm acc e1) as [[r3 e3] g3].
  destruct (read_dropins t g2 cb o (dropin_dirs pd cd nm sx) nm sx dl cm acc e1) as [[r4 e4] g4].
  destruct Hd as (Ha & Hb & Hd). cbn [fst snd] in Ha, Hb, Hd. subst r4 e4.
  destruct r3 as [e|files]; [th_fin|].
  destruct files; th_fin.
Qed.

Lemma th_history_pres : forall t cb o pd cd name sfx dl cm g,
  settings_eq (ho_g (history t g cb o pd cd name sfx dl cm)) g.
Proof.
  intros t cb o pd cd name sfx dl cm g. unfold history.
  destruct name as [nm|]; [|apply th_seq_refl].
  set (sx := match nm with [] => [] | _ => norm_suffix sfx end).
  assert (Hm : settings_eq (snd
    (match nm with
     | [] => (@inr econf_err (option keyfile) None, @nil event, g)
     | _ => find_main t g cb o (rev pd) nm sx dl cm []
     end)) g).
  { destruct nm.
    - apply th_seq_refl.
    - apply th_find_main_pres. }
  destruct (match nm with
     | [] => (@inr econf_err (option keyfile) None, @nil event, g)
     | _ => find_main t g cb o (rev pd) nm sx dl cm []
     end) as [[r1 e1] g1].
  cbn [snd] in Hm.
  destruct r1 as [e|m]; [exact Hm|].
  set (acc := match m with Some kf => [kf] | None => [] end).
  pose proof (th_read_dropins_pres t cb o (dropin_dirs pd cd nm sx) nm sx dl cm g1 acc e1) as Hd.
  destruct (read_dropins t g1 cb o (dropin_dirs pd cd nm sx) nm sx dl cm acc e1) as [[r3 e3] g3].
  cbn [snd] in Hd.
  assert (Hg : settings_eq g3 g) by (eapply th_seq_trans; eassumption).
  destruct r3 as [e|files]; [exact Hg|].
  destruct files; exact Hg.
Qed.

(* ---------- the public entry points ---------- *)
Definition th_rel2 (r r' : read_out2) : Prop :=
  r2_err r = r2_err r' /\ r2_obj r = r2_obj r' /\ r2_events r = r2_events r' /\
  settings_eq (r2_g r) (r2_g r').

Lemma th_read_config_obj_rel : forall t cb obj name sfx dl cm g g',
  settings_eq g g' ->
  th_rel2 (read_config_obj t g cb obj name sfx dl cm) (read_config_obj t g' cb obj name sfx dl cm).
Proof.
  intros t cb obj name sfx dl cm g g' H. unfold read_config_obj.
  assert (Hc : g_conf_dirs g = g_conf_dirs g') by apply H.
  rewrite <- Hc.
  set (cds := match kf_conf_dirs obj with [] => g_conf_dirs g | l => l end).
  pose proof (th_history_rel t cb (mkPopts (kf_python obj) (kf_join obj)) (kf_parse_dirs obj)
                cds name sfx dl cm g g' H) as (Ha & Hb & Hd).
  rewrite <- Ha.
  destruct (ho_res (history t g cb (mkPopts (kf_python obj) (kf_join obj)) (kf_parse_dirs obj)
                      cds name sfx dl cm)) as [e|files].
  - th_fin.
  - destruct (merge_files files); th_fin.
Qed.

Lemma th_read_config_obj_pres : forall t cb obj name sfx dl cm g,
  settings_eq (r2_g (read_config_obj t g cb obj name sfx dl cm)) g.
Proof.
  intros t cb obj name sfx dl cm g. unfold read_config_obj.
  set (cds := match kf_conf_dirs obj with [] => g_conf_dirs g | l => l end).
  pose proof (th_history_pres t cb (mkPopts (kf_python obj) (kf_join obj)) (kf_parse_dirs obj)
                cds name sfx dl cm g) as Hp.
  destruct (ho_res (history t g cb (mkPopts (kf_python obj) (kf_join obj)) (kf_parse_dirs obj)
                      cds name sfx dl cm)) as [e|files].
  - exact Hp.
  - destruct (merge_files files); exact Hp.
Qed.

Lemma th_read_dirs_rel : forall t cb dist etc name sfx dl cm g g',
  settings_eq g g' ->
  th_rel2 (read_dirs t g cb dist etc name sfx dl cm) (read_dirs t g' cb dist etc name sfx dl cm).
Proof. intros. unfold read_dirs. apply th_read_config_obj_rel; assumption. Qed.

Lemma th_read_dirs_pres : forall t cb dist etc name sfx dl cm g,
  settings_eq (r2_g (read_dirs t g cb dist etc name sfx dl cm)) g.
Proof. intros. unfold read_dirs. apply th_read_config_obj_pres. Qed.

Lemma th_read_dirs_history_rel : forall t cb dist etc name sfx dl cm g g',
  settings_eq g g' ->
  th_relh (read_dirs_history t g cb dist etc name sfx dl cm)
          (read_dirs_history t g' cb dist etc name sfx dl cm).
Proof.
  intros t cb dist etc name sfx dl cm g g' H. unfold read_dirs_history.
  assert (Hc : g_conf_dirs g = g_conf_dirs g') by apply H.
  rewrite <- Hc. apply th_history_rel; assumption.
Qed.

Lemma th_read_dirs_history_pres : forall t cb dist etc name sfx dl cm g,
  settings_eq (ho_g (read_dirs_history t g cb dist etc name sfx dl cm)) g.
Proof. intros. unfold read_dirs_history. apply th_history_pres. Qed.

Lemma th_read_config_rel : forall t cb obj0 project usr name sfx dl cm g g',
  settings_eq g g' ->
  th_rel2 (read_config t g cb obj0 project usr name sfx dl cm)
          (read_config t g' cb obj0 project usr name sfx dl cm).
Proof.
  intros t cb obj0 project usr name sfx dl cm g g' H. unfold read_config.
  match goal with
  | |- context [read_config_obj t g cb ?ob ?nm sfx dl cm] =>
      pose proof (th_read_config_obj_rel t cb ob nm sfx dl cm g g' H) as (Ha & Hb & Hc & Hd);
      set (r1 := read_config_obj t g cb ob nm sfx dl cm) in *;
      set (r2 := read_config_obj t g' cb ob nm sfx dl cm) in *
  end.
  clearbody r1 r2.
  destruct r1 as [e1 ob1 ev1 g1]. destruct r2 as [e2 ob2 ev2 g2].
  cbn [r2_err r2_obj r2_events r2_g] in *. subst e2 ob2 ev2.
  destruct e1; destruct obj0; (split; [|split; [|split]]); cbn [r2_err r2_obj r2_events r2_g];
    first [assumption | reflexivity].
Qed.

Lemma th_read_config_pres : forall t cb obj0 project usr name sfx dl cm g,
  settings_eq (r2_g (read_config t g cb obj0 project usr name sfx dl cm)) g.
Proof.
  intros t cb obj0 project usr name sfx dl cm g. unfold read_config.
  match goal with
  | |- context [read_config_obj t g cb ?ob ?nm sfx dl cm] =>
      pose proof (th_read_config_obj_pres t cb ob nm sfx dl cm g) as Hp;
      set (r1 := read_config_obj t g cb ob nm sfx dl cm) in *
  end.
  clearbody r1. destruct r1 as [e1 ob1 ev1 g1]. cbn [r2_err r2_obj r2_events r2_g] in *.
  destruct e1; destruct obj0; exact Hp.
Qed.

Lemma th_read_file_api_rel : forall t cb path dl cm g g',
  settings_eq g g' ->
  th_rel2 (read_file_api t g cb path dl cm) (read_file_api t g' cb path dl cm).
Proof.
  intros t cb path dl cm g g' H. unfold read_file_api.
  destruct (th_gate_eq t g g' cb (mkPopts false false) path dl cm H) as [Hr He].
  rewrite <- Hr, <- He.
  destruct (go_res (gate t g cb (mkPopts false false) path dl cm));
    th_fin.
Qed.

Lemma th_read_file_api_pres : forall t cb path dl cm g,
  settings_eq (r2_g (read_file_api t g cb path dl cm)) g.
Proof.
  intros t cb path dl cm g. unfold read_file_api.
  destruct (go_res (gate t g cb (mkPopts false false) path dl cm)); apply th_with_err_seq.
Qed.

(* ---------- finish_read ---------- *)
Lemma th_finish_read : forall st tr cb g g' o r r',
  th_rel2 r r' ->
  w_store (fst (finish_read (mkW st tr g cb) o r)) = w_store (fst (finish_read (mkW st tr g' cb) o r')) /\
  w_tree (fst (finish_read (mkW st tr g cb) o r)) = w_tree (fst (finish_read (mkW st tr g' cb) o r')) /\
  w_cb (fst (finish_read (mkW st tr g cb) o r)) = w_cb (fst (finish_read (mkW st tr g' cb) o r')) /\
  snd (finish_read (mkW st tr g cb) o r) = snd (finish_read (mkW st tr g' cb) o r') /\
  w_g (fst (finish_read (mkW st tr g cb) o r)) = r2_g r /\
  w_g (fst (finish_read (mkW st tr g' cb) o r')) = r2_g r'.
Proof.
  intros st tr cb g g' o r r' (Ha & Hb & Hc & Hd). unfold finish_read.
  cbn [fst snd w_store w_tree w_cb w_g].
  rewrite <- Ha, <- Hb, <- Hc. repeat split; reflexivity.
Qed.

(* ---------- FRAME ---------- *)
Lemma th_tstep_frame : forall g g' p c,
  settings_eq g g' -> reads_errloc c = false ->
  snd (fst (tstep g p c)) = snd (fst (tstep g' p c)) /\
  snd (tstep g p c) = snd (tstep g' p c) /\
  settings_eq (fst (fst (tstep g p c))) (fst (fst (tstep g' p c))) /\
  (global_setter c = false -> settings_eq (fst (fst (tstep g p c))) g).
Proof.
  intros g g' p c H Hr. destruct p as [st tr cb]. unfold tstep. cbn [ts_store ts_tree ts_cb].
  destruct c; cbn [wstep w_store w_tree w_g w_cb set_store set_g].
  - (* WBase *)
    destruct (step st c) as [s' r]. cbn [fst snd w_store w_tree w_g w_cb].
    repeat split; try reflexivity; try apply H.
  - cbn [fst snd w_store w_tree w_g w_cb]. repeat split; try reflexivity; try apply H.
  - (* WSec *)
    cbn [fst snd w_store w_tree w_g w_cb global_setter].
    repeat split; try reflexivity; try apply H; try discriminate.
  - (* WPerms *)
    cbn [fst snd w_store w_tree w_g w_cb global_setter g_sec g_conf_dirs].
    destruct H as [Hs Hc]. unfold settings_eq. cbn [g_sec g_conf_dirs]. rewrite Hs, Hc.
    repeat split; try reflexivity; try discriminate.
  - (* WConfDirs *)
    cbn [fst snd w_store w_tree w_g w_cb global_setter].
    repeat split; try reflexivity; try apply H; try discriminate.
  - cbn [fst snd w_store w_tree w_g w_cb]. repeat split; try reflexivity; try apply H.
  - (* WNewOpts *)
    destruct (new_with_options opts) as [e kf]. cbn [fst snd w_store w_tree w_g w_cb].
    repeat split; try reflexivity; try apply H.
  - (* WReadFile *)
    pose proof (th_read_file_api_rel tr (cb_of cb) path dl cm g g' H) as Hrel.
    pose proof (th_read_file_api_pres tr (cb_of cb) path dl cm g) as Hp.
    set (r1 := read_file_api tr g (cb_of cb) path dl cm) in *.
    set (r2 := read_file_api tr g' (cb_of cb) path dl cm) in *.
    destruct (th_finish_read st tr cb g g' o r1 r2 Hrel) as (F1 & F2 & F3 & F4 & F5 & F6).
    destruct (finish_read (mkW st tr g cb) o r1) as [w1 o1].
    destruct (finish_read (mkW st tr g' cb) o r2) as [w2 o2].
    cbn [fst snd] in *. subst o2. rewrite F1, F2, F3, F5, F6.
    split; [reflexivity | split; [reflexivity | split; [apply Hrel | intros _; exact Hp]]].
  - (* WReadDirs *)
    pose proof (th_read_dirs_rel tr (cb_of cb) dist etc name sfx dl cm g g' H) as Hrel.
    pose proof (th_read_dirs_pres tr (cb_of cb) dist etc name sfx dl cm g) as Hp.
    set (r1 := read_dirs tr g (cb_of cb) dist etc name sfx dl cm) in *.
    set (r2 := read_dirs tr g' (cb_of cb) dist etc name sfx dl cm) in *.
    destruct (th_finish_read st tr cb g g' o r1 r2 Hrel) as (F1 & F2 & F3 & F4 & F5 & F6).
    destruct (finish_read (mkW st tr g cb) o r1) as [w1 o1].
    destruct (finish_read (mkW st tr g' cb) o r2) as [w2 o2].
    cbn [fst snd] in *. subst o2. rewrite F1, F2, F3, F5, F6.
    split; [reflexivity | split; [reflexivity | split; [apply Hrel | intros _; exact Hp]]].
  - (* WReadConfig *)
    pose proof (th_read_config_rel tr (cb_of cb) (sget st o) project usr name sfx dl cm g g' H) as Hrel.
    pose proof (th_read_config_pres tr (cb_of cb) (sget st o) project usr name sfx dl cm g) as Hp.
    set (r1 := read_config tr g (cb_of cb) (sget st o) project usr name sfx dl cm) in *.
    set (r2 := read_config tr g' (cb_of cb) (sget st o) project usr name sfx dl cm) in *.
    destruct (th_finish_read st tr cb g g' o r1 r2 Hrel) as (F1 & F2 & F3 & F4 & F5 & F6).
    destruct (finish_read (mkW st tr g cb) o r1) as [w1 o1].
    destruct (finish_read (mkW st tr g' cb) o r2) as [w2 o2].
    cbn [fst snd] in *. subst o2. rewrite F1, F2, F3, F5, F6.
    split; [reflexivity | split; [reflexivity | split; [apply Hrel | intros _; exact Hp]]].
  - (* WHistory *)
    pose proof (th_read_dirs_history_rel tr (cb_of cb) dist etc name sfx dl cm g g' H) as (Ha & Hb & Hc).
    pose proof (th_read_dirs_history_pres tr (cb_of cb) dist etc name sfx dl cm g) as Hp.
    set (h1 := read_dirs_history tr g (cb_of cb) dist etc name sfx dl cm) in *.
    set (h2 := read_dirs_history tr g' (cb_of cb) dist etc name sfx dl cm) in *.
    cbn [fst snd w_store w_tree w_g w_cb]. rewrite <- Ha, <- Hb.
    split; [reflexivity | split; [reflexivity | split; [exact Hc | intros _; exact Hp]]].
  - (* WWriteTo *)
    assert (FIN : forall (w1 w2 : world) (r : out),
               w_store w1 = w_store w2 -> w_tree w1 = w_tree w2 -> w_cb w1 = w_cb w2 -> w_g w1 = g -> w_g w2 = g' ->
               snd (fst (let '(w', o0) := (w1, r) in (w_g w', mkTS (w_store w') (w_tree w') (w_cb w'), o0))) =
               snd (fst (let '(w', o0) := (w2, r) in (w_g w', mkTS (w_store w') (w_tree w') (w_cb w'), o0))) /\
               snd (let '(w', o0) := (w1, r) in (w_g w', mkTS (w_store w') (w_tree w') (w_cb w'), o0)) =
               snd (let '(w', o0) := (w2, r) in (w_g w', mkTS (w_store w') (w_tree w') (w_cb w'), o0)) /\
               settings_eq (fst (fst (let '(w', o0) := (w1, r) in (w_g w', mkTS (w_store w') (w_tree w') (w_cb w'), o0))))
                           (fst (fst (let '(w', o0) := (w2, r) in (w_g w', mkTS (w_store w') (w_tree w') (w_cb w'), o0)))) /\
               (global_setter (WWriteTo o dir fname) = false ->
                settings_eq (fst (fst (let '(w', o0) := (w1, r) in (w_g w', mkTS (w_store w') (w_tree w') (w_cb w'), o0)))) g)).
    { intros w1 w2 r E1 E2 E3 E4 E5. cbn [fst snd]. rewrite E1, E2, E3, E4, E5.
      repeat split; try reflexivity; try apply H. }
    destruct (sget st o) as [kf|]; [|apply FIN; reflexivity].
    destruct (tlookup tr (fs_resolve 8 tr (squeeze dir))) as [[c u gg|tg u gg|u gg]|]; try (apply FIN; reflexivity).
    destruct (tlookup tr (fs_resolve 8 tr (squeeze (dir ++ 47 :: fname)))) as [[c2 u2 g2|tg2 u2 g2|u2 g2]|]; apply FIN; reflexivity.
  - (* WErrLoc *)
    discriminate Hr.
Qed.

Theorem tstep_frame : forall g g' p c,
  settings_eq g g' -> reads_errloc c = false ->
  let '(g1, p1, o1) := tstep g p c in
  let '(g2, p2, o2) := tstep g' p c in
  p1 = p2 /\ o1 = o2 /\ settings_eq g1 g2 /\
  (global_setter c = false -> settings_eq g1 g).
Proof.
  intros g g' p c H Hr.
  pose proof (th_tstep_frame g g' p c H Hr) as Hf.
  destruct (tstep g p c) as [[g1 p1] o1].
  destruct (tstep g' p c) as [[g2 p2] o2].
  exact Hf.
Qed.

(* ---------- NON-INTERFERENCE ---------- *)
Lemma th_tupd_same : forall ts i p, tupd ts i p i = p.
Proof. intros. unfold tupd. rewrite Nat.eqb_refl. reflexivity. Qed.

Lemma th_tupd_other : forall ts j p i, j <> i -> tupd ts j p i = ts i.
Proof.
  intros ts j p i Hne. unfold tupd.
  destruct (Nat.eqb_spec i j) as [He|He]; [exfalso; apply Hne; symmetry; exact He|reflexivity].
Qed.

Lemma th_noninterference_gen : forall sched g g' ts p i,
  settings_eq g g' -> ts i = p ->
  forallb (fun x => negb (global_setter (snd x)) && negb (reads_errloc (snd x)))%bool sched = true ->
  outs_of i (run_sched g ts sched) = run_alone g' p (calls_of i sched).
Proof.
  induction sched as [|[j c] rest IH]; intros g g' ts p i H Hp Hs.
  - reflexivity.
  - cbn [forallb snd] in Hs.
    apply andb_prop in Hs. destruct Hs as [Hc Hrest].
    apply andb_prop in Hc. destruct Hc as [Hgs Hre].
    apply Bool.negb_true_iff in Hgs. apply Bool.negb_true_iff in Hre.
    cbn [run_sched]. unfold calls_of. cbn [filter fst].
    destruct (Nat.eqb_spec j i) as [He|He].
    + subst j. rewrite Hp.
      pose proof (th_tstep_frame g g' p c H Hre) as (F1 & F2 & F3 & F4).
      destruct (tstep g p c) as [[g1 p1] o1].
      cbn [map snd run_alone].
      destruct (tstep g' p c) as [[g2 p2] o2].
      cbn [fst snd] in F1, F2, F3, F4. subst p2 o2.
      unfold outs_of. cbn [filter fst]. rewrite Nat.eqb_refl. cbn [map snd].
      f_equal.
      apply (IH g1 g2 (tupd ts i p1) p1 i F3 (th_tupd_same ts i p1) Hrest).
    + pose proof (th_tstep_frame g g (ts j) c (th_seq_refl g) Hre) as (_ & _ & _ & F4).
      destruct (tstep g (ts j) c) as [[g1 p1] o1].
      cbn [fst snd] in F4.
      unfold outs_of. cbn [filter fst].
      destruct (Nat.eqb_spec j i) as [He'|_]; [contradiction|].
      apply (IH g1 g' (tupd ts j p1) p i).
      * eapply th_seq_trans; [apply F4; exact Hgs|exact H].
      * rewrite th_tupd_other by exact He. exact Hp.
      * exact Hrest.
Qed.

Theorem noninterference : forall sched g ts i,
  forallb (fun x => negb (global_setter (snd x)) && negb (reads_errloc (snd x))) sched = true ->
  outs_of i (run_sched g ts sched) = run_alone g (ts i) (calls_of i sched).
Proof.
  intros sched g ts i Hs.
  apply (th_noninterference_gen sched g g ts (ts i) i (th_seq_refl g) eq_refl Hs).
Qed.
