(* Properties_C04.v — C04: no file content can corrupt memory, crash or hang
   read, query, merge or write.
   What the theorems cover (PARTIAL, see DESIGN.md 6/C04): (1) totality and
   the documented result codes of the parser model for EVERY byte string,
   delimiter set, comment set and option; (2) the memory-safety obligations of
   the six pointer walks of the C code that move backwards or index
   strlen-1, on index-level models with checked reads and writes
   (WalkModel.v), for all buffers, together with their agreement with the
   list-level functions the parser model uses; (3) the bound on the merge
   result array (Properties_C03.C03_bound).  Heap lifetime, libc internals and
   code outside those sites are runtime behaviour: there the ASan/UBSan runs
   of the correspondence check are a search, not a claim. *)
From Coq Require Import String ZArith Lia List.
From Econf Require Import Bytes BytesFacts ParserModel ParserCodes WalkModel WalkFacts MergeSpec MergeFacts.
Local Open Scope N_scope.

(* reading any byte string terminates (the model is a total Coq function:
   every loop is structural recursion on the remaining bytes) with success or
   one of the four documented parse codes *)
Theorem C04_read_codes : forall o dl cm content,
  r_err (read_bytes o dl cm content) = ECONF_SUCCESS \/ parse_code (r_err (read_bytes o dl cm content)) = true.
Proof. exact read_bytes_codes. Qed.
Print Assumptions C04_read_codes.

Theorem C04_line_codes : forall o dl cm s raw e s',
  parse_line o dl cm s raw = PStop e s' -> parse_code e = true.
Proof. exact parse_line_codes. Qed.
Print Assumptions C04_line_codes.

(* ---- the backward walks: no read or write leaves the buffer ---- *)
Local Open Scope Z_scope.
Definition nz (s : list N) : bool := forallb (fun c => negb (N.eqb c 0)) s.

(* W1: store(): right-trim of the key, anywhere in a buffer *)
Theorem C04_W1_safe : forall pre s fuel, nz s = true -> (length (pre ++ s ++ [0%N]) <= fuel)%nat ->
  exists len, W1 (pre ++ s ++ [0%N]) (Z.of_nat (length pre)) fuel = Some len.
Proof. exact W1_safe. Qed.
Print Assumptions C04_W1_safe.

(* W2: read_file: right-trim of the value incl. the data-- / p-- of the quote
   handling; with a quote seen the byte before the value is that quote *)
Theorem C04_W2_safe : forall pre v q fuel, nz v = true ->
  (q = true -> exists pre0, pre = pre0 ++ [34%N]) -> (length (pre ++ v ++ [0%N]) <= fuel)%nat ->
  exists buf' data' r, W2 (pre ++ v ++ [0%N]) (Z.of_nat (length pre)) q fuel = Some (buf', data') /\
                       cstr_at buf' data' fuel = Some r.
Proof. exact W2_safe. Qed.
Print Assumptions C04_W2_safe.

(* W3: read_file: the walk back over blanks before ']' has NO bound test; the
   '[' before the name stops it *)
Theorem C04_W3_safe : forall pre s fuel, nz s = true -> (length (pre ++ 91%N :: s ++ [0%N]) <= fuel)%nat ->
  exists r, W3 (pre ++ 91%N :: s ++ [0%N]) (Z.of_nat (length pre) + 1) fuel = Some r.
Proof. exact W3_safe. Qed.
Print Assumptions C04_W3_safe.

(* W4: newline strip of a continuation line (after the repair: guarded by *org_buf) *)
Theorem C04_W4_safe : ltac:(let t := type of W4_safe in exact t).
Proof. exact W4_safe. Qed.
Print Assumptions C04_W4_safe.

(* W5: libeconf_ext.c rtrim: `while (isspace( *--back))` has no bound test; it
   is safe exactly because it is only called on the result of ltrim *)
Theorem C04_W5_safe : ltac:(let t := type of W5_safe in exact t).
Proof. exact W5_safe. Qed.
Print Assumptions C04_W5_safe.
Theorem C04_W5_callers_ok : forall x, ltrim x = [] \/ isspace (hd 0%N (ltrim x)) = false.
Proof. exact W5_callers_ok. Qed.
Print Assumptions C04_W5_callers_ok.
(* the checked model does exhibit the out-of-bounds read when the guard is dropped *)
Theorem C04_W5_needs_precondition : ltac:(let t := type of W5_needs_precondition in exact t).
Proof. exact W5_needs_precondition. Qed.
Print Assumptions C04_W5_needs_precondition.

(* W6: helpers.c stripbrackets, incl. strlen-1 of the empty string behind a short-circuit *)
Theorem C04_W6_safe : ltac:(let t := type of W6_safe in exact t).
Proof. exact W6_safe. Qed.
Print Assumptions C04_W6_safe.

(* ---- and they compute what the list-level model says (full statements in WalkFacts.v) ---- *)
Theorem C04_W1_result : ltac:(let t := type of W1_result in exact t). Proof. exact W1_result. Qed.
Print Assumptions C04_W1_result.
Theorem C04_W2_result : ltac:(let t := type of W2_result in exact t). Proof. exact W2_result. Qed.
Print Assumptions C04_W2_result.
Theorem C04_W3_result : ltac:(let t := type of W3_result in exact t). Proof. exact W3_result. Qed.
Print Assumptions C04_W3_result.
Theorem C04_W4_result : ltac:(let t := type of W4_result in exact t). Proof. exact W4_result. Qed.
Print Assumptions C04_W4_result.
Theorem C04_W5_result : ltac:(let t := type of W5_result in exact t). Proof. exact W5_result. Qed.
Print Assumptions C04_W5_result.
Theorem C04_W6_result : ltac:(let t := type of W6_result in exact t). Proof. exact W6_result. Qed.
Print Assumptions C04_W6_result.

(* ---- merge: never more writes than the result array has slots ---- *)
Theorem C04_merge_bound : forall b o, (length (merge_entries b o) <= length b + length o)%nat.
Proof. exact merge_bound. Qed.
Print Assumptions C04_merge_bound.
