(* Statements to be proved in CommentLoop.v (no Admitted, no axioms). *)
From Coq Require Import String Lia.
From Econf Require Import Bytes BytesFacts Grammar.
Local Open Scope N_scope.

(* the trailing-comment loop of read_file over all comment characters *)
Definition comment_loop (dl cm : str) (name : str) (cav0 : option str) : str * option nat * option str :=
  fold_left (fun st c => comment_step dl c st) cm (name, None, cav0).

Definition free_of (bad : str) (s : str) : bool := forallb (fun c => negb (mem c bad)) s.
Definition nonzero (s : str) : bool := forallb (fun c => negb (c =? 0)) s.

(* the text of a trailing comment is free of comment characters and quotes *)
Definition tc_ok (cm : str) (tc : option (byte * str)) : bool :=
  match tc with
  | None => true
  | Some (c, t) => mem c cm && free_of cm t && free_of [34] t && nonzero t
  end.

(* L1: a line body without any comment character and without quotes before
   the trailing comment: the loop cuts exactly at the trailing comment. *)
Theorem comment_loop_plain : forall dl cm pre tc,
  pre <> [] -> nonzero pre = true -> free_of cm pre = true -> free_of [34] pre = true ->
  free_of cm [0] = true ->            (* 0 is not a comment character *)
  tc_ok cm tc = true ->
  let '(nm, di, cav) := comment_loop dl cm (pre ++ render_tc tc) None in
  cstr nm = pre /\ cav = option_map snd tc.

(* L2: one quoted stretch; comment characters may occur inside the quotes only *)
Theorem comment_loop_quoted : forall dl cm a inner b tc,
  a <> [] -> nonzero (a ++ inner ++ b) = true ->
  free_of cm a = true -> free_of [34] a = true ->
  free_of [34] inner = true ->
  free_of cm b = true -> free_of [34] b = true ->
  free_of cm [0] = true -> free_of cm [34] = true ->
  tc_ok cm tc = true ->
  let pre := a ++ 34 :: inner ++ 34 :: b in
  let '(nm, di, cav) := comment_loop dl cm (pre ++ render_tc tc) None in
  cstr nm = pre /\ cav = option_map snd tc.
