(* Properties_C18.v — C18: threads working on their own configuration objects
   do not disturb each other.  Proofs: ThreadsFacts.v.  The inventory of
   variables with static storage is regenerated from freshly compiled objects
   on every run. *)
From Coq Require Import String Lia List.
From Econf Require Import Bytes BytesFacts ThreadsModel ThreadsFacts Generated_facts.
Local Open Scope N_scope.

(* what a call returns and does to the caller's own objects, files and
   callback depends on the shared state only through the settings written by
   the documented global setters; a call that is not such a setter leaves the
   settings alone; all a call may write besides is the error-location record *)
Theorem C18_frame : forall g g' p c,
  settings_eq g g' -> reads_errloc c = false ->
  let '(g1, p1, o1) := tstep g p c in
  let '(g2, p2, o2) := tstep g' p c in
  p1 = p2 /\ o1 = o2 /\ settings_eq g1 g2 /\
  (global_setter c = false -> settings_eq g1 g).
Proof. exact tstep_frame. Qed.
Print Assumptions C18_frame.

(* every interleaving of any number of threads, each running an arbitrary
   sequence of calls on private objects and trees: every thread obtains exactly
   the results of running its calls alone (no global setter in the schedule; the
   error-location record is the exempt shared variable) *)
Theorem C18_noninterference : forall sched g ts i,
  forallb (fun x => negb (global_setter (snd x)) && negb (reads_errloc (snd x))) sched = true ->
  outs_of i (run_sched g ts sched) = run_alone g (ts i) (calls_of i sched).
Proof. exact noninterference. Qed.
Print Assumptions C18_noninterference.

(* the variables with static storage in the library, as the compiler sees them
   now: the message table (read-only), the thread-local scratch text of
   econf_errString, the security settings and the drop-in directory list (written
   only by the documented global setters: the model's g_sec / g_conf_dirs), and
   the error-location record (the model's g_errfile / g_errline).  A new static
   buffer makes this obligation fail. *)
Theorem C18_shared_state_inventory :
  gen_statics =
  [("econf_error.c", "buffer", "tls"); ("econf_error.c", "messages", "d");
   ("getfilecontents.c", "allow_follow_symlinks", "D"); ("getfilecontents.c", "file_group", "B");
   ("getfilecontents.c", "file_group_set", "B"); ("getfilecontents.c", "file_owner", "B");
   ("getfilecontents.c", "file_owner_set", "B"); ("getfilecontents.c", "file_permissions_set", "B");
   ("getfilecontents.c", "file_perms_dir", "B"); ("getfilecontents.c", "file_perms_file", "B");
   ("getfilecontents.c", "last_scanned_filename", "b"); ("getfilecontents.c", "last_scanned_line_nr", "b");
   ("libeconf.c", "conf_count", "b"); ("libeconf.c", "conf_dirs", "b")]%string.
Proof. reflexivity. Qed.
Print Assumptions C18_shared_state_inventory.

Example C18_demo :
  let t0 := mkTS [] [([47], NDir 0 0); (bs "/a.conf", NFile (bs "k=1" ++ [10]) 0 0)] CbNone in
  let t1 := mkTS [] [([47], NDir 0 0); (bs "/b.conf", NFile (bs "[bad" ++ [10]) 0 0)] CbNone in
  let ts := fun i => if Nat.eqb i 0 then t0 else t1 in
  let sched := [(0%nat, WReadFile 0 (bs "/a.conf") (bs "=") (bs "#")); (1%nat, WReadFile 0 (bs "/b.conf") (bs "=") (bs "#"));
                (0%nat, WBase (CGet 0 KInt None (Some (bs "k")) DNone)); (1%nat, WBase (CDump 0))] in
  outs_of 0 (run_sched globals0 ts sched) = run_alone globals0 t0 (calls_of 0 sched) /\
  nth 1 (outs_of 0 (run_sched globals0 ts sched)) ONoObj = OInt ECONF_SUCCESS 1%Z.
Proof. vm_compute. split; reflexivity. Qed.
