(* Bytes.v — bytes and C strings as lists of N.  No proofs here (model file). *)
From Coq Require Export List NArith ZArith Bool.
From Coq Require Import Ascii String.
Export ListNotations.
Local Open Scope N_scope.

Notation byte := N (only parsing).
Notation str := (list N) (only parsing).

(* glibc isspace in the "C"/"C.UTF-8" locale: \t \n \v \f \r and space *)
Definition isspace (c : byte) : bool := ((9 <=? c) && (c <=? 13)) || (c =? 32).
Definition isblank (c : byte) : bool := (c =? 32) || (c =? 9).
Definition isupper (c : byte) : bool := (65 <=? c) && (c <=? 90).
Definition tolower (c : byte) : byte := if isupper c then c + 32 else c.
Definition isdigit (c : byte) : bool := (48 <=? c) && (c <=? 57).

Fixpoint str_eqb (a b : str) : bool :=
  match a, b with
  | [], [] => true
  | x :: a', y :: b' => (x =? y) && str_eqb a' b'
  | _, _ => false
  end.

Definition ostr_eqb (a b : option str) : bool :=
  match a, b with
  | None, None => true
  | Some x, Some y => str_eqb x y
  | _, _ => false
  end.

(* strchr(s, c) != NULL for c <> 0 *)
Fixpoint mem (c : byte) (s : str) : bool :=
  match s with [] => false | x :: s' => (x =? c) || mem c s' end.

Fixpoint mem_str (x : str) (l : list str) : bool :=
  match l with [] => false | y :: l' => str_eqb x y || mem_str x l' end.

(* cut at the first NUL byte: what strlen/strdup see *)
Fixpoint cstr (s : str) : str :=
  match s with
  | [] => []
  | c :: s' => if c =? 0 then [] else c :: cstr s'
  end.

Fixpoint drop_while (p : byte -> bool) (s : str) : str :=
  match s with
  | [] => []
  | c :: s' => if p c then drop_while p s' else s
  end.

Fixpoint take_while (p : byte -> bool) (s : str) : str :=
  match s with
  | [] => []
  | c :: s' => if p c then c :: take_while p s' else []
  end.

Definition ltrim (s : str) : str := drop_while isspace s.
Definition rtrim (s : str) : str := rev (drop_while isspace (rev s)).
Definition trim (s : str) : str := rtrim (ltrim s).

(* index of first / last occurrence *)
Fixpoint find_idx (c : byte) (s : str) : option nat :=
  match s with
  | [] => None
  | x :: s' => if x =? c then Some O else option_map S (find_idx c s')
  end.

Fixpoint rfind_idx (c : byte) (s : str) : option nat :=
  match s with
  | [] => None
  | x :: s' =>
      match rfind_idx c s' with
      | Some i => Some (S i)
      | None => if x =? c then Some O else None
      end
  end.

(* split after each newline: getline semantics; the last piece may lack \n *)
Fixpoint lines_aux (cur : str) (s : str) : list str :=
  match s with
  | [] => match cur with [] => [] | _ => [rev cur] end
  | c :: s' => if c =? 10 then rev (c :: cur) :: lines_aux [] s'
               else lines_aux (c :: cur) s'
  end.
Definition lines_of (s : str) : list str := lines_aux [] s.

(* split at a separator byte (strsep semantics: n separators give n+1 pieces) *)
Fixpoint split_aux (sep : byte) (cur : str) (s : str) : list str :=
  match s with
  | [] => [rev cur]
  | c :: s' => if c =? sep then rev cur :: split_aux sep [] s'
               else split_aux sep (c :: cur) s'
  end.
Definition split_on (sep : byte) (s : str) : list str := split_aux sep [] s.

Fixpoint join_with (sep : str) (l : list str) : str :=
  match l with
  | [] => []
  | [x] => x
  | x :: l' => x ++ sep ++ join_with sep l'
  end.

Definition bs (s : string) : str :=
  List.map (fun a => N_of_ascii a) (list_ascii_of_string s).
Arguments bs _%string.

Definition nl : byte := 10.
Definition none_s : str := bs "_none_".
Definition null_s : str := bs "(null)".

(* what printf("%s") shows for a possibly NULL pointer under glibc *)
Definition fmt_s (o : option str) : str := match o with Some s => s | None => null_s end.

Fixpoint is_prefix (p s : str) : bool :=
  match p, s with
  | [], _ => true
  | x :: p', y :: s' => (x =? y) && is_prefix p' s'
  | _ :: _, [] => false
  end.

Definition is_suffix (p s : str) : bool := is_prefix (rev p) (rev s).

(* basename(3), GNU and POSIX agree for the paths used here (no trailing slash) *)
Definition basename (p : str) : str :=
  match rfind_idx 47 p with
  | Some i => skipn (S i) p
  | None => p
  end.

Fixpoint str_leb (a b : str) : bool :=
  match a, b with
  | [], _ => true
  | _ :: _, [] => false
  | x :: a', y :: b' => if x <? y then true else if y <? x then false else str_leb a' b'
  end.

Fixpoint insert_sorted (x : str) (l : list str) : list str :=
  match l with
  | [] => [x]
  | y :: l' => if str_leb x y then x :: l else y :: insert_sorted x l'
  end.
Definition sort_strs (l : list str) : list str := fold_right insert_sorted [] l.
