(* KeyfileFacts.v — the set/get/list API refines the ordered-map reference
   of MapSpec.v (C11); read-only operations leave the object alone (C10). *)
From Coq Require Import Lia String.
From Econf Require Import Bytes BytesFacts MapSpec.
Local Open Scope N_scope.
Local Opaque none_s.

(* ---------- the flat array against the per-section lists ---------- *)

Definition proj' (es : list entry) (g : str) : alist :=
  map (fun e => (e_key e, e_value e)) (filter (fun e => str_eqb (e_group e) g) es).

Lemma proj_unfold kf g : proj kf g = proj' (kf_entries kf) g.
Proof. reflexivity. Qed.

Fixpoint get_first (es : list entry) (g k : str) : option entry :=
  match es with
  | [] => None
  | e :: es' => if str_eqb (e_group e) g && str_eqb (e_key e) k then Some e else get_first es' g k
  end.

Fixpoint set_first (es : list entry) (g k : str) (v : option str) : option (list entry) :=
  match es with
  | [] => None
  | e :: es' => if str_eqb (e_group e) g && str_eqb (e_key e) k then Some (with_value v e :: es')
                else option_map (cons e) (set_first es' g k v)
  end.

Lemma find_from_spec es g k v : forall i,
  match find_from es g k i with
  | Some n => (i <= n)%nat /\ (n - i < length es)%nat /\
              get_first es g k = Some (nth (n - i) es init_entry) /\
              set_first es g k v = Some (upd_nth es (n - i) (with_value v))
  | None => get_first es g k = None /\ set_first es g k v = None
  end.
Proof.
  induction es as [|e es IH]; intros i; simpl.
  - auto.
  - destruct (str_eqb (e_group e) g && str_eqb (e_key e) k) eqn:E.
    + replace (i - i)%nat with O by lia. simpl. repeat split; auto; lia.
    + specialize (IH (S i)). destruct (find_from es g k (S i)) as [n|].
      * destruct IH as (H1 & H2 & H3 & H4).
        replace (n - i)%nat with (S (n - S i)) by lia. simpl.
        repeat split; try lia; auto. now rewrite H4.
      * destruct IH as (H1 & H2). rewrite H2. auto.
Qed.

Lemma get_first_al es g k :
  al_get (proj' es g) k = option_map e_value (get_first es g k).
Proof.
  induction es as [|e es IH]; simpl; [reflexivity|].
  unfold proj' in *. simpl.
  destruct (str_eqb (e_group e) g) eqn:Eg; simpl.
  - destruct (str_eqb (e_key e) k); simpl; auto.
  - auto.
Qed.

Lemma proj_cons e es g :
  proj' (e :: es) g = if str_eqb (e_group e) g then (e_key e, e_value e) :: proj' es g else proj' es g.
Proof. unfold proj'. simpl. now destruct (str_eqb (e_group e) g). Qed.

Ltac beq :=
  repeat match goal with
  | H : str_eqb _ _ = true |- _ => apply str_eqb_eq in H
  | H : str_eqb _ _ = false |- _ => apply str_eqb_neq in H
  | H : _ && _ = true |- _ => apply andb_true_iff in H as [? ?]
  end.

Lemma set_first_some es g k v es' :
  set_first es g k v = Some es' ->
  forall g', proj' es' g' = if str_eqb g' g then al_set (proj' es g) k v else proj' es g'.
Proof.
  revert es'; induction es as [|e es IH]; simpl; intros es' H g'; [discriminate|].
  destruct (str_eqb (e_group e) g && str_eqb (e_key e) k) eqn:E.
  - inversion H; subst es'; clear H. apply andb_true_iff in E as [Eg Ek].
    rewrite !proj_cons. simpl. rewrite Eg.
    destruct (str_eqb g' g) eqn:E1.
    + apply str_eqb_eq in E1. subst g'. rewrite Eg. simpl. now rewrite Ek.
    + destruct (str_eqb (e_group e) g') eqn:E2; [|reflexivity]. beq. congruence.
  - destruct (set_first es g k v) as [es2|] eqn:E2; [|discriminate].
    inversion H; subst es'; clear H. specialize (IH es2 eq_refl g').
    rewrite !proj_cons, IH.
    destruct (str_eqb g' g) eqn:E1.
    + beq. subst g'. destruct (str_eqb (e_group e) g) eqn:E3; [|reflexivity].
      simpl in E. simpl. now rewrite E.
    + reflexivity.
Qed.

Lemma al_set_absent l k v : al_get l k = None -> al_set l k v = l ++ [(k, v)].
Proof.
  induction l as [|[k' v'] l IH]; simpl; [reflexivity|].
  destruct (str_eqb k' k); [discriminate|]. intros H. now rewrite IH.
Qed.

Lemma proj_app es1 es2 g : proj' (es1 ++ es2) g = proj' es1 g ++ proj' es2 g.
Proof. unfold proj'. now rewrite filter_app, map_app. Qed.

Lemma upd_nth_last {A} (l : list A) (x : A) (f : A -> A) :
  upd_nth (l ++ [x]) (length l) f = l ++ [f x].
Proof. induction l as [|y l IH]; simpl; [reflexivity|]. now rewrite IH. Qed.

(* ---------- the section list ---------- *)

Lemma named_intern_none gs : named (intern gs none_s) = named gs.
Proof.
  unfold intern. destruct (mem_str none_s gs); [reflexivity|].
  unfold named. rewrite filter_app. simpl. rewrite str_eqb_refl. simpl. now rewrite app_nil_r.
Qed.

Lemma mem_str_named g gs : g <> none_s -> mem_str g (named gs) = mem_str g gs.
Proof.
  intros Hg. induction gs as [|x gs IH]; simpl; [reflexivity|].
  destruct (str_eqb x none_s) eqn:E; simpl.
  - apply str_eqb_eq in E. subst x.
    replace (str_eqb g none_s) with false by (symmetry; now apply str_eqb_neq). exact IH.
  - now rewrite IH.
Qed.

Lemma named_intern g gs : g <> none_s -> named (intern gs g) = intern (named gs) g.
Proof.
  intros Hg. unfold intern. rewrite mem_str_named by exact Hg.
  destruct (mem_str g gs); [reflexivity|].
  unfold named. rewrite filter_app. simpl.
  replace (str_eqb g none_s) with false by (symmetry; now apply str_eqb_neq). reflexivity.
Qed.

Lemma intern_nonempty gs g : intern gs g <> [].
Proof.
  unfold intern. destruct (mem_str g gs) eqn:E.
  - destruct gs; [discriminate|congruence].
  - destruct gs; discriminate.
Qed.

Lemma intern_in gs g : In g gs -> intern gs g = gs.
Proof. intros H. unfold intern. apply mem_str_In in H. now rewrite H. Qed.

Lemma in_intern gs g x : In x gs -> In x (intern gs g).
Proof. unfold intern. destruct (mem_str g gs); [auto|]. intros. apply in_or_app. now left. Qed.

Lemma in_intern_self gs g : In g (intern gs g).
Proof.
  unfold intern. destruct (mem_str g gs) eqn:E.
  - now apply mem_str_In.
  - apply in_or_app. right. now left.
Qed.

(* ---------- well-formed objects ---------- *)

(* every entry's group is interned in the object's group list *)
Definition wf_kf (kf : keyfile) : Prop :=
  forall e, In e (kf_entries kf) -> In (e_group e) (kf_groups kf).

Lemma wf_new_keyfile d c : wf_kf (new_keyfile d c).
Proof. intros e []. Qed.
Lemma wf_new_empty : wf_kf new_empty.
Proof. intros e []. Qed.

(* the abstraction relation *)
Definition refines (kf : keyfile) (a : aspec) : Prop :=
  sp_secs a = named (kf_groups kf) /\
  sp_touched a = (match kf_groups kf with [] => false | _ => true end) /\
  forall g, sp_binds a g = proj kf g.

Lemma refines_abs kf : refines kf (abs kf).
Proof. repeat split. Qed.

Lemma norm_group_nonempty g : norm_group g <> [].
Proof. destruct g as [[|c s]|]; simpl; discriminate. Qed.

Lemma get_first_in es g k e : get_first es g k = Some e -> In e es /\ e_group e = g /\ e_key e = k.
Proof.
  induction es as [|x es IH]; simpl; [discriminate|].
  destruct (str_eqb (e_group x) g && str_eqb (e_key x) k) eqn:E.
  - intros H; inversion H; subst. apply andb_true_iff in E as [E1 E2].
    apply str_eqb_eq in E1, E2. auto.
  - intros H. destruct (IH H) as (H1 & H2 & H3). auto.
Qed.

Lemma in_upd_nth_group es n v e :
  In e (upd_nth es n (with_value v)) -> exists e0, In e0 es /\ e_group e0 = e_group e.
Proof.
  revert n; induction es as [|x es IH]; intros [|n]; simpl; try tauto.
  - intros [H|H]; [subst; exists x; auto|exists e; auto].
  - intros [H|H]; [subst; exists e; auto|]. destruct (IH n H) as (e0 & H1 & H2). exists e0; auto.
Qed.

(* one value-setting call *)
Lemma set_value_refines kf a g k v :
  wf_kf kf -> refines kf a -> k <> [] ->
  let '(kf', rc) := set_value kf g (Some k) (SetTo v) in
  rc = ECONF_SUCCESS /\ wf_kf kf' /\ refines kf' (sp_set a (sec_of g) k (Some v)).
Proof.
  intros Hwf (Hs & Ht & Hb) Hk. unfold set_value.
  destruct k as [|c k]; [congruence|]. unfold find_key.
  pose proof (find_from_spec (kf_entries kf) (norm_group (strip_opt g)) (c :: k) (Some v) 0) as F.
  destruct (find_from (kf_entries kf) (norm_group (strip_opt g)) (c :: k) 0) as [n|].
  - destruct F as (_ & Hn & Hg & Hset). rewrite Nat.sub_0_r in *.
    destruct (get_first_in _ _ _ _ Hg) as (Hin & Hgrp & _).
    pose proof (Hwf _ Hin) as Hing. rewrite Hgrp in Hing.
    split; [reflexivity|]. split.
    + intros e He. simpl in He. destruct (in_upd_nth_group _ _ _ _ He) as (e0 & H1 & H2).
      simpl. rewrite <- H2. now apply Hwf.
    + unfold refines, sp_set, sec_of. simpl. repeat split.
      * rewrite Hs. destruct (str_eqb (norm_group (strip_opt g)) none_s) eqn:E; [reflexivity|].
        apply str_eqb_neq in E. rewrite <- named_intern by exact E. now rewrite intern_in.
      * destruct (kf_groups kf); [destruct Hing|reflexivity].
      * intros g'. rewrite !Hb, !proj_unfold. simpl.
        now rewrite (set_first_some _ _ _ _ _ Hset g').
  - destruct F as (Hg & _).
    set (g0 := norm_group (strip_opt g)) in *.
    unfold append_new. simpl.
    rewrite app_length. simpl. replace (Nat.pred (length (kf_entries kf) + 1)) with (length (kf_entries kf)) by lia.
    rewrite upd_nth_last. simpl.
    split; [reflexivity|]. split.
    + intros e He. simpl in *. apply in_app_or in He as [He|[He|[]]].
      * apply in_intern. destruct (kf_spare kf); [apply in_intern|]; now apply Hwf.
      * subst e. simpl. apply in_intern_self.
    + unfold refines, sp_set, sec_of. fold g0. simpl. repeat split.
      * rewrite Hs. destruct (str_eqb g0 none_s) eqn:E.
        -- apply str_eqb_eq in E. rewrite E. rewrite named_intern_none.
           destruct (kf_spare kf); [now rewrite named_intern_none|reflexivity].
        -- apply str_eqb_neq in E. rewrite named_intern by exact E.
           destruct (kf_spare kf); [now rewrite named_intern_none|reflexivity].
      * pose proof (intern_nonempty (match kf_spare kf with O => intern (kf_groups kf) none_s | S _ => kf_groups kf end) g0) as NE.
        destruct (intern _ g0); [congruence|reflexivity].
      * intros g'. rewrite !Hb, !proj_unfold. simpl. rewrite proj_app, proj_cons.
        cbn [with_value e_group e_key e_value]. fold g0.
        destruct (str_eqb g' g0) eqn:E.
        -- apply str_eqb_eq in E. subst g'. rewrite str_eqb_refl.
           rewrite al_set_absent; [reflexivity|]. rewrite get_first_al, Hg. reflexivity.
        -- rewrite str_eqb_sym in E. rewrite E. unfold proj'. simpl. now rewrite app_nil_r.
Qed.

(* a refused typed set (boolean with a wrong word) *)
Lemma set_value_refuse_refines kf a g k e :
  wf_kf kf -> refines kf a -> k <> [] ->
  let '(kf', rc) := set_value kf g (Some k) (SetRefuse e) in
  rc = e /\ wf_kf kf' /\
  refines kf' (match al_get (sp_binds a (sec_of g)) k with
               | Some _ => a
               | None => sp_set a (sec_of g) k (Some none_s)
               end).
Proof.
  intros Hwf (Hs & Ht & Hb) Hk. unfold set_value.
  destruct k as [|c k]; [congruence|]. unfold find_key.
  pose proof (find_from_spec (kf_entries kf) (norm_group (strip_opt g)) (c :: k) None 0) as F.
  rewrite Hb, proj_unfold, get_first_al. unfold sec_of.
  destruct (find_from (kf_entries kf) (norm_group (strip_opt g)) (c :: k) 0) as [n|].
  - destruct F as (_ & Hn & Hg & Hset). rewrite Hg. simpl.
    repeat split; auto.
  - destruct F as (Hg & _). rewrite Hg. simpl.
    set (g0 := norm_group (strip_opt g)) in *.
    split; [reflexivity|]. split.
    + intros e0 He. simpl in *. apply in_app_or in He as [He|[He|[]]].
      * apply in_intern. destruct (kf_spare kf); [apply in_intern|]; now apply Hwf.
      * subst e0. simpl. apply in_intern_self.
    + unfold refines, sp_set. simpl. repeat split.
      * rewrite Hs. destruct (str_eqb g0 none_s) eqn:E.
        -- apply str_eqb_eq in E. rewrite E. rewrite named_intern_none.
           destruct (kf_spare kf); [now rewrite named_intern_none|reflexivity].
        -- apply str_eqb_neq in E. rewrite named_intern by exact E.
           destruct (kf_spare kf); [now rewrite named_intern_none|reflexivity].
      * pose proof (intern_nonempty (match kf_spare kf with O => intern (kf_groups kf) none_s | S _ => kf_groups kf end) g0) as NE.
        destruct (intern _ g0); [congruence|reflexivity].
      * intros g'. rewrite !Hb, !proj_unfold. simpl. rewrite proj_app, proj_cons.
        cbn [e_group e_key e_value]. fold g0.
        destruct (str_eqb g' g0) eqn:E.
        -- apply str_eqb_eq in E. subst g'. rewrite str_eqb_refl.
           rewrite al_set_absent; [reflexivity|]. rewrite get_first_al, Hg. reflexivity.
        -- rewrite str_eqb_sym in E. rewrite E. unfold proj'. simpl. now rewrite app_nil_r.
Qed.

Lemma lookup_value_refines kf a g k :
  refines kf a -> lookup_value kf g k = spec_lookup a g k.
Proof.
  intros (Hs & Ht & Hb). unfold lookup_value, lookup, spec_lookup, find_key, sec_of.
  destruct k as [[|c k]|]; try reflexivity.
  rewrite Hb, proj_unfold, get_first_al.
  pose proof (find_from_spec (kf_entries kf) (norm_group (strip_opt g)) (c :: k) None 0) as F.
  destruct (find_from (kf_entries kf) (norm_group (strip_opt g)) (c :: k) 0) as [n|].
  - destruct F as (_ & _ & Hg & _). rewrite Hg. rewrite Nat.sub_0_r. reflexivity.
  - destruct F as (Hg & _). now rewrite Hg.
Qed.

Lemma proj_keys kf g :
  map e_key (filter (fun e => str_eqb (e_group e) g) (kf_entries kf)) = map fst (proj kf g).
Proof. unfold proj. now rewrite map_map. Qed.

(* one step of the API is one step of the reference *)
Theorem kstep_refines kf a c :
  map_cmd c = true -> wf_kf kf -> refines kf a ->
  snd (kstep kf c) = snd (sstep a c) /\
  wf_kf (fst (kstep kf c)) /\ refines (fst (kstep kf c)) (fst (sstep a c)).
Proof.
  intros Hc Hwf Hr. destruct c; try discriminate Hc; simpl.
  - (* CSet *)
    destruct k as [[|c0 k]|].
    + unfold set_value. simpl. auto.
    + destruct (set_text kd text z) as [v|e] eqn:Es.
      * pose proof (set_value_refines kf a g (c0 :: k) v Hwf Hr ltac:(discriminate)) as H.
        destruct (set_value kf g (Some (c0 :: k)) (SetTo v)) as [kf' rc]. simpl.
        destruct H as (H1 & H2 & H3). subst rc. auto.
      * pose proof (set_value_refuse_refines kf a g (c0 :: k) e Hwf Hr ltac:(discriminate)) as H.
        destruct (set_value kf g (Some (c0 :: k)) (SetRefuse e)) as [kf' rc]. simpl.
        destruct H as (H1 & H2 & H3). subst rc. auto.
    + unfold set_value. simpl. auto.
  - (* CGet *)
    unfold kstep_get. rewrite (lookup_value_refines kf a g k Hr). auto.
  - (* CGroups *)
    pose proof Hr as (Hs & Ht & Hb). unfold get_groups. rewrite Hs, Ht.
    destruct (kf_groups kf); simpl; auto.
  - (* CKeys *)
    pose proof Hr as (Hs & Ht & Hb). unfold get_keys. rewrite proj_keys, <- Hb.
    destruct (map fst (sp_binds a (norm_group g))); auto.
Qed.

(* every history of value/listing calls *)
Theorem krun_refines cs : forall kf a,
  forallb map_cmd cs = true -> wf_kf kf -> refines kf a ->
  krun kf cs = srun a cs /\ wf_kf (kfinal kf cs) /\ refines (kfinal kf cs) (sfinal a cs).
Proof.
  induction cs as [|c cs IH]; intros kf a Hcs Hwf Hr; simpl.
  - auto.
  - simpl in Hcs. apply andb_true_iff in Hcs as [Hc Hcs].
    destruct (kstep_refines kf a c Hc Hwf Hr) as (Ho & Hwf' & Hr').
    destruct (kstep kf c) as [kf' o] eqn:Ek. destruct (sstep a c) as [a' o'] eqn:Ea.
    simpl in *. subst o'.
    destruct (IH kf' a' Hcs Hwf' Hr') as (H1 & H2 & H3).
    rewrite H1. auto.
Qed.

(* ---------- consequences stated on the reference ---------- *)

Lemma al_get_set_same l k v : al_get (al_set l k v) k = Some v.
Proof.
  induction l as [|[k' v'] l IH]; simpl.
  - now rewrite str_eqb_refl.
  - destruct (str_eqb k' k) eqn:E; simpl; now rewrite E.
Qed.

Lemma al_get_set_other l k v k' : k' <> k -> al_get (al_set l k v) k' = al_get l k'.
Proof.
  intros Hn. induction l as [|[k0 v0] l IH]; simpl.
  - replace (str_eqb k k') with false; [reflexivity|]. symmetry. apply str_eqb_neq. congruence.
  - destruct (str_eqb k0 k) eqn:E; simpl.
    + apply str_eqb_eq in E. subst k0.
      replace (str_eqb k k') with false; [reflexivity|]. symmetry. apply str_eqb_neq. congruence.
    + now rewrite IH.
Qed.

Lemma al_set_keys l k v :
  map fst (al_set l k v) = match al_get l k with Some _ => map fst l | None => map fst l ++ [k] end.
Proof.
  induction l as [|[k0 v0] l IH]; simpl; [reflexivity|].
  destruct (str_eqb k0 k) eqn:E; simpl; [reflexivity|].
  rewrite IH. now destruct (al_get l k).
Qed.

Lemma al_get_in l k : al_get l k = None <-> ~ In k (map fst l).
Proof.
  induction l as [|[k0 v0] l IH]; simpl; [tauto|].
  destruct (str_eqb k0 k) eqn:E.
  - apply str_eqb_eq in E. split; [discriminate|]. intros H. exfalso. auto.
  - apply str_eqb_neq in E. rewrite IH. tauto.
Qed.

Lemma al_set_nodup l k v : NoDup (map fst l) -> NoDup (map fst (al_set l k v)).
Proof.
  intros H. rewrite al_set_keys. destruct (al_get l k) eqn:E; [exact H|].
  apply al_get_in in E. clear IHl_dummy || idtac.
  induction (map fst l) as [|x m IH]; simpl.
  - constructor; [tauto|constructor].
  - inversion H; subst. constructor.
    + intros Hin. apply in_app_or in Hin as [Hin|[Hin|[]]]; [tauto|]. subst. apply E. now left.
    + apply IH; [assumption|]. intros Hin. apply E. now right.
Qed.

Definition sp_nodup (a : aspec) : Prop := forall g, NoDup (map fst (sp_binds a g)).

Lemma sp_set_nodup a g k v : sp_nodup a -> sp_nodup (sp_set a g k v).
Proof.
  intros H g'. unfold sp_set. simpl. destruct (str_eqb g' g); [apply al_set_nodup|]; apply H.
Qed.

Lemma sstep_nodup a c : sp_nodup a -> sp_nodup (fst (sstep a c)).
Proof.
  intros H. destruct c; simpl; try exact H.
  destruct k as [[|c0 k]|]; simpl; try exact H.
  destruct (set_text kd text z); simpl.
  - now apply sp_set_nodup.
  - destruct (al_get (sp_binds a (sec_of g)) (c0 :: k)); [exact H|now apply sp_set_nodup].
Qed.

Lemma sfinal_nodup cs : forall a, sp_nodup a -> sp_nodup (sfinal a cs).
Proof. induction cs as [|c cs IH]; intros a H; simpl; [exact H|]. apply IH. now apply sstep_nodup. Qed.

Lemma abs_fresh_nodup d c : sp_nodup (abs (new_keyfile d c)).
Proof. intros g. simpl. constructor. Qed.
Lemma abs_empty_nodup : sp_nodup (abs new_empty).
Proof. intros g. simpl. constructor. Qed.

(* brackets around a section name do not matter *)
Lemma strip_brackets_bracketed g :
  forallb (fun c => negb (c =? 93)) g = true ->
  strip_brackets (91 :: g ++ [93]) = g.
Proof.
  intros H. unfold strip_brackets.
  replace (rev (91 :: g ++ [93])) with (93 :: rev g ++ [91]).
  2:{ simpl. rewrite rev_app_distr. reflexivity. }
  change (g ++ [93]) with (g ++ 93 :: []).
  apply take_while_app_stop; [exact H|reflexivity].
Qed.

Lemma strip_brackets_plain g : hd 0 g <> 91 -> strip_brackets g = g.
Proof.
  destruct g as [|c g]; [reflexivity|]. simpl. intros H.
  destruct c as [|p]; [reflexivity|].
  destruct (N.eq_dec (N.pos p) 91) as [E|E]; [congruence|].
  destruct p as [p|p|]; try reflexivity;
  repeat (destruct p as [p|p|]; try reflexivity; try congruence).
Qed.

(* what was set is what is looked up, directly *)
Lemma set_then_lookup kf g k v :
  wf_kf kf -> k <> [] ->
  lookup_value (fst (set_value kf g (Some k) (SetTo v))) g (Some k) = inr (Some v).
Proof.
  intros Hwf Hk.
  pose proof (set_value_refines kf (abs kf) g k v Hwf (refines_abs kf) Hk) as H.
  destruct (set_value kf g (Some k) (SetTo v)) as [kf' rc]. destruct H as (_ & _ & Hr). simpl.
  rewrite (lookup_value_refines kf' _ g (Some k) Hr).
  unfold spec_lookup. destruct k as [|c k]; [congruence|].
  unfold sp_set. simpl. rewrite str_eqb_refl. now rewrite al_get_set_same.
Qed.
