(* LayeredSpec.v — vocabulary for the statements about the layered readers
   (C01, C06, C12, C16).  Executable definitions only. *)
From Coq Require Import String.
From Econf Require Export LayeredScenario MergeSpec.
Local Open Scope N_scope.

(* ---- events ---- *)
(* every file that is opened was accepted by the caller's check just before *)
Fixpoint well_checked (evs : list event) : bool :=
  match evs with
  | [] => true
  | EvCheck p true :: EvOpen q :: rest => str_eqb p q && well_checked rest
  | EvCheck _ _ :: rest => well_checked rest
  | EvOpen _ :: _ => false
  end.

Definition rejected (evs : list event) : bool :=
  existsb (fun e => match e with EvCheck _ false => true | _ => false end) evs.

(* ---- security rules ---- *)
Definition sec_ok (s : secset) (n : node) : bool :=
  negb (sec_nolinks s && is_link n) &&
  match sec_owner s with Some u => node_uid n =? u | None => true end &&
  match sec_group s with Some u => node_gid n =? u | None => true end.

Definition sec_code (s : secset) (n : node) : econf_err :=
  if sec_nolinks s && is_link n then ECONF_ERROR_FILE_IS_SYM_LINK
  else if match sec_owner s with Some u => negb (node_uid n =? u) | None => false end then ECONF_WRONG_OWNER
  else ECONF_WRONG_GROUP.

(* every opened path satisfies the rules in force *)
Definition opened_ok (t : tree) (s : secset) (evs : list event) : bool :=
  forallb (fun e => match e with
                    | EvOpen p => match fs_lstat t p with Some n => sec_ok s n | None => false end
                    | _ => true
                    end) evs.

(* ---- merging a list of consulted files ---- *)
(* the files that are not hidden by a later file of the same name *)
Fixpoint visible (files : list keyfile) : list keyfile :=
  match files with
  | [] => []
  | f :: rest => if masked f rest then visible rest else f :: visible rest
  end.

(* "merge the list left to right, skipping a file when a later one has the same name" *)
Definition merge_spec_files (files : list keyfile) : option keyfile :=
  match visible files with
  | [] => None
  | f :: rest => Some (fold_left merge_model rest f)
  end.

(* the value a key has after overriding file by file: the last file that defines it *)
Fixpoint last_def (files : list keyfile) (g k : str) : option str :=
  match files with
  | [] => None
  | f :: rest => match last_def rest g k with
                 | Some v => Some v
                 | None => vis (kf_entries f) g k
                 end
  end.

(* ---- which files a layered read consults when nothing refuses ---- *)
Definition suffix_ok (sfx nm : str) : bool := Nat.ltb (length sfx) (length nm) && is_suffix sfx nm.

Definition dropin_paths (t : tree) (dirs : list str) (sfx : str) : list str :=
  flat_map (fun dir => match fs_scandir t dir with
                       | Some names => map (fun nm => dir ++ 47 :: nm) (filter (suffix_ok sfx) names)
                       | None => []
                       end) dirs.
