(* Properties_C06.v — C06: every file passes the caller's check before use;
   one rejection yields nothing.  Proofs: LayeredFactsA.v. *)
From Coq Require Import String Lia List.
From Econf Require Import Bytes BytesFacts LayeredSpec LayeredFactsA.
Local Open Scope N_scope.

(* one file: the callback is asked about exactly the consulted path before the
   file is opened; the file is used only if the callback accepted that path; a
   rejection gives the callback code and the file is not opened *)
Theorem C06_gate : forall t g cb o path dl cm,
  let r := gate t g cb o path dl cm in
  well_checked' (la_given cb) (go_events r) = true /\
  (forall kf, go_res r = inr kf ->
     exists n, fs_lstat t path = Some n /\ sec_ok (g_sec g) n = true /\
               In (EvOpen path) (go_events r) /\ kf_path kf = Some (real_name t path) /\
               match cb with Some f => f path = true | None => True end) /\
  (rejected (go_events r) = true -> go_res r = inl ECONF_PARSING_CALLBACK_FAILED /\
                                    ~ In (EvOpen path) (go_events r)).
Proof. exact gate_events_corrected. Qed.
Print Assumptions C06_gate.

(* a whole layered read, any tree, any number of layers and files: every file
   opened was accepted immediately before; the consulted files are exactly the
   files opened, in processing order, each carrying its own path (as read_file was handed it: real_name); a rejection of
   any file makes the read fail with the callback code *)
Theorem C06_history : forall t g cb o parse_dirs conf_dirs name sfx dl cm, cb <> None ->
  let h := history t g cb o parse_dirs conf_dirs name sfx dl cm in
  well_checked (ho_events h) = true /\
  opened_ok t (g_sec g) (ho_events h) = true /\
  (rejected (ho_events h) = true -> ho_res h = inl ECONF_PARSING_CALLBACK_FAILED) /\
  (forall files, ho_res h = inr files ->
     rejected (ho_events h) = false /\
     map (fun kf => Some (get_path kf)) files = map (fun p => Some (real_name t p)) (opens_of (ho_events h)) /\
     files <> []).
Proof. exact history_events_cb. Qed.
Print Assumptions C06_history.

(* the four callback entry points: a rejection yields the callback code and no
   configuration (readDirs leaves the empty object it created; the others NULL)
   and no history *)
Theorem C06_readDirs_rejected : forall t g cb dist etc name sfx dl cm,
  let r := read_dirs t g cb dist etc name sfx dl cm in
  rejected (r2_events r) = true ->
  r2_err r = ECONF_PARSING_CALLBACK_FAILED /\
  match r2_obj r with Some kf => kf_entries kf = [] | None => True end.
Proof. exact read_dirs_rejected. Qed.
Print Assumptions C06_readDirs_rejected.
Theorem C06_readConfig_rejected : forall t g cb project usr name sfx dl cm,
  let r := read_config t g cb None project usr name sfx dl cm in
  rejected (r2_events r) = true -> r2_err r = ECONF_PARSING_CALLBACK_FAILED /\ r2_obj r = None.
Proof. exact read_config_rejected. Qed.
Print Assumptions C06_readConfig_rejected.
Theorem C06_readFile_rejected : forall t g cb path dl cm,
  let r := read_file_api t g cb path dl cm in
  rejected (r2_events r) = true -> r2_err r = ECONF_PARSING_CALLBACK_FAILED /\ r2_obj r = None.
Proof. exact read_file_rejected. Qed.
Print Assumptions C06_readFile_rejected.
Theorem C06_history_rejected : forall t g cb dist etc name sfx dl cm,
  let h := read_dirs_history t g cb dist etc name sfx dl cm in
  rejected (ho_events h) = true -> ho_res h = inl ECONF_PARSING_CALLBACK_FAILED.
Proof. exact read_dirs_history_rejected. Qed.
Print Assumptions C06_history_rejected.

Theorem C06_readDirs_order : forall t g cb dist etc name sfx dl cm, cb <> None ->
  let r := read_dirs t g cb dist etc name sfx dl cm in
  well_checked (r2_events r) = true /\ opened_ok t (g_sec g) (r2_events r) = true.
Proof. exact read_dirs_events_cb. Qed.
Print Assumptions C06_readDirs_order.
Theorem C06_readConfig_order : forall t g cb obj0 project usr name sfx dl cm, cb <> None ->
  let r := read_config t g cb obj0 project usr name sfx dl cm in
  well_checked (r2_events r) = true /\ opened_ok t (g_sec g) (r2_events r) = true.
Proof. exact read_config_events_cb. Qed.
Print Assumptions C06_readConfig_order.
