(* ParserFile.v — the file-level statement: a well-formed conventional file,
   rendered to bytes and read by [read_bytes], yields exactly the expected
   configuration. *)
From Coq Require Import String Lia List.
From Econf Require Import Bytes BytesFacts Grammar CommentLoop LineBase ParserFacts.
Local Open Scope N_scope.

(* ---------- no newline inside a well-formed line ---------- *)
Lemma no_nl_cons x s : no_nl (x :: s) = negb (x =? 10) && no_nl s.
Proof. reflexivity. Qed.

Lemma no_nl_nil : no_nl [] = true.
Proof. reflexivity. Qed.

(* [H : forallb (fun c => tb c && ...) s = true] or the same with [tchar]:
   weaken the predicate to "is not a newline" *)
Ltac peel_andb H :=
  repeat match type of H with
         | (andb _ _) = true => apply andb_true_iff in H as [H _]
         end.

Ltac pred_no_nl H :=
  let x := fresh "x" in
  let Hx := fresh "Hx" in
  unfold no_nl; eapply forallb_impl; [|exact H]; intros x Hx; cbv beta in Hx;
  peel_andb Hx;
  first [ rewrite (tb_not_nl x Hx) | rewrite (tchar_not_nl x Hx) ]; reflexivity.

Lemma dl_ok_member dl cm d : dl_ok dl cm = true -> mem d dl = true -> (d =? 10) = false.
Proof.
  unfold dl_ok. intros H Hm. apply mem_In in Hm. rewrite forallb_forall in H.
  specialize (H d Hm). cbv beta in H.
  apply andb_true_iff in H as [H _]. apply orb_true_iff in H as [H|H].
  - destruct (isblank_cases d H); subst; reflexivity.
  - peel_andb H. now apply tchar_not_nl.
Qed.

Lemma cm_member_not_nl cm c : cm_ok cm = true -> mem c cm = true -> (c =? 10) = false.
Proof. intros Hcm Hm. apply tchar_not_nl. now apply (cm_ok_tchar cm c). Qed.

Lemma wf_key_no_nl dl cm k : wf_key dl cm k = true -> no_nl k = true.
Proof.
  unfold wf_key. intros H. apply andb_true_iff in H as [_ H]. pred_no_nl H.
Qed.

Lemma wf_tc_no_nl cm tc : cm_ok cm = true -> wf_tc cm tc = true -> no_nl (render_tc tc) = true.
Proof.
  intros Hcm H. destruct tc as [[c t]|]; [|reflexivity].
  cbn [wf_tc render_tc] in *. apply andb_true_iff in H as [Hc Ht].
  rewrite no_nl_cons, (cm_member_not_nl cm c Hcm Hc). cbn [negb andb]. pred_no_nl Ht.
Qed.

Lemma wf_value_no_nl dl cm v : wf_value dl cm v = true -> no_nl (render_value v) = true.
Proof.
  intros H. destruct v as [s|i]; cbn [wf_value render_value] in *.
  - apply andb_true_iff in H as [H _]. apply andb_true_iff in H as [H _]. pred_no_nl H.
  - rewrite no_nl_cons, no_nl_app. cbn [negb andb N.eqb Pos.eqb].
    assert (Hi : no_nl i = true) by pred_no_nl H. rewrite Hi. reflexivity.
Qed.

Lemma wf_sep_no_nl dl cm k : dl_ok dl cm = true -> wf_sep dl k = true ->
  no_nl (kl_b1 k) = true /\
  no_nl (match kl_d k with Some d => [d] | None => [] end) = true /\
  no_nl (kl_b2 k) = true.
Proof.
  intros Hdl H. unfold wf_sep in H.
  apply andb_true_iff in H as [H Hd]. apply andb_true_iff in H as [H1 H2].
  split; [now apply no_nl_blanks|]. split; [|now apply no_nl_blanks].
  destruct (kl_d k) as [d|]; [|reflexivity].
  assert (Hm : mem d dl = true).
  { destruct (class_of dl).
    - exact Hd.
    - discriminate.
    - now apply andb_true_iff in Hd as [Hd _].
    - discriminate. }
  rewrite no_nl_cons, (dl_ok_member dl cm d Hdl Hm). reflexivity.
Qed.

Lemma wf_kline_no_nl dl cm k :
  cm_ok cm = true -> dl_ok dl cm = true -> wf_kline dl cm k = true ->
  no_nl (render_body (LKey k)) = true.
Proof.
  intros Hcm Hdl H. unfold wf_kline in H.
  apply andb_true_iff in H as [H Hvt]. apply andb_true_iff in H as [H Hpost].
  apply andb_true_iff in H as [H Hsep]. apply andb_true_iff in H as [Hind Hkey].
  destruct (wf_sep_no_nl dl cm k Hdl Hsep) as (Hb1 & Hd & Hb2).
  assert (Hv : no_nl (render_value (kl_val k)) = true /\ no_nl (render_tc (kl_tc k)) = true).
  { destruct (class_of dl).
    1-3: apply andb_true_iff in Hvt as [Hv Ht]; split;
         [now apply (wf_value_no_nl dl cm)|now apply (wf_tc_no_nl cm)].
    destruct (kl_val k) as [[|c s]|i]; try discriminate.
    destruct (kl_tc k); [discriminate|]. split; reflexivity. }
  destruct Hv as [Hv Ht].
  cbn [render_body]. rewrite !no_nl_app.
  rewrite (no_nl_blanks _ Hind), (wf_key_no_nl dl cm _ Hkey), Hb1, Hd, Hb2, Hv,
    (no_nl_blanks _ Hpost), Ht. reflexivity.
Qed.

Lemma wf_cont_no_nl dl cm ind text post tc :
  cm_ok cm = true -> wf_cont dl cm ind text post tc = true ->
  no_nl (render_body (LCont ind text post tc)) = true.
Proof.
  intros Hcm H. unfold wf_cont in H.
  apply andb_true_iff in H as [H Hcls]. apply andb_true_iff in H as [H _].
  apply andb_true_iff in H as [Hind _].
  cbn [render_body]. rewrite !no_nl_app, (no_nl_blanks _ Hind). cbn [andb].
  destruct (class_of dl); try discriminate.
  - apply andb_true_iff in Hcls as [H Htc]. apply andb_true_iff in H as [Htext Hpost].
    assert (Ht : no_nl text = true) by pred_no_nl Htext.
    rewrite Ht, (no_nl_blanks _ Hpost), (wf_tc_no_nl cm tc Hcm Htc). reflexivity.
  - apply andb_true_iff in Hcls as [Htext Hpt].
    assert (Ht : no_nl text = true) by pred_no_nl Htext.
    destruct post; [|discriminate]. destruct tc; [discriminate|].
    rewrite Ht. reflexivity.
Qed.

(* a well-formed line contains no newline before its terminating one *)
Lemma wf_line_no_nl dl cm prev l :
  cm_ok cm = true -> dl_ok dl cm = true -> wf_line dl cm prev l = true ->
  no_nl (render_body l) = true.
Proof.
  intros Hcm Hdl H. destruct l as [ws|ind c text|ind name post|k|ind text post tc].
  - destruct ws as [|w ws]; [reflexivity|]. cbn [wf_line] in H.
    apply andb_true_iff in H as [H _]. cbn [render_body]. now apply no_nl_blanks.
  - cbn [wf_line] in H. apply andb_true_iff in H as [H Ht]. apply andb_true_iff in H as [Hi Hc].
    cbn [render_body]. rewrite no_nl_app, no_nl_cons, (no_nl_blanks _ Hi),
      (cm_member_not_nl cm c Hcm Hc), (no_nl_tb _ Ht). reflexivity.
  - cbn [wf_line] in H. unfold wf_section in H.
    apply andb_true_iff in H as [H _]. apply andb_true_iff in H as [H _].
    apply andb_true_iff in H as [H Hname]. apply andb_true_iff in H as [H _].
    apply andb_true_iff in H as [Hind Hpost].
    assert (Hn : no_nl name = true) by pred_no_nl Hname.
    cbn [render_body]. rewrite no_nl_app, no_nl_cons, no_nl_app, no_nl_cons,
      (no_nl_blanks _ Hind), Hn, (no_nl_blanks _ Hpost). reflexivity.
  - cbn [wf_line] in H. now apply (wf_kline_no_nl dl cm).
  - cbn [wf_line] in H. apply andb_true_iff in H as [_ H]. now apply (wf_cont_no_nl dl cm).
Qed.

Lemma wf_lines_no_nl dl cm : cm_ok cm = true -> dl_ok dl cm = true ->
  forall ls prev, wf_lines dl cm prev ls = true ->
  forallb (fun l => no_nl (render_body l)) ls = true.
Proof.
  intros Hcm Hdl. induction ls as [|l ls IH]; intros prev H; [reflexivity|].
  cbn [wf_lines] in H. apply andb_true_iff in H as [Hl Hls].
  cbn [forallb]. rewrite (wf_line_no_nl dl cm prev l Hcm Hdl Hl). cbn [andb].
  now apply (IH (is_entry_line l)).
Qed.

(* ---------- the line counter counts the lines ---------- *)

(* The unconditional statement
     forall s, p_line (fold_left (exp_step dl) ls s) = p_line s + N.of_nat (length ls)
   is FALSE: [exp_step] leaves the state (and its line counter) unchanged on a
   continuation line when no entry has been stored yet. *)
Lemma expected_line_counterexample dl :
  ~ (forall ls s, p_line (fold_left (exp_step dl) ls s) = p_line s + N.of_nat (length ls)).
Proof.
  intros H. specialize (H [LCont [] [] [] None] init_pstate). cbn in H. discriminate.
Qed.

Lemma exp_step_line dl cm prev s l :
  wf_line dl cm prev l = true -> (prev = true -> p_rev s <> []) ->
  p_line (exp_step dl s l) = p_line s + 1 /\
  (is_entry_line l = true -> p_rev (exp_step dl s l) <> []).
Proof.
  intros Hwf Hp. destruct l as [ws|ind c text|ind name post|k|ind text post tc];
    cbn [exp_step is_entry_line p_line p_rev].
  1-3: split; [reflexivity|discriminate].
  - split; [reflexivity|]. intros _. discriminate.
  - cbn [wf_line] in Hwf. apply andb_true_iff in Hwf as [Hprev _].
    specialize (Hp Hprev). destruct (p_rev s) as [|e rest]; [contradiction|].
    cbn [p_line p_rev]. split; [reflexivity|]. intros _. discriminate.
Qed.

(* the line counter counts the lines of a well-formed file *)
Lemma expected_line_wf dl cm : forall ls prev s,
  wf_lines dl cm prev ls = true -> (prev = true -> p_rev s <> []) ->
  p_line (fold_left (exp_step dl) ls s) = p_line s + N.of_nat (length ls).
Proof.
  induction ls as [|l ls IH]; intros prev s Hwf Hp.
  - cbn [fold_left length N.of_nat]. now rewrite N.add_0_r.
  - cbn [wf_lines] in Hwf. apply andb_true_iff in Hwf as [Hl Hls].
    destruct (exp_step_line dl cm prev s l Hl Hp) as [Hline Hrev].
    cbn [fold_left length]. rewrite (IH (is_entry_line l) (exp_step dl s l) Hls Hrev).
    rewrite Hline, Nat2N.inj_succ. lia.
Qed.

(* the same without well-formedness, from a state that already has an entry *)
Lemma expected_line dl ls : forall s, p_rev s <> [] ->
  p_line (fold_left (exp_step dl) ls s) = p_line s + N.of_nat (length ls).
Proof.
  induction ls as [|l ls IH]; intros s Hp.
  - cbn [fold_left length N.of_nat]. now rewrite N.add_0_r.
  - assert (H : p_line (exp_step dl s l) = p_line s + 1 /\ p_rev (exp_step dl s l) <> []).
    { destruct l as [ws|ind c text|ind name post|k|ind text post tc];
        cbn [exp_step p_line p_rev]; try (split; [reflexivity|assumption]).
      - split; [reflexivity|discriminate].
      - destruct (p_rev s) as [|e rest]; [contradiction|]. cbn [p_line p_rev].
        split; [reflexivity|discriminate]. }
    destruct H as [Hline Hrev]. cbn [fold_left length]. rewrite (IH _ Hrev).
    rewrite Hline, Nat2N.inj_succ. lia.
Qed.

(* ---------- the file-level statement ---------- *)
Theorem parse_file_ok dl cm ls :
  wf_file dl cm ls = true ->
  read_bytes std_opts dl cm (render ls) =
  mkRO ECONF_SUCCESS (rev (p_rev (expected dl ls))) (p_groups (expected dl ls)) (N.of_nat (length ls)).
Proof.
  unfold wf_file. intros H. apply andb_true_iff in H as [H Hwf]. apply andb_true_iff in H as [Hcm Hdl].
  pose proof (wf_lines_no_nl dl cm Hcm Hdl ls false Hwf) as Hnl.
  pose proof (lines_ok dl cm Hcm Hdl ls false init_pstate Hwf Inv_init) as Hrd.
  pose proof (expected_line_wf dl cm ls false init_pstate Hwf ltac:(discriminate)) as Hln.
  change (p_line init_pstate) with 0 in Hln. rewrite N.add_0_l in Hln.
  unfold read_bytes. rewrite (lines_of_render ls Hnl).
  destruct cm as [|c0 cm']; [discriminate|].
  rewrite Hrd. cbn [std_opts o_join]. unfold expected. rewrite Hln. reflexivity.
Qed.
