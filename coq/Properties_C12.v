(* Properties_C12.v — C12: all layered-read entry points agree with each
   other and with the history.  Proofs: LayeredFactsB.v. *)
From Coq Require Import String Lia List.
From Econf Require Import Bytes BytesFacts LayeredSpec MergeFacts LayeredFactsB.
Local Open Scope N_scope.

(* the two-directory read IS the merge of the history it would return: same
   consulted files in the same order, same outcome *)
Theorem C12_dirs_is_history_merge : forall t g cb dist etc name sfx dl cm,
  let h := read_dirs_history t g cb dist etc name sfx dl cm in
  let r := read_dirs t g cb dist etc name sfx dl cm in
  r2_events r = ho_events h /\ r2_g r = ho_g h /\
  match ho_res h with
  | inl e => r2_err r = e
  | inr files => r2_err r = ECONF_SUCCESS /\ r2_obj r = merge_files files
  end.
Proof. exact read_dirs_is_history_merge. Qed.
Print Assumptions C12_dirs_is_history_merge.

(* ... and the layered read configured with the same two directories (also
   for NULL/empty directory arguments, which both read as "") *)
Theorem C12_dirs_is_config : forall t g cb dist etc name sfx dl cm nm,
  name = Some nm -> nm <> [] ->
  let obj := mkKF [] 0 [] 0 0 None false false [str_or_empty dist; str_or_empty etc] [] None in
  let a := read_dirs t g cb dist etc name sfx dl cm in
  let b := read_config t g cb (Some obj) None None name sfx dl cm in
  r2_err a = r2_err b /\ r2_obj a = r2_obj b /\ r2_events a = r2_events b.
Proof. exact read_dirs_is_read_config. Qed.
Print Assumptions C12_dirs_is_config.

(* the callback variants with an always-accepting callback: same result, same files opened *)
Theorem C12_accepting_callback : forall t g o parse_dirs conf_dirs name sfx dl cm,
  ho_res (history t g (Some (fun _ => true)) o parse_dirs conf_dirs name sfx dl cm) =
  ho_res (history t g None o parse_dirs conf_dirs name sfx dl cm) /\
  opens_of (ho_events (history t g (Some (fun _ => true)) o parse_dirs conf_dirs name sfx dl cm)) =
  opens_of (ho_events (history t g None o parse_dirs conf_dirs name sfx dl cm)).
Proof. exact accept_all_history. Qed.
Print Assumptions C12_accepting_callback.

(* merging the history left to right, skipping a file when a later one has
   the same name, reproduces the merged result — provided the first consulted
   file is not itself hidden by a later one (known finding F14, see below) *)
Theorem C12_history_merge : forall f rest,
  masked f rest = false -> merge_files (f :: rest) = merge_spec_files (f :: rest).
Proof. exact merge_files_spec. Qed.
Print Assumptions C12_history_merge.

Theorem C12_merge_loop_is_fold : forall files cur, merge_rest cur files = fold_left merge_model (visible files) cur.
Proof. exact merge_rest_fold. Qed.
Print Assumptions C12_merge_loop_is_fold.

(* F14: the unguarded statement is false of the code as it is: with no main
   file, a first drop-in that a higher layer overrides by name is still merged *)
Definition f14_low : keyfile := mkKF [mkE none_s (bs "k1") (Some (bs "usr")) None None 1 false] 0 [none_s] 61 35
                                     (Some (bs "/usr/etc/foo.conf.d/a.conf")) false false [] [] None.
Definition f14_high : keyfile := mkKF [mkE none_s (bs "k2") (Some (bs "etc")) None None 1 false] 0 [none_s] 61 35
                                      (Some (bs "/etc/foo.conf.d/a.conf")) false false [] [] None.
Theorem C12_history_merge_refuted :
  masked f14_low [f14_high] = true /\
  option_map (fun kf => map e_key (kf_entries kf)) (merge_files [f14_low; f14_high]) = Some [bs "k1"; bs "k2"] /\
  option_map (fun kf => map e_key (kf_entries kf)) (merge_spec_files [f14_low; f14_high]) = Some [bs "k2"].
Proof. vm_compute. repeat split. Qed.
Print Assumptions C12_history_merge_refuted.
