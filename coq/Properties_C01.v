(* Properties_C01.v — C01: layered lookup yields the vendor < /run < /etc
   precedence for every tree.  Proofs: LayeredFactsB.v, MergeFacts.v. *)
From Coq Require Import String Lia List.
From Econf Require Import Bytes BytesFacts LayeredSpec MergeFacts LayeredFactsB.
Local Open Scope N_scope.

(* the main file is searched from the highest-priority layer down: a layer
   whose file cannot be had (absent, or a dangling link) passes the search on;
   the first layer that has one ends it — lower layers are not even opened *)
Theorem C01_main_absent_goes_on : forall t g cb o d rest name sfx dl cm evs0,
  go_res (gate t g cb o (d ++ 47 :: name ++ sfx) dl cm) = inl ECONF_NOFILE ->
  find_main t g cb o (d :: rest) name sfx dl cm evs0 =
  find_main t (with_err g (go_errfile (gate t g cb o (d ++ 47 :: name ++ sfx) dl cm)) (go_errline (gate t g cb o (d ++ 47 :: name ++ sfx) dl cm)))
            cb o rest name sfx dl cm (evs0 ++ go_events (gate t g cb o (d ++ 47 :: name ++ sfx) dl cm)).
Proof. exact find_main_skips_absent. Qed.
Print Assumptions C01_main_absent_goes_on.

Theorem C01_main_highest_wins : forall t g cb o dirs_rev name sfx dl cm evs0 d rest kf evs g',
  dirs_rev = d :: rest ->
  go_res (gate t g cb o (d ++ 47 :: name ++ sfx) dl cm) = inr kf ->
  find_main t g cb o dirs_rev name sfx dl cm evs0 = (inr (Some kf), evs, g') ->
  evs = evs0 ++ go_events (gate t g cb o (d ++ 47 :: name ++ sfx) dl cm).
Proof. exact find_main_highest. Qed.
Print Assumptions C01_main_highest_wins.

(* the drop-ins consulted: the drop-in directories in ascending layer order,
   inside each the names that are strictly longer than and end in the suffix,
   in the order fs_scandir gives (byte-wise sorted); each object records the
   name read_file was handed (real_name: the path itself when it starts with
   '/', what realpath makes of it otherwise) *)
Theorem C01_dropins_consulted : forall t g cb o dirs name sfx dl cm acc evs files evs' g',
  read_dropins t g cb o dirs name sfx dl cm acc evs = (inr files, evs', g') ->
  map get_path files = map get_path acc ++ map (real_name t) (dropin_paths t dirs sfx).
Proof. exact read_dropins_paths. Qed.
Print Assumptions C01_dropins_consulted.

(* masking and key-by-key override: after merging the consulted files the
   value of every (section, key) is that of the LAST file, among those not
   hidden by a later file of the same name, that defines it *)
Theorem C01_override_key_by_key : forall files f g k,
  vis (kf_entries (merge_rest f files)) g k =
  match last_def (visible files) g k with Some v => Some v | None => vis (kf_entries f) g k end.
Proof. intros. rewrite merge_rest_fold. apply fold_merge_lookup. Qed.
Print Assumptions C01_override_key_by_key.

(* a drop-in hidden by a later one of the same name contributes nothing *)
Theorem C01_masked_ignored : forall cur f rest,
  masked f rest = true -> merge_rest cur (f :: rest) = merge_rest cur rest.
Proof. intros cur f rest H. cbn [merge_rest]. now rewrite H. Qed.
Print Assumptions C01_masked_ignored.

(* no file at all: file-not-found, never an empty configuration *)
Theorem C01_nofile : forall t g cb o parse_dirs conf_dirs name sfx dl cm,
  ho_res (history t g cb o parse_dirs conf_dirs name sfx dl cm) <> inr [].
Proof. exact history_nofile. Qed.
Print Assumptions C01_nofile.

(* neither project nor config name: refused *)
Theorem C01_no_names_refused : forall t g cb usr sfx dl cm,
  r2_err (read_config t g cb None None usr None sfx dl cm) = ECONF_ERROR /\
  r2_obj (read_config t g cb None None usr None sfx dl cm) = None.
Proof. intros. split; reflexivity. Qed.
Print Assumptions C01_no_names_refused.

(* the default layers of econf_readConfig: <usr_subdir>/<project>, /run/<project>, /etc/<project> *)
Theorem C01_default_layers : forall t g cb project usr name sfx dl cm nm p,
  name = Some nm -> nm <> [] -> project = Some p ->
  read_config t g cb None project usr name sfx dl cm =
  (let r := read_config_obj t g cb
              (mkKF [] 0 [] 0 0 None false false
                    [snprintf_path (str_or_empty usr ++ 47 :: p); snprintf_path (bs "/run" ++ 47 :: p); snprintf_path (bs "/etc" ++ 47 :: p)] [] None)
              name sfx dl cm in
   match r2_err r with ECONF_SUCCESS => r | _ => mkR2 (r2_err r) None (r2_events r) (r2_g r) end).
Proof. exact read_config_default_dirs. Qed.
Print Assumptions C01_default_layers.

(* the merged result is the specification's fold unless the first consulted
   file is a drop-in hidden by a later one (known finding F14: refuted there,
   see Properties_C12.C12_history_merge_refuted) *)
Theorem C01_result_is_spec : forall f rest,
  masked f rest = false -> merge_files (f :: rest) = merge_spec_files (f :: rest).
Proof. exact merge_files_spec. Qed.
Print Assumptions C01_result_is_spec.

(* non-vacuity: three layers, an empty main file in /etc silencing the vendor
   one, colliding drop-in names, byte order 10- < 9- *)
Definition demo_tree : tree :=
  [([47], NDir 0 0); (bs "/u", NDir 0 0); (bs "/e", NDir 0 0);
   (bs "/u/foo.conf", NFile (bs "k=vendor" ++ [10]) 0 0);
   (bs "/e/foo.conf", NFile [] 0 0);
   (bs "/u/foo.conf.d", NDir 0 0); (bs "/e/foo.conf.d", NDir 0 0);
   (bs "/u/foo.conf.d/9-b.conf", NFile (bs "k=nine" ++ [10]) 0 0);
   (bs "/u/foo.conf.d/10-a.conf", NFile (bs "k=ten" ++ [10] ++ bs "j=1" ++ [10]) 0 0);
   (bs "/e/foo.conf.d/10-a.conf", NFile (bs "j=2" ++ [10]) 0 0);
   (bs "/u/foo.conf.d/note.txt", NFile (bs "k=no" ++ [10]) 0 0)].
Example C01_demo :
  let r := read_dirs demo_tree globals0 None (Some (bs "/u")) (Some (bs "/e")) (Some (bs "foo")) (Some (bs "conf")) (bs "=") (bs "#") in
  r2_err r = ECONF_SUCCESS /\
  option_map (fun kf => map (fun e => (e_key e, e_value e)) (kf_entries kf)) (r2_obj r) =
    Some [(bs "k", Some (bs "nine")); (bs "j", Some (bs "2"))] /\
  opens_of (r2_events r) = [bs "/e/foo.conf"; bs "/u/foo.conf.d/10-a.conf"; bs "/u/foo.conf.d/9-b.conf"; bs "/e/foo.conf.d/10-a.conf"].
Proof. vm_compute. repeat split. Qed.
