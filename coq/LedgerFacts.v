From Coq Require Import String Lia List.
From Econf Require Import Bytes BytesFacts LedgerModel.
From Coq Require Import Permutation Arith.
Import ListNotations.
Local Open Scope N_scope.

(* ---------- booleans to propositions ---------- *)
Lemma lg_existsb_In : forall x l, existsb (Nat.eqb x) l = true <-> In x l.
Proof.
  intros x l. rewrite existsb_exists. split.
  - intros [y [Hy He]]. apply Nat.eqb_eq in He. subst. exact Hy.
  - intros H. exists x. split; [exact H|apply Nat.eqb_refl].
Qed.

Lemma lg_existsb_nIn : forall x l, ~ In x l -> existsb (Nat.eqb x) l = false.
Proof.
  intros x l H. destruct (existsb (Nat.eqb x) l) eqn:E; [|reflexivity].
  apply lg_existsb_In in E. contradiction.
Qed.

Lemma lg_nodupb_NoDup : forall l, nodupb l = true <-> NoDup l.
Proof.
  induction l as [|x r IH]; simpl.
  - split; [constructor|reflexivity].
  - rewrite Bool.andb_true_iff, Bool.negb_true_iff, IH. split.
    + intros [H1 H2]. constructor; [|exact H2]. intro H. apply lg_existsb_In in H. congruence.
    + intros H. inversion H; subst. split; [apply lg_existsb_nIn; assumption|assumption].
Qed.

(* ---------- events ---------- *)
Lemma lg_allocs_alloc : forall l, allocs (snd (lalloc l)) = (allocs l ++ [l_next l])%list.
Proof. intros. unfold allocs, lalloc. simpl. rewrite flat_map_app. reflexivity. Qed.
Lemma lg_frees_alloc : forall l, frees (snd (lalloc l)) = frees l.
Proof. intros. unfold frees, lalloc. simpl. rewrite flat_map_app. simpl. apply app_nil_r. Qed.
Lemma lg_allocs_free : forall l id, allocs (lfree l id) = allocs l.
Proof. intros. unfold allocs, lfree. simpl. rewrite flat_map_app. simpl. apply app_nil_r. Qed.
Lemma lg_frees_free : forall l id, frees (lfree l id) = (frees l ++ [id])%list.
Proof. intros. unfold frees, lfree. simpl. rewrite flat_map_app. reflexivity. Qed.

(* ---------- the invariant ---------- *)
Definition lg_WF (l : ledger) (o : list nat) : Prop :=
  allocs l = seq 0 (l_next l) /\
  NoDup (frees l) /\
  (forall x, In x (frees l) -> (x < l_next l)%nat) /\
  NoDup o /\
  (forall x, In x o <-> ((x < l_next l)%nat /\ ~ In x (frees l))).

Lemma lg_wf0 : lg_WF ledger0 [].
Proof.
  unfold lg_WF, ledger0, allocs, frees. simpl.
  split; [reflexivity|]. split; [constructor|]. split; [intros x []|]. split; [constructor|].
  intros x. split; [intros []|intros [H _]; lia].
Qed.

Lemma lg_wf_perm : forall l o o', lg_WF l o -> Permutation o o' -> lg_WF l o'.
Proof.
  intros l o o' (A & B & C & D & E) P.
  split; [exact A|]. split; [exact B|]. split; [exact C|].
  split; [eapply Permutation_NoDup; eauto|].
  intros x. split.
  - intro H. apply E. eapply Permutation_in; [apply Permutation_sym; exact P|exact H].
  - intros H. eapply Permutation_in; [exact P|]. apply E. exact H.
Qed.

Lemma lg_wf_alloc : forall l o id l1, lalloc l = (id, l1) -> lg_WF l o -> lg_WF l1 (id :: o).
Proof.
  intros l o id l1 HA (A & B & C & D & E).
  assert (id = l_next l) by (unfold lalloc in HA; congruence).
  assert (l1 = snd (lalloc l)) by (rewrite HA; reflexivity).
  assert (HN : l_next l1 = S (l_next l)) by (subst l1; reflexivity).
  subst id. subst l1. unfold lg_WF. rewrite lg_allocs_alloc, lg_frees_alloc, HN.
  split; [rewrite seq_S; simpl; rewrite A; reflexivity|].
  split; [exact B|].
  split; [intros x H; apply C in H; lia|].
  split.
  { constructor; [|exact D]. intro H. apply E in H. lia. }
  intros x. split.
  - intros [H|H].
    + subst x. split; [lia|]. intro H. apply C in H. lia.
    + apply E in H. split; [lia|tauto].
  - intros [H1 H2]. destruct (Nat.eq_dec (l_next l) x) as [Q|Q]; [left; exact Q|right].
    apply E. split; [lia|exact H2].
Qed.

Lemma lg_wf_free : forall l o id, lg_WF l (id :: o) -> lg_WF (lfree l id) o.
Proof.
  intros l o id (A & B & C & D & E).
  unfold lg_WF. rewrite lg_allocs_free, lg_frees_free.
  replace (l_next (lfree l id)) with (l_next l) by reflexivity.
  assert (Hid : (id < l_next l)%nat /\ ~ In id (frees l)) by (apply E; left; reflexivity).
  inversion D as [|? ? Hn Hd]; subst.
  split; [exact A|].
  split; [eapply Permutation_NoDup; [apply Permutation_cons_append|]; constructor; tauto|].
  split.
  { intros x H. apply in_app_iff in H. destruct H as [H|[H|[]]]; [apply C; exact H|subst; tauto]. }
  split; [exact Hd|].
  intros x. split.
  - intros H. assert (In x (id :: o)) as G by (right; exact H). apply E in G.
    split; [tauto|].
    intro F. apply in_app_iff in F. destruct F as [F|[F|[]]]; [tauto|subst; contradiction].
  - intros [H1 H2].
    assert (In x (id :: o)) as G.
    { apply E. split; [exact H1|]. intro F. apply H2. apply in_app_iff. left. exact F. }
    destruct G as [G|G]; [|exact G]. subst. exfalso. apply H2. apply in_app_iff. right. left. reflexivity.
Qed.

Lemma lg_wf_free_all : forall c l own, lg_WF l (c ++ own) -> lg_WF (fold_left lfree c l) own.
Proof.
  induction c as [|x c IH]; intros l own H; simpl in *.
  - exact H.
  - apply IH. apply lg_wf_free. exact H.
Qed.

Lemma lg_wf_balanced : forall r, lg_WF (lo_ledger r) (lo_owned r) -> balanced r = true.
Proof.
  intros r (A & B & C & D & E). unfold balanced.
  repeat (apply Bool.andb_true_iff; split).
  - apply lg_nodupb_NoDup. rewrite A. apply seq_NoDup.
  - apply lg_nodupb_NoDup. exact B.
  - apply forallb_forall. intros x H. apply lg_existsb_In. rewrite A. apply in_seq. apply C in H. lia.
  - apply lg_nodupb_NoDup. exact D.
  - apply forallb_forall. intros x H. apply E in H. destruct H as [H1 H2].
    apply Bool.andb_true_iff. split.
    + apply lg_existsb_In. rewrite A. apply in_seq. lia.
    + apply Bool.negb_true_iff. apply lg_existsb_nIn. exact H2.
  - apply forallb_forall. intros x H. rewrite A in H. apply in_seq in H.
    apply Bool.orb_true_iff.
    destruct (in_dec Nat.eq_dec x (frees (lo_ledger r))) as [F|F].
    + left. apply lg_existsb_In. exact F.
    + right. apply lg_existsb_In. apply E. split; [lia|exact F].
Qed.

(* ---------- ownership through the functions ---------- *)
Definition lg_optl (o : option nat) : list nat := match o with Some i => [i] | None => [] end.

Lemma lg_main_wf : forall t cb o name sfx dl cm dirs g cur l own,
  lg_WF l (lg_optl cur ++ own) ->
  match main_ledger t g cb o dirs name sfx dl cm cur l with
  | (inl _, _, l') => lg_WF l' own
  | (inr m, _, l') => lg_WF l' (lg_optl m ++ own)
  end.
Proof.
  intros t cb o name sfx dl cm. induction dirs as [|d rest IH]; intros g cur l own H.
  - destruct cur as [id|]; simpl in *.
    + apply lg_wf_free. exact H.
    + exact H.
  - cbn [main_ledger].
    assert (exists id l1, (match cur with Some id => (id, l) | None => lalloc l end) = (id, l1) /\ lg_WF l1 (id :: own)) as (id & l1 & Q & W).
    { destruct cur as [id|]; simpl in H.
      - exists id, l. split; [reflexivity|exact H].
      - destruct (lalloc l) as [id l1] eqn:EA. exists id, l1. split; [reflexivity|].
        eapply lg_wf_alloc; eauto. }
    rewrite Q. clear Q H.
    destruct (gate_stage t g cb o (d ++ 47 :: name ++ sfx) dl cm) as [|e|e].
    + exact W.
    + destruct e; try (apply lg_wf_free; exact W).
      apply IH. exact W.
    + destruct e; try (apply lg_wf_free; exact W).
      apply IH. simpl. apply lg_wf_free. exact W.
Qed.

Lemma lg_names_wf : forall t cb o dir sfx dl cm names g acc l own,
  lg_WF l (acc ++ own) ->
  match names_ledger t g cb o dir sfx dl cm names acc l with
  | (inl (_, c), _, l') => lg_WF l' (c ++ own)
  | (inr acc', _, l') => lg_WF l' (acc' ++ own)
  end.
Proof.
  intros t cb o dir sfx dl cm. induction names as [|nm rest IH]; intros g acc l own H.
  - exact H.
  - cbn [names_ledger].
    destruct (Nat.ltb (length sfx) (length nm) && is_suffix sfx nm).
    + destruct (lalloc l) as [id l1] eqn:EA.
      assert (W : lg_WF l1 (id :: acc ++ own)) by (eapply lg_wf_alloc; eauto).
      destruct (gate_stage t g cb o (dir ++ 47 :: nm) dl cm) as [|e|e].
      * apply IH. eapply lg_wf_perm; [exact W|].
        rewrite <- app_assoc. simpl. apply Permutation_middle.
      * apply lg_wf_free. exact W.
      * apply lg_wf_free. exact W.
    + apply IH. exact H.
Qed.

Lemma lg_dropins_wf : forall t cb o sfx dl cm dirs g acc l own,
  lg_WF l (acc ++ own) ->
  match dropins_ledger t g cb o dirs sfx dl cm acc l with
  | (inl (_, c), _, l') => lg_WF l' (c ++ own)
  | (inr acc', _, l') => lg_WF l' (acc' ++ own)
  end.
Proof.
  intros t cb o sfx dl cm. induction dirs as [|dir rest IH]; intros g acc l own H.
  - exact H.
  - cbn [dropins_ledger].
    destruct (fs_scandir t dir) as [names|].
    + pose proof (lg_names_wf t cb o dir sfx dl cm names g acc l own H) as P.
      destruct (names_ledger t g cb o dir sfx dl cm names acc l) as [[[[e c]|acc'] g'] l'].
      * exact P.
      * apply IH. exact P.
    + apply IH. exact H.
Qed.

Lemma lg_history_wf : forall t g cb o parse_dirs conf_dirs name sfx dl cm l own,
  lg_WF l own ->
  match history_ledger t g cb o parse_dirs conf_dirs name sfx dl cm l with
  | (inl _, l') => lg_WF l' own
  | (inr ids, l') => lg_WF l' (ids ++ own)
  end.
Proof.
  intros t g cb o parse_dirs conf_dirs name sfx dl cm l own H.
  unfold history_ledger. destruct name as [nm|]; [|exact H].
  assert (T : forall m g1 l1 dirs sx, lg_WF l1 (lg_optl m ++ own) ->
     match (match dropins_ledger t g1 cb o dirs sx dl cm (match m with Some id => [id] | None => [] end) l1 with
            | (inl (e, collected), _, l2) => (inl e, fold_left lfree collected l2)
            | (inr [], _, l2) => (inl ECONF_NOFILE, l2)
            | (inr ids, _, l2) => (inr ids, l2)
            end : (econf_err + list nat) * ledger) with
     | (inl _, l') => lg_WF l' own
     | (inr ids, l') => lg_WF l' (ids ++ own)
     end).
  { intros m g1 l1 dirs sx W.
    pose proof (lg_dropins_wf t cb o sx dl cm dirs g1 (lg_optl m) l1 own W) as P.
    change (match m with Some id => [id] | None => [] end) with (lg_optl m).
    destruct (dropins_ledger t g1 cb o dirs sx dl cm (lg_optl m) l1) as [[[[e c]|ids] g2] l2].
    - apply lg_wf_free_all. exact P.
    - destruct ids; exact P. }
  destruct nm as [|c nm'].
  - apply (T None). exact H.
  - pose proof (lg_main_wf t cb o (c :: nm') (norm_suffix sfx) dl cm (rev parse_dirs) g None l own H) as P.
    destruct (main_ledger t g cb o (rev parse_dirs) (c :: nm') (norm_suffix sfx) dl cm None l) as [[[e|m] g1] l1].
    + exact P.
    + apply T. exact P.
Qed.

Lemma lg_merge_wf : forall files cur l own,
  lg_WF l (cur :: map fst files ++ own) ->
  lg_WF (snd (merge_ledger cur files l)) (fst (merge_ledger cur files l) :: own).
Proof.
  induction files as [|[f hidden] rest IH]; intros cur l own H.
  - exact H.
  - cbn [merge_ledger]. simpl map in H. destruct hidden.
    + apply IH. apply lg_wf_free. eapply lg_wf_perm; [exact H|]. apply perm_swap.
    + destruct (lalloc l) as [m l1] eqn:EA.
      apply IH.
      assert (W : lg_WF l1 (m :: cur :: f :: map fst rest ++ own)) by (eapply lg_wf_alloc; eauto).
      apply lg_wf_free. apply lg_wf_free.
      eapply lg_wf_perm; [exact W|].
      eapply perm_trans; [apply perm_swap|]. apply perm_skip. apply perm_swap.
Qed.

(* ---------- the instrumented control flow is the reader's ---------- *)
Lemma lg_gate_stage : forall t g cb o p dl cm,
  match go_res (gate t g cb o p dl cm) with
  | inr _ => gate_stage t g cb o p dl cm = GOk
  | inl e => gate_stage t g cb o p dl cm = GEarly e \/ gate_stage t g cb o p dl cm = GParse e
  end.
Proof.
  intros. unfold gate_stage.
  destruct (go_res (gate t g cb o p dl cm)) as [e|k]; [|reflexivity].
  destruct (fs_lstat t p) as [n|]; [|left; reflexivity].
  repeat match goal with |- context[if ?c then _ else _] => destruct c end; auto.
Qed.

Definition lg_main_rel (a : econf_err + option nat) (b : econf_err + option keyfile) : Prop :=
  match a, b with
  | inl e, inl e' => e = e'
  | inr None, inr None => True
  | inr (Some _), inr (Some _) => True
  | _, _ => False
  end.

Lemma lg_main_matches : forall t cb o name sfx dl cm dirs g cur l evs,
  snd (fst (main_ledger t g cb o dirs name sfx dl cm cur l)) = snd (find_main t g cb o dirs name sfx dl cm evs) /\
  lg_main_rel (fst (fst (main_ledger t g cb o dirs name sfx dl cm cur l)))
              (fst (fst (find_main t g cb o dirs name sfx dl cm evs))).
Proof.
  intros t cb o name sfx dl cm. induction dirs as [|d rest IH]; intros g cur l evs.
  - simpl. split; [reflexivity|exact I].
  - cbn [main_ledger find_main].
    destruct (match cur with Some id => (id, l) | None => lalloc l end) as [id l1].
    pose proof (lg_gate_stage t g cb o (d ++ 47 :: name ++ sfx) dl cm) as GS.
    unfold gate_g.
    destruct (go_res (gate t g cb o (d ++ 47 :: name ++ sfx) dl cm)) as [e|k].
    + destruct GS as [GS|GS]; rewrite GS; destruct e; try (simpl; split; reflexivity); apply IH.
    + rewrite GS. simpl. split; [reflexivity|exact I].
Qed.

Definition lg_list_rel (a : econf_err * list nat + list nat) (b : econf_err + list keyfile) : Prop :=
  match a, b with
  | inl (e, _), inl e' => e = e'
  | inr x, inr y => length x = length y
  | _, _ => False
  end.

Lemma lg_names_matches : forall t cb o dir sfx dl cm names g acc l kacc evs,
  length acc = length kacc ->
  snd (fst (names_ledger t g cb o dir sfx dl cm names acc l)) = snd (read_names t g cb o dir sfx dl cm names kacc evs) /\
  lg_list_rel (fst (fst (names_ledger t g cb o dir sfx dl cm names acc l)))
              (fst (fst (read_names t g cb o dir sfx dl cm names kacc evs))).
Proof.
  intros t cb o dir sfx dl cm. induction names as [|nm rest IH]; intros g acc l kacc evs HL.
  - simpl. split; [reflexivity|exact HL].
  - cbn [names_ledger read_names].
    destruct (Nat.ltb (length sfx) (length nm) && is_suffix sfx nm).
    + destruct (lalloc l) as [id l1].
      pose proof (lg_gate_stage t g cb o (dir ++ 47 :: nm) dl cm) as GS.
      unfold gate_g.
      destruct (go_res (gate t g cb o (dir ++ 47 :: nm) dl cm)) as [e|k].
      * destruct GS as [GS|GS]; rewrite GS; simpl; split; reflexivity.
      * rewrite GS. apply IH. rewrite !app_length. simpl. rewrite HL. reflexivity.
    + apply IH. exact HL.
Qed.

Lemma lg_dropins_matches : forall t cb o name sfx dl cm dirs g acc l kacc evs,
  length acc = length kacc ->
  snd (fst (dropins_ledger t g cb o dirs sfx dl cm acc l)) = snd (read_dropins t g cb o dirs name sfx dl cm kacc evs) /\
  lg_list_rel (fst (fst (dropins_ledger t g cb o dirs sfx dl cm acc l)))
              (fst (fst (read_dropins t g cb o dirs name sfx dl cm kacc evs))).
Proof.
  intros t cb o name sfx dl cm. induction dirs as [|dir rest IH]; intros g acc l kacc evs HL.
  - simpl. split; [reflexivity|exact HL].
  - cbn [dropins_ledger read_dropins].
    destruct (fs_scandir t dir) as [names|].
    + pose proof (lg_names_matches t cb o dir sfx dl cm names g acc l kacc evs HL) as [P1 P2].
      destruct (names_ledger t g cb o dir sfx dl cm names acc l) as [[[[e c]|acc'] g'] l'];
      destruct (read_names t g cb o dir sfx dl cm names kacc evs) as [[[e2|kacc'] evs'] g2];
      simpl in P1, P2; try contradiction.
      * subst. simpl. split; reflexivity.
      * subst. apply IH. exact P2.
    + apply IH. exact HL.
Qed.

Theorem history_ledger_matches : forall t g cb o parse_dirs conf_dirs name sfx dl cm l,
  match fst (history_ledger t g cb o parse_dirs conf_dirs name sfx dl cm l), ho_res (history t g cb o parse_dirs conf_dirs name sfx dl cm) with
  | inl e, inl e' => e = e'
  | inr ids, inr files => length ids = length files
  | _, _ => False
  end.
Proof.
  intros. unfold history_ledger, history.
  destruct name as [nm|]; [|reflexivity].
  assert (T : forall (m : option nat) (km : option keyfile) g1 l1 dirs sx evs,
     match m, km with Some _, Some _ => True | None, None => True | _, _ => False end ->
     match fst (match dropins_ledger t g1 cb o dirs sx dl cm (match m with Some id => [id] | None => [] end) l1 with
            | (inl (e, collected), _, l2) => (inl e, fold_left lfree collected l2)
            | (inr [], _, l2) => (inl ECONF_NOFILE, l2)
            | (inr ids, _, l2) => (inr ids, l2)
            end : (econf_err + list nat) * ledger),
           ho_res (match read_dropins t g1 cb o dirs nm sx dl cm (match km with Some kf => [kf] | None => [] end) evs with
            | (inl e, evs', g2) => mkHO (inl e) evs' g2
            | (inr [], evs', g2) => mkHO (inl ECONF_NOFILE) evs' g2
            | (inr files, evs', g2) => mkHO (inr files) evs' g2
            end) with
     | inl e, inl e' => e = e'
     | inr ids, inr files => length ids = length files
     | _, _ => False
     end).
  { intros m km g1 l1 dirs sx evs HM.
    assert (HL : length (match m with Some id => [id] | None => [] end) = length (match km with Some kf => [kf] | None => [] end)).
    { destruct m, km; try contradiction; reflexivity. }
    pose proof (lg_dropins_matches t cb o nm sx dl cm dirs g1 _ l1 _ evs HL) as [_ P2].
    destruct (dropins_ledger t g1 cb o dirs sx dl cm (match m with Some id => [id] | None => [] end) l1) as [[[[e c]|ids] g2] l2];
    destruct (read_dropins t g1 cb o dirs nm sx dl cm (match km with Some kf => [kf] | None => [] end) evs) as [[[e2|files] evs'] g3];
    simpl in P2; try contradiction.
    - simpl. exact P2.
    - destruct ids, files; simpl in *; try discriminate; try reflexivity. exact P2. }
  destruct nm as [|c nm'].
  - apply (T None None). exact I.
  - pose proof (lg_main_matches t cb o (c :: nm') (norm_suffix sfx) dl cm (rev parse_dirs) g None l []) as [P1 P2].
    destruct (main_ledger t g cb o (rev parse_dirs) (c :: nm') (norm_suffix sfx) dl cm None l) as [[[e|m] g1] l1];
    destruct (find_main t g cb o (rev parse_dirs) (c :: nm') (norm_suffix sfx) dl cm []) as [[[e2|km] evs] g2];
    simpl in P1, P2; unfold lg_main_rel in P2.
    + simpl. exact P2.
    + contradiction.
    + destruct m; contradiction.
    + subst g2. apply T. destruct m, km; try contradiction; exact I.
Qed.

(* ---------- the entry points ---------- *)
Lemma lg_history_nonempty : forall t g cb o parse_dirs conf_dirs name sfx dl cm l,
  fst (history_ledger t g cb o parse_dirs conf_dirs name sfx dl cm l) <> inr [].
Proof.
  intros. unfold history_ledger.
  destruct name as [nm|]; [|simpl; discriminate].
  assert (T : forall (m : option nat) g1 l1 dirs sx,
     fst (match dropins_ledger t g1 cb o dirs sx dl cm (match m with Some id => [id] | None => [] end) l1 with
            | (inl (e, collected), _, l2) => (inl e, fold_left lfree collected l2)
            | (inr [], _, l2) => (inl ECONF_NOFILE, l2)
            | (inr ids, _, l2) => (inr ids, l2)
            end : (econf_err + list nat) * ledger) <> inr []).
  { intros m g1 l1 dirs sx.
    destruct (dropins_ledger t g1 cb o dirs sx dl cm (match m with Some id => [id] | None => [] end) l1) as [[[[e c]|[|i ids]] g2] l2];
    simpl; discriminate. }
  destruct nm as [|c nm'].
  - apply (T None).
  - destruct (main_ledger t g cb o (rev parse_dirs) (c :: nm') (norm_suffix sfx) dl cm None l) as [[[e|m] g1] l1].
    + simpl. discriminate.
    + apply T.
Qed.

Lemma lg_map_fst_combine : forall (A B : Type) (a : list A) (b : list B),
  length a = length b -> map fst (combine a b) = a.
Proof.
  induction a as [|x a IH]; intros [|y b] H; simpl in *; try discriminate; try reflexivity.
  f_equal. apply IH. congruence.
Qed.

Lemma lg_masks_length : forall files, length (masks_of files) = length files.
Proof. induction files; simpl; congruence. Qed.

Lemma lg_read_obj : forall t g cb obj obj_id name sfx dl cm l,
  lg_WF l [obj_id] ->
  let r := read_obj_ledger t g cb obj obj_id name sfx dl cm l in
  lg_WF (lo_ledger r) (lo_owned r) /\
  lo_err r = r2_err (read_config_obj t g cb obj name sfx dl cm) /\
  (lo_err r = ECONF_SUCCESS -> length (lo_owned r) = 1%nat) /\
  (lo_err r <> ECONF_SUCCESS -> lo_owned r = [obj_id]).
Proof.
  intros t g cb obj obj_id name sfx dl cm l H.
  unfold read_obj_ledger, read_config_obj.
  set (cds := match kf_conf_dirs obj with [] => g_conf_dirs g | x => x end).
  set (o := mkPopts (kf_python obj) (kf_join obj)).
  pose proof (history_ledger_matches t g cb o (kf_parse_dirs obj) cds name sfx dl cm l) as M.
  pose proof (lg_history_wf t g cb o (kf_parse_dirs obj) cds name sfx dl cm l [obj_id] H) as W.
  pose proof (lg_history_nonempty t g cb o (kf_parse_dirs obj) cds name sfx dl cm l) as NE.
  destruct (history_ledger t g cb o (kf_parse_dirs obj) cds name sfx dl cm l) as [[e|ids] l1];
  destruct (ho_res (history t g cb o (kf_parse_dirs obj) cds name sfx dl cm)) as [e2|files];
  simpl in M, NE; try contradiction.
  - subst e2. simpl.
    split; [exact W|]. split; [reflexivity|]. split; intros; reflexivity.
  - destruct ids as [|first rest]; [congruence|].
    destruct files as [|f0 files]; simpl in M; [discriminate|].
    assert (W2 : lg_WF (lfree l1 obj_id) (first :: map fst (combine rest (masks_of files)) ++ [])).
    { rewrite lg_map_fst_combine by (rewrite lg_masks_length; congruence).
      rewrite app_nil_r. apply lg_wf_free.
      eapply lg_wf_perm; [exact W|].
      apply Permutation_sym. apply (Permutation_cons_append (first :: rest) obj_id). }
    apply lg_merge_wf in W2.
    cbv zeta.
    destruct (merge_ledger first (combine rest (masks_of files)) (lfree l1 obj_id)) as [res l3].
    simpl in *.
    split; [exact W2|]. split; [reflexivity|]. split; [reflexivity|]. intros C; contradiction.
Qed.

Lemma lg_wf1 : lg_WF (snd (lalloc ledger0)) [fst (lalloc ledger0)].
Proof. eapply lg_wf_alloc; [reflexivity|apply lg_wf0]. Qed.

Theorem read_dirs_balanced : forall t g cb dist etc name sfx dl cm,
  balanced (read_dirs_ledger t g cb dist etc name sfx dl cm) = true.
Proof.
  intros. apply lg_wf_balanced. unfold read_dirs_ledger.
  apply (lg_read_obj t g cb _ _ name sfx dl cm _ lg_wf1).
Qed.

Theorem read_dirs_owned : forall t g cb dist etc name sfx dl cm,
  let r := read_dirs_ledger t g cb dist etc name sfx dl cm in
  (lo_err r = ECONF_SUCCESS -> length (lo_owned r) = 1%nat) /\ (lo_err r <> ECONF_SUCCESS -> lo_owned r = [0%nat]).
Proof.
  intros. subst r. unfold read_dirs_ledger.
  destruct (lg_read_obj t g cb (mkKF [] 0 [] 0 0 None false false [str_or_empty dist; str_or_empty etc] [] None)
              _ name sfx dl cm _ lg_wf1) as (_ & _ & A & B).
  split; [exact A|exact B].
Qed.

Theorem read_dirs_ledger_matches : forall t g cb dist etc name sfx dl cm,
  lo_err (read_dirs_ledger t g cb dist etc name sfx dl cm) = r2_err (read_dirs t g cb dist etc name sfx dl cm).
Proof.
  intros. unfold read_dirs_ledger, read_dirs.
  apply (lg_read_obj t g cb _ _ name sfx dl cm _ lg_wf1).
Qed.

Definition lg_rel (r : led_out) : led_out :=
  match lo_err r with
  | ECONF_SUCCESS => r
  | e => mkLO e [] (fold_left lfree (lo_owned r) (lo_ledger r))
  end.

Lemma lg_rel_spec : forall r,
  lg_WF (lo_ledger r) (lo_owned r) ->
  (lo_err r = ECONF_SUCCESS -> length (lo_owned r) = 1%nat) ->
  lg_WF (lo_ledger (lg_rel r)) (lo_owned (lg_rel r)) /\
  (lo_err (lg_rel r) = ECONF_SUCCESS -> length (lo_owned (lg_rel r)) = 1%nat) /\
  (lo_err (lg_rel r) <> ECONF_SUCCESS -> lo_owned (lg_rel r) = []).
Proof.
  intros r W A.
  assert (F : lg_WF (fold_left lfree (lo_owned r) (lo_ledger r)) []).
  { apply lg_wf_free_all. rewrite app_nil_r. exact W. }
  unfold lg_rel.
  destruct (lo_err r) eqn:E; cbn [lo_err lo_owned lo_ledger];
    try (split; [exact F|split; [intros; discriminate|intros; reflexivity]]).
  rewrite E. split; [exact W|]. split; [intros _; apply A; reflexivity|intros C; contradiction].
Qed.

Lemma lg_read_config : forall t g cb parse_dirs name sfx dl cm,
  let r := read_config_ledger t g cb parse_dirs name sfx dl cm in
  lg_WF (lo_ledger r) (lo_owned r) /\
  (lo_err r = ECONF_SUCCESS -> length (lo_owned r) = 1%nat) /\ (lo_err r <> ECONF_SUCCESS -> lo_owned r = []).
Proof.
  intros. subst r.
  change (read_config_ledger t g cb parse_dirs name sfx dl cm)
    with (lg_rel (read_obj_ledger t g cb (mkKF [] 0 [] 0 0 None false false parse_dirs [] None)
                     (fst (lalloc ledger0)) name sfx dl cm (snd (lalloc ledger0)))).
  destruct (lg_read_obj t g cb (mkKF [] 0 [] 0 0 None false false parse_dirs [] None)
              _ name sfx dl cm _ lg_wf1) as (W & _ & A & B).
  apply lg_rel_spec; assumption.
Qed.

Theorem read_config_balanced : forall t g cb parse_dirs name sfx dl cm,
  balanced (read_config_ledger t g cb parse_dirs name sfx dl cm) = true.
Proof. intros. apply lg_wf_balanced. apply lg_read_config. Qed.

Theorem read_config_owned : forall t g cb parse_dirs name sfx dl cm,
  let r := read_config_ledger t g cb parse_dirs name sfx dl cm in
  (lo_err r = ECONF_SUCCESS -> length (lo_owned r) = 1%nat) /\ (lo_err r <> ECONF_SUCCESS -> lo_owned r = []).
Proof. intros. apply lg_read_config. Qed.

Theorem history_api_balanced : forall t g cb dist etc name sfx dl cm,
  balanced (history_api_ledger t g cb dist etc name sfx dl cm) = true.
Proof.
  intros. apply lg_wf_balanced. unfold history_api_ledger.
  pose proof (lg_history_wf t g cb (mkPopts false false) [str_or_empty dist; str_or_empty etc] (g_conf_dirs g)
                name sfx dl cm ledger0 [] lg_wf0) as W.
  destruct (history_ledger t g cb (mkPopts false false) [str_or_empty dist; str_or_empty etc] (g_conf_dirs g)
              name sfx dl cm ledger0) as [[e|ids] l]; simpl.
  - exact W.
  - rewrite app_nil_r in W. exact W.
Qed.

Theorem history_api_owned : forall t g cb dist etc name sfx dl cm,
  lo_err (history_api_ledger t g cb dist etc name sfx dl cm) <> ECONF_SUCCESS ->
  lo_owned (history_api_ledger t g cb dist etc name sfx dl cm) = [].
Proof.
  intros t g cb dist etc name sfx dl cm. unfold history_api_ledger.
  destruct (history_ledger t g cb (mkPopts false false) [str_or_empty dist; str_or_empty etc] (g_conf_dirs g)
              name sfx dl cm ledger0) as [[e|ids] l]; simpl.
  - reflexivity.
  - intros C. contradiction.
Qed.
