(* Properties_C09.v — C09: typed getters interpret stored text faithfully or
   refuse, never a wrong value. *)
From Coq Require Import String Lia.
From Econf Require Import Bytes BytesFacts MapSpec NumericSpec NumericFacts.
Local Open Scope Z_scope.

(* every integer literal (decimal, octal, hexadecimal in either case, optional
   sign, any number of digits): the mathematical value if the type can hold
   it, a conversion error otherwise *)
Theorem C09_int32 : forall l, lit_wf l = true ->
  convert KInt (Some (render_lit l)) =
  if (- 2 ^ 31 <=? lit_value l) && (lit_value l <? 2 ^ 31) then OInt ECONF_SUCCESS (lit_value l)
  else ORc ECONF_VALUE_CONVERSION_ERROR.
Proof.
  intros l H. cbn [convert]. rewrite (signed_literal 32 l (or_introl eq_refl) H).
  change (2 ^ (32 - 1)) with (2 ^ 31). now destruct ((- 2 ^ 31 <=? lit_value l) && (lit_value l <? 2 ^ 31)).
Qed.
Print Assumptions C09_int32.

Theorem C09_int64 : forall l, lit_wf l = true ->
  convert KInt64 (Some (render_lit l)) =
  if (- 2 ^ 63 <=? lit_value l) && (lit_value l <? 2 ^ 63) then OInt ECONF_SUCCESS (lit_value l)
  else ORc ECONF_VALUE_CONVERSION_ERROR.
Proof.
  intros l H. cbn [convert]. rewrite (signed_literal 64 l (or_intror eq_refl) H).
  change (2 ^ (64 - 1)) with (2 ^ 63). now destruct ((- 2 ^ 63 <=? lit_value l) && (lit_value l <? 2 ^ 63)).
Qed.
Print Assumptions C09_int64.

Theorem C09_uint32 : forall l, lit_wf l = true ->
  convert KUInt (Some (render_lit l)) =
  if (0 <=? lit_value l) && (lit_value l <? 2 ^ 32) then OInt ECONF_SUCCESS (lit_value l)
  else ORc ECONF_VALUE_CONVERSION_ERROR.
Proof.
  intros l H. cbn [convert]. rewrite (unsigned_literal 32 l (or_introl eq_refl) H).
  now destruct ((0 <=? lit_value l) && (lit_value l <? 2 ^ 32)).
Qed.
Print Assumptions C09_uint32.

Theorem C09_uint64 : forall l, lit_wf l = true ->
  convert KUInt64 (Some (render_lit l)) =
  if (0 <=? lit_value l) && (lit_value l <? 2 ^ 64) then OInt ECONF_SUCCESS (lit_value l)
  else ORc ECONF_VALUE_CONVERSION_ERROR.
Proof.
  intros l H. cbn [convert]. rewrite (unsigned_literal 64 l (or_intror eq_refl) H).
  now destruct ((0 <=? lit_value l) && (lit_value l <? 2 ^ 64)).
Qed.
Print Assumptions C09_uint64.

(* the boolean getter succeeds exactly on 1/0, yes/no, true/false in any
   letter case and on the empty value (false), and fails on every other text *)
Theorem C09_bool_exact : forall s b,
  bool_get_text (Some s) = inr b <->
  (b = true /\ (lower s = [49%N] \/ In (lower s) true_words)) \/
  (b = false /\ (lower s = [48%N] \/ s = [] \/ In (lower s) false_words)).
Proof. exact bool_get_exact. Qed.
Print Assumptions C09_bool_exact.

(* a key without value: every typed getter answers with an error code *)
Theorem C09_null_value : forall kd, kd <> KString ->
  convert kd None = ORc ECONF_KEY_HAS_NULL_VALUE.
Proof. intros kd H. destruct kd; try reflexivity. congruence. Qed.
Print Assumptions C09_null_value.

Example C09_demo :
  convert KInt (Some (bs "4294967296")) = ORc ECONF_VALUE_CONVERSION_ERROR /\
  convert KUInt (Some (bs "-1")) = ORc ECONF_VALUE_CONVERSION_ERROR /\
  convert KInt (Some (bs "-0x80000000")) = OInt ECONF_SUCCESS (-2147483648) /\
  convert KBool (Some (bs "p-")) = ORc ECONF_PARSE_ERROR /\
  lit_wf (mkLit SMinus Hex true [8; 0; 0; 0; 0; 0; 0; 0]) = true.
Proof. vm_compute. repeat split. Qed.
