(* MergeSpec.v — what C03 demands of a merge, stated on the per-section view
   (the association lists of MapSpec.v).  Executable definitions only. *)
From Coq Require Import String.
From Econf Require Export MapSpec.
Local Open Scope N_scope.

Definition proj' (es : list entry) (g : str) : alist :=
  map (fun e => (e_key e, e_value e)) (filter (fun e => str_eqb (e_group e) g) es).

(* first binding of every key, in order: what the getters can see *)
Fixpoint firsts_aux (seen : list str) (l : alist) : alist :=
  match l with
  | [] => []
  | (k, v) :: l' => if mem_str k seen then firsts_aux seen l' else (k, v) :: firsts_aux (k :: seen) l'
  end.
Definition firsts (l : alist) : alist := firsts_aux [] l.

(* an overriding value replaces the text of the first binding; an override
   without value (NULL) replaces it by the empty text *)
Definition ov_text (v : option str) : option str :=
  Some (match v with Some s => s | None => [] end).

Fixpoint al_override1 (l : alist) (k : str) (v : option str) : alist :=
  match l with
  | [] => [(k, v)]                                   (* new key: appended as it is *)
  | (k', v') :: l' => if str_eqb k' k then (k', ov_text v) :: l'
                      else (k', v') :: al_override1 l' k v
  end.

(* base section overridden by the visible bindings of the override section *)
Definition al_override (base ov : alist) : alist :=
  fold_left (fun l kv => al_override1 l (fst kv) (snd kv)) (firsts ov) base.

Definition has_group (es : list entry) (g : str) : bool :=
  existsb (fun e => str_eqb (e_group e) g) es.

(* visible value of (g,k) in a list of entries, NULL and "" identified *)
Definition vis (es : list entry) (g k : str) : option str :=
  match al_get (proj' es g) k with
  | Some (Some s) => Some s
  | Some None => Some []
  | None => None
  end.

Fixpoint subseq {A} (eqb : A -> A -> bool) (a b : list A) : bool :=
  match a, b with
  | [], _ => true
  | _ :: _, [] => false
  | x :: a', y :: b' => if eqb x y then subseq eqb a' b' else subseq eqb a b'
  end.

Definition gk (e : entry) : str * str := (e_group e, e_key e).
Definition gk_eqb (a b : str * str) : bool := str_eqb (fst a) (fst b) && str_eqb (snd a) (snd b).

Definition alist_eqb (a b : alist) : bool :=
  (length a =? length b)%nat &&
  forallb (fun p => str_eqb (fst (fst p)) (fst (snd p)) && ostr_eqb (snd (fst p)) (snd (snd p))) (combine a b).

(* ---- the statements of C03 as boolean checks (used for small-scope sanity
        runs and as the shape of the theorems in MergeFacts.v) ---- *)

(* per section that the base has (other than the special group-less case):
   base bindings in order, overridden; override-only keys after them *)
Definition chk_section (b o : list entry) (g : str) : bool :=
  let m := merge_entries b o in
  if has_group b g then
    if str_eqb g none_s && nogroup_first b o then true
    else alist_eqb (proj' m g) (al_override (proj' b g) (proj' o g))
  else alist_eqb (proj' m g) (proj' o g).

(* lookup law: override's visible value, else the base's *)
Definition chk_lookup (b o : list entry) (g k : str) : bool :=
  ostr_eqb (vis (merge_entries b o) g k)
           (match vis o g k with Some v => Some v | None => vis b g k end).

Definition chk_bound (b o : list entry) : bool :=
  (length (merge_entries b o) <=? length b + length o)%nat.

Definition chk_base_order (b o : list entry) : bool :=
  subseq gk_eqb (map gk b) (map gk (merge_entries b o)).

Fixpoint strs_eqb (a b : list str) : bool :=
  match a, b with
  | [], [] => true
  | x :: a', y :: b' => str_eqb x y && strs_eqb a' b'
  | _, _ => false
  end.

(* sections: the base's, then those only the override has *)
Definition chk_sections (b o : list entry) : bool :=
  let m := merge_entries b o in
  let nb := named (groups_of b) in
  let no := named (groups_of o) in
  strs_eqb (named (groups_of m)) (nb ++ filter (fun g => negb (mem_str g nb)) no).

(* group-less keys first: whenever the result has a group-less key that the
   override leads with or the base leads with, the result leads group-less *)
Definition chk_nogroup_first (b o : list entry) : bool :=
  let m := merge_entries b o in
  let lead es := match es with e :: _ => is_none e | [] => false end in
  if lead b || (lead o && negb (has_group b none_s)) then lead m else true.

(* nothing else appears *)
Definition chk_nothing_else (b o : list entry) : bool :=
  forallb (fun e => existsb (fun x => gk_eqb (gk x) (gk e)) (b ++ o)) (merge_entries b o).

Definition chk_all (b o : list entry) : bool :=
  let gs := [none_s; [65]; [66]; [67]] in
  let ks := [[120]; [121]; [122]] in
  forallb (chk_section b o) gs &&
  forallb (fun g => forallb (chk_lookup b o g) ks) gs &&
  chk_bound b o && chk_base_order b o && chk_sections b o && chk_nogroup_first b o && chk_nothing_else b o.

(* ---- small-scope enumeration ---- *)
Definition mk (g : str) (k : str) (v : option str) : entry := mkE g k v None None 0 false.
Definition universe (tag : N) : list entry :=
  flat_map (fun g => map (fun k => mk g k (Some [tag; hd 0 k])) [[120]; [121]]) [none_s; [65]; [66]] ++
  [mk [65] [120] None].

Fixpoint lists_upto (n : nat) (u : list entry) : list (list entry) :=
  match n with
  | O => [[]]
  | S n' => [] :: flat_map (fun l => map (fun e => e :: l) u) (lists_upto n' u)
  end.
