(* MergeModel.v — econf_mergeFiles (lib/libeconf.c) with insert_nogroup,
   merge_existing_groups, add_new_groups (lib/mergefiles.c) and
   cpy_file_entry (lib/helpers.c).  Every write to the result array is an
   append; [merge_entries] therefore builds the array front to back. *)
From Coq Require Import String.
From Econf Require Export ParserModel.
Local Open Scope N_scope.

Definition cpy (e : entry) : entry :=
  mkE (e_group e) (e_key e) (e_value e) (e_cbk e) (e_cav e) (e_line e) false.

Definition is_none (e : entry) : bool := str_eqb (e_group e) none_s.

Fixpoint leading_none (o : list entry) : list entry :=
  match o with
  | e :: o' => if is_none e then e :: leading_none o' else []
  | [] => []
  end.

(* the test in econf_mergeFiles that decides whether insert_nogroup runs *)
Definition nogroup_first (b o : list entry) : bool :=
  (match o with [] => true | e :: _ => is_none e end) &&
  (match b with [] => true | e :: _ => negb (is_none e) end).

(* replace the value of the first entry with the same group and key *)
Fixpoint replace_first (fe : list entry) (e : entry) : option (list entry) :=
  match fe with
  | [] => None
  | x :: fe' =>
      if same_gk x e then
        Some (with_value (Some (match e_value e with Some v => v | None => [] end)) x :: fe')
      else option_map (cons x) (replace_first fe' e)
  end.

(* the j-loop of merge_existing_groups for one run of group g *)
Fixpoint over_group (g : str) (seen rest fe : list entry) : list entry :=
  match rest with
  | [] => fe
  | e :: rest' =>
      let fe' :=
        if str_eqb (e_group e) g && negb (existsb (same_gk e) seen) then
          match replace_first fe e with
          | Some fe2 => fe2
          | None => fe ++ [cpy e]
          end
        else fe in
      over_group g (e :: seen) rest' fe'
  end.

Definition group_in (b : list entry) (g : str) : bool :=
  existsb (fun x => str_eqb (e_group x) g) b.

(* the i-loop: copy the base, and at the end of every run apply the override *)
Fixpoint merge_runs (opre orest : list entry) (prev : option str) (b fe : list entry) : list entry :=
  match b with
  | [] => match prev with Some g => over_group g opre orest fe | None => fe end
  | e :: b' =>
      let fe1 := match prev with
                 | Some g => if str_eqb g (e_group e) || group_in b g then fe   (* not the last run of g *)
                             else over_group g opre orest fe
                 | None => fe
                 end in
      merge_runs opre orest (Some (e_group e)) b' (fe1 ++ [cpy e])
  end.

(* add_new_groups *)
Fixpoint add_new (b : list entry) (leading : bool) (o fe : list entry) : list entry :=
  match o with
  | [] => fe
  | e :: o' =>
      if is_none e && leading then add_new b true o' fe
      else
        let fe' := if group_in b (e_group e) then fe else fe ++ [cpy e] in
        add_new b false o' fe'
  end.

Definition merge_entries (b o : list entry) : list entry :=
  let pre := if nogroup_first b o then leading_none o else [] in
  let fe0 := map cpy pre in
  let fe1 := merge_runs (rev pre) (skipn (length pre) o) None b fe0 in
  add_new b true o fe1.

Definition groups_of (es : list entry) : list str :=
  fold_left (fun gs e => intern gs (e_group e)) es [].

(* econf_mergeFiles on two objects *)
Definition merge_model (b o : keyfile) : keyfile :=
  let es := merge_entries (kf_entries b) (kf_entries o) in
  mkKF es 0 (groups_of es) (kf_delim b) (kf_comment b) None false false [] [] None.
