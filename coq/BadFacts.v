(* BadFacts.v — C13: a malformed line stops the parser with its specific
   error code, and the file-level statement about the first malformed line
   after a well-formed prefix. *)
From Coq Require Import String Lia List.
From Econf Require Import Bytes BytesFacts Grammar CommentLoop LineBase KeyLineN ParserFacts ParserFile BadLines.
Local Open Scope N_scope.

(* ---------- small facts ---------- *)
Lemma bad_plain_facts cm s : plain_text cm s = true ->
  forallb tb s = true /\ free_of cm s = true /\ free_of [34] s = true /\
  nonzero s = true /\ no_nl s = true.
Proof.
  unfold plain_text. intros H.
  assert (Htb : forallb tb s = true).
  { eapply forallb_impl; [|exact H]. intros x Hx. cbv beta in Hx.
    apply andb_true_iff in Hx as [Hx _]. now apply andb_true_iff in Hx as [Hx _]. }
  split; [exact Htb|]. split.
  { unfold free_of. eapply forallb_impl; [|exact H]. intros x Hx. cbv beta in Hx.
    apply andb_true_iff in Hx as [Hx _]. now apply andb_true_iff in Hx as [_ Hx]. }
  split.
  { apply kn_free34. eapply forallb_impl; [|exact H]. intros x Hx. cbv beta in Hx.
    now apply andb_true_iff in Hx as [_ Hx]. }
  split; [now apply nonzero_tb|now apply no_nl_tb].
Qed.

Lemma bad_key_facts dl cm k : wf_key dl cm k = true ->
  (exists k0 k', k = k0 :: k' /\ k0 <> 91 /\ tchar k0 = true) /\
  forallb (fun x => negb (key_stop dl x)) k = true /\
  free_of cm k = true /\ free_of [34] k = true /\ nonzero k = true.
Proof.
  unfold wf_key. intros H. apply andb_true_iff in H as [H0 H].
  split.
  { destruct k as [|k0 k']; [discriminate|]. exists k0, k'. split; [reflexivity|].
    apply negb_true_iff in H0. apply N.eqb_neq in H0. split; [exact H0|].
    cbn [forallb] in H. apply andb_true_iff in H as [H _].
    apply andb_true_iff in H as [H _]. apply andb_true_iff in H as [H _].
    now apply andb_true_iff in H as [H _]. }
  split.
  { eapply forallb_impl; [|exact H]. intros x Hx. cbv beta in Hx.
    apply andb_true_iff in Hx as [Hx _]. apply andb_true_iff in Hx as [Hx _].
    apply andb_true_iff in Hx as [Hx H1].
    unfold key_stop. rewrite (tchar_not_space x Hx). apply negb_true_iff in H1. now rewrite H1. }
  split.
  { unfold free_of. eapply forallb_impl; [|exact H]. intros x Hx. cbv beta in Hx.
    apply andb_true_iff in Hx as [Hx _]. now apply andb_true_iff in Hx as [_ Hx]. }
  split.
  { apply kn_free34. eapply forallb_impl; [|exact H]. intros x Hx. cbv beta in Hx.
    now apply andb_true_iff in Hx as [_ Hx]. }
  unfold nonzero. eapply forallb_impl; [|exact H]. intros x Hx. cbv beta in Hx.
  apply andb_true_iff in Hx as [Hx _]. apply andb_true_iff in Hx as [Hx _].
  apply andb_true_iff in Hx as [Hx _]. now rewrite (tchar_nonzero x Hx).
Qed.

Lemma bad_cm_brackets cm : cm_ok cm = true -> mem 91 cm = false /\ mem 93 cm = false.
Proof.
  intros Hcm. split.
  - destruct (mem 91 cm) eqn:E; [|reflexivity].
    destruct (cm_ok_chars cm 91 Hcm E) as (_ & _ & H & _). congruence.
  - destruct (mem 93 cm) eqn:E; [|reflexivity].
    destruct (cm_ok_chars cm 93 Hcm E) as (_ & _ & _ & H). congruence.
Qed.

Lemma bad_with_cav s : p_cav s = None -> with_cav (bump s) None = bump s.
Proof.
  intros H. unfold with_cav, bump. cbn [p_rev p_groups p_cur p_cbk p_cav p_line]. now rewrite H.
Qed.

Lemma bad_drop_while_In (p : N -> bool) (x : N) (l : str) : In x (drop_while p l) -> In x l.
Proof.
  induction l as [|a l IH]; cbn [drop_while]; [auto|].
  destruct (p a); [|auto]. intros H. right. auto.
Qed.

Lemma bad_last_In (l : str) (d : N) : l <> [] -> In (last l d) l.
Proof.
  induction l as [|a l IH]; [congruence|]. intros _.
  destruct l as [|b l]; [left; reflexivity|]. right. apply IH. discriminate.
Qed.

(* ---------- from parse_line to the section / key-value code ---------- *)
Definition bad_dispatch {A} (F G : str -> A) (v : str) : A :=
  match v with 91 :: rest => F rest | vis => G vis end.

Lemma bad_dispatch_hit {A} (F G : str -> A) (r : str) : bad_dispatch F G (91 :: r) = F r.
Proof. reflexivity. Qed.

Lemma bad_dispatch_miss {A} (F G : str -> A) (c : N) (r : str) :
  c <> 91 -> bad_dispatch F G (c :: r) = G (c :: r).
Proof.
  intros H. unfold bad_dispatch. destruct c as [|p]; [reflexivity|].
  do 7 (destruct p as [p|p|]; try reflexivity). congruence.
Qed.

Lemma bad_line_entry dl cm prev s ind c r :
  cm_ok cm = true -> Inv prev s -> blanks ind = true ->
  nonzero (c :: r) = true -> free_of cm (c :: r) = true -> free_of [34] (c :: r) = true ->
  isspace c = false ->
  exists nm di, cstr nm = c :: r /\
   parse_line std_opts dl cm s ((ind ++ c :: r) ++ [10]) =
   bad_dispatch
     (fun rest => section_line (bump s) rest (p_line s + 1))
     (fun vis => if keys_only dl then
              PCont (store_new (bump s) vis (option_map (fun i => cstr (skipn i nm)) di) (p_line s + 1) false)
            else parse_kv std_opts dl cm (bump s) ((ind ++ c :: r) ++ [10]) (hd 0 (ind ++ c :: r)) vis)
     (cstr nm).
Proof.
  intros Hcm HI Hind Hnz Hfc Hfq Hsp.
  assert (Hmc : mem c cm = false).
  { rewrite free_of_cons in Hfc. apply andb_true_iff in Hfc as [Hfc _]. now apply negb_true_iff in Hfc. }
  rewrite (kn_to_entry dl cm s ind (c :: r) c r eq_refl Hind Hnz Hsp Hmc).
  rewrite parse_entry_unfold.
  destruct HI as [Hcav _]. change (p_cav (bump s)) with (p_cav s). rewrite Hcav.
  pose proof (comment_loop_plain_corrected_noquote_cm dl cm (c :: r) None) as L.
  cbn [render_tc] in L. rewrite app_nil_r in L.
  specialize (L ltac:(discriminate) Hnz Hfc Hfq (free_of_cm_zero cm Hcm) (free_of_cm_quote cm Hcm) eq_refl).
  destruct (comment_loop dl cm (c :: r) None) as [[nm di] cav]. destruct L as [Lv Lc].
  exists nm, di. split; [exact Lv|]. cbn zeta. subst cav. cbn [option_map].
  rewrite (bad_with_cav s Hcav). unfold bad_dispatch.
  change (p_line (bump s)) with (p_line s + 1). cbv beta zeta.
  generalize (cstr nm). intros v. destruct v as [|c' r']; [reflexivity|].
  destruct c' as [|p]; [reflexivity|].
  do 7 (destruct p as [p|p|]; try reflexivity).
Qed.

Lemma bad_section_no93 s rest line :
  (forall r, rev (rtrim rest) <> 93 :: r) ->
  section_line s rest line =
  if mem 93 rest then PStop ECONF_TEXT_AFTER_SECTION s else PStop ECONF_MISSING_BRACKET s.
Proof.
  intros H. unfold section_line. destruct (rev (rtrim rest)) as [|c r] eqn:E; [reflexivity|].
  destruct c as [|p]; [reflexivity|].
  do 7 (destruct p as [p|p|]; try reflexivity). exfalso. now apply (H r).
Qed.

(* the last byte of the junk after a section header *)
Lemma bad_junk cm junk :
  plain_text cm junk = true ->
  match junk with
  | [] => false
  | c :: _ => negb (isblank c) && negb (isblank (last junk 0)) && negb (last junk 0 =? 93)
  end = true ->
  exists j' x, junk = j' ++ [x] /\ isspace x = false /\ x <> 93.
Proof.
  intros Hp H. destruct junk as [|c0 j]; [discriminate|].
  apply andb_true_iff in H as [H H93]. apply andb_true_iff in H as [_ Hb].
  remember (c0 :: j) as junk eqn:Ej.
  assert (Hne : junk <> []) by (subst; discriminate).
  exists (removelast junk), (last junk 0). split; [now apply app_removelast_last|].
  destruct (bad_plain_facts cm junk Hp) as (Htb & _).
  rewrite forallb_forall in Htb. specialize (Htb _ (bad_last_In junk 0 Hne)).
  apply negb_true_iff in Hb. split; [now apply kn_tb_nonblank_nospace|].
  apply negb_true_iff in H93. now apply N.eqb_neq in H93.
Qed.

(* ---------- the four kinds of malformed lines ---------- *)
Lemma bad_nobracket_stop dl cm prev s ind text :
  cm_ok cm = true -> wf_bad dl cm prev (BadNoBracket ind text) = true -> Inv prev s ->
  parse_line std_opts dl cm s (render_bad (BadNoBracket ind text) ++ [10]) =
  PStop ECONF_MISSING_BRACKET (bump s).
Proof.
  intros Hcm Hwf HI. cbn [wf_bad] in Hwf.
  apply andb_true_iff in Hwf as [Hwf H93]. apply andb_true_iff in Hwf as [Hind Htext].
  apply negb_true_iff in H93.
  destruct (bad_plain_facts cm text Htext) as (_ & Hf1 & Hf2 & Hnz & _).
  destruct (bad_cm_brackets cm Hcm) as [E91 E93].
  cbn [render_bad].
  destruct (bad_line_entry dl cm prev s ind 91 text Hcm HI Hind) as (nm & di & Lv & E).
  { rewrite nonzero_cons, Hnz. reflexivity. }
  { rewrite free_of_cons, E91, Hf1. reflexivity. }
  { rewrite free_of_cons, Hf2. reflexivity. }
  { reflexivity. }
  rewrite E, Lv, bad_dispatch_hit.
  rewrite bad_section_no93.
  - now rewrite H93.
  - intros r Er. unfold rtrim in Er. rewrite rev_involutive in Er.
    assert (Hin : In 93 text).
    { apply in_rev. apply (bad_drop_while_In isspace). rewrite Er. left. reflexivity. }
    apply mem_In in Hin. congruence.
Qed.

Lemma bad_textafter_stop dl cm prev s ind name post junk :
  cm_ok cm = true -> wf_bad dl cm prev (BadTextAfter ind name post junk) = true -> Inv prev s ->
  parse_line std_opts dl cm s (render_bad (BadTextAfter ind name post junk) ++ [10]) =
  PStop ECONF_TEXT_AFTER_SECTION (bump s).
Proof.
  intros Hcm Hwf HI. cbn [wf_bad] in Hwf.
  apply andb_true_iff in Hwf as [Hwf Hj]. apply andb_true_iff in Hwf as [Hwf Hjunk].
  apply andb_true_iff in Hwf as [Hwf Hpost]. apply andb_true_iff in Hwf as [Hind Hname].
  destruct (bad_plain_facts cm name Hname) as (_ & Hn1 & Hn2 & Hnnz & _).
  destruct (bad_plain_facts cm junk Hjunk) as (_ & Hj1 & Hj2 & Hjnz & _).
  destruct (bad_cm_brackets cm Hcm) as [E91 E93].
  cbn [render_bad].
  destruct (bad_line_entry dl cm prev s ind 91 (name ++ 93 :: post ++ junk) Hcm HI Hind) as (nm & di & Lv & E).
  { rewrite nonzero_cons, nonzero_app, Hnnz, nonzero_cons, nonzero_app,
      (nonzero_blanks post Hpost), Hjnz. reflexivity. }
  { rewrite free_of_cons, E91, free_of_app, Hn1, free_of_cons, E93, free_of_app,
      (free_of_cm_blanks cm post Hcm Hpost), Hj1. reflexivity. }
  { rewrite free_of_cons, free_of_app, Hn2, free_of_cons, free_of_app,
      (free_quote_blanks post Hpost), Hj2. reflexivity. }
  { reflexivity. }
  rewrite E, Lv, bad_dispatch_hit.
  destruct (bad_junk cm junk Hjunk Hj) as (j' & x & Ej & Hxs & Hx93).
  rewrite bad_section_no93.
  - replace (mem 93 (name ++ 93 :: post ++ junk)) with true; [reflexivity|].
    symmetry. apply mem_In. apply in_or_app. right. left. reflexivity.
  - intros r Er. subst junk.
    replace (name ++ 93 :: post ++ j' ++ [x]) with ((name ++ 93 :: post ++ j') ++ x :: []) in Er.
    2:{ rewrite <- app_assoc. cbn [app]. rewrite <- app_assoc. reflexivity. }
    rewrite (rtrim_app_stop _ x [] Hxs eq_refl) in Er. rewrite rev_unit in Er.
    injection Er as Ex _. contradiction.
Qed.

Lemma bad_emptyname_stop dl cm prev s ind post :
  cm_ok cm = true -> wf_bad dl cm prev (BadEmptyName ind post) = true -> Inv prev s ->
  parse_line std_opts dl cm s (render_bad (BadEmptyName ind post) ++ [10]) =
  PStop ECONF_EMPTY_SECTION_NAME (bump s).
Proof.
  intros Hcm Hwf HI. cbn [wf_bad] in Hwf. apply andb_true_iff in Hwf as [Hind Hpost].
  destruct (bad_cm_brackets cm Hcm) as [E91 E93].
  cbn [render_bad].
  destruct (bad_line_entry dl cm prev s ind 91 (93 :: post) Hcm HI Hind) as (nm & di & Lv & E).
  { rewrite !nonzero_cons, (nonzero_blanks post Hpost). reflexivity. }
  { rewrite !free_of_cons, E91, E93, (free_of_cm_blanks cm post Hcm Hpost). reflexivity. }
  { rewrite !free_of_cons, (free_quote_blanks post Hpost). reflexivity. }
  { reflexivity. }
  rewrite E, Lv, bad_dispatch_hit.
  unfold section_line.
  pose proof (rtrim_app_stop [] 93 post eq_refl (blanks_isspace post Hpost)) as R.
  cbn [app] in R. rewrite R. reflexivity.
Qed.

Lemma bad_nodelim_stop dl cm prev s ind key b1 text :
  cm_ok cm = true -> dl_ok dl cm = true ->
  wf_bad dl cm prev (BadNoDelim ind key b1 text) = true -> Inv prev s ->
  parse_line std_opts dl cm s (render_bad (BadNoDelim ind key b1 text) ++ [10]) =
  PStop ECONF_MISSING_DELIMITER (bump s).
Proof.
  intros Hcm Hdl Hwf HI. cbn [wf_bad] in Hwf.
  apply andb_true_iff in Hwf as [Hwf Hcont]. apply andb_true_iff in Hwf as [Hwf Ht0].
  apply andb_true_iff in Hwf as [Hwf Htext]. apply andb_true_iff in Hwf as [Hwf Hb1ne].
  apply andb_true_iff in Hwf as [Hwf Hb1]. apply andb_true_iff in Hwf as [Hwf Hkey].
  apply andb_true_iff in Hwf as [Hcls Hind].
  assert (Ecls : class_of dl = ClassN) by (destruct (class_of dl); try discriminate; reflexivity).
  clear Hcls. destruct (kn_classN dl Ecls) as [Hwsp Hmix].
  destruct (bad_key_facts dl cm key Hkey) as ((k0 & key' & Ek & Hk91 & Hk0t) & Hks & Hk1 & Hk2 & Hknz).
  destruct (bad_plain_facts cm text Htext) as (Httb & Ht1 & Ht2 & Htnz & _).
  destruct b1 as [|x b1']; [discriminate|]. clear Hb1ne.
  destruct text as [|t0 text']; [discriminate|].
  apply andb_true_iff in Ht0 as [Ht0b Ht0m].
  apply negb_true_iff in Ht0b. apply negb_true_iff in Ht0m.
  assert (Ht0s : isspace t0 = false).
  { apply kn_tb_nonblank_nospace; [|exact Ht0b]. cbn [forallb] in Httb.
    now apply andb_true_iff in Httb as [Httb _]. }
  pose proof Hb1 as Hb1'. unfold blanks in Hb1'. cbn [forallb] in Hb1'.
  apply andb_true_iff in Hb1' as [Hx Hb1'].
  pose proof (isblank_isspace x Hx) as Hxs.
  pose proof (kn_space_notmem dl x Hwsp Hxs) as Hxm.
  assert (Hb1m : existsb (fun c => mem c dl) b1' = false).
  { clear -Hb1' Hwsp. induction b1' as [|y b IH]; [reflexivity|]. cbn [forallb] in Hb1'.
    apply andb_true_iff in Hb1' as [Hy Hb]. cbn [existsb].
    rewrite (kn_space_notmem dl y Hwsp (isblank_isspace y Hy)). cbn [orb]. now apply IH. }
  set (T := t0 :: text') in *.
  cbn [render_bad].
  assert (Epre : key ++ (x :: b1') ++ T = k0 :: (key' ++ (x :: b1') ++ T)) by (rewrite Ek; reflexivity).
  rewrite Epre.
  destruct (bad_line_entry dl cm prev s ind k0 (key' ++ (x :: b1') ++ T) Hcm HI Hind) as (nm & di & Lv & E).
  { rewrite <- Epre, !nonzero_app, Hknz, (nonzero_blanks _ Hb1), Htnz. reflexivity. }
  { rewrite <- Epre, !free_of_app, Hk1, (free_of_cm_blanks cm _ Hcm Hb1), Ht1. reflexivity. }
  { rewrite <- Epre, !free_of_app, Hk2, (free_quote_blanks _ Hb1), Ht2. reflexivity. }
  { now apply tchar_not_space. }
  rewrite E, Lv, bad_dispatch_miss by exact Hk91.
  rewrite (keys_only_class dl cm Hdl), Ecls.
  rewrite <- Epre.
  change (key ++ (x :: b1') ++ T) with (key ++ x :: (b1' ++ T)).
  assert (Hkne : key <> []) by (rewrite Ek; discriminate).
  rewrite (kn_parse_kv_shape dl cm (bump s) _ _ key x (b1' ++ T) Hkne Hks)
    by (unfold key_stop; now rewrite Hxs || exact Hmix).
  rewrite Hxm, Hwsp, existsb_app, Hb1m. cbn [orb].
  change (p_line (bump s)) with (p_line s + 1).
  rewrite (last_line_is_inv prev s HI).
  assert (Hc : negb (existsb (fun x0 => mem x0 dl) T) && prev = false).
  { apply orb_true_iff in Hcont as [Hp|He].
    - apply negb_true_iff in Hp. rewrite Hp. apply andb_false_r.
    - rewrite He. reflexivity. }
  rewrite Hc.
  rewrite kn_value_of_unseen by (unfold T; destruct b1'; discriminate).
  unfold T. rewrite (drop_blanks_then b1' text' t0 Hb1' Ht0s). rewrite Ht0m. reflexivity.
Qed.

(* a malformed line stops the parser with its specific code, in every state the invariant allows *)
Lemma bad_line_stop dl cm prev s b :
  cm_ok cm = true -> dl_ok dl cm = true -> wf_bad dl cm prev b = true -> Inv prev s ->
  parse_line std_opts dl cm s (render_bad b ++ [10]) = PStop (bad_code b) (bump s).
Proof.
  intros Hcm Hdl Hwf HI. destruct b as [ind text|ind name post junk|ind post|ind key b1 text]; cbn [bad_code].
  - now apply (bad_nobracket_stop dl cm prev).
  - now apply (bad_textafter_stop dl cm prev).
  - now apply (bad_emptyname_stop dl cm prev).
  - now apply (bad_nodelim_stop dl cm prev).
Qed.

(* ---------- the invariant after a well-formed prefix ---------- *)

(* whether the last line of a list is a key or continuation line *)
Definition last_is_entry (ls : list cline) : bool :=
  match rev ls with l :: _ => is_entry_line l | [] => false end.

Lemma bad_last_is_entry_cons l ls :
  last_is_entry (l :: ls) = match ls with [] => is_entry_line l | _ => last_is_entry ls end.
Proof.
  destruct ls as [|a ls']; [reflexivity|].
  unfold last_is_entry. change (rev (l :: a :: ls')) with (rev (a :: ls') ++ [l]).
  destruct (rev (a :: ls')) as [|x r] eqn:E; [|reflexivity].
  cbn [rev] in E. apply app_eq_nil in E as [_ E]. discriminate.
Qed.

Lemma lines_inv dl cm : cm_ok cm = true -> dl_ok dl cm = true ->
  forall ls prev s, wf_lines dl cm prev ls = true -> Inv prev s ->
  Inv (match ls with [] => prev | _ => last_is_entry ls end) (fold_left (exp_step dl) ls s).
Proof.
  intros Hcm Hdl. induction ls as [|l ls IH]; intros prev s Hwf HI; [exact HI|].
  cbn [wf_lines] in Hwf. apply andb_true_iff in Hwf as [Hl Hls].
  destruct (line_ok dl cm prev s l Hcm Hdl Hl HI) as [_ HI'].
  cbn [fold_left]. rewrite bad_last_is_entry_cons.
  now apply (IH (is_entry_line l)).
Qed.

(* ---------- file level ---------- *)
Lemma bad_no_nl dl cm prev b : wf_bad dl cm prev b = true -> no_nl (render_bad b) = true.
Proof.
  intros Hwf. destruct b as [ind text|ind name post junk|ind post|ind key b1 text];
    cbn [wf_bad] in Hwf; cbn [render_bad].
  - apply andb_true_iff in Hwf as [Hwf _]. apply andb_true_iff in Hwf as [Hind Htext].
    destruct (bad_plain_facts cm text Htext) as (_ & _ & _ & _ & Hn).
    rewrite no_nl_app, no_nl_cons, (no_nl_blanks _ Hind), Hn. reflexivity.
  - apply andb_true_iff in Hwf as [Hwf _]. apply andb_true_iff in Hwf as [Hwf Hjunk].
    apply andb_true_iff in Hwf as [Hwf Hpost]. apply andb_true_iff in Hwf as [Hind Hname].
    destruct (bad_plain_facts cm name Hname) as (_ & _ & _ & _ & Hn).
    destruct (bad_plain_facts cm junk Hjunk) as (_ & _ & _ & _ & Hj).
    rewrite no_nl_app, no_nl_cons, no_nl_app, no_nl_cons, no_nl_app,
      (no_nl_blanks _ Hind), Hn, (no_nl_blanks _ Hpost), Hj. reflexivity.
  - apply andb_true_iff in Hwf as [Hind Hpost].
    rewrite no_nl_app, !no_nl_cons, (no_nl_blanks _ Hind), (no_nl_blanks _ Hpost). reflexivity.
  - apply andb_true_iff in Hwf as [Hwf _]. apply andb_true_iff in Hwf as [Hwf _].
    apply andb_true_iff in Hwf as [Hwf Htext]. apply andb_true_iff in Hwf as [Hwf _].
    apply andb_true_iff in Hwf as [Hwf Hb1]. apply andb_true_iff in Hwf as [Hwf Hkey].
    apply andb_true_iff in Hwf as [_ Hind].
    destruct (bad_plain_facts cm text Htext) as (_ & _ & _ & _ & Hn).
    rewrite !no_nl_app, (no_nl_blanks _ Hind), (wf_key_no_nl dl cm _ Hkey), (no_nl_blanks _ Hb1), Hn.
    reflexivity.
Qed.

Lemma bad_lines_of pre :
  forallb (fun l => no_nl (render_body l)) pre = true ->
  forall body rest, no_nl body = true ->
  lines_of (render pre ++ body ++ 10 :: rest) = map render_line pre ++ (body ++ [10]) :: lines_of rest.
Proof.
  unfold lines_of, render. induction pre as [|l ls IH]; intros H body rest Hb.
  - cbn [map concat app]. rewrite lines_aux_line by exact Hb. reflexivity.
  - cbn [forallb] in H. apply andb_true_iff in H as [Hl Hls].
    cbn [map concat]. unfold render_line at 1. rewrite <- !app_assoc. cbn [app].
    rewrite lines_aux_line by exact Hl. cbn [rev app]. f_equal. now apply IH.
Qed.

Lemma bad_read_lines_app o dl cm l1 : forall s l2,
  read_lines o dl cm s (l1 ++ l2) =
  match read_lines o dl cm s l1 with
  | PCont s' => read_lines o dl cm s' l2
  | PStop e s' => PStop e s'
  end.
Proof.
  induction l1 as [|l l1 IH]; intros s l2; cbn [app read_lines]; [reflexivity|].
  destruct (parse_line o dl cm s l); [apply IH|reflexivity].
Qed.

(* file level: the first malformed line after a well-formed prefix, whatever follows it *)
Theorem parse_error_at dl cm pre b rest :
  wf_file dl cm pre = true -> wf_bad dl cm (last_is_entry pre) b = true ->
  r_err (read_bytes std_opts dl cm (render pre ++ render_bad b ++ 10 :: rest)) = bad_code b /\
  r_lines (read_bytes std_opts dl cm (render pre ++ render_bad b ++ 10 :: rest)) = N.of_nat (length pre) + 1.
Proof.
  unfold wf_file. intros H Hb. apply andb_true_iff in H as [H Hwf]. apply andb_true_iff in H as [Hcm Hdl].
  pose proof (wf_lines_no_nl dl cm Hcm Hdl pre false Hwf) as Hnl.
  pose proof (lines_ok dl cm Hcm Hdl pre false init_pstate Hwf Inv_init) as Hrd.
  pose proof (lines_inv dl cm Hcm Hdl pre false init_pstate Hwf Inv_init) as HI.
  pose proof (expected_line_wf dl cm pre false init_pstate Hwf ltac:(discriminate)) as Hln.
  change (p_line init_pstate) with 0 in Hln. rewrite N.add_0_l in Hln.
  assert (HI' : Inv (last_is_entry pre) (fold_left (exp_step dl) pre init_pstate)).
  { destruct pre; exact HI. }
  pose proof (bad_line_stop dl cm _ _ b Hcm Hdl Hb HI') as Hstop.
  unfold read_bytes.
  rewrite (bad_lines_of pre Hnl (render_bad b) rest (bad_no_nl dl cm _ b Hb)).
  destruct cm as [|c0 cm']; [discriminate|].
  rewrite bad_read_lines_app, Hrd. cbn [read_lines]. rewrite Hstop.
  cbn [r_err r_lines]. split; [reflexivity|].
  unfold bump. cbn [p_line]. now rewrite Hln.
Qed.
