(* NumericModel.v — the integer setters and getters of lib/keyfile.c.
   glibc's strtol/strtoul family with base 0 and printf's %d/%u family are
   written out; the floating-point conversions are an oracle (not modelled). *)
From Coq Require Import String.
From Econf Require Export KeyfileModel.
Local Open Scope Z_scope.

(* ---------- printing: what "%" PRId64 / PRIu64 produce ---------- *)

Definition digit_char (d : Z) : N := Z.to_N (48 + d).

(* digits of a non-negative number, most significant first; fuel = number of
   binary digits bounds the number of decimal digits *)
Fixpoint dec_digits (fuel : nat) (z : Z) (acc : str) : str :=
  match fuel with
  | O => acc
  | S f => let acc' := digit_char (z mod 10) :: acc in
           if z / 10 =? 0 then acc' else dec_digits f (z / 10) acc'
  end.

Definition fmt_nat (z : Z) : str := dec_digits (S (Z.to_nat (Z.log2 z))) z [].
Definition fmt_dec (z : Z) : str := if z <? 0 then 45%N :: fmt_nat (- z) else fmt_nat z.

(* ---------- parsing: strtol / strtoul with base 0 ---------- *)

Definition digit_val (c : N) : option Z :=
  if isdigit c then Some (Z.of_N c - 48)
  else if ((97 <=? c) && (c <=? 122))%N then Some (Z.of_N c - 87)
  else if ((65 <=? c) && (c <=? 90))%N then Some (Z.of_N c - 55)
  else None.

Definition digit_in (base : Z) (c : N) : option Z :=
  match digit_val c with
  | Some d => if d <? base then Some d else None
  | None => None
  end.

(* consume digits of the base; returns the value and whether any digit was seen *)
Fixpoint parse_digits (base : Z) (s : str) (acc : Z) (seen : bool) : Z * bool :=
  match s with
  | [] => (acc, seen)
  | c :: s' => match digit_in base c with
               | Some d => parse_digits base s' (acc * base + d) true
               | None => (acc, seen)
               end
  end.

Record strto_res := mkStrto { st_neg : bool; st_mag : Z }.

(* None: no conversion performed (endptr == nptr) *)
Definition strto (s : str) : option strto_res :=
  let s1 := drop_while isspace s in
  let '(neg, s2) := match s1 with
                    | 45%N :: r => (true, r)
                    | 43%N :: r => (false, r)
                    | _ => (false, s1)
                    end in
  match s2 with
  | 48%N :: x :: r =>
      if ((x =? 120) || (x =? 88))%N then
        match r with
        | h :: _ => match digit_in 16 h with
                    | Some _ => Some (mkStrto neg (fst (parse_digits 16 r 0 false)))
                    | None => Some (mkStrto neg 0)      (* just the "0" *)
                    end
        | [] => Some (mkStrto neg 0)
        end
      else Some (mkStrto neg (fst (parse_digits 8 (x :: r) 0 true)))
  | [48%N] => Some (mkStrto neg 0)
  | _ => let '(v, seen) := parse_digits 10 s2 0 false in
         if seen then Some (mkStrto neg v) else None
  end.

Definition signed_val (r : strto_res) : Z := if st_neg r then - st_mag r else st_mag r.

(* keyfile.c getters, after the range repair.  A NULL value is refused first. *)
Definition get_signed_text (bits : Z) (v : option str) : econf_err + Z :=
  match v with
  | None => inl ECONF_KEY_HAS_NULL_VALUE
  | Some s =>
      match strto s with
      | None => inl ECONF_VALUE_CONVERSION_ERROR
      | Some r =>
          let z := signed_val r in
          (* strtol/strtoll: ERANGE outside the 64-bit range *)
          if (z <? - 2 ^ 63) || (2 ^ 63 <=? z) then inl ECONF_VALUE_CONVERSION_ERROR
          else if (z <? - 2 ^ (bits - 1)) || (2 ^ (bits - 1) <=? z) then inl ECONF_VALUE_CONVERSION_ERROR
          else inr z
      end
  end.

Definition get_unsigned_text (bits : Z) (v : option str) : econf_err + Z :=
  match v with
  | None => inl ECONF_KEY_HAS_NULL_VALUE
  | Some s =>
      match strto s with
      | None => inl ECONF_VALUE_CONVERSION_ERROR
      | Some r =>
          let m := st_mag r in
          if 2 ^ 64 <=? m then inl ECONF_VALUE_CONVERSION_ERROR        (* ERANGE *)
          else if st_neg r && negb (m =? 0) then inl ECONF_VALUE_CONVERSION_ERROR
          else if 2 ^ bits <=? m then inl ECONF_VALUE_CONVERSION_ERROR
          else inr m
      end
  end.

Definition get_int (kf : keyfile) (g k : option str) : econf_err + Z :=
  match lookup kf g k with inl e => inl e | inr e => get_signed_text 32 (e_value e) end.
Definition get_int64 (kf : keyfile) (g k : option str) : econf_err + Z :=
  match lookup kf g k with inl e => inl e | inr e => get_signed_text 64 (e_value e) end.
Definition get_uint (kf : keyfile) (g k : option str) : econf_err + Z :=
  match lookup kf g k with inl e => inl e | inr e => get_unsigned_text 32 (e_value e) end.
Definition get_uint64 (kf : keyfile) (g k : option str) : econf_err + Z :=
  match lookup kf g k with inl e => inl e | inr e => get_unsigned_text 64 (e_value e) end.

(* the integer setters: the caller passes a value of the C type, so the
   model takes it already reduced to that type's range *)
Definition set_int_text (z : Z) : setres := SetTo (fmt_dec z).

(* ---------- floating point: only "does strtof/strtod convert anything" ----------
   glibc: optional blanks, optional sign, then a decimal or hexadecimal number
   (at least one digit, possibly after a '.'), or inf/infinity/nan in any case. *)
Definition strtod_converts (s : str) : bool :=
  let s1 := drop_while isspace s in
  let s2 := match s1 with
            | 45%N :: r => r
            | 43%N :: r => r
            | _ => s1
            end in
  match s2 with
  | c :: r =>
      if isdigit c then true
      else if (c =? 46)%N then match r with d :: _ => isdigit d | [] => false end
      else is_prefix (bs "inf") (lower (firstn 3 s2)) || is_prefix (bs "nan") (lower (firstn 3 s2))
  | [] => false
  end.

Definition get_float_text (v : option str) : econf_err + str :=
  match v with
  | None => inl ECONF_KEY_HAS_NULL_VALUE
  | Some s => if strtod_converts s then inr s else inl ECONF_VALUE_CONVERSION_ERROR
  end.
