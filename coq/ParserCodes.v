From Coq Require Import String Lia List. From Econf Require Import Bytes BytesFacts ParserModel. Local Open Scope N_scope.

Definition parse_code (e : econf_err) : bool :=
  match e with
  | ECONF_MISSING_BRACKET | ECONF_MISSING_DELIMITER | ECONF_EMPTY_SECTION_NAME | ECONF_TEXT_AFTER_SECTION => true
  | _ => false
  end.

(* result-level predicates *)
Definition res_ok (r : presult) : Prop :=
  match r with PCont _ => True | PStop e _ => parse_code e = true end.

Definition res_line (n : N) (r : presult) : Prop :=
  match r with PCont s' => p_line s' = n | PStop _ s' => p_line s' = n end.

(* the compiled match on the leading '[' *)
Lemma match91 : forall (A : Type) (vis : list N) (f : list N -> A) (g : A),
  (exists rest, vis = 91 :: rest /\
     match vis with 91 :: rest => f rest | _ => g end = f rest) \/
  match vis with 91 :: rest => f rest | _ => g end = g.
Proof.
  intros A vis f g.
  destruct vis as [|c r]; [right; reflexivity|].
  destruct c as [|p]; [right; reflexivity|].
  do 7 (try (destruct p as [p|p|]; try (right; reflexivity))).
  left. eexists. split; reflexivity.
Qed.


Lemma section_line_both : forall s rest line,
  res_ok (section_line s rest line) /\
  (p_line s = line -> res_line line (section_line s rest line)).
Proof.
  intros s rest line. unfold section_line.
  destruct (rev (rtrim rest)) as [|c r].
  { destruct (mem 93 rest); simpl; auto. }
  destruct c as [|p].
  { destruct (mem 93 rest); simpl; auto. }
  do 7 (try (destruct p as [p|p|]; try (destruct (mem 93 rest); simpl; solve [auto]))).
  destruct (rev r); simpl; auto.
Qed.

Lemma section_line_codes : forall s rest line, res_ok (section_line s rest line).
Proof. intros. apply section_line_both. Qed.

Lemma value_of_codes : forall dl mixed dwsp ds d0 e,
  value_of dl mixed dwsp ds d0 = inl e -> e = ECONF_MISSING_DELIMITER.
Proof.
  intros dl mixed dwsp ds d0 e. unfold value_of.
  destruct d0 as [|c0 r0]; [discriminate|].
  set (d1 := drop_while isspace (c0 :: r0)).
  match goal with |- match ?d2 with inl _ => _ | inr _ => _ end = _ -> _ =>
    assert (Hd2 : forall e', d2 = inl e' -> e' = ECONF_MISSING_DELIMITER);
    [| destruct d2 as [e2|d] ] end.
  { intros e'.
    destruct (negb dwsp && negb ds).
    - destruct d1 as [|c r]; [intros H; inversion H; reflexivity|].
      destruct (mem c dl); intros H; inversion H; reflexivity.
    - destruct (mixed && negb ds).
      + destruct d1 as [|c r]; [discriminate|]. destruct (mem c dl); discriminate.
      + discriminate. }
  - intros H; inversion H; subst. apply Hd2. reflexivity.
  - clear Hd2. intros H. exfalso. revert H.
    destruct d as [|c r]; [discriminate|].
    destruct c as [|p]; [discriminate|].
    do 7 (try (destruct p as [p|p|]; try discriminate)).
    destruct (rev (key_trim r)) as [|c' r']; [discriminate|].
    destruct c' as [|p]; [discriminate|].
    do 7 (try (destruct p as [p|p|]; try discriminate)).
Qed.

Lemma store_append_line : forall py s v line,
  p_line s = line -> p_line (store_append py s v line) = line.
Proof.
  intros py s v line H. unfold store_append.
  destruct (p_rev s); [exact H| reflexivity].
Qed.

Lemma parse_kv_both : forall o dl cm s org b0 vis,
  res_ok (parse_kv o dl cm s org b0 vis) /\
  res_line (p_line s) (parse_kv o dl cm s org b0 vis).
Proof.
  intros o dl cm s org b0 vis. unfold parse_kv.
  match goal with |- context [if ?c then PCont _ else _] => destruct c end.
  { split; simpl; auto. apply store_append_line; reflexivity. }
  destruct (take_while (fun x => negb (key_stop dl x)) vis) as [|k0 k] eqn:Hk.
  { split; simpl; auto. }
  match goal with |- context [value_of ?a ?b ?c ?d ?e] =>
    destruct (value_of a b c d e) as [e1|[v q]] eqn:Hv end.
  - apply value_of_codes in Hv. subst. split; simpl; auto.
  - split; simpl; auto.
Qed.

Lemma parse_entry_both : forall o dl cm s org b0 name,
  res_ok (parse_entry o dl cm s org b0 name) /\
  res_line (p_line s) (parse_entry o dl cm s org b0 name).
Proof.
  intros o dl cm s org b0 name. unfold parse_entry.
  destruct (if o_python o then (name, None, p_cav s)
            else fold_left (fun st c => comment_step dl c st) cm (name, None, p_cav s))
    as [[nm di] cav].
  match goal with |- context [match cstr nm with [] => ?g | _ => _ end] =>
    destruct (match91 presult (cstr nm)
                (fun rest => section_line (with_cav s cav) rest (p_line s)) g) as [[rest [_ H]]|H]
  end.
  - cbv beta in H. rewrite H.
    destruct (section_line_both (with_cav s cav) rest (p_line s)) as [H1 H2].
    split; [exact H1 | apply H2; reflexivity].
  - rewrite H. destruct (keys_only dl).
    + split; simpl; auto.
    + apply (parse_kv_both o dl cm (with_cav s cav) org b0 (cstr nm)).
Qed.

Lemma parse_blanks_cont : forall o dl cm s org,
  exists s', parse_blanks o dl cm s org = PCont s' /\ p_line s' = p_line s.
Proof.
  intros. unfold parse_blanks.
  destruct (keys_only dl); [eexists; split; reflexivity|].
  destruct (is_mixed dl); [eexists; split; reflexivity|].
  destruct (last_line_is s (p_line s)); [|eexists; split; reflexivity].
  eexists; split; [reflexivity|]. apply store_append_line; reflexivity.
Qed.

Lemma parse_line_both : forall o dl cm s raw,
  res_ok (parse_line o dl cm s raw) /\
  res_line (p_line s + 1) (parse_line o dl cm s raw).
Proof.
  intros o dl cm s raw. unfold parse_line.
  destruct (removelast_nl (cstr raw)) as [|b0 buf'].
  { split; simpl; auto. }
  destruct (drop_while isspace (b0 :: buf')) as [|c ctext].
  - destruct (parse_blanks_cont o dl cm (bump s) (cstr raw)) as [s' [H1 H2]].
    rewrite H1. split; simpl; auto.
  - destruct (mem c cm).
    + split; simpl; auto.
    + apply (parse_entry_both o dl cm (bump s) (cstr raw) b0 (c :: ctext)).
Qed.

Theorem parse_line_codes : forall o dl cm s raw e s',
  parse_line o dl cm s raw = PStop e s' -> parse_code e = true.
Proof.
  intros o dl cm s raw e s' H.
  pose proof (proj1 (parse_line_both o dl cm s raw)) as H1.
  rewrite H in H1. exact H1.
Qed.

Theorem read_lines_codes : forall o dl cm ls s e s',
  read_lines o dl cm s ls = PStop e s' -> parse_code e = true.
Proof.
  intros o dl cm ls. induction ls as [|l ls IH]; intros s e s' H.
  - discriminate.
  - cbn [read_lines] in H.
    destruct (parse_line o dl cm s l) as [s1|e1 s1] eqn:Hp.
    + eapply IH; eassumption.
    + inversion H; subst. eapply parse_line_codes; eassumption.
Qed.

Theorem read_bytes_codes : forall o dl cm content,
  r_err (read_bytes o dl cm content) = ECONF_SUCCESS \/ parse_code (r_err (read_bytes o dl cm content)) = true.
Proof.
  intros o dl cm content. unfold read_bytes.
  match goal with |- context [read_lines ?a ?b ?c ?d ?e] =>
    destruct (read_lines a b c d e) as [s1|e1 s1] eqn:Hr end.
  - left. reflexivity.
  - right. cbn [r_err]. eapply read_lines_codes; eassumption.
Qed.

Theorem parse_line_counts : forall o dl cm s raw,
  match parse_line o dl cm s raw with
  | PCont s' => p_line s' = p_line s + 1
  | PStop _ s' => p_line s' = p_line s + 1
  end.
Proof.
  intros. exact (proj2 (parse_line_both o dl cm s raw)).
Qed.

