(* PathFacts.v — the name a file is recorded and reported under is absolute,
   and resolving it again changes nothing (C13/C17: the reported location names
   the file that was read, whatever the spelling the caller used). *)
From Coq Require Import String Lia List.
From Econf Require Import Bytes BytesFacts LayeredModel.
Local Open Scope N_scope.

Definition is_abs (p : str) : bool := match p with 47 :: _ => true | _ => false end.

Lemma squeeze_abs p : is_abs (squeeze p) = true.
Proof.
  unfold squeeze. destruct (norm_comps (split_on 47 p) []) as [|c cs]; reflexivity.
Qed.

Lemma fs_resolve_abs t : forall fuel q, is_abs q = true -> is_abs (fs_resolve fuel t q) = true.
Proof.
  induction fuel as [|f IH]; intros q Hq; simpl.
  - destruct (str_eqb q dev_null); [exact Hq|].
    destruct (tlookup t q) as [[c u g|tg u g|u g]|]; exact Hq.
  - destruct (str_eqb q dev_null); [exact Hq|].
    destruct (tlookup t q) as [[c u g|tg u g|u g]|]; try exact Hq.
    apply IH. apply squeeze_abs.
Qed.

(* whatever the spelling, the recorded name is absolute *)
Lemma real_name_abs t p : is_abs (real_name t p) = true.
Proof.
  unfold real_name. destruct p as [|c p']; [apply fs_resolve_abs, squeeze_abs|].
  destruct (N.eq_dec c 47) as [->|Hn]; [reflexivity|].
  replace (match c with 47 => c :: p' | _ => fs_resolve 8 t (squeeze (c :: p')) end)
    with (fs_resolve 8 t (squeeze (c :: p'))).
  - apply fs_resolve_abs, squeeze_abs.
  - destruct c as [|q]; [reflexivity|]. do 6 (destruct q as [q|q|]; try reflexivity). congruence.
Qed.

(* ... and it is a fixed point: reading by the reported name reads that name *)
Lemma real_name_idem t p : real_name t (real_name t p) = real_name t p.
Proof.
  pose proof (real_name_abs t p) as H.
  destruct (real_name t p) as [|c r]; [discriminate|].
  unfold is_abs in H. unfold real_name at 1.
  destruct c as [|q]; [discriminate|]. do 6 (destruct q as [q|q|]; try discriminate). reflexivity.
Qed.
