(* PathFacts.v — the name a file is recorded and reported under is absolute,
   and resolving it again changes nothing (C13/C17: the reported location names
   the file that was read, whatever the spelling the caller used). *)
From Coq Require Import String Lia List.
From Econf Require Import Bytes BytesFacts LayeredModel.
From Econf Require Export CwdModel.
Local Open Scope N_scope.

Lemma squeeze_abs p : is_abs (squeeze p) = true.
Proof.
  unfold squeeze. destruct (norm_comps (split_on 47 p) []) as [|c cs]; reflexivity.
Qed.

Lemma fs_resolve_abs t : forall fuel q, is_abs q = true -> is_abs (fs_resolve fuel t q) = true.
Proof.
  induction fuel as [|f IH]; intros q Hq; simpl.
  - destruct (str_eqb q dev_null); [exact Hq|].
    destruct (tlookup t q) as [[c u g|tg u g|u g]|]; exact Hq.
  - destruct (str_eqb q dev_null); [exact Hq|].
    destruct (tlookup t q) as [[c u g|tg u g|u g]|]; try exact Hq.
    apply IH. apply squeeze_abs.
Qed.

(* whatever the spelling, the recorded name is absolute *)
Lemma real_name_abs t p : is_abs (real_name t p) = true.
Proof.
  unfold real_name. destruct p as [|c p']; [apply fs_resolve_abs, squeeze_abs|].
  destruct (N.eq_dec c 47) as [->|Hn]; [reflexivity|].
  replace (match c with 47 => c :: p' | _ => fs_resolve 8 t (squeeze (c :: p')) end)
    with (fs_resolve 8 t (squeeze (c :: p'))).
  - apply fs_resolve_abs, squeeze_abs.
  - destruct c as [|q]; [reflexivity|]. do 6 (destruct q as [q|q|]; try reflexivity). congruence.
Qed.

(* ... and it is a fixed point: reading by the reported name reads that name *)
Lemma real_name_idem t p : real_name t (real_name t p) = real_name t p.
Proof.
  pose proof (real_name_abs t p) as H.
  destruct (real_name t p) as [|c r]; [discriminate|].
  unfold is_abs in H. unfold real_name at 1.
  destruct c as [|q]; [discriminate|]. do 6 (destruct q as [q|q|]; try discriminate). reflexivity.
Qed.

(* ---------- the working directory (CwdModel.respell) ---------- *)
Lemma is_abs_cons c r : is_abs (c :: r) = (c =? 47).
Proof.
  destruct (N.eq_dec c 47) as [->|Hn]; [reflexivity|].
  replace (c =? 47) with false by (symmetry; now apply N.eqb_neq).
  unfold is_abs. destruct c as [|q]; [reflexivity|]. do 6 (destruct q as [q|q|]; try reflexivity). congruence.
Qed.

Lemma strip_slashes_rel s : is_abs (strip_slashes s) = false.
Proof.
  induction s as [|c r IH]; simpl; [reflexivity|].
  destruct (c =? 47) eqn:E; [exact IH|]. now rewrite is_abs_cons.
Qed.

Lemma squeeze_lead_slash x : squeeze (47 :: x) = squeeze x.
Proof. reflexivity. Qed.

Lemma squeeze_strip s rest : squeeze (strip_slashes s ++ rest) = squeeze (s ++ rest).
Proof.
  induction s as [|c r IH]; simpl; [reflexivity|].
  destruct (c =? 47) eqn:E; [|reflexivity].
  apply N.eqb_eq in E. subst c. rewrite IH. symmetry. apply squeeze_lead_slash.
Qed.

Lemma respell_abs cwd p : is_abs p = true -> respell cwd p = p.
Proof. intros H. unfold respell. now rewrite H. Qed.

Lemma respell_rel cwd p : is_abs p = false -> is_abs (respell cwd p) = false.
Proof.
  intros H. unfold respell. rewrite H.
  pose proof (strip_slashes_rel cwd) as S.
  destruct (strip_slashes cwd) as [|c d]; [exact H|].
  simpl app. rewrite is_abs_cons in *. exact S.
Qed.

Lemma respell_squeeze cwd p : is_abs p = false -> squeeze (respell cwd p) = squeeze (cwd ++ 47 :: p).
Proof.
  intros H. unfold respell. rewrite H.
  rewrite <- (squeeze_strip cwd (47 :: p)).
  destruct (strip_slashes cwd) as [|c d]; [symmetry; apply squeeze_lead_slash|reflexivity].
Qed.

(* so the file the model reads for the re-spelled name is the one named by cwd/p *)
Lemma respell_real_name t cwd p : is_abs p = false ->
  real_name t (respell cwd p) = fs_resolve 8 t (squeeze (cwd ++ 47 :: p)).
Proof.
  intros H. pose proof (respell_rel cwd p H) as R. rewrite <- (respell_squeeze cwd p H).
  unfold real_name. destruct (respell cwd p) as [|c r]; [reflexivity|].
  rewrite is_abs_cons in R. apply N.eqb_neq in R.
  destruct c as [|q]; [reflexivity|]. do 6 (destruct q as [q|q|]; try reflexivity). congruence.
Qed.

Example respell_demo :
  respell (bs "/cw/b") (bs "app.conf") = bs "cw/b/app.conf" /\
  respell (bs "/") (bs "x") = bs "x" /\ respell [] (bs "x") = bs "x" /\
  respell (bs "/cw") (bs "/abs") = bs "/abs".
Proof. vm_compute. repeat split. Qed.
