(* KeyLineW.v — key lines for a delimiter set of blanks only (class W) *)
From Coq Require Import String Lia List.
From Econf Require Import Bytes BytesFacts Grammar CommentLoop LineBase.
Local Open Scope N_scope.

(* ---------- list facts ---------- *)
Lemma kw_skipn_length_app {A} (a r : list A) : skipn (length a) (a ++ r) = r.
Proof. induction a as [|y a IH]; [reflexivity|]. exact IH. Qed.

Lemma kw_rtrim_all bl : forallb isspace bl = true -> rtrim bl = [].
Proof. intros H. unfold rtrim. rewrite drop_while_all; [reflexivity|]. now rewrite forallb_rev'. Qed.

Lemma kw_rtrim_last s post :
  (s <> [] -> isspace (last s 0) = false) -> forallb isspace post = true -> rtrim (s ++ post) = s.
Proof.
  intros Hl Hp. induction s as [|l s' _] using rev_ind.
  - cbn [app]. now apply kw_rtrim_all.
  - rewrite last_last in Hl. rewrite <- app_assoc. cbn [app]. apply rtrim_app_stop; [|exact Hp].
    apply Hl. destruct s'; discriminate.
Qed.

Lemma kw_existsb_app {A} (p : A -> bool) (a b : list A) : existsb p (a ++ b) = existsb p a || existsb p b.
Proof. induction a as [|x a IH]; [reflexivity|]. cbn [app existsb]. now rewrite IH, orb_assoc. Qed.

(* ---------- character facts ---------- *)
Lemma kw_tb_nonblank_nospace c : tb c = true -> isblank c = false -> isspace c = false.
Proof.
  unfold tb. intros H Hb. rewrite Hb, orb_false_r in H. now apply tchar_not_space.
Qed.

Lemma kw_tbchars cm t :
  forallb (fun x => tb x && negb (mem x cm) && negb (x =? 34)) t = true ->
  free_of cm t = true /\ free_of [34] t = true /\ nonzero t = true /\ forallb tb t = true.
Proof.
  intros H. unfold free_of, nonzero. repeat split; (eapply forallb_impl; [|exact H]); intros x Hx;
    repeat (apply andb_true_iff in Hx as [Hx ?]).
  - assumption.
  - cbn [mem]. rewrite orb_false_r. destruct (x =? 34) eqn:E; [discriminate|]. now rewrite N.eqb_sym, E.
  - now rewrite tb_nonzero.
  - assumption.
Qed.

Lemma kw_innerchars t :
  forallb (fun x => tb x && negb (x =? 34)) t = true ->
  free_of [34] t = true /\ nonzero t = true.
Proof.
  intros H. unfold free_of, nonzero. split; (eapply forallb_impl; [|exact H]); intros x Hx;
    apply andb_true_iff in Hx as [Hx ?].
  - cbn [mem]. rewrite orb_false_r. destruct (x =? 34) eqn:E; [discriminate|]. now rewrite N.eqb_sym, E.
  - now rewrite tb_nonzero.
Qed.

Lemma kw_keychars dl cm key :
  forallb (fun c => tchar c && negb (mem c dl) && negb (mem c cm) && negb (c =? 34)) key = true ->
  free_of cm key = true /\ free_of [34] key = true /\ nonzero key = true /\
  forallb (fun c => negb (key_stop dl c)) key = true /\
  forallb (fun c => negb (isspace c)) key = true.
Proof.
  intros H. unfold free_of, nonzero. repeat split; (eapply forallb_impl; [|exact H]); intros x Hx;
    do 3 (apply andb_true_iff in Hx as [Hx ?]).
  - assumption.
  - cbn [mem]. rewrite orb_false_r. destruct (x =? 34) eqn:E; [discriminate|]. now rewrite N.eqb_sym, E.
  - now rewrite tchar_nonzero.
  - unfold key_stop. rewrite (tchar_not_space x Hx). cbn [orb]. assumption.
  - now rewrite (tchar_not_space x Hx).
Qed.

Lemma kw_tc_ok cm tc : wf_tc cm tc = true -> tc_ok cm tc = true.
Proof.
  destruct tc as [[c t]|]; [|reflexivity]. cbn [wf_tc tc_ok]. intros H.
  apply andb_true_iff in H as [H1 H2]. destruct (kw_tbchars cm t H2) as (A & B & C & _).
  now rewrite H1, A, B, C.
Qed.

Lemma kw_key_trim_nospace key :
  forallb (fun c => negb (isspace c)) key = true -> key_trim key = key.
Proof.
  destruct key as [|k0 key']; [reflexivity|]. cbn [forallb key_trim]. intros H.
  apply andb_true_iff in H as [_ H]. f_equal.
  rewrite <- (app_nil_r key') at 1. apply kw_rtrim_last; [|reflexivity].
  intros Hne. induction key' as [|l s' _] using rev_ind; [congruence|].
  rewrite last_last. rewrite forallb_app in H. apply andb_true_iff in H as [_ H].
  cbn [forallb] in H. rewrite andb_true_r in H. now apply negb_true_iff in H.
Qed.

(* ---------- the comment loop on a key line ---------- *)
Lemma kw_loop dl cm key b1 v post tc :
  cm_ok cm = true -> key <> [] ->
  free_of cm key = true -> free_of [34] key = true -> nonzero key = true ->
  blanks b1 = true -> blanks post = true ->
  wf_value dl cm v = true -> wf_tc cm tc = true ->
  let pre := key ++ b1 ++ render_value v ++ post in
  let '(nm, di, cav) := comment_loop dl cm (pre ++ render_tc tc) None in
  cstr nm = pre /\ cav = option_map snd tc.
Proof.
  intros Hcm Hne Kc Kq Kz Hb1 Hpost Hv Htc. apply kw_tc_ok in Htc.
  destruct v as [sv|i]; cbn [wf_value render_value] in *.
  - apply andb_true_iff in Hv as [Hv _]. apply andb_true_iff in Hv as [Hv _].
    destruct (kw_tbchars cm sv Hv) as (A & B & C & _).
    apply comment_loop_plain_corrected_noquote_cm; auto.
    + destruct key; [congruence|discriminate].
    + now rewrite !nonzero_app, Kz, (nonzero_blanks b1 Hb1), C, (nonzero_blanks post Hpost).
    + now rewrite !free_of_app, Kc, (free_of_cm_blanks cm b1 Hcm Hb1), A, (free_of_cm_blanks cm post Hcm Hpost).
    + now rewrite !free_of_app, Kq, (free_quote_blanks b1 Hb1), B, (free_quote_blanks post Hpost).
    + now apply free_of_cm_zero.
    + now apply free_of_cm_quote.
  - destruct (kw_innerchars i Hv) as (B & C).
    replace (key ++ b1 ++ (34 :: i ++ [34]) ++ post) with ((key ++ b1) ++ 34 :: i ++ 34 :: post).
    2:{ repeat (rewrite <- app_assoc || rewrite <- app_comm_cons). reflexivity. }
    apply comment_loop_quoted; auto.
    + destruct key; [congruence|discriminate].
    + now rewrite !nonzero_app, Kz, (nonzero_blanks b1 Hb1), C, (nonzero_blanks post Hpost).
    + now rewrite !free_of_app, Kc, (free_of_cm_blanks cm b1 Hcm Hb1).
    + now rewrite !free_of_app, Kq, (free_quote_blanks b1 Hb1).
    + now apply free_of_cm_blanks.
    + now apply free_quote_blanks.
    + now apply free_of_cm_zero.
    + now apply free_of_cm_quote.
Qed.

(* ---------- from parse_line to parse_kv ---------- *)
Lemma kw_line_entry dl cm s ind name c r :
  name = c :: r ->
  blanks ind = true -> nonzero name = true -> isspace c = false -> mem c cm = false ->
  parse_line std_opts dl cm s ((ind ++ name) ++ [10]) =
  parse_entry std_opts dl cm (bump s) ((ind ++ name) ++ [10]) (hd 0 (ind ++ name)) name.
Proof.
  intros -> Hind Hnz Hc Hm. rewrite parse_line_body.
  2:{ now rewrite nonzero_app, (nonzero_blanks ind Hind). }
  rewrite (drop_blanks_then ind r c Hind Hc), Hm. destruct ind; reflexivity.
Qed.

Lemma kw_entry_kv dl cm s org b0 name nm di cav vis :
  comment_loop dl cm name (p_cav s) = (nm, di, cav) -> cstr nm = vis ->
  (forall r, vis <> 91 :: r) -> keys_only dl = false ->
  parse_entry std_opts dl cm s org b0 name = parse_kv std_opts dl cm (with_cav s cav) org b0 vis.
Proof.
  intros HL Hv H91 Hk. rewrite parse_entry_unfold, HL. cbv beta iota zeta. rewrite Hv, Hk.
  destruct vis as [|c r]; [reflexivity|].
  destruct c as [|p]; [reflexivity|].
  do 7 (destruct p as [p|p|]; try reflexivity).
  exfalso. eapply H91. reflexivity.
Qed.

Lemma kw_parse_kv dl cm s org b0 key x data :
  key <> [] -> forallb (fun c => negb (key_stop dl c)) key = true -> key_stop dl x = true ->
  is_mixed dl = false -> (mem x dl || existsb (fun y => mem y dl) data) = true ->
  parse_kv std_opts dl cm s org b0 (key ++ x :: data) =
  match value_of dl false (has_wsp dl) (mem x dl) data with
  | inl e => PStop e s
  | inr (v, q) => PCont (store_new s key v (p_line s) q)
  end.
Proof.
  intros Hne Hk Hx Hmix Hfound. unfold parse_kv. cbv zeta.
  rewrite (take_while_app_stop (fun c => negb (key_stop dl c)) key x data Hk) by now rewrite Hx.
  rewrite kw_skipn_length_app. rewrite Hmix.
  destruct key as [|k0 key']; [congruence|].
  cbn [hd tl andb negb orb std_opts o_python]. rewrite Hfound. cbn [negb andb]. reflexivity.
Qed.

(* ---------- value_of for a delimiter set with blanks only ---------- *)
Lemma kw_value_of_unfold dl ds d0 :
  d0 <> [] ->
  value_of dl false true ds d0 =
  match drop_while isspace d0 with
  | 34 :: q => match rev (key_trim q) with
               | 34 :: rv => inr (Some (rev rv), true)
               | _ => inr (Some (34 :: key_trim q), true)
               end
  | _ => inr (Some (key_trim (drop_while isspace d0)), false)
  end.
Proof. destruct d0 as [|c d0]; [congruence|]. intros _. reflexivity. Qed.

Lemma kw_value_of_quoted dl ds bl inner post :
  blanks bl = true -> blanks post = true ->
  forallb (fun x => tb x && negb (x =? 34)) inner = true ->
  value_of dl false true ds (bl ++ 34 :: inner ++ 34 :: post) = inr (Some inner, true).
Proof.
  intros Hbl Hpost Hi. rewrite kw_value_of_unfold by (destruct bl; discriminate).
  rewrite (drop_blanks_then bl (inner ++ 34 :: post) 34 Hbl eq_refl).
  destruct inner as [|i0 inner'].
  - cbn [app key_trim]. rewrite (kw_rtrim_all post (blanks_isspace post Hpost)). reflexivity.
  - cbn [app key_trim]. rewrite (rtrim_app_stop inner' 34 post eq_refl (blanks_isspace post Hpost)).
    cbn [rev]. rewrite rev_app_distr. cbn [rev app]. rewrite rev_app_distr, rev_involutive. reflexivity.
Qed.

Lemma kw_match34 {A} (c : N) (f g : A) :
  c <> 34 ->
  match c with 34 => f | _ => g end = g.
Proof.
  intros H. destruct c as [|p]; [reflexivity|].
  do 6 (destruct p as [p|p|]; try reflexivity). congruence.
Qed.

Lemma kw_value_of_plain dl ds bl c sv post :
  blanks bl = true -> blanks post = true ->
  forallb tb (c :: sv) = true -> c <> 34 -> ends_nonblank (c :: sv) = true ->
  value_of dl false true ds (bl ++ (c :: sv) ++ post) = inr (Some (c :: sv), false).
Proof.
  intros Hbl Hpost Htb H34 He. rewrite kw_value_of_unfold by (destruct bl; discriminate).
  cbn [ends_nonblank] in He. apply andb_true_iff in He as [He1 He2].
  apply negb_true_iff in He1. apply negb_true_iff in He2.
  pose proof Htb as Htb'. cbn [forallb] in Htb'. apply andb_true_iff in Htb' as [Hc Hsv].
  cbn [app]. rewrite (drop_blanks_then bl (sv ++ post) c Hbl (kw_tb_nonblank_nospace c Hc He1)).
  etransitivity; [apply kw_match34; exact H34|]. cbn [key_trim]. do 4 f_equal.
  apply kw_rtrim_last; [|now apply blanks_isspace].
  intros Hne. apply kw_tb_nonblank_nospace.
  - rewrite forallb_forall in Hsv. apply Hsv.
    destruct sv as [|a sv']; [congruence|]. apply (@exists_last _ (a :: sv')) in Hne as (l' & z & E).
    rewrite E. rewrite last_last. apply in_or_app. right. left. reflexivity.
  - destruct sv as [|a sv']; [congruence|]. exact He2.
Qed.

Lemma kw_value_of_blanks dl ds d0 :
  d0 <> [] -> blanks d0 = true -> value_of dl false true ds d0 = inr (Some [], false).
Proof.
  intros Hne Hb. rewrite kw_value_of_unfold by exact Hne.
  rewrite (drop_while_all isspace d0 (blanks_isspace d0 Hb)). reflexivity.
Qed.

(* ---------- the final state ---------- *)
Lemma kw_final dl s k tcav val q :
  key_trim (kl_key k) = kl_key k -> val = val_of dl k -> q = is_quoted (kl_val k) ->
  tcav = option_map snd (kl_tc k) ->
  store_new (with_cav (bump s) tcav) (kl_key k) val (p_line (with_cav (bump s) tcav)) q =
  exp_step dl s (LKey k).
Proof.
  intros Hk -> -> ->. unfold store_new, exp_step, with_cav, bump.
  cbn [p_rev p_groups p_cur p_cbk p_cav p_line]. rewrite Hk. reflexivity.
Qed.

Lemma kw_classW dl : class_of dl = ClassW -> has_wsp dl = true.
Proof.
  unfold class_of. destruct dl as [|c r]; [discriminate|].
  destruct (has_wsp (c :: r)); [reflexivity|discriminate].
Qed.

(* ---------- the theorem ---------- *)
Lemma key_line_ok_W dl cm prev s k :
  cm_ok cm = true -> dl_ok dl cm = true -> class_of dl = ClassW ->
  wf_line dl cm prev (LKey k) = true -> Inv prev s ->
  parse_line std_opts dl cm s (render_line (LKey k)) = PCont (exp_step dl s (LKey k)) /\
  Inv true (exp_step dl s (LKey k)).
Proof.
  intros Hcm Hdl Hcls Hwf HI.
  split; [|split; [reflexivity|eexists _, _; split; reflexivity]].
  destruct k as [ind key b1 d b2 v post tc].
  cbn [wf_line] in Hwf. unfold wf_kline, wf_sep in Hwf. rewrite Hcls in Hwf.
  cbn [kl_indent kl_key kl_b1 kl_d kl_b2 kl_val kl_post kl_tc] in Hwf.
  apply andb_true_iff in Hwf as [Hwf Hvt]. apply andb_true_iff in Hvt as [Hv Htc].
  apply andb_true_iff in Hwf as [Hwf Hpost]. apply andb_true_iff in Hwf as [Hwf Hsep].
  apply andb_true_iff in Hwf as [Hind Hkey].
  apply andb_true_iff in Hsep as [Hsep Hm]. apply andb_true_iff in Hsep as [Hb1 Hb2].
  destruct d as [d|]; [discriminate|]. destruct b2 as [|y b2]; [|discriminate].
  destruct b1 as [|x b1']; [discriminate|].
  unfold wf_key in Hkey. apply andb_true_iff in Hkey as [Hk91 Hkc].
  destruct key as [|k0 key']; [discriminate|].
  destruct (kw_keychars dl cm (k0 :: key') Hkc) as (Kc & Kq & Kz & Kstop & Ksp).
  assert (Hk0 : tchar k0 = true /\ mem k0 cm = false).
  { cbn [forallb] in Hkc. apply andb_true_iff in Hkc as [Hkc _].
    do 3 (apply andb_true_iff in Hkc as [Hkc ?]). split; [assumption|]. now apply negb_true_iff. }
  destruct Hk0 as [Hk0t Hk0c].
  assert (Hxb : isblank x = true /\ blanks b1' = true).
  { unfold blanks in Hb1. cbn [forallb] in Hb1. now apply andb_true_iff in Hb1. }
  destruct Hxb as [Hxb Hb1'].
  set (pre := (k0 :: key') ++ (x :: b1') ++ render_value v ++ post).
  assert (Hbody : render_body (LKey (mkKL ind (k0 :: key') (x :: b1') None [] v post tc)) =
                  ind ++ pre ++ render_tc tc).
  { cbn [render_body kl_indent kl_key kl_b1 kl_d kl_b2 kl_val kl_post kl_tc]. unfold pre.
    repeat (rewrite <- app_assoc || rewrite <- app_comm_cons). reflexivity. }
  unfold render_line. rewrite Hbody. change [nl] with [10].
  pose proof (kw_loop dl cm (k0 :: key') (x :: b1') v post tc Hcm ltac:(discriminate) Kc Kq Kz Hb1 Hpost Hv Htc) as L.
  fold pre in L. cbv zeta in L.
  assert (Hpre_nz : nonzero (pre ++ render_tc tc) = true).
  { rewrite nonzero_app. apply andb_true_iff. split.
    - unfold pre. rewrite !nonzero_app, Kz, (nonzero_blanks _ Hb1), (nonzero_blanks _ Hpost), andb_true_r.
      cbn [andb]. destruct v as [sv|i]; cbn [wf_value render_value] in *.
      + apply andb_true_iff in Hv as [Hv _]. apply andb_true_iff in Hv as [Hv _].
        now destruct (kw_tbchars cm sv Hv) as (_ & _ & C & _).
      + destruct (kw_innerchars i Hv) as (_ & C). now rewrite nonzero_cons, nonzero_app, C.
    - apply kw_tc_ok in Htc. destruct tc as [[c0 t]|]; [|reflexivity].
      cbn [tc_ok render_tc] in *. repeat (apply andb_true_iff in Htc as [Htc ?]).
      rewrite nonzero_cons. rewrite (tchar_nonzero c0 (cm_ok_tchar cm c0 Hcm Htc)). assumption. }
  rewrite (kw_line_entry dl cm s ind (pre ++ render_tc tc) k0 _ eq_refl Hind Hpre_nz
             (tchar_not_space k0 Hk0t) Hk0c).
  destruct HI as [Hcav _].
  destruct (comment_loop dl cm (pre ++ render_tc tc) None) as [[nm di] cav] eqn:EL.
  destruct L as [Lv Lc].
  rewrite (kw_entry_kv dl cm (bump s) _ _ (pre ++ render_tc tc) nm di cav pre).
  2:{ change (p_cav (bump s)) with (p_cav s). rewrite Hcav. exact EL. }
  2:{ exact Lv. }
  2:{ intros r. unfold pre. cbn [app]. intros E. inversion E. subst k0. discriminate. }
  2:{ now rewrite (keys_only_class dl cm Hdl), Hcls. }
  change pre with ((k0 :: key') ++ x :: (b1' ++ render_value v ++ post)).
  assert (Hmix : is_mixed dl = false) by now rewrite mixed_class, Hcls.
  rewrite kw_parse_kv.
  2:{ discriminate. }
  2:{ exact Kstop. }
  2:{ unfold key_stop. now rewrite (isblank_isspace x Hxb). }
  2:{ exact Hmix. }
  2:{ cbn [existsb] in Hm. rewrite kw_existsb_app, orb_assoc, Hm. reflexivity. }
  rewrite (kw_classW dl Hcls).
  set (k := mkKL ind (k0 :: key') (x :: b1') None [] v post tc).
  assert (Hval : value_of dl false true (mem x dl) (b1' ++ render_value v ++ post) =
                 inr (val_of dl k, is_quoted v)).
  { unfold val_of. cbn [kl_val k]. destruct v as [sv|i]; cbn [wf_value render_value is_quoted] in *.
    - apply andb_true_iff in Hv as [Hv _]. apply andb_true_iff in Hv as [Hv He].
      destruct sv as [|c sv].
      + rewrite Hcls. unfold after_sep.
        cbn [kl_b1 kl_d kl_b2 kl_val kl_post render_value k app]. rewrite app_nil_r.
        destruct (b1' ++ post) as [|z zs] eqn:E; [reflexivity|].
        rewrite <- E. apply kw_value_of_blanks; [rewrite E; discriminate|].
        unfold blanks in Hb1', Hpost |- *. rewrite forallb_app. now rewrite Hb1', Hpost.
      + destruct (kw_tbchars cm (c :: sv) Hv) as (_ & _ & _ & T).
        apply kw_value_of_plain; auto.
        cbn [forallb] in Hv. apply andb_true_iff in Hv as [Hv _]. apply andb_true_iff in Hv as [_ Hv].
        intros ->. discriminate.
    - replace ((34 :: i ++ [34]) ++ post) with (34 :: i ++ 34 :: post).
      2:{ repeat (rewrite <- app_assoc || rewrite <- app_comm_cons). reflexivity. }
      now apply kw_value_of_quoted. }
  rewrite Hval. f_equal.
  apply (kw_final dl s k (cav) (val_of dl k) (is_quoted v)); try reflexivity.
  - cbn [kl_key k]. now apply kw_key_trim_nospace.
  - exact Lc.
Qed.
