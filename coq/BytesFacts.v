(* BytesFacts.v — lemmas about the byte-string functions of Bytes.v *)
From Coq Require Import Lia.
From Econf Require Import Bytes.
Local Open Scope N_scope.

Lemma str_eqb_refl (a : str) : str_eqb a a = true.
Proof. induction a as [|x a IH]; simpl; [reflexivity|]. now rewrite N.eqb_refl, IH. Qed.

Lemma str_eqb_eq (a b : str) : str_eqb a b = true <-> a = b.
Proof.
  split.
  - revert b; induction a as [|x a IH]; intros [|y b] H; simpl in H; try discriminate; [reflexivity|].
    apply andb_true_iff in H as [H1 H2]. apply N.eqb_eq in H1. subst. f_equal. now apply IH.
  - intros ->. apply str_eqb_refl.
Qed.

Lemma str_eqb_neq (a b : str) : str_eqb a b = false <-> a <> b.
Proof.
  split.
  - intros H E. subst. rewrite str_eqb_refl in H. discriminate.
  - intros H. destruct (str_eqb a b) eqn:E; [|reflexivity]. apply str_eqb_eq in E. contradiction.
Qed.

Lemma str_eqb_sym (a b : str) : str_eqb a b = str_eqb b a.
Proof.
  destruct (str_eqb a b) eqn:E.
  - apply str_eqb_eq in E. subst. symmetry. apply str_eqb_refl.
  - symmetry. apply str_eqb_neq. apply str_eqb_neq in E. congruence.
Qed.

Lemma str_eqb_spec (a b : str) : reflect (a = b) (str_eqb a b).
Proof.
  destruct (str_eqb a b) eqn:E; constructor.
  - now apply str_eqb_eq.
  - now apply str_eqb_neq.
Qed.

Lemma mem_str_In (x : str) (l : list str) : mem_str x l = true <-> In x l.
Proof.
  induction l as [|y l IH]; simpl.
  - split; [discriminate|tauto].
  - rewrite orb_true_iff, IH, str_eqb_eq. split; intros [H|H]; auto.
Qed.

Lemma mem_In (c : N) (s : str) : mem c s = true <-> In c s.
Proof.
  induction s as [|x s IH]; simpl.
  - split; [discriminate|tauto].
  - rewrite orb_true_iff, IH, N.eqb_eq. tauto.
Qed.

Lemma take_drop_while (p : N -> bool) (s : str) : take_while p s ++ drop_while p s = s.
Proof. induction s as [|c s IH]; simpl; [reflexivity|]. destruct (p c); simpl; [now rewrite IH|reflexivity]. Qed.

Lemma take_while_all (p : N -> bool) (s : str) : forallb p s = true -> take_while p s = s.
Proof.
  induction s as [|c s IH]; simpl; [reflexivity|]. intros H. apply andb_true_iff in H as [H1 H2].
  rewrite H1. f_equal. auto.
Qed.

Lemma drop_while_all (p : N -> bool) (s : str) : forallb p s = true -> drop_while p s = [].
Proof.
  induction s as [|c s IH]; simpl; [reflexivity|]. intros H. apply andb_true_iff in H as [H1 H2].
  rewrite H1. auto.
Qed.

Lemma take_while_app_stop (p : N -> bool) (a : str) (c : N) (r : str) :
  forallb p a = true -> p c = false -> take_while p (a ++ c :: r) = a.
Proof.
  induction a as [|x a IH]; simpl; intros H Hc.
  - now rewrite Hc.
  - apply andb_true_iff in H as [H1 H2]. rewrite H1. f_equal. auto.
Qed.

Lemma drop_while_app_stop (p : N -> bool) (a : str) (c : N) (r : str) :
  forallb p a = true -> p c = false -> drop_while p (a ++ c :: r) = c :: r.
Proof.
  induction a as [|x a IH]; simpl; intros H Hc.
  - now rewrite Hc.
  - apply andb_true_iff in H as [H1 H2]. rewrite H1. auto.
Qed.

Lemma drop_while_stop (p : N -> bool) (c : N) (r : str) : p c = false -> drop_while p (c :: r) = c :: r.
Proof. intros H; simpl; now rewrite H. Qed.

Lemma cstr_nozero (s : str) : forallb (fun c => negb (c =? 0)) s = true -> cstr s = s.
Proof.
  induction s as [|c s IH]; simpl; [reflexivity|]. intros H. apply andb_true_iff in H as [H1 H2].
  destruct (c =? 0); [discriminate|]. f_equal; auto.
Qed.
