(* Properties_C07.v — C07: a written configuration reads back identically.
   [writable] (WriterSpec.v) is the domain of DESIGN.md 5.4; [vproj] the
   observation: per section the keys in order with their text. *)
From Coq Require Import String Lia List.
From Econf Require Import Bytes BytesFacts Grammar LineBase ParserFacts ParserFile
                          WriterSpec WriterRender WriterWf WriterMeaning NumericSpec NumericFacts
                          LayeredModel LayeredScenario WorldFacts.
Local Open Scope N_scope.

(* the writer's output for a writable object IS a conventional file ... *)
Theorem C07_written_file_is_conventional : forall kf, writable kf = true ->
  write_model kf = render (ast_of kf) /\ wf_file [kf_delim kf] [kf_comment kf] (ast_of kf) = true.
Proof. intros kf H. split; [now apply write_is_render|now apply ast_of_wf]. Qed.
Print Assumptions C07_written_file_is_conventional.

(* ... so reading it back with the object's own delimiter and comment
   character succeeds and yields, in every section, the same keys in the same
   order with the same values — for every object built by any sequence of
   setters or obtained by parsing, with any interleaving of group-less and
   sectioned entries and re-opened sections. *)
Theorem C07_roundtrip : forall kf, writable kf = true ->
  r_err (reread kf) = ECONF_SUCCESS /\
  forall g, vproj (r_entries (reread kf)) g = vproj (kf_entries kf) g.
Proof.
  intros kf H. unfold reread. rewrite (write_is_render kf H).
  change (mkPopts false false) with std_opts.
  rewrite (parse_file_ok _ _ _ (ast_of_wf kf H)). cbn [r_err r_entries]. split; [reflexivity|].
  intros g. now apply ast_of_meaning.
Qed.
Print Assumptions C07_roundtrip.

(* the texts the integer setters store are writable values *)
Theorem C07_int_text_writable : forall d c z, tags_ok d c = true -> wf_value [d] [c] (VPlain (fmt_dec z)) = true.
Proof.
  intros d c z Ht. pose proof (fmt_dec_chars z) as Hc.
  assert (Hne : fmt_dec z <> []).
  { pose proof (strto_fmt_dec z) as S. intros E. rewrite E in S. discriminate. }
  assert (Hchar : forall x, (isdigit x || (x =? 45)) = true ->
                  (tb x && negb (mem x [c]) && negb (x =? 34)) = true /\ isblank x = false).
  { intros x Hx. unfold tags_ok in Ht. apply andb_true_iff in Ht as [_ Hcc].
    assert (Hr : (48 <= x /\ x <= 57) \/ x = 45).
    { apply orb_true_iff in Hx as [Hx|Hx].
      - unfold isdigit in Hx. apply andb_true_iff in Hx as [A B]. apply N.leb_le in A, B. auto.
      - apply N.eqb_eq in Hx. auto. }
    assert (Hc' : c = 35 \/ c = 59) by (apply orb_true_iff in Hcc as [E|E]; apply N.eqb_eq in E; auto).
    assert (Hxc : (c =? x) = false) by (apply N.eqb_neq; destruct Hr as [[A B]| ->]; destruct Hc' as [-> | ->]; lia).
    assert (H34 : (x =? 34) = false) by (apply N.eqb_neq; destruct Hr as [[A B]| ->]; lia).
    assert (Htb : tb x = true).
    { unfold tb, tchar. replace (33 <=? x) with true by (symmetry; apply N.leb_le; destruct Hr as [[A B]| ->]; lia).
      replace (x <? 256) with true by (symmetry; apply N.ltb_lt; destruct Hr as [[A B]| ->]; lia).
      replace (x =? 127) with false by (symmetry; apply N.eqb_neq; destruct Hr as [[A B]| ->]; lia). reflexivity. }
    split.
    - cbn [mem]. rewrite Hxc, H34, Htb. reflexivity.
    - unfold isblank. replace (x =? 32) with false by (symmetry; apply N.eqb_neq; destruct Hr as [[A B]| ->]; lia).
      replace (x =? 9) with false by (symmetry; apply N.eqb_neq; destruct Hr as [[A B]| ->]; lia). reflexivity. }
  unfold wf_value. apply andb_true_iff. split; [apply andb_true_iff; split|].
  - eapply forallb_impl; [|exact Hc]. intros x Hx. now destruct (Hchar x Hx).
  - unfold ends_nonblank. destruct (fmt_dec z) as [|x r] eqn:E; [congruence|].
    rewrite forallb_forall in Hc. 
    assert (H1 : isblank x = false) by (apply Hchar, Hc; now left).
    assert (H2 : isblank (last (x :: r) 0) = false).
    { apply Hchar, Hc. destruct (exists_last (l := x :: r) ltac:(discriminate)) as (l' & a & El).
      rewrite El, last_last. apply in_or_app. right. now left. }
    now rewrite H1, H2.
  - unfold tags_ok in Ht. apply andb_true_iff in Ht as [Hd _].
    destruct (class_of [d]); try reflexivity.
    destruct (fmt_dec z) as [|x r] eqn:E; [reflexivity|].
    (* ClassM is impossible for a single delimiter, but the clause is easy anyway *)
    rewrite forallb_forall in Hc. assert (Hx : (isdigit x || (x =? 45)) = true) by (apply Hc; now left).
    cbn [mem]. rewrite orb_false_r.
    assert (Hr : (48 <= x /\ x <= 57) \/ x = 45).
    { apply orb_true_iff in Hx as [Hx|Hx].
      - unfold isdigit in Hx. apply andb_true_iff in Hx as [A B]. apply N.leb_le in A, B. auto.
      - apply N.eqb_eq in Hx. auto. }
    assert (Hd' : d = 61 \/ d = 58 \/ d = 32).
    { apply orb_true_iff in Hd as [Hd|Hd]; [apply orb_true_iff in Hd as [Hd|Hd]|]; apply N.eqb_eq in Hd; auto. }
    apply negb_true_iff, N.eqb_neq. destruct Hr as [[A B]| ->]; destruct Hd' as [-> |[-> | ->]]; lia.
Qed.
Print Assumptions C07_int_text_writable.

(* non-vacuity: group-less key set after a sectioned one, a re-opened section,
   a quoted value with a comment character, a multi-line value, comments *)
(* what econf_writeFile leaves on disk: on an existing directory (name not a directory) the call succeeds and the file
   IS the text of the object, whatever the file held before (nothing, a shorter or a longer text: the file is
   replaced, not overlaid); every other node of the tree, the objects and the error location are untouched *)
Theorem C07_write_replaces_file : forall w o dir fname kf d1 d2,
  sget (w_store w) o = Some kf ->
  tlookup (w_tree w) (fs_resolve 8 (w_tree w) (squeeze dir)) = Some (NDir d1 d2) ->
  (forall a b, tlookup (w_tree w) (fs_resolve 8 (w_tree w) (squeeze (dir ++ 47 :: fname))) <> Some (NDir a b)) ->
  let p := fs_resolve 8 (w_tree w) (squeeze (dir ++ 47 :: fname)) in
  let w' := fst (wstep w (WWriteTo o dir fname)) in
  snd (wstep w (WWriteTo o dir fname)) = ORc ECONF_SUCCESS /\
  tlookup (w_tree w') p = Some (NFile (write_model kf) 0 0) /\
  (forall q, q <> p -> tlookup (w_tree w') q = tlookup (w_tree w) q) /\
  w_store w' = w_store w /\ w_g w' = w_g w.
Proof. exact write_replaces_file. Qed.
Print Assumptions C07_write_replaces_file.

Definition demo_kf : keyfile :=
  mkKF [mkE (bs "A") (bs "x") (Some (bs "1")) (Some (bs " about x")) (Some (bs " why")) 0 false;
        mkE none_s (bs "g") (Some (bs " keep # this ")) None None 0 true;
        mkE (bs "B") (bs "y") (Some (bs "first" ++ nl :: bs "  second line")) None None 0 false;
        mkE (bs "A") (bs "z") None None None 0 false]
       0 [bs "A"; none_s; bs "B"] 61 35 None false false [] [] None.
Example C07_demo : writable demo_kf = true /\ chk_roundtrip demo_kf = true.
Proof. vm_compute. split; reflexivity. Qed.
