(* MergeFacts.v — the merge of two entry arrays (MergeModel.v) against the
   per-section specification of MergeSpec.v (C03). *)
From Coq Require Import String Lia List.
From Econf Require Import Bytes BytesFacts MergeSpec.
Local Open Scope N_scope.
Local Opaque none_s.

Ltac beq :=
  repeat match goal with
  | H : str_eqb _ _ = true |- _ => apply str_eqb_eq in H
  | H : str_eqb _ _ = false |- _ => apply str_eqb_neq in H
  | H : _ && _ = true |- _ => apply andb_true_iff in H as [? ?]
  end.

(* ---------- the per-section view ---------- *)

Lemma proj_nil g : proj' [] g = [].
Proof. reflexivity. Qed.

Lemma proj_cons e es g :
  proj' (e :: es) g = if str_eqb (e_group e) g then (e_key e, e_value e) :: proj' es g else proj' es g.
Proof. unfold proj'. simpl. now destruct (str_eqb (e_group e) g). Qed.

Lemma proj_app es1 es2 g : proj' (es1 ++ es2) g = proj' es1 g ++ proj' es2 g.
Proof. unfold proj'. now rewrite filter_app, map_app. Qed.

Lemma proj_cpy l g : proj' (map cpy l) g = proj' l g.
Proof.
  induction l as [|e l IH]; [reflexivity|].
  simpl map. rewrite !proj_cons, IH. reflexivity.
Qed.

Lemma nofilter g (l : list entry) :
  (forall x, In x l -> str_eqb (e_group x) g = false) ->
  filter (fun e => str_eqb (e_group e) g) l = [].
Proof.
  induction l as [|e l IH]; intros H; simpl; [reflexivity|].
  rewrite (H e) by (now left). apply IH. intros x Hx. apply H. now right.
Qed.

Lemma group_in_cons e b g : group_in (e :: b) g = str_eqb (e_group e) g || group_in b g.
Proof. reflexivity. Qed.

Lemma group_in_false_all b g : group_in b g = false -> forall x, In x b -> str_eqb (e_group x) g = false.
Proof.
  induction b as [|e b IH]; intros H x Hx; [destruct Hx|].
  rewrite group_in_cons in H. apply orb_false_iff in H as [H1 H2].
  destruct Hx as [<-|Hx]; auto.
Qed.

Lemma group_in_false_proj b g : group_in b g = false -> proj' b g = [].
Proof. intros H. unfold proj'. rewrite nofilter; [reflexivity|]. now apply group_in_false_all. Qed.

(* ---------- one override step ---------- *)

Definition ostep (fe : list entry) (e : entry) : list entry :=
  match replace_first fe e with Some fe2 => fe2 | None => fe ++ [cpy e] end.

Lemma ostep_cons_hit x fe e : same_gk x e = true ->
  ostep (x :: fe) e = with_value (ov_text (e_value e)) x :: fe.
Proof. intros H. unfold ostep. simpl. rewrite H. reflexivity. Qed.

Lemma ostep_cons_miss x fe e : same_gk x e = false -> ostep (x :: fe) e = x :: ostep fe e.
Proof. intros H. unfold ostep. simpl. rewrite H. destruct (replace_first fe e); reflexivity. Qed.

Lemma over_group_cons g seen e rest fe :
  over_group g seen (e :: rest) fe =
  over_group g (e :: seen) rest
    (if str_eqb (e_group e) g && negb (existsb (same_gk e) seen) then ostep fe e else fe).
Proof. reflexivity. Qed.

Lemma ostep_proj fe e g :
  proj' (ostep fe e) g =
  if str_eqb (e_group e) g then al_override1 (proj' fe g) (e_key e) (e_value e) else proj' fe g.
Proof.
  induction fe as [|x fe IH].
  - unfold ostep. simpl. rewrite proj_cons. simpl. reflexivity.
  - destruct (same_gk x e) eqn:E.
    + rewrite ostep_cons_hit by assumption. unfold same_gk in E.
      apply andb_true_iff in E as [E1 E2]. rewrite !proj_cons. simpl.
      apply str_eqb_eq in E1. rewrite E1.
      destruct (str_eqb (e_group e) g) eqn:Eg; [|reflexivity].
      simpl. rewrite E2. reflexivity.
    + rewrite ostep_cons_miss by assumption. rewrite !proj_cons, IH.
      destruct (str_eqb (e_group x) g) eqn:Ex; destruct (str_eqb (e_group e) g) eqn:Eg; try reflexivity.
      simpl. unfold same_gk in E. beq.
      replace (str_eqb (e_group x) (e_group e)) with true in E
        by (symmetry; apply str_eqb_eq; congruence).
      simpl in E. rewrite E. reflexivity.
Qed.

(* keys of the already-seen override entries of section g *)
Definition gkeys (g : str) (seen : list entry) : list str :=
  map e_key (filter (fun s => str_eqb (e_group s) g) seen).

Lemma gkeys_cons g s seen :
  gkeys g (s :: seen) = if str_eqb (e_group s) g then e_key s :: gkeys g seen else gkeys g seen.
Proof. unfold gkeys. simpl. now destruct (str_eqb (e_group s) g). Qed.

Lemma existsb_same_gk e g seen : str_eqb (e_group e) g = true ->
  existsb (same_gk e) seen = mem_str (e_key e) (gkeys g seen).
Proof.
  intros Eg. apply str_eqb_eq in Eg. subst g.
  induction seen as [|s seen IH]; [reflexivity|].
  rewrite gkeys_cons. simpl existsb. rewrite IH. unfold same_gk.
  rewrite (str_eqb_sym (e_group e) (e_group s)).
  destruct (str_eqb (e_group s) (e_group e)); reflexivity.
Qed.

Lemma firsts_aux_ext l : forall K1 K2, (forall k, mem_str k K1 = mem_str k K2) ->
  firsts_aux K1 l = firsts_aux K2 l.
Proof.
  induction l as [|[k v] l IH]; intros K1 K2 H; simpl; [reflexivity|].
  rewrite (H k). destruct (mem_str k K2); [now apply IH|].
  f_equal. apply IH. intros k'. simpl. now rewrite H.
Qed.

(* base list overridden by the first bindings of ov whose keys are not in K *)
Definition ovs (K : list str) (ov base : alist) : alist :=
  fold_left (fun l kv => al_override1 l (fst kv) (snd kv)) (firsts_aux K ov) base.

Lemma al_override_ovs base ov : al_override base ov = ovs [] ov base.
Proof. reflexivity. Qed.

Lemma ovs_cons K k v ov l :
  ovs K ((k, v) :: ov) l = if mem_str k K then ovs K ov l else ovs (k :: K) ov (al_override1 l k v).
Proof. unfold ovs. simpl. destruct (mem_str k K); reflexivity. Qed.

Lemma over_group_proj_same g rest : forall seen fe,
  proj' (over_group g seen rest fe) g = ovs (gkeys g seen) (proj' rest g) (proj' fe g).
Proof.
  induction rest as [|e rest IH]; intros seen fe.
  - reflexivity.
  - rewrite over_group_cons, IH, proj_cons, gkeys_cons.
    destruct (str_eqb (e_group e) g) eqn:Eg; simpl andb.
    + rewrite ovs_cons, (existsb_same_gk _ _ _ Eg).
      destruct (mem_str (e_key e) (gkeys g seen)) eqn:M; simpl negb; cbv iota.
      * unfold ovs. rewrite (firsts_aux_ext _ (e_key e :: gkeys g seen) (gkeys g seen)); [reflexivity|].
        intros k. simpl. destruct (str_eqb k (e_key e)) eqn:Ek; [|reflexivity].
        apply str_eqb_eq in Ek. subst k. now rewrite M.
      * rewrite ostep_proj, Eg. reflexivity.
    + reflexivity.
Qed.

Lemma over_group_proj_other g g' rest : str_eqb g g' = false -> forall seen fe,
  proj' (over_group g seen rest fe) g' = proj' fe g'.
Proof.
  intros Hg. induction rest as [|e rest IH]; intros seen fe; [reflexivity|].
  rewrite over_group_cons, IH.
  destruct (str_eqb (e_group e) g) eqn:Eg; simpl andb; [|reflexivity].
  destruct (negb (existsb (same_gk e) seen)); [|reflexivity].
  rewrite ostep_proj. apply str_eqb_eq in Eg. rewrite Eg, Hg. reflexivity.
Qed.

(* ---------- the run loop, section by section ---------- *)

Definition prev_is (prev : option str) (g : str) : bool :=
  match prev with Some p => str_eqb p g | None => false end.

Lemma merge_runs_cons seen rest prev e b fe :
  merge_runs seen rest prev (e :: b) fe =
  merge_runs seen rest (Some (e_group e)) b
    ((match prev with
      | Some g => if str_eqb g (e_group e) || group_in (e :: b) g then fe
                  else over_group g seen rest fe
      | None => fe
      end) ++ [cpy e]).
Proof. reflexivity. Qed.

Lemma merge_runs_proj seen rest g : forall b prev fe,
  proj' (merge_runs seen rest prev b fe) g =
  if group_in b g || prev_is prev g
  then ovs (gkeys g seen) (proj' rest g) (proj' fe g ++ proj' b g)
  else proj' fe g.
Proof.
  induction b as [|e b IH]; intros prev fe.
  - simpl merge_runs. destruct prev as [p|]; simpl; [|reflexivity].
    destruct (str_eqb p g) eqn:Ep.
    + apply str_eqb_eq in Ep. subst p. rewrite over_group_proj_same, proj_nil, app_nil_r. reflexivity.
    + now apply over_group_proj_other.
  - rewrite merge_runs_cons, IH. clear IH.
    rewrite proj_app, (proj_cons (cpy e) []), proj_nil, (proj_cons e b), !group_in_cons.
    simpl (e_group (cpy e)). simpl (e_key (cpy e)). simpl (e_value (cpy e)).
    simpl (prev_is (Some _) _).
    destruct prev as [p|]; simpl (prev_is _ g).
    + destruct (str_eqb p g) eqn:Ep.
      * apply str_eqb_eq in Ep. subst p. rewrite (str_eqb_sym g (e_group e)), ?group_in_cons.
        destruct (str_eqb (e_group e) g) eqn:Eg; simpl orb.
        -- rewrite orb_true_r. rewrite <- !app_assoc. reflexivity.
        -- rewrite !orb_false_r, app_nil_r.
           destruct (group_in b g) eqn:Gb; simpl orb; cbv iota.
           ++ reflexivity.
           ++ rewrite over_group_proj_same, (group_in_false_proj _ _ Gb), app_nil_r. reflexivity.
      * assert (Hfe : proj' (if str_eqb p (e_group e) || (str_eqb (e_group e) p || group_in b p)
                             then fe else over_group p seen rest fe) g = proj' fe g).
        { destruct (str_eqb p (e_group e) || (str_eqb (e_group e) p || group_in b p)); [reflexivity|].
          now apply over_group_proj_other. }
        rewrite ?group_in_cons. rewrite Hfe. rewrite !orb_false_r.
        destruct (str_eqb (e_group e) g) eqn:Eg; simpl orb.
        -- rewrite orb_true_r. rewrite <- !app_assoc. reflexivity.
        -- rewrite !orb_false_r, app_nil_r. reflexivity.
    + rewrite !orb_false_r.
      destruct (str_eqb (e_group e) g) eqn:Eg; simpl orb.
      * rewrite orb_true_r. rewrite <- !app_assoc. reflexivity.
      * rewrite !orb_false_r, app_nil_r. reflexivity.
Qed.

(* ---------- add_new_groups ---------- *)

Definition notin (b : list entry) : entry -> bool := fun e => negb (group_in b (e_group e)).
Definition dropl (o : list entry) : list entry := skipn (length (leading_none o)) o.

Lemma lead_split o : leading_none o ++ dropl o = o.
Proof.
  unfold dropl. induction o as [|e o IH]; simpl; [reflexivity|].
  destruct (is_none e); simpl; [now rewrite IH|reflexivity].
Qed.

Lemma leading_none_all o x : In x (leading_none o) -> is_none x = true.
Proof.
  induction o as [|e o IH]; simpl; [tauto|].
  destruct (is_none e) eqn:E; simpl; [|tauto]. intros [<-|H]; auto.
Qed.

Lemma dropl_cons e o : dropl (e :: o) = if is_none e then dropl o else e :: o.
Proof. unfold dropl. simpl. destruct (is_none e); reflexivity. Qed.

Lemma add_new_false b o : forall fe, add_new b false o fe = fe ++ map cpy (filter (notin b) o).
Proof.
  induction o as [|e o IH]; intros fe; simpl.
  - now rewrite app_nil_r.
  - rewrite andb_false_r, IH. unfold notin at 2.
    destruct (group_in b (e_group e)); simpl; [reflexivity|].
    now rewrite <- app_assoc.
Qed.

Lemma add_new_true b o : forall fe, add_new b true o fe = fe ++ map cpy (filter (notin b) (dropl o)).
Proof.
  induction o as [|e o IH]; intros fe.
  - simpl. now rewrite app_nil_r.
  - rewrite dropl_cons. simpl add_new. destruct (is_none e); simpl andb; cbv iota.
    + apply IH.
    + rewrite add_new_false. simpl filter. unfold notin at 2.
      destruct (group_in b (e_group e)); simpl; [reflexivity|].
      now rewrite <- app_assoc.
Qed.

Lemma proj_notin b l g :
  proj' (filter (notin b) l) g = if group_in b g then [] else proj' l g.
Proof.
  induction l as [|e l IH]; simpl.
  - now destruct (group_in b g).
  - unfold notin at 1. destruct (group_in b (e_group e)) eqn:E; simpl.
    + rewrite IH, proj_cons. destruct (group_in b g) eqn:G; [reflexivity|].
      destruct (str_eqb (e_group e) g) eqn:Eg; [|reflexivity].
      apply str_eqb_eq in Eg. congruence.
    + rewrite !proj_cons, IH. destruct (group_in b g) eqn:G; [|reflexivity].
      destruct (str_eqb (e_group e) g) eqn:Eg; [|reflexivity].
      apply str_eqb_eq in Eg. congruence.
Qed.

(* ---------- the whole merge ---------- *)

Definition mpre (b o : list entry) : list entry :=
  if nogroup_first b o then leading_none o else [].
Definition mrest (b o : list entry) : list entry := skipn (length (mpre b o)) o.
Definition mfe1 (b o : list entry) : list entry :=
  merge_runs (rev (mpre b o)) (mrest b o) None b (map cpy (mpre b o)).

Lemma merge_entries_eq b o :
  merge_entries b o = mfe1 b o ++ map cpy (filter (notin b) (dropl o)).
Proof. unfold merge_entries. rewrite add_new_true. reflexivity. Qed.

Lemma mpre_split b o : mpre b o ++ mrest b o = o.
Proof.
  unfold mrest, mpre. destruct (nogroup_first b o); [apply lead_split|reflexivity].
Qed.

Lemma mpre_none b o x : In x (mpre b o) -> is_none x = true.
Proof. unfold mpre. destruct (nogroup_first b o); [apply leading_none_all|intros []]. Qed.

Lemma mrest_suffix b o : exists X, mrest b o = X ++ dropl o /\ forall x, In x X -> is_none x = true.
Proof.
  unfold mrest, mpre. destruct (nogroup_first b o).
  - exists []. split; [reflexivity|intros x []].
  - exists (leading_none o). split; [simpl; symmetry; apply lead_split|apply leading_none_all].
Qed.

Lemma none_filter g l : g <> none_s -> (forall x, In x l -> is_none x = true) ->
  filter (fun e => str_eqb (e_group e) g) l = [].
Proof.
  intros Hg H. apply nofilter. intros x Hx. apply H in Hx. unfold is_none in Hx.
  apply str_eqb_eq in Hx. rewrite Hx. apply str_eqb_neq. congruence.
Qed.

Lemma merge_proj_in b o g : has_group b g = true ->
  proj' (merge_entries b o) g =
  ovs (gkeys g (rev (mpre b o))) (proj' (mrest b o) g) (proj' (mpre b o) g ++ proj' b g).
Proof.
  intros H. change (group_in b g = true) in H.
  rewrite merge_entries_eq, proj_app, proj_cpy, proj_notin, H, app_nil_r.
  unfold mfe1. rewrite merge_runs_proj, H, proj_cpy. reflexivity.
Qed.

Lemma merge_proj_out b o g : has_group b g = false ->
  proj' (merge_entries b o) g = proj' (mpre b o) g ++ proj' (dropl o) g.
Proof.
  intros H. change (group_in b g = false) in H.
  rewrite merge_entries_eq, proj_app, proj_cpy, proj_notin, H.
  unfold mfe1. rewrite merge_runs_proj, H, proj_cpy. reflexivity.
Qed.

Lemma nogroup_first_false_none b o : nogroup_first b o = false ->
  leading_none o = [] \/ group_in b none_s = true.
Proof.
  unfold nogroup_first. destruct o as [|eo o]; simpl; [now left|].
  destruct (is_none eo) eqn:Eo; [|now left]. simpl.
  destruct b as [|eb b]; simpl; [discriminate|].
  unfold is_none. destruct (str_eqb (e_group eb) none_s); simpl; [now right|discriminate].
Qed.

Theorem merge_new_section : forall b o g,
  has_group b g = false -> proj' (merge_entries b o) g = proj' o g.
Proof.
  intros b o g H. rewrite merge_proj_out by assumption.
  rewrite <- (lead_split o) at 3. rewrite proj_app. f_equal.
  unfold mpre. destruct (nogroup_first b o) eqn:N; [reflexivity|].
  apply nogroup_first_false_none in N as [N|N].
  - now rewrite N.
  - assert (g <> none_s) by (intros ->; change (group_in b none_s = false) in H; congruence).
    unfold proj'. rewrite (none_filter g (leading_none o)); [reflexivity|assumption|apply leading_none_all].
Qed.

Theorem merge_section : forall b o g,
  has_group b g = true -> ~ (g = none_s /\ nogroup_first b o = true) ->
  proj' (merge_entries b o) g = al_override (proj' b g) (proj' o g).
Proof.
  intros b o g H Hn. rewrite merge_proj_in by assumption. rewrite al_override_ovs.
  assert (Ho : proj' o g = proj' (mpre b o) g ++ proj' (mrest b o) g)
    by (now rewrite <- proj_app, mpre_split).
  assert (Hp : proj' (mpre b o) g = [] /\ gkeys g (rev (mpre b o)) = []).
  { unfold proj', gkeys. destruct (str_eqb_spec g none_s) as [->|Hg].
    - unfold mpre. destruct (nogroup_first b o); [exfalso; auto|]. split; reflexivity.
    - rewrite !none_filter; auto.
      + intros x Hx. apply in_rev in Hx. now apply mpre_none in Hx.
      + apply mpre_none. }
  destruct Hp as [Hp1 Hp2]. rewrite Ho, Hp1, Hp2. reflexivity.
Qed.

(* ---------- lookups ---------- *)

Definition vz (x : option (option str)) : option str :=
  match x with Some (Some s) => Some s | Some None => Some [] | None => None end.

Lemma vis_vz es g k : vis es g k = vz (al_get (proj' es g) k).
Proof. reflexivity. Qed.

Lemma al_override1_get l k v k' :
  vz (al_get (al_override1 l k v) k') = if str_eqb k k' then vz (Some v) else vz (al_get l k').
Proof.
  induction l as [|[k0 v0] l IH]; simpl.
  - destruct (str_eqb k k'); reflexivity.
  - destruct (str_eqb k0 k) eqn:E0; simpl.
    + apply str_eqb_eq in E0. subst k0. destruct (str_eqb k k'); [|reflexivity].
      destruct v; reflexivity.
    + destruct (str_eqb k0 k') eqn:E1; [|exact IH].
      apply str_eqb_eq in E1. subst k0. now rewrite str_eqb_sym, E0.
Qed.

Lemma ovs_get k' ov : forall K l,
  vz (al_get (ovs K ov l) k') =
  if mem_str k' K then vz (al_get l k')
  else match al_get ov k' with Some v => vz (Some v) | None => vz (al_get l k') end.
Proof.
  induction ov as [|[k v] ov IH]; intros K l.
  - unfold ovs. simpl. now destruct (mem_str k' K).
  - rewrite ovs_cons. simpl al_get. destruct (mem_str k K) eqn:M.
    + rewrite IH. destruct (mem_str k' K) eqn:M'; [reflexivity|].
      destruct (str_eqb k k') eqn:E; [|reflexivity].
      apply str_eqb_eq in E. congruence.
    + rewrite IH. simpl mem_str. rewrite al_override1_get, (str_eqb_sym k' k).
      destruct (str_eqb k k') eqn:E; simpl orb; cbv iota.
      * apply str_eqb_eq in E. subst k'. now rewrite M.
      * reflexivity.
Qed.

Lemma al_get_app l1 l2 k :
  al_get (l1 ++ l2) k = match al_get l1 k with Some v => Some v | None => al_get l2 k end.
Proof.
  induction l1 as [|[k0 v0] l1 IH]; simpl; [reflexivity|].
  destruct (str_eqb k0 k); [reflexivity|exact IH].
Qed.

Lemma mem_gkeys g l k :
  mem_str k (gkeys g l) = match al_get (proj' l g) k with Some _ => true | None => false end.
Proof.
  induction l as [|e l IH]; [reflexivity|].
  rewrite gkeys_cons, proj_cons. destruct (str_eqb (e_group e) g); [|exact IH].
  simpl. rewrite (str_eqb_sym k (e_key e)). destruct (str_eqb (e_key e) k); [reflexivity|exact IH].
Qed.

Lemma mem_gkeys_rev g l k : mem_str k (gkeys g (rev l)) = mem_str k (gkeys g l).
Proof.
  apply eq_true_iff_eq. rewrite !mem_str_In. unfold gkeys. rewrite !in_map_iff.
  split; intros (x & Hx & Hin); exists x; split; auto;
    apply filter_In in Hin as [H1 H2]; apply filter_In; split; auto.
  - now rewrite in_rev.
  - now rewrite <- in_rev.
Qed.

Theorem merge_lookup : forall b o g k,
  vis (merge_entries b o) g k = match vis o g k with Some v => Some v | None => vis b g k end.
Proof.
  intros b o g k. rewrite !vis_vz. destruct (has_group b g) eqn:H.
  - rewrite merge_proj_in by assumption.
    assert (Ho : proj' o g = proj' (mpre b o) g ++ proj' (mrest b o) g)
      by (now rewrite <- proj_app, mpre_split).
    rewrite Ho, ovs_get, mem_gkeys_rev, mem_gkeys, !al_get_app.
    destruct (al_get (proj' (mpre b o) g) k) as [[s|]|]; try reflexivity.
    destruct (al_get (proj' (mrest b o) g) k) as [[s|]|]; reflexivity.
  - rewrite merge_new_section by assumption.
    change (group_in b g = false) in H. rewrite (group_in_false_proj _ _ H). simpl.
    destruct (vz (al_get (proj' o g) k)); reflexivity.
Qed.

(* ---------- shape of the result: only appends, keys kept ---------- *)

Lemma gk_cpy e : gk (cpy e) = gk e.
Proof. reflexivity. Qed.

Lemma map_gk_cpy l : map gk (map cpy l) = map gk l.
Proof. rewrite map_map. apply map_ext. intros; apply gk_cpy. Qed.

Lemma ostep_shape fe e : map gk (ostep fe e) = map gk fe \/ ostep fe e = fe ++ [cpy e].
Proof.
  induction fe as [|x fe IH]; [now right|].
  destruct (same_gk x e) eqn:E.
  - left. rewrite ostep_cons_hit by assumption. reflexivity.
  - rewrite ostep_cons_miss by assumption. destruct IH as [IH|IH].
    + left. simpl. now rewrite IH.
    + right. now rewrite IH.
Qed.

Lemma ostep_len fe e : (length (ostep fe e) <= S (length fe))%nat.
Proof.
  destruct (ostep_shape fe e) as [H|H].
  - apply (f_equal (@length _)) in H. rewrite !map_length in H. lia.
  - rewrite H, app_length. simpl. lia.
Qed.

Definition cnt {A} (p : A -> bool) (l : list A) : nat := length (filter p l).

Lemma cnt_cons {A} (p : A -> bool) x l : cnt p (x :: l) = ((if p x then 1 else 0) + cnt p l)%nat.
Proof. unfold cnt. simpl. destruct (p x); reflexivity. Qed.

Lemma cnt_app {A} (p : A -> bool) l1 l2 : cnt p (l1 ++ l2) = (cnt p l1 + cnt p l2)%nat.
Proof. unfold cnt. now rewrite filter_app, app_length. Qed.

Lemma cnt_add3 {A} (P Q R : A -> bool) l :
  (forall x, P x = true -> R x = true) -> (forall x, Q x = true -> R x = true) ->
  (forall x, P x = true -> Q x = true -> False) ->
  (cnt P l + cnt Q l <= cnt R l)%nat.
Proof.
  intros H1 H2 H3. induction l as [|x l IH]; [reflexivity|].
  rewrite !cnt_cons. specialize (H1 x). specialize (H2 x). specialize (H3 x).
  destruct (P x), (Q x); try (exfalso; now apply H3);
    try rewrite (H1 eq_refl); try rewrite (H2 eq_refl); try lia;
    destruct (R x); lia.
Qed.

Lemma cnt_mono {A} (P R : A -> bool) l :
  (forall x, P x = true -> R x = true) -> (cnt P l <= cnt R l)%nat.
Proof.
  intros H. induction l as [|x l IH]; [reflexivity|].
  rewrite !cnt_cons. specialize (H x). destruct (P x); [rewrite (H eq_refl)|destruct (R x)]; lia.
Qed.

Lemma cnt_true {A} (l : list A) : cnt (fun _ => true) l = length l.
Proof. induction l; [reflexivity|]. rewrite cnt_cons, IHl. reflexivity. Qed.

Lemma over_group_len g rest : forall seen fe,
  (length (over_group g seen rest fe) <= length fe + cnt (fun e => str_eqb (e_group e) g) rest)%nat.
Proof.
  induction rest as [|e rest IH]; intros seen fe.
  - simpl. lia.
  - rewrite over_group_cons, cnt_cons.
    match goal with |- (length (over_group _ _ _ ?f) <= _)%nat => specialize (IH (e :: seen) f) end.
    destruct (str_eqb (e_group e) g); simpl andb in *; cbv iota in *; [|lia].
    destruct (negb (existsb (same_gk e) seen)); [|lia].
    pose proof (ostep_len fe e). lia.
Qed.

Lemma merge_runs_len seen rest : forall b prev fe,
  (length (merge_runs seen rest prev b fe) <=
   length fe + length b + cnt (fun x => group_in b (e_group x) || prev_is prev (e_group x)) rest)%nat.
Proof.
  induction b as [|e b IH]; intros prev fe.
  - simpl merge_runs. destruct prev as [p|]; simpl; [|lia].
    pose proof (over_group_len p rest seen fe) as H.
    assert (cnt (fun e => str_eqb (e_group e) p) rest <= cnt (fun x => str_eqb p (e_group x)) rest)%nat
      by (apply cnt_mono; intros x Hx; now rewrite str_eqb_sym).
    lia.
  - rewrite merge_runs_cons. change (length (e :: b)) with (S (length b)).
    pose (Q := fun x => group_in b (e_group x) || str_eqb (e_group e) (e_group x)).
    set (R := fun x => group_in (e :: b) (e_group x) || prev_is prev (e_group x)).
    assert (IH' : forall f,
      (length (merge_runs seen rest (Some (e_group e)) b (f ++ [cpy e])) <=
       length f + 1 + length b + cnt Q rest)%nat).
    { intros f. specialize (IH (Some (e_group e)) (f ++ [cpy e])).
      rewrite app_length in IH. exact IH. }
    clear IH.
    assert (HQR : forall x, Q x = true -> R x = true).
    { intros x. unfold Q, R. rewrite group_in_cons. intros H.
      apply orb_true_iff in H as [H|H]; rewrite H; [now rewrite orb_true_r|reflexivity]. }
    pose proof (cnt_mono Q R rest HQR) as Hm.
    destruct prev as [p|].
    + destruct (str_eqb p (e_group e) || group_in (e :: b) p) eqn:C.
      * specialize (IH' fe). clear HQR C. clearbody Q R. lia.
      * specialize (IH' (over_group p seen rest fe)).
        pose proof (over_group_len p rest seen fe) as Ho.
        assert (cnt (fun e0 => str_eqb (e_group e0) p) rest + cnt Q rest <= cnt R rest)%nat.
        { apply cnt_add3; auto.
          - intros x Hx. unfold R. unfold prev_is. rewrite (str_eqb_sym p), Hx. apply orb_true_r.
          - intros x Hx Hq. apply str_eqb_eq in Hx. unfold Q in Hq. rewrite Hx in Hq.
            apply orb_false_iff in C as [C1 C2]. rewrite group_in_cons in C2.
            apply orb_false_iff in C2 as [C2 C3]. rewrite C3, C2 in Hq. discriminate. }
        clear HQR C. clearbody Q R. lia.
    + specialize (IH' fe). clear HQR. clearbody Q R. lia.
Qed.

Theorem merge_bound : forall b o, (length (merge_entries b o) <= length b + length o)%nat.
Proof.
  intros b o. rewrite merge_entries_eq, app_length, map_length.
  pose proof (merge_runs_len (rev (mpre b o)) (mrest b o) b None (map cpy (mpre b o))) as H.
  fold (mfe1 b o) in H. rewrite map_length in H. simpl prev_is in H.
  pose proof (f_equal (@length _) (mpre_split b o)) as Hl. rewrite app_length in Hl.
  destruct (mrest_suffix b o) as (X & HX & _).
  fold (cnt (notin b) (dropl o)).
  assert (cnt (fun x => group_in b (e_group x) || false) (mrest b o) + cnt (notin b) (dropl o)
          <= length (mrest b o))%nat.
  { rewrite <- (cnt_true (mrest b o)).
    assert (cnt (notin b) (dropl o) <= cnt (notin b) (mrest b o))%nat
      by (rewrite HX, cnt_app; lia).
    pose proof (cnt_add3 (fun x => group_in b (e_group x) || false) (notin b) (fun _ => true) (mrest b o)) as H3.
    cut (cnt (fun x => group_in b (e_group x) || false) (mrest b o) + cnt (notin b) (mrest b o)
         <= cnt (fun _ => true) (mrest b o))%nat; [lia|].
    apply H3; auto. intros x. unfold notin. rewrite orb_false_r.
    destruct (group_in b (e_group x)); simpl; congruence. }
  lia.
Qed.

(* ---------- nothing else appears ---------- *)

Definition Cov (S l : list entry) : Prop := forall x, In x l -> exists y, In y S /\ gk y = gk x.

Lemma Cov_app S l1 l2 : Cov S l1 -> Cov S l2 -> Cov S (l1 ++ l2).
Proof. intros H1 H2 x Hx. apply in_app_iff in Hx as [Hx|Hx]; auto. Qed.

Lemma Cov_gk S l l' : map gk l' = map gk l -> Cov S l -> Cov S l'.
Proof.
  intros E H x Hx. apply (in_map gk) in Hx. rewrite E in Hx.
  apply in_map_iff in Hx as (z & Hz & Hin). destruct (H z Hin) as (y & Hy & Hg).
  exists y. split; [assumption|congruence].
Qed.

Lemma Cov_cpy S l : incl l S -> Cov S (map cpy l).
Proof.
  intros H x Hx. apply in_map_iff in Hx as (z & <- & Hz). exists z. split; [now apply H|reflexivity].
Qed.

Lemma ostep_cov S fe e : Cov S fe -> In e S -> Cov S (ostep fe e).
Proof.
  intros H He. destruct (ostep_shape fe e) as [E|E].
  - now apply (Cov_gk S fe).
  - rewrite E. apply Cov_app; [assumption|]. apply (Cov_cpy S [e]). intros x [<-|[]]. assumption.
Qed.

Lemma over_group_cov S g rest : forall seen fe,
  incl rest S -> Cov S fe -> Cov S (over_group g seen rest fe).
Proof.
  induction rest as [|e rest IH]; intros seen fe Hr Hf; [exact Hf|].
  rewrite over_group_cons. apply IH.
  - intros x Hx. apply Hr. now right.
  - destruct (str_eqb (e_group e) g && negb (existsb (same_gk e) seen)); [|exact Hf].
    apply ostep_cov; [exact Hf|]. apply Hr. now left.
Qed.

Lemma merge_runs_cov S seen rest : incl rest S -> forall b prev fe,
  incl b S -> Cov S fe -> Cov S (merge_runs seen rest prev b fe).
Proof.
  intros Hr. induction b as [|e b IH]; intros prev fe Hb Hf.
  - simpl. destruct prev; [now apply over_group_cov|exact Hf].
  - rewrite merge_runs_cons. apply IH.
    + intros x Hx. apply Hb. now right.
    + apply Cov_app.
      * destruct prev as [p|]; [|exact Hf].
        destruct (str_eqb p (e_group e) || group_in (e :: b) p); [exact Hf|].
        now apply over_group_cov.
      * apply (Cov_cpy S [e]). intros x [<-|[]]. apply Hb. now left.
Qed.

Theorem merge_nothing_else : forall b o e,
  In e (merge_entries b o) -> exists x, In x (b ++ o) /\ gk x = gk e.
Proof.
  intros b o. change (Cov (b ++ o) (merge_entries b o)).
  assert (Hpre : incl (mpre b o) (b ++ o)).
  { intros x Hx. apply in_app_iff. right. rewrite <- (mpre_split b o). apply in_app_iff. now left. }
  assert (Hrest : incl (mrest b o) (b ++ o)).
  { intros x Hx. apply in_app_iff. right. rewrite <- (mpre_split b o). apply in_app_iff. now right. }
  rewrite merge_entries_eq. apply Cov_app.
  - unfold mfe1. apply merge_runs_cov; auto.
    + intros x Hx. apply in_app_iff. now left.
    + now apply Cov_cpy.
  - apply Cov_cpy. intros x Hx. apply filter_In in Hx as [Hx _].
    apply in_app_iff. right. rewrite <- (lead_split o). apply in_app_iff. now right.
Qed.

(* ---------- order of the base's keys ---------- *)

Inductive Sub {A} : list A -> list A -> Prop :=
| Sub_nil l : Sub [] l
| Sub_cons x a b : Sub a b -> Sub (x :: a) (x :: b)
| Sub_skip y a b : Sub a b -> Sub a (y :: b).

Lemma Sub_refl {A} (l : list A) : Sub l l.
Proof. induction l; constructor; auto. Qed.

Lemma Sub_app_l {A} (p a b : list A) : Sub a b -> Sub a (p ++ b).
Proof. intros H. induction p; simpl; [assumption|]. now constructor. Qed.

Lemma Sub_app_r {A} (a b t : list A) : Sub a b -> Sub a (b ++ t).
Proof. intros H. induction H; simpl; constructor; auto. Qed.

Lemma Sub_tail {A} (x : A) a b : Sub (x :: a) b -> Sub a b.
Proof.
  intros H. remember (x :: a) as xa eqn:E. revert x a E.
  induction H; intros x0 a0 E; [discriminate| |].
  - inversion E; subst. now constructor.
  - constructor. eapply IHSub. eassumption.
Qed.

Lemma gk_eqb_eq a b : gk_eqb a b = true <-> a = b.
Proof.
  destruct a as [a1 a2], b as [b1 b2]. unfold gk_eqb. simpl.
  rewrite andb_true_iff, !str_eqb_eq. split; [intros [-> ->]; reflexivity|intros H; inversion H; auto].
Qed.

Lemma subseq_complete : forall b a, Sub a b -> subseq gk_eqb a b = true.
Proof.
  induction b as [|y b IH]; intros a H.
  - inversion H; subst. reflexivity.
  - destruct a as [|x a]; [reflexivity|]. simpl.
    destruct (gk_eqb x y) eqn:E.
    + apply IH. inversion H; subst; [assumption|]. eapply Sub_tail; eassumption.
    + apply IH. inversion H; subst; [|assumption].
      rewrite (proj2 (gk_eqb_eq y y) eq_refl) in E. discriminate.
Qed.

Lemma over_group_shape g rest : forall seen fe,
  exists t, map gk (over_group g seen rest fe) = map gk fe ++ t /\ forall p, In p t -> fst p = g.
Proof.
  induction rest as [|e rest IH]; intros seen fe.
  - exists []. simpl. rewrite app_nil_r. split; [reflexivity|intros p []].
  - rewrite over_group_cons.
    destruct (str_eqb (e_group e) g && negb (existsb (same_gk e) seen)) eqn:C; [|apply IH].
    destruct (IH (e :: seen) (ostep fe e)) as (t & Ht & Hg).
    destruct (ostep_shape fe e) as [E|E].
    + exists t. rewrite Ht, E. auto.
    + exists (gk e :: t). rewrite Ht, E, map_app. simpl. rewrite <- app_assoc. split; [reflexivity|].
      intros p [<-|Hp]; [|auto]. apply andb_true_iff in C as [C _]. now apply str_eqb_eq in C.
Qed.

Lemma merge_runs_shape seen rest : forall b prev fe,
  exists t, map gk (merge_runs seen rest prev b fe) = map gk fe ++ t /\ Sub (map gk b) t.
Proof.
  induction b as [|e b IH]; intros prev fe.
  - simpl merge_runs. destruct prev as [p|].
    + destruct (over_group_shape p rest seen fe) as (t & Ht & _). exists t. split; [assumption|constructor].
    + exists []. rewrite app_nil_r. split; [reflexivity|constructor].
  - rewrite merge_runs_cons.
    match goal with |- context [merge_runs _ _ _ _ (?f ++ _)] => set (fe1 := f) end.
    assert (H1 : exists t1, map gk fe1 = map gk fe ++ t1).
    { unfold fe1. destruct prev as [p|]; [|exists []; now rewrite app_nil_r].
      destruct (str_eqb p (e_group e) || group_in (e :: b) p); [exists []; now rewrite app_nil_r|].
      destruct (over_group_shape p rest seen fe) as (t & Ht & _). now exists t. }
    destruct H1 as (t1 & Ht1).
    destruct (IH (Some (e_group e)) (fe1 ++ [cpy e])) as (t2 & Ht2 & Hs).
    exists (t1 ++ gk e :: t2). split.
    + rewrite Ht2, map_app, Ht1. simpl. rewrite <- !app_assoc. reflexivity.
    + simpl. apply Sub_app_l. now constructor.
Qed.

Lemma merge_entries_shape b o :
  exists t, map gk (merge_entries b o) = map gk (mpre b o) ++ t /\ Sub (map gk b) t.
Proof.
  rewrite merge_entries_eq. unfold mfe1.
  destruct (merge_runs_shape (rev (mpre b o)) (mrest b o) b None (map cpy (mpre b o))) as (t & Ht & Hs).
  exists (t ++ map gk (map cpy (filter (notin b) (dropl o)))). split.
  - rewrite map_app, Ht, map_gk_cpy, <- app_assoc. reflexivity.
  - now apply Sub_app_r.
Qed.

Theorem merge_base_order : forall b o, subseq gk_eqb (map gk b) (map gk (merge_entries b o)) = true.
Proof.
  intros b o. apply subseq_complete. destruct (merge_entries_shape b o) as (t & Ht & Hs).
  rewrite Ht. now apply Sub_app_l.
Qed.

(* ---------- group-less keys lead ---------- *)

Lemma merge_entries_head e b o :
  exists t, map gk (merge_entries (e :: b) o) = map gk (mpre (e :: b) o) ++ gk e :: t.
Proof.
  rewrite merge_entries_eq. unfold mfe1. rewrite merge_runs_cons.
  match goal with |- context [merge_runs ?s ?r ?p _ ?f] =>
    destruct (merge_runs_shape s r b p f) as (t & Ht & _) end.
  exists (t ++ map gk (map cpy (filter (notin (e :: b)) (dropl o)))).
  rewrite map_app, Ht, map_app, map_gk_cpy. simpl. rewrite <- !app_assoc. reflexivity.
Qed.

Theorem merge_nogroup_first : forall b o, chk_nogroup_first b o = true.
Proof.
  intros b o. unfold chk_nogroup_first.
  destruct (merge_entries_shape b o) as (t & Ht & Hs).
  assert (Hh : forall eb b', b = eb :: b' -> exists t, map gk (merge_entries b o) = map gk (mpre b o) ++ gk eb :: t)
    by (intros eb b' ->; apply merge_entries_head).
  remember (merge_entries b o) as m eqn:Em. clear Em.
  assert (Hlead : forall x l, map gk m = gk x :: l ->
            match m with e :: _ => is_none e | [] => false end = is_none x).
  { intros x l H. destruct m as [|y m]; [discriminate|]. simpl in H. inversion H.
    unfold is_none. unfold gk in H1. inversion H1. congruence. }
  destruct b as [|eb b].
  - simpl. destruct o as [|eo o]; [reflexivity|].
    destruct (is_none eo) eqn:Eo; [|reflexivity]. simpl.
    unfold mpre, nogroup_first in Ht. rewrite Eo in Ht. simpl in Ht. rewrite Eo in Ht. simpl in Ht.
    rewrite (Hlead _ _ Ht). exact Eo.
  - destruct (is_none eb) eqn:Eb.
    + simpl orb. cbv iota.
      assert (mpre (eb :: b) o = []) as Hp.
      { unfold mpre, nogroup_first. rewrite Eb. simpl. now rewrite andb_false_r. }
      destruct (Hh eb b eq_refl) as (t' & Ht'). rewrite Hp in Ht'. simpl in Ht'.
      rewrite (Hlead _ _ Ht'). exact Eb.
    + rewrite orb_false_l. destruct (has_group (eb :: b) none_s); [now rewrite andb_false_r|].
      rewrite andb_true_r. destruct o as [|eo o]; [reflexivity|].
      destruct (is_none eo) eqn:Eo; [|reflexivity].
      unfold mpre, nogroup_first in Ht. rewrite Eo, Eb in Ht. simpl in Ht. rewrite Eo in Ht. simpl in Ht.
      rewrite (Hlead _ _ Ht). exact Eo.
Qed.

(* ---------- sections ---------- *)

Lemma groups_of_fold l : forall acc,
  fold_left (fun gs e => intern gs (e_group e)) l acc = fold_left intern (map e_group l) acc.
Proof. induction l as [|e l IH]; intros acc; simpl; auto. Qed.

Lemma groups_of_map l : groups_of l = fold_left intern (map e_group l) [].
Proof. apply groups_of_fold. Qed.

Lemma groups_of_app l1 l2 : groups_of (l1 ++ l2) = fold_left intern (map e_group l2) (groups_of l1).
Proof. rewrite !groups_of_map, map_app, fold_left_app. reflexivity. Qed.

Lemma map_group_gk l : map e_group l = map fst (map gk l).
Proof. rewrite map_map. reflexivity. Qed.

Lemma map_group_cpy l : map e_group (map cpy l) = map e_group l.
Proof. rewrite map_map. reflexivity. Qed.

Lemma groups_of_gk l l' t : map gk l' = map gk l ++ t ->
  groups_of l' = fold_left intern (map fst t) (groups_of l).
Proof. intros H. rewrite !groups_of_map, !map_group_gk, H, map_app, fold_left_app. reflexivity. Qed.

Lemma mem_str_app g a b : mem_str g (a ++ b) = mem_str g a || mem_str g b.
Proof. induction a as [|x a IH]; simpl; [reflexivity|]. now rewrite IH, orb_assoc. Qed.

Lemma mem_intern g acc x : mem_str g (intern acc x) = mem_str g acc || str_eqb g x.
Proof.
  unfold intern. destruct (mem_str x acc) eqn:E.
  - destruct (str_eqb g x) eqn:Eg; [|now rewrite orb_false_r].
    apply str_eqb_eq in Eg. subst. now rewrite E.
  - rewrite mem_str_app. simpl. now rewrite orb_false_r.
Qed.

Lemma mem_fold g l : forall acc, mem_str g (fold_left intern l acc) = mem_str g acc || mem_str g l.
Proof.
  induction l as [|x l IH]; intros acc; simpl; [now rewrite orb_false_r|].
  now rewrite IH, mem_intern, orb_assoc.
Qed.

Lemma mem_groups l g : mem_str g (map e_group l) = group_in l g.
Proof.
  induction l as [|e l IH]; [reflexivity|]. rewrite group_in_cons. simpl.
  now rewrite IH, str_eqb_sym.
Qed.

Lemma mem_groups_of l g : mem_str g (groups_of l) = group_in l g.
Proof. rewrite groups_of_map, mem_fold. simpl. apply mem_groups. Qed.

Lemma intern_noop gs : forall acc, (forall x, In x gs -> mem_str x acc = true) ->
  fold_left intern gs acc = acc.
Proof.
  induction gs as [|a gs IH]; intros acc H; simpl; [reflexivity|].
  replace (intern acc a) with acc by (unfold intern; rewrite H; [reflexivity|now left]).
  apply IH. intros x Hx. apply H. now right.
Qed.

Lemma over_group_groups g seen rest fe : group_in fe g = true ->
  groups_of (over_group g seen rest fe) = groups_of fe.
Proof.
  intros H. destruct (over_group_shape g rest seen fe) as (t & Ht & Hg).
  rewrite (groups_of_gk _ _ _ Ht). apply intern_noop. intros x Hx.
  apply in_map_iff in Hx as (p & <- & Hp). rewrite (Hg p Hp), mem_groups_of. exact H.
Qed.

Lemma merge_runs_groups seen rest : forall b prev fe,
  (forall p, prev = Some p -> group_in fe p = true) ->
  groups_of (merge_runs seen rest prev b fe) = fold_left intern (map e_group b) (groups_of fe).
Proof.
  induction b as [|e b IH]; intros prev fe H.
  - simpl merge_runs. destruct prev as [p|]; simpl; [|reflexivity].
    apply over_group_groups. now apply H.
  - rewrite merge_runs_cons.
    match goal with |- context [merge_runs _ _ _ _ (?f ++ _)] => set (fe1 := f) end.
    assert (H1 : groups_of fe1 = groups_of fe).
    { unfold fe1. destruct prev as [p|]; [|reflexivity].
      destruct (str_eqb p (e_group e) || group_in (e :: b) p); [reflexivity|].
      apply over_group_groups. now apply H. }
    rewrite IH.
    + rewrite groups_of_app, H1. reflexivity.
    + intros p Hp. inversion Hp; subst p. unfold group_in. rewrite existsb_app. simpl.
      rewrite str_eqb_refl. simpl. apply orb_true_r.
Qed.

Lemma named_cons a l : named (a :: l) = if str_eqb a none_s then named l else a :: named l.
Proof. unfold named. simpl. destruct (str_eqb a none_s); reflexivity. Qed.

Lemma named_app a b : named (a ++ b) = named a ++ named b.
Proof. unfold named. apply filter_app. Qed.

Lemma named_intern_none gs : named (intern gs none_s) = named gs.
Proof.
  unfold intern. destruct (mem_str none_s gs); [reflexivity|].
  rewrite named_app, named_cons, str_eqb_refl. apply app_nil_r.
Qed.

Lemma mem_str_named g gs : g <> none_s -> mem_str g (named gs) = mem_str g gs.
Proof.
  intros Hg. induction gs as [|x gs IH]; [reflexivity|]. rewrite named_cons. simpl.
  destruct (str_eqb x none_s) eqn:E; simpl.
  - apply str_eqb_eq in E. subst x.
    replace (str_eqb g none_s) with false by (symmetry; now apply str_eqb_neq). exact IH.
  - now rewrite IH.
Qed.

Lemma named_intern g gs : g <> none_s -> named (intern gs g) = intern (named gs) g.
Proof.
  intros Hg. unfold intern. rewrite mem_str_named by exact Hg.
  destruct (mem_str g gs); [reflexivity|].
  rewrite named_app, named_cons.
  replace (str_eqb g none_s) with false by (symmetry; now apply str_eqb_neq). reflexivity.
Qed.

Lemma named_fold l : forall acc, named (fold_left intern l acc) = fold_left intern (named l) (named acc).
Proof.
  induction l as [|a l IH]; intros acc; [reflexivity|].
  rewrite named_cons. change (fold_left intern (a :: l) acc) with (fold_left intern l (intern acc a)).
  rewrite IH. destruct (str_eqb a none_s) eqn:E.
  - apply str_eqb_eq in E. subst a. now rewrite named_intern_none.
  - apply str_eqb_neq in E. simpl. now rewrite named_intern.
Qed.

Lemma V_eq l : named (groups_of l) = fold_left intern (named (map e_group l)) [].
Proof. rewrite groups_of_map, named_fold. reflexivity. Qed.

Lemma named_none_all l : (forall x, In x l -> is_none x = true) -> named (map e_group l) = [].
Proof.
  induction l as [|e l IH]; intros H; [reflexivity|]. simpl map. rewrite named_cons.
  pose proof (H e (or_introl eq_refl)) as He. unfold is_none in He. rewrite He.
  apply IH. intros x Hx. apply H. now right.
Qed.

Lemma named_notin b l :
  named (map e_group (filter (notin b) l)) =
  filter (fun g => negb (mem_str g (named (groups_of b)))) (named (map e_group l)).
Proof.
  induction l as [|a l IH]; [reflexivity|].
  simpl filter at 1. simpl map. rewrite (named_cons (e_group a)). unfold notin at 1.
  destruct (str_eqb (e_group a) none_s) eqn:En.
  - destruct (group_in b (e_group a)); simpl negb; cbv iota; [exact IH|].
    simpl map. rewrite named_cons, En. exact IH.
  - assert (Hm : mem_str (e_group a) (named (groups_of b)) = group_in b (e_group a)).
    { apply str_eqb_neq in En. rewrite mem_str_named by exact En. apply mem_groups_of. }
    simpl filter. rewrite Hm.
    destruct (group_in b (e_group a)); simpl negb; cbv iota; [exact IH|].
    simpl map. rewrite named_cons, En, IH. reflexivity.
Qed.

Lemma intern_fold_filter acc0 l : forall acc,
  (forall g, mem_str g acc0 = true -> mem_str g acc = true) ->
  fold_left intern (filter (fun g => negb (mem_str g acc0)) l) acc = fold_left intern l acc.
Proof.
  induction l as [|a l IH]; intros acc H; [reflexivity|]. simpl.
  destruct (mem_str a acc0) eqn:E; simpl.
  - replace (intern acc a) with acc by (unfold intern; now rewrite (H _ E)).
    now apply IH.
  - apply IH. intros g Hg. rewrite mem_intern, (H _ Hg). reflexivity.
Qed.

Lemma mem_str_filter (p : str -> bool) x l : mem_str x (filter p l) = mem_str x l && p x.
Proof.
  induction l as [|a l IH]; [reflexivity|]. simpl.
  destruct (str_eqb x a) eqn:E.
  - apply str_eqb_eq in E. subst a. destruct (p x) eqn:P; simpl.
    + now rewrite str_eqb_refl.
    + rewrite IH. apply andb_false_r.
  - destruct (p a); simpl; [rewrite E|]; exact IH.
Qed.

Lemma U_app l : forall acc,
  fold_left intern l acc = acc ++ filter (fun g => negb (mem_str g acc)) (fold_left intern l []).
Proof.
  induction l as [|x l IH] using rev_ind; intros acc.
  - simpl. now rewrite app_nil_r.
  - rewrite !fold_left_app. simpl. rewrite IH.
    set (U := fold_left intern l []). set (p := fun g => negb (mem_str g acc)).
    unfold intern. rewrite mem_str_app, mem_str_filter.
    destruct (mem_str x U) eqn:EU.
    + unfold p. destruct (mem_str x acc); reflexivity.
    + rewrite andb_false_l, orb_false_r, filter_app. simpl. subst p. cbv beta.
      destruct (mem_str x acc); simpl; rewrite ?app_nil_r, ?app_assoc; reflexivity.
Qed.

Theorem merge_sections : forall b o,
  named (groups_of (merge_entries b o)) =
  named (groups_of b) ++ filter (fun g => negb (mem_str g (named (groups_of b)))) (named (groups_of o)).
Proof.
  intros b o. rewrite merge_entries_eq, groups_of_app. unfold mfe1.
  rewrite merge_runs_groups by (intros p Hp; discriminate).
  rewrite !named_fold, (V_eq (map cpy (mpre b o))), !map_group_cpy.
  rewrite (named_none_all (mpre b o)) by apply mpre_none. simpl fold_left at 3.
  rewrite <- (V_eq b), named_notin.
  assert (Hd : named (map e_group (dropl o)) = named (map e_group o)).
  { rewrite <- (lead_split o) at 2. rewrite map_app, named_app.
    rewrite (named_none_all (leading_none o)) by apply leading_none_all. reflexivity. }
  rewrite Hd, intern_fold_filter by auto. rewrite U_app, <- V_eq. reflexivity.
Qed.
