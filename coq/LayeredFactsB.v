From Coq Require Import String Lia List.
From Econf Require Import Bytes BytesFacts LayeredSpec MergeFacts.
Local Open Scope N_scope.

(* ================= PART B: structure of the layered read (C01, C12) ================= *)

(* B1 *)
Theorem merge_rest_fold : forall files cur, merge_rest cur files = fold_left merge_model (visible files) cur.
Proof.
  induction files as [|f rest IH]; intros cur.
  - reflexivity.
  - cbn [merge_rest visible]. destruct (masked f rest).
    + apply IH.
    + cbn [fold_left]. apply IH.
Qed.

Theorem merge_files_spec : forall f rest,
  masked f rest = false -> merge_files (f :: rest) = merge_spec_files (f :: rest).
Proof.
  intros f rest H. unfold merge_files, merge_spec_files.
  cbn [visible]. rewrite H. rewrite merge_rest_fold. reflexivity.
Qed.

(* B2 *)
Lemma lb_merge_model_entries : forall b o,
  kf_entries (merge_model b o) = merge_entries (kf_entries b) (kf_entries o).
Proof. intros; reflexivity. Qed.

Theorem fold_merge_lookup : forall files f g k,
  vis (kf_entries (fold_left merge_model files f)) g k =
  match last_def files g k with Some v => Some v | None => vis (kf_entries f) g k end.
Proof.
  induction files as [|a rest IH]; intros f g k.
  - reflexivity.
  - cbn [fold_left last_def]. rewrite IH.
    destruct (last_def rest g k) as [v|]; [reflexivity|].
    rewrite lb_merge_model_entries. apply merge_lookup.
Qed.

(* B5 (used by B3) *)
Theorem history_nofile : forall t g cb o parse_dirs conf_dirs name sfx dl cm,
  ho_res (history t g cb o parse_dirs conf_dirs name sfx dl cm) <> inr [].
Proof.
  intros. unfold history. destruct name as [nm|]; [|cbn; discriminate].
  destruct nm as [|c nm'].
  - destruct (read_dropins t g cb o (dropin_dirs parse_dirs conf_dirs [] []) [] [] dl cm [] [])
      as [[[e|[|f fs]] evs'] g2]; cbn; discriminate.
  - destruct (find_main t g cb o (rev parse_dirs) (c :: nm') (norm_suffix sfx) dl cm [])
      as [[[e|m] evs] g1]; [cbn; discriminate|].
    destruct (read_dropins t g1 cb o
                (dropin_dirs parse_dirs conf_dirs (c :: nm') (norm_suffix sfx))
                (c :: nm') (norm_suffix sfx) dl cm
                match m with Some kf => [kf] | None => [] end evs)
      as [[[e|[|f fs]] evs'] g2]; cbn; discriminate.
Qed.

(* B3 *)
Theorem read_dirs_is_history_merge : forall t g cb dist etc name sfx dl cm,
  let h := read_dirs_history t g cb dist etc name sfx dl cm in
  let r := read_dirs t g cb dist etc name sfx dl cm in
  r2_events r = ho_events h /\ r2_g r = ho_g h /\
  match ho_res h with
  | inl e => r2_err r = e
  | inr files => r2_err r = ECONF_SUCCESS /\ r2_obj r = merge_files files
  end.
Proof.
  intros. subst h r. unfold read_dirs, read_config_obj, read_dirs_history.
  cbv beta iota zeta delta [kf_conf_dirs kf_python kf_join kf_parse_dirs].
  pose proof (history_nofile t g cb (mkPopts false false)
                [str_or_empty dist; str_or_empty etc] (g_conf_dirs g) name sfx dl cm) as Hn.
  destruct (ho_res (history t g cb (mkPopts false false)
                [str_or_empty dist; str_or_empty etc] (g_conf_dirs g) name sfx dl cm))
    as [e|[|f fs]].
  - cbn. auto.
  - congruence.
  - cbn. auto.
Qed.

Theorem read_dirs_is_read_config : forall t g cb dist etc name sfx dl cm nm,
  name = Some nm -> nm <> [] ->
  let obj := mkKF [] 0 [] 0 0 None false false [str_or_empty dist; str_or_empty etc] [] None in
  let a := read_dirs t g cb dist etc name sfx dl cm in
  let b := read_config t g cb (Some obj) None None name sfx dl cm in
  r2_err a = r2_err b /\ r2_obj a = r2_obj b /\ r2_events a = r2_events b.
Proof.
  intros t g cb dist etc name sfx dl cm nm Hn Hne obj a b. subst a b obj name.
  destruct nm as [|c nm']; [congruence|].
  unfold read_dirs, read_config.
  cbv beta iota zeta delta [kf_parse_dirs].
  destruct (r2_err (read_config_obj t g cb
     (mkKF [] 0 [] 0 0 None false false [str_or_empty dist; str_or_empty etc] [] None)
     (Some (c :: nm')) sfx dl cm)) eqn:E; rewrite ?E; auto.
Qed.

(* B4 *)
Lemma lb_opens_of_app : forall a b, opens_of (a ++ b) = opens_of a ++ opens_of b.
Proof. intros. unfold opens_of. apply flat_map_app. Qed.

Lemma lb_gate_accept : forall t g o path dl cm,
  go_res (gate t g (Some (fun _ => true)) o path dl cm) = go_res (gate t g None o path dl cm) /\
  opens_of (go_events (gate t g (Some (fun _ => true)) o path dl cm)) =
    opens_of (go_events (gate t g None o path dl cm)) /\
  go_errfile (gate t g (Some (fun _ => true)) o path dl cm) = go_errfile (gate t g None o path dl cm) /\
  go_errline (gate t g (Some (fun _ => true)) o path dl cm) = go_errline (gate t g None o path dl cm).
Proof.
  intros. unfold gate.
  destruct (fs_lstat t path) as [n|]; [|cbn; auto].
  destruct (sec_nolinks (g_sec g) && is_link n)%bool; [cbn; auto|].
  destruct (match sec_owner (g_sec g) with Some u => negb (node_uid n =? u) | None => false end);
    [cbn; auto|].
  destruct (match sec_group (g_sec g) with Some u => negb (node_gid n =? u) | None => false end);
    [cbn; auto|].
  destruct (perm_refusal (g_sec g) t path n); [cbn; auto|].
  cbv beta iota zeta. cbn [negb].
  destruct (fs_slurp 8 t path) as [content|]; [|cbn; auto].
  destruct (r_err (read_bytes o dl cm content)); cbn; auto.
Qed.

Theorem accept_all_gate : forall t g o path dl cm,
  go_res (gate t g (Some (fun _ => true)) o path dl cm) = go_res (gate t g None o path dl cm) /\
  opens_of (go_events (gate t g (Some (fun _ => true)) o path dl cm)) = opens_of (go_events (gate t g None o path dl cm)).
Proof.
  intros. destruct (lb_gate_accept t g o path dl cm) as (H1 & H2 & _). auto.
Qed.

Definition lb_sim {A : Type} (x y : A * list event * globals) : Prop :=
  fst (fst x) = fst (fst y) /\ snd x = snd y /\
  opens_of (snd (fst x)) = opens_of (snd (fst y)).

Lemma lb_find_main_accept : forall t o name sfx dl cm dirs g evs1 evs2,
  opens_of evs1 = opens_of evs2 ->
  lb_sim (find_main t g (Some (fun _ => true)) o dirs name sfx dl cm evs1)
         (find_main t g None o dirs name sfx dl cm evs2).
Proof.
  intros t o name sfx dl cm. induction dirs as [|d rest IH]; intros g evs1 evs2 He.
  - cbn. unfold lb_sim; cbn; auto.
  - cbn [find_main]. cbv zeta.
    destruct (lb_gate_accept t g o (d ++ 47 :: name ++ sfx) dl cm) as (H1 & H2 & H3 & H4).
    rewrite H1, H3, H4.
    assert (He' : opens_of (evs1 ++ go_events (gate t g (Some (fun _ => true)) o (d ++ 47 :: name ++ sfx) dl cm)) =
                  opens_of (evs2 ++ go_events (gate t g None o (d ++ 47 :: name ++ sfx) dl cm)))
      by (rewrite !lb_opens_of_app, He, H2; reflexivity).
    destruct (go_res (gate t g None o (d ++ 47 :: name ++ sfx) dl cm)) as [e|kf].
    + destruct e; try (unfold lb_sim; cbn [fst snd]; auto).
      apply IH. exact He'.
    + unfold lb_sim; cbn [fst snd]; auto.
Qed.

Lemma lb_read_names_accept : forall t o dir sfx dl cm names g acc evs1 evs2,
  opens_of evs1 = opens_of evs2 ->
  lb_sim (read_names t g (Some (fun _ => true)) o dir sfx dl cm names acc evs1)
         (read_names t g None o dir sfx dl cm names acc evs2).
Proof.
  intros t o dir sfx dl cm. induction names as [|nm rest IH]; intros g acc evs1 evs2 He.
  - cbn. unfold lb_sim; cbn; auto.
  - cbn [read_names]. cbv zeta.
    destruct (Nat.ltb (length sfx) (length nm) && is_suffix sfx nm)%bool.
    + destruct (lb_gate_accept t g o (dir ++ 47 :: nm) dl cm) as (H1 & H2 & H3 & H4).
      rewrite H1, H3, H4.
      assert (He' : opens_of (evs1 ++ go_events (gate t g (Some (fun _ => true)) o (dir ++ 47 :: nm) dl cm)) =
                    opens_of (evs2 ++ go_events (gate t g None o (dir ++ 47 :: nm) dl cm)))
        by (rewrite !lb_opens_of_app, He, H2; reflexivity).
      destruct (go_res (gate t g None o (dir ++ 47 :: nm) dl cm)) as [e|kf].
      * unfold lb_sim; cbn [fst snd]; auto.
      * apply IH. exact He'.
    + apply IH. exact He.
Qed.

Lemma lb_read_dropins_accept : forall t o name sfx dl cm dirs g acc evs1 evs2,
  opens_of evs1 = opens_of evs2 ->
  lb_sim (read_dropins t g (Some (fun _ => true)) o dirs name sfx dl cm acc evs1)
         (read_dropins t g None o dirs name sfx dl cm acc evs2).
Proof.
  intros t o name sfx dl cm. induction dirs as [|dir rest IH]; intros g acc evs1 evs2 He.
  - cbn. unfold lb_sim; cbn; auto.
  - cbn [read_dropins].
    destruct (fs_scandir t dir) as [names|].
    + pose proof (lb_read_names_accept t o dir sfx dl cm names g acc evs1 evs2 He) as Hs.
      destruct (read_names t g (Some (fun _ => true)) o dir sfx dl cm names acc evs1) as [[r1 e1] g1].
      destruct (read_names t g None o dir sfx dl cm names acc evs2) as [[r2 e2] g2].
      unfold lb_sim in Hs; cbn [fst snd] in Hs. destruct Hs as (-> & -> & He').
      destruct r2 as [e|acc'].
      * unfold lb_sim; cbn [fst snd]; auto.
      * apply IH. exact He'.
    + apply IH. exact He.
Qed.

Theorem accept_all_history : forall t g o parse_dirs conf_dirs name sfx dl cm,
  ho_res (history t g (Some (fun _ => true)) o parse_dirs conf_dirs name sfx dl cm) =
  ho_res (history t g None o parse_dirs conf_dirs name sfx dl cm) /\
  opens_of (ho_events (history t g (Some (fun _ => true)) o parse_dirs conf_dirs name sfx dl cm)) =
  opens_of (ho_events (history t g None o parse_dirs conf_dirs name sfx dl cm)).
Proof.
  intros. unfold history. destruct name as [nm|]; [|cbn; auto].
  assert (Hdrop : forall dirs nm' sx g1 acc e1 e2, opens_of e1 = opens_of e2 ->
    ho_res (match read_dropins t g1 (Some (fun _ => true)) o dirs nm' sx dl cm acc e1 with
            | (inl e, evs', g2) => mkHO (inl e) evs' g2
            | (inr [], evs', g2) => mkHO (inl ECONF_NOFILE) evs' g2
            | (inr files, evs', g2) => mkHO (inr files) evs' g2
            end) =
    ho_res (match read_dropins t g1 None o dirs nm' sx dl cm acc e2 with
            | (inl e, evs', g2) => mkHO (inl e) evs' g2
            | (inr [], evs', g2) => mkHO (inl ECONF_NOFILE) evs' g2
            | (inr files, evs', g2) => mkHO (inr files) evs' g2
            end) /\
    opens_of (ho_events (match read_dropins t g1 (Some (fun _ => true)) o dirs nm' sx dl cm acc e1 with
            | (inl e, evs', g2) => mkHO (inl e) evs' g2
            | (inr [], evs', g2) => mkHO (inl ECONF_NOFILE) evs' g2
            | (inr files, evs', g2) => mkHO (inr files) evs' g2
            end)) =
    opens_of (ho_events (match read_dropins t g1 None o dirs nm' sx dl cm acc e2 with
            | (inl e, evs', g2) => mkHO (inl e) evs' g2
            | (inr [], evs', g2) => mkHO (inl ECONF_NOFILE) evs' g2
            | (inr files, evs', g2) => mkHO (inr files) evs' g2
            end))).
  { intros dirs nm' sx g1 acc e1 e2 He.
    pose proof (lb_read_dropins_accept t o nm' sx dl cm dirs g1 acc e1 e2 He) as Hs.
    destruct (read_dropins t g1 (Some (fun _ => true)) o dirs nm' sx dl cm acc e1) as [[r1 v1] h1].
    destruct (read_dropins t g1 None o dirs nm' sx dl cm acc e2) as [[r2 v2] h2].
    unfold lb_sim in Hs; cbn [fst snd] in Hs. destruct Hs as (-> & -> & He').
    destruct r2 as [e|[|f fs]]; cbn; auto. }
  destruct nm as [|c nm'].
  - apply Hdrop. reflexivity.
  - pose proof (lb_find_main_accept t o (c :: nm') (norm_suffix sfx) dl cm (rev parse_dirs) g [] []
                  eq_refl) as Hs.
    destruct (find_main t g (Some (fun _ => true)) o (rev parse_dirs) (c :: nm') (norm_suffix sfx) dl cm [])
      as [[r1 v1] h1].
    destruct (find_main t g None o (rev parse_dirs) (c :: nm') (norm_suffix sfx) dl cm [])
      as [[r2 v2] h2].
    unfold lb_sim in Hs; cbn [fst snd] in Hs. destruct Hs as (-> & -> & He').
    destruct r2 as [e|m]; [cbn; auto|].
    apply Hdrop. exact He'.
Qed.

(* B6 *)
Theorem find_main_highest : forall t g cb o dirs_rev name sfx dl cm evs0 d rest kf evs g',
  dirs_rev = d :: rest ->
  go_res (gate t g cb o (d ++ 47 :: name ++ sfx) dl cm) = inr kf ->
  find_main t g cb o dirs_rev name sfx dl cm evs0 = (inr (Some kf), evs, g') ->
  evs = evs0 ++ go_events (gate t g cb o (d ++ 47 :: name ++ sfx) dl cm).
Proof.
  intros t g cb o dirs_rev name sfx dl cm evs0 d rest kf evs g' Hd Hg Hf. subst dirs_rev.
  cbn [find_main] in Hf. cbv zeta in Hf. rewrite Hg in Hf.
  inversion Hf. reflexivity.
Qed.

Theorem find_main_skips_absent : forall t g cb o d rest name sfx dl cm evs0,
  go_res (gate t g cb o (d ++ 47 :: name ++ sfx) dl cm) = inl ECONF_NOFILE ->
  find_main t g cb o (d :: rest) name sfx dl cm evs0 =
  find_main t (with_err g (go_errfile (gate t g cb o (d ++ 47 :: name ++ sfx) dl cm)) (go_errline (gate t g cb o (d ++ 47 :: name ++ sfx) dl cm)))
            cb o rest name sfx dl cm (evs0 ++ go_events (gate t g cb o (d ++ 47 :: name ++ sfx) dl cm)).
Proof.
  intros t g cb o d rest name sfx dl cm evs0 Hg.
  cbn [find_main]. cbv zeta. rewrite Hg. reflexivity.
Qed.

(* B7 *)
Lemma lb_gate_path : forall t g cb o p dl cm kf,
  go_res (gate t g cb o p dl cm) = inr kf -> get_path kf = real_name t p.
Proof.
  intros t g cb o p dl cm kf. unfold gate.
  destruct (fs_lstat t p) as [n|]; [|cbn; discriminate].
  destruct (sec_nolinks (g_sec g) && is_link n)%bool; [cbn; discriminate|].
  destruct (match sec_owner (g_sec g) with Some u => negb (node_uid n =? u) | None => false end);
    [cbn; discriminate|].
  destruct (match sec_group (g_sec g) with Some u => negb (node_gid n =? u) | None => false end);
    [cbn; discriminate|].
  destruct (perm_refusal (g_sec g) t p n); [cbn; discriminate|].
  destruct (match cb with Some f => (f p, [EvCheck p (f p)]) | None => (true, []) end) as [ok evs].
  destruct (negb ok); [cbn; discriminate|].
  destruct (fs_slurp 8 t p) as [content|]; [|cbn; discriminate].
  cbv zeta.
  destruct (r_err (read_bytes o dl cm content)); cbn [go_res]; try discriminate.
  intros H. inversion H. reflexivity.
Qed.

Lemma lb_read_names_paths : forall t cb o dir sfx dl cm names g acc evs files evs' g',
  read_names t g cb o dir sfx dl cm names acc evs = (inr files, evs', g') ->
  map get_path files =
  map get_path acc ++ map (fun nm => real_name t (dir ++ 47 :: nm)) (filter (suffix_ok sfx) names).
Proof.
  intros t cb o dir sfx dl cm. induction names as [|nm rest IH]; intros g acc evs files evs' g' H.
  - cbn in H. inversion H. cbn. rewrite app_nil_r. reflexivity.
  - cbn [read_names] in H. cbv zeta in H. cbn [filter]. unfold suffix_ok at 1.
    destruct (Nat.ltb (length sfx) (length nm) && is_suffix sfx nm)%bool.
    + destruct (go_res (gate t g cb o (dir ++ 47 :: nm) dl cm)) as [e|kf] eqn:Hg.
      * inversion H.
      * apply IH in H. rewrite H. rewrite map_app. cbn [map].
        rewrite (lb_gate_path _ _ _ _ _ _ _ _ Hg).
        rewrite <- app_assoc. reflexivity.
    + apply IH in H. exact H.
Qed.

Theorem read_dropins_paths : forall t g cb o dirs name sfx dl cm acc evs files evs' g',
  read_dropins t g cb o dirs name sfx dl cm acc evs = (inr files, evs', g') ->
  map get_path files = map get_path acc ++ map (real_name t) (dropin_paths t dirs sfx).
Proof.
  intros t g cb o dirs name sfx dl cm. revert g.
  induction dirs as [|dir rest IH]; intros g acc evs files evs' g' H.
  - cbn in H. inversion H. cbn. rewrite app_nil_r. reflexivity.
  - cbn [read_dropins] in H. unfold dropin_paths. cbn [flat_map].
    fold (dropin_paths t rest sfx). rewrite map_app.
    destruct (fs_scandir t dir) as [names|].
    + destruct (read_names t g cb o dir sfx dl cm names acc evs) as [[[e|acc'] evs1] g1] eqn:Hn.
      * inversion H.
      * apply IH in H. rewrite H.
        rewrite (lb_read_names_paths _ _ _ _ _ _ _ _ _ _ _ _ _ _ Hn).
        rewrite map_map. rewrite <- app_assoc. reflexivity.
    + apply IH in H. exact H.
Qed.

(* B8 *)
Theorem read_config_default_dirs : forall t g cb project usr name sfx dl cm nm p,
  name = Some nm -> nm <> [] -> project = Some p ->
  read_config t g cb None project usr name sfx dl cm =
  (let r := read_config_obj t g cb
              (mkKF [] 0 [] 0 0 None false false
                    [snprintf_path (str_or_empty usr ++ 47 :: p); snprintf_path (bs "/run" ++ 47 :: p); snprintf_path (bs "/etc" ++ 47 :: p)] [] None)
              name sfx dl cm in
   match r2_err r with ECONF_SUCCESS => r | _ => mkR2 (r2_err r) None (r2_events r) (r2_g r) end).
Proof.
  intros t g cb project usr name sfx dl cm nm p Hn Hne Hp. subst name project.
  destruct nm as [|c nm']; [congruence|].
  unfold read_config.
  cbv beta iota zeta delta [new_empty kf_entries kf_spare kf_groups kf_delim kf_comment kf_path
                            kf_join kf_python kf_parse_dirs kf_conf_dirs kf_root_prefix].
  destruct (r2_err (read_config_obj t g cb
     (mkKF [] 0 [] 0 0 None false false
        [snprintf_path (str_or_empty usr ++ 47 :: p); snprintf_path (bs "/run" ++ 47 :: p);
         snprintf_path (bs "/etc" ++ 47 :: p)] [] None)
     (Some (c :: nm')) sfx dl cm)); reflexivity.
Qed.

(* ---------- the path an object records (C17): always absolute ---------- *)
Lemma lb_squeeze_abs : forall p, exists r, squeeze p = 47 :: r.
Proof.
  intros p. unfold squeeze.
  destruct (norm_comps (split_on 47 p) []) as [|c cs]; [eexists; reflexivity|].
  cbn [map concat]. eexists. cbn [app]. reflexivity.
Qed.

Lemma lb_resolve_abs : forall fuel t q, (exists r, q = 47 :: r) -> exists r, fs_resolve fuel t q = 47 :: r.
Proof.
  induction fuel as [|f IH]; intros t q Hq; cbn [fs_resolve].
  - destruct (str_eqb q dev_null); [exact Hq|].
    destruct (tlookup t q) as [[c u g|tg u g|u g]|]; exact Hq.
  - destruct (str_eqb q dev_null); [exact Hq|].
    destruct (tlookup t q) as [[c u g|tg u g|u g]|]; try exact Hq.
    apply IH. apply lb_squeeze_abs.
Qed.

Lemma lb_resolve_step : forall f t q,
  fs_resolve (S f) t q =
  if str_eqb q dev_null then q
  else match tlookup t q with
       | Some (NLink target _ _) =>
           fs_resolve f t (squeeze (match target with 47 :: _ => target | _ => dirname q ++ 47 :: target end))
       | _ => q
       end.
Proof. reflexivity. Qed.

Theorem real_name_absolute : forall t p, exists r, real_name t p = 47 :: r.
Proof.
  intros t p. unfold real_name.
  destruct p as [|c p']; [apply lb_resolve_abs, lb_squeeze_abs|].
  destruct c as [|q]; [apply lb_resolve_abs, lb_squeeze_abs|].
  do 6 (destruct q as [q|q|]; try (apply lb_resolve_abs, lb_squeeze_abs)).
  eexists; reflexivity.
Qed.

(* a name that starts with '/' is recorded as given *)
Theorem real_name_of_absolute : forall t p, real_name t (47 :: p) = 47 :: p.
Proof. reflexivity. Qed.

(* any other name that is not a symbolic link is recorded in its normalised form below the working directory *)
Theorem real_name_of_relative_file : forall t c p,
  c <> 47 ->
  str_eqb (squeeze (c :: p)) dev_null = false ->
  match tlookup t (squeeze (c :: p)) with Some (NLink _ _ _) => False | _ => True end ->
  real_name t (c :: p) = squeeze (c :: p).
Proof.
  intros t c p Hc Hd Hl.
  assert (R : real_name t (c :: p) = fs_resolve 8 t (squeeze (c :: p))).
  { unfold real_name. destruct c as [|q]; [reflexivity|].
    do 6 (destruct q as [q|q|]; try reflexivity). congruence. }
  rewrite R. change 8%nat with (S 7). rewrite lb_resolve_step, Hd.
  destruct (tlookup t (squeeze (c :: p))) as [[c0 u g|tg u g|u g]|]; try reflexivity. contradiction.
Qed.

(* what econf_readFile hands back carries an absolute path, whatever name was given *)
Theorem read_file_api_path : forall t g cb p dl cm kf,
  r2_obj (read_file_api t g cb p dl cm) = Some kf ->
  get_path kf = real_name t p /\ exists r, get_path kf = 47 :: r.
Proof.
  intros t g cb p dl cm kf H. unfold read_file_api in H.
  destruct (go_res (gate t g cb (mkPopts false false) p dl cm)) as [e|kf'] eqn:G; cbn [r2_obj] in H; [discriminate H|].
  inversion H; subst kf'. pose proof (lb_gate_path _ _ _ _ _ _ _ _ G) as P.
  split; [exact P|]. rewrite P. apply real_name_absolute.
Qed.
