(* LayeredFactsA.v — PART A of LF_statements.v: the gate, its events, the
   security rules, lifted to the history reader and the public entry points. *)
From Coq Require Import String Lia List.
From Econf Require Import Bytes BytesFacts LayeredSpec.
Import ListNotations.
Local Open Scope N_scope.

(* ================================================================== *)
(* 0. The parser never reports ECONF_NOFILE                            *)
(* ================================================================== *)

Definition la_ok (r : presult) : Prop := forall s, r <> PStop ECONF_NOFILE s.

Lemma la_ok_cont s : la_ok (PCont s).
Proof. intros s' H; discriminate. Qed.

(* a match on a byte literal: whatever the byte, one of the two branches *)
Ltac la_lit HA HB :=
  repeat first [ exact HB | apply HA
               | match goal with |- context [match ?p with _ => _ end] => is_var p; destruct p end ].

Lemma la_section_line_ok s rest line : la_ok (section_line s rest line).
Proof.
  unfold section_line.
  set (B := if mem 93 rest then PStop ECONF_TEXT_AFTER_SECTION s else PStop ECONF_MISSING_BRACKET s).
  set (A := fun rname : list N => match rev rname with
            | [] => PStop ECONF_EMPTY_SECTION_NAME s
            | name => PCont (mkPS (p_rev s) (intern (p_groups s) name) (Some name) (p_cbk s) (p_cav s) line)
            end).
  assert (HB : la_ok B).
  { unfold B. destruct (mem 93 rest); intros s' H; discriminate. }
  assert (HA : forall r, la_ok (A r)).
  { intros r. unfold A. destruct (rev r); intros s' H; discriminate. }
  change (la_ok (match rev (rtrim rest) with
                 | 93 :: rname => A rname
                 | _ => B end)).
  clearbody A B.
  destruct (rev (rtrim rest)) as [|c l]; [exact HB|].
  la_lit HA HB.
Qed.

Lemma la_value_of dl mixed dwsp ds d0 e :
  value_of dl mixed dwsp ds d0 = inl e -> e = ECONF_MISSING_DELIMITER.
Proof.
  unfold value_of. destruct d0 as [|x d0]; [discriminate|].
  set (d1 := drop_while isspace (x :: d0)). clearbody d1.
  set (K := fun d : list N => match d with
          | 34 :: q => match rev (key_trim q) with
                       | 34 :: rv => inr (Some (rev rv), true)
                       | _ => inr (Some (34 :: key_trim q), true)
                       end
          | _ => inr (Some (key_trim d), false)
          end : econf_err + (option (list N) * bool)).
  assert (HK : forall d, K d <> inl e).
  { intros d. unfold K.
    set (A := fun q : list N => match rev (key_trim q) with
                       | 34 :: rv => inr (Some (rev rv), true)
                       | _ => inr (Some (34 :: key_trim q), true)
                       end : econf_err + (option (list N) * bool)).
    set (B := inr (Some (key_trim d), false) : econf_err + (option (list N) * bool)).
    assert (HB : B <> inl e) by (unfold B; discriminate).
    assert (HA : forall q, A q <> inl e).
    { intros q. unfold A.
      set (A2 := fun rv : list N => inr (Some (rev rv), true) : econf_err + (option (list N) * bool)).
      set (B2 := inr (Some (34 :: key_trim q), true) : econf_err + (option (list N) * bool)).
      assert (HB2 : B2 <> inl e) by (unfold B2; discriminate).
      assert (HA2 : forall rv, A2 rv <> inl e) by (intros rv; unfold A2; discriminate).
      change (match rev (key_trim q) with 34 :: rv => A2 rv | _ => B2 end <> inl e).
      clearbody A2 B2. destruct (rev (key_trim q)) as [|c l]; [exact HB2|]. la_lit HA2 HB2. }
    change (match d with 34 :: q => A q | _ => B end <> inl e).
    clearbody A B. destruct d as [|c l]; [exact HB|]. la_lit HA HB. }
  match goal with |- match ?d2 with inl e0 => inl e0 | inr d => _ end = _ -> _ =>
    change (match d2 with inl e0 => inl e0 | inr d => K d end = inl e -> e = ECONF_MISSING_DELIMITER)
  end.
  clearbody K.
  destruct (negb dwsp && negb ds).
  - destruct d1 as [|c r].
    + intros H; inversion H; reflexivity.
    + destruct (mem c dl).
      * intros H; apply HK in H; contradiction.
      * intros H; inversion H; reflexivity.
  - destruct (mixed && negb ds).
    + destruct d1 as [|c r].
      * intros H; apply HK in H; contradiction.
      * destruct (mem c dl); intros H; apply HK in H; contradiction.
    + intros H; apply HK in H; contradiction.
Qed.

Lemma la_parse_kv_ok o dl cm s org b0 vis : la_ok (parse_kv o dl cm s org b0 vis).
Proof.
  unfold parse_kv.
  match goal with |- la_ok (if ?c then _ else _) => destruct c end.
  - apply la_ok_cont.
  - destruct (take_while (fun x => negb (key_stop dl x)) vis) as [|k0 k] eqn:K.
    + apply la_ok_cont.
    + match goal with |- la_ok (match ?vv with _ => _ end) => destruct vv as [e|[v q]] eqn:V end.
      * apply la_value_of in V. subst e. intros s' H; discriminate.
      * apply la_ok_cont.
Qed.

Lemma la_parse_entry_ok o dl cm s org b0 name : la_ok (parse_entry o dl cm s org b0 name).
Proof.
  unfold parse_entry.
  match goal with |- la_ok (match ?x with _ => _ end) => destruct x as [[nm di] cav] end.
  set (s1 := with_cav s cav).
  set (B := if keys_only dl
            then PCont (store_new s1 (cstr nm) (option_map (fun i => cstr (skipn i nm)) di) (p_line s) false)
            else parse_kv o dl cm s1 org b0 (cstr nm)).
  set (A := fun rest : list N => section_line s1 rest (p_line s)).
  assert (HB : la_ok B).
  { unfold B. destruct (keys_only dl); [apply la_ok_cont | apply la_parse_kv_ok]. }
  assert (HA : forall r, la_ok (A r)) by (intros r; apply la_section_line_ok).
  change (la_ok (match cstr nm with 91 :: rest => A rest | _ => B end)).
  clearbody A B. destruct (cstr nm) as [|c l]; [exact HB|]. la_lit HA HB.
Qed.

Lemma la_parse_blanks_ok o dl cm s org : la_ok (parse_blanks o dl cm s org).
Proof.
  unfold parse_blanks.
  destruct (keys_only dl); [apply la_ok_cont|].
  destruct (is_mixed dl); [apply la_ok_cont|].
  destruct (last_line_is s (p_line s)); apply la_ok_cont.
Qed.

Lemma la_parse_line_ok o dl cm s raw : la_ok (parse_line o dl cm s raw).
Proof.
  unfold parse_line.
  destruct (removelast_nl (cstr raw)) as [|b0 buf']; [apply la_ok_cont|].
  destruct (drop_while isspace (b0 :: buf')) as [|c ctext].
  - apply la_parse_blanks_ok.
  - destruct (mem c cm); [apply la_ok_cont | apply la_parse_entry_ok].
Qed.

Lemma la_read_lines_ok o dl cm ls : forall s, la_ok (read_lines o dl cm s ls).
Proof.
  induction ls as [|l ls IH]; intros s.
  - apply la_ok_cont.
  - cbn [read_lines]. destruct (parse_line o dl cm s l) eqn:P.
    + apply IH.
    + rewrite <- P. apply la_parse_line_ok.
Qed.

Lemma la_read_bytes_not_nofile o dl cm content :
  r_err (read_bytes o dl cm content) <> ECONF_NOFILE.
Proof.
  unfold read_bytes.
  destruct (read_lines o dl (match cm with [] => [35] | _ => cm end) init_pstate (lines_of content)) eqn:R.
  - cbn [r_err]. discriminate.
  - cbn [r_err]. intros ->. eapply la_read_lines_ok. exact R.
Qed.

(* ================================================================== *)
(* 1. Event lists                                                      *)
(* ================================================================== *)

Definition la_given (cb : callback) : bool := match cb with Some _ => true | None => false end.

(* corrected checker: with a callback every opened file was accepted just
   before; without a callback nothing is ever asked (only opens occur) *)
Definition well_checked' (cbgiven : bool) (evs : list event) : bool :=
  if cbgiven then well_checked evs
  else forallb (fun e => match e with EvOpen _ => true | EvCheck _ _ => false end) evs.

Lemma la_wc_app_len n : forall a b, (length a <= n)%nat ->
  well_checked a = true -> well_checked b = true -> well_checked (a ++ b) = true.
Proof.
  induction n as [|n IH]; intros a b L Ha Hb.
  - destruct a; [exact Hb | cbn in L; lia].
  - destruct a as [|e a]; [exact Hb|].
    destruct e as [p ok|p]; [|cbn in Ha; discriminate].
    cbn in L.
    destruct ok.
    + destruct a as [|e2 a].
      * cbn [app]. destruct b as [|e3 b]; [reflexivity|].
        destruct e3 as [p3 ok3|p3]; [|cbn in Hb; discriminate].
        cbn [well_checked]. exact Hb.
      * destruct e2 as [p2 ok2|q].
        -- change (well_checked ((EvCheck p2 ok2 :: a) ++ b) = true).
           apply IH; [cbn in *; lia| exact Ha | exact Hb].
        -- cbn [app well_checked] in *. apply andb_true_iff in Ha as [H1 H2].
           rewrite H1. cbn [andb]. apply IH; [cbn in *; lia|exact H2|exact Hb].
    + assert (Ha' : well_checked a = true).
      { destruct a as [|e2 a]; [reflexivity|]. destruct e2; exact Ha. }
      assert (R : well_checked (a ++ b) = true) by (apply IH; [lia|exact Ha'|exact Hb]).
      cbn [app]. destruct (a ++ b) as [|e2 l]; [reflexivity|]. destruct e2; exact R.
Qed.

Lemma la_wc_app a b :
  well_checked a = true -> well_checked b = true -> well_checked (a ++ b) = true.
Proof. apply (la_wc_app_len (length a)). lia. Qed.

Lemma la_wc'_app c a b :
  well_checked' c a = true -> well_checked' c b = true -> well_checked' c (a ++ b) = true.
Proof.
  unfold well_checked'. destruct c.
  - apply la_wc_app.
  - intros Ha Hb. rewrite forallb_app, Ha, Hb. reflexivity.
Qed.

Lemma la_rejected_app a b : rejected (a ++ b) = rejected a || rejected b.
Proof. unfold rejected. apply existsb_app. Qed.

Lemma la_opens_app a b : opens_of (a ++ b) = opens_of a ++ opens_of b.
Proof. unfold opens_of. apply flat_map_app. Qed.

Lemma la_opened_ok_app t s a b : opened_ok t s (a ++ b) = opened_ok t s a && opened_ok t s b.
Proof. unfold opened_ok. apply forallb_app. Qed.

(* ================================================================== *)
(* 2. The gate                                                         *)
(* ================================================================== *)

Lemma la_sec_ok_tests s n :
  sec_ok s n =
  negb (sec_nolinks s && is_link n) &&
  negb (match sec_owner s with Some u => negb (node_uid n =? u) | None => false end) &&
  negb (match sec_group s with Some u => negb (node_gid n =? u) | None => false end).
Proof.
  unfold sec_ok. destruct (sec_owner s), (sec_group s); rewrite ?negb_involutive; reflexivity.
Qed.

(* everything the later proofs need to know about one passage of the gate *)
Definition la_gate_post (t : tree) (g : globals) (cb : callback) (path : list N) (r : gate_out) : Prop :=
  well_checked' (la_given cb) (go_events r) = true /\
  opened_ok t (g_sec g) (go_events r) = true /\
  (rejected (go_events r) = true ->
     go_res r = inl ECONF_PARSING_CALLBACK_FAILED /\ ~ In (EvOpen path) (go_events r)) /\
  (forall kf, go_res r = inr kf ->
     (exists n, fs_lstat t path = Some n /\ sec_ok (g_sec g) n = true) /\
     In (EvOpen path) (go_events r) /\ kf_path kf = Some (real_name t path) /\
     match cb with Some f => f path = true | None => True end /\
     rejected (go_events r) = false /\ opens_of (go_events r) = [path]) /\
  (go_res r = inl ECONF_NOFILE -> rejected (go_events r) = false /\ opens_of (go_events r) = []).

Lemma la_fail_nil t g cb path e f l : la_gate_post t g cb path (mkGO (inl e) [] f l).
Proof.
  unfold la_gate_post. cbn [go_res go_events].
  split; [destruct cb; reflexivity|].
  split; [reflexivity|].
  split; [cbn; intros H; discriminate H|].
  split; [intros kf H; discriminate H|].
  intros _. split; reflexivity.
Qed.

Lemma la_gate_facts t g cb o path dl cm :
  la_gate_post t g cb path (gate t g cb o path dl cm).
Proof.
  unfold gate.
  destruct (fs_lstat t path) as [n|] eqn:L; [|apply la_fail_nil].
  pose proof (la_sec_ok_tests (g_sec g) n) as SO.
  destruct (sec_nolinks (g_sec g) && is_link n) eqn:R1; [apply la_fail_nil|].
  destruct (match sec_owner (g_sec g) with Some u => negb (node_uid n =? u) | None => false end) eqn:R2;
    [apply la_fail_nil|].
  destruct (match sec_group (g_sec g) with Some u => negb (node_gid n =? u) | None => false end) eqn:R3;
    [apply la_fail_nil|].
  destruct (perm_refusal (g_sec g) t path n) as [pe|] eqn:R4; [apply la_fail_nil|].
  cbn [negb andb] in SO.
  assert (OK1 : forall pre, opened_ok t (g_sec g) pre = true ->
                 opened_ok t (g_sec g) (pre ++ [EvOpen path]) = true).
  { intros pre H. rewrite la_opened_ok_app, H. cbn. rewrite L, SO. reflexivity. }
  destruct cb as [f|].
  - destruct (f path) eqn:F; cbn [negb].
    + destruct (fs_slurp 8 t path) as [content|] eqn:S.
      2:{ unfold la_gate_post. cbn [go_res go_events la_given].
          split; [reflexivity|]. split; [reflexivity|].
          split; [cbn; intros H; discriminate H|].
          split; [intros kf H; discriminate H|].
          intros _. split; reflexivity. }
      pose proof (la_read_bytes_not_nofile o dl cm content) as NN.
      assert (OKE : opened_ok t (g_sec g) ([EvCheck path true] ++ [EvOpen path]) = true)
        by (apply OK1; reflexivity).
      unfold la_gate_post.
      destruct (r_err (read_bytes o dl cm content)) eqn:E;
        try (exfalso; apply NN; reflexivity);
        cbn [go_res go_events la_given];
        (split; [cbn; rewrite str_eqb_refl; reflexivity|]);
        (split; [exact OKE|]);
        (split; [cbn; intros H; discriminate H|]);
        (split; [|intros H; try discriminate H; split; reflexivity]);
        intros kf H; try discriminate H.
      inversion H; subst kf; clear H.
      split; [exists n; split; [exact L|exact SO]|].
      split; [cbn; auto|].
      split; [reflexivity|].
      split; [exact F|].
      split; reflexivity.
    + unfold la_gate_post. cbn [go_res go_events la_given].
      split; [reflexivity|]. split; [reflexivity|].
      split; [intros _; split; [reflexivity|intros [H|[]]; discriminate H]|].
      split; [intros kf H; discriminate H|].
      intros H; discriminate H.
  - cbn [negb].
    destruct (fs_slurp 8 t path) as [content|] eqn:S; [|apply la_fail_nil].
    pose proof (la_read_bytes_not_nofile o dl cm content) as NN.
    assert (OKE : opened_ok t (g_sec g) ([] ++ [EvOpen path]) = true)
      by (apply OK1; reflexivity).
    unfold la_gate_post.
    destruct (r_err (read_bytes o dl cm content)) eqn:E;
      try (exfalso; apply NN; reflexivity);
      cbn [go_res go_events la_given];
      (split; [reflexivity|]);
      (split; [exact OKE|]);
      (split; [cbn; intros H; discriminate H|]);
      (split; [|intros H; try discriminate H; split; reflexivity]);
      intros kf H; try discriminate H.
    inversion H; subst kf; clear H.
    split; [exists n; split; [exact L|exact SO]|].
    split; [cbn; auto|].
    split; [reflexivity|].
    split; [exact I|].
    split; reflexivity.
Qed.

(* ---- A1 ---- *)
(* [gate_events] as stated is FALSE when no callback is given: the gate then
   emits the bare [EvOpen path], which [well_checked] refuses. *)
Definition la_cex_tree : tree := [(bs "/a", NFile [] 0 0)].
Lemma la_gate_events_counterexample :
  let r := gate la_cex_tree globals0 None (mkPopts false false) (bs "/a") (bs "=") (bs "#") in
  go_events r = [EvOpen (bs "/a")] /\ well_checked (go_events r) = false /\
  (exists kf, go_res r = inr kf).
Proof. vm_compute. repeat split. eexists; reflexivity. Qed.

Theorem gate_events_corrected : forall t g cb o path dl cm,
  let r := gate t g cb o path dl cm in
  well_checked' (la_given cb) (go_events r) = true /\
  (forall kf, go_res r = inr kf ->
     exists n, fs_lstat t path = Some n /\ sec_ok (g_sec g) n = true /\
               In (EvOpen path) (go_events r) /\ kf_path kf = Some (real_name t path) /\
               match cb with Some f => f path = true | None => True end) /\
  (rejected (go_events r) = true -> go_res r = inl ECONF_PARSING_CALLBACK_FAILED /\
                                    ~ In (EvOpen path) (go_events r)).
Proof.
  intros t g cb o path dl cm r.
  destruct (la_gate_facts t g cb o path dl cm) as (H1 & H2 & H3 & H4 & H5).
  fold r in H1, H2, H3, H4, H5.
  split; [exact H1|]. split; [|exact H3].
  intros kf K. destruct (H4 kf K) as ((n & L & SO) & I1 & P & C & _).
  exists n. auto.
Qed.

(* the statement as given, for the case it was meant for: a callback is in use *)
Theorem gate_events_cb : forall t g cb o path dl cm, cb <> None ->
  let r := gate t g cb o path dl cm in
  well_checked (go_events r) = true /\
  (forall kf, go_res r = inr kf ->
     exists n, fs_lstat t path = Some n /\ sec_ok (g_sec g) n = true /\
               In (EvOpen path) (go_events r) /\ kf_path kf = Some (real_name t path) /\
               match cb with Some f => f path = true | None => True end) /\
  (rejected (go_events r) = true -> go_res r = inl ECONF_PARSING_CALLBACK_FAILED /\
                                    ~ In (EvOpen path) (go_events r)).
Proof.
  intros t g cb o path dl cm NE. destruct cb as [f|]; [|contradiction].
  exact (gate_events_corrected t g (Some f) o path dl cm).
Qed.

(* ---- A2 ---- *)
Theorem gate_refuses : forall t g cb o path dl cm n,
  fs_lstat t path = Some n -> sec_ok (g_sec g) n = false ->
  go_res (gate t g cb o path dl cm) = inl (sec_code (g_sec g) n) /\ go_events (gate t g cb o path dl cm) = [].
Proof.
  intros t g cb o path dl cm n L SO.
  rewrite la_sec_ok_tests in SO.
  unfold gate, sec_code. rewrite L.
  destruct (sec_nolinks (g_sec g) && is_link n); [split; reflexivity|].
  destruct (match sec_owner (g_sec g) with Some u => negb (node_uid n =? u) | None => false end);
    [split; reflexivity|].
  destruct (match sec_group (g_sec g) with Some u => negb (node_gid n =? u) | None => false end);
    [split; reflexivity|].
  discriminate SO.
Qed.

(* ---- A3 ---- *)
(* a file that satisfies owner, group and symlink rules but not the permission requirement is refused with the
   permission code (or file-not-found when its directory cannot be examined), before callback and open *)
Theorem gate_perm_refuses : forall t g cb o path dl cm n e,
  fs_lstat t path = Some n -> sec_ok (g_sec g) n = true -> perm_refusal (g_sec g) t path n = Some e ->
  go_res (gate t g cb o path dl cm) = inl e /\ go_events (gate t g cb o path dl cm) = [].
Proof.
  intros t g cb o path dl cm n e L SO PR.
  rewrite la_sec_ok_tests in SO.
  unfold gate. rewrite L, PR.
  destruct (sec_nolinks (g_sec g) && is_link n); [discriminate SO|].
  destruct (match sec_owner (g_sec g) with Some u => negb (node_uid n =? u) | None => false end);
    [discriminate SO|].
  destruct (match sec_group (g_sec g) with Some u => negb (node_gid n =? u) | None => false end);
    [discriminate SO|].
  split; reflexivity.
Qed.

Theorem gate_unaffected : forall t g cb o path dl cm n,
  fs_lstat t path = Some n -> sec_ok (g_sec g) n = true -> perm_refusal (g_sec g) t path n = None ->
  go_res (gate t g cb o path dl cm) =
  go_res (gate t (mkG sec_none (g_conf_dirs g) (g_errfile g) (g_errline g)) cb o path dl cm) /\
  go_events (gate t g cb o path dl cm) =
  go_events (gate t (mkG sec_none (g_conf_dirs g) (g_errfile g) (g_errline g)) cb o path dl cm).
Proof.
  intros t g cb o path dl cm n L SO PR.
  rewrite la_sec_ok_tests in SO.
  unfold gate. rewrite L, PR.
  replace (perm_refusal (g_sec (mkG sec_none (g_conf_dirs g) (g_errfile g) (g_errline g))) t path n) with (@None econf_err) by reflexivity.
  cbn [g_sec g_errfile g_errline sec_none sec_nolinks sec_owner sec_group andb].
  destruct (sec_nolinks (g_sec g) && is_link n); [discriminate SO|].
  destruct (match sec_owner (g_sec g) with Some u => negb (node_uid n =? u) | None => false end);
    [discriminate SO|].
  destruct (match sec_group (g_sec g) with Some u => negb (node_gid n =? u) | None => false end);
    [discriminate SO|].
  split; reflexivity.
Qed.

(* ================================================================== *)
(* 3. The history reader                                               *)
(* ================================================================== *)

Local Notation CBF := ECONF_PARSING_CALLBACK_FAILED.

Definition la_fm_post (t : tree) (cb : callback) (g : globals) (evs : list event)
           (res : econf_err + option keyfile) (evs' : list event) (g' : globals) : Prop :=
  g_sec g' = g_sec g /\
  (well_checked' (la_given cb) evs = true -> well_checked' (la_given cb) evs' = true) /\
  (opened_ok t (g_sec g) evs = true -> opened_ok t (g_sec g) evs' = true) /\
  (rejected evs = false ->
     (rejected evs' = true -> res = inl CBF) /\
     (forall m, res = inr m -> rejected evs' = false /\
        map (real_name t) (opens_of evs') = map (real_name t) (opens_of evs) ++ match m with Some kf => [get_path kf] | None => [] end)).

Definition la_rd_post (t : tree) (cb : callback) (g : globals) (evs : list event) (acc : list keyfile)
           (res : econf_err + list keyfile) (evs' : list event) (g' : globals) : Prop :=
  g_sec g' = g_sec g /\
  (well_checked' (la_given cb) evs = true -> well_checked' (la_given cb) evs' = true) /\
  (opened_ok t (g_sec g) evs = true -> opened_ok t (g_sec g) evs' = true) /\
  (rejected evs = false -> map get_path acc = map (real_name t) (opens_of evs) ->
     (rejected evs' = true -> res = inl CBF) /\
     (forall files, res = inr files -> rejected evs' = false /\ map get_path files = map (real_name t) (opens_of evs'))).

(* a gate passage that fails ends the traversal *)
Lemma la_abort_fm t g cb o p dl cm evs e :
  go_res (gate t g cb o p dl cm) = inl e ->
  la_fm_post t cb g evs (inl e) (evs ++ go_events (gate t g cb o p dl cm))
             (with_err g (go_errfile (gate t g cb o p dl cm)) (go_errline (gate t g cb o p dl cm))).
Proof.
  intros GR. destruct (la_gate_facts t g cb o p dl cm) as (H1 & H2 & H3 & H4 & H5).
  split; [reflexivity|].
  split; [intros W; apply la_wc'_app; assumption|].
  split; [intros W; rewrite la_opened_ok_app, W, H2; reflexivity|].
  intros NR. split.
  - rewrite la_rejected_app, NR. cbn [orb]. intros R. apply H3 in R. destruct R as [R _].
    rewrite GR in R. inversion R; reflexivity.
  - intros m K. discriminate K.
Qed.

Lemma la_abort_rd t g cb o p dl cm evs acc e :
  go_res (gate t g cb o p dl cm) = inl e ->
  la_rd_post t cb g evs acc (inl e) (evs ++ go_events (gate t g cb o p dl cm))
             (with_err g (go_errfile (gate t g cb o p dl cm)) (go_errline (gate t g cb o p dl cm))).
Proof.
  intros GR. destruct (la_gate_facts t g cb o p dl cm) as (H1 & H2 & H3 & H4 & H5).
  split; [reflexivity|].
  split; [intros W; apply la_wc'_app; assumption|].
  split; [intros W; rewrite la_opened_ok_app, W, H2; reflexivity|].
  intros NR _. split.
  - rewrite la_rejected_app, NR. cbn [orb]. intros R. apply H3 in R. destruct R as [R _].
    rewrite GR in R. inversion R; reflexivity.
  - intros m K. discriminate K.
Qed.

Lemma la_find_main t cb o name sfx dl cm : forall dirs g evs res evs' g',
  find_main t g cb o dirs name sfx dl cm evs = (res, evs', g') ->
  la_fm_post t cb g evs res evs' g'.
Proof.
  induction dirs as [|d rest IH]; intros g evs res evs' g' H.
  - cbn [find_main] in H. inversion H; subst.
    split; [reflexivity|]. split; [auto|]. split; [auto|].
    intros NR. split; [intros R; rewrite R in NR; discriminate NR|].
    intros m K. inversion K; subst. split; [exact NR|]. rewrite app_nil_r. reflexivity.
  - cbn [find_main] in H.
    set (p := d ++ 47 :: name ++ sfx) in *.
    pose proof (la_gate_facts t g cb o p dl cm) as (H1 & H2 & H3 & H4 & H5).
    pose proof (la_abort_fm t g cb o p dl cm evs) as AB.
    destruct (go_res (gate t g cb o p dl cm)) as [e|kf] eqn:GR.
    + destruct e; try (inversion H; subst; apply AB; reflexivity).
      (* ECONF_NOFILE: on to the next layer *)
      apply IH in H. destruct H as (K1 & K2 & K3 & K4).
      destruct (H5 eq_refl) as [NRg NOg].
      cbn [with_err g_sec] in K1, K3.
      split; [exact K1|].
      split; [intros W; apply K2; apply la_wc'_app; assumption|].
      split; [intros W; apply K3; rewrite la_opened_ok_app, W, H2; reflexivity|].
      intros NR.
      assert (NR2 : rejected (evs ++ go_events (gate t g cb o p dl cm)) = false)
        by (rewrite la_rejected_app, NR, NRg; reflexivity).
      destruct (K4 NR2) as [K5 K6]. split; [exact K5|].
      intros m K. destruct (K6 m K) as [K7 K8]. split; [exact K7|].
      rewrite K8, la_opens_app, NOg, app_nil_r. reflexivity.
    + inversion H; subst. clear H.
      destruct (H4 kf eq_refl) as (_ & _ & P & _ & NRg & OPg).
      split; [reflexivity|].
      split; [intros W; apply la_wc'_app; assumption|].
      split; [intros W; rewrite la_opened_ok_app, W, H2; reflexivity|].
      intros NR. split.
      * rewrite la_rejected_app, NR, NRg. intros R; discriminate R.
      * intros m K. inversion K; subst m. split; [rewrite la_rejected_app, NR, NRg; reflexivity|].
        rewrite la_opens_app, map_app, OPg. unfold get_path. rewrite P. reflexivity.
Qed.

Lemma la_read_names t cb o dir sfx dl cm : forall names g acc evs res evs' g',
  read_names t g cb o dir sfx dl cm names acc evs = (res, evs', g') ->
  la_rd_post t cb g evs acc res evs' g'.
Proof.
  induction names as [|nm rest IH]; intros g acc evs res evs' g' H.
  - cbn [read_names] in H. inversion H; subst.
    split; [reflexivity|]. split; [auto|]. split; [auto|].
    intros NR MP. split; [intros R; rewrite R in NR; discriminate NR|].
    intros m K. inversion K; subst. split; [exact NR|exact MP].
  - cbn [read_names] in H.
    destruct (Nat.ltb (length sfx) (length nm) && is_suffix sfx nm); [|apply IH; exact H].
    set (p := dir ++ 47 :: nm) in *.
    pose proof (la_gate_facts t g cb o p dl cm) as (H1 & H2 & H3 & H4 & H5).
    pose proof (la_abort_rd t g cb o p dl cm evs acc) as AB.
    destruct (go_res (gate t g cb o p dl cm)) as [e|kf] eqn:GR.
    + inversion H; subst. apply AB; reflexivity.
    + apply IH in H. destruct H as (K1 & K2 & K3 & K4).
      destruct (H4 kf eq_refl) as (_ & _ & P & _ & NRg & OPg).
      cbn [with_err g_sec] in K1, K3.
      split; [exact K1|].
      split; [intros W; apply K2; apply la_wc'_app; assumption|].
      split; [intros W; apply K3; rewrite la_opened_ok_app, W, H2; reflexivity|].
      intros NR MP. apply K4.
      * rewrite la_rejected_app, NR, NRg; reflexivity.
      * rewrite map_app, MP, la_opens_app, map_app, OPg. cbn [map]. unfold get_path. rewrite P. reflexivity.
Qed.

Lemma la_read_dropins t cb o name sfx dl cm : forall dirs g acc evs res evs' g',
  read_dropins t g cb o dirs name sfx dl cm acc evs = (res, evs', g') ->
  la_rd_post t cb g evs acc res evs' g'.
Proof.
  induction dirs as [|dir rest IH]; intros g acc evs res evs' g' H.
  - cbn [read_dropins] in H. inversion H; subst.
    split; [reflexivity|]. split; [auto|]. split; [auto|].
    intros NR MP. split; [intros R; rewrite R in NR; discriminate NR|].
    intros m K. inversion K; subst. split; [exact NR|exact MP].
  - cbn [read_dropins] in H.
    destruct (fs_scandir t dir) as [names|]; [|apply IH; exact H].
    destruct (read_names t g cb o dir sfx dl cm names acc evs) as [[r1 evs1] g1] eqn:RN.
    apply la_read_names in RN. destruct RN as (N1 & N2 & N3 & N4).
    destruct r1 as [e|acc1].
    + inversion H; subst. split; [exact N1|]. split; [exact N2|]. split; [exact N3|exact N4].
    + apply IH in H. destruct H as (K1 & K2 & K3 & K4).
      rewrite N1 in K1, K3.
      split; [exact K1|]. split; [auto|]. split; [auto|].
      intros NR MP. destruct (N4 NR MP) as [_ N5]. destruct (N5 acc1 eq_refl) as [N6 N7].
      apply K4; assumption.
Qed.

(* the four claims about a history, with the corrected checker *)
Definition la_hist_post (t : tree) (cb : callback) (g : globals) (h : hist_out) : Prop :=
  well_checked' (la_given cb) (ho_events h) = true /\
  opened_ok t (g_sec g) (ho_events h) = true /\
  (rejected (ho_events h) = true -> ho_res h = inl CBF) /\
  (forall files, ho_res h = inr files ->
     rejected (ho_events h) = false /\
     map (fun kf => Some (get_path kf)) files = map (fun p => Some (real_name t p)) (opens_of (ho_events h)) /\
     files <> []).

Lemma la_wc'_nil c : well_checked' c [] = true.
Proof. destruct c; reflexivity. Qed.

Lemma la_history_tail t g cb o dirs nm sx dl cm m evs g1 :
  la_fm_post t cb g [] (inr m) evs g1 ->
  la_hist_post t cb g
    (match read_dropins t g1 cb o dirs nm sx dl cm (match m with Some kf => [kf] | None => [] end) evs with
     | (inl e, evs', g2) => mkHO (inl e) evs' g2
     | (inr [], evs', g2) => mkHO (inl ECONF_NOFILE) evs' g2
     | (inr files, evs', g2) => mkHO (inr files) evs' g2
     end).
Proof.
  intros (F1 & F2 & F3 & F4).
  specialize (F2 (la_wc'_nil _)). specialize (F3 eq_refl). specialize (F4 eq_refl).
  destruct F4 as [F4 F5]. destruct (F5 m eq_refl) as [F6 F7]. cbn [opens_of flat_map app] in F7.
  destruct (read_dropins t g1 cb o dirs nm sx dl cm (match m with Some kf => [kf] | None => [] end) evs)
    as [[res evs'] g2] eqn:RD.
  apply la_read_dropins in RD. destruct RD as (K1 & K2 & K3 & K4).
  rewrite F1 in K3.
  assert (MP : map get_path (match m with Some kf => [kf] | None => [] end) = map (real_name t) (opens_of evs))
    by (rewrite F7; destruct m; reflexivity).
  destruct (K4 F6 MP) as [K5 K6].
  destruct res as [e|files]; [|destruct files as [|f files]]; unfold la_hist_post; cbn [ho_res ho_events].
  - split; [auto|]. split; [auto|]. split; [exact K5|]. intros files K; discriminate K.
  - destruct (K6 [] eq_refl) as [K7 K8].
    split; [auto|]. split; [auto|]. split; [intros R; rewrite R in K7; discriminate K7|].
    intros files K; discriminate K.
  - destruct (K6 (f :: files) eq_refl) as [K7 K8].
    split; [auto|]. split; [auto|]. split; [intros R; rewrite R in K7; discriminate K7|].
    intros files' K. inversion K; subst files'. split; [exact K7|]. split; [|discriminate].
    rewrite <- (map_map (real_name t) Some), <- K8, map_map. reflexivity.
Qed.

Lemma la_history_facts t g cb o parse_dirs conf_dirs name sfx dl cm :
  la_hist_post t cb g (history t g cb o parse_dirs conf_dirs name sfx dl cm).
Proof.
  unfold history. destruct name as [nm|].
  2:{ unfold la_hist_post. cbn [ho_res ho_events].
      split; [apply la_wc'_nil|]. split; [reflexivity|].
      split; [intros R; discriminate R|]. intros files K; discriminate K. }
  destruct nm as [|c nm']; cbv beta iota zeta.
  - apply (la_history_tail t g cb o (dropin_dirs parse_dirs conf_dirs [] []) [] [] dl cm None [] g).
    split; [reflexivity|]. split; [auto|]. split; [auto|]. intros _.
    split; [intros R; discriminate R|]. intros m K. inversion K; subst. split; reflexivity.
  - destruct (find_main t g cb o (rev parse_dirs) (c :: nm') (norm_suffix sfx) dl cm [])
      as [[mainr evs] g1] eqn:FM.
    apply la_find_main in FM.
    destruct mainr as [e|m].
    + destruct FM as (F1 & F2 & F3 & F4).
      unfold la_hist_post. cbn [ho_res ho_events].
      split; [apply F2; apply la_wc'_nil|]. split; [apply F3; reflexivity|].
      split; [destruct (F4 eq_refl) as [F5 _]; intros R; apply F5 in R; inversion R; reflexivity|]. intros files K; discriminate K.
    + apply (la_history_tail t g cb o
               (dropin_dirs parse_dirs conf_dirs (c :: nm') (norm_suffix sfx)) (c :: nm') (norm_suffix sfx)
               dl cm m evs g1).
      exact FM.
Qed.

(* ---- A4 ---- *)
(* [history_events] as stated is FALSE when no callback is given (same reason
   as [gate_events]): *)
Definition la_cex_tree2 : tree := [(bs "/etc/foo.conf", NFile [] 0 0)].
Lemma la_history_events_counterexample :
  let h := history la_cex_tree2 globals0 None (mkPopts false false) [bs "/etc"] []
                   (Some (bs "foo")) (Some (bs "conf")) (bs "=") (bs "#") in
  ho_events h = [EvOpen (bs "/etc/foo.conf")] /\ well_checked (ho_events h) = false /\
  (exists kf, ho_res h = inr [kf]).
Proof. vm_compute. repeat split. eexists; reflexivity. Qed.

Theorem history_events_corrected : forall t g cb o parse_dirs conf_dirs name sfx dl cm,
  let h := history t g cb o parse_dirs conf_dirs name sfx dl cm in
  well_checked' (la_given cb) (ho_events h) = true /\
  opened_ok t (g_sec g) (ho_events h) = true /\
  (rejected (ho_events h) = true -> ho_res h = inl ECONF_PARSING_CALLBACK_FAILED) /\
  (forall files, ho_res h = inr files ->
     rejected (ho_events h) = false /\
     map (fun kf => Some (get_path kf)) files = map (fun p => Some (real_name t p)) (opens_of (ho_events h)) /\
     files <> []).
Proof. intros. exact (la_history_facts t g cb o parse_dirs conf_dirs name sfx dl cm). Qed.

(* the statement as given, when a callback is in use *)
Theorem history_events_cb : forall t g cb o parse_dirs conf_dirs name sfx dl cm, cb <> None ->
  let h := history t g cb o parse_dirs conf_dirs name sfx dl cm in
  well_checked (ho_events h) = true /\
  opened_ok t (g_sec g) (ho_events h) = true /\
  (rejected (ho_events h) = true -> ho_res h = inl ECONF_PARSING_CALLBACK_FAILED) /\
  (forall files, ho_res h = inr files ->
     rejected (ho_events h) = false /\
     map (fun kf => Some (get_path kf)) files = map (fun p => Some (real_name t p)) (opens_of (ho_events h)) /\
     files <> []).
Proof.
  intros t g cb o parse_dirs conf_dirs name sfx dl cm NE. destruct cb as [f|]; [|contradiction].
  exact (la_history_facts t g (Some f) o parse_dirs conf_dirs name sfx dl cm).
Qed.

(* ================================================================== *)
(* 4. The public entry points                                          *)
(* ================================================================== *)

Lemma la_read_config_obj_events t g cb obj name sfx dl cm :
  r2_events (read_config_obj t g cb obj name sfx dl cm) =
  ho_events (history t g cb (mkPopts (kf_python obj) (kf_join obj)) (kf_parse_dirs obj)
                     (match kf_conf_dirs obj with [] => g_conf_dirs g | l => l end) name sfx dl cm).
Proof.
  unfold read_config_obj.
  destruct (ho_res _) as [e|files]; [reflexivity|].
  destruct (merge_files files); reflexivity.
Qed.

Lemma la_read_config_obj_rejected t g cb obj name sfx dl cm :
  rejected (r2_events (read_config_obj t g cb obj name sfx dl cm)) = true ->
  r2_err (read_config_obj t g cb obj name sfx dl cm) = ECONF_PARSING_CALLBACK_FAILED /\
  r2_obj (read_config_obj t g cb obj name sfx dl cm) = Some obj.
Proof.
  rewrite la_read_config_obj_events. unfold read_config_obj.
  match goal with |- context [history ?a ?b ?c ?d ?e ?f ?g0 ?h ?i ?j] =>
    pose proof (la_history_facts a b c d e f g0 h i j) as (_ & _ & HR & _);
    set (hh := history a b c d e f g0 h i j) in *
  end.
  intros R. specialize (HR R). rewrite HR. split; reflexivity.
Qed.

Lemma la_read_config_obj_checked t g cb obj name sfx dl cm :
  well_checked' (la_given cb) (r2_events (read_config_obj t g cb obj name sfx dl cm)) = true /\
  opened_ok t (g_sec g) (r2_events (read_config_obj t g cb obj name sfx dl cm)) = true.
Proof.
  rewrite la_read_config_obj_events.
  match goal with |- context [history ?a ?b ?c ?d ?e ?f ?g0 ?h ?i ?j] =>
    pose proof (la_history_facts a b c d e f g0 h i j) as (H1 & H2 & _)
  end.
  split; assumption.
Qed.

(* ---- A5 ---- *)
Theorem read_dirs_rejected : forall t g cb dist etc name sfx dl cm,
  let r := read_dirs t g cb dist etc name sfx dl cm in
  rejected (r2_events r) = true ->
  r2_err r = ECONF_PARSING_CALLBACK_FAILED /\
  match r2_obj r with Some kf => kf_entries kf = [] | None => True end.
Proof.
  intros t g cb dist etc name sfx dl cm r R. unfold r, read_dirs in *.
  apply la_read_config_obj_rejected in R. destruct R as [R1 R2].
  split; [exact R1|]. rewrite R2. reflexivity.
Qed.

(* what read_config does with the result of read_config_obj *)
Lemma la_read_config_shape t g cb obj0 project usr name sfx dl cm :
  exists obj3 name',
    let r := read_config_obj t g cb obj3 name' sfx dl cm in
    read_config t g cb obj0 project usr name sfx dl cm =
    match r2_err r, obj0 with
    | ECONF_SUCCESS, _ => r
    | _, None => mkR2 (r2_err r) None (r2_events r) (r2_g r)
    | _, Some _ => r
    end.
Proof. unfold read_config. eexists. eexists. reflexivity. Qed.

Lemma la_read_config_events_eq t g cb obj0 project usr name sfx dl cm :
  exists obj3 name',
    r2_events (read_config t g cb obj0 project usr name sfx dl cm) =
    r2_events (read_config_obj t g cb obj3 name' sfx dl cm).
Proof.
  destruct (la_read_config_shape t g cb obj0 project usr name sfx dl cm) as (obj3 & name' & E).
  exists obj3, name'. cbv zeta in E. rewrite E.
  destruct (r2_err (read_config_obj t g cb obj3 name' sfx dl cm)); destruct obj0; reflexivity.
Qed.

Theorem read_config_rejected : forall t g cb project usr name sfx dl cm,
  let r := read_config t g cb None project usr name sfx dl cm in
  rejected (r2_events r) = true -> r2_err r = ECONF_PARSING_CALLBACK_FAILED /\ r2_obj r = None.
Proof.
  intros t g cb project usr name sfx dl cm r. unfold r. clear r.
  destruct (la_read_config_shape t g cb None project usr name sfx dl cm) as (obj3 & name' & E).
  cbv zeta in E. rewrite E. clear E.
  pose proof (la_read_config_obj_rejected t g cb obj3 name' sfx dl cm) as RR.
  destruct (r2_err (read_config_obj t g cb obj3 name' sfx dl cm)) eqn:EE;
    cbn [r2_events r2_err r2_obj]; intros R; destruct (RR R) as [A B];
    try discriminate A.
  split; reflexivity.
Qed.

Theorem read_file_rejected : forall t g cb path dl cm,
  let r := read_file_api t g cb path dl cm in
  rejected (r2_events r) = true -> r2_err r = ECONF_PARSING_CALLBACK_FAILED /\ r2_obj r = None.
Proof.
  intros t g cb path dl cm r. unfold r, read_file_api. clear r.
  destruct (la_gate_facts t g cb (mkPopts false false) path dl cm) as (_ & _ & H3 & _).
  destruct (go_res (gate t g cb (mkPopts false false) path dl cm)) as [e|kf];
    cbn [r2_events r2_err r2_obj]; intros R; destruct (H3 R) as [A _].
  - inversion A. split; reflexivity.
  - discriminate A.
Qed.

Theorem read_dirs_history_rejected : forall t g cb dist etc name sfx dl cm,
  let h := read_dirs_history t g cb dist etc name sfx dl cm in
  rejected (ho_events h) = true -> ho_res h = inl ECONF_PARSING_CALLBACK_FAILED.
Proof.
  intros t g cb dist etc name sfx dl cm h. unfold h, read_dirs_history. clear h.
  match goal with |- context [history ?a ?b ?c ?d ?e ?f ?g0 ?h ?i ?j] =>
    pose proof (la_history_facts a b c d e f g0 h i j) as (_ & _ & HR & _)
  end.
  exact HR.
Qed.

(* [read_dirs_events] and [read_config_events] as stated are FALSE when no
   callback is given (same reason): *)
Lemma la_read_dirs_events_counterexample :
  let r := read_dirs la_cex_tree2 globals0 None (Some (bs "/usr/etc")) (Some (bs "/etc"))
                     (Some (bs "foo")) (Some (bs "conf")) (bs "=") (bs "#") in
  r2_err r = ECONF_SUCCESS /\ r2_events r = [EvOpen (bs "/etc/foo.conf")] /\
  well_checked (r2_events r) = false.
Proof. vm_compute. repeat split. Qed.

Lemma la_read_config_events_counterexample :
  let r := read_config la_cex_tree2 globals0 None None None None
                       (Some (bs "foo")) (Some (bs "conf")) (bs "=") (bs "#") in
  r2_err r = ECONF_SUCCESS /\ r2_events r = [EvOpen (bs "/etc/foo.conf")] /\
  well_checked (r2_events r) = false.
Proof. vm_compute. repeat split. Qed.

Theorem read_dirs_events_corrected : forall t g cb dist etc name sfx dl cm,
  let r := read_dirs t g cb dist etc name sfx dl cm in
  well_checked' (la_given cb) (r2_events r) = true /\ opened_ok t (g_sec g) (r2_events r) = true.
Proof.
  intros t g cb dist etc name sfx dl cm r. unfold r, read_dirs.
  apply la_read_config_obj_checked.
Qed.

Theorem read_config_events_corrected : forall t g cb obj0 project usr name sfx dl cm,
  let r := read_config t g cb obj0 project usr name sfx dl cm in
  well_checked' (la_given cb) (r2_events r) = true /\ opened_ok t (g_sec g) (r2_events r) = true.
Proof.
  intros t g cb obj0 project usr name sfx dl cm r. unfold r. clear r.
  destruct (la_read_config_events_eq t g cb obj0 project usr name sfx dl cm) as (obj3 & name' & E).
  rewrite E. apply la_read_config_obj_checked.
Qed.

(* the statements as given, when a callback is in use *)
Theorem read_dirs_events_cb : forall t g cb dist etc name sfx dl cm, cb <> None ->
  let r := read_dirs t g cb dist etc name sfx dl cm in
  well_checked (r2_events r) = true /\ opened_ok t (g_sec g) (r2_events r) = true.
Proof.
  intros t g cb dist etc name sfx dl cm NE. destruct cb as [f|]; [|contradiction].
  exact (read_dirs_events_corrected t g (Some f) dist etc name sfx dl cm).
Qed.

Theorem read_config_events_cb : forall t g cb obj0 project usr name sfx dl cm, cb <> None ->
  let r := read_config t g cb obj0 project usr name sfx dl cm in
  well_checked (r2_events r) = true /\ opened_ok t (g_sec g) (r2_events r) = true.
Proof.
  intros t g cb obj0 project usr name sfx dl cm NE. destruct cb as [f|]; [|contradiction].
  exact (read_config_events_corrected t g (Some f) obj0 project usr name sfx dl cm).
Qed.

(* without a callback: nothing is ever asked, so nothing can be rejected *)
Lemma la_no_callback_no_checks evs :
  well_checked' false evs = true -> checks_of evs = [] /\ rejected evs = false.
Proof.
  unfold well_checked'. induction evs as [|e evs IH]; [split; reflexivity|].
  cbn [forallb]. destruct e; [intros H; discriminate H|].
  cbn [andb]. intros H. destruct (IH H) as [A B]. split; [exact A|exact B].
Qed.

(* the first conjunct of the four statements is refutable as stated *)
Lemma la_gate_events_as_stated_false :
  ~ (forall t g cb o path dl cm, well_checked (go_events (gate t g cb o path dl cm)) = true).
Proof.
  intros H. specialize (H la_cex_tree globals0 None (mkPopts false false) (bs "/a") (bs "=") (bs "#")).
  vm_compute in H. discriminate H.
Qed.
Lemma la_history_events_as_stated_false :
  ~ (forall t g cb o parse_dirs conf_dirs name sfx dl cm,
       well_checked (ho_events (history t g cb o parse_dirs conf_dirs name sfx dl cm)) = true).
Proof.
  intros H. specialize (H la_cex_tree2 globals0 None (mkPopts false false) [bs "/etc"] []
                          (Some (bs "foo")) (Some (bs "conf")) (bs "=") (bs "#")).
  vm_compute in H. discriminate H.
Qed.
Lemma la_read_dirs_events_as_stated_false :
  ~ (forall t g cb dist etc name sfx dl cm,
       well_checked (r2_events (read_dirs t g cb dist etc name sfx dl cm)) = true).
Proof.
  intros H. specialize (H la_cex_tree2 globals0 None (Some (bs "/usr/etc")) (Some (bs "/etc"))
                          (Some (bs "foo")) (Some (bs "conf")) (bs "=") (bs "#")).
  vm_compute in H. discriminate H.
Qed.
Lemma la_read_config_events_as_stated_false :
  ~ (forall t g cb obj0 project usr name sfx dl cm,
       well_checked (r2_events (read_config t g cb obj0 project usr name sfx dl cm)) = true).
Proof.
  intros H. specialize (H la_cex_tree2 globals0 None None None None
                          (Some (bs "foo")) (Some (bs "conf")) (bs "=") (bs "#")).
  vm_compute in H. discriminate H.
Qed.
