(* KeyLine0.v — a conventional key line in keys-only mode (no delimiters). *)
From Coq Require Import String Lia List.
From Econf Require Import Bytes BytesFacts Grammar CommentLoop LineBase.
Local Open Scope N_scope.

(* ---------- the comment loop on a body without comment characters ---------- *)
Lemma k0_step_id dl c nm di cav :
  ~ In c (cstr nm) -> comment_step dl c (nm, di, cav) = (nm, di, cav).
Proof.
  intros H. unfold comment_step. now rewrite (rfind_idx_notin c (cstr nm) H).
Qed.

Lemma k0_fold_free dl cm pre di cav :
  nonzero pre = true ->
  forall cm', incl cm' cm -> free_of cm pre = true ->
  fold_left (fun st c => comment_step dl c st) cm' (pre, di, cav) = (pre, di, cav).
Proof.
  intros Hnz. induction cm' as [|c cm' IH]; intros Hi Hf; [reflexivity|].
  cbn [fold_left]. rewrite k0_step_id.
  - apply IH; [|exact Hf]. intros x Hx. apply Hi. now right.
  - rewrite (cstr_nonzero pre Hnz). eapply free_of_notin; [exact Hf|]. apply Hi. now left.
Qed.

Lemma k0_loop_free dl cm pre cav0 :
  nonzero pre = true -> free_of cm pre = true ->
  comment_loop dl cm pre cav0 = (pre, None, cav0).
Proof.
  intros Hnz Hf. unfold comment_loop. now apply (k0_fold_free dl cm pre None cav0 Hnz cm (incl_refl cm)).
Qed.

(* ---------- trimming ---------- *)
Lemma k0_drop_while_app_all (p : N -> bool) (a b : str) :
  forallb p a = true -> drop_while p (a ++ b) = drop_while p b.
Proof.
  induction a as [|x a IH]; [reflexivity|]. cbn [forallb app drop_while]. intros H.
  apply andb_true_iff in H as [H1 H2]. rewrite H1. auto.
Qed.

Lemma k0_drop_while_none (p : N -> bool) (l : str) :
  forallb (fun c => negb (p c)) l = true -> drop_while p l = l.
Proof.
  destruct l as [|x l]; [reflexivity|]. cbn [forallb drop_while]. intros H.
  apply andb_true_iff in H as [H1 _]. apply negb_true_iff in H1. now rewrite H1.
Qed.

Lemma k0_rtrim_app_blanks (a bl : str) :
  forallb (fun c => negb (isspace c)) a = true -> forallb isspace bl = true ->
  rtrim (a ++ bl) = a.
Proof.
  intros Ha Hb. unfold rtrim. rewrite rev_app_distr.
  rewrite k0_drop_while_app_all by now rewrite forallb_rev'.
  rewrite k0_drop_while_none by now rewrite forallb_rev'.
  apply rev_involutive.
Qed.

(* ---------- parse_entry in keys-only mode ---------- *)
Lemma k0_parse_entry_keys_only cm s org b0 c r :
  c <> 91 -> nonzero (c :: r) = true -> free_of cm (c :: r) = true ->
  parse_entry std_opts [] cm s org b0 (c :: r) =
  PCont (store_new (with_cav s (p_cav s)) (c :: r) None (p_line s) false).
Proof.
  intros Hc Hnz Hf. rewrite parse_entry_unfold.
  rewrite (k0_loop_free [] cm (c :: r) (p_cav s) Hnz Hf).
  cbv beta iota zeta. rewrite (cstr_nonzero (c :: r) Hnz).
  destruct c as [|p]; [reflexivity|].
  do 7 (destruct p as [p|p|]; try reflexivity).
  congruence.
Qed.

Lemma k0_class0_nil dl : class_of dl = Class0 -> dl = [].
Proof.
  destruct dl as [|c r]; [reflexivity|]. unfold class_of.
  destruct (has_wsp (c :: r)), (has_nonwsp (c :: r)); discriminate.
Qed.

(* ---------- the key line ---------- *)
Lemma key_line_ok_0 dl cm prev s k :
  cm_ok cm = true -> dl_ok dl cm = true -> class_of dl = Class0 ->
  wf_line dl cm prev (LKey k) = true -> Inv prev s ->
  parse_line std_opts dl cm s (render_line (LKey k)) = PCont (exp_step dl s (LKey k)) /\
  Inv true (exp_step dl s (LKey k)).
Proof.
  intros Hcm Hdl Hcls Hwf HI.
  pose proof (k0_class0_nil dl Hcls) as E. subst dl. clear Hcls Hdl.
  destruct k as [ind key b1 d b2 val post tc].
  cbn [wf_line] in Hwf. unfold wf_kline, wf_sep in Hwf.
  cbn [class_of kl_indent kl_key kl_b1 kl_d kl_b2 kl_val kl_post kl_tc] in Hwf.
  apply andb_true_iff in Hwf as [Hwf Hvt].
  apply andb_true_iff in Hwf as [Hwf Hpost].
  apply andb_true_iff in Hwf as [Hwf Hsep].
  apply andb_true_iff in Hwf as [Hind Hkey].
  apply andb_true_iff in Hsep as [_ Hsep].
  destruct d as [d|]; [discriminate|].
  destruct b1 as [|x1 b1]; [|discriminate].
  destruct b2 as [|x2 b2]; [|discriminate].
  destruct val as [[|v0 v]|inner]; try discriminate.
  destruct tc as [tc|]; [discriminate|].
  clear Hsep Hvt.
  unfold wf_key in Hkey. apply andb_true_iff in Hkey as [Hk0 Hkey].
  destruct key as [|k0 key']; [discriminate|].
  apply negb_true_iff in Hk0. apply N.eqb_neq in Hk0.
  assert (Hktc : forallb tchar (k0 :: key') = true).
  { eapply forallb_impl; [|exact Hkey]. intros x Hx.
    do 3 (apply andb_true_iff in Hx as [Hx ?]). exact Hx. }
  assert (Hkfc : free_of cm (k0 :: key') = true).
  { unfold free_of. eapply forallb_impl; [|exact Hkey]. intros x Hx.
    do 3 (apply andb_true_iff in Hx as [Hx ?]). assumption. }
  assert (Hknz : nonzero (k0 :: key') = true).
  { unfold nonzero. eapply forallb_impl; [|exact Hktc]. intros x Hx. now rewrite tchar_nonzero. }
  assert (Hkns : forallb (fun c => negb (isspace c)) (k0 :: key') = true).
  { eapply forallb_impl; [|exact Hktc]. intros x Hx. now rewrite tchar_not_space. }
  assert (Hk0t : tchar k0 = true).
  { cbn [forallb] in Hktc. now apply andb_true_iff in Hktc as [? _]. }
  assert (Hk0c : mem k0 cm = false).
  { rewrite free_of_cons in Hkfc. apply andb_true_iff in Hkfc as [H _]. now apply negb_true_iff in H. }
  set (pre := k0 :: key' ++ post).
  assert (Hpre_nz : nonzero pre = true).
  { change pre with ((k0 :: key') ++ post). now rewrite nonzero_app, Hknz, (nonzero_blanks post Hpost). }
  assert (Hpre_fc : free_of cm pre = true).
  { change pre with ((k0 :: key') ++ post). now rewrite free_of_app, Hkfc, (free_of_cm_blanks cm post Hcm Hpost). }
  destruct HI as [Hcav HIl].
  assert (Hstep : exp_step [] s (LKey (mkKL ind (k0 :: key') [] None [] (VPlain []) post None)) =
                  store_new (with_cav (bump s) (p_cav (bump s))) pre None (p_line (bump s)) false).
  { unfold exp_step, store_new, with_cav, bump, val_of, is_quoted.
    cbn [p_rev p_groups p_cur p_cbk p_cav p_line kl_key kl_val kl_tc class_of option_map].
    rewrite Hcav. unfold pre, key_trim.
    rewrite (k0_rtrim_app_blanks key' post).
    - reflexivity.
    - cbn [forallb] in Hkns. now apply andb_true_iff in Hkns as [_ ?].
    - now apply blanks_isspace. }
  rewrite Hstep. split.
  - unfold render_line.
    change (render_body (LKey (mkKL ind (k0 :: key') [] None [] (VPlain []) post None)))
      with (ind ++ (k0 :: key') ++ post ++ []).
    rewrite (app_nil_r post). change ((k0 :: key') ++ post) with pre.
    rewrite parse_line_body.
    2:{ now rewrite nonzero_app, (nonzero_blanks ind Hind). }
    unfold pre at 2. rewrite (drop_blanks_then ind (key' ++ post) k0 Hind (tchar_not_space k0 Hk0t)).
    rewrite Hk0c. fold pre.
    replace (match ind ++ pre with [] => PCont (bump s) | b0 :: _ => parse_entry std_opts [] cm (bump s) ((ind ++ pre) ++ [10]) b0 pre end)
      with (parse_entry std_opts [] cm (bump s) ((ind ++ pre) ++ [10]) (hd 0 (ind ++ pre)) pre)
      by (destruct ind; reflexivity).
    unfold pre at 3. rewrite k0_parse_entry_keys_only; [reflexivity|exact Hk0|exact Hpre_nz|exact Hpre_fc].
  - split; [reflexivity|]. unfold store_new. cbn [p_rev p_line]. eexists _, _. split; reflexivity.
Qed.
