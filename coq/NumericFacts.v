(* NumericFacts.v — proofs of the C08 / C09 / boolean statements. *)
From Coq Require Import String Lia.
From Coq Require Import ZArith List Bool ZifyBool.
From Econf Require Import Bytes BytesFacts NumericSpec.
Local Open Scope Z_scope.

(* ------------------------------------------------------------------ *)
(* strto, restated through a named strto_rest *)

Definition strto_rest (neg : bool) (s2 : str) : option strto_res :=
  match s2 with
  | 48%N :: x :: r =>
      if ((x =? 120) || (x =? 88))%N then
        match r with
        | h :: _ => match digit_in 16 h with
                    | Some _ => Some (mkStrto neg (fst (parse_digits 16 r 0 false)))
                    | None => Some (mkStrto neg 0)
                    end
        | [] => Some (mkStrto neg 0)
        end
      else Some (mkStrto neg (fst (parse_digits 8 (x :: r) 0 true)))
  | [48%N] => Some (mkStrto neg 0)
  | _ => let '(v, seen) := parse_digits 10 s2 0 false in
         if seen then Some (mkStrto neg v) else None
  end.

Lemma strto_body s :
  strto s =
  let s1 := drop_while isspace s in
  let '(neg, s2) := match s1 with
                    | 45%N :: r => (true, r)
                    | 43%N :: r => (false, r)
                    | _ => (false, s1)
                    end in
  strto_rest neg s2.
Proof. reflexivity. Qed.

Lemma strto_minus r : strto (45%N :: r) = strto_rest true r.
Proof. reflexivity. Qed.

Lemma strto_plus r : strto (43%N :: r) = strto_rest false r.
Proof. reflexivity. Qed.

Lemma strto_nosign c r :
  isspace c = false -> c <> 45%N -> c <> 43%N -> strto (c :: r) = strto_rest false (c :: r).
Proof.
  intros Hs H1 H2. rewrite strto_body. cbv zeta.
  rewrite (drop_while_stop isspace c r Hs).
  destruct c as [|p]; [reflexivity|].
  do 7 (try destruct p as [p|p|]); first [reflexivity | congruence].
Qed.

Lemma body_dec neg c r : c <> 48%N ->
  strto_rest neg (c :: r) =
  let '(v, seen) := parse_digits 10 (c :: r) 0 false in
  if seen then Some (mkStrto neg v) else None.
Proof.
  intros H. unfold strto_rest.
  destruct c as [|p]; [reflexivity|].
  do 7 (try destruct p as [p|p|]); first [reflexivity | congruence].
Qed.

Lemma body_oct neg x r : x <> 120%N -> x <> 88%N ->
  strto_rest neg (48%N :: x :: r) = Some (mkStrto neg (fst (parse_digits 8 (x :: r) 0 true))).
Proof.
  intros H1 H2. unfold strto_rest.
  destruct (N.eqb_spec x 120); [contradiction|].
  destruct (N.eqb_spec x 88); [contradiction|]. reflexivity.
Qed.

Lemma body_hex neg x h r : x = 120%N \/ x = 88%N -> digit_in 16 h <> None ->
  strto_rest neg (48%N :: x :: h :: r) = Some (mkStrto neg (fst (parse_digits 16 (h :: r) 0 false))).
Proof.
  intros Hx Hh. unfold strto_rest.
  assert (E : ((x =? 120) || (x =? 88))%N = true) by (destruct Hx; subst; reflexivity).
  rewrite E. destruct (digit_in 16 h); [reflexivity|contradiction].
Qed.

(* ------------------------------------------------------------------ *)
(* decimal printing *)

Definition decbyte (c : N) : Prop := (48 <= c <= 57)%N.
Definition dval (c : N) : Z := Z.of_N c - 48.
Definition val10 (ds : list N) (a : Z) : Z := fold_left (fun a c => a * 10 + dval c) ds a.

Lemma dig_isdigit c : decbyte c -> isdigit c = true.
Proof. unfold decbyte, isdigit. lia. Qed.

Lemma dig_not_space c : decbyte c -> isspace c = false.
Proof. unfold decbyte, isspace. lia. Qed.

Lemma digit_in_10 c : decbyte c -> digit_in 10 c = Some (dval c).
Proof.
  intros H. unfold digit_in, digit_val, dval. rewrite (dig_isdigit c H).
  assert (E2 : (Z.of_N c - 48 <? 10) = true) by (unfold decbyte in H; lia).
  rewrite E2. reflexivity.
Qed.

Lemma parse_digits_10 ds : Forall decbyte ds -> forall a s,
  parse_digits 10 ds a s = (val10 ds a, match ds with [] => s | _ => true end).
Proof.
  induction 1 as [|c t Hc Ht IH]; intros a s; [reflexivity|].
  cbn [parse_digits]. rewrite (digit_in_10 c Hc). rewrite IH.
  unfold val10; cbn [fold_left]. destruct t; reflexivity.
Qed.

Lemma dval_digit_char d : 0 <= d < 10 -> dval (digit_char d) = d.
Proof. intros H. unfold dval, digit_char. rewrite Z2N.id; lia. Qed.

Lemma dig_digit_char d : 0 <= d < 10 -> decbyte (digit_char d).
Proof. intros H. unfold decbyte, digit_char. lia. Qed.

Lemma dec_digits_spec fuel : forall z acc, 0 < z < 2 ^ Z.of_nat fuel ->
  exists c t, dec_digits fuel z acc = (c :: t) ++ acc /\ (49 <= c <= 57)%N /\
              Forall decbyte t /\ val10 (c :: t) 0 = z.
Proof.
  induction fuel as [|f IH]; intros z acc H.
  - change (2 ^ Z.of_nat 0) with 1 in H. lia.
  - rewrite Nat2Z.inj_succ, Z.pow_succ_r in H by lia.
    cbn [dec_digits]. cbv zeta.
    assert (Hm : 0 <= z mod 10 < 10) by (apply Z.mod_pos_bound; lia).
    destruct (Z.eqb_spec (z / 10) 0) as [E|E].
    + assert (Hz : z mod 10 = z) by (Z.div_mod_to_equations; lia).
      exists (digit_char (z mod 10)), []. repeat split.
      * rewrite Hz. unfold digit_char. lia.
      * rewrite Hz. unfold digit_char. lia.
      * constructor.
      * unfold val10. cbn [fold_left]. rewrite dval_digit_char by assumption. lia.
    + destruct (IH (z / 10) (digit_char (z mod 10) :: acc)) as (c & t & E1 & Hc & Ht & Hv).
      { Z.div_mod_to_equations; lia. }
      exists c, (t ++ [digit_char (z mod 10)]). repeat split.
      * rewrite E1. cbn [app]. rewrite <- app_assoc. reflexivity.
      * apply Hc.
      * apply Hc.
      * apply Forall_app. split; [assumption|]. constructor; [|constructor].
        apply dig_digit_char; assumption.
      * unfold val10 in *. change (c :: t ++ [digit_char (z mod 10)]) with ((c :: t) ++ [digit_char (z mod 10)]).
        rewrite fold_left_app. rewrite Hv. cbn [fold_left].
        rewrite dval_digit_char by assumption. Z.div_mod_to_equations; lia.
Qed.

Lemma fmt_nat_spec z : 0 < z ->
  exists c t, fmt_nat z = c :: t /\ (49 <= c <= 57)%N /\ Forall decbyte t /\ val10 (c :: t) 0 = z.
Proof.
  intros H. unfold fmt_nat.
  destruct (dec_digits_spec (S (Z.to_nat (Z.log2 z))) z []) as (c & t & E & Hc & Ht & Hv).
  - rewrite Nat2Z.inj_succ, Z2Nat.id by apply Z.log2_nonneg.
    pose proof (Z.log2_spec z H). lia.
  - exists c, t. rewrite E, app_nil_r. auto.
Qed.

Lemma fmt_nat_0 : fmt_nat 0 = [48%N].
Proof. reflexivity. Qed.

Lemma body_fmt_nat neg z : 0 <= z -> strto_rest neg (fmt_nat z) = Some (mkStrto neg z).
Proof.
  intros H. destruct (Z.eq_dec z 0) as [->|Hz]; [reflexivity|].
  destruct (fmt_nat_spec z) as (c & t & E & Hc & Ht & Hv); [lia|].
  rewrite E. rewrite body_dec by lia.
  assert (Hd : Forall decbyte (c :: t)) by (constructor; [unfold decbyte; lia|assumption]).
  rewrite (parse_digits_10 _ Hd). rewrite Hv. reflexivity.
Qed.

Theorem strto_fmt_dec : forall z, strto (fmt_dec z) = Some (mkStrto (z <? 0) (Z.abs z)).
Proof.
  intros z. unfold fmt_dec. destruct (Z.ltb_spec z 0) as [H|H].
  - rewrite strto_minus. rewrite body_fmt_nat by lia. f_equal. f_equal. lia.
  - rewrite (Z.abs_eq z H).
    destruct (Z.eq_dec z 0) as [->|Hz]; [reflexivity|].
    destruct (fmt_nat_spec z) as (c & t & E & Hc & Ht & Hv); [lia|].
    rewrite <- (body_fmt_nat false z H). rewrite E.
    apply strto_nosign; [apply dig_not_space; unfold decbyte| |]; lia.
Qed.

(* ------------------------------------------------------------------ *)
(* round trips *)

Lemma signed_roundtrip bits z : 1 <= bits <= 64 ->
  - 2 ^ (bits - 1) <= z < 2 ^ (bits - 1) -> get_signed_text bits (Some (fmt_dec z)) = inr z.
Proof.
  intros Hb H. unfold get_signed_text. rewrite strto_fmt_dec. cbv zeta.
  unfold signed_val; cbn [st_neg st_mag].
  assert (E : (if z <? 0 then - Z.abs z else Z.abs z) = z) by (destruct (Z.ltb_spec z 0); lia). rewrite E.
  assert (Hp : 2 ^ (bits - 1) <= 2 ^ 63) by (apply Z.pow_le_mono_r; lia).
  set (A := 2 ^ 63) in *. set (B := 2 ^ (bits - 1)) in *.
  assert (E1 : ((z <? - A) || (A <=? z)) = false) by lia. rewrite E1.
  assert (E2 : ((z <? - B) || (B <=? z)) = false) by lia. rewrite E2. reflexivity.
Qed.

Lemma unsigned_roundtrip bits z : 0 <= bits <= 64 ->
  0 <= z < 2 ^ bits -> get_unsigned_text bits (Some (fmt_dec z)) = inr z.
Proof.
  intros Hb H. unfold get_unsigned_text. rewrite strto_fmt_dec. cbv zeta.
  cbn [st_neg st_mag]. rewrite (Z.abs_eq z) by lia.
  assert (Hp : 2 ^ bits <= 2 ^ 64) by (apply Z.pow_le_mono_r; lia).
  set (A := 2 ^ 64) in *. set (B := 2 ^ bits) in *.
  assert (E1 : (A <=? z) = false) by lia. rewrite E1.
  assert (E0 : (z <? 0) = false) by lia. rewrite E0. cbn [andb].
  assert (E2 : (B <=? z) = false) by lia. rewrite E2. reflexivity.
Qed.

Theorem int32_roundtrip : forall z, - 2 ^ 31 <= z < 2 ^ 31 -> get_signed_text 32 (Some (fmt_dec z)) = inr z.
Proof. intros z H. apply signed_roundtrip; [lia|exact H]. Qed.

Theorem int64_roundtrip : forall z, - 2 ^ 63 <= z < 2 ^ 63 -> get_signed_text 64 (Some (fmt_dec z)) = inr z.
Proof. intros z H. apply signed_roundtrip; [lia|exact H]. Qed.

Theorem uint32_roundtrip : forall z, 0 <= z < 2 ^ 32 -> get_unsigned_text 32 (Some (fmt_dec z)) = inr z.
Proof. intros z H. apply unsigned_roundtrip; [lia|exact H]. Qed.

Theorem uint64_roundtrip : forall z, 0 <= z < 2 ^ 64 -> get_unsigned_text 64 (Some (fmt_dec z)) = inr z.
Proof. intros z H. apply unsigned_roundtrip; [lia|exact H]. Qed.

Lemma dig_chars l : Forall decbyte l -> forallb (fun c => isdigit c || (c =? 45)%N) l = true.
Proof.
  induction 1 as [|c t Hc Ht IH]; [reflexivity|].
  cbn [forallb]. rewrite (dig_isdigit c Hc), IH. reflexivity.
Qed.

Lemma fmt_nat_dig z : 0 <= z -> Forall decbyte (fmt_nat z).
Proof.
  intros H. destruct (Z.eq_dec z 0) as [->|Hz].
  - rewrite fmt_nat_0. constructor; [unfold decbyte; lia|constructor].
  - destruct (fmt_nat_spec z) as (c & t & E & Hc & Ht & Hv); [lia|].
    rewrite E. constructor; [unfold decbyte; lia|assumption].
Qed.

(* the printed text consists of an optional '-' and decimal digits only *)
Theorem fmt_dec_chars : forall z, forallb (fun c => isdigit c || (c =? 45)%N) (fmt_dec z) = true.
Proof.
  intros z. unfold fmt_dec. destruct (Z.ltb_spec z 0) as [H|H].
  - cbn [forallb]. rewrite dig_chars by (apply fmt_nat_dig; lia). reflexivity.
  - apply dig_chars, fmt_nat_dig, H.
Qed.

(* ------------------------------------------------------------------ *)
(* booleans *)

Lemma lower_nil s : s = [] <-> lower s = [].
Proof. destruct s; cbn; split; congruence. Qed.

Ltac bool_pos_case :=
  vm_compute; split; intros H; [injection H as <-|]; intuition congruence.

Theorem bool_get_exact : forall s b,
  bool_get_text (Some s) = inr b <->
  (b = true /\ (lower s = [49%N] \/ In (lower s) true_words)) \/
  (b = false /\ (lower s = [48%N] \/ s = [] \/ In (lower s) false_words)).
Proof.
  intros s b. unfold bool_get_text. cbv zeta.
  rewrite (lower_nil s). generalize (lower s) as l. intros l.
  unfold true_words, false_words. cbn [In].
  destruct (str_eqb_spec l [49%N]) as [->|N1]; [bool_pos_case|].
  destruct (str_eqb_spec l (bs "yes")) as [->|N2]; [bool_pos_case|].
  destruct (str_eqb_spec l (bs "true")) as [->|N3]; [bool_pos_case|].
  destruct (str_eqb_spec l [48%N]) as [->|N4]; [bool_pos_case|].
  destruct (str_eqb_spec l []) as [->|N5]; [bool_pos_case|].
  destruct (str_eqb_spec l (bs "no")) as [->|N6]; [bool_pos_case|].
  destruct (str_eqb_spec l (bs "false")) as [->|N7]; [bool_pos_case|].
  cbn [orb]. split.
  - destruct (str_eqb l none_s); discriminate.
  - intuition congruence.
Qed.

Theorem bool_set_get : forall s b,
  (b = true /\ (s = [49%N] \/ In (lower s) true_words)) \/
  (b = false /\ (s = [48%N] \/ In (lower s) false_words)) ->
  bool_set_text (Some s) = SetTo (if b then bs "true" else bs "false") /\
  bool_get_text (Some (if b then bs "true" else bs "false")) = inr b.
Proof.
  intros s b H. split; [|destruct b; reflexivity].
  unfold bool_set_text. cbv zeta.
  unfold true_words, false_words in H. cbn [In] in H.
  destruct H as [[-> H]|[-> H]].
  - destruct H as [->|[H|[H|[]]]]; [reflexivity| |]; rewrite <- H;
      destruct (str_eqb s [49%N]); reflexivity.
  - destruct H as [->|H]; [reflexivity|].
    destruct (str_eqb_spec s [49%N]) as [->|N1].
    { exfalso. vm_compute in H. intuition congruence. }
    destruct H as [H|[H|[]]]; rewrite <- H; destruct (str_eqb s [48%N]); reflexivity.
Qed.

Theorem null_value_refused : forall bits,
  get_signed_text bits None = inl ECONF_KEY_HAS_NULL_VALUE /\
  get_unsigned_text bits None = inl ECONF_KEY_HAS_NULL_VALUE /\
  bool_get_text None = inl ECONF_KEY_HAS_NULL_VALUE /\
  get_float_text None = inl ECONF_KEY_HAS_NULL_VALUE.
Proof. intros bits. repeat split. Qed.

(* ------------------------------------------------------------------ *)
(* literals *)

Definition okbase (b : Z) : Prop := b = 8 \/ b = 10 \/ b = 16.

Lemma okbase_val ba : okbase (base_val ba).
Proof. unfold okbase. destruct ba; cbn; auto. Qed.

Lemma digit_byte_small u d : 0 <= d < 10 -> digit_byte u d = Z.to_N (48 + d).
Proof. intros H. unfold digit_byte. destruct (Z.ltb_spec d 10); [reflexivity|lia]. Qed.

Lemma digit_in_byte b u d : okbase b -> 0 <= d < b -> digit_in b (digit_byte u d) = Some d.
Proof.
  intros Hb Hd.
  assert (Hc : d = 0 \/ d = 1 \/ d = 2 \/ d = 3 \/ d = 4 \/ d = 5 \/ d = 6 \/ d = 7 \/
               d = 8 \/ d = 9 \/ d = 10 \/ d = 11 \/ d = 12 \/ d = 13 \/ d = 14 \/ d = 15)
    by (unfold okbase in Hb; lia).
  destruct u; destruct Hb as [ -> | [ -> | -> ] ];
    repeat (destruct Hc as [ -> | Hc ]; [first [reflexivity|lia]|]); subst; first [reflexivity|lia].
Qed.

Lemma parse_digits_lit b u ds : okbase b -> Forall (fun d => 0 <= d < b) ds -> forall acc s,
  parse_digits b (map (digit_byte u) ds) acc s =
  (fold_left (fun a d => a * b + d) ds acc, match ds with [] => s | _ => true end).
Proof.
  intros Hb. induction 1 as [|d t Hd Ht IH]; intros acc s; [reflexivity|].
  cbn [map parse_digits]. rewrite (digit_in_byte b u d Hb Hd). rewrite IH.
  cbn [fold_left]. destruct t; reflexivity.
Qed.

Lemma forallb_Forall_range b ds :
  forallb (fun d => (0 <=? d) && (d <? b)) ds = true -> Forall (fun d => 0 <= d < b) ds.
Proof.
  induction ds as [|d t IH]; cbn [forallb]; intros H; [constructor|].
  apply andb_true_iff in H as [H1 H2]. constructor; [lia|auto].
Qed.

Lemma fold_nonneg b ds : 0 <= b -> Forall (fun d => 0 <= d < b) ds -> forall acc, 0 <= acc ->
  0 <= fold_left (fun a d => a * b + d) ds acc.
Proof.
  intros Hb. induction 1 as [|d t Hd Ht IH]; intros acc Ha; [exact Ha|].
  cbn [fold_left]. apply IH. nia.
Qed.

Lemma strto_first_digit c r : (48 <= c <= 57)%N -> strto (c :: r) = strto_rest false (c :: r).
Proof. intros H. apply strto_nosign; [apply dig_not_space; exact H|lia|lia]. Qed.

Lemma body_literal neg ba u ds :
  lit_wf (mkLit SNone ba u ds) = true ->
  exists c r, render_lit (mkLit SNone ba u ds) = c :: r /\ (48 <= c <= 57)%N /\
              strto_rest neg (c :: r) = Some (mkStrto neg (horner (base_val ba) ds)).
Proof.
  unfold lit_wf, render_lit. cbn [l_sign l_base l_upper l_digits app].
  intros H. apply andb_true_iff in H as [Hall Hshape].
  apply forallb_Forall_range in Hall.
  pose proof (okbase_val ba) as Hb.
  destruct ba; cbn [base_val] in *.
  - (* Dec *)
    destruct ds as [|d t]; [discriminate|].
    assert (Hd : 0 < d < 10) by (inversion Hall; subst; lia).
    exists (digit_byte u d), (map (digit_byte u) t). cbn [app map].
    rewrite (digit_byte_small u d) by lia.
    split; [reflexivity|]. split; [lia|].
    rewrite body_dec by lia.
    rewrite <- (digit_byte_small u d) by lia.
    change (digit_byte u d :: map (digit_byte u) t) with (map (digit_byte u) (d :: t)).
    rewrite (parse_digits_lit 10 u (d :: t) Hb Hall). reflexivity.
  - (* Oct *)
    exists 48%N, (map (digit_byte u) ds). cbn [app].
    split; [reflexivity|]. split; [lia|].
    destruct ds as [|d t]; [reflexivity|].
    assert (Hd : 0 <= d < 8) by (inversion Hall; subst; lia).
    cbn [map]. rewrite body_oct by (rewrite (digit_byte_small u d) by lia; lia).
    change (digit_byte u d :: map (digit_byte u) t) with (map (digit_byte u) (d :: t)).
    rewrite (parse_digits_lit 8 u (d :: t) Hb Hall). reflexivity.
  - (* Hex *)
    exists 48%N, ((if u then 88%N else 120%N) :: map (digit_byte u) ds). cbn [app].
    split; [reflexivity|]. split; [lia|].
    destruct ds as [|d t]; [discriminate|].
    assert (Hd : 0 <= d < 16) by (inversion Hall; subst; lia).
    cbn [map]. rewrite body_hex.
    + change (digit_byte u d :: map (digit_byte u) t) with (map (digit_byte u) (d :: t)).
      rewrite (parse_digits_lit 16 u (d :: t) Hb Hall). reflexivity.
    + destruct u; auto.
    + rewrite (digit_in_byte 16 u d Hb Hd). discriminate.
Qed.

Theorem strto_literal : forall l, lit_wf l = true ->
  strto (render_lit l) = Some (mkStrto (match l_sign l with SMinus => true | _ => false end)
                                        (horner (base_val (l_base l)) (l_digits l))).
Proof.
  intros [sg ba u ds] H. cbn [l_sign l_base l_digits].
  assert (H' : lit_wf (mkLit SNone ba u ds) = true) by exact H.
  destruct sg.
  - destruct (body_literal false ba u ds H') as (c & r & E & Hc & Hbody).
    rewrite E. rewrite strto_first_digit by exact Hc. exact Hbody.
  - destruct (body_literal false ba u ds H') as (c & r & E & Hc & Hbody).
    change (render_lit (mkLit SPlus ba u ds)) with (43%N :: render_lit (mkLit SNone ba u ds)).
    rewrite strto_plus, E. exact Hbody.
  - destruct (body_literal true ba u ds H') as (c & r & E & Hc & Hbody).
    change (render_lit (mkLit SMinus ba u ds)) with (45%N :: render_lit (mkLit SNone ba u ds)).
    rewrite strto_minus, E. exact Hbody.
Qed.

Lemma horner_nonneg l : lit_wf l = true -> 0 <= horner (base_val (l_base l)) (l_digits l).
Proof.
  unfold lit_wf. intros H. apply andb_true_iff in H as [Hall _].
  apply forallb_Forall_range in Hall. unfold horner.
  apply fold_nonneg; [destruct (l_base l); cbn; lia|exact Hall|lia].
Qed.

Lemma signed_val_literal l :
  signed_val (mkStrto (match l_sign l with SMinus => true | _ => false end)
                      (horner (base_val (l_base l)) (l_digits l))) = lit_value l.
Proof. unfold signed_val, lit_value. cbn [st_neg st_mag]. destruct (l_sign l); reflexivity. Qed.

Theorem signed_literal : forall bits l, (bits = 32 \/ bits = 64) -> lit_wf l = true ->
  get_signed_text bits (Some (render_lit l)) =
  if (- 2 ^ (bits - 1) <=? lit_value l) && (lit_value l <? 2 ^ (bits - 1)) then inr (lit_value l)
  else inl ECONF_VALUE_CONVERSION_ERROR.
Proof.
  intros bits l Hb Hwf. unfold get_signed_text. rewrite strto_literal by exact Hwf. cbv zeta.
  rewrite signed_val_literal. generalize (lit_value l) as v. intros v.
  assert (Hp : 2 ^ (bits - 1) <= 2 ^ 63) by (apply Z.pow_le_mono_r; lia).
  set (A := 2 ^ 63) in *. set (B := 2 ^ (bits - 1)) in *.
  destruct (Z.ltb_spec v (- A)), (Z.leb_spec A v), (Z.ltb_spec v (- B)), (Z.leb_spec B v),
    (Z.leb_spec (- B) v), (Z.ltb_spec v B); cbn [orb andb]; try reflexivity; lia.
Qed.

Theorem unsigned_literal : forall bits l, (bits = 32 \/ bits = 64) -> lit_wf l = true ->
  get_unsigned_text bits (Some (render_lit l)) =
  if (0 <=? lit_value l) && (lit_value l <? 2 ^ bits) then inr (lit_value l)
  else inl ECONF_VALUE_CONVERSION_ERROR.
Proof.
  intros bits l Hb Hwf. unfold get_unsigned_text. rewrite strto_literal by exact Hwf. cbv zeta.
  cbn [st_neg st_mag]. pose proof (horner_nonneg l Hwf) as Hm. unfold lit_value.
  revert Hm. generalize (horner (base_val (l_base l)) (l_digits l)) as m. intros m Hm.
  assert (Hp : 2 ^ bits <= 2 ^ 64) by (apply Z.pow_le_mono_r; lia).
  set (A := 2 ^ 64) in *. set (B := 2 ^ bits) in *.
  destruct (l_sign l);
  destruct (Z.leb_spec A m), (Z.eqb_spec m 0), (Z.leb_spec B m),
    (Z.leb_spec 0 m), (Z.ltb_spec m B), (Z.leb_spec 0 (- m)), (Z.ltb_spec (- m) B);
    cbn [orb andb negb]; try reflexivity; try lia; try (f_equal; lia).
Qed.
