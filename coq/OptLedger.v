(* OptLedger.v — C20 at block granularity for econf_newKeyFile_with_options
   (lib/libeconf.c): the object, the copy of the option string, and per item
   the directory array, the copy of the list text, one string per directory,
   the root prefix.  A repeated item releases what the earlier one allocated;
   an unknown item returns with the object (and everything set so far) left
   to the caller, whose econf_free releases all of it.  The ledger and its
   invariant are those of LedgerModel.v / LedgerFacts.v, with blocks as ids. *)
From Coq Require Import String Lia List Permutation Arith.
From Econf Require Import Bytes BytesFacts LedgerModel LedgerFacts.
Local Open Scope N_scope.

Record oown := mkOw { ow_obj : nat; ow_pd : list nat; ow_cd : list nat; ow_rp : list nat }.
Definition ow_all (w : oown) : list nat := ow_pd w ++ ow_cd w ++ ow_rp w ++ [ow_obj w].

Fixpoint lallocn (n : nat) (l : ledger) : list nat * ledger :=
  match n with
  | O => ([], l)
  | S k => let (id, l1) := lalloc l in let (ids, l2) := lallocn k l1 in (id :: ids, l2)
  end.

(* PARSING_DIRS= / CONFIG_DIRS=: econf_freeArray(old); malloc (array, realloc'ed
   in place); strdup(list text); strdup per piece; free(list text) *)
Definition dirs_item (pieces : nat) (old : list nat) (l : ledger) : list nat * ledger :=
  let l1 := fold_left lfree old l in
  let (arr, l2) := lalloc l1 in
  let (tmp, l3) := lalloc l2 in
  let (strs, l4) := lallocn pieces l3 in
  (arr :: strs, lfree l4 tmp).

Definition opt_item_led (w : oown) (l : ledger) (item : str) : option (oown * ledger) :=
  if str_eqb item (bs "JOIN_SAME_ENTRIES=1") then Some (w, l)
  else if str_eqb item (bs "PYTHON_STYLE=1") then Some (w, l)
  else if str_eqb item (bs "JOIN_SAME_ENTRIES=0") then Some (w, l)
  else if str_eqb item (bs "PYTHON_STYLE=0") then Some (w, l)
  else if is_prefix (bs "PARSING_DIRS=") item then
    let (pd, l') := dirs_item (length (split_on 58 (skipn 13 item))) (ow_pd w) l in
    Some (mkOw (ow_obj w) pd (ow_cd w) (ow_rp w), l')
  else if is_prefix (bs "CONFIG_DIRS=") item then
    let (cd, l') := dirs_item (length (split_on 58 (skipn 12 item))) (ow_cd w) l in
    Some (mkOw (ow_obj w) (ow_pd w) cd (ow_rp w), l')
  else if is_prefix (bs "ROOT_PREFIX=") item then
    let (s, l') := lalloc (fold_left lfree (ow_rp w) l) in
    Some (mkOw (ow_obj w) (ow_pd w) (ow_cd w) [s], l')
  else None.

Fixpoint opt_items_led (w : oown) (l : ledger) (items : list str) : econf_err * oown * ledger :=
  match items with
  | [] => (ECONF_SUCCESS, w, l)
  | it :: rest => match opt_item_led w l it with
                  | Some (w', l') => opt_items_led w' l' rest
                  | None => (ECONF_OPTION_NOT_FOUND, w, l)
                  end
  end.

Definition new_with_options_led (opts : option str) : econf_err * oown * ledger :=
  let (obj, l1) := lalloc ledger0 in
  let w0 := mkOw obj [] [] [] in
  match opts with
  | None => (ECONF_SUCCESS, w0, l1)
  | Some [] => (ECONF_SUCCESS, w0, l1)
  | Some s =>
      let (tmp, l2) := lalloc l1 in
      let '(e, w, l3) := opt_items_led w0 l2 (split_on 59 s) in
      (e, w, lfree l3 tmp)
  end.

(* econf_free(object): both arrays with their strings, the prefix, the object *)
Definition free_led (w : oown) (l : ledger) : ledger := fold_left lfree (ow_all w) l.

(* ---------- facts ---------- *)
Lemma lg_wf_allocn : forall n l o ids l', lallocn n l = (ids, l') -> lg_WF l o -> lg_WF l' (ids ++ o).
Proof.
  induction n as [|n IH]; intros l o ids l' H W; cbn [lallocn] in H.
  - injection H as <- <-. exact W.
  - destruct (lalloc l) as [id l1] eqn:A. destruct (lallocn n l1) as [ids' l2] eqn:B.
    injection H as <- <-.
    apply (lg_wf_perm l2 (ids' ++ id :: o)).
    + eapply IH; [exact B|]. eapply lg_wf_alloc; eauto.
    + apply Permutation_sym, Permutation_middle.
Qed.

Lemma dirs_item_wf : forall pieces old l rest new l',
  dirs_item pieces old l = (new, l') -> lg_WF l (old ++ rest) -> lg_WF l' (new ++ rest).
Proof.
  intros pieces old l rest new l' H W. unfold dirs_item in H.
  destruct (lalloc (fold_left lfree old l)) as [arr l2] eqn:A.
  destruct (lalloc l2) as [tmp l3] eqn:B.
  destruct (lallocn pieces l3) as [strs l4] eqn:C.
  injection H as <- <-.
  pose proof (lg_wf_free_all old l rest W) as W1.
  pose proof (lg_wf_alloc _ _ _ _ A W1) as W2.
  pose proof (lg_wf_alloc _ _ _ _ B W2) as W3.
  pose proof (lg_wf_allocn _ _ _ _ _ C W3) as W4.
  apply lg_wf_free.
  apply (lg_wf_perm _ _ _ W4).
  change (strs ++ tmp :: arr :: rest) with (strs ++ [tmp] ++ arr :: rest).
  change (tmp :: (arr :: strs) ++ rest) with ([tmp] ++ (arr :: strs) ++ rest).
  rewrite app_assoc. etransitivity; [apply Permutation_app_tail, Permutation_app_comm|].
  simpl. apply perm_skip. apply Permutation_sym. apply Permutation_middle.
Qed.

Lemma perm_third {A} (a b c d : list A) : Permutation (a ++ b ++ c ++ d) (c ++ a ++ b ++ d).
Proof.
  rewrite (app_assoc a b (c ++ d)), (app_assoc a b d).
  apply Permutation_app_swap_app.
Qed.

Lemma opt_item_wf : forall w l item w' l' extra,
  opt_item_led w l item = Some (w', l') -> lg_WF l (ow_all w ++ extra) -> lg_WF l' (ow_all w' ++ extra).
Proof.
  intros w l item w' l' extra H W. unfold opt_item_led in H.
  destruct (str_eqb item (bs "JOIN_SAME_ENTRIES=1")); [injection H as <- <-; exact W|].
  destruct (str_eqb item (bs "PYTHON_STYLE=1")); [injection H as <- <-; exact W|].
  destruct (str_eqb item (bs "JOIN_SAME_ENTRIES=0")); [injection H as <- <-; exact W|].
  destruct (str_eqb item (bs "PYTHON_STYLE=0")); [injection H as <- <-; exact W|].
  unfold ow_all in *.
  destruct (is_prefix (bs "PARSING_DIRS=") item).
  { destruct (dirs_item _ (ow_pd w) l) as [pd l1] eqn:D. injection H as <- <-. cbn [ow_pd ow_cd ow_rp ow_obj].
    rewrite <- app_assoc in W |- *. eapply dirs_item_wf; eauto. }
  destruct (is_prefix (bs "CONFIG_DIRS=") item).
  { destruct (dirs_item _ (ow_cd w) l) as [cd l1] eqn:D. injection H as <- <-. cbn [ow_pd ow_cd ow_rp ow_obj].
    rewrite <- !app_assoc in W |- *.
    eapply lg_wf_perm; [|apply Permutation_app_swap_app].
    eapply dirs_item_wf; [exact D|].
    eapply lg_wf_perm; [exact W|apply Permutation_app_swap_app]. }
  destruct (is_prefix (bs "ROOT_PREFIX=") item); [|discriminate].
  destruct (lalloc (fold_left lfree (ow_rp w) l)) as [s l1] eqn:A. injection H as <- <-. cbn [ow_pd ow_cd ow_rp ow_obj].
  rewrite <- !app_assoc in W |- *.
  eapply lg_wf_perm; [|apply Permutation_sym; apply (perm_third (ow_pd w) (ow_cd w) [s])].
  simpl. eapply lg_wf_alloc; [exact A|].
  apply lg_wf_free_all.
  eapply lg_wf_perm; [exact W|apply perm_third].
Qed.

Lemma opt_items_wf : forall items w l e w' l' extra,
  opt_items_led w l items = (e, w', l') -> lg_WF l (ow_all w ++ extra) -> lg_WF l' (ow_all w' ++ extra).
Proof.
  induction items as [|it rest IH]; intros w l e w' l' extra H W; cbn [opt_items_led] in H.
  - injection H as <- <- <-. exact W.
  - destruct (opt_item_led w l it) as [[w1 l1]|] eqn:E.
    + eapply IH; [exact H|]. eapply opt_item_wf; eauto.
    + injection H as <- <- <-. exact W.
Qed.

(* after the call - success or ECONF_OPTION_NOT_FOUND - the live blocks are
   exactly those reachable from the object: nothing leaked, nothing freed twice *)
Theorem new_with_options_owned : forall opts e w l,
  new_with_options_led opts = (e, w, l) -> lg_WF l (ow_all w).
Proof.
  intros opts e w l H. unfold new_with_options_led in H.
  destruct (lalloc ledger0) as [obj l1] eqn:A.
  pose proof (lg_wf_alloc _ _ _ _ A lg_wf0) as W1.
  assert (W0 : lg_WF l1 (ow_all (mkOw obj [] [] []))) by exact W1.
  destruct opts as [[|c s]|]; try (injection H as <- <- <-; exact W0).
  destruct (lalloc l1) as [tmp l2] eqn:B.
  destruct (opt_items_led (mkOw obj [] [] []) l2 (split_on 59 (c :: s))) as [[e1 w1] l3] eqn:C.
  injection H as <- <- <-.
  apply lg_wf_free.
  eapply lg_wf_perm; [|apply Permutation_sym; apply (Permutation_cons_append (ow_all w1) tmp)].
  eapply opt_items_wf; [exact C|].
  eapply lg_wf_perm; [|apply (Permutation_cons_append _ tmp)].
  eapply lg_wf_alloc; eauto.
Qed.

(* ... and econf_free of the object releases every one of them *)
Theorem new_with_options_freed : forall opts e w l,
  new_with_options_led opts = (e, w, l) -> lg_WF (free_led w l) [].
Proof.
  intros opts e w l H. unfold free_led.
  apply lg_wf_free_all. rewrite app_nil_r. eapply new_with_options_owned; eauto.
Qed.

Theorem new_with_options_balanced : forall opts e w l,
  new_with_options_led opts = (e, w, l) ->
  balanced (mkLO e (ow_all w) l) = true /\ balanced (mkLO e [] (free_led w l)) = true.
Proof.
  intros opts e w l H. split; apply lg_wf_balanced; simpl.
  - eapply new_with_options_owned; eauto.
  - eapply new_with_options_freed; eauto.
Qed.

(* the instrumented tokenizer takes the same decisions as the model of
   econf_newKeyFile_with_options (LayeredModel.new_with_options) *)
Lemma opt_item_led_matches : forall kf w l item,
  match opt_item kf item, opt_item_led w l item with
  | inr _, Some _ => True
  | inl e, None => e = ECONF_OPTION_NOT_FOUND
  | _, _ => False
  end.
Proof.
  intros kf w l item. unfold opt_item, opt_item_led.
  destruct (str_eqb item (bs "JOIN_SAME_ENTRIES=1")); [exact I|].
  destruct (str_eqb item (bs "PYTHON_STYLE=1")); [exact I|].
  destruct (str_eqb item (bs "JOIN_SAME_ENTRIES=0")); [exact I|].
  destruct (str_eqb item (bs "PYTHON_STYLE=0")); [exact I|].
  destruct (is_prefix (bs "PARSING_DIRS=") item); [destruct (dirs_item _ _ _); exact I|].
  destruct (is_prefix (bs "CONFIG_DIRS=") item); [destruct (dirs_item _ _ _); exact I|].
  destruct (is_prefix (bs "ROOT_PREFIX=") item); [destruct (lalloc _); exact I|reflexivity].
Qed.

Lemma opt_items_led_matches : forall items kf w l,
  fst (opt_items kf items) = fst (fst (opt_items_led w l items)).
Proof.
  induction items as [|it rest IH]; intros kf w l; cbn [opt_items opt_items_led]; [reflexivity|].
  pose proof (opt_item_led_matches kf w l it) as M.
  destruct (opt_item kf it) as [e|kf']; destruct (opt_item_led w l it) as [[w' l']|]; try contradiction.
  - subst e. reflexivity.
  - apply IH.
Qed.

Theorem new_with_options_led_code : forall opts,
  fst (fst (new_with_options_led opts)) = fst (new_with_options opts).
Proof.
  intros opts. unfold new_with_options_led, new_with_options.
  destruct (lalloc ledger0) as [obj l1]. destruct opts as [[|c s]|]; try reflexivity.
  destruct (lalloc l1) as [tmp l2].
  rewrite (opt_items_led_matches (split_on 59 (c :: s)) new_empty (mkOw obj [] [] []) l2).
  destruct (opt_items_led _ l2 _) as [[e w] l3]. reflexivity.
Qed.

(* non-vacuity: a repeated list item with a shorter list, a repeated prefix, an unknown item behind them *)
Example opt_ledger_demo :
  let '(e, w, l) := new_with_options_led (Some (bs "PARSING_DIRS=/a:/b:/c;ROOT_PREFIX=/x;PARSING_DIRS=/d;ROOT_PREFIX=/y;NOPE=1")) in
  e = ECONF_OPTION_NOT_FOUND /\ length (ow_pd w) = 2%nat /\ length (ow_rp w) = 1%nat /\
  length (allocs l) = 12%nat /\ length (frees l) = 8%nat /\
  balanced (mkLO e [] (free_led w l)) = true.
Proof. vm_compute. repeat split. Qed.
