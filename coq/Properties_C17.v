(* Properties_C17.v — C17: provenance metadata (path, line, comments, value
   lines) matches the source file.  Proofs: ProvenanceFacts.v; the entries of
   a parsed conventional file are given by Properties_C02.C02_parse. *)
From Coq Require Import String Lia List.
From Econf Require Import Bytes BytesFacts MapSpec KeyfileFacts Grammar LineBase ProvenanceFacts LayeredSpec LayeredFactsB.
Local Open Scope N_scope.

(* a comment block of any length directly before a key line, the key line and
   its continuation lines, after any prefix that leaves no comment pending:
   the entry carries the number of its last physical line, exactly the text of
   that block, the trailing comment of its line, and the value lines *)
Theorem C17_block : forall dl s cs k conts,
  p_cbk s = None ->
  let s' := fold_left (exp_step dl) (map cmt cs ++ LKey k :: map cnt conts) s in
  exists e rest,
    p_rev s' = e :: rest /\ rest = p_rev s /\
    e_key e = kl_key k /\
    e_group e = (match p_cur s with Some g => g | None => none_s end) /\
    e_line e = p_line s + N.of_nat (length cs + 1 + length conts) /\
    e_cbk e = block_text cs /\
    e_value e = cont_value (val_of dl k) conts /\
    e_quotes e = is_quoted (kl_val k) /\
    (conts = [] -> e_cav e = option_map snd (kl_tc k)).
Proof. exact provenance_block. Qed.
Print Assumptions C17_block.

(* the extended getter hands out exactly what the first entry of that key carries *)
Theorem C17_ext : forall kf g k,
  k <> [] ->
  get_ext kf g (Some k) =
  match get_first (kf_entries kf) (norm_group g) k with
  | Some e => inr (mkExt (ext_values (e_value e)) (kf_path kf) (e_line e) (e_cbk e) (e_cav e))
  | None => inl ECONF_NOKEY
  end.
Proof. exact ext_of_entry. Qed.
Print Assumptions C17_ext.

(* the value split into blank-trimmed lines; a value starting with a quote is one item *)
Theorem C17_value_lines : forall v,
  ext_values (Some v) =
  match trim v with
  | 34 :: r => [34 :: r]
  | t => map trim (split_on nl t)
  end.
Proof. exact ext_values_lines. Qed.
Print Assumptions C17_value_lines.

(* the path query: the file's own path, absolute also for a relative name; empty for a merged result *)
Theorem C17_path_single : forall base path dl cm r, get_path (keyfile_of_read base path dl cm r) = path.
Proof. exact path_of_read. Qed.
Print Assumptions C17_path_single.
Theorem C17_path_relative : forall p c r, p = c :: r -> c <> 47 -> abs_path p = 47 :: p.
Proof. exact path_relative. Qed.
Print Assumptions C17_path_relative.
Theorem C17_path_merged : forall a b, get_path (merge_model a b) = [].
Proof. exact path_of_merge. Qed.
Print Assumptions C17_path_merged.
(* through the real entry point, on any tree: the object of a single file carries the name read_file was
   handed (real_name = get_absolute_path), which always starts with '/': the name itself when it was
   absolute, its normalised form below the working directory when it was relative and no link *)
Theorem C17_readFile_path_absolute : forall t g cb p dl cm kf,
  r2_obj (read_file_api t g cb p dl cm) = Some kf ->
  get_path kf = real_name t p /\ exists r, get_path kf = 47 :: r.
Proof. exact read_file_api_path. Qed.
Print Assumptions C17_readFile_path_absolute.
Theorem C17_real_name_of_absolute : forall t p, real_name t (47 :: p) = 47 :: p.
Proof. exact real_name_of_absolute. Qed.
Print Assumptions C17_real_name_of_absolute.
Theorem C17_real_name_of_relative : forall t c p,
  c <> 47 -> str_eqb (squeeze (c :: p)) dev_null = false ->
  match tlookup t (squeeze (c :: p)) with Some (NLink _ _ _) => False | _ => True end ->
  real_name t (c :: p) = squeeze (c :: p).
Proof. exact real_name_of_relative_file. Qed.
Print Assumptions C17_real_name_of_relative.
Example C17_relative_demo :
  real_name [(bs "/rel/dir/f.conf", NFile (bs "k=1") 0 0)] (bs "./rel//dir/../dir/f.conf") = bs "/rel/dir/f.conf".
Proof. vm_compute. reflexivity. Qed.

Example C17_demo :
  let ls := [LKey (mkKL [] (bs "a") [] (Some 61) [] (VPlain (bs "0")) [] None); LBlank [];
             LComment [] 35 (bs " first"); LComment [32] 35 (bs "second");
             LKey (mkKL [] (bs "k") [] (Some 61) [32] (VPlain (bs "v1")) [32] (Some (35, bs " why")));
             LCont [32; 32] (bs "v2") [] None] in
  match p_rev (expected (bs "=") ls) with
  | e :: _ => (e_line e, e_cbk e, e_cav e, ext_values (e_value e))
  | [] => (0, None, None, [])
  end = (6, Some (bs " first" ++ [10] ++ bs "second"), Some (bs " why" ++ [10]), [bs "v1"; bs "v2"]).
Proof. vm_compute. reflexivity. Qed.
