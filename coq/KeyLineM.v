(* KeyLineM.v — key lines for a mixed delimiter set (blank and non-blank
   delimiter characters): the parser gives the line its expected meaning. *)
From Coq Require Import String Lia List.
From Econf Require Import Bytes BytesFacts Grammar CommentLoop LineBase.
Local Open Scope N_scope.

(* ---------- small list facts ---------- *)
Lemma km_drop_while_pref (p : N -> bool) (a r : str) :
  forallb p a = true -> drop_while p (a ++ r) = drop_while p r.
Proof.
  induction a as [|x a IH]; intros H; [reflexivity|].
  cbn [forallb] in H. apply andb_true_iff in H as [H1 H2].
  cbn [app drop_while]. rewrite H1. auto.
Qed.

Lemma km_drop_while_id (p : N -> bool) (l : str) :
  forallb (fun c => negb (p c)) l = true -> drop_while p l = l.
Proof.
  destruct l as [|x l]; [reflexivity|]. intros H. cbn [forallb] in H.
  apply andb_true_iff in H as [H1 _]. apply negb_true_iff in H1.
  cbn [drop_while]. now rewrite H1.
Qed.

Lemma km_rtrim_nospace (r : str) :
  forallb (fun c => negb (isspace c)) r = true -> rtrim r = r.
Proof.
  intros H. unfold rtrim. rewrite km_drop_while_id by now rewrite forallb_rev'.
  apply rev_involutive.
Qed.

Lemma km_rtrim_spaces (r : str) : forallb isspace r = true -> rtrim r = [].
Proof.
  intros H. unfold rtrim. rewrite drop_while_all by now rewrite forallb_rev'. reflexivity.
Qed.

Lemma km_skipn_app (a r : str) : skipn (length a) (a ++ r) = r.
Proof. induction a as [|x a IH]; [reflexivity|]. exact IH. Qed.

Lemma km_free34 x : (x =? 34) = false -> negb (mem x [34]) = true.
Proof. intros H. cbn [mem]. rewrite orb_false_r, N.eqb_sym, H. reflexivity. Qed.

(* ---------- delimiter class and delimiter characters ---------- *)
Lemma km_class_M dl : class_of dl = ClassM -> has_wsp dl = true /\ has_nonwsp dl = true.
Proof.
  unfold class_of. destruct dl as [|c r]; [discriminate|].
  destruct (has_wsp (c :: r)), (has_nonwsp (c :: r)); intros H; try discriminate. split; reflexivity.
Qed.

Lemma km_dl_mem dl cm d : dl_ok dl cm = true -> mem d dl = true ->
  d <> 34 /\ (d =? 0) = false /\ mem d cm = false /\ (isblank d = false -> tchar d = true).
Proof.
  unfold dl_ok. intros H Hm. apply mem_In in Hm. rewrite forallb_forall in H. specialize (H d Hm).
  apply andb_true_iff in H as [H1 H2]. apply negb_true_iff in H2.
  apply orb_true_iff in H1 as [H1|H1].
  - repeat split; try assumption.
    + destruct (isblank_cases d H1); subst; discriminate.
    + destruct (isblank_cases d H1); subst; reflexivity.
    + intros E. congruence.
  - apply andb_true_iff in H1 as [H1 _]. apply andb_true_iff in H1 as [H1 _].
    apply andb_true_iff in H1 as [H1 H34].
    repeat split; try assumption.
    + intros ->. discriminate.
    + now apply tchar_nonzero.
    + intros _. exact H1.
Qed.

Lemma km_dl_no_quote dl cm : dl_ok dl cm = true -> mem 34 dl = false.
Proof.
  intros H. destruct (mem 34 dl) eqn:E; [|reflexivity].
  destruct (km_dl_mem dl cm 34 H E) as (H1 & _). congruence.
Qed.

Lemma km_tb_nonblank c : tb c = true -> isblank c = false -> tchar c = true.
Proof. unfold tb. intros H Hb. rewrite Hb, orb_false_r in H. exact H. Qed.

(* ---------- parse_entry after the comment loop ---------- *)
Lemma km_parse_entry_kv dl cm s org b0 name nm di cav c r :
  p_cav s = None ->
  comment_loop dl cm name None = (nm, di, cav) -> cstr nm = c :: r -> c <> 91 -> keys_only dl = false ->
  parse_entry std_opts dl cm s org b0 name = parse_kv std_opts dl cm (with_cav s cav) org b0 (c :: r).
Proof.
  intros Hcav E Hv Hc Hk. rewrite parse_entry_unfold, Hcav, E. cbv beta iota zeta. rewrite Hv, Hk.
  destruct c as [|p]; [reflexivity|].
  do 7 (destruct p as [p|p|]; try reflexivity). congruence.
Qed.

(* a line that is neither blank, comment nor section line reaches parse_kv *)
Lemma km_entry_line dl cm s ind c0 r tc :
  cm_ok cm = true -> keys_only dl = false -> p_cav s = None ->
  blanks ind = true -> tchar c0 = true -> mem c0 cm = false -> c0 <> 91 ->
  nonzero r = true -> quiet cm (c0 :: r) -> wf_tc cm tc = true ->
  exists org b0,
    parse_line std_opts dl cm s ((ind ++ (c0 :: r) ++ render_tc tc) ++ [10]) =
    parse_kv std_opts dl cm (with_cav (bump s) (option_map snd tc)) org b0 (c0 :: r).
Proof.
  intros Hcm Hko Hcav Hind Ht Hc0 H91 Hnz Hq Htc.
  assert (Htcok : tc_ok cm tc = true /\ nonzero (render_tc tc) = true /\
                  match tc with Some (c, _) => c <> 34 | None => True end).
  { destruct tc as [[c t]|]; [|repeat split; reflexivity]. cbn [wf_tc] in Htc.
    apply andb_true_iff in Htc as [Hc Ht'].
    destruct (cm_ok_chars cm c Hcm Hc) as (Hct & Hc34 & _).
    assert (F1 : free_of cm t = true).
    { unfold free_of. eapply forallb_impl; [|exact Ht']. intros x Hx.
      apply andb_true_iff in Hx as [Hx _]. now apply andb_true_iff in Hx as [_ Hx]. }
    assert (F2 : free_of [34] t = true).
    { unfold free_of. eapply forallb_impl; [|exact Ht']. intros x Hx.
      apply andb_true_iff in Hx as [_ Hx]. apply negb_true_iff in Hx. now apply km_free34. }
    assert (F3 : nonzero t = true).
    { unfold nonzero. eapply forallb_impl; [|exact Ht']. intros x Hx.
      apply andb_true_iff in Hx as [Hx _]. apply andb_true_iff in Hx as [Hx _]. now rewrite tb_nonzero. }
    cbn [tc_ok render_tc]. rewrite Hc, F1, F2, F3, nonzero_cons, (tchar_nonzero c Hct).
    repeat split; assumption. }
  destruct Htcok as (Htcok & Htcnz & Htc34).
  assert (Hpre_nz : nonzero (c0 :: r) = true).
  { rewrite nonzero_cons, (tchar_nonzero c0 Ht), Hnz. reflexivity. }
  rewrite parse_line_body.
  2:{ rewrite !nonzero_app, (nonzero_blanks ind Hind), Hpre_nz, Htcnz. reflexivity. }
  rewrite <- app_comm_cons.
  rewrite (drop_blanks_then ind (r ++ render_tc tc) c0 Hind (tchar_not_space c0 Ht)). rewrite Hc0.
  exists ((ind ++ c0 :: r ++ render_tc tc) ++ [10]), (hd 0 (ind ++ c0 :: r ++ render_tc tc)).
  transitivity (parse_entry std_opts dl cm (bump s) ((ind ++ c0 :: r ++ render_tc tc) ++ [10])
                  (hd 0 (ind ++ c0 :: r ++ render_tc tc)) (c0 :: r ++ render_tc tc)).
  { destruct ind; reflexivity. }
  pose proof (comment_loop_core dl cm (c0 :: r) tc Hq ltac:(discriminate) Hpre_nz
                (free_of_cm_zero cm Hcm) Htc34 Htcok) as L.
  destruct (comment_loop dl cm ((c0 :: r) ++ render_tc tc) None) as [[nm di] cav] eqn:E.
  destruct L as [Lv Lc]. subst cav.
  apply (km_parse_entry_kv dl cm (bump s) _ _ (c0 :: r ++ render_tc tc) nm di _ c0 r Hcav E Lv H91 Hko).
Qed.

(* ---------- parse_kv for a mixed delimiter set ---------- *)
Lemma km_parse_kv_M dl cm s org b0 key x rest :
  is_mixed dl = true -> key <> [] ->
  forallb (fun c => negb (key_stop dl c)) key = true -> key_stop dl x = true ->
  parse_kv std_opts dl cm s org b0 (key ++ x :: rest) =
  match value_of dl true (has_wsp dl) (negb (isspace x) && mem x dl) rest with
  | inl e => PStop e s
  | inr (v, q) => PCont (store_new s key v (p_line s) q)
  end.
Proof.
  intros Hmix Hne Hk Hx. unfold parse_kv. cbv zeta.
  assert (Hx' : negb (key_stop dl x) = false) by now rewrite Hx.
  rewrite (take_while_app_stop _ key x rest Hk Hx'), km_skipn_app, Hmix.
  destruct key as [|k0 key']; [congruence|]. reflexivity.
Qed.

(* ---------- value_of ---------- *)
Definition km_fin (d : str) : econf_err + (option str * bool) :=
  match d with
  | 34 :: q =>
      let v := key_trim q in
      match rev v with
      | 34 :: rv => inr (Some (rev rv), true)
      | _ => inr (Some (34 :: v), true)
      end
  | _ => inr (Some (key_trim d), false)
  end.

Definition km_d2 (dl : str) (seen : bool) (d1 : str) : econf_err + str :=
  if negb seen then
    match d1 with
    | c :: r => if mem c dl then inr (drop_while isspace r) else inr d1
    | [] => inr d1
    end
  else inr d1.

Lemma km_value_of_unfold dl seen d0 : d0 <> [] ->
  value_of dl true true seen d0 =
  match km_d2 dl seen (drop_while isspace d0) with inl e => inl e | inr d => km_fin d end.
Proof.
  destruct d0 as [|c d0]; [congruence|]. intros _.
  unfold value_of, km_d2, km_fin. destruct seen; reflexivity.
Qed.

Lemma km_value_of_seen dl bl w :
  forallb isspace bl = true -> bl ++ w <> [] ->
  value_of dl true true true (bl ++ w) = km_fin (drop_while isspace w).
Proof.
  intros Hb Hne. rewrite km_value_of_unfold by assumption.
  rewrite km_drop_while_pref by assumption. reflexivity.
Qed.

Lemma km_value_of_unseen_d dl bl d b2 w :
  forallb isspace bl = true -> mem d dl = true -> isspace d = false -> forallb isspace b2 = true ->
  value_of dl true true false (bl ++ d :: b2 ++ w) = km_fin (drop_while isspace w).
Proof.
  intros Hb Hd Hs Hb2. rewrite km_value_of_unfold by (destruct bl; discriminate).
  rewrite (drop_while_app_stop isspace bl d (b2 ++ w) Hb Hs).
  unfold km_d2. cbn [negb]. rewrite Hd. rewrite km_drop_while_pref by assumption. reflexivity.
Qed.

Lemma km_value_of_unseen_nod dl bl w :
  forallb isspace bl = true -> bl ++ w <> [] ->
  match drop_while isspace w with c :: _ => mem c dl = false | [] => True end ->
  value_of dl true true false (bl ++ w) = km_fin (drop_while isspace w).
Proof.
  intros Hb Hne Hh. rewrite km_value_of_unfold by assumption.
  rewrite km_drop_while_pref by assumption. unfold km_d2. cbn [negb].
  destruct (drop_while isspace w) as [|c r]; [reflexivity|]. rewrite Hh. reflexivity.
Qed.

Lemma km_close dl seen D r :
  (D <> [] -> value_of dl true true seen D = inr r) ->
  value_of dl true true seen D = inr (match D with [] => (None, false) | _ => r end).
Proof. destruct D; [reflexivity|]. intros H; apply H; discriminate. Qed.

Lemma km_fin_not34 c r : c <> 34 -> km_fin (c :: r) = inr (Some (key_trim (c :: r)), false).
Proof.
  intros H. unfold km_fin. destruct c as [|p]; [reflexivity|].
  do 6 (destruct p as [p|p|]; try reflexivity). congruence.
Qed.

Lemma km_fin_quoted q i : key_trim q = i ++ [34] -> km_fin (34 :: q) = inr (Some i, true).
Proof.
  intros H. unfold km_fin. cbv beta iota zeta. rewrite H, rev_app_distr. cbn [rev app].
  rewrite rev_involutive. reflexivity.
Qed.

Lemma km_key_trim_quoted i post :
  forallb isspace post = true -> key_trim ((i ++ [34]) ++ post) = i ++ [34].
Proof.
  intros Hp. destruct i as [|x i].
  - cbn [app key_trim]. now rewrite km_rtrim_spaces.
  - cbn [app key_trim]. rewrite <- app_assoc. cbn [app].
    now rewrite (rtrim_app_stop i 34 post eq_refl Hp).
Qed.

Definition km_vexp (v : value) : option str :=
  match v with VQuoted i => Some i | VPlain s => Some s end.

(* the value and what follows it, once the separator is out of the way *)
Lemma km_fin_value dl cm val post :
  class_of dl = ClassM -> dl_ok dl cm = true -> wf_value dl cm val = true -> blanks post = true ->
  km_fin (drop_while isspace (render_value val ++ post)) = inr (km_vexp val, is_quoted val) /\
  match drop_while isspace (render_value val ++ post) with c :: _ => mem c dl = false | [] => True end.
Proof.
  intros HM Hdl Hwf Hpost. pose proof (blanks_isspace post Hpost) as Hps.
  destruct val as [v|i]; cbn [render_value km_vexp is_quoted].
  - unfold wf_value in Hwf. rewrite HM in Hwf.
    apply andb_true_iff in Hwf as [Hwf Hnd]. apply andb_true_iff in Hwf as [Hall Hends].
    destruct v as [|c v].
    + cbn [app]. rewrite drop_while_all by assumption. split; [reflexivity|exact I].
    + cbn [forallb] in Hall. apply andb_true_iff in Hall as [Hc Hall].
      apply andb_true_iff in Hc as [Hc Hc34]. apply andb_true_iff in Hc as [Hctb _].
      apply negb_true_iff in Hc34. apply negb_true_iff in Hnd.
      unfold ends_nonblank in Hends. apply andb_true_iff in Hends as [Hcb Hlb].
      apply negb_true_iff in Hcb. apply negb_true_iff in Hlb.
      pose proof (km_tb_nonblank c Hctb Hcb) as Hct.
      cbn [app]. rewrite (drop_while_stop isspace c (v ++ post) (tchar_not_space c Hct)).
      split; [|exact Hnd].
      rewrite km_fin_not34 by (intros ->; discriminate).
      cbn [key_trim]. cut (rtrim (v ++ post) = v); [intros ->; reflexivity|].
      destruct v as [|y v'] using rev_ind.
      * cbn [app]. now apply km_rtrim_spaces.
      * clear IHv'. rewrite app_comm_cons, last_last in Hlb.
        rewrite forallb_app in Hall. apply andb_true_iff in Hall as [_ Hy].
        cbn [forallb] in Hy. rewrite andb_true_r in Hy.
        apply andb_true_iff in Hy as [Hy _]. apply andb_true_iff in Hy as [Hytb _].
        pose proof (km_tb_nonblank y Hytb Hlb) as Hyt.
        rewrite <- app_assoc. cbn [app].
        apply (rtrim_app_stop v' y post (tchar_not_space y Hyt) Hps).
  - cbn [app]. rewrite (drop_while_stop isspace 34 ((i ++ [34]) ++ post) eq_refl).
    split; [|exact (km_dl_no_quote dl cm Hdl)].
    apply km_fin_quoted. now apply km_key_trim_quoted.
Qed.

(* val_of through after_sep *)
Lemma km_result dl k : class_of dl = ClassM ->
  match after_sep k with [] => (None, false) | _ => (km_vexp (kl_val k), is_quoted (kl_val k)) end =
  (val_of dl k, is_quoted (kl_val k)).
Proof.
  intros HM. unfold val_of. rewrite HM. unfold after_sep.
  destruct (kl_val k) as [[|c v]|i]; cbn [render_value km_vexp is_quoted].
  - match goal with |- context [?a ++ [] ++ ?b] => destruct (a ++ [] ++ b); reflexivity end.
  - match goal with |- context [?a ++ (c :: v) ++ ?b] => destruct (a ++ (c :: v) ++ b) eqn:E end; [|reflexivity].
    apply app_eq_nil in E as [_ E]. discriminate.
  - match goal with |- context [?a ++ (34 :: ?x) ++ ?b] => destruct (a ++ (34 :: x) ++ b) eqn:E end; [|reflexivity].
    apply app_eq_nil in E as [_ E]. discriminate.
Qed.

Definition km_dstr (d : option N) : str := match d with Some d => [d] | None => [] end.

Definition km_sep_ok (dl : str) (b1 : str) (d : option N) (b2 : str) : bool :=
  match d with
  | Some d => mem d dl && negb (isblank d)
  | None => match b2, b1 with [], _ :: _ => true | _, _ => false end
  end.

Lemma km_value_of_M dl cm ind key b1 d b2 val post tc :
  class_of dl = ClassM -> dl_ok dl cm = true ->
  blanks b1 = true -> blanks b2 = true -> km_sep_ok dl b1 d b2 = true ->
  wf_value dl cm val = true -> blanks post = true ->
  value_of dl true true (match b1 with [] => true | _ => false end)
           (after_sep (mkKL ind key b1 d b2 val post tc)) =
  inr (val_of dl (mkKL ind key b1 d b2 val post tc), is_quoted val).
Proof.
  intros HM Hdl Hb1 Hb2 Hsep Hval Hpost.
  destruct (km_fin_value dl cm val post HM Hdl Hval Hpost) as [Hf Hh].
  pose proof (km_result dl (mkKL ind key b1 d b2 val post tc) HM) as R.
  cbn [kl_val] in R. rewrite <- R. clear R. apply km_close. unfold after_sep. cbn [kl_b1 kl_d kl_b2 kl_val kl_post].
  pose proof (blanks_isspace b2 Hb2) as Hs2.
  destruct b1 as [|x b1'].
  - cbv iota. intros Hne. rewrite <- Hf.
    now apply km_value_of_seen.
  - unfold blanks in Hb1. cbn [forallb] in Hb1. apply andb_true_iff in Hb1 as [_ Hb1].
    pose proof (blanks_isspace b1' Hb1) as Hs1.
    cbv iota. intros Hne. rewrite <- Hf. destruct d as [d0|]; unfold km_sep_ok in Hsep.
    + apply andb_true_iff in Hsep as [Hd Hdb]. apply negb_true_iff in Hdb.
      destruct (km_dl_mem dl cm d0 Hdl Hd) as (_ & _ & _ & Hdt).
      rewrite <- !app_assoc. cbn [app].
      apply km_value_of_unseen_d; try assumption. apply tchar_not_space. auto.
    + destruct b2; [|discriminate]. cbn [app] in Hne |- *.
      rewrite app_nil_r in Hne |- *.
      now apply km_value_of_unseen_nod.
Qed.

(* the text after the key starts with a key-stopping byte *)
Lemma km_rest_shape dl cm ind key b1 d b2 val post tc :
  dl_ok dl cm = true -> blanks b1 = true -> km_sep_ok dl b1 d b2 = true ->
  exists x,
    (b1 ++ km_dstr d ++ b2) ++ render_value val ++ post = x :: after_sep (mkKL ind key b1 d b2 val post tc) /\
    key_stop dl x = true /\
    negb (isspace x) && mem x dl = match b1 with [] => true | _ => false end.
Proof.
  intros Hdl Hb1 Hsep. unfold after_sep. cbn [kl_b1 kl_d kl_b2 kl_val kl_post].
  destruct b1 as [|x b1'].
  - destruct d as [d0|]; unfold km_sep_ok in Hsep.
    + apply andb_true_iff in Hsep as [Hd Hdb]. apply negb_true_iff in Hdb.
      destruct (km_dl_mem dl cm d0 Hdl Hd) as (_ & _ & _ & Hdt).
      exists d0. split; [reflexivity|]. unfold key_stop. rewrite Hd, orb_true_r.
      rewrite (tchar_not_space d0 (Hdt Hdb)). split; reflexivity.
    + destruct b2; discriminate.
  - unfold blanks in Hb1. cbn [forallb] in Hb1. apply andb_true_iff in Hb1 as [Hx _].
    pose proof (isblank_isspace x Hx) as Hxs.
    exists x. split; [destruct d; reflexivity|]. unfold key_stop. rewrite Hxs. split; reflexivity.
Qed.

(* ---------- the characters of the line ---------- *)
Lemma km_key_facts dl cm key :
  forallb (fun c => tchar c && negb (mem c dl) && negb (mem c cm) && negb (c =? 34)) key = true ->
  forallb (fun c => negb (key_stop dl c)) key = true /\
  forallb (fun c => negb (isspace c)) key = true /\
  nonzero key = true /\ free_of cm key = true /\ free_of [34] key = true.
Proof.
  intros H. unfold nonzero, free_of.
  repeat split; (eapply forallb_impl; [|exact H]); intros x Hx;
    apply andb_true_iff in Hx as [Hx H34]; apply andb_true_iff in Hx as [Hx Hcm];
    apply andb_true_iff in Hx as [Ht Hdl].
  - unfold key_stop. rewrite (tchar_not_space x Ht). apply negb_true_iff in Hdl. now rewrite Hdl.
  - now rewrite (tchar_not_space x Ht).
  - now rewrite (tchar_nonzero x Ht).
  - exact Hcm.
  - apply km_free34. now apply negb_true_iff.
Qed.

Lemma km_blanks_facts cm s : cm_ok cm = true -> blanks s = true ->
  nonzero s = true /\ free_of cm s = true /\ free_of [34] s = true.
Proof.
  intros Hcm H. repeat split.
  - now apply nonzero_blanks.
  - now apply free_of_cm_blanks.
  - now apply free_quote_blanks.
Qed.

Lemma km_sep_facts dl cm b1 d b2 :
  cm_ok cm = true -> dl_ok dl cm = true ->
  blanks b1 = true -> blanks b2 = true -> km_sep_ok dl b1 d b2 = true ->
  nonzero (b1 ++ km_dstr d ++ b2) = true /\ free_of cm (b1 ++ km_dstr d ++ b2) = true /\
  free_of [34] (b1 ++ km_dstr d ++ b2) = true.
Proof.
  intros Hcm Hdl Hb1 Hb2 Hsep.
  destruct (km_blanks_facts cm b1 Hcm Hb1) as (A1 & A2 & A3).
  destruct (km_blanks_facts cm b2 Hcm Hb2) as (B1 & B2 & B3).
  rewrite !nonzero_app, !free_of_app, A1, A2, A3, B1, B2, B3.
  destruct d as [d0|]; cbn [km_dstr]; [|repeat split; reflexivity].
  unfold km_sep_ok in Hsep. apply andb_true_iff in Hsep as [Hd _].
  destruct (km_dl_mem dl cm d0 Hdl Hd) as (H34 & H0 & Hc & _).
  rewrite nonzero_cons, !free_of_cons, H0, Hc.
  rewrite km_free34 by (apply N.eqb_neq; exact H34).
  repeat split; reflexivity.
Qed.

Lemma km_quiet_pre dl cm a val post :
  cm_ok cm = true -> a <> [] -> free_of cm a = true -> free_of [34] a = true ->
  wf_value dl cm val = true -> blanks post = true ->
  quiet cm (a ++ render_value val ++ post) /\ nonzero (render_value val ++ post) = true.
Proof.
  intros Hcm Ha Hfa Hqa Hval Hpost.
  destruct (km_blanks_facts cm post Hcm Hpost) as (P1 & P2 & P3).
  destruct val as [v|i]; cbn [render_value]; unfold wf_value in Hval.
  - apply andb_true_iff in Hval as [Hval _]. apply andb_true_iff in Hval as [Hall _].
    assert (V : nonzero v = true /\ free_of cm v = true).
    { unfold nonzero, free_of. split; (eapply forallb_impl; [|exact Hall]); intros x Hx;
        apply andb_true_iff in Hx as [Hx _]; apply andb_true_iff in Hx as [Ht Hc].
      - now rewrite (tb_nonzero x Ht).
      - exact Hc. }
    destruct V as [V1 V2]. split.
    + apply quiet_plain. now rewrite !free_of_app, Hfa, V2, P2.
    + now rewrite nonzero_app, V1, P1.
  - assert (V : nonzero i = true /\ free_of [34] i = true).
    { unfold nonzero, free_of. split; (eapply forallb_impl; [|exact Hval]); intros x Hx;
        apply andb_true_iff in Hx as [Ht H34].
      - now rewrite (tb_nonzero x Ht).
      - apply km_free34. now apply negb_true_iff. }
    destruct V as [V1 V2]. split.
    + replace (a ++ (34 :: i ++ [34]) ++ post) with (a ++ 34 :: i ++ 34 :: post)
        by (cbn [app]; rewrite <- app_assoc; reflexivity).
      apply quiet_quoted; auto. now apply free_of_cm_quote.
    + cbn [app]. rewrite nonzero_cons, !nonzero_app, V1, P1. reflexivity.
Qed.

(* ---------- the key line ---------- *)
Lemma key_line_ok_M dl cm prev s k :
  cm_ok cm = true -> dl_ok dl cm = true -> class_of dl = ClassM ->
  wf_line dl cm prev (LKey k) = true -> Inv prev s ->
  parse_line std_opts dl cm s (render_line (LKey k)) = PCont (exp_step dl s (LKey k)) /\
  Inv true (exp_step dl s (LKey k)).
Proof.
  intros Hcm Hdl HM Hwf HI.
  destruct (km_class_M dl HM) as [Hw Hnw].
  assert (Hmix : is_mixed dl = true) by (unfold is_mixed; now rewrite Hw, Hnw).
  assert (Hko : keys_only dl = false) by (rewrite (keys_only_class dl cm Hdl), HM; reflexivity).
  destruct HI as [Hcav _].
  split; [|split; [reflexivity|cbn [exp_step]; do 2 eexists; split; reflexivity]].
  destruct k as [ind key b1 d b2 val post tc].
  cbn [wf_line] in Hwf. unfold wf_kline, wf_sep in Hwf.
  cbn [kl_indent kl_key kl_b1 kl_d kl_b2 kl_val kl_post kl_tc] in Hwf. rewrite HM in Hwf.
  apply andb_true_iff in Hwf as [Hwf Hvt]. apply andb_true_iff in Hvt as [Hval Htc].
  apply andb_true_iff in Hwf as [Hwf Hpost]. apply andb_true_iff in Hwf as [Hwf Hsep].
  apply andb_true_iff in Hwf as [Hind Hkey].
  apply andb_true_iff in Hsep as [Hsep Hsep3]. apply andb_true_iff in Hsep as [Hb1 Hb2].
  change (km_sep_ok dl b1 d b2 = true) in Hsep3.
  unfold wf_key in Hkey. destruct key as [|c0 key']; [discriminate|].
  apply andb_true_iff in Hkey as [H91 Hkall]. apply negb_true_iff in H91. apply N.eqb_neq in H91.
  destruct (km_key_facts dl cm (c0 :: key') Hkall) as (K1 & K2 & K3 & K4 & K5).
  assert (Hc0 : tchar c0 = true /\ mem c0 cm = false).
  { cbn [forallb] in Hkall. apply andb_true_iff in Hkall as [Hx _].
    apply andb_true_iff in Hx as [Hx _]. apply andb_true_iff in Hx as [Hx Hc].
    apply andb_true_iff in Hx as [Hx _]. apply negb_true_iff in Hc. now split. }
  destruct Hc0 as [Hc0t Hc0c].
  destruct (km_sep_facts dl cm b1 d b2 Hcm Hdl Hb1 Hb2 Hsep3) as (S1 & S2 & S3).
  set (sp := b1 ++ km_dstr d ++ b2) in *.
  destruct (km_quiet_pre dl cm ((c0 :: key') ++ sp) val post Hcm ltac:(discriminate)) as [Hq Hvnz];
    try assumption.
  { now rewrite free_of_app, K4, S2. }
  { now rewrite free_of_app, K5, S3. }
  set (rv := render_value val) in *.
  replace (((c0 :: key') ++ sp) ++ rv ++ post) with (c0 :: key' ++ sp ++ rv ++ post) in Hq
    by (rewrite <- app_assoc; reflexivity).
  unfold render_line. cbn [render_body kl_indent kl_key kl_b1 kl_d kl_b2 kl_val kl_post kl_tc].
  fold (km_dstr d). fold rv.
  replace (ind ++ (c0 :: key') ++ b1 ++ km_dstr d ++ b2 ++ rv ++ post ++ render_tc tc)
    with (ind ++ (c0 :: key' ++ sp ++ rv ++ post) ++ render_tc tc)
    by (unfold sp; cbn [app]; rewrite <- !app_assoc; reflexivity).
  destruct (km_entry_line dl cm s ind c0 (key' ++ sp ++ rv ++ post) tc) as (org & b0 & E); try assumption.
  { rewrite nonzero_cons in K3. apply andb_true_iff in K3 as [_ K3].
    now rewrite nonzero_app, nonzero_app, K3, S1, Hvnz. }
  unfold nl. rewrite E. clear E.
  destruct (km_rest_shape dl cm ind (c0 :: key') b1 d b2 val post tc Hdl Hb1 Hsep3) as (x & Hx & Hxs & Hxd).
  fold sp in Hx. fold rv in Hx.
  change (c0 :: key' ++ sp ++ rv ++ post) with ((c0 :: key') ++ sp ++ rv ++ post).
  rewrite Hx.
  rewrite (km_parse_kv_M dl cm _ org b0 (c0 :: key') x _ Hmix ltac:(discriminate) K1 Hxs).
  rewrite Hw, Hxd.
  rewrite (km_value_of_M dl cm ind (c0 :: key') b1 d b2 val post tc HM Hdl Hb1 Hb2 Hsep3 Hval Hpost).
  f_equal. unfold store_new, with_cav, bump. cbn [p_rev p_groups p_cur p_cbk p_cav p_line exp_step].
  cbn [key_trim kl_key kl_tc kl_val].
  cbn [forallb] in K2. apply andb_true_iff in K2 as [_ K2].
  rewrite (km_rtrim_nospace key' K2). reflexivity.
Qed.
