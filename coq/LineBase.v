(* LineBase.v — what the per-line lemmas of the parser share: the invariant
   carried through a conventional file, the shape of [parse_line] on a
   rendered line, and the lemmas for blank, comment and section lines. *)
From Coq Require Import String Lia List.
From Econf Require Import Bytes BytesFacts Grammar CommentLoop.
Local Open Scope N_scope.

Definition std_opts : popts := mkPopts false false.

(* [prev]: the line just read was a key or continuation line *)
Definition Inv (prev : bool) (s : pstate) : Prop :=
  p_cav s = None /\
  (if prev then exists e rest, p_rev s = e :: rest /\ e_line e = p_line s
   else forall e rest, p_rev s = e :: rest -> e_line e < p_line s).

Lemma Inv_init : Inv false init_pstate.
Proof. split; [reflexivity|]. intros e rest H. discriminate. Qed.

Lemma last_line_is_inv prev s : Inv prev s -> last_line_is (bump s) (p_line s + 1) = prev.
Proof.
  intros [_ H]. unfold last_line_is, bump. simpl. destruct prev.
  - destruct H as (e & rest & -> & ->). apply N.eqb_refl.
  - destruct (p_rev s) as [|e rest]; [reflexivity|]. specialize (H e rest eq_refl).
    apply N.eqb_neq. lia.
Qed.

(* ---------- character classes ---------- *)
Lemma isblank_isspace c : isblank c = true -> isspace c = true.
Proof.
  unfold isblank, isspace. intros H. apply orb_true_iff in H as [H|H]; apply N.eqb_eq in H; subst; reflexivity.
Qed.

Lemma tchar_not_space c : tchar c = true -> isspace c = false.
Proof.
  unfold tchar, isspace. intros H. apply andb_true_iff in H as [H _]. apply andb_true_iff in H as [H _].
  apply N.leb_le in H.
  destruct (9 <=? c) eqn:E1; destruct (c <=? 13) eqn:E2; destruct (c =? 32) eqn:E3; simpl; try reflexivity;
    try (apply N.leb_le in E2; lia); try (apply N.eqb_eq in E3; lia).
Qed.

Lemma tchar_nonzero c : tchar c = true -> (c =? 0) = false.
Proof.
  unfold tchar. intros H. apply andb_true_iff in H as [H _]. apply andb_true_iff in H as [H _].
  apply N.leb_le in H. apply N.eqb_neq. lia.
Qed.

Lemma tchar_not_nl c : tchar c = true -> (c =? 10) = false.
Proof.
  unfold tchar. intros H. apply andb_true_iff in H as [H _]. apply andb_true_iff in H as [H _].
  apply N.leb_le in H. apply N.eqb_neq. lia.
Qed.

Lemma isblank_cases c : isblank c = true -> c = 32 \/ c = 9.
Proof. unfold isblank. intros H. apply orb_true_iff in H as [H|H]; apply N.eqb_eq in H; auto. Qed.

Lemma tb_nonzero c : tb c = true -> (c =? 0) = false.
Proof.
  unfold tb. intros H. apply orb_true_iff in H as [H|H]; [now apply tchar_nonzero|].
  destruct (isblank_cases c H); subst; reflexivity.
Qed.

Lemma tb_not_nl c : tb c = true -> (c =? 10) = false.
Proof.
  unfold tb. intros H. apply orb_true_iff in H as [H|H]; [now apply tchar_not_nl|].
  destruct (isblank_cases c H); subst; reflexivity.
Qed.

Lemma blanks_isspace s : blanks s = true -> forallb isspace s = true.
Proof.
  unfold blanks. induction s as [|c s IH]; simpl; [reflexivity|]. intros H.
  apply andb_true_iff in H as [H1 H2]. rewrite (isblank_isspace c H1). auto.
Qed.

Lemma forallb_app {A} (p : A -> bool) (a b : list A) : forallb p (a ++ b) = forallb p a && forallb p b.
Proof. induction a as [|x a IH]; simpl; [reflexivity|]. now rewrite IH, andb_assoc. Qed.

Lemma forallb_impl {A} (p q : A -> bool) (l : list A) :
  (forall x, p x = true -> q x = true) -> forallb p l = true -> forallb q l = true.
Proof.
  intros H. induction l as [|x l IH]; simpl; [reflexivity|]. intros E.
  apply andb_true_iff in E as [E1 E2]. rewrite (H x E1). auto.
Qed.

(* ---------- a rendered line as the parser sees it ---------- *)
Lemma removelast_nl_app (b : str) : removelast_nl (b ++ [10]) = b.
Proof. unfold removelast_nl. rewrite rev_app_distr. simpl. apply rev_involutive. Qed.

Lemma nonzero_app a b : nonzero (a ++ b) = nonzero a && nonzero b.
Proof. apply forallb_app. Qed.

Lemma cstr_line b : nonzero b = true -> cstr (b ++ [10]) = b ++ [10].
Proof.
  intros H. apply cstr_nozero. rewrite forallb_app. unfold nonzero in H. rewrite H. reflexivity.
Qed.

Lemma drop_blanks_then ind rest c :
  blanks ind = true -> isspace c = false -> drop_while isspace (ind ++ c :: rest) = c :: rest.
Proof. intros H Hc. apply drop_while_app_stop; [now apply blanks_isspace|exact Hc]. Qed.

Lemma forallb_rev' {A} (p : A -> bool) (l : list A) : forallb p (rev l) = forallb p l.
Proof.
  induction l as [|x l IH]; simpl; [reflexivity|]. rewrite forallb_app, IH. simpl.
  rewrite andb_true_r. apply andb_comm.
Qed.

Lemma rtrim_app_stop a c bl :
  isspace c = false -> forallb isspace bl = true -> rtrim (a ++ c :: bl) = a ++ [c].
Proof.
  intros Hc Hb. unfold rtrim. rewrite rev_app_distr. simpl. rewrite <- app_assoc. simpl.
  rewrite drop_while_app_stop; [|now rewrite forallb_rev'|exact Hc].
  simpl. now rewrite rev_involutive.
Qed.

(* ---------- delimiter classes ---------- *)
Lemma dl_ok_no_nl dl cm : dl_ok dl cm = true -> mem 10 dl = false.
Proof.
  unfold dl_ok. induction dl as [|c dl IH]; simpl; [reflexivity|]. intros H.
  apply andb_true_iff in H as [H1 H2]. rewrite (IH H2), orb_false_r.
  apply andb_true_iff in H1 as [H1 _]. apply N.eqb_neq. intros ->. 
  vm_compute in H1. discriminate.
Qed.

Lemma keys_only_spec dl :
  keys_only dl = match dl with [] => true | [c] => c =? 10 | _ => false end.
Proof.
  destruct dl as [|c [|c2 r]]; [reflexivity| |];
  (destruct c as [|p]; [reflexivity|]);
  do 4 (destruct p as [p|p|]; try reflexivity).
Qed.

Lemma keys_only_class dl cm :
  dl_ok dl cm = true -> keys_only dl = match class_of dl with Class0 => true | _ => false end.
Proof.
  intros H. pose proof (dl_ok_no_nl dl cm H) as Hn. rewrite keys_only_spec. unfold class_of.
  destruct dl as [|c [|c2 r]].
  - reflexivity.
  - simpl in Hn. rewrite orb_false_r in Hn. rewrite Hn.
    now destruct (has_wsp [c]), (has_nonwsp [c]).
  - now destruct (has_wsp (c :: c2 :: r)), (has_nonwsp (c :: c2 :: r)).
Qed.

Lemma mixed_class dl : is_mixed dl = match class_of dl with ClassM => true | _ => false end.
Proof.
  unfold is_mixed, class_of. destruct dl as [|c r]; [reflexivity|].
  now destruct (has_wsp (c :: r)), (has_nonwsp (c :: r)).
Qed.

(* ---------- the shape of parse_line on a rendered line ---------- *)
Lemma parse_line_body o dl cm s body :
  nonzero body = true ->
  parse_line o dl cm s (body ++ [10]) =
  match body with
  | [] => PCont (bump s)
  | b0 :: _ =>
      match drop_while isspace body with
      | c :: ctext =>
          if mem c cm then
            PCont (mkPS (p_rev s) (p_groups s) (p_cur s) (append_opt (p_cbk s) ctext) (p_cav s) (p_line s + 1))
          else parse_entry o dl cm (bump s) (body ++ [10]) b0 (c :: ctext)
      | [] => parse_blanks o dl cm (bump s) (body ++ [10])
      end
  end.
Proof.
  intros H. unfold parse_line. rewrite cstr_line by exact H. rewrite removelast_nl_app.
  destruct body as [|b0 r]; reflexivity.
Qed.

Lemma Inv_nonentry prev s s' :
  Inv prev s -> p_rev s' = p_rev s -> p_cav s' = p_cav s -> p_line s' = p_line s + 1 -> Inv false s'.
Proof.
  intros [Hc Hl] Hr Hcv Hln. split; [congruence|]. rewrite Hr, Hln. intros e rest He. destruct prev.
  - destruct Hl as (e0 & r0 & E & El). rewrite E in He. inversion He; subst. lia.
  - specialize (Hl e rest He). lia.
Qed.

(* ---------- blank, comment and section lines ---------- *)
Lemma blank_line_ok dl cm prev s ws :
  dl_ok dl cm = true ->
  wf_line dl cm prev (LBlank ws) = true -> Inv prev s ->
  parse_line std_opts dl cm s (render_line (LBlank ws)) = PCont (exp_step dl s (LBlank ws)) /\
  Inv false (exp_step dl s (LBlank ws)).
Proof.
  intros Hdl Hwf HI.
  split; [|eapply Inv_nonentry; [exact HI|reflexivity|reflexivity|reflexivity]].
  unfold render_line. cbn [render_body].
  destruct ws as [|w ws]; [reflexivity|].
  cbn [wf_line] in Hwf. apply andb_true_iff in Hwf as [Hb Hcls].
  assert (Hnz : nonzero (w :: ws) = true).
  { unfold nonzero. eapply forallb_impl; [|exact Hb]. intros x Hx.
    destruct (isblank_cases x Hx); subst; reflexivity. }
  rewrite parse_line_body by exact Hnz.
  rewrite (drop_while_all isspace (w :: ws)) by now apply blanks_isspace.
  unfold parse_blanks. rewrite (keys_only_class dl cm Hdl), mixed_class.
  destruct (class_of dl); try discriminate; try reflexivity.
  all: change (p_line (bump s)) with (p_line s + 1);
       rewrite (last_line_is_inv prev s HI); destruct prev; [discriminate|reflexivity].
Qed.

Lemma cm_ok_tchar cm c : cm_ok cm = true -> mem c cm = true -> tchar c = true.
Proof.
  unfold cm_ok. intros H Hm. apply andb_true_iff in H as [_ H].
  apply mem_In in Hm. rewrite forallb_forall in H. specialize (H c Hm).
  apply andb_true_iff in H as [H _]. apply andb_true_iff in H as [H _]. now apply andb_true_iff in H as [H _].
Qed.

Lemma nonzero_blanks s : blanks s = true -> nonzero s = true.
Proof.
  unfold nonzero. apply forallb_impl. intros x Hx. destruct (isblank_cases x Hx); subst; reflexivity.
Qed.

Lemma nonzero_tb s : forallb tb s = true -> nonzero s = true.
Proof. unfold nonzero. apply forallb_impl. intros x Hx. now rewrite tb_nonzero. Qed.

Lemma comment_line_ok dl cm prev s ind c text :
  cm_ok cm = true ->
  wf_line dl cm prev (LComment ind c text) = true -> Inv prev s ->
  parse_line std_opts dl cm s (render_line (LComment ind c text)) = PCont (exp_step dl s (LComment ind c text)) /\
  Inv false (exp_step dl s (LComment ind c text)).
Proof.
  intros Hcm Hwf HI.
  split; [|eapply Inv_nonentry; [exact HI|reflexivity|reflexivity|reflexivity]].
  cbn [wf_line] in Hwf. apply andb_true_iff in Hwf as [Hwf Ht]. apply andb_true_iff in Hwf as [Hi Hc].
  pose proof (cm_ok_tchar cm c Hcm Hc) as Htc.
  unfold render_line. cbn [render_body].
  rewrite parse_line_body.
  2:{ rewrite nonzero_app. rewrite (nonzero_blanks ind Hi). cbn [nonzero forallb andb].
      rewrite (tchar_nonzero c Htc). cbn [negb andb]. now apply nonzero_tb. }
  rewrite (drop_blanks_then ind text c Hi (tchar_not_space c Htc)). rewrite Hc.
  destruct ind as [|i0 ind']; reflexivity.
Qed.

Lemma cm_ok_chars cm c : cm_ok cm = true -> mem c cm = true ->
  tchar c = true /\ c <> 34 /\ c <> 91 /\ c <> 93.
Proof.
  unfold cm_ok. intros H Hm. apply andb_true_iff in H as [_ H].
  apply mem_In in Hm. rewrite forallb_forall in H. specialize (H c Hm).
  repeat (apply andb_true_iff in H as [H ?]).
  repeat split; try (intros ->; discriminate).
  unfold tchar. rewrite H. cbn [andb]. 
  repeat match goal with Hx : _ = true |- _ => rewrite Hx; clear Hx end. reflexivity.
Qed.

Lemma free_of_cm_blanks cm s : cm_ok cm = true -> blanks s = true -> free_of cm s = true.
Proof.
  intros Hcm Hb. unfold free_of. unfold blanks in Hb. eapply forallb_impl; [|exact Hb].
  intros x Hx. destruct (mem x cm) eqn:E; [|reflexivity].
  pose proof (cm_ok_tchar cm x Hcm E) as Ht. apply tchar_not_space in Ht.
  rewrite (isblank_isspace x Hx) in Ht. discriminate.
Qed.

Lemma free_of_app bad a b : free_of bad (a ++ b) = free_of bad a && free_of bad b.
Proof. apply forallb_app. Qed.

Lemma free_of_cons bad c s : free_of bad (c :: s) = negb (mem c bad) && free_of bad s.
Proof. reflexivity. Qed.
Lemma nonzero_cons c s : nonzero (c :: s) = negb (c =? 0) && nonzero s.
Proof. reflexivity. Qed.

Lemma free_of_cm_zero cm : cm_ok cm = true -> free_of cm [0] = true.
Proof.
  intros H. unfold free_of. simpl. destruct (mem 0 cm) eqn:E; [|reflexivity].
  pose proof (cm_ok_tchar cm 0 H E). discriminate.
Qed.

Lemma free_of_cm_quote cm : cm_ok cm = true -> free_of cm [34] = true.
Proof.
  intros H. unfold free_of. simpl. destruct (mem 34 cm) eqn:E; [|reflexivity].
  destruct (cm_ok_chars cm 34 H E) as (_ & Hq & _). congruence.
Qed.

Lemma free_quote_blanks s : blanks s = true -> free_of [34] s = true.
Proof.
  unfold free_of, blanks. apply forallb_impl. intros x Hx.
  destruct (isblank_cases x Hx); subst; reflexivity.
Qed.

(* the comment loop of parse_entry is [comment_loop] *)
Lemma parse_entry_unfold dl cm s org b0 name :
  parse_entry std_opts dl cm s org b0 name =
  let '(nm, di, cav) := comment_loop dl cm name (p_cav s) in
  let s' := with_cav s cav in
  match cstr nm with
  | 91 :: rest => section_line s' rest (p_line s)
  | vis => if keys_only dl then
             PCont (store_new s' vis (option_map (fun i => cstr (skipn i nm)) di) (p_line s) false)
           else parse_kv std_opts dl cm s' org b0 vis
  end.
Proof.
  unfold parse_entry, comment_loop. cbn [std_opts o_python].
  destruct (fold_left _ cm (name, None, p_cav s)) as [[nm di] cav]. cbn zeta.
  destruct (cstr nm) as [|c r]; [reflexivity|].
  destruct c as [|p]; [reflexivity|].
  do 7 (destruct p as [p|p|]; try reflexivity).
Qed.

Lemma section_line_ok dl cm prev s ind name post :
  cm_ok cm = true ->
  wf_line dl cm prev (LSection ind name post) = true -> Inv prev s ->
  parse_line std_opts dl cm s (render_line (LSection ind name post)) = PCont (exp_step dl s (LSection ind name post)) /\
  Inv false (exp_step dl s (LSection ind name post)).
Proof.
  intros Hcm Hwf HI.
  split; [|eapply Inv_nonentry; [exact HI|reflexivity|reflexivity|reflexivity]].
  cbn [wf_line] in Hwf. unfold wf_section in Hwf.
  repeat (apply andb_true_iff in Hwf as [Hwf ?]).
  rename H into Hnone, H0 into Hends, H1 into Hchars, H2 into Hne, H3 into Hpost, Hwf into Hind.
  assert (Hfree : free_of cm name = true /\ free_of [34] name = true /\ nonzero name = true).
  { unfold free_of, nonzero. repeat split; (eapply forallb_impl; [|exact Hchars]); intros x Hx;
      repeat (apply andb_true_iff in Hx as [Hx ?]).
    - assumption.
    - cbn [mem]. rewrite orb_false_r. destruct (x =? 34) eqn:E; [discriminate|]. now rewrite N.eqb_sym, E.
    - now rewrite tb_nonzero. }
  destruct Hfree as (Hf1 & Hf2 & Hnz).
  set (pre := 91 :: name ++ 93 :: post).
  assert (Hpre_nz : nonzero pre = true).
  { unfold pre. rewrite nonzero_cons, nonzero_app, Hnz, nonzero_cons, (nonzero_blanks post Hpost). reflexivity. }
  unfold render_line. cbn [render_body].
  rewrite parse_line_body.
  2:{ rewrite nonzero_app, (nonzero_blanks ind Hind). exact Hpre_nz. }
  rewrite (drop_blanks_then ind (name ++ 93 :: post) 91 Hind eq_refl). fold pre.
  destruct (mem 91 cm) eqn:E91.
  { destruct (cm_ok_chars cm 91 Hcm E91) as (_ & _ & H & _). congruence. }
  assert (E93 : mem 93 cm = false).
  { destruct (mem 93 cm) eqn:E; [|reflexivity]. destruct (cm_ok_chars cm 93 Hcm E) as (_ & _ & _ & H). congruence. }
  replace (match ind ++ pre with [] => PCont (bump s) | b0 :: _ => parse_entry std_opts dl cm (bump s) ((ind ++ pre) ++ [10]) b0 pre end)
    with (parse_entry std_opts dl cm (bump s) ((ind ++ pre) ++ [10]) (hd 0 (ind ++ pre)) pre)
    by (destruct ind; reflexivity).
  rewrite parse_entry_unfold.
  destruct HI as [Hcav _]. change (p_cav (bump s)) with (p_cav s). rewrite Hcav.
  pose proof (comment_loop_plain_corrected_noquote_cm dl cm pre None) as L. cbn [render_tc] in L. rewrite app_nil_r in L.
  assert (Hfc : free_of cm pre = true).
  { unfold pre. rewrite free_of_cons, E91, free_of_app, Hf1, free_of_cons, E93,
      (free_of_cm_blanks cm post Hcm Hpost). reflexivity. }
  assert (Hfq : free_of [34] pre = true).
  { unfold pre. rewrite free_of_cons, free_of_app, Hf2, free_of_cons, (free_quote_blanks post Hpost). reflexivity. }
  specialize (L ltac:(discriminate) Hpre_nz Hfc Hfq (free_of_cm_zero cm Hcm) (free_of_cm_quote cm Hcm) eq_refl).
  destruct (comment_loop dl cm pre None) as [[nm di] cav]. destruct L as [Lv Lc].
  cbn zeta. rewrite Lv. subst cav. unfold pre.
  unfold section_line.
  rewrite (rtrim_app_stop name 93 post eq_refl (blanks_isspace post Hpost)).
  rewrite rev_app_distr. cbn [rev app]. rewrite rev_involutive.
  destruct name as [|n0 name']; [discriminate|].
  cbn [exp_step]. unfold with_cav, bump. cbn. rewrite Hcav. reflexivity.
Qed.
