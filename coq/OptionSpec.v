(* OptionSpec.v — vocabulary for C15: documented option items, the JOIN view of
   a key defined several times, PYTHON_STYLE lines.  Executable definitions only. *)
From Coq Require Import String.
From Econf Require Export LayeredModel Grammar.
Local Open Scope N_scope.

(* ---- option strings ---- *)
Inductive item :=
| IJoin (on : bool) | IPython (on : bool)
| IParsingDirs (dirs : list str) | IConfigDirs (dirs : list str) | IRootPrefix (p : str).

Definition render_item (i : item) : str :=
  match i with
  | IJoin b => bs "JOIN_SAME_ENTRIES=" ++ [if b then 49 else 48]
  | IPython b => bs "PYTHON_STYLE=" ++ [if b then 49 else 48]
  | IParsingDirs l => bs "PARSING_DIRS=" ++ join_with [58] l
  | IConfigDirs l => bs "CONFIG_DIRS=" ++ join_with [58] l
  | IRootPrefix p => bs "ROOT_PREFIX=" ++ p
  end.

(* values of list options: non-empty lists of ':'-free, ';'-free directory names;
   a root prefix is ';'-free *)
Definition item_ok (i : item) : bool :=
  match i with
  | IParsingDirs l | IConfigDirs l =>
      match l with [] => false | _ => true end &&
      forallb (fun d => negb (mem 58 d) && negb (mem 59 d)) l
  | IRootPrefix p => negb (mem 59 p)
  | _ => true
  end.

Definition apply_item (kf : keyfile) (i : item) : keyfile :=
  let upd j p pd cd rp := mkKF (kf_entries kf) (kf_spare kf) (kf_groups kf) (kf_delim kf) (kf_comment kf)
                               (kf_path kf) j p pd cd rp in
  match i with
  | IJoin b => upd b (kf_python kf) (kf_parse_dirs kf) (kf_conf_dirs kf) (kf_root_prefix kf)
  | IPython b => upd (kf_join kf) b (kf_parse_dirs kf) (kf_conf_dirs kf) (kf_root_prefix kf)
  | IParsingDirs l => upd (kf_join kf) (kf_python kf) l (kf_conf_dirs kf) (kf_root_prefix kf)
  | IConfigDirs l => upd (kf_join kf) (kf_python kf) (kf_parse_dirs kf) l (kf_root_prefix kf)
  | IRootPrefix p => upd (kf_join kf) (kf_python kf) (kf_parse_dirs kf) (kf_conf_dirs kf) (Some p)
  end.

(* the documented meaning of an option string: every item acts, a repeated item as its last occurrence *)
Definition options_meaning (items : list item) : keyfile := fold_left apply_item items new_empty.

Definition render_options (items : list item) : str := join_with [59] (map render_item items).

(* is a raw item text one of the documented forms? *)
Definition documented_text (s : str) : bool :=
  str_eqb s (bs "JOIN_SAME_ENTRIES=1") || str_eqb s (bs "JOIN_SAME_ENTRIES=0") ||
  str_eqb s (bs "PYTHON_STYLE=1") || str_eqb s (bs "PYTHON_STYLE=0") ||
  is_prefix (bs "PARSING_DIRS=") s || is_prefix (bs "CONFIG_DIRS=") s || is_prefix (bs "ROOT_PREFIX=") s.

(* ---- JOIN_SAME_ENTRIES ---- *)
(* the non-empty, blank-trimmed lines of a stored value: what the extended getter lists, minus empty lines *)
Definition value_lines (v : option str) : list str :=
  filter (fun l => match l with [] => false | _ => true end)
         (match v with Some s => map trim (split_on nl s) | None => [] end).

(* the definitions of (g,k) in file order *)
Definition defs_of (es : list entry) (g k : str) : list (option str) :=
  map e_value (filter (fun e => str_eqb (e_group e) g && str_eqb (e_key e) k) es).

(* the lines of all definitions since the last empty one *)
Fixpoint since_last_empty (acc : list str) (defs : list (option str)) : list str :=
  match defs with
  | [] => acc
  | d :: rest => if is_empty_val d then since_last_empty [] rest
                 else since_last_empty (acc ++ value_lines d) rest
  end.

Definition expected_join (es : list entry) (g k : str) : list str :=
  match defs_of es g k with
  | [] => []
  | d :: rest => since_last_empty (value_lines d) rest
  end.

Definition first_value (es : list entry) (g k : str) : option (option str) :=
  match filter (fun e => str_eqb (e_group e) g && str_eqb (e_key e) k) es with
  | e :: _ => Some (e_value e)
  | [] => None
  end.
