(* Grammar.v — the conventional file grammar of DESIGN.md 5.1 as an AST,
   its rendering to bytes, its side conditions (boolean [wf_lines]) and its
   meaning [exp_step]: what a reader of the file expects the configuration to
   be.  Executable definitions only. *)
From Coq Require Import String.
From Econf Require Export ParserModel.
Local Open Scope N_scope.

Inductive value := VPlain (s : str) | VQuoted (inner : str).

Record kline := mkKL {
  kl_indent : str;            (* blanks before the key *)
  kl_key : str;
  kl_b1 : str;                (* blanks between key and delimiter character *)
  kl_d : option byte;         (* the one non-blank delimiter character, if any *)
  kl_b2 : str;                (* blanks after it *)
  kl_val : value;
  kl_post : str;              (* blanks after the value *)
  kl_tc : option (byte * str) (* trailing comment: its character and text *) }.

Inductive cline :=
| LBlank (ws : str)
| LComment (ind : str) (c : byte) (text : str)
| LSection (ind name post : str)
| LKey (k : kline)
| LCont (ind text post : str) (tc : option (byte * str)).

Definition render_tc (tc : option (byte * str)) : str :=
  match tc with Some (c, t) => c :: t | None => [] end.

Definition render_value (v : value) : str :=
  match v with VPlain s => s | VQuoted i => 34 :: i ++ [34] end.

Definition render_body (l : cline) : str :=
  match l with
  | LBlank ws => ws
  | LComment ind c text => ind ++ c :: text
  | LSection ind name post => ind ++ 91 :: name ++ 93 :: post
  | LKey k =>
      kl_indent k ++ kl_key k ++ kl_b1 k ++
      (match kl_d k with Some d => [d] | None => [] end) ++
      kl_b2 k ++ render_value (kl_val k) ++ kl_post k ++ render_tc (kl_tc k)
  | LCont ind text post tc => ind ++ text ++ post ++ render_tc tc
  end.

Definition render_line (l : cline) : str := render_body l ++ [nl].
Definition render (ls : list cline) : str := concat (map render_line ls).

(* ---------- alphabets ---------- *)
Definition tchar (c : byte) : bool := (33 <=? c) && (c <? 256) && negb (c =? 127).
Definition tb (c : byte) : bool := tchar c || isblank c.
Definition blanks (s : str) : bool := forallb isblank s.
Definition ends_nonblank (s : str) : bool :=
  match s with
  | [] => true
  | c :: _ => negb (isblank c) && negb (isblank (last s 0))
  end.

(* delimiter and comment sets the grammar is stated for *)
Definition cm_ok (cm : str) : bool :=
  match cm with [] => false | _ => true end &&
  forallb (fun c => tchar c && negb (c =? 34) && negb (c =? 91) && negb (c =? 93)) cm.
Definition dl_ok (dl cm : str) : bool :=
  forallb (fun c => (isblank c || (tchar c && negb (c =? 34) && negb (c =? 91) && negb (c =? 93))) && negb (mem c cm)) dl.

Inductive dclass := ClassN | ClassW | ClassM | Class0.
Definition class_of (dl : str) : dclass :=
  match dl with
  | [] => Class0
  | _ => if has_wsp dl then (if has_nonwsp dl then ClassM else ClassW) else ClassN
  end.

(* ---------- side conditions ---------- *)
Definition wf_key (dl cm : str) (k : str) : bool :=
  match k with
  | [] => false
  | c :: _ => negb (c =? 91)
  end &&
  forallb (fun c => tchar c && negb (mem c dl) && negb (mem c cm) && negb (c =? 34)) k.

Definition wf_tc (cm : str) (tc : option (byte * str)) : bool :=
  match tc with
  | None => true
  | Some (c, t) => mem c cm && forallb (fun x => tb x && negb (mem x cm) && negb (x =? 34)) t
  end.

Definition wf_value (dl cm : str) (v : value) : bool :=
  match v with
  | VPlain s =>
      forallb (fun c => tb c && negb (mem c cm) && negb (c =? 34)) s && ends_nonblank s &&
      match class_of dl, s with
      | ClassM, c :: _ => negb (mem c dl)        (* must not look like a second delimiter *)
      | _, _ => true
      end
  | VQuoted i => forallb (fun c => tb c && negb (c =? 34)) i
  end.

Definition wf_sep (dl : str) (k : kline) : bool :=
  blanks (kl_b1 k) && blanks (kl_b2 k) &&
  match class_of dl with
  | ClassN => match kl_d k with Some d => mem d dl | None => false end
  | ClassW => match kl_d k, kl_b2 k, kl_b1 k with
              | None, [], _ :: _ => existsb (fun c => mem c dl) (kl_b1 k)
              | _, _, _ => false
              end
  | ClassM => match kl_d k with
              | Some d => mem d dl && negb (isblank d)
              | None => match kl_b2 k, kl_b1 k with [], _ :: _ => true | _, _ => false end
              end
  | Class0 => match kl_d k, kl_b1 k, kl_b2 k with None, [], [] => true | _, _, _ => false end
  end.

Definition wf_kline (dl cm : str) (k : kline) : bool :=
  blanks (kl_indent k) && wf_key dl cm (kl_key k) && wf_sep dl k && blanks (kl_post k) &&
  match class_of dl with
  | Class0 => match kl_val k, kl_tc k with VPlain [], None => true | _, _ => false end
  | _ => wf_value dl cm (kl_val k) && wf_tc cm (kl_tc k)
  end.

Definition wf_section (cm : str) (ind name post : str) : bool :=
  blanks ind && blanks post &&
  match name with [] => false | _ => true end &&
  forallb (fun c => tb c && negb (mem c cm) && negb (c =? 34) && negb (c =? 91) && negb (c =? 93)) name &&
  ends_nonblank name && negb (str_eqb name none_s).

Definition wf_cont (dl cm : str) (ind text post : str) (tc : option (byte * str)) : bool :=
  blanks ind && match ind with [] => false | _ => true end &&
  match text with
  | [] => false
  | c :: _ => negb (isblank c) && negb (c =? 91)
  end &&
  match class_of dl with
  | ClassN =>
      forallb (fun c => tb c && negb (mem c dl) && negb (mem c cm) && negb (c =? 34)) text &&
      blanks post && wf_tc cm tc
  | ClassW =>
      forallb (fun c => tchar c && negb (mem c cm) && negb (c =? 34)) text &&
      match post, tc with [], None => true | _, _ => false end
  | _ => false
  end.

(* [prev]: the previous line is a key line or a continuation line *)
Definition wf_line (dl cm : str) (prev : bool) (l : cline) : bool :=
  match l with
  | LBlank [] => true
  | LBlank ws => blanks ws &&
                 match class_of dl with
                 | Class0 => false
                 | ClassM => true
                 | _ => negb prev
                 end
  | LComment ind c text => blanks ind && mem c cm && forallb tb text
  | LSection ind name post => wf_section cm ind name post
  | LKey k => wf_kline dl cm k
  | LCont ind text post tc => prev && wf_cont dl cm ind text post tc
  end.

Definition is_entry_line (l : cline) : bool :=
  match l with LKey _ | LCont _ _ _ _ => true | _ => false end.

Fixpoint wf_lines (dl cm : str) (prev : bool) (ls : list cline) : bool :=
  match ls with
  | [] => true
  | l :: ls' => wf_line dl cm prev l && wf_lines dl cm (is_entry_line l) ls'
  end.

Definition wf_file (dl cm : str) (ls : list cline) : bool :=
  cm_ok cm && dl_ok dl cm && wf_lines dl cm false ls.

(* ---------- meaning ---------- *)

(* bytes between the separator character and the trailing comment *)
Definition after_sep (k : kline) : str :=
  (match kl_b1 k with
   | [] => kl_b2 k
   | _ :: b1' => b1' ++ (match kl_d k with Some d => [d] | None => [] end) ++ kl_b2 k
   end) ++ render_value (kl_val k) ++ kl_post k.

Definition val_of (dl : str) (k : kline) : option str :=
  match kl_val k with
  | VQuoted i => Some i
  | VPlain (c :: s) => Some (c :: s)
  | VPlain [] =>
      match class_of dl with
      | Class0 => None
      | _ => match after_sep k with [] => None | _ => Some [] end   (* "key=" has no value at all, "key = " an empty one *)
      end
  end.

Definition is_quoted (v : value) : bool := match v with VQuoted _ => true | VPlain _ => false end.

(* what each line means, on the same state record the parser uses *)
Definition exp_step (dl : str) (s : pstate) (l : cline) : pstate :=
  let line := p_line s + 1 in
  match l with
  | LBlank _ => mkPS (p_rev s) (p_groups s) (p_cur s) (p_cbk s) (p_cav s) line
  | LComment _ _ text => mkPS (p_rev s) (p_groups s) (p_cur s) (append_opt (p_cbk s) text) (p_cav s) line
  | LSection _ name _ => mkPS (p_rev s) (intern (p_groups s) name) (Some name) (p_cbk s) (p_cav s) line
  | LKey k =>
      let g := match p_cur s with Some g => g | None => none_s end in
      let e := mkE g (kl_key k) (val_of dl k) (p_cbk s) (option_map snd (kl_tc k)) line (is_quoted (kl_val k)) in
      mkPS (e :: p_rev s) (intern (p_groups s) g) (p_cur s) None None line
  | LCont ind text post tc =>
      match p_rev s with
      | [] => s
      | e :: rest =>
          let nv := (match e_value e with Some x => x | None => [] end) ++ nl :: ind ++ text ++ post in
          let ncav := match tc, e_cav e with
                      | Some (_, t), Some x => Some (x ++ nl :: t)
                      | Some (_, t), None => Some (nl :: t)
                      | None, Some x => Some (x ++ [nl])
                      | None, None => None
                      end in
          mkPS (mkE (e_group e) (e_key e) (Some nv) (e_cbk e) ncav line (e_quotes e) :: rest)
               (p_groups s) (p_cur s) None None line
      end
  end.

Definition expected (dl : str) (ls : list cline) : pstate := fold_left (exp_step dl) ls init_pstate.

(* the model parser on the rendered lines *)
Definition parsed (dl cm : str) (ls : list cline) : presult :=
  read_lines (mkPopts false false) dl cm init_pstate (map render_line ls).

Definition pstate_eqb (a b : pstate) : bool :=
  let ee x y := str_eqb (e_group x) (e_group y) && str_eqb (e_key x) (e_key y) &&
                ostr_eqb (e_value x) (e_value y) && ostr_eqb (e_cbk x) (e_cbk y) &&
                ostr_eqb (e_cav x) (e_cav y) && (e_line x =? e_line y) && Bool.eqb (e_quotes x) (e_quotes y) in
  (length (p_rev a) =? length (p_rev b))%nat &&
  forallb (fun p => ee (fst p) (snd p)) (combine (p_rev a) (p_rev b)) &&
  (length (p_groups a) =? length (p_groups b))%nat &&
  forallb (fun p => str_eqb (fst p) (snd p)) (combine (p_groups a) (p_groups b)) &&
  ostr_eqb (p_cur a) (p_cur b) && ostr_eqb (p_cbk a) (p_cbk b) && ostr_eqb (p_cav a) (p_cav b) &&
  (p_line a =? p_line b).

(* does the model parser produce exactly the expected state? *)
Definition agrees (dl cm : str) (ls : list cline) : bool :=
  match parsed dl cm ls with
  | PCont s => pstate_eqb s (expected dl ls)
  | PStop _ _ => false
  end.
