(* WriterModel.v — econf_writeFile (lib/libeconf.c): the bytes written. *)
From Coq Require Import String.
From Econf Require Export MergeModel.
Local Open Scope N_scope.

(* helpers.c: addbrackets *)
Definition add_brackets (g : str) : str :=
  match g, rev g with
  | 91 :: _, 93 :: _ => g
  | _, _ => 91 :: g ++ [93]
  end.

Definition comment_lines (pre : str) (c : byte) (text : option str) : str :=
  match text with
  | Some (x :: r) => concat (map (fun l => pre ++ c :: l ++ [nl]) (split_on nl (x :: r)))
  | _ => []
  end.

Definition write_entry (d c : byte) (e : entry) : str :=
  comment_lines [] c (e_cbk e) ++
  e_key e ++ d ::
  (match e_value e with
   | Some v => if e_quotes e then 34 :: v ++ [34] else v
   | None => []
   end) ++
  comment_lines [32] c (e_cav e) ++ [nl].

(* one pass over the entries; [last] is the group of the last entry written *)
Fixpoint write_pass (d c : byte) (want_none : bool) (es : list entry) (last : option str)
  : str * option str :=
  match es with
  | [] => ([], last)
  | e :: es' =>
      if Bool.eqb (is_none e) want_none then
        let hdr := match last with
                   | Some g => if str_eqb g (e_group e) then []
                               else nl :: (if is_none e then [] else add_brackets (e_group e) ++ [nl])
                   | None => if is_none e then [] else add_brackets (e_group e) ++ [nl]
                   end in
        let '(out, last') := write_pass d c want_none es' (Some (e_group e)) in
        (hdr ++ write_entry d c e ++ out, last')
      else write_pass d c want_none es' last
  end.

Definition write_model (kf : keyfile) : str :=
  let '(o1, l1) := write_pass (kf_delim kf) (kf_comment kf) true (kf_entries kf) None in
  let '(o2, _) := write_pass (kf_delim kf) (kf_comment kf) false (kf_entries kf) l1 in
  o1 ++ o2.
