(* Properties_C19.v — C19: econftool shows what an application would get.
   The tool model (ToolModel.v) is built on the model of the library's readers;
   proofs in ToolFacts.v.  edit/revert are not modelled. *)
From Coq Require Import String Lia List.
From Econf Require Import Bytes BytesFacts ToolModel ToolFacts.
Local Open Scope N_scope.

(* show "<name>.<suffix>": header + the listing of exactly the object the
   library's two-directory read returns for the same tree *)
Theorem C19_show : forall t b s dl cm kf,
  mem 46 s = false -> hd 0 (b ++ 46 :: s) <> 47 ->
  let r := read_dirs t globals0 None (Some usr_root) (Some etc_root) (Some b) (Some (46 :: s)) dl cm in
  r2_err r = ECONF_SUCCESS -> r2_obj r = Some kf ->
  tool_show t (b ++ 46 :: s) dl cm = mkTO (pr_header (Some b) (Some (46 :: s)) ++ pr_key_file kf) None 0.
Proof. exact show_is_library_result. Qed.
Print Assumptions C19_show.

(* the listing: the keys without group FIRST, then every section the library lists, in its order *)
Theorem C19_listing_blocks : forall kf,
  pr_key_file kf = pr_group kf None ++
                   concat (map (fun g => pr_group kf (Some g)) (match get_groups kf with inr l => l | inl _ => [] end)).
Proof. exact pr_key_file_blocks. Qed.
Print Assumptions C19_listing_blocks.

(* every key of a section (g = None: group-less keys) is printed with its value lines ... *)
Theorem C19_every_key_printed : forall kf g ks k,
  get_keys kf g = inr ks -> In k ks ->
  exists pre post, pr_group kf g = pre ++ pr_key kf g k ++ post.
Proof. exact pr_group_prints_key. Qed.
Print Assumptions C19_every_key_printed.

(* ... and nothing else: the section name and the blocks of exactly the listed keys *)
Theorem C19_nothing_else : forall kf g ks,
  get_keys kf g = inr ks ->
  pr_group kf g = (match g with Some name => name ++ [nl] | None => [] end) ++ concat (map (pr_key kf g) ks) ++ [nl].
Proof. exact pr_group_exact. Qed.
Print Assumptions C19_nothing_else.

(* syntax: exit status 0 exactly when the library reports no error; otherwise
   the error line names file and line of the library's error location *)
Theorem C19_syntax : forall t b s dl cm,
  mem 46 s = false -> hd 0 (b ++ 46 :: s) <> 47 ->
  let r := read_dirs t globals0 None (Some usr_root) (Some etc_root) (Some b) (Some (46 :: s)) dl cm in
  (r2_err r = ECONF_SUCCESS -> to_exit (tool_syntax t (b ++ 46 :: s) dl cm) = 0) /\
  (r2_err r <> ECONF_SUCCESS ->
     to_exit (tool_syntax t (b ++ 46 :: s) dl cm) = minus_one /\
     to_errline (tool_syntax t (b ++ 46 :: s) dl cm) = Some (error_line (r2_g r) (r2_err r)) /\
     to_stdout (tool_syntax t (b ++ 46 :: s) dl cm) = []).
Proof. exact syntax_exit. Qed.
Print Assumptions C19_syntax.

(* cat: the consulted files in processing order, each listed like show lists a result *)
Theorem C19_cat : forall t b s dl cm files,
  mem 46 s = false -> hd 0 (b ++ 46 :: s) <> 47 ->
  ho_res (read_dirs_history t globals0 None (Some usr_root) (Some etc_root) (Some b) (Some (46 :: s)) dl cm) = inr files ->
  tool_cat t (b ++ 46 :: s) dl cm =
  mkTO (pr_header (Some b) (Some (46 :: s)) ++ concat (map pr_key_file files)) None 0.
Proof. exact cat_lists_history. Qed.
Print Assumptions C19_cat.

(* --delimiters: an argument without a backslash, other than the word "spaces", is the set the library gets (so the
   theorems above, stated for the set the library gets, speak about the command line); with escapes the first \t, \f,
   \n, \r, \v are replaced and everything before and behind them is kept *)
Theorem C19_delimiters_plain : forall d, mem 92 d = false -> str_eqb d (bs "spaces") = false -> cli_delims d = d.
Proof. exact cli_delims_plain. Qed.
Print Assumptions C19_delimiters_plain.

Theorem C19_escape_replaced : forall orig rep pre post,
  orig <> [] -> (forall a b, pre = a ++ b -> b <> [] -> is_prefix orig (b ++ orig ++ post) = false) ->
  replace_first orig rep (pre ++ orig ++ post) = pre ++ rep ++ post.
Proof. exact replace_first_at. Qed.
Print Assumptions C19_escape_replaced.

Example C19_delimiters_demo :
  cli_delims (bs "=\t\f") = [61; 9; 12] /\ cli_delims (bs "\t=\v") = [9; 61; 11] /\ cli_delims (bs "=\f\t:") = [61; 12; 9; 58] /\
  cli_delims (bs "\t\t") = [9; 92; 116] /\ cli_delims (bs "spaces") = [32; 9; 12; 10; 13; 11] /\ cli_delims (bs ":=") = bs ":=".
Proof. vm_compute. repeat split; reflexivity. Qed.

Example C19_demo :
  let t := [([47], NDir 0 0); (bs "/etc", NDir 0 0); (bs "/usr/etc", NDir 0 0);
            (bs "/etc/foo.conf", NFile (bs "g=1" ++ [10] ++ bs "[E]" ++ [10] ++ bs "[A]" ++ [10] ++ bs "x=2" ++ [10] ++ bs " more" ++ [10]) 0 0)] in
  to_stdout (tool_show t (bs "foo.conf") (bs "=") (bs "#")) =
  pr_header (Some (bs "foo")) (Some (bs ".conf")) ++
  bs "g = 1" ++ [10; 10] ++ bs "E" ++ [10; 10] ++ bs "A" ++ [10] ++ bs "x = 2" ++ [10] ++ bs "     more" ++ [10; 10].
Proof. vm_compute. reflexivity. Qed.
