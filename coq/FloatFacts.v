From Coq Require Import ZArith Reals Lia Lra.
From Flocq Require Import Core.
Open Scope R_scope.

Definition radix10 : radix := Build_radix 10 (refl_equal _).

Section Roundtrip.

Variables prec emin p : Z.
Hypothesis Hprec : (0 < prec)%Z.
Hypothesis Hp : (0 < p)%Z.
Hypothesis Hdigits : (2 ^ prec < 10 ^ (p - 1))%Z.

Instance prec_gt_0_prec : Prec_gt_0 prec := Hprec.
Instance prec_gt_0_p : Prec_gt_0 p := Hp.

Notation fexp2 := (FLT_exp emin prec).
Notation fexp10 := (FLX_exp p).

(* 10^(1-p) < 2^(-prec) *)
Lemma bpow_digits : bpow radix10 (1 - p) < bpow radix2 (- prec).
Proof.
replace (1 - p)%Z with (- (p - 1))%Z by ring.
rewrite 2!bpow_opp.
apply Rinv_lt_contravar.
apply Rmult_lt_0_compat; apply bpow_gt_0.
rewrite <- (IZR_Zpower radix2) by lia.
rewrite <- (IZR_Zpower radix10) by lia.
apply IZR_lt.
exact Hdigits.
Qed.

(* error of decimal printing, relative to x *)
Lemma decimal_error :
  forall choice x, 0 < x ->
  Rabs (round radix10 fexp10 (Znearest choice) x - x) < / 2 * (x * bpow radix2 (- prec)).
Proof.
intros choice x Hx.
apply Rle_lt_trans with (/ 2 * ulp radix10 fexp10 x).
apply error_le_half_ulp; auto with typeclass_instances.
apply Rmult_lt_compat_l. lra.
apply Rle_lt_trans with (Rabs x * bpow radix10 (1 - p)).
apply ulp_FLX_le; auto with typeclass_instances.
rewrite Rabs_pos_eq by lra.
apply Rmult_lt_compat_l. exact Hx.
apply bpow_digits.
Qed.

(* gap to the successor *)
Lemma gap_succ :
  forall x, 0 < x ->
  x * bpow radix2 (- prec) < succ radix2 fexp2 x - x.
Proof.
intros x Hx.
rewrite succ_eq_pos by lra.
replace (x + ulp radix2 fexp2 x - x) with (ulp radix2 fexp2 x) by ring.
rewrite <- (Rabs_pos_eq x) at 1 by lra.
apply ulp_FLT_gt; auto with typeclass_instances.
Qed.

(* gap to the predecessor *)
Lemma gap_pred :
  forall x, 0 < x ->
  x * bpow radix2 (- prec) <= x - pred radix2 fexp2 x.
Proof.
intros x Hx.
rewrite pred_eq_pos by lra.
unfold pred_pos.
case Req_bool_spec; intros Hb.
- replace (x - (x - bpow radix2 (fexp2 (mag radix2 x - 1))))
    with (bpow radix2 (fexp2 (mag radix2 x - 1))) by ring.
  rewrite Hb at 1.
  rewrite <- bpow_plus.
  apply bpow_le.
  unfold FLT_exp. lia.
- replace (x - (x - ulp radix2 fexp2 x)) with (ulp radix2 fexp2 x) by ring.
  rewrite <- (Rabs_pos_eq x) at 1 by lra.
  apply Rlt_le.
  apply ulp_FLT_gt; auto with typeclass_instances.
Qed.

Lemma decimal_roundtrip_pos :
  forall (choice choice2 : Z -> bool) (x : R), 0 < x ->
    generic_format radix2 fexp2 x ->
    round radix2 fexp2 (Znearest choice2)
          (round radix10 fexp10 (Znearest choice) x) = x.
Proof.
intros choice choice2 x Hx Fx.
generalize (decimal_error choice x Hx).
generalize (gap_succ x Hx) (gap_pred x Hx).
set (y := round radix10 fexp10 (Znearest choice) x).
intros Hs Hpd He.
apply Rabs_lt_inv in He.
apply Rle_antisym.
- apply round_N_le_midp; auto with typeclass_instances.
  lra.
- apply round_N_ge_midp; auto with typeclass_instances.
  lra.
Qed.

Lemma decimal_roundtrip_sec :
  forall (choice : Z -> bool) (x : R),
    generic_format radix2 fexp2 x ->
    round radix2 fexp2 ZnearestE
          (round radix10 fexp10 (Znearest choice) x) = x.
Proof.
intros choice x Fx.
destruct (Rtotal_order x 0) as [Hx|[Hx|Hx]].
- rewrite <- (Ropp_involutive x) at 1.
  rewrite round_N_opp.
  rewrite round_NE_opp.
  rewrite decimal_roundtrip_pos.
  apply Ropp_involutive.
  lra.
  now apply generic_format_opp.
- rewrite Hx.
  rewrite 2!round_0; auto with typeclass_instances.
- now apply decimal_roundtrip_pos.
Qed.

End Roundtrip.

(* x: a finite binary floating-point number of the format with precision prec and
   minimal exponent emin (unbounded above, which is harmless: no overflow is involved);
   it is printed with p significant decimal digits, rounding to nearest (any tie-breaking rule),
   and the decimal is read back rounding to nearest-even. *)
Theorem decimal_roundtrip :
  forall (prec emin p : Z) (choice : Z -> bool) (x : R),
    (0 < prec)%Z -> (0 < p)%Z -> (2 ^ prec < 10 ^ (p - 1))%Z ->
    generic_format radix2 (FLT_exp emin prec) x ->
    round radix2 (FLT_exp emin prec) ZnearestE
          (round radix10 (FLX_exp p) (Znearest choice) x) = x.
Proof.
intros prec emin p choice x Hprec Hp Hd Fx.
now apply decimal_roundtrip_sec.
Qed.

Corollary digits_float : forall choice x,
  generic_format radix2 (FLT_exp (-149) 24) x ->
  round radix2 (FLT_exp (-149) 24) ZnearestE (round radix10 (FLX_exp 9) (Znearest choice) x) = x.
Proof.
intros choice x Fx.
apply decimal_roundtrip; try easy.
Qed.

Corollary digits_double : forall choice x,
  generic_format radix2 (FLT_exp (-1074) 53) x ->
  round radix2 (FLT_exp (-1074) 53) ZnearestE (round radix10 (FLX_exp 17) (Znearest choice) x) = x.
Proof.
intros choice x Fx.
apply decimal_roundtrip; try easy.
Qed.

Print Assumptions digits_float.
Print Assumptions digits_double.
