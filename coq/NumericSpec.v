(* NumericSpec.v — what C08 and C09 quantify over: integer literals in the
   three C notations, and the accepted boolean spellings.  Definitions only. *)
From Coq Require Import String.
From Econf Require Export NumericModel.
Local Open Scope Z_scope.

Inductive lbase := Dec | Oct | Hex.

Definition base_val (b : lbase) : Z := match b with Dec => 10 | Oct => 8 | Hex => 16 end.

(* a literal: optional sign, notation, digit values (most significant first),
   and for hexadecimal digits above 9 whether they are written in upper case *)
Inductive lsign := SNone | SPlus | SMinus.
Record literal := mkLit {
  l_sign : lsign;
  l_base : lbase;
  l_upper : bool;          (* hex digits and the x of 0x in upper case *)
  l_digits : list Z }.

Definition digit_byte (upper : bool) (d : Z) : N :=
  if d <? 10 then Z.to_N (48 + d) else if upper then Z.to_N (55 + d) else Z.to_N (87 + d).

Definition render_lit (l : literal) : str :=
  (match l_sign l with SNone => [] | SPlus => [43%N] | SMinus => [45%N] end) ++
  (match l_base l with
   | Dec => []
   | Oct => [48%N]
   | Hex => [48%N; if l_upper l then 88%N else 120%N]
   end) ++
  map (digit_byte (l_upper l)) (l_digits l).

Definition horner (b : Z) (ds : list Z) : Z := fold_left (fun acc d => acc * b + d) ds 0.

Definition lit_value (l : literal) : Z :=
  let m := horner (base_val (l_base l)) (l_digits l) in
  match l_sign l with SMinus => - m | _ => m end.

(* well-formed: every digit below the base; decimal: non-empty without a
   leading zero unless it is the single digit 0 — written "0", which C reads
   as octal with the same value; octal: "0" followed by any octal digits
   (possibly none); hexadecimal: at least one digit *)
Definition lit_wf (l : literal) : bool :=
  forallb (fun d => (0 <=? d) && (d <? base_val (l_base l))) (l_digits l) &&
  match l_base l with
  | Dec => match l_digits l with [] => false | d :: r => (0 <? d) end
  | Oct => true
  | Hex => match l_digits l with [] => false | _ => true end
  end.

(* the words the boolean getter and setter accept *)
Definition true_words : list str := [bs "yes"; bs "true"].
Definition false_words : list str := [bs "no"; bs "false"].
