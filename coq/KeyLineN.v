(* KeyLineN.v — key lines for delimiter sets of class N (non-blank delimiters only) *)
From Coq Require Import String Lia List.
From Econf Require Import Bytes BytesFacts Grammar CommentLoop LineBase.
Local Open Scope N_scope.

(* ---------- small list facts ---------- *)
Lemma kn_skipn_length_app (a b : str) : skipn (length a) (a ++ b) = b.
Proof. induction a as [|x a IH]; [reflexivity|exact IH]. Qed.

Lemma kn_rtrim_nospace (l : str) :
  forallb (fun c => negb (isspace c)) l = true -> rtrim l = l.
Proof.
  destruct l as [|x l] using rev_ind; [reflexivity|]. intros H.
  rewrite forallb_app in H. apply andb_true_iff in H as [_ H]. cbn [forallb] in H.
  rewrite andb_true_r in H. apply negb_true_iff in H.
  apply (rtrim_app_stop l x [] H eq_refl).
Qed.

Lemma kn_rtrim_spaces (l : str) : forallb isspace l = true -> rtrim l = [].
Proof.
  intros H. unfold rtrim. rewrite drop_while_all; [reflexivity|]. now rewrite forallb_rev'.
Qed.

Lemma kn_key_trim_nospace (l : str) :
  forallb (fun c => negb (isspace c)) l = true -> key_trim l = l.
Proof.
  destruct l as [|x l]; [reflexivity|]. intros H. cbn [forallb] in H.
  apply andb_true_iff in H as [_ H]. unfold key_trim. now rewrite kn_rtrim_nospace.
Qed.

(* ---------- matches on byte literals ---------- *)
Lemma kn_match91 {A} (c : N) (r : str) (f : str -> A) (g : str -> A) :
  c <> 91 ->
  match c :: r with 91 :: rest => f rest | vis => g vis end = g (c :: r).
Proof.
  intros H. destruct c as [|p]; [reflexivity|].
  do 7 (destruct p as [p|p|]; try reflexivity). congruence.
Qed.

(* the reading of the value text in [value_of] *)
Definition kn_rd (d : str) : econf_err + (option str * bool) :=
  match d with
  | 34 :: q =>
      let v := key_trim q in
      match rev v with
      | 34 :: rv => inr (Some (rev rv), true)
      | _ => inr (Some (34 :: v), true)
      end
  | _ => inr (Some (key_trim d), false)
  end.

Lemma kn_rd_nil : kn_rd [] = inr (Some [], false).
Proof. reflexivity. Qed.

Lemma kn_rd_plain (c : N) (r : str) : c <> 34 -> kn_rd (c :: r) = inr (Some (key_trim (c :: r)), false).
Proof.
  intros H. unfold kn_rd. destruct c as [|p]; [reflexivity|].
  do 6 (destruct p as [p|p|]; try reflexivity). congruence.
Qed.

Lemma kn_rd_quoted (inner post : str) :
  blanks post = true ->
  kn_rd (34 :: inner ++ 34 :: post) = inr (Some inner, true).
Proof.
  intros Hp.
  assert (E : key_trim (inner ++ 34 :: post) = inner ++ [34]).
  { destruct inner as [|i inner'].
    - cbn [app key_trim]. now rewrite (kn_rtrim_spaces post (blanks_isspace post Hp)).
    - cbn [app key_trim]. now rewrite (rtrim_app_stop inner' 34 post eq_refl (blanks_isspace post Hp)). }
  change (kn_rd (34 :: inner ++ 34 :: post)) with
    (match rev (key_trim (inner ++ 34 :: post)) with
     | 34 :: rv => inr (Some (rev rv), true)
     | _ => @inr econf_err _ (Some (34 :: key_trim (inner ++ 34 :: post)), true)
     end).
  rewrite E, rev_app_distr. cbn [rev app]. now rewrite rev_involutive.
Qed.

(* ---------- the value text, after the blanks that follow the delimiter ---------- *)
Definition kn_val (v : value) : str := match v with VPlain s => s | VQuoted i => i end.

Lemma kn_tb_nonblank_nospace c : tb c = true -> isblank c = false -> isspace c = false.
Proof.
  unfold tb. intros H Hb. rewrite Hb, orb_false_r in H. now apply tchar_not_space.
Qed.

Lemma kn_read_plain (b2 v post : str) :
  blanks b2 = true -> blanks post = true ->
  forallb (fun c => tb c && negb (c =? 34)) v = true -> ends_nonblank v = true ->
  kn_rd (drop_while isspace (b2 ++ v ++ post)) = inr (Some v, false).
Proof.
  intros Hb Hp Hv He.
  destruct v as [|c v'].
  - cbn [app]. rewrite drop_while_all; [reflexivity|].
    rewrite forallb_app, (blanks_isspace b2 Hb), (blanks_isspace post Hp). reflexivity.
  - cbn [forallb] in Hv. apply andb_true_iff in Hv as [Hc Hv]. apply andb_true_iff in Hc as [Hc1 Hc2].
    unfold ends_nonblank in He. apply andb_true_iff in He as [He1 He2].
    apply negb_true_iff in He1, He2.
    rewrite <- app_comm_cons.
    rewrite (drop_blanks_then b2 (v' ++ post) c Hb (kn_tb_nonblank_nospace c Hc1 He1)).
    rewrite kn_rd_plain.
    2:{ intros ->. discriminate. }
    cbn [key_trim]. do 3 f_equal.
    destruct v' as [|x v''] using rev_ind.
    + cbn [app]. now rewrite (kn_rtrim_spaces post (blanks_isspace post Hp)).
    + clear IHv''. rewrite app_comm_cons, last_last in He2.
      rewrite forallb_app in Hv. apply andb_true_iff in Hv as [_ Hx]. cbn [forallb] in Hx.
      rewrite andb_true_r in Hx. apply andb_true_iff in Hx as [Hx _].
      rewrite <- app_assoc. cbn [app].
      now rewrite (rtrim_app_stop v'' x post (kn_tb_nonblank_nospace x Hx He2) (blanks_isspace post Hp)).
Qed.

Lemma kn_read_quoted (b2 inner post : str) :
  blanks b2 = true -> blanks post = true ->
  kn_rd (drop_while isspace (b2 ++ (34 :: inner ++ [34]) ++ post)) = inr (Some inner, true).
Proof.
  intros Hb Hp. rewrite <- app_comm_cons, <- app_assoc. cbn [app].
  rewrite (drop_blanks_then b2 (inner ++ 34 :: post) 34 Hb eq_refl).
  now apply kn_rd_quoted.
Qed.

Lemma kn_read_value dl cm (b2 : str) (val : value) (post : str) :
  blanks b2 = true -> blanks post = true -> wf_value dl cm val = true ->
  kn_rd (drop_while isspace (b2 ++ render_value val ++ post)) = inr (Some (kn_val val), is_quoted val).
Proof.
  intros Hb Hp Hv. destruct val as [v|i]; cbn [render_value kn_val is_quoted].
  - cbn [wf_value] in Hv. apply andb_true_iff in Hv as [Hv _]. apply andb_true_iff in Hv as [Hv He].
    apply kn_read_plain; auto. eapply forallb_impl; [|exact Hv]. intros x Hx.
    apply andb_true_iff in Hx as [Hx H34]. apply andb_true_iff in Hx as [Hx _]. now rewrite Hx, H34.
  - now apply kn_read_quoted.
Qed.

(* ---------- value_of for class N ---------- *)
Lemma kn_value_of_seen dl (d0 : str) :
  d0 <> [] -> value_of dl false false true d0 = kn_rd (drop_while isspace d0).
Proof. destruct d0 as [|c r]; [congruence|]. reflexivity. Qed.

Lemma kn_value_of_unseen dl (d0 : str) :
  d0 <> [] ->
  value_of dl false false false d0 =
  match drop_while isspace d0 with
  | c :: r => if mem c dl then kn_rd (drop_while isspace r) else inl ECONF_MISSING_DELIMITER
  | [] => inl ECONF_MISSING_DELIMITER
  end.
Proof.
  destruct d0 as [|c0 r0]; [congruence|]. intros _. unfold value_of, kn_rd. cbn [negb andb].
  destruct (drop_while isspace (c0 :: r0)) as [|c r]; [reflexivity|].
  destruct (mem c dl); reflexivity.
Qed.

(* ---------- parse_kv on "key, stop character, rest" ---------- *)
Lemma kn_parse_kv_shape dl cm s org b0 (key : str) (c : N) (r : str) :
  key <> [] -> forallb (fun x => negb (key_stop dl x)) key = true -> key_stop dl c = true ->
  is_mixed dl = false ->
  parse_kv std_opts dl cm s org b0 (key ++ c :: r) =
  if negb (mem c dl || existsb (fun x => mem x dl) r) && last_line_is s (p_line s)
  then PCont (store_append false s (cont_text std_opts cm org) (p_line s))
  else match value_of dl false (has_wsp dl) (mem c dl) r with
       | inl e => PStop e s
       | inr (v, q) => PCont (store_new s key v (p_line s) q)
       end.
Proof.
  intros Hne Hk Hc Hm. unfold parse_kv. cbv zeta.
  rewrite (take_while_app_stop _ key c r Hk) by (now rewrite Hc).
  rewrite kn_skipn_length_app, Hm.
  destruct key as [|k0 key']; [congruence|]. reflexivity.
Qed.

(* ---------- delimiter characters of class N ---------- *)
Lemma kn_classN dl : class_of dl = ClassN -> has_wsp dl = false /\ is_mixed dl = false.
Proof.
  intros H. rewrite mixed_class, H. split; [|reflexivity].
  unfold class_of in H. destruct dl as [|c r]; [discriminate|].
  destruct (has_wsp (c :: r)); [|reflexivity]. destruct (has_nonwsp (c :: r)); discriminate.
Qed.

Lemma kn_nowsp_mem dl x : has_wsp dl = false -> mem x dl = true -> isspace x = false.
Proof.
  unfold has_wsp. intros H Hm. apply mem_In in Hm.
  destruct (isspace x) eqn:E; [|reflexivity].
  assert (existsb isspace dl = true) by (apply existsb_exists; eauto). congruence.
Qed.

Lemma kn_space_notmem dl x : has_wsp dl = false -> isspace x = true -> mem x dl = false.
Proof.
  intros H Hx. destruct (mem x dl) eqn:E; [|reflexivity].
  rewrite (kn_nowsp_mem dl x H E) in Hx. discriminate.
Qed.

Lemma kn_dl_chars dl cm d :
  dl_ok dl cm = true -> has_wsp dl = false -> mem d dl = true ->
  isspace d = false /\ tchar d = true /\ d <> 34 /\ mem d cm = false.
Proof.
  intros Hdl Hw Hm. pose proof (kn_nowsp_mem dl d Hw Hm) as Hs. split; [exact Hs|].
  unfold dl_ok in Hdl. rewrite forallb_forall in Hdl. apply mem_In in Hm.
  specialize (Hdl d Hm). apply andb_true_iff in Hdl as [H1 H2]. apply negb_true_iff in H2.
  apply orb_true_iff in H1 as [H1|H1].
  - rewrite (isblank_isspace d H1) in Hs. discriminate.
  - apply andb_true_iff in H1 as [H1 _]. apply andb_true_iff in H1 as [H1 _].
    apply andb_true_iff in H1 as [H1 H34].
    repeat split; auto. intros ->. discriminate.
Qed.

(* ---------- parse_kv on a class N key line ---------- *)
Lemma kn_parse_kv_N dl cm s org b0 (k : kline) (d : N) :
  class_of dl = ClassN -> dl_ok dl cm = true ->
  kl_d k = Some d -> wf_kline dl cm k = true ->
  parse_kv std_opts dl cm s org b0
    (kl_key k ++ kl_b1 k ++ d :: kl_b2 k ++ render_value (kl_val k) ++ kl_post k) =
  PCont (store_new s (kl_key k) (val_of dl k) (p_line s) (is_quoted (kl_val k))).
Proof.
  intros Hcls Hdl Hd Hwf.
  destruct (kn_classN dl Hcls) as [Hwsp Hmix].
  destruct k as [ind key b1 od b2 val post tc]. cbn [kl_key kl_b1 kl_d kl_b2 kl_val kl_post] in *. subst od.
  unfold wf_kline, wf_sep in Hwf. rewrite Hcls in Hwf.
  cbn [kl_indent kl_key kl_b1 kl_d kl_b2 kl_val kl_post kl_tc] in Hwf.
  apply andb_true_iff in Hwf as [Hwf Hvt]. apply andb_true_iff in Hvt as [Hval Htc].
  apply andb_true_iff in Hwf as [Hwf Hpost]. apply andb_true_iff in Hwf as [Hwf Hsep].
  apply andb_true_iff in Hwf as [Hind Hkey]. apply andb_true_iff in Hsep as [Hsep Hmd].
  apply andb_true_iff in Hsep as [Hb1 Hb2].
  destruct (kn_dl_chars dl cm d Hdl Hwsp Hmd) as (Hds & _).
  unfold wf_key in Hkey. apply andb_true_iff in Hkey as [Hk0 Hkey].
  assert (Hne : key <> []) by (destruct key; [discriminate|congruence]).
  assert (Hks : forallb (fun x => negb (key_stop dl x)) key = true).
  { eapply forallb_impl; [|exact Hkey]. intros x Hx. apply andb_true_iff in Hx as [Hx _].
    apply andb_true_iff in Hx as [Hx _]. apply andb_true_iff in Hx as [Hx H1].
    unfold key_stop. rewrite (tchar_not_space x Hx). apply negb_true_iff in H1. now rewrite H1. }
  destruct b1 as [|x b1'].
  - cbn [app].
    rewrite (kn_parse_kv_shape dl cm s org b0 key d _ Hne Hks) by (unfold key_stop; now rewrite Hmd, orb_true_r || exact Hmix).
    rewrite Hmd, Hwsp. cbn [orb negb andb].
    destruct (b2 ++ render_value val ++ post) as [|y data] eqn:E.
    + cbn [value_of]. apply app_eq_nil in E as [-> E]. apply app_eq_nil in E as [E ->].
      destruct val as [v|i]; [|discriminate]. cbn [render_value] in E. subst v.
      unfold val_of, after_sep. cbn. rewrite Hcls. reflexivity.
    + rewrite kn_value_of_seen by discriminate. rewrite <- E.
      rewrite (kn_read_value dl cm b2 val post Hb2 Hpost Hval).
      replace (val_of dl (mkKL ind key [] (Some d) b2 val post tc)) with (Some (kn_val val)); [reflexivity|].
      unfold val_of, after_sep. cbn [kl_val kl_b1 kl_b2 kl_post kl_d]. rewrite E, Hcls.
      destruct val as [[|c v]|i]; reflexivity.
  - unfold blanks in Hb1. cbn [forallb] in Hb1. apply andb_true_iff in Hb1 as [Hx Hb1].
    pose proof (isblank_isspace x Hx) as Hxs.
    pose proof (kn_space_notmem dl x Hwsp Hxs) as Hxm.
    rewrite <- app_comm_cons.
    rewrite (kn_parse_kv_shape dl cm s org b0 key x _ Hne Hks) by (unfold key_stop; now rewrite Hxs || exact Hmix).
    rewrite Hxm, Hwsp. rewrite existsb_app. cbn [existsb]. rewrite Hmd, orb_true_r. cbn [orb negb andb].
    rewrite kn_value_of_unseen by (destruct b1'; discriminate).
    rewrite (drop_blanks_then b1' _ d Hb1 Hds). rewrite Hmd.
    rewrite (kn_read_value dl cm b2 val post Hb2 Hpost Hval).
    replace (val_of dl (mkKL ind key (x :: b1') (Some d) b2 val post tc)) with (Some (kn_val val)); [reflexivity|].
    unfold val_of, after_sep. cbn [kl_val kl_b1 kl_b2 kl_post kl_d]. rewrite Hcls.
    destruct val as [[|c v]|i]; try reflexivity.
    destruct b1'; reflexivity.
Qed.

(* ---------- from parse_line to parse_kv ---------- *)
Lemma kn_to_entry dl cm s (ind body : str) (c : N) (r : str) :
  body = c :: r -> blanks ind = true -> nonzero body = true ->
  isspace c = false -> mem c cm = false ->
  parse_line std_opts dl cm s ((ind ++ body) ++ [10]) =
  parse_entry std_opts dl cm (bump s) ((ind ++ body) ++ [10]) (hd 0 (ind ++ body)) body.
Proof.
  intros -> Hi Hnz Hs Hm.
  rewrite parse_line_body by (now rewrite nonzero_app, (nonzero_blanks ind Hi), Hnz).
  rewrite (drop_blanks_then ind r c Hi Hs), Hm.
  destruct ind; reflexivity.
Qed.

Lemma kn_entry_to_kv dl cm s org b0 (pre : str) (tc : option (byte * str)) (c : N) (r : str) :
  p_cav s = None -> keys_only dl = false -> pre = c :: r -> c <> 91 ->
  (let '(nm, di, cav) := comment_loop dl cm (pre ++ render_tc tc) None in
   cstr nm = pre /\ cav = option_map snd tc) ->
  parse_entry std_opts dl cm s org b0 (pre ++ render_tc tc) =
  parse_kv std_opts dl cm (with_cav s (option_map snd tc)) org b0 pre.
Proof.
  intros Hcav Hko Ep Hc L. rewrite parse_entry_unfold, Hcav.
  destruct (comment_loop dl cm (pre ++ render_tc tc) None) as [[nm di] cav].
  destruct L as [Lv Lc]. cbn zeta. rewrite Lv, Lc, Hko. subst pre.
  generalize (section_line (with_cav s (option_map snd tc))). intros F.
  destruct c as [|p]; [reflexivity|].
  do 7 (destruct p as [p|p|]; try reflexivity). congruence.
Qed.

(* ---------- the comment loop on a key line ---------- *)
Lemma kn_free34 (s : str) : forallb (fun c => negb (c =? 34)) s = true -> free_of [34] s = true.
Proof.
  unfold free_of. apply forallb_impl. intros x Hx. cbn [mem]. rewrite orb_false_r.
  now rewrite N.eqb_sym.
Qed.

Lemma kn_tc_ok cm tc : wf_tc cm tc = true -> tc_ok cm tc = true.
Proof.
  destruct tc as [[c t]|]; [|reflexivity]. cbn [wf_tc tc_ok]. intros H.
  apply andb_true_iff in H as [Hc Ht]. rewrite Hc. cbn [andb].
  assert (H1 : free_of cm t = true).
  { unfold free_of. eapply forallb_impl; [|exact Ht]. intros x Hx.
    apply andb_true_iff in Hx as [Hx _]. now apply andb_true_iff in Hx as [_ Hx]. }
  assert (H2 : free_of [34] t = true).
  { apply kn_free34. eapply forallb_impl; [|exact Ht]. intros x Hx.
    now apply andb_true_iff in Hx as [_ Hx]. }
  assert (H3 : nonzero t = true).
  { apply nonzero_tb. eapply forallb_impl; [|exact Ht]. intros x Hx.
    apply andb_true_iff in Hx as [Hx _]. now apply andb_true_iff in Hx as [Hx _]. }
  now rewrite H1, H2, H3.
Qed.

Lemma kn_loop dl cm (a : str) (val : value) (post : str) (tc : option (byte * str)) :
  cm_ok cm = true -> a <> [] -> nonzero a = true -> free_of cm a = true -> free_of [34] a = true ->
  blanks post = true -> wf_value dl cm val = true -> wf_tc cm tc = true ->
  let '(nm, di, cav) := comment_loop dl cm ((a ++ render_value val ++ post) ++ render_tc tc) None in
  cstr nm = a ++ render_value val ++ post /\ cav = option_map snd tc.
Proof.
  intros Hcm Ha Hnz Hfc Hfq Hpost Hval Htc.
  pose proof (kn_tc_ok cm tc Htc) as Htc'.
  destruct val as [v|i]; cbn [render_value].
  - cbn [wf_value] in Hval. apply andb_true_iff in Hval as [Hval _]. apply andb_true_iff in Hval as [Hv _].
    apply comment_loop_plain_corrected_noquote_cm; auto.
    + destruct a; [congruence|discriminate].
    + rewrite !nonzero_app, Hnz, (nonzero_blanks post Hpost), andb_true_r. cbn [andb].
      apply nonzero_tb. eapply forallb_impl; [|exact Hv]. intros x Hx.
      apply andb_true_iff in Hx as [Hx _]. now apply andb_true_iff in Hx as [Hx _].
    + rewrite !free_of_app, Hfc, (free_of_cm_blanks cm post Hcm Hpost), andb_true_r. cbn [andb].
      unfold free_of. eapply forallb_impl; [|exact Hv]. intros x Hx.
      apply andb_true_iff in Hx as [Hx _]. now apply andb_true_iff in Hx as [_ Hx].
    + rewrite !free_of_app, Hfq, (free_quote_blanks post Hpost), andb_true_r. cbn [andb].
      apply kn_free34. eapply forallb_impl; [|exact Hv]. intros x Hx.
      now apply andb_true_iff in Hx as [_ Hx].
    + now apply free_of_cm_zero.
    + now apply free_of_cm_quote.
  - cbn [wf_value] in Hval.
    replace (a ++ (34 :: i ++ [34]) ++ post) with (a ++ 34 :: i ++ 34 :: post)
      by (rewrite <- app_comm_cons, <- app_assoc; reflexivity).
    apply (comment_loop_quoted dl cm a i post tc); auto.
    + rewrite !nonzero_app, Hnz, (nonzero_blanks post Hpost), andb_true_r. cbn [andb].
      apply nonzero_tb. eapply forallb_impl; [|exact Hval]. intros x Hx.
      now apply andb_true_iff in Hx as [Hx _].
    + apply kn_free34. eapply forallb_impl; [|exact Hval]. intros x Hx.
      now apply andb_true_iff in Hx as [_ Hx].
    + now apply free_of_cm_blanks.
    + now apply free_quote_blanks.
    + now apply free_of_cm_zero.
    + now apply free_of_cm_quote.
Qed.

(* ---------- the key line, class N ---------- *)
Lemma key_line_ok_N dl cm prev s k :
  cm_ok cm = true -> dl_ok dl cm = true -> class_of dl = ClassN ->
  wf_line dl cm prev (LKey k) = true -> Inv prev s ->
  parse_line std_opts dl cm s (render_line (LKey k)) = PCont (exp_step dl s (LKey k)) /\
  Inv true (exp_step dl s (LKey k)).
Proof.
  intros Hcm Hdl Hcls Hwf HI.
  split.
  2:{ split; [reflexivity|]. cbn [exp_step p_rev p_line]. eexists. eexists. split; reflexivity. }
  cbn [wf_line] in Hwf. pose proof Hwf as Hwf0.
  destruct (kn_classN dl Hcls) as [Hwsp Hmix].
  destruct k as [ind key b1 od b2 val post tc].
  unfold wf_kline, wf_sep in Hwf. rewrite Hcls in Hwf.
  cbn [kl_indent kl_key kl_b1 kl_d kl_b2 kl_val kl_post kl_tc] in Hwf.
  apply andb_true_iff in Hwf as [Hwf Hvt]. apply andb_true_iff in Hvt as [Hval Htc].
  apply andb_true_iff in Hwf as [Hwf Hpost]. apply andb_true_iff in Hwf as [Hwf Hsep].
  apply andb_true_iff in Hwf as [Hind Hkey]. apply andb_true_iff in Hsep as [Hsep Hmd].
  apply andb_true_iff in Hsep as [Hb1 Hb2].
  destruct od as [d|]; [|discriminate].
  destruct (kn_dl_chars dl cm d Hdl Hwsp Hmd) as (Hds & Hdt & Hd34 & Hdcm).
  unfold wf_key in Hkey. apply andb_true_iff in Hkey as [Hk0 Hkey].
  (* facts about the key *)
  assert (Hk_t : forallb tchar key = true).
  { eapply forallb_impl; [|exact Hkey]. intros x Hx. apply andb_true_iff in Hx as [Hx _].
    apply andb_true_iff in Hx as [Hx _]. now apply andb_true_iff in Hx as [Hx _]. }
  assert (Hk_cm : free_of cm key = true).
  { unfold free_of. eapply forallb_impl; [|exact Hkey]. intros x Hx. apply andb_true_iff in Hx as [Hx _].
    now apply andb_true_iff in Hx as [_ Hx]. }
  assert (Hk_q : free_of [34] key = true).
  { apply kn_free34. eapply forallb_impl; [|exact Hkey]. intros x Hx. now apply andb_true_iff in Hx as [_ Hx]. }
  assert (Hk_nz : nonzero key = true).
  { unfold nonzero. eapply forallb_impl; [|exact Hk_t]. intros x Hx. now rewrite tchar_nonzero. }
  assert (Hk_ns : forallb (fun c => negb (isspace c)) key = true).
  { eapply forallb_impl; [|exact Hk_t]. intros x Hx. now rewrite tchar_not_space. }
  (* the text before the value *)
  set (a := key ++ b1 ++ d :: b2).
  assert (Ha_ne : a <> []) by (unfold a; destruct key; [discriminate|discriminate]).
  assert (Ha_nz : nonzero a = true).
  { unfold a. rewrite !nonzero_app, Hk_nz, (nonzero_blanks b1 Hb1), nonzero_cons,
      (tchar_nonzero d Hdt), (nonzero_blanks b2 Hb2). reflexivity. }
  assert (Ha_cm : free_of cm a = true).
  { unfold a. rewrite !free_of_app, Hk_cm, (free_of_cm_blanks cm b1 Hcm Hb1), free_of_cons, Hdcm,
      (free_of_cm_blanks cm b2 Hcm Hb2). reflexivity. }
  assert (Ha_q : free_of [34] a = true).
  { unfold a. rewrite !free_of_app, Hk_q, (free_quote_blanks b1 Hb1), free_of_cons,
      (free_quote_blanks b2 Hb2), andb_true_r. cbn [andb mem]. rewrite orb_false_r.
      apply negb_true_iff. apply N.eqb_neq. congruence. }
  pose proof (kn_loop dl cm a val post tc Hcm Ha_ne Ha_nz Ha_cm Ha_q Hpost Hval Htc) as L.
  set (pre := key ++ b1 ++ d :: b2 ++ render_value val ++ post).
  assert (Epre : a ++ render_value val ++ post = pre).
  { unfold a, pre. rewrite <- !app_assoc, <- app_comm_cons. reflexivity. }
  rewrite Epre in L.
  assert (Hex : exists k0 key', key = k0 :: key' /\ negb (k0 =? 91) = true).
  { destruct key as [|k0 key']; [discriminate|]. eauto. }
  destruct Hex as (k0 & key' & Ekey & Hk0').
  assert (Hk0t : tchar k0 = true).
  { rewrite Ekey in Hk_t. cbn [forallb] in Hk_t. now apply andb_true_iff in Hk_t as [Hk_t _]. }
  assert (Hk0cm : mem k0 cm = false).
  { rewrite Ekey in Hk_cm. rewrite free_of_cons in Hk_cm. apply andb_true_iff in Hk_cm as [Hk_cm _].
    now apply negb_true_iff in Hk_cm. }
  assert (Hk091 : k0 <> 91).
  { apply negb_true_iff in Hk0'. now apply N.eqb_neq in Hk0'. }
  assert (Epre' : pre = k0 :: key' ++ b1 ++ d :: b2 ++ render_value val ++ post).
  { unfold pre. rewrite Ekey. reflexivity. }
  unfold render_line, nl. cbn [render_body kl_indent kl_key kl_b1 kl_d kl_b2 kl_val kl_post kl_tc].
  replace (ind ++ key ++ b1 ++ [d] ++ b2 ++ render_value val ++ post ++ render_tc tc)
    with (ind ++ (pre ++ render_tc tc)).
  2:{ unfold pre. cbn [app]. rewrite <- !app_assoc, <- app_comm_cons, <- !app_assoc. reflexivity. }
  assert (Hpre_nz : nonzero pre = true).
  { rewrite <- Epre. rewrite !nonzero_app, Ha_nz, (nonzero_blanks post Hpost), andb_true_r. cbn [andb].
    destruct val as [v|i]; cbn [render_value].
    - cbn [wf_value] in Hval. apply andb_true_iff in Hval as [Hval _]. apply andb_true_iff in Hval as [Hv _].
      apply nonzero_tb. eapply forallb_impl; [|exact Hv]. intros x Hx.
      apply andb_true_iff in Hx as [Hx _]. now apply andb_true_iff in Hx as [Hx _].
    - cbn [wf_value] in Hval. rewrite nonzero_cons, nonzero_app. cbn [N.eqb negb andb nonzero forallb].
      rewrite andb_true_r. apply nonzero_tb. eapply forallb_impl; [|exact Hval]. intros x Hx.
      now apply andb_true_iff in Hx as [Hx _]. }
  rewrite (kn_to_entry dl cm s ind (pre ++ render_tc tc) k0 _
             (f_equal (fun z => z ++ render_tc tc) Epre') Hind).
  2:{ rewrite nonzero_app, Hpre_nz. cbn [andb].
      pose proof (kn_tc_ok cm tc Htc) as T. destruct tc as [[c t]|]; [|reflexivity].
      cbn [tc_ok] in T. apply andb_true_iff in T as [T T3]. apply andb_true_iff in T as [T _].
      apply andb_true_iff in T as [T _]. cbn [render_tc]. rewrite nonzero_cons, T3.
      now rewrite (tchar_nonzero c (cm_ok_tchar cm c Hcm T)). }
  2:{ now apply tchar_not_space. }
  2:{ exact Hk0cm. }
  destruct HI as [Hcav HIl].
  rewrite (kn_entry_to_kv dl cm (bump s) _ _ pre tc k0 _ Hcav
             ltac:(rewrite (keys_only_class dl cm Hdl), Hcls; reflexivity) Epre' Hk091 L).
  unfold pre.
  rewrite (kn_parse_kv_N dl cm _ _ _ (mkKL ind key b1 (Some d) b2 val post tc) d Hcls Hdl eq_refl Hwf0).
  cbn [kl_key kl_val]. unfold store_new, with_cav, bump, exp_step.
  cbn [p_rev p_groups p_cur p_cbk p_cav p_line kl_key kl_val kl_tc].
  now rewrite (kn_key_trim_nospace key Hk_ns).
Qed.
