(* OptionLaws.v — an item given twice acts as its last occurrence: stated
   outright on the documented meaning of option strings (OptionSpec.v). *)
From Coq Require Import String Lia List.
From Econf Require Import Bytes BytesFacts OptionSpec.
Local Open Scope N_scope.

Definition same_kind (i j : item) : bool :=
  match i, j with
  | IJoin _, IJoin _ | IPython _, IPython _ | IParsingDirs _, IParsingDirs _
  | IConfigDirs _, IConfigDirs _ | IRootPrefix _, IRootPrefix _ => true
  | _, _ => false
  end.

Lemma apply_overrides kf i j : same_kind i j = true -> apply_item (apply_item kf i) j = apply_item kf j.
Proof. destruct i, j; simpl; intros H; try discriminate; reflexivity. Qed.

Lemma apply_comm kf i j : same_kind i j = false ->
  apply_item (apply_item kf i) j = apply_item (apply_item kf j) i.
Proof. destruct i, j; simpl; intros H; try discriminate; reflexivity. Qed.

Lemma drop_earlier : forall mid kf i j, same_kind i j = true ->
  fold_left apply_item (mid ++ [j]) (apply_item kf i) = fold_left apply_item (mid ++ [j]) kf.
Proof.
  induction mid as [|m mid IH]; intros kf i j H; simpl.
  - now apply apply_overrides.
  - destruct (same_kind i m) eqn:E.
    + now rewrite apply_overrides.
    + rewrite apply_comm by exact E. now apply IH.
Qed.

(* an earlier occurrence of an item that is given again later has no effect *)
Lemma options_last_occurrence pre mid post i j : same_kind i j = true ->
  options_meaning (pre ++ i :: mid ++ j :: post) = options_meaning (pre ++ mid ++ j :: post).
Proof.
  intros H. unfold options_meaning.
  replace (pre ++ i :: mid ++ j :: post) with (pre ++ [i] ++ (mid ++ [j]) ++ post)
    by (simpl; now rewrite <- app_assoc).
  replace (pre ++ mid ++ j :: post) with (pre ++ (mid ++ [j]) ++ post)
    by (now rewrite <- app_assoc).
  rewrite (fold_left_app _ pre), (fold_left_app _ [i]), (fold_left_app _ (mid ++ [j]) post).
  rewrite (fold_left_app _ pre (_ ++ post)), (fold_left_app _ (mid ++ [j]) post).
  change (fold_left apply_item [i] (fold_left apply_item pre new_empty))
    with (apply_item (fold_left apply_item pre new_empty) i).
  rewrite drop_earlier by exact H. reflexivity.
Qed.

(* items of different kinds do not interfere: their order is irrelevant *)
Lemma options_swap pre post i j : same_kind i j = false ->
  options_meaning (pre ++ i :: j :: post) = options_meaning (pre ++ j :: i :: post).
Proof.
  intros H. unfold options_meaning. rewrite !fold_left_app. simpl. now rewrite apply_comm.
Qed.

Example last_occurrence_demo :
  options_meaning [IParsingDirs [bs "/a"; bs "/b"]; IJoin true; IParsingDirs [bs "/c"]] =
  options_meaning [IJoin true; IParsingDirs [bs "/c"]] /\
  kf_parse_dirs (options_meaning [IParsingDirs [bs "/a"; bs "/b"]; IJoin true; IParsingDirs [bs "/c"]]) = [bs "/c"].
Proof. vm_compute. split; reflexivity. Qed.
