(* Scenario.v — the operations of the public API as one step function over a
   store of named objects, so that histories are folds.  The same command
   language is executed by harness/econf_driver.c against the library. *)
From Coq Require Import String.
From Econf Require Export NumericModel WriterModel.
Local Open Scope N_scope.

Inductive vkind := KString | KInt | KInt64 | KUInt | KUInt64 | KBool | KFloat | KDouble.

(* a default value handed to a get*ValueDef call *)
(* DText: the decimal text of a float/double default (the harness converts it with strtof/strtod) *)
Inductive defval := DStr (s : option str) | DInt (z : Z) | DBool (b : bool) | DText (t : str) | DNone.

Inductive cmd :=
| CNewKeyfile (o : nat) (d c : byte)
| CNewIni (o : nat)
| CNewEmpty (o : nat)
| CParse (o : nat) (path content dl cm : str) (python join : bool)
| CSet (o : nat) (kd : vkind) (g k : option str) (text : option str) (z : Z)
| CGet (o : nat) (kd : vkind) (g k : option str) (def : defval)
| CGetExt (o : nat) (g k : option str)
| CGroups (o : nat)
| CKeys (o : nat) (g : option str)
| CMerge (dst a b : nat)
| CWrite (o : nat)
| CReread (dst src : nat)
| CDump (o : nat)
| CGetAll (o : nat)
| CPath (o : nat)
| CTags (o : nat)
| CSetTags (o : nat) (d c : byte)
| CFree (o : nat)
| CErrString (n : N)
| COpts (o : nat).

Inductive out :=
| ORc (e : econf_err)
| OStr (e : econf_err) (v : option str)
| OInt (e : econf_err) (z : Z)
| OBool (e : econf_err) (b : bool)
| OText (dbl : bool) (e : econf_err) (v : option str)   (* float/double getters: the stored text, for the oracle *)
| OList (e : econf_err) (l : list str)
| OExt (e : econf_err) (x : extval)
| OBytes (e : econf_err) (b : str)
| ODump (kf : keyfile)
| OTags (d c : byte)
| OParse (e : econf_err) (line : N) (file : str)
| OAll (l : list out)
| ORead (e : econf_err) (valid : bool) (checked : list (str * bool)) (opened : list str)
| OHist (e : econf_err) (files : list keyfile) (checked : list (str * bool)) (opened : list str)
| OLoc (file : str) (line : N)
| OOpts (join python : bool) (parse_dirs conf_dirs : list str) (root_prefix : option str)
| ONoObj.

Definition store := list (nat * keyfile).

Fixpoint sget (s : store) (o : nat) : option keyfile :=
  match s with
  | [] => None
  | (o', kf) :: s' => if Nat.eqb o o' then Some kf else sget s' o
  end.

Fixpoint sdel (s : store) (o : nat) : store :=
  match s with
  | [] => []
  | (o', kf) :: s' => if Nat.eqb o o' then sdel s' o else (o', kf) :: sdel s' o
  end.

Definition sput (s : store) (o : nat) (kf : keyfile) : store := (o, kf) :: sdel s o.

(* what the typed setter stores *)
Definition set_text (kd : vkind) (text : option str) (z : Z) : setres :=
  match kd with
  | KString => SetTo (match text with Some t => t | None => [] end)
  | KBool => bool_set_text text
  | KInt | KInt64 | KUInt | KUInt64 => SetTo (fmt_dec z)
  | KFloat | KDouble => SetTo (match text with Some t => t | None => [] end)
  end.

(* the value found by the econf_getValue macro's lookup *)
Definition lookup_value (kf : keyfile) (g k : option str) : econf_err + option str :=
  match lookup kf g k with inl e => inl e | inr e => inr (e_value e) end.

(* what a typed getter makes of the stored text *)
Definition convert (kd : vkind) (v : option str) : out :=
  match kd with
  | KString => OStr ECONF_SUCCESS v
  | KBool => match bool_get_text v with inr b => OBool ECONF_SUCCESS b | inl e => ORc e end
  | KInt => match get_signed_text 32 v with inr z => OInt ECONF_SUCCESS z | inl e => ORc e end
  | KInt64 => match get_signed_text 64 v with inr z => OInt ECONF_SUCCESS z | inl e => ORc e end
  | KUInt => match get_unsigned_text 32 v with inr z => OInt ECONF_SUCCESS z | inl e => ORc e end
  | KUInt64 => match get_unsigned_text 64 v with inr z => OInt ECONF_SUCCESS z | inl e => ORc e end
  | KFloat => match get_float_text v with inr t => OText false ECONF_SUCCESS (Some t) | inl e => ORc e end
  | KDouble => match get_float_text v with inr t => OText true ECONF_SUCCESS (Some t) | inl e => ORc e end
  end.

(* econf_get*Value and econf_get*ValueDef: the default is handed out exactly
   when the lookup answers ECONF_NOKEY, and the code stays ECONF_NOKEY *)
Definition typed_out (kd : vkind) (r : econf_err + option str) (def : defval) : out :=
  match r with
  | inr v => convert kd v
  | inl ECONF_NOKEY =>
      match kd, def with
      | KString, DStr d => OStr ECONF_NOKEY d
      | KBool, DBool d => OBool ECONF_NOKEY d
      | (KInt | KInt64 | KUInt | KUInt64), DInt d => OInt ECONF_NOKEY d
      | KFloat, DText d => OText false ECONF_NOKEY (Some d)
      | KDouble, DText d => OText true ECONF_NOKEY (Some d)
      | _, _ => ORc ECONF_NOKEY
      end
  | inl e => ORc e
  end.

Definition kstep_get (kf : keyfile) (kd : vkind) (g k : option str) (def : defval) : out :=
  typed_out kd (lookup_value kf g k) def.

Definition all_kinds : list vkind :=
  [KString; KInt; KInt64; KUInt; KUInt64; KBool; KFloat; KDouble].

(* every listing and every getter on every listed key *)
Definition all_queries (kf : keyfile) : list out :=
  let glist := match get_groups kf with inr l => l | inl _ => [] end in
  let groups := None :: map Some glist in
  (match get_groups kf with inr l => OList ECONF_SUCCESS l | inl e => ORc e end) ::
  flat_map (fun g =>
    match get_keys kf g with
    | inl e => [ORc e]
    | inr ks =>
        OList ECONF_SUCCESS ks ::
        flat_map (fun k =>
          map (fun kd => kstep_get kf kd g (Some k) DNone) all_kinds ++
          [match get_ext kf g (Some k) with inr x => OExt ECONF_SUCCESS x | inl e => ORc e end]) ks
    end) groups.

(* one API call on one object: new object state and what the caller sees.
   Getters thread the object through as well. *)
Definition kstep (kf : keyfile) (c : cmd) : keyfile * out :=
  match c with
  | CSet _ kd g k text z =>
      let '(kf', e) := set_value kf g k (set_text kd text z) in (kf', ORc e)
  | CGet _ kd g k def => (kf, kstep_get kf kd g k def)
  | CGetExt _ g k =>
      (kf, match get_ext kf g k with inr x => OExt ECONF_SUCCESS x | inl e => ORc e end)
  | CGroups _ =>
      (kf, match get_groups kf with inr l => OList ECONF_SUCCESS l | inl e => ORc e end)
  | CKeys _ g =>
      (kf, match get_keys kf g with inr l => OList ECONF_SUCCESS l | inl e => ORc e end)
  | CWrite _ => (kf, OBytes ECONF_SUCCESS (write_model kf))
  | CDump _ => (kf, ODump kf)
  | CGetAll _ => (kf, OAll (all_queries kf))
  | CPath _ => (kf, OStr ECONF_SUCCESS (Some (get_path kf)))
  | CTags _ => (kf, OTags (kf_delim kf) (kf_comment kf))
  | COpts _ => (kf, OOpts (kf_join kf) (kf_python kf) (kf_parse_dirs kf) (kf_conf_dirs kf) (kf_root_prefix kf))
  | CSetTags _ d c' => (set_tags kf d c', ORc ECONF_SUCCESS)
  | _ => (kf, ONoObj)
  end.

Definition abs_path (p : str) : str :=
  match p with 47 :: _ => p | _ => 47 :: p end.

Definition step (s : store) (c : cmd) : store * out :=
  match c with
  | CNewKeyfile o d c' => (sput s o (new_keyfile d c'), ORc ECONF_SUCCESS)
  | CNewIni o => (sput s o new_ini, ORc ECONF_SUCCESS)
  | CNewEmpty o => (sput s o new_empty, ORc ECONF_SUCCESS)
  | CParse o path content dl cm py jn =>
      let r := read_bytes (mkPopts py jn) dl cm content in
      match r_err r with
      | ECONF_SUCCESS =>
          let base := mkKF [] 0 [] 0 0 None jn py [] [] None in
          (sput s o (keyfile_of_read base (abs_path path) dl cm r), OParse ECONF_SUCCESS (r_lines r) [])
      | e => (sdel s o, OParse e (r_lines r) (abs_path path))
      end
  | CMerge dst a b =>
      match sget s a, sget s b with
      | Some ka, Some kb => (sput s dst (merge_model ka kb), ORc ECONF_SUCCESS)
      | _, _ => (s, ORc ECONF_ERROR)
      end
  | CFree o => (sdel s o, ORc ECONF_SUCCESS)
  | CErrString n => (s, OStr ECONF_SUCCESS (Some (err_string n)))
  | CReread dst src =>
      (* econf_writeFile, then econf_readFile of that file with the object's own tags *)
      match sget s src with
      | Some kf =>
          (* the tags as C strings: a NUL tag is the empty string *)
          let dls := if kf_delim kf =? 0 then [] else [kf_delim kf] in
          let cms := if kf_comment kf =? 0 then [] else [kf_comment kf] in
          let r := read_bytes (mkPopts false false) dls cms (write_model kf) in
          match r_err r with
          | ECONF_SUCCESS =>
              (sput s dst (keyfile_of_read new_empty (bs "/_out/w.conf") dls cms r),
               OParse ECONF_SUCCESS (r_lines r) [])
          | e => (sdel s dst, OParse e (r_lines r) (bs "/_out/w.conf"))
          end
      | None => (s, ONoObj)
      end
  | CSet o _ _ _ _ _ | CGet o _ _ _ _ | CGetExt o _ _ | CGroups o | CKeys o _
  | CWrite o | CDump o | CGetAll o | CPath o | CTags o | COpts o | CSetTags o _ _ =>
      match sget s o with
      | Some kf => let '(kf', r) := kstep kf c in (sput s o kf', r)
      | None =>
          (* the call is made with a NULL object *)
          (s, match c with
              | CSet _ _ _ _ _ _ => ORc ECONF_FILE_LIST_IS_NULL
              | CGet _ _ _ _ _ | CGetExt _ _ _ | CGroups _ | CKeys _ _ | CWrite _ => ORc ECONF_ERROR
              | CTags _ => OTags 0 0
              | CSetTags _ _ _ => ORc ECONF_SUCCESS
              | _ => ONoObj
              end)
      end
  end.

Fixpoint run (s : store) (cs : list cmd) : list out :=
  match cs with
  | [] => []
  | c :: cs' => let '(s', r) := step s c in r :: run s' cs'
  end.
