(* LedgerModel.v — C20: the layered readers re-instrumented at object
   granularity.  Every econf_file that the C code creates gets a fresh
   identifier ([LAlloc]); every econf_free / econf_freeFile of an object is
   logged ([LFree]).  The control flow — which failure frees what, where —
   follows lib/readconfig.c, lib/mergefiles.c, lib/getfilecontents.c and the
   wrappers of lib/libeconf.c as they are now (after the repair of the leaked
   drop-in object).  Definitions only. *)
From Coq Require Import String.
From Econf Require Export LayeredModel.
Local Open Scope N_scope.

Inductive lev := LAlloc (id : nat) | LFree (id : nat).

Record ledger := mkL { l_next : nat; l_evs : list lev }.
Definition ledger0 : ledger := mkL 0 [].
Definition lalloc (l : ledger) : nat * ledger := (l_next l, mkL (S (l_next l)) (l_evs l ++ [LAlloc (l_next l)])).
Definition lfree (l : ledger) (id : nat) : ledger := mkL (l_next l) (l_evs l ++ [LFree id]).
Definition lfree_opt (l : ledger) (o : option nat) : ledger :=       (* econf_free(NULL) is a no-op *)
  match o with Some id => lfree l id | None => l end.

(* what read_file_with_callback does with the object it was given *)
Inductive gate_kind :=
| GOk                       (* filled: stays with the caller of the gate *)
| GEarly (e : econf_err)    (* refused before read_file: the object is untouched, still the caller's *)
| GParse (e : econf_err).   (* read_file failed: the gate freed the object and NULLed the pointer *)

Definition gate_stage (t : tree) (g : globals) (cb : callback) (o : popts) (path dl cm : str) : gate_kind :=
  match go_res (gate t g cb o path dl cm) with
  | inr _ => GOk
  | inl e =>
      (* the failure comes from read_file exactly when the callback stage was passed *)
      match fs_lstat t path with
      | None => GEarly e
      | Some n =>
          if sec_nolinks (g_sec g) && is_link n then GEarly e
          else if match sec_owner (g_sec g) with Some u => negb (node_uid n =? u) | None => false end then GEarly e
          else if match sec_group (g_sec g) with Some u => negb (node_gid n =? u) | None => false end then GEarly e
          else if match perm_refusal (g_sec g) t path n with Some _ => true | None => false end then GEarly e
          else if match cb with Some f => negb (f path) | None => false end then GEarly e
          else GParse e
      end
  end.

(* the globals after a gate passage, as LayeredModel threads them *)
Definition gate_g (t : tree) (g : globals) (cb : callback) (o : popts) (path dl cm : str) : globals :=
  let r := gate t g cb o path dl cm in with_err g (go_errfile r) (go_errline r).

(* main-file loop of readConfigHistoryWithCallback: [cur] is key_file *)
Fixpoint main_ledger (t : tree) (g : globals) (cb : callback) (o : popts) (dirs_rev : list str)
         (name sfx dl cm : str) (cur : option nat) (l : ledger)
  : (econf_err + option nat) * globals * ledger :=
  match dirs_rev with
  | [] => (inr None, g, lfree_opt l cur)                 (* not found: econf_free(key_file) *)
  | d :: rest =>
      let '(id, l1) := match cur with Some id => (id, l) | None => lalloc l end in
      let p := d ++ 47 :: name ++ sfx in
      let g' := gate_g t g cb o p dl cm in
      match gate_stage t g cb o p dl cm with
      | GOk => (inr (Some id), g', l1)
      | GEarly ECONF_NOFILE => main_ledger t g' cb o rest name sfx dl cm (Some id) l1
      | GParse ECONF_NOFILE => main_ledger t g' cb o rest name sfx dl cm None (lfree l1 id)
      | GEarly e => (inl e, g', lfree l1 id)               (* econf_free(key_file); return *)
      | GParse e => (inl e, g', lfree l1 id)               (* freed by the gate; econf_free(NULL) *)
      end
  end.

(* check_conf_dir over the names of one directory; [acc]: the list built so far *)
Fixpoint names_ledger (t : tree) (g : globals) (cb : callback) (o : popts) (dir sfx dl cm : str)
         (names : list str) (acc : list nat) (l : ledger)
  : (econf_err * list nat + list nat) * globals * ledger :=
  match names with
  | [] => (inr acc, g, l)
  | nm :: rest =>
      if Nat.ltb (length sfx) (length nm) && is_suffix sfx nm then
        let '(id, l1) := lalloc l in
        let p := dir ++ 47 :: nm in
        let g' := gate_g t g cb o p dl cm in
        match gate_stage t g cb o p dl cm with
        | GOk => names_ledger t g' cb o dir sfx dl cm rest (acc ++ [id]) l1
        | GEarly e => (inl (e, acc), g', lfree l1 id)       (* the repaired leak: econf_free(key_file) *)
        | GParse e => (inl (e, acc), g', lfree l1 id)
        end
      else names_ledger t g cb o dir sfx dl cm rest acc l
  end.

Fixpoint dropins_ledger (t : tree) (g : globals) (cb : callback) (o : popts) (dirs : list str)
         (sfx dl cm : str) (acc : list nat) (l : ledger)
  : (econf_err * list nat + list nat) * globals * ledger :=
  match dirs with
  | [] => (inr acc, g, l)
  | dir :: rest =>
      match fs_scandir t dir with
      | None => dropins_ledger t g cb o rest sfx dl cm acc l
      | Some names =>
          match names_ledger t g cb o dir sfx dl cm names acc l with
          | (inr acc', g', l') => dropins_ledger t g' cb o rest sfx dl cm acc' l'
          | (inl e, g', l') => (inl e, g', l')
          end
      end
  end.

(* readConfigHistoryWithCallback: the identifiers of the consulted files, or
   an error after which everything it created has been released *)
Definition history_ledger (t : tree) (g : globals) (cb : callback) (o : popts)
           (parse_dirs conf_dirs : list str) (name : option str) (sfx : option str) (dl cm : str) (l : ledger)
  : (econf_err + list nat) * ledger :=
  match name with
  | None => (inl ECONF_ERROR, l)
  | Some nm =>
      let sx := match nm with [] => [] | _ => norm_suffix sfx end in
      let '(mainr, g1, l1) :=
        match nm with
        | [] => (inr None, g, l)
        | _ => main_ledger t g cb o (rev parse_dirs) nm sx dl cm None l
        end in
      match mainr with
      | inl e => (inl e, l1)
      | inr m =>
          let acc := match m with Some id => [id] | None => [] end in
          match dropins_ledger t g1 cb o (dropin_dirs parse_dirs conf_dirs nm sx) sx dl cm acc l1 with
          | (inl (e, collected), _, l2) => (inl e, fold_left lfree collected l2)   (* error: every collected file is freed *)
          | (inr [], _, l2) => (inl ECONF_NOFILE, l2)
          | (inr ids, _, l2) => (inr ids, l2)
          end
      end
  end.

(* merge_econf_files over identifiers; [masks]: for each remaining file whether a later one hides it *)
Fixpoint merge_ledger (cur : nat) (files : list (nat * bool)) (l : ledger) : nat * ledger :=
  match files with
  | [] => (cur, l)
  | (f, hidden) :: rest =>
      if hidden then merge_ledger cur rest (lfree l f)
      else
        let '(m, l1) := lalloc l in                      (* econf_mergeFiles allocates the result *)
        merge_ledger m rest (lfree (lfree l1 cur) f)      (* the old result and the merged file go *)
  end.

Record led_out := mkLO {
  lo_err : econf_err;
  lo_owned : list nat;        (* what the caller holds afterwards and has to free *)
  lo_ledger : ledger }.

(* the masks of a consulted list, from the model's own files *)
Fixpoint masks_of (files : list keyfile) : list bool :=
  match files with
  | [] => []
  | f :: rest => masked f rest :: masks_of rest
  end.

(* readConfigWithCallback on an options object [obj_id] the caller owns *)
Definition read_obj_ledger (t : tree) (g : globals) (cb : callback) (obj : keyfile) (obj_id : nat)
           (name sfx : option str) (dl cm : str) (l : ledger) : led_out :=
  let cds := match kf_conf_dirs obj with [] => g_conf_dirs g | x => x end in
  let o := mkPopts (kf_python obj) (kf_join obj) in
  match history_ledger t g cb o (kf_parse_dirs obj) cds name sfx dl cm l with
  | (inl e, l1) => mkLO e [obj_id] l1                          (* the object stays with the caller *)
  | (inr ids, l1) =>
      let l2 := lfree l1 obj_id in                               (* econf_free( *result) *)
      match ids, ho_res (history t g cb o (kf_parse_dirs obj) cds name sfx dl cm) with
      | first :: rest, inr (f0 :: files) =>
          let '(res, l3) := merge_ledger first (combine rest (masks_of files)) l2 in
          mkLO ECONF_SUCCESS [res] l3
      | _, _ => mkLO ECONF_ERROR [] l2
      end
  end.

(* econf_readDirs*: creates the options object itself; on error it is left to the caller *)
Definition read_dirs_ledger (t : tree) (g : globals) (cb : callback) (dist etc name sfx : option str) (dl cm : str) : led_out :=
  let '(id, l) := lalloc ledger0 in
  let obj := mkKF [] 0 [] 0 0 None false false [str_or_empty dist; str_or_empty etc] [] None in
  read_obj_ledger t g cb obj id name sfx dl cm l.

(* econf_readConfig* called with *key_file == NULL: what it created is released again on error *)
Definition read_config_ledger (t : tree) (g : globals) (cb : callback) (parse_dirs : list str)
           (name sfx : option str) (dl cm : str) : led_out :=
  let '(id, l) := lalloc ledger0 in
  let obj := mkKF [] 0 [] 0 0 None false false parse_dirs [] None in
  let r := read_obj_ledger t g cb obj id name sfx dl cm l in
  match lo_err r with
  | ECONF_SUCCESS => r
  | e => mkLO e [] (fold_left lfree (lo_owned r) (lo_ledger r))
  end.

(* econf_readDirsHistory*: the list goes to the caller *)
Definition history_api_ledger (t : tree) (g : globals) (cb : callback) (dist etc name sfx : option str) (dl cm : str) : led_out :=
  match history_ledger t g cb (mkPopts false false) [str_or_empty dist; str_or_empty etc] (g_conf_dirs g) name sfx dl cm ledger0 with
  | (inl e, l) => mkLO e [] l
  | (inr ids, l) => mkLO ECONF_SUCCESS ids l
  end.

(* ---------- what "released exactly once" means ---------- *)
Definition allocs (l : ledger) : list nat := flat_map (fun e => match e with LAlloc i => [i] | _ => [] end) (l_evs l).
Definition frees (l : ledger) : list nat := flat_map (fun e => match e with LFree i => [i] | _ => [] end) (l_evs l).

Fixpoint nodupb (l : list nat) : bool :=
  match l with [] => true | x :: r => negb (existsb (Nat.eqb x) r) && nodupb r end.

(* every identifier allocated once; freed at most once and only if allocated;
   what is neither freed nor handed to the caller: nothing *)
Definition balanced (r : led_out) : bool :=
  let a := allocs (lo_ledger r) in
  let f := frees (lo_ledger r) in
  nodupb a && nodupb f && forallb (fun x => existsb (Nat.eqb x) a) f &&
  nodupb (lo_owned r) &&
  forallb (fun x => existsb (Nat.eqb x) a && negb (existsb (Nat.eqb x) f)) (lo_owned r) &&
  forallb (fun x => existsb (Nat.eqb x) f || existsb (Nat.eqb x) (lo_owned r)) a.
