(* Statements to be proved in MergeFacts.v (no Admitted, no axioms). *)
From Coq Require Import String Lia.
From Econf Require Import Bytes BytesFacts MergeSpec.
Local Open Scope N_scope.

(* a section the base has: its bindings in base order, each overridden by the
   override's visible binding; keys only the override has follow, in override
   order.  (The one excluded case — base has group-less keys but does not lead
   with them while the override does — is covered by merge_lookup.) *)
Theorem merge_section : forall b o g,
  has_group b g = true -> ~ (g = none_s /\ nogroup_first b o = true) ->
  proj' (merge_entries b o) g = al_override (proj' b g) (proj' o g).

(* a section only the override has is taken over as it is *)
Theorem merge_new_section : forall b o g,
  has_group b g = false -> proj' (merge_entries b o) g = proj' o g.

(* the visible value of every (section, key): the override's, else the base's *)
Theorem merge_lookup : forall b o g k,
  vis (merge_entries b o) g k = match vis o g k with Some v => Some v | None => vis b g k end.

(* the result array is never written beyond length(base) + length(override) *)
Theorem merge_bound : forall b o, (length (merge_entries b o) <= length b + length o)%nat.

(* the base's keys keep their relative order *)
Theorem merge_base_order : forall b o, subseq gk_eqb (map gk b) (map gk (merge_entries b o)) = true.

(* sections: the base's in their order, then those only the override has *)
Theorem merge_sections : forall b o,
  named (groups_of (merge_entries b o)) =
  named (groups_of b) ++ filter (fun g => negb (mem_str g (named (groups_of b)))) (named (groups_of o)).

(* nothing else appears *)
Theorem merge_nothing_else : forall b o e,
  In e (merge_entries b o) -> exists x, In x (b ++ o) /\ gk x = gk e.

(* group-less keys lead *)
Theorem merge_nogroup_first : forall b o, chk_nogroup_first b o = true.
