(* MapLaws.v — further algebraic laws of the reference ordered map (MapSpec.v):
   overwrite, no-op set, commutation of sets on different keys, size.  They
   carry over to the C object through KeyfileFacts.krun_refines (C11). *)
From Coq Require Import String Lia.
From Econf Require Import Bytes BytesFacts MapSpec KeyfileFacts.
Local Open Scope N_scope.

(* the last write wins and the binding keeps its position *)
Lemma al_set_set_same l k v v' : al_set (al_set l k v) k v' = al_set l k v'.
Proof.
  induction l as [|[k0 v0] l IH]; simpl.
  - now rewrite str_eqb_refl.
  - destruct (str_eqb k0 k) eqn:E; simpl; rewrite E; [reflexivity|]. now rewrite IH.
Qed.

(* setting the value a key already has changes nothing, position included *)
Lemma al_set_get_id l k v : al_get l k = Some v -> al_set l k v = l.
Proof.
  induction l as [|[k0 v0] l IH]; simpl; [discriminate|].
  destruct (str_eqb k0 k) eqn:E.
  - intros H. injection H as ->. reflexivity.
  - intros H. now rewrite IH.
Qed.

(* sets on different keys commute unless both keys are new (then the order of
   the two appended bindings is the order of the calls) *)
Lemma al_set_comm l k v k' v' :
  k <> k' -> (al_get l k <> None \/ al_get l k' <> None) ->
  al_set (al_set l k v) k' v' = al_set (al_set l k' v') k v.
Proof.
  intros Hn. induction l as [|[k0 v0] l IH]; simpl.
  - intros [H|H]; congruence.
  - destruct (str_eqb k0 k) eqn:E; destruct (str_eqb k0 k') eqn:E'; simpl; rewrite ?E, ?E'.
    + apply str_eqb_eq in E. apply str_eqb_eq in E'. congruence.
    + reflexivity.
    + reflexivity.
    + intros H. now rewrite IH.
Qed.

Example al_set_comm_needs_presence :
  al_set (al_set [] [97] None) [98] None <> al_set (al_set [] [98] None) [97] None.
Proof. vm_compute. discriminate. Qed.

(* a set never removes or duplicates: the size grows by one exactly for a new key *)
Lemma al_set_length l k v :
  length (al_set l k v) = match al_get l k with Some _ => length l | None => S (length l) end.
Proof.
  induction l as [|[k0 v0] l IH]; simpl; [reflexivity|].
  destruct (str_eqb k0 k) eqn:E; simpl; [reflexivity|]. rewrite IH. now destruct (al_get l k).
Qed.

(* the bindings of other keys keep their relative order and values *)
Lemma al_set_filter_other l k v :
  filter (fun b => negb (str_eqb (fst b) k)) (al_set l k v) =
  filter (fun b => negb (str_eqb (fst b) k)) l.
Proof.
  induction l as [|[k0 v0] l IH]; simpl.
  - now rewrite str_eqb_refl.
  - destruct (str_eqb k0 k) eqn:E; simpl; rewrite E; simpl; [reflexivity|]. now rewrite IH.
Qed.

(* sections are independent: a set in one section leaves every other section's
   bindings untouched *)
Lemma sp_set_other_section a g k v g' : g' <> g -> sp_binds (sp_set a g k v) g' = sp_binds a g'.
Proof.
  intros H. unfold sp_set. simpl. replace (str_eqb g' g) with false; [reflexivity|].
  symmetry. now apply str_eqb_neq.
Qed.

Lemma sp_set_same_section a g k v : sp_binds (sp_set a g k v) g = al_set (sp_binds a g) k v.
Proof. unfold sp_set. simpl. now rewrite str_eqb_refl. Qed.
