(* Properties_C15.v — C15: parsing options do what they say.  Proofs: OptionFacts.v. *)
From Coq Require Import String Lia List.
From Econf Require Import Bytes BytesFacts OptionSpec CommentLoop LineBase OptionFacts OptionLaws Generated_facts.
Local Open Scope N_scope.

(* an option string made of documented items (in any order, repeated or not)
   is accepted and every item has its documented effect, an item given twice
   acting as its last occurrence *)
Theorem C15_options_ok : forall items,
  items <> [] -> forallb item_ok items = true ->
  new_with_options (Some (render_options items)) = (ECONF_SUCCESS, options_meaning items).
Proof. exact options_ok. Qed.
Print Assumptions C15_options_ok.

(* "an item given twice acts as its last occurrence", outright (OptionLaws.v):
   an earlier occurrence of an item that is given again later has no effect at
   all - for the list-valued items too, whatever the lengths of the two lists -
   and items of different kinds do not interfere *)
Theorem C15_last_occurrence : forall pre mid post i j, same_kind i j = true ->
  options_meaning (pre ++ i :: mid ++ j :: post) = options_meaning (pre ++ mid ++ j :: post).
Proof. exact options_last_occurrence. Qed.
Print Assumptions C15_last_occurrence.
Theorem C15_kinds_independent : forall pre post i j, same_kind i j = false ->
  options_meaning (pre ++ i :: j :: post) = options_meaning (pre ++ j :: i :: post).
Proof. exact options_swap. Qed.
Print Assumptions C15_kinds_independent.

(* an item with an unknown (or misspelt) name is answered with option-not-found *)
Theorem C15_options_unknown : forall texts,
  join_with [59] texts <> [] -> forallb (fun t => negb (mem 59 t)) texts = true ->
  existsb (fun t => negb (documented_text t)) texts = true ->
  fst (new_with_options (Some (join_with [59] texts))) = ECONF_OPTION_NOT_FOUND.
Proof. exact options_unknown. Qed.
Print Assumptions C15_options_unknown.

Theorem C15_options_absent :
  new_with_options None = (ECONF_SUCCESS, new_empty) /\ new_with_options (Some []) = (ECONF_SUCCESS, new_empty).
Proof. exact options_absent. Qed.
Print Assumptions C15_options_absent.

(* the option names the source recognises today (regenerated on every run) *)
Theorem C15_option_names :
  gen_options_exact = ["JOIN_SAME_ENTRIES=1"; "PYTHON_STYLE=1"; "JOIN_SAME_ENTRIES=0"; "PYTHON_STYLE=0"]%string /\
  gen_options_prefix = ["PARSING_DIRS="; "CONFIG_DIRS="; "ROOT_PREFIX="]%string.
Proof. split; reflexivity. Qed.
Print Assumptions C15_option_names.

(* JOIN_SAME_ENTRIES: the value lines of a key defined several times are those
   of all its definitions since its last empty definition, in file order *)
Theorem C15_join : forall es g k,
  match first_value (join_same_entries es) g k with
  | Some v => value_lines v = expected_join es g k
  | None => defs_of es g k = []
  end.
Proof. exact join_values. Qed.
Print Assumptions C15_join.

(* without the option the first definition wins *)
Theorem C15_nojoin_first : forall es g k,
  first_value es g k = match defs_of es g k with d :: _ => Some d | [] => None end.
Proof. exact nojoin_first. Qed.
Print Assumptions C15_nojoin_first.

(* PYTHON_STYLE: an indented line directly after an entry continues its value
   with the indentation removed, even if it contains delimiter or comment
   characters *)
Theorem C15_python_indented : forall dl cm s ind text,
  keys_only dl = false -> is_mixed dl = false ->
  Inv true s ->
  ind <> [] -> forallb isspace ind = true -> nonzero ind = true -> no_nl_ (ind ++ text) = true -> nonzero text = true ->
  (match text with c :: _ => isspace c = false /\ mem c cm = false /\ c <> 91 | [] => False end) ->
  parse_line (mkPopts true false) dl cm s ((ind ++ text) ++ [10]) =
  PCont (store_append true (bump s) (ind ++ text) (p_line s + 1)).
Proof. exact python_indented_continues. Qed.
Print Assumptions C15_python_indented.

Example C15_demo :
  let s := mkPS [mkE none_s (bs "a") (Some (bs "1")) None None 1 false] [none_s] None None None 1 in
  parse_line (mkPopts true false) (bs "=") (bs "#") s (bs "   b = 2 # x" ++ [10]) =
    PCont (mkPS [mkE none_s (bs "a") (Some (bs "1" ++ [10] ++ bs "b = 2 # x")) None None 2 false] [none_s] None None None 2) /\
  parse_line (mkPopts true false) (bs "=") (bs "#") s (bs "b = 2 # x" ++ [10]) =
    PCont (mkPS [mkE none_s (bs "b") (Some (bs "2 # x")) None None 2 false; mkE none_s (bs "a") (Some (bs "1")) None None 1 false] [none_s] None None None 2).
Proof. vm_compute. split; reflexivity. Qed.
