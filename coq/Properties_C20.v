(* Properties_C20.v — C20: every allocation is released exactly once on every
   path, failures included.  PARTIAL: object granularity — each econf_file the
   layered readers create is an identifier in a ledger whose control flow (which
   failure frees what, where) follows the C code (LedgerModel.v); the strings
   inside objects, uninitialised reads and allocator state are runtime
   behaviour, for which AddressSanitizer and the LeakSanitizer check after every
   scenario of the correspondence runs are the instrument.  Proofs: LedgerFacts.v.
   One function is modelled at BLOCK granularity (OptLedger.v):
   econf_newKeyFile_with_options - object, copy of the option string, directory
   arrays and their strings, root prefix. *)
From Coq Require Import String Lia List.
From Econf Require Import Bytes BytesFacts LedgerModel LedgerFacts OptLedger.
Local Open Scope N_scope.

(* for every tree, settings, callback (= every pattern of refusals: missing
   file, rejected callback, restriction, parse error in the n-th drop-in, ...)
   and parameter shape: every object created is freed exactly once or handed to
   the caller; nothing is freed twice or freed without having been created *)
Theorem C20_readDirs_balanced : forall t g cb dist etc name sfx dl cm,
  balanced (read_dirs_ledger t g cb dist etc name sfx dl cm) = true.
Proof. exact read_dirs_balanced. Qed.
Print Assumptions C20_readDirs_balanced.
Theorem C20_readConfig_balanced : forall t g cb parse_dirs name sfx dl cm,
  balanced (read_config_ledger t g cb parse_dirs name sfx dl cm) = true.
Proof. exact read_config_balanced. Qed.
Print Assumptions C20_readConfig_balanced.
Theorem C20_history_balanced : forall t g cb dist etc name sfx dl cm,
  balanced (history_api_ledger t g cb dist etc name sfx dl cm) = true.
Proof. exact history_api_balanced. Qed.
Print Assumptions C20_history_balanced.

(* the out-pointer afterwards: one valid object on success; on failure the
   empty object readDirs created (left to the caller), NULL for readConfig
   called with NULL, nothing for the history *)
Theorem C20_readDirs_owned : forall t g cb dist etc name sfx dl cm,
  let r := read_dirs_ledger t g cb dist etc name sfx dl cm in
  (lo_err r = ECONF_SUCCESS -> length (lo_owned r) = 1%nat) /\ (lo_err r <> ECONF_SUCCESS -> lo_owned r = [0%nat]).
Proof. exact read_dirs_owned. Qed.
Print Assumptions C20_readDirs_owned.
Theorem C20_readConfig_owned : forall t g cb parse_dirs name sfx dl cm,
  let r := read_config_ledger t g cb parse_dirs name sfx dl cm in
  (lo_err r = ECONF_SUCCESS -> length (lo_owned r) = 1%nat) /\ (lo_err r <> ECONF_SUCCESS -> lo_owned r = []).
Proof. exact read_config_owned. Qed.
Print Assumptions C20_readConfig_owned.
Theorem C20_history_owned : forall t g cb dist etc name sfx dl cm,
  lo_err (history_api_ledger t g cb dist etc name sfx dl cm) <> ECONF_SUCCESS ->
  lo_owned (history_api_ledger t g cb dist etc name sfx dl cm) = [].
Proof. exact history_api_owned. Qed.
Print Assumptions C20_history_owned.

(* the instrumented control flow is the reader's own (LayeredModel, which is
   tied to the code by the correspondence runs): same outcome *)
Theorem C20_ledger_matches_reader : forall t g cb dist etc name sfx dl cm,
  lo_err (read_dirs_ledger t g cb dist etc name sfx dl cm) = r2_err (read_dirs t g cb dist etc name sfx dl cm).
Proof. exact read_dirs_ledger_matches. Qed.
Print Assumptions C20_ledger_matches_reader.

(* econf_newKeyFile_with_options at block granularity (OptLedger.v), for every
   option string - documented items in any order and repetition, list items of
   any lengths, an unknown item at any position: after the call (success or
   ECONF_OPTION_NOT_FOUND) the live blocks are exactly those reachable from the
   object handed to the caller, nothing was freed twice, and econf_free of the
   object releases every one of them; the instrumented tokenizer returns the
   code of the model of the function (C15) *)
Theorem C20_options_owned : forall opts e w l,
  new_with_options_led opts = (e, w, l) ->
  balanced (mkLO e (ow_all w) l) = true /\ balanced (mkLO e [] (free_led w l)) = true.
Proof. exact new_with_options_balanced. Qed.
Print Assumptions C20_options_owned.
Theorem C20_options_code : forall opts,
  fst (fst (new_with_options_led opts)) = fst (new_with_options opts).
Proof. exact new_with_options_led_code. Qed.
Print Assumptions C20_options_code.

(* non-vacuity: a parse error in the third consulted file *)
Example C20_demo :
  let t := [([47], NDir 0 0); (bs "/u", NDir 0 0); (bs "/e", NDir 0 0);
            (bs "/u/foo.conf", NFile (bs "k=v" ++ [10]) 0 0);
            (bs "/u/foo.conf.d", NDir 0 0); (bs "/e/foo.conf.d", NDir 0 0);
            (bs "/u/foo.conf.d/a.conf", NFile (bs "k=a" ++ [10]) 0 0);
            (bs "/e/foo.conf.d/b.conf", NFile (bs "[bad" ++ [10]) 0 0)] in
  let r := read_dirs_ledger t globals0 None (Some (bs "/u")) (Some (bs "/e")) (Some (bs "foo")) (Some (bs "conf")) (bs "=") (bs "#") in
  lo_err r = ECONF_MISSING_BRACKET /\ lo_owned r = [0%nat] /\
  l_evs (lo_ledger r) = [LAlloc 0; LAlloc 1; LAlloc 2; LAlloc 3; LFree 3; LFree 1; LFree 2].
Proof. vm_compute. repeat split. Qed.
