(* WriterSpec.v — C07: which objects have an unambiguous textual form
   (DESIGN.md 5.4, [writable]), the conventional file the writer produces for
   them ([ast_of]) and what "reads back identically" means ([vproj]).
   Executable definitions only. *)
From Coq Require Import String.
From Econf Require Export WriterModel Grammar MergeSpec.
Local Open Scope N_scope.

(* delimiter / comment tags the claim is made for *)
Definition tags_ok (d c : byte) : bool :=
  ((d =? 61) || (d =? 58) || (d =? 32)) && ((c =? 35) || (c =? 59)).

(* one continuation line of a stored value: indentation and text *)
Definition cont_split (l : str) : str * str := (take_while isblank l, drop_while isblank l).

Definition writable_value (d c : byte) (e : entry) : bool :=
  match e_value e with
  | None => true
  | Some v =>
      if e_quotes e then forallb (fun x => tb x && negb (x =? 34)) v
      else
        match split_on nl v with
        | [] => true
        | l0 :: conts =>
            wf_value [d] [c] (VPlain l0) &&
            forallb (fun l => let '(ind, text) := cont_split l in wf_cont [d] [c] ind text [] None) conts &&
            (* a multi-line value carries no trailing comment *)
            match conts, e_cav e with
            | _ :: _, Some (_ :: _) => false
            | _, _ => true
            end
        end
  end.

Definition writable_comments (c : byte) (e : entry) : bool :=
  match e_cbk e with
  | Some s => forallb (forallb tb) (split_on nl s)
  | None => true
  end &&
  match e_cav e with
  | Some (x :: r) =>
      match split_on nl (x :: r) with
      | [] => true
      | l1 :: more => wf_tc [c] (Some (c, l1)) && forallb (forallb tb) more
      end
  | _ => true
  end.

Definition writable_group (c : byte) (g : str) : bool :=
  str_eqb g none_s || wf_section [c] [] g [].

Definition writable_entry (d c : byte) (e : entry) : bool :=
  wf_key [d] [c] (e_key e) && writable_group c (e_group e) &&
  writable_value d c e && writable_comments c e.

Definition writable (kf : keyfile) : bool :=
  tags_ok (kf_delim kf) (kf_comment kf) &&
  forallb (writable_entry (kf_delim kf) (kf_comment kf)) (kf_entries kf).

(* ---------- the file the writer produces, as an AST ---------- *)
Definition comment_ast (ind : str) (c : byte) (text : option str) : list cline :=
  match text with
  | Some (x :: r) => map (fun l => LComment ind c l) (split_on nl (x :: r))
  | _ => []
  end.

Definition entry_ast (d c : byte) (e : entry) : list cline :=
  let b1 := if d =? 32 then [32] else [] in
  let dd := if d =? 32 then None else Some d in
  let cavs := match e_cav e with Some (x :: r) => split_on nl (x :: r) | _ => [] end in
  let '(post, tc, tail) :=
    match cavs with
    | [] => ([], None, [])
    | l1 :: more => ([32], Some (c, l1), map (fun l => LComment [32] c l) more ++ [LBlank []])
    end in
  comment_ast [] c (e_cbk e) ++
  match e_value e with
  | None => [LKey (mkKL [] (e_key e) b1 dd [] (VPlain []) post tc)]
  | Some v =>
      if e_quotes e then [LKey (mkKL [] (e_key e) b1 dd [] (VQuoted v) post tc)]
      else match split_on nl v with
           | [] => [LKey (mkKL [] (e_key e) b1 dd [] (VPlain []) post tc)]
           | l0 :: conts =>
               LKey (mkKL [] (e_key e) b1 dd [] (VPlain l0) post tc) ::
               map (fun l => let '(ind, text) := cont_split l in LCont ind text [] None) conts
           end
  end ++ tail.

Fixpoint pass_ast (d c : byte) (want_none : bool) (es : list entry) (last : option str)
  : list cline * option str :=
  match es with
  | [] => ([], last)
  | e :: es' =>
      if Bool.eqb (is_none e) want_none then
        let hdr := match last with
                   | Some g => if str_eqb g (e_group e) then []
                               else LBlank [] :: (if is_none e then [] else [LSection [] (e_group e) []])
                   | None => if is_none e then [] else [LSection [] (e_group e) []]
                   end in
        let '(out, last') := pass_ast d c want_none es' (Some (e_group e)) in
        (hdr ++ entry_ast d c e ++ out, last')
      else pass_ast d c want_none es' last
  end.

Definition ast_of (kf : keyfile) : list cline :=
  let '(a1, l1) := pass_ast (kf_delim kf) (kf_comment kf) true (kf_entries kf) None in
  let '(a2, _) := pass_ast (kf_delim kf) (kf_comment kf) false (kf_entries kf) l1 in
  a1 ++ a2.

(* ---------- what must be preserved ---------- *)
(* per section: keys in order with their text; a missing value and the empty text are the same *)
Definition vproj (es : list entry) (g : str) : list (str * str) :=
  map (fun e => (e_key e, match e_value e with Some v => v | None => [] end))
      (filter (fun e => str_eqb (e_group e) g) es).

Definition reread (kf : keyfile) : read_out :=
  read_bytes (mkPopts false false) [kf_delim kf] [kf_comment kf] (write_model kf).

Fixpoint pairs_eqb (a b : list (str * str)) : bool :=
  match a, b with
  | [], [] => true
  | (k, v) :: a', (k', v') :: b' => str_eqb k k' && str_eqb v v' && pairs_eqb a' b'
  | _, _ => false
  end.

(* boolean sanity checks (used by the drivers, shape of the theorems) *)
Definition chk_render (kf : keyfile) : bool := str_eqb (write_model kf) (render (ast_of kf)).
Definition chk_wf (kf : keyfile) : bool := wf_file [kf_delim kf] [kf_comment kf] (ast_of kf).
Definition chk_roundtrip (kf : keyfile) : bool :=
  let r := reread kf in
  err_eqb (r_err r) ECONF_SUCCESS &&
  forallb (fun g => pairs_eqb (vproj (r_entries r) g) (vproj (kf_entries kf) g))
          (none_s :: groups_of (kf_entries kf) ++ r_groups r).
