(* Properties_C11.v — C11: the set/get/list API behaves as an ordered map
   from (section, key) to text.  Statements only; proofs are in KeyfileFacts.v *)
From Coq Require Import String.
From Econf Require Import Bytes BytesFacts MapSpec KeyfileFacts MapLaws.
Local Open Scope N_scope.

(* Every history of set / get / get-with-default / list calls on an object
   yields exactly the results of the reference ordered map (MapSpec.v), and
   the final object still abstracts to the reference's final state.  The
   history is unbounded; growth beyond the pre-allocated entries (kf_spare) is
   invisible because the reference has no such notion. *)
Theorem C11_refines : forall cs kf,
  forallb map_cmd cs = true -> wf_kf kf ->
  krun kf cs = srun (abs kf) cs /\ refines (kfinal kf cs) (sfinal (abs kf) cs).
Proof.
  intros cs kf Hc Hwf.
  destruct (krun_refines cs kf (abs kf) Hc Hwf (refines_abs kf)) as (H1 & _ & H3). auto.
Qed.
Print Assumptions C11_refines.

(* the starting points named by the property are well-formed *)
Theorem C11_start_newKeyFile : forall d c, wf_kf (new_keyfile d c).
Proof. exact wf_new_keyfile. Qed.
Print Assumptions C11_start_newKeyFile.
Theorem C11_start_with_options : wf_kf new_empty.
Proof. exact wf_new_empty. Qed.
Print Assumptions C11_start_with_options.

(* laws of the reference: a set creates or replaces exactly one binding *)
Theorem C11_get_after_set : forall l k v, al_get (al_set l k v) k = Some v.
Proof. exact al_get_set_same. Qed.
Print Assumptions C11_get_after_set.
Theorem C11_get_after_other_set : forall l k v k', k' <> k -> al_get (al_set l k v) k' = al_get l k'.
Proof. exact al_get_set_other. Qed.
Print Assumptions C11_get_after_other_set.
Theorem C11_keys_after_set : forall l k v,
  map fst (al_set l k v) = match al_get l k with Some _ => map fst l | None => map fst l ++ [k] end.
Proof. exact al_set_keys. Qed.
Print Assumptions C11_keys_after_set.

(* from a fresh object no section ever lists a key twice *)
Theorem C11_nodup : forall cs d c g,
  NoDup (map fst (sp_binds (sfinal (abs (new_keyfile d c)) cs) g)).
Proof. intros cs d c g. apply sfinal_nodup. apply abs_fresh_nodup. Qed.
Print Assumptions C11_nodup.

(* section argument: brackets are ignored, absent and empty mean group-less *)
Theorem C11_brackets : forall g,
  forallb (fun c => negb (c =? 93)) g = true ->
  sec_of (Some (91 :: g ++ [93])) = sec_of (Some g) \/ hd 0 g = 91.
Proof.
  intros g H. destruct (N.eq_dec (hd 0 g) 91) as [E|E]; [now right|left].
  unfold sec_of, strip_opt, option_map.
  rewrite strip_brackets_bracketed by exact H. now rewrite strip_brackets_plain.
Qed.
Print Assumptions C11_brackets.
Theorem C11_groupless : sec_of None = none_s /\ sec_of (Some []) = none_s.
Proof. split; reflexivity. Qed.
Print Assumptions C11_groupless.

(* calls without key or with an empty key are refused and change nothing *)
Theorem C11_refused_set : forall kf o kd g text z k,
  k = None \/ k = Some [] -> kstep kf (CSet o kd g k text z) = (kf, ORc ECONF_EMPTYKEY).
Proof. intros kf o kd g text z k [-> | ->]; reflexivity. Qed.
Print Assumptions C11_refused_set.
Theorem C11_refused_get : forall kf o kd g def k,
  k = None \/ k = Some [] -> kstep kf (CGet o kd g k def) = (kf, ORc ECONF_ERROR).
Proof. intros kf o kd g def k [-> | ->]; reflexivity. Qed.
Print Assumptions C11_refused_get.

(* a defaulted get hands out the default exactly when the key is absent *)
Theorem C11_default_string : forall r d,
  typed_out KString r (DStr d) =
  match r with
  | inl ECONF_NOKEY => OStr ECONF_NOKEY d
  | inl e => ORc e
  | inr v => OStr ECONF_SUCCESS v
  end.
Proof. intros [e|v] d; [destruct e|]; reflexivity. Qed.
Print Assumptions C11_default_string.

(* further laws of the reference (MapLaws.v): the last write wins in place, a
   set of the current value is a no-op, sets on different keys commute unless
   both keys are new, the size grows by one exactly for a new key, the other
   bindings keep order and value, and sections are independent *)
Theorem C11_overwrite : forall l k v v', al_set (al_set l k v) k v' = al_set l k v'.
Proof. exact al_set_set_same. Qed.
Print Assumptions C11_overwrite.
Theorem C11_set_current_value : forall l k v, al_get l k = Some v -> al_set l k v = l.
Proof. exact al_set_get_id. Qed.
Print Assumptions C11_set_current_value.
Theorem C11_sets_commute : forall l k v k' v',
  k <> k' -> (al_get l k <> None \/ al_get l k' <> None) ->
  al_set (al_set l k v) k' v' = al_set (al_set l k' v') k v.
Proof. exact al_set_comm. Qed.
Print Assumptions C11_sets_commute.
Theorem C11_size_after_set : forall l k v,
  length (al_set l k v) = match al_get l k with Some _ => length l | None => S (length l) end.
Proof. exact al_set_length. Qed.
Print Assumptions C11_size_after_set.
Theorem C11_others_untouched : forall l k v,
  filter (fun b => negb (str_eqb (fst b) k)) (al_set l k v) =
  filter (fun b => negb (str_eqb (fst b) k)) l.
Proof. exact al_set_filter_other. Qed.
Print Assumptions C11_others_untouched.
Theorem C11_sections_independent : forall a g k v g',
  g' <> g -> sp_binds (sp_set a g k v) g' = sp_binds a g'.
Proof. exact sp_set_other_section. Qed.
Print Assumptions C11_sections_independent.

(* non-vacuity: a history that creates, overwrites, misses and grows beyond
   the eight pre-allocated entries *)
Definition demo_history : list cmd :=
  map (fun i => CSet 0 KString (Some (bs "[A]")) (Some [65 + N.of_nat i]) (Some (bs "v")) 0%Z) (seq 0 10) ++
  [CSet 0 KString (Some (bs "A")) (Some [65]) (Some (bs "w")) 0%Z;
   CGet 0 KString (Some (bs "A")) (Some [65]) DNone;
   CGet 0 KString None (Some [65]) (DStr (Some (bs "dflt")));
   CKeys 0 (Some (bs "A")); CGroups 0].
Example C11_demo :
  forallb map_cmd demo_history = true /\
  nth 11 (krun new_ini demo_history) ONoObj = OStr ECONF_SUCCESS (Some (bs "w")) /\
  nth 12 (krun new_ini demo_history) ONoObj = OStr ECONF_NOKEY (Some (bs "dflt")) /\
  length (kf_entries (kfinal new_ini demo_history)) = 10%nat.
Proof. vm_compute. repeat split. Qed.
