(* ToolFacts.v — facts about the econftool model (ToolModel.v) *)
From Coq Require Import String Lia List.
From Econf Require Import Bytes BytesFacts ToolModel.
Local Open Scope N_scope.

(* ---------- split_arg ---------- *)
Lemma tf_rfind_none : forall c s, mem c s = false -> rfind_idx c s = None.
Proof.
  induction s as [|x s IH]; simpl; intros H; [reflexivity|].
  apply orb_false_iff in H as [H1 H2]. rewrite (IH H2), H1. reflexivity.
Qed.

Lemma tf_rfind_last : forall c b s, mem c s = false -> rfind_idx c (b ++ c :: s) = Some (length b).
Proof.
  induction b as [|x b IH]; intros s H.
  - simpl. rewrite (tf_rfind_none _ _ H), N.eqb_refl. reflexivity.
  - simpl. rewrite (IH _ H). reflexivity.
Qed.

Lemma tf_firstn_app : forall (A : Type) (b r : list A), firstn (length b) (b ++ r) = b.
Proof. induction b as [|x b IH]; intros r; simpl; [destruct r; reflexivity|]. now rewrite IH. Qed.

Lemma tf_skipn_app : forall (A : Type) (b r : list A), skipn (length b) (b ++ r) = r.
Proof. induction b as [|x b IH]; intros r; simpl; [reflexivity|]. apply IH. Qed.

Theorem split_arg_dot : forall b s, mem 46 s = false -> split_arg (b ++ 46 :: s) = Some (b, 46 :: s).
Proof.
  intros b s H. unfold split_arg. rewrite (tf_rfind_last 46 b s H).
  rewrite tf_firstn_app, tf_skipn_app. reflexivity.
Qed.

(* ---------- the listing ---------- *)
Theorem pr_key_file_blocks : forall kf,
  pr_key_file kf = pr_group kf None ++
                   concat (map (fun g => pr_group kf (Some g)) (match get_groups kf with inr l => l | inl _ => [] end)).
Proof.
  intros kf. unfold pr_key_file.
  change (map (pr_group kf) (None :: map Some (match get_groups kf with inr l => l | inl _ => [] end)))
    with (pr_group kf None :: map (pr_group kf) (map Some (match get_groups kf with inr l => l | inl _ => [] end))).
  rewrite map_map. reflexivity.
Qed.

Theorem pr_group_exact : forall kf g ks,
  get_keys kf g = inr ks ->
  pr_group kf g = (match g with Some name => name ++ [nl] | None => [] end) ++ concat (map (pr_key kf g) ks) ++ [nl].
Proof. intros kf g ks H. unfold pr_group. rewrite H. reflexivity. Qed.

Theorem pr_group_prints_key : forall kf g ks k,
  get_keys kf g = inr ks -> In k ks ->
  exists pre post, pr_group kf g = pre ++ pr_key kf g k ++ post.
Proof.
  intros kf g ks k H Hin. rewrite (pr_group_exact kf g ks H).
  apply in_split in Hin as [l1 [l2 ->]].
  exists ((match g with Some name => name ++ [nl] | None => [] end) ++ concat (map (pr_key kf g) l1)).
  exists (concat (map (pr_key kf g) l2) ++ [nl]).
  rewrite map_app, concat_app. cbn [map concat].
  rewrite <- !app_assoc. reflexivity.
Qed.

(* ---------- arguments that are not absolute paths ---------- *)
Lemma tf_not_slash : forall (A : Type) (x y : A) (l : str),
  hd 0 l <> 47 -> match l with 47 :: _ => x | _ => y end = y.
Proof.
  intros A x y l H. destruct l as [|c r]; [reflexivity|].
  destruct c as [|p]; [reflexivity|].
  do 6 (destruct p as [p|p|]; try reflexivity).
  exfalso. apply H. reflexivity.
Qed.

Lemma tf_hd_rel : forall b s, hd 0 (b ++ 46 :: s) <> 47 -> forall (A : Type) (x y : A),
  match b ++ 46 :: s with 47 :: _ => x | _ => y end = y.
Proof. intros b s H A x y. apply tf_not_slash. exact H. Qed.

Lemma tf_tool_read_rel : forall t b s dl cm w,
  mem 46 s = false -> hd 0 (b ++ 46 :: s) <> 47 ->
  tool_read t (b ++ 46 :: s) dl cm w =
  let r := read_dirs t globals0 None (Some usr_root) (Some etc_root) (Some b) (Some (46 :: s)) dl cm in
  match r2_err r, r2_obj r with
  | ECONF_SUCCESS, Some kf =>
      if w then mkTO (pr_header (Some b) (Some (46 :: s)) ++ pr_key_file kf) None 0
      else mkTO [] None 0
  | e, _ => mkTO [] (Some (error_line (r2_g r) e)) minus_one
  end.
Proof.
  intros t b s dl cm w Hs Hh. unfold tool_read.
  rewrite (tf_not_slash _ _ _ _ Hh). rewrite (split_arg_dot b s Hs). reflexivity.
Qed.

Lemma tf_tool_show_some : forall t arg dl cm pr,
  split_arg arg = Some pr -> tool_show t arg dl cm = tool_read t arg dl cm true.
Proof.
  intros t arg dl cm pr H. unfold tool_show.
  destruct arg as [|c r]; [rewrite H; reflexivity|].
  destruct c as [|p]; [rewrite H; reflexivity|].
  do 6 (destruct p as [p|p|]; try (rewrite H; reflexivity); try reflexivity).
Qed.

Lemma tf_tool_show_rel : forall t b s dl cm,
  mem 46 s = false -> hd 0 (b ++ 46 :: s) <> 47 ->
  tool_show t (b ++ 46 :: s) dl cm = tool_read t (b ++ 46 :: s) dl cm true.
Proof.
  intros t b s dl cm Hs Hh. apply (tf_tool_show_some t _ dl cm _ (split_arg_dot b s Hs)).
Qed.

Lemma tf_tool_syntax_some : forall t arg dl cm pr,
  split_arg arg = Some pr -> tool_syntax t arg dl cm = tool_read t arg dl cm false.
Proof.
  intros t arg dl cm pr H. unfold tool_syntax.
  destruct arg as [|c r]; [rewrite H; reflexivity|].
  destruct c as [|p]; [rewrite H; reflexivity|].
  do 6 (destruct p as [p|p|]; try (rewrite H; reflexivity); try reflexivity).
Qed.

Lemma tf_tool_syntax_rel : forall t b s dl cm,
  mem 46 s = false -> hd 0 (b ++ 46 :: s) <> 47 ->
  tool_syntax t (b ++ 46 :: s) dl cm = tool_read t (b ++ 46 :: s) dl cm false.
Proof.
  intros t b s dl cm Hs Hh. apply (tf_tool_syntax_some t _ dl cm _ (split_arg_dot b s Hs)).
Qed.

(* ---------- show ---------- *)
Theorem show_is_library_result : forall t b s dl cm kf,
  mem 46 s = false -> hd 0 (b ++ 46 :: s) <> 47 ->
  let r := read_dirs t globals0 None (Some usr_root) (Some etc_root) (Some b) (Some (46 :: s)) dl cm in
  r2_err r = ECONF_SUCCESS -> r2_obj r = Some kf ->
  tool_show t (b ++ 46 :: s) dl cm = mkTO (pr_header (Some b) (Some (46 :: s)) ++ pr_key_file kf) None 0.
Proof.
  intros t b s dl cm kf Hs Hh r He Ho.
  rewrite (tf_tool_show_rel t b s dl cm Hs Hh), (tf_tool_read_rel t b s dl cm true Hs Hh).
  fold r. cbv zeta. rewrite He, Ho. reflexivity.
Qed.

(* ---------- syntax ---------- *)
Lemma tf_read_config_obj_success : forall t g cb obj name sfx dl cm,
  r2_err (read_config_obj t g cb obj name sfx dl cm) = ECONF_SUCCESS ->
  exists kf, r2_obj (read_config_obj t g cb obj name sfx dl cm) = Some kf.
Proof.
  intros t g cb obj name sfx dl cm. unfold read_config_obj.
  destruct (ho_res _) as [e|files].
  - intros _. eexists. reflexivity.
  - destruct (merge_files files) as [kf|].
    + intros _. eexists. reflexivity.
    + cbn [r2_err]. discriminate.
Qed.

Theorem syntax_exit : forall t b s dl cm,
  mem 46 s = false -> hd 0 (b ++ 46 :: s) <> 47 ->
  let r := read_dirs t globals0 None (Some usr_root) (Some etc_root) (Some b) (Some (46 :: s)) dl cm in
  (r2_err r = ECONF_SUCCESS -> to_exit (tool_syntax t (b ++ 46 :: s) dl cm) = 0) /\
  (r2_err r <> ECONF_SUCCESS ->
     to_exit (tool_syntax t (b ++ 46 :: s) dl cm) = minus_one /\
     to_errline (tool_syntax t (b ++ 46 :: s) dl cm) = Some (error_line (r2_g r) (r2_err r)) /\
     to_stdout (tool_syntax t (b ++ 46 :: s) dl cm) = []).
Proof.
  intros t b s dl cm Hs Hh r.
  rewrite (tf_tool_syntax_rel t b s dl cm Hs Hh), (tf_tool_read_rel t b s dl cm false Hs Hh).
  fold r. cbv zeta. split.
  - intros He.
    destruct (tf_read_config_obj_success _ _ _ _ _ _ _ _ He) as [kf Hk].
    fold (read_dirs t globals0 None (Some usr_root) (Some etc_root) (Some b) (Some (46 :: s)) dl cm) in Hk.
    fold r in Hk. rewrite He, Hk. reflexivity.
  - intros Hne. destruct (r2_err r) eqn:E; try (repeat split; reflexivity).
    exfalso. apply Hne. reflexivity.
Qed.

(* ---------- cat ---------- *)
Theorem cat_lists_history : forall t b s dl cm files,
  mem 46 s = false -> hd 0 (b ++ 46 :: s) <> 47 ->
  ho_res (read_dirs_history t globals0 None (Some usr_root) (Some etc_root) (Some b) (Some (46 :: s)) dl cm) = inr files ->
  tool_cat t (b ++ 46 :: s) dl cm =
  mkTO (pr_header (Some b) (Some (46 :: s)) ++ concat (map pr_key_file files)) None 0.
Proof.
  intros t b s dl cm files Hs Hh H. unfold tool_cat.
  rewrite (tf_not_slash _ _ _ _ Hh). rewrite (split_arg_dot b s Hs).
  cbv zeta. rewrite H. reflexivity.
Qed.

(* ---------- --delimiters ---------- *)
Lemma tf_replace_first_absent : forall c x rep s, mem c s = false -> replace_first (c :: x) rep s = s.
Proof.
  induction s as [|y s IH]; intros H; [reflexivity|].
  cbn [mem] in H. apply orb_false_iff in H as [H1 H2].
  cbn [replace_first is_prefix]. rewrite N.eqb_sym, H1. cbn [andb]. now rewrite (IH H2).
Qed.

(* an argument without a backslash (and other than the word "spaces") reaches the library as it is *)
Theorem cli_delims_plain : forall d, mem 92 d = false -> str_eqb d (bs "spaces") = false -> cli_delims d = d.
Proof.
  intros d H Hs. unfold cli_delims. rewrite Hs.
  now rewrite !(tf_replace_first_absent 92 _ _ d H).
Qed.

(* the first occurrence is replaced, what stands before and behind it is kept *)
Theorem replace_first_at : forall orig rep pre post,
  orig <> [] -> (forall a b, pre = a ++ b -> b <> [] -> is_prefix orig (b ++ orig ++ post) = false) ->
  replace_first orig rep (pre ++ orig ++ post) = pre ++ rep ++ post.
Proof.
  intros orig rep pre post Hne. induction pre as [|c pre IH]; intros Hno.
  - cbn [app]. destruct orig as [|o orig]; [contradiction|].
    cbn [app replace_first].
    assert (Hp : forall p s, is_prefix p (p ++ s) = true).
    { induction p as [|x p IHp]; intros s; [reflexivity|]. cbn [app is_prefix]. now rewrite N.eqb_refl, IHp. }
    change (o :: orig ++ post) with ((o :: orig) ++ post). rewrite Hp.
    f_equal. clear. revert post. generalize (o :: orig) as l. induction l as [|x l IHl]; intros post; [reflexivity|]. cbn [app length skipn]. apply IHl.
  - cbn [app replace_first].
    change (c :: pre ++ orig ++ post) with ((c :: pre) ++ orig ++ post).
    rewrite (Hno [] (c :: pre) eq_refl ltac:(discriminate)).
    cbn [app]. f_equal. apply IH. intros a b -> Hb. apply (Hno (c :: a) b); [reflexivity|assumption].
Qed.
