(* WriterMeaning.v — the meaning of the file the writer produces ([ast_of])
   has, per section, the keys and texts of the object itself. *)
From Coq Require Import String Lia List.
From Econf Require Import Bytes BytesFacts Grammar LineBase WriterSpec.
Local Open Scope N_scope.

Local Opaque none_s.

(* current group of a state, text of an entry *)
Definition wm_cg (s : pstate) : str := match p_cur s with Some g => g | None => none_s end.
Definition wm_txt (e : entry) : str := match e_value e with Some v => v | None => [] end.
Definition wm_otxt (o : option str) : str := match o with Some v => v | None => [] end.

Definition wm_neutral (l : cline) : bool :=
  match l with LBlank _ | LComment _ _ _ => true | _ => false end.

Definition wm_contf (l : str) : cline := let '(ind, text) := cont_split l in LCont ind text [] None.

(* ---------- split / join ---------- *)
Lemma wm_split_join sep s : forall cur,
  concat (map (cons sep) (split_aux sep cur s)) = sep :: rev cur ++ s.
Proof.
  induction s as [|x s IH]; intros cur; cbn [split_aux].
  - cbn [map concat]. rewrite !app_nil_r. reflexivity.
  - destruct (x =? sep) eqn:E.
    + apply N.eqb_eq in E. subst x. cbn [map concat]. rewrite IH. cbn [rev app].
      reflexivity.
    + rewrite IH. cbn [rev]. rewrite <- app_assoc. reflexivity.
Qed.

Lemma wm_split_on_join sep v l0 conts :
  split_on sep v = l0 :: conts -> l0 ++ concat (map (cons sep) conts) = v.
Proof.
  intros H. pose proof (wm_split_join sep v []) as J. unfold split_on in H. rewrite H in J.
  cbn [map concat rev app] in J. injection J as J. exact J.
Qed.

Lemma wm_split_on_nonnil sep v : split_on sep v <> [].
Proof.
  intros H. pose proof (wm_split_join sep v []) as J. unfold split_on in H. rewrite H in J.
  cbn [map concat] in J. discriminate.
Qed.

(* ---------- neutral lines ---------- *)
Lemma wm_fold_neutral dl ls : forall s, forallb wm_neutral ls = true ->
  p_rev (fold_left (exp_step dl) ls s) = p_rev s /\ p_cur (fold_left (exp_step dl) ls s) = p_cur s.
Proof.
  induction ls as [|l ls IH]; intros s H.
  - split; reflexivity.
  - cbn [forallb] in H. apply andb_true_iff in H as [H1 H2]. cbn [fold_left].
    destruct (IH (exp_step dl s l) H2) as [A B]. rewrite A, B.
    destruct l; try discriminate; split; reflexivity.
Qed.

Lemma wm_neutral_map_comment ind c ls : forallb wm_neutral (map (fun l => LComment ind c l) ls) = true.
Proof. induction ls as [|l ls IH]; [reflexivity|]. cbn [map forallb wm_neutral]. exact IH. Qed.

Lemma wm_neutral_comment_ast ind c t : forallb wm_neutral (comment_ast ind c t) = true.
Proof.
  unfold comment_ast. destruct t as [[|x r]|]; try reflexivity. apply wm_neutral_map_comment.
Qed.

(* ---------- continuation lines ---------- *)
Lemma wm_fold_conts dl conts : forall s e0 rest, p_rev s = e0 :: rest ->
  exists e', p_rev (fold_left (exp_step dl) (map wm_contf conts) s) = e' :: rest /\
             e_group e' = e_group e0 /\ e_key e' = e_key e0 /\
             wm_txt e' = wm_txt e0 ++ concat (map (cons nl) conts) /\
             p_cur (fold_left (exp_step dl) (map wm_contf conts) s) = p_cur s.
Proof.
  induction conts as [|l conts IH]; intros s e0 rest H.
  - exists e0. cbn [map fold_left concat]. rewrite app_nil_r. repeat split; auto.
  - cbn [map fold_left].
    destruct s as [rv gs cur cbk cav ln]. cbn [p_rev] in H. subst rv.
    unfold wm_contf at 2 4. unfold cont_split. cbn [exp_step p_rev].
    match goal with |- context [fold_left _ _ ?S] => set (s1 := S) end.
    destruct (IH s1 (mkE (e_group e0) (e_key e0)
                 (Some (match e_value e0 with Some x => x | None => [] end ++
                        nl :: take_while isblank l ++ drop_while isblank l ++ []))
                 (e_cbk e0)
                 (match e_cav e0 with Some x => Some (x ++ [nl]) | None => None end)
                 (ln + 1) (e_quotes e0)) rest eq_refl)
      as (e' & A & B & C & D & E).
    exists e'. rewrite A, B, C, D, E. repeat split; auto.
    unfold wm_txt at 1. cbn [e_value concat map]. rewrite app_nil_r, take_drop_while.
    unfold wm_txt. rewrite <- app_assoc. reflexivity.
Qed.

(* ---------- one block: comments, key line, continuation lines, tail ---------- *)
Lemma wm_block dl pre k conts tail s :
  forallb wm_neutral pre = true -> forallb wm_neutral tail = true ->
  let s' := fold_left (exp_step dl) (pre ++ (LKey k :: map wm_contf conts) ++ tail) s in
  exists e', p_rev s' = e' :: p_rev s /\ e_group e' = wm_cg s /\ e_key e' = kl_key k /\
             wm_txt e' = wm_otxt (val_of dl k) ++ concat (map (cons nl) conts) /\
             p_cur s' = p_cur s.
Proof.
  intros Hp Ht s'. subst s'. rewrite !fold_left_app.
  destruct (wm_fold_neutral dl pre s Hp) as [P1 P2].
  set (s0 := fold_left (exp_step dl) pre s) in *.
  match goal with |- context [fold_left _ tail ?S] => set (s2 := S) end.
  destruct (wm_fold_neutral dl tail s2 Ht) as [T1 T2]. rewrite T1, T2. subst s2.
  cbn [fold_left].
  set (s1 := exp_step dl s0 (LKey k)).
  assert (R : p_rev s1 = mkE (wm_cg s) (kl_key k) (val_of dl k) (p_cbk s0) (option_map snd (kl_tc k))
                            (p_line s0 + 1) (is_quoted (kl_val k)) :: p_rev s).
  { subst s1. cbn [exp_step p_rev]. unfold wm_cg. rewrite P1, P2. reflexivity. }
  assert (Cu : p_cur s1 = p_cur s).
  { subst s1. cbn [exp_step p_cur]. exact P2. }
  destruct (wm_fold_conts dl conts s1 _ _ R) as (e' & A & B & C & D & E).
  exists e'. rewrite A, E, Cu. repeat split; auto.
Qed.

Lemma wm_val_plain dl k l0 : kl_val k = VPlain l0 -> wm_otxt (val_of dl k) = l0.
Proof.
  intros H. unfold val_of. rewrite H. destruct l0 as [|x r]; [|reflexivity].
  destruct (class_of dl); try reflexivity; destruct (after_sep k); reflexivity.
Qed.

Lemma wm_val_quoted dl k v : kl_val k = VQuoted v -> wm_otxt (val_of dl k) = v.
Proof. intros H. unfold val_of. rewrite H. reflexivity. Qed.

(* ---------- one entry ---------- *)
Lemma wm_entry d c e s :
  let s' := fold_left (exp_step [d]) (entry_ast d c e) s in
  exists e', p_rev s' = e' :: p_rev s /\ e_group e' = wm_cg s /\ e_key e' = e_key e /\
             wm_txt e' = wm_txt e /\ p_cur s' = p_cur s.
Proof.
  intros s'. subst s'. unfold entry_ast.
  set (b1 := if d =? 32 then [32] else []).
  set (dd := if d =? 32 then None else Some d).
  pose proof (wm_neutral_comment_ast [] c (e_cbk e)) as Hpre.
  set (pre := comment_ast [] c (e_cbk e)) in *.
  assert (G : forall post tc tail, forallb wm_neutral tail = true ->
    exists e', p_rev (fold_left (exp_step [d])
                 (pre ++ match e_value e with
                         | None => [LKey (mkKL [] (e_key e) b1 dd [] (VPlain []) post tc)]
                         | Some v =>
                             if e_quotes e then [LKey (mkKL [] (e_key e) b1 dd [] (VQuoted v) post tc)]
                             else match split_on nl v with
                                  | [] => [LKey (mkKL [] (e_key e) b1 dd [] (VPlain []) post tc)]
                                  | l0 :: conts =>
                                      LKey (mkKL [] (e_key e) b1 dd [] (VPlain l0) post tc) ::
                                      map (fun l => let '(ind, text) := cont_split l in LCont ind text [] None) conts
                                  end
                         end ++ tail) s) = e' :: p_rev s /\
               e_group e' = wm_cg s /\ e_key e' = e_key e /\ wm_txt e' = wm_txt e /\
               p_cur (fold_left (exp_step [d])
                 (pre ++ match e_value e with
                         | None => [LKey (mkKL [] (e_key e) b1 dd [] (VPlain []) post tc)]
                         | Some v =>
                             if e_quotes e then [LKey (mkKL [] (e_key e) b1 dd [] (VQuoted v) post tc)]
                             else match split_on nl v with
                                  | [] => [LKey (mkKL [] (e_key e) b1 dd [] (VPlain []) post tc)]
                                  | l0 :: conts =>
                                      LKey (mkKL [] (e_key e) b1 dd [] (VPlain l0) post tc) ::
                                      map (fun l => let '(ind, text) := cont_split l in LCont ind text [] None) conts
                                  end
                         end ++ tail) s) = p_cur s).
  { intros post tc tail Ht. unfold wm_txt at 2.
    destruct (e_value e) as [v|].
    - destruct (e_quotes e).
      + destruct (wm_block [d] pre (mkKL [] (e_key e) b1 dd [] (VQuoted v) post tc) [] tail s Hpre Ht)
          as (e' & A & B & C & D & E).
        exists e'. cbn [map] in A, E. rewrite A, E. repeat split; auto.
        rewrite D. rewrite (wm_val_quoted [d] (mkKL [] (e_key e) b1 dd [] (VQuoted v) post tc) v eq_refl). cbn [map concat]. apply app_nil_r.
      + destruct (split_on nl v) as [|l0 conts] eqn:Hs.
        * exfalso. exact (wm_split_on_nonnil nl v Hs).
        * destruct (wm_block [d] pre (mkKL [] (e_key e) b1 dd [] (VPlain l0) post tc) conts tail s Hpre Ht)
            as (e' & A & B & C & D & E).
          exists e'. change (map (fun l => let '(ind, text) := cont_split l in LCont ind text [] None) conts)
            with (map wm_contf conts).
          rewrite A, E. repeat split; auto.
          rewrite D. rewrite (wm_val_plain [d] (mkKL [] (e_key e) b1 dd [] (VPlain l0) post tc) l0 eq_refl). apply wm_split_on_join. exact Hs.
    - destruct (wm_block [d] pre (mkKL [] (e_key e) b1 dd [] (VPlain []) post tc) [] tail s Hpre Ht)
        as (e' & A & B & C & D & E).
      exists e'. cbn [map] in A, E. rewrite A, E. repeat split; auto.
      rewrite D. rewrite (wm_val_plain [d] (mkKL [] (e_key e) b1 dd [] (VPlain []) post tc) [] eq_refl). reflexivity. }
  destruct (match e_cav e with Some (x :: r) => split_on nl (x :: r) | _ => [] end) as [|l1 more].
  - apply (G [] None []). reflexivity.
  - apply (G [32] (Some (c, l1)) (map (fun l => LComment [32] c l) more ++ [LBlank []])).
    rewrite forallb_app, wm_neutral_map_comment. reflexivity.
Qed.

(* ---------- vproj ---------- *)
Lemma wm_vproj_app a b g : vproj (a ++ b) g = vproj a g ++ vproj b g.
Proof. unfold vproj. now rewrite filter_app, map_app. Qed.

Lemma wm_vproj_cons e l g :
  vproj (e :: l) g = (if str_eqb (e_group e) g then [(e_key e, wm_txt e)] else []) ++ vproj l g.
Proof. unfold vproj. cbn [filter]. destruct (str_eqb (e_group e) g); reflexivity. Qed.

Lemma wm_vproj_same e e' l g :
  e_group e' = e_group e -> e_key e' = e_key e -> wm_txt e' = wm_txt e ->
  vproj [e'] g ++ vproj l g = vproj (e :: l) g.
Proof.
  intros A B C. rewrite !wm_vproj_cons. rewrite A, B, C.
  unfold vproj at 1. cbn [filter map]. now rewrite app_nil_r.
Qed.

(* ---------- the passes ---------- *)
Lemma wm_pass_true d c es : forall last s,
  wm_cg s = none_s -> (forall g, last = Some g -> g = none_s) ->
  wm_cg (fold_left (exp_step [d]) (fst (pass_ast d c true es last)) s) = none_s /\
  (forall g, snd (pass_ast d c true es last) = Some g -> g = none_s) /\
  forall g, vproj (rev (p_rev (fold_left (exp_step [d]) (fst (pass_ast d c true es last)) s))) g =
            vproj (rev (p_rev s)) g ++ vproj (filter (fun e => Bool.eqb (is_none e) true) es) g.
Proof.
  induction es as [|e es IH]; intros last s Hc Hl.
  - cbn [pass_ast fst snd fold_left filter]. repeat split; auto.
    intros g. unfold vproj at 3. cbn [filter map]. now rewrite app_nil_r.
  - cbn [pass_ast filter].
    destruct (Bool.eqb (is_none e) true) eqn:Hs.
    + assert (Hn : is_none e = true) by (destruct (is_none e); [reflexivity|discriminate]).
      assert (Hg : e_group e = none_s) by (apply str_eqb_eq; exact Hn).
      set (hdr := match last with
                  | Some g => if str_eqb g (e_group e) then []
                              else LBlank [] :: (if is_none e then [] else [LSection [] (e_group e) []])
                  | None => if is_none e then [] else [LSection [] (e_group e) []]
                  end).
      assert (Hh : forallb wm_neutral hdr = true).
      { subst hdr. rewrite Hn. destruct last as [g0|]; [destruct (str_eqb g0 (e_group e))|]; reflexivity. }
      destruct (pass_ast d c true es (Some (e_group e))) as [out last'] eqn:Hp.
      cbn [fst snd]. rewrite !fold_left_app.
      destruct (wm_fold_neutral [d] hdr s Hh) as [H1 H2].
      set (s0 := fold_left (exp_step [d]) hdr s) in *.
      destruct (wm_entry d c e s0) as (e' & A & B & C & D & E).
      set (s1 := fold_left (exp_step [d]) (entry_ast d c e) s0) in *.
      assert (Hc0 : wm_cg s0 = none_s) by (unfold wm_cg; rewrite H2; exact Hc).
      assert (Hc1 : wm_cg s1 = none_s) by (unfold wm_cg; rewrite E, H2; exact Hc).
      assert (Hl1 : forall g, Some (e_group e) = Some g -> g = none_s).
      { intros g Eg. injection Eg as <-. exact Hg. }
      specialize (IH (Some (e_group e)) s1 Hc1 Hl1). rewrite Hp in IH. cbn [fst snd] in IH.
      destruct IH as (I1 & I2 & I3). repeat split; auto.
      intros g. rewrite I3, A, H1. cbn [rev]. rewrite wm_vproj_app, <- app_assoc. f_equal.
      apply wm_vproj_same; auto. rewrite B, Hc0. auto.
    + apply IH; auto.
Qed.

Lemma wm_pass_false d c es : forall last s,
  (forall g, last = Some g -> wm_cg s = g) ->
  forall g, vproj (rev (p_rev (fold_left (exp_step [d]) (fst (pass_ast d c false es last)) s))) g =
            vproj (rev (p_rev s)) g ++ vproj (filter (fun e => Bool.eqb (is_none e) false) es) g.
Proof.
  induction es as [|e es IH]; intros last s Hl g.
  - cbn [pass_ast fst fold_left filter]. unfold vproj at 3. cbn [filter map]. now rewrite app_nil_r.
  - cbn [pass_ast filter].
    destruct (Bool.eqb (is_none e) false) eqn:Hs.
    + assert (Hn : is_none e = false) by (destruct (is_none e); [discriminate|reflexivity]).
      set (hdr := match last with
                  | Some g => if str_eqb g (e_group e) then []
                              else LBlank [] :: (if is_none e then [] else [LSection [] (e_group e) []])
                  | None => if is_none e then [] else [LSection [] (e_group e) []]
                  end).
      assert (Hh : p_rev (fold_left (exp_step [d]) hdr s) = p_rev s /\
                   wm_cg (fold_left (exp_step [d]) hdr s) = e_group e).
      { subst hdr. rewrite Hn. destruct last as [g0|].
        - destruct (str_eqb g0 (e_group e)) eqn:Eg.
          + apply str_eqb_eq in Eg. subst g0. cbn [fold_left]. split; auto.
          + cbn [fold_left exp_step p_rev p_cur]. unfold wm_cg. cbn [p_cur p_rev]. split; reflexivity.
        - cbn [fold_left exp_step]. unfold wm_cg. cbn [p_cur p_rev]. split; reflexivity. }
      destruct Hh as [H1 H2].
      destruct (pass_ast d c false es (Some (e_group e))) as [out last'] eqn:Hp.
      cbn [fst]. rewrite !fold_left_app.
      set (s0 := fold_left (exp_step [d]) hdr s) in *.
      destruct (wm_entry d c e s0) as (e' & A & B & C & D & E).
      set (s1 := fold_left (exp_step [d]) (entry_ast d c e) s0) in *.
      assert (Hl1 : forall g, Some (e_group e) = Some g -> wm_cg s1 = g).
      { intros g1 Eg. injection Eg as <-. unfold wm_cg. rewrite E. exact H2. }
      specialize (IH (Some (e_group e)) s1 Hl1 g). rewrite Hp in IH. cbn [fst] in IH.
      rewrite IH, A, H1. cbn [rev]. rewrite wm_vproj_app, <- app_assoc. f_equal.
      apply wm_vproj_same; auto. rewrite B. exact H2.
    + apply IH; auto.
Qed.

(* ---------- regrouping ---------- *)
Lemma wm_vproj_none_other es g : g <> none_s ->
  vproj (filter (fun e => Bool.eqb (is_none e) true) es) g = [].
Proof.
  intros Hg. induction es as [|e es IH]; [reflexivity|]. cbn [filter].
  destruct (is_none e) eqn:Hn; cbn [Bool.eqb]; [|exact IH].
  rewrite wm_vproj_cons, IH. unfold is_none in Hn. apply str_eqb_eq in Hn.
  destruct (str_eqb (e_group e) g) eqn:E; [|reflexivity].
  apply str_eqb_eq in E. congruence.
Qed.

Lemma wm_vproj_split es g :
  vproj (filter (fun e => Bool.eqb (is_none e) true) es) g ++
  vproj (filter (fun e => Bool.eqb (is_none e) false) es) g = vproj es g.
Proof.
  induction es as [|e es IH]; [reflexivity|]. cbn [filter].
  destruct (is_none e) eqn:Hn; cbn [Bool.eqb].
  - rewrite !(wm_vproj_cons e), <- app_assoc, IH. reflexivity.
  - rewrite !(wm_vproj_cons e). destruct (str_eqb (e_group e) g) eqn:E.
    + apply str_eqb_eq in E.
      assert (Hg : g <> none_s).
      { intros ->. unfold is_none in Hn. rewrite E, str_eqb_refl in Hn. discriminate. }
      rewrite wm_vproj_none_other by exact Hg.
      rewrite <- IH, wm_vproj_none_other by exact Hg. reflexivity.
    + cbn [app]. exact IH.
Qed.

(* ---------- the theorem ---------- *)
Theorem ast_of_meaning : forall kf g, writable kf = true ->
  vproj (rev (p_rev (expected [kf_delim kf] (ast_of kf)))) g = vproj (kf_entries kf) g.
Proof.
  intros kf g _. unfold ast_of, expected.
  set (d := kf_delim kf). set (c := kf_comment kf). set (es := kf_entries kf).
  assert (L0 : forall g0 : str, @None str = Some g0 -> g0 = none_s) by (intros g0 H; discriminate).
  destruct (wm_pass_true d c es None init_pstate eq_refl L0) as (P1 & P2 & P3).
  destruct (pass_ast d c true es None) as [a1 l1] eqn:Hp1. cbn [fst snd] in P1, P2, P3.
  set (s1 := fold_left (exp_step [d]) a1 init_pstate) in *.
  assert (L1 : forall g0, l1 = Some g0 -> wm_cg s1 = g0).
  { intros g0 H. rewrite P1. symmetry. apply P2. exact H. }
  pose proof (wm_pass_false d c es l1 s1 L1 g) as Q.
  destruct (pass_ast d c false es l1) as [a2 l2] eqn:Hp2. cbn [fst] in Q.
  rewrite fold_left_app. fold s1. rewrite Q, P3. cbn [init_pstate p_rev rev].
  unfold vproj at 1. cbn [filter map app]. apply wm_vproj_split.
Qed.
