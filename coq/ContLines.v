(* ContLines.v — continuation lines of the conventional grammar. *)
From Coq Require Import String Lia List.
From Econf Require Import Bytes BytesFacts Grammar CommentLoop LineBase.
Local Open Scope N_scope.

(* ---------- small list facts ---------- *)
Lemma ct_existsb_free dl s : free_of dl s = true -> existsb (fun x => mem x dl) s = false.
Proof.
  unfold free_of. induction s as [|c s IH]; cbn [forallb existsb]; [reflexivity|].
  intros H. apply andb_true_iff in H as [H1 H2]. apply negb_true_iff in H1.
  rewrite H1, (IH H2). reflexivity.
Qed.

Lemma ct_free_skipn bad n s : free_of bad s = true -> free_of bad (skipn n s) = true.
Proof.
  revert s; induction n as [|n IH]; intros s H; [exact H|].
  destruct s as [|c s]; [exact H|]. cbn [skipn]. apply IH.
  rewrite free_of_cons in H. now apply andb_true_iff in H as [_ H].
Qed.

Lemma ct_has_wsp_false dl c : has_wsp dl = false -> isspace c = true -> mem c dl = false.
Proof.
  unfold has_wsp. intros H Hc. destruct (mem c dl) eqn:E; [|reflexivity].
  apply mem_In in E. assert (X : existsb isspace dl = true) by (apply existsb_exists; eauto).
  congruence.
Qed.

Lemma ct_has_nonwsp_false dl c : has_nonwsp dl = false -> isspace c = false -> mem c dl = false.
Proof.
  unfold has_nonwsp. intros H Hc. destruct (mem c dl) eqn:E; [|reflexivity].
  apply mem_In in E.
  assert (X : existsb (fun c => negb (isspace c)) dl = true).
  { apply existsb_exists. exists c. split; [assumption|]. now rewrite Hc. }
  congruence.
Qed.

Lemma ct_classN dl : class_of dl = ClassN -> has_wsp dl = false.
Proof.
  unfold class_of. destruct dl as [|c r]; [discriminate|].
  destruct (has_wsp (c :: r)); [|reflexivity]. destruct (has_nonwsp (c :: r)); discriminate.
Qed.

Lemma ct_classW dl : class_of dl = ClassW -> has_nonwsp dl = false.
Proof.
  unfold class_of. destruct dl as [|c r]; [discriminate|].
  destruct (has_wsp (c :: r)); [|discriminate]. destruct (has_nonwsp (c :: r)); [discriminate|reflexivity].
Qed.

(* ---------- cut_at_comments ---------- *)
Lemma ct_cut_stable cm' a : (forall c, In c cm' -> ~ In c a) ->
  fold_left (fun o c => match find_idx c o with Some i => firstn i o | None => o end) cm' a = a.
Proof.
  induction cm' as [|c cm' IH]; intros H; [reflexivity|]. cbn [fold_left].
  rewrite (find_idx_notin c a) by (apply H; left; reflexivity).
  apply IH. intros x Hx; apply H; right; assumption.
Qed.

Lemma ct_cut_at cm' a c r :
  (forall x, In x cm' -> ~ In x a) -> (forall x, In x cm' -> ~ In x r) -> In c cm' ->
  fold_left (fun o c => match find_idx c o with Some i => firstn i o | None => o end) cm' (a ++ c :: r) = a.
Proof.
  induction cm' as [|x cm' IH]; intros Ha Hr Hc; [destruct Hc|]. cbn [fold_left].
  destruct (N.eq_dec x c) as [->|Hne].
  - rewrite find_idx_app_first by (apply Ha; left; reflexivity).
    rewrite firstn_length_app. apply ct_cut_stable. intros y Hy; apply Ha; right; assumption.
  - rewrite find_idx_notin.
    + apply IH.
      * intros y Hy; apply Ha; right; assumption.
      * intros y Hy; apply Hr; right; assumption.
      * destruct Hc as [Hc|Hc]; [congruence|assumption].
    + intros Hin. apply in_app_or in Hin as [Hin|[Hin|Hin]].
      * apply (Ha x); [left; reflexivity|assumption].
      * congruence.
      * apply (Hr x); [left; reflexivity|assumption].
Qed.

Lemma ct_removelast_nl_id a : forallb (fun c => negb (c =? 10)) a = true -> removelast_nl a = a.
Proof.
  intros H. unfold removelast_nl. destruct (rev a) as [|x r] eqn:E; [reflexivity|].
  assert (Hx : x <> 10).
  { rewrite <- (forallb_rev' _ a), E in H. cbn [forallb] in H. apply andb_true_iff in H as [H _].
    apply negb_true_iff, N.eqb_neq in H. exact H. }
  destruct x as [|p]; [reflexivity|].
  do 4 (destruct p as [p|p|]; try reflexivity). exfalso; apply Hx; reflexivity.
Qed.

Lemma ct_cm_no_nl cm : cm_ok cm = true -> mem 10 cm = false.
Proof.
  intros H. destruct (mem 10 cm) eqn:E; [|reflexivity].
  pose proof (cm_ok_tchar cm 10 H E). discriminate.
Qed.

Lemma ct_cont_text cm a tc :
  cm_ok cm = true -> free_of cm a = true -> forallb (fun c => negb (c =? 10)) a = true ->
  tc_ok cm tc = true ->
  cont_text std_opts cm ((a ++ render_tc tc) ++ [10]) = a.
Proof.
  intros Hcm Hfa Hnl Htc. unfold cont_text. change (o_python std_opts) with false. cbv iota.
  unfold cut_at_comments.
  assert (Ha : forall x, In x cm -> ~ In x a) by (intros x Hx; eapply free_of_notin; eauto).
  destruct tc as [[c t]|]; cbn [render_tc].
  - cbn [tc_ok] in Htc. apply andb_true_iff in Htc as [Htc _]. apply andb_true_iff in Htc as [Htc _].
    apply andb_true_iff in Htc as [Htc Hft].
    rewrite <- app_assoc. cbn [app].
    rewrite ct_cut_at.
    + now apply ct_removelast_nl_id.
    + exact Ha.
    + intros x Hx Hin. apply in_app_or in Hin as [Hin|[Hin|[]]].
      * exact (free_of_notin cm t x Hft Hx Hin).
      * subst x. apply mem_In in Hx. rewrite (ct_cm_no_nl cm Hcm) in Hx. discriminate.
    + now apply mem_In.
  - rewrite app_nil_r. rewrite ct_cut_stable; [apply removelast_nl_app|].
    intros x Hx Hin. apply in_app_or in Hin as [Hin|[Hin|[]]].
    + now apply (Ha x).
    + subst x. apply mem_In in Hx. rewrite (ct_cm_no_nl cm Hcm) in Hx. discriminate.
Qed.

(* ---------- the parser on such a line ---------- *)
Lemma ct_parse_line_entry dl cm s ind c0 rest :
  blanks ind = true -> ind <> [] -> isspace c0 = false -> mem c0 cm = false ->
  nonzero (ind ++ c0 :: rest) = true ->
  parse_line std_opts dl cm s ((ind ++ c0 :: rest) ++ [10]) =
  parse_entry std_opts dl cm (bump s) ((ind ++ c0 :: rest) ++ [10]) (hd 0 ind) (c0 :: rest).
Proof.
  intros Hi Hne Hs Hc Hnz. rewrite parse_line_body by assumption.
  rewrite drop_blanks_then by assumption. cbv beta iota. rewrite Hc.
  destruct ind; [congruence|reflexivity].
Qed.

Lemma ct_parse_entry_not91 dl cm s org b0 name nm di cav :
  comment_loop dl cm name (p_cav s) = (nm, di, cav) -> hd 0 (cstr nm) <> 91 -> keys_only dl = false ->
  parse_entry std_opts dl cm s org b0 name = parse_kv std_opts dl cm (with_cav s cav) org b0 (cstr nm).
Proof.
  intros H H91 Hk. rewrite parse_entry_unfold, H. cbv beta iota zeta. rewrite Hk.
  destruct (cstr nm) as [|c r]; [reflexivity|]. cbn [hd] in H91.
  destruct c as [|p]; [reflexivity|].
  do 7 (destruct p as [p|p|]; try reflexivity). exfalso; apply H91; reflexivity.
Qed.

Lemma ct_parse_kv_cont dl cm s org b0 vis :
  is_mixed dl = false -> free_of dl vis = true -> last_line_is s (p_line s) = true ->
  parse_kv std_opts dl cm s org b0 vis =
  PCont (store_append false s (cont_text std_opts cm org) (p_line s)).
Proof.
  intros Hm Hf Hl. unfold parse_kv. cbv zeta. rewrite Hm, Hl.
  change (o_python std_opts) with false. cbn [negb orb andb].
  remember (take_while (fun x => negb (key_stop dl x)) vis) as k eqn:Ek.
  pose proof (ct_free_skipn dl (length k) vis Hf) as Hr.
  remember (skipn (length k) vis) as rest eqn:Er. clear Ek Er.
  destruct rest as [|x r].
  - destruct k; cbn [andb existsb tl orb negb]; reflexivity.
  - pose proof Hr as Hr'. rewrite free_of_cons in Hr. apply andb_true_iff in Hr as [Hx Hr].
    apply negb_true_iff in Hx. cbn [hd]. rewrite Hx.
    destruct k as [|k0 k']; cbn [andb tl orb].
    + rewrite (ct_existsb_free dl (x :: r) Hr'). reflexivity.
    + rewrite (ct_existsb_free dl r Hr). reflexivity.
Qed.

Lemma ct_store_append_exp dl s ind text post tc e erest :
  p_rev s = e :: erest ->
  store_append false (with_cav (bump s) (option_map snd tc)) (ind ++ text ++ post) (p_line s + 1) =
  exp_step dl s (LCont ind text post tc).
Proof.
  intros H. unfold store_append, exp_step, with_cav, bump.
  cbn [p_rev p_cav p_groups p_cur p_line]. rewrite H.
  destruct tc as [[c t]|]; destruct (e_cav e); reflexivity.
Qed.

Lemma ct_tc_ok cm tc : wf_tc cm tc = true -> tc_ok cm tc = true.
Proof.
  destruct tc as [[c t]|]; [|reflexivity]. cbn [wf_tc tc_ok]. intros H.
  apply andb_true_iff in H as [Hc Ht]. rewrite Hc. cbn [andb].
  assert (X : free_of cm t = true /\ free_of [34] t = true /\ nonzero t = true).
  { unfold free_of, nonzero. repeat split; (eapply forallb_impl; [|exact Ht]); intros x Hx;
      repeat (apply andb_true_iff in Hx as [Hx ?]).
    - assumption.
    - cbn [mem]. rewrite orb_false_r. destruct (x =? 34) eqn:E; [discriminate|]. now rewrite N.eqb_sym, E.
    - now rewrite tb_nonzero. }
  destruct X as (-> & -> & ->). reflexivity.
Qed.

Lemma ct_cont_core dl cm s ind text post tc :
  cm_ok cm = true -> Inv true s ->
  blanks ind = true -> ind <> [] ->
  text <> [] -> isblank (hd 0 text) = false -> hd 0 text <> 91 ->
  forallb tb text = true -> free_of cm text = true -> free_of [34] text = true -> free_of dl text = true ->
  blanks post = true -> free_of dl post = true -> tc_ok cm tc = true ->
  is_mixed dl = false -> keys_only dl = false ->
  parse_line std_opts dl cm s (render_line (LCont ind text post tc)) = PCont (exp_step dl s (LCont ind text post tc)) /\
  Inv true (exp_step dl s (LCont ind text post tc)).
Proof.
  intros Hcm HI Hind Hindne Htne Hc0b Hc091 Htb Hfcm Hfq Hfdl Hpost Hpdl Htc Hmix Hko.
  pose proof (last_line_is_inv true s HI) as Hlast.
  destruct HI as [Hcav (e & erest & Hrev & Hline)].
  split.
  2:{ cbn [exp_step]. rewrite Hrev. split; [reflexivity|]. eexists; eexists; split; reflexivity. }
  assert (Ht : exists c0 tr, text = c0 :: tr) by (destruct text as [|c0 tr]; [congruence|eauto]).
  destruct Ht as (c0 & tr & Ht).
  rewrite Ht in Hc0b, Hc091. cbn [hd] in Hc0b, Hc091.
  assert (Htc0 : tchar c0 = true).
  { rewrite Ht in Htb. cbn [forallb] in Htb. apply andb_true_iff in Htb as [Htb _].
    unfold tb in Htb. rewrite Hc0b, orb_false_r in Htb. exact Htb. }
  assert (Hc0cm : mem c0 cm = false).
  { rewrite Ht, free_of_cons in Hfcm. apply andb_true_iff in Hfcm as [Hfcm _]. now apply negb_true_iff in Hfcm. }
  set (vis := text ++ post).
  assert (Hvne : vis <> []) by (unfold vis; rewrite Ht; discriminate).
  assert (Hvnz : nonzero vis = true).
  { unfold vis. rewrite nonzero_app, (nonzero_tb text Htb), (nonzero_blanks post Hpost). reflexivity. }
  assert (Hvcm : free_of cm vis = true).
  { unfold vis. rewrite free_of_app, Hfcm, (free_of_cm_blanks cm post Hcm Hpost). reflexivity. }
  assert (Hvq : free_of [34] vis = true).
  { unfold vis. rewrite free_of_app, Hfq, (free_quote_blanks post Hpost). reflexivity. }
  assert (Hvdl : free_of dl vis = true).
  { unfold vis. rewrite free_of_app, Hfdl, Hpdl. reflexivity. }
  assert (Hrnz : nonzero (render_tc tc) = true).
  { destruct tc as [[c t]|]; [|reflexivity]. cbn [tc_ok] in Htc. repeat (apply andb_true_iff in Htc as [Htc ?]).
    cbn [render_tc]. rewrite nonzero_cons. rewrite (tchar_nonzero c (cm_ok_tchar cm c Hcm Htc)). assumption. }
  unfold render_line. cbn [render_body].
  set (rest := tr ++ post ++ render_tc tc).
  assert (Hname : c0 :: rest = vis ++ render_tc tc).
  { unfold rest, vis. rewrite Ht, <- app_assoc. reflexivity. }
  replace (ind ++ text ++ post ++ render_tc tc) with (ind ++ c0 :: rest)
    by (unfold rest; rewrite Ht; reflexivity).
  rewrite ct_parse_line_entry; [|assumption|assumption|now apply tchar_not_space|assumption|].
  2:{ rewrite nonzero_app, (nonzero_blanks ind Hind), Hname, nonzero_app, Hvnz, Hrnz. reflexivity. }
  rewrite Hname.
  pose proof (comment_loop_plain_corrected_noquote_cm dl cm vis tc Hvne Hvnz Hvcm Hvq
                (free_of_cm_zero cm Hcm) (free_of_cm_quote cm Hcm) Htc) as L.
  destruct (comment_loop dl cm (vis ++ render_tc tc) None) as [[nm di] cav] eqn:EL.
  destruct L as [Lv Lc].
  rewrite (ct_parse_entry_not91 dl cm (bump s) _ _ _ nm di cav).
  2:{ change (p_cav (bump s)) with (p_cav s). rewrite Hcav. exact EL. }
  2:{ rewrite Lv. unfold vis. rewrite Ht. exact Hc091. }
  2:{ exact Hko. }
  rewrite Lv. subst cav.
  rewrite ct_parse_kv_cont; [|exact Hmix|exact Hvdl|exact Hlast].
  f_equal. change (p_line (with_cav (bump s) (option_map snd tc))) with (p_line s + 1).
  rewrite app_assoc, ct_cont_text.
  - unfold vis. eapply ct_store_append_exp. exact Hrev.
  - exact Hcm.
  - rewrite free_of_app, (free_of_cm_blanks cm ind Hcm Hind), Hvcm. reflexivity.
  - rewrite forallb_app. apply andb_true_iff. split.
    + unfold blanks in Hind. eapply forallb_impl; [|exact Hind]. intros x Hx.
      destruct (isblank_cases x Hx); subst; reflexivity.
    + unfold vis. rewrite forallb_app. apply andb_true_iff. split.
      * eapply forallb_impl; [|exact Htb]. intros x Hx. now rewrite tb_not_nl.
      * unfold blanks in Hpost. eapply forallb_impl; [|exact Hpost]. intros x Hx.
        destruct (isblank_cases x Hx); subst; reflexivity.
  - exact Htc.
Qed.

Lemma cont_line_ok dl cm prev s ind text post tc :
  cm_ok cm = true -> dl_ok dl cm = true ->
  wf_line dl cm prev (LCont ind text post tc) = true -> Inv prev s ->
  parse_line std_opts dl cm s (render_line (LCont ind text post tc)) = PCont (exp_step dl s (LCont ind text post tc)) /\
  Inv true (exp_step dl s (LCont ind text post tc)).
Proof.
  intros Hcm Hdl Hwf HI.
  cbn [wf_line] in Hwf. apply andb_true_iff in Hwf as [Hprev Hwf]. subst prev.
  unfold wf_cont in Hwf.
  apply andb_true_iff in Hwf as [Hwf Hcls]. apply andb_true_iff in Hwf as [Hwf Htext0].
  apply andb_true_iff in Hwf as [Hind Hindne].
  assert (Hindne' : ind <> []) by (destruct ind; [discriminate|discriminate]).
  assert (Ht0 : text <> [] /\ isblank (hd 0 text) = false /\ hd 0 text <> 91).
  { destruct text as [|c0 tr]; [discriminate|]. cbn [hd].
    apply andb_true_iff in Htext0 as [H1 H2]. apply negb_true_iff in H1. apply negb_true_iff in H2.
    repeat split; [discriminate|exact H1|]. now apply N.eqb_neq. }
  destruct Ht0 as (Htne & Hc0b & Hc091).
  pose proof (keys_only_class dl cm Hdl) as Hko. pose proof (mixed_class dl) as Hmix.
  destruct (class_of dl) eqn:Ecls; try discriminate.
  - (* ClassN *)
    apply andb_true_iff in Hcls as [Hcls Htc]. apply andb_true_iff in Hcls as [Htext Hpost].
    pose proof (ct_classN dl Ecls) as Hw.
    assert (X : forallb tb text = true /\ free_of cm text = true /\ free_of [34] text = true /\ free_of dl text = true).
    { unfold free_of. repeat split; (eapply forallb_impl; [|exact Htext]); intros x Hx;
        repeat (apply andb_true_iff in Hx as [Hx ?]); try assumption.
      cbn [mem]. rewrite orb_false_r. destruct (x =? 34) eqn:E; [discriminate|]. now rewrite N.eqb_sym, E. }
    destruct X as (X1 & X2 & X3 & X4).
    apply ct_cont_core; try assumption.
    + unfold free_of. unfold blanks in Hpost. eapply forallb_impl; [|exact Hpost]. intros x Hx.
      rewrite (ct_has_wsp_false dl x Hw (isblank_isspace x Hx)). reflexivity.
    + now apply ct_tc_ok.
  - (* ClassW *)
    apply andb_true_iff in Hcls as [Htext Hpt].
    destruct post as [|? ?]; [|discriminate]. destruct tc as [|]; [discriminate|].
    pose proof (ct_classW dl Ecls) as Hw.
    assert (X : forallb tb text = true /\ free_of cm text = true /\ free_of [34] text = true /\ free_of dl text = true).
    { unfold free_of. repeat split; (eapply forallb_impl; [|exact Htext]); intros x Hx;
        apply andb_true_iff in Hx as [Hx ?]; apply andb_true_iff in Hx as [Hx ?].
      - unfold tb. now rewrite Hx.
      - assumption.
      - cbn [mem]. rewrite orb_false_r. destruct (x =? 34) eqn:E; [discriminate|]. now rewrite N.eqb_sym, E.
      - rewrite (ct_has_nonwsp_false dl x Hw (tchar_not_space x Hx)). reflexivity. }
    destruct X as (X1 & X2 & X3 & X4).
    apply ct_cont_core; try assumption; reflexivity.
Qed.
