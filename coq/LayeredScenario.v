(* LayeredScenario.v — the layered readers, the file tree, the process-wide
   settings and the callback policy as scenario commands on top of Scenario.v *)
From Coq Require Import String.
From Econf Require Export Scenario LayeredModel.
Local Open Scope N_scope.

(* what the caller's callback does *)
Inductive cbpolicy := CbNone | CbReject (paths : list str).

Definition cb_of (p : cbpolicy) : callback :=
  match p with
  | CbNone => None
  | CbReject l => Some (fun path => negb (mem_str path l))
  end.

Record world := mkW {
  w_store : store;
  w_tree : tree;
  w_g : globals;
  w_cb : cbpolicy }.

Definition world0 : world := mkW [] [([47], NDir 0 0)] globals0 CbNone.

Inductive wcmd :=
| WBase (c : cmd)
| WFs (p : str) (n : node)
| WSec (s : secset)
| WPerms (fp dp : N)                  (* econf_requirePermissions on top of the current settings *)
| WConfDirs (l : list str)
| WCallback (p : cbpolicy)
| WNewOpts (o : nat) (opts : option str)
| WReadFile (o : nat) (path dl cm : str)
| WReadDirs (o : nat) (dist etc name sfx : option str) (dl cm : str)
| WReadConfig (o : nat) (project usr name sfx : option str) (dl cm : str)
| WHistory (dist etc name sfx : option str) (dl cm : str)
| WWriteTo (o : nat) (dir fname : str)        (* econf_writeFile into a directory of the tree *)
| WErrLoc.

Fixpoint tput (t : tree) (p : str) (n : node) : tree :=
  match t with
  | [] => [(p, n)]
  | (q, m) :: t' => if str_eqb q p then (p, n) :: t' else (q, m) :: tput t' p n
  end.

Definition checks_of (evs : list event) : list (str * bool) :=
  flat_map (fun e => match e with EvCheck p ok => [(p, ok)] | _ => [] end) evs.
Definition opens_of (evs : list event) : list str :=
  flat_map (fun e => match e with EvOpen p => [p] | _ => [] end) evs.

Definition set_store (w : world) (s : store) : world := mkW s (w_tree w) (w_g w) (w_cb w).
Definition set_g (w : world) (g : globals) : world := mkW (w_store w) (w_tree w) g (w_cb w).

Definition finish_read (w : world) (o : nat) (r : read_out2) : world * out :=
  let st := match r2_obj r with
            | Some kf => sput (w_store w) o kf
            | None => sdel (w_store w) o
            end in
  (mkW st (w_tree w) (r2_g r) (w_cb w),
   ORead (r2_err r) (match r2_obj r with Some _ => true | None => false end)
         (checks_of (r2_events r)) (map (real_name (w_tree w)) (opens_of (r2_events r)))).   (* what fopen is handed *)

Definition wstep (w : world) (c : wcmd) : world * out :=
  match c with
  | WBase c' => let '(s', r) := step (w_store w) c' in (set_store w s', r)
  | WFs p n => (mkW (w_store w) (tput (w_tree w) (squeeze p) n) (w_g w) (w_cb w), ORc ECONF_SUCCESS)
  | WSec s => (set_g w (mkG s (g_conf_dirs (w_g w)) (g_errfile (w_g w)) (g_errline (w_g w))), ORc ECONF_SUCCESS)
  | WPerms fp dp =>
      let s := g_sec (w_g w) in
      (set_g w (mkG (mkSec (sec_owner s) (sec_group s) (sec_nolinks s) (Some (fp, dp)))
                    (g_conf_dirs (w_g w)) (g_errfile (w_g w)) (g_errline (w_g w))), ORc ECONF_SUCCESS)
  | WConfDirs l => (set_g w (mkG (g_sec (w_g w)) l (g_errfile (w_g w)) (g_errline (w_g w))), ORc ECONF_SUCCESS)
  | WCallback p => (mkW (w_store w) (w_tree w) (w_g w) p, ORc ECONF_SUCCESS)
  | WNewOpts o opts =>
      let '(e, kf) := new_with_options opts in
      (set_store w (sput (w_store w) o kf), ORc e)
  | WReadFile o path dl cm =>
      finish_read w o (read_file_api (w_tree w) (w_g w) (cb_of (w_cb w)) path dl cm)
  | WReadDirs o dist etc name sfx dl cm =>
      finish_read w o (read_dirs (w_tree w) (w_g w) (cb_of (w_cb w)) dist etc name sfx dl cm)
  | WReadConfig o project usr name sfx dl cm =>
      finish_read w o (read_config (w_tree w) (w_g w) (cb_of (w_cb w)) (sget (w_store w) o) project usr name sfx dl cm)
  | WHistory dist etc name sfx dl cm =>
      let h := read_dirs_history (w_tree w) (w_g w) (cb_of (w_cb w)) dist etc name sfx dl cm in
      (set_g w (ho_g h),
       match ho_res h with
       | inr files => OHist ECONF_SUCCESS files (checks_of (ho_events h)) (map (real_name (w_tree w)) (opens_of (ho_events h)))
       | inl e => OHist e [] (checks_of (ho_events h)) (map (real_name (w_tree w)) (opens_of (ho_events h)))
       end)
  | WWriteTo o dir fname =>
      (* econf_writeFile: stat() of the directory (not there / not a directory: ECONF_NOFILE), fopen(dir/name, "w")
         (fails on a directory of that name: ECONF_WRITEERROR), then the text of the object is the file *)
      match sget (w_store w) o with
      | None => (w, ORc ECONF_ERROR)
      | Some kf =>
          match tlookup (w_tree w) (fs_resolve 8 (w_tree w) (squeeze dir)) with
          | Some (NDir _ _) =>
              let p := squeeze (dir ++ 47 :: fname) in
              match tlookup (w_tree w) (fs_resolve 8 (w_tree w) p) with
              | Some (NDir _ _) => (w, ORc ECONF_WRITEERROR)
              | _ => (mkW (w_store w) (tput (w_tree w) (fs_resolve 8 (w_tree w) p) (NFile (write_model kf) 0 0)) (w_g w) (w_cb w),
                      ORc ECONF_SUCCESS)
              end
          | _ => (w, ORc ECONF_NOFILE)
          end
      end
  | WErrLoc => (w, OLoc (g_errfile (w_g w)) (g_errline (w_g w)))
  end.

Fixpoint wrun (w : world) (cs : list wcmd) : list out :=
  match cs with
  | [] => []
  | c :: cs' => let '(w', r) := wstep w c in r :: wrun w' cs'
  end.
