(* ToolModel.v — util/econftool.c: the commands show, syntax and cat, as
   functions from the file tree (below $ECONFTOOL_ROOT) and the arguments to
   what is written to stdout, the error line on stderr and the exit status.
   edit and revert (interactive, spawn an editor, delete files) are not
   modelled.  Definitions only. *)
From Coq Require Import String.
From Econf Require Export LayeredScenario NumericModel.
Local Open Scope N_scope.

Record tool_out := mkTO {
  to_stdout : str;
  to_errline : option str;    (* "<file> (line <n>): <message>" printed by print_error *)
  to_exit : N }.

(* one key with its value lines, as pr_key_file prints it *)
Definition pr_key (kf : keyfile) (g : option str) (k : str) : str :=
  match get_ext kf g (Some k) with
  | inr x =>
      k ++ bs " = " ++
      match x_values x with
      | [] => []
      | v0 :: vs => v0 ++ [nl] ++ concat (map (fun v => bs "     " ++ v ++ [nl]) vs)
      end
  | inl _ => []
  end.

(* the keys without group first, then every group (a group without keys: its name alone) *)
Definition pr_group (kf : keyfile) (g : option str) : str :=
  match get_keys kf g with
  | inr ks =>
      (match g with Some name => name ++ [nl] | None => [] end) ++
      concat (map (pr_key kf g) ks) ++ [nl]
  | inl _ => match g with Some name => name ++ [nl; nl] | None => [] end
  end.

Definition pr_key_file (kf : keyfile) : str :=
  let groups := match get_groups kf with inr l => l | inl _ => [] end in
  concat (map (pr_group kf) (None :: map Some groups)).

(* the argument "<name>.<suffix>": split at the last dot *)
Definition split_arg (arg : str) : option (str * str) :=
  match rfind_idx 46 arg with
  | Some i => Some (firstn i arg, skipn i arg)
  | None => None
  end.

Definition usr_root : str := bs "/usr/etc".
Definition etc_root : str := bs "/etc".

Definition pr_header (base sfx : option str) : str :=
  bs "Vendor config directory: " ++ usr_root ++ [nl] ++
  bs "Config directory for local changes:  " ++ etc_root ++ [nl] ++
  bs "Basename: " ++ (match base with Some b => b | None => [] end) ++ [nl] ++
  bs "Suffix: " ++ (match sfx with Some s => s | None => bs "(null)" end) ++ [nl].

Definition fmt_n (n : N) : str := fmt_dec (Z.of_N n).

Definition error_line (g : globals) (e : econf_err) : str :=
  g_errfile g ++ bs " (line " ++ fmt_n (g_errline g) ++ bs "): " ++ err_message e.

Definition minus_one : N := 255.          (* main returns -1 *)

(* --delimiters as main() translates it before it reaches the library: the word "spaces" stands for the six blank
   characters; otherwise the FIRST occurrence of each of \t \f \n \r \v (in this order, each applied to the result of
   the one before) is replaced by the character it names (replace_str; its 1024-byte buffer is finding F21 and not
   modelled: the arguments of the model are shorter) *)
Fixpoint replace_first (orig rep s : str) : str :=
  match s with
  | [] => []
  | c :: r => if is_prefix orig s then rep ++ skipn (length orig) s else c :: replace_first orig rep r
  end.
Definition cli_delims (d : str) : str :=
  if str_eqb d (bs "spaces") then [32; 9; 12; 10; 13; 11]
  else replace_first [92; 118] [11] (replace_first [92; 114] [13] (replace_first [92; 110] [10]
         (replace_first [92; 102] [12] (replace_first [92; 116] [9] d)))).

(* show (with_listing = true) and syntax (false) *)
Definition tool_read (t : tree) (arg dl cm : str) (with_listing : bool) : tool_out :=
  let '(r, base, sfx) :=
    match arg with
    | 47 :: _ => (read_file_api t globals0 None arg dl cm, None, None)
    | _ => match split_arg arg with
           | Some (b, s) => (read_dirs t globals0 None (Some usr_root) (Some etc_root) (Some b) (Some s) dl cm, Some b, Some s)
           | None => (mkR2 ECONF_ERROR None [] globals0, None, None)
           end
    end in
  match r2_err r, r2_obj r with
  | ECONF_SUCCESS, Some kf =>
      if with_listing then mkTO (pr_header base sfx ++ pr_key_file kf) None 0
      else mkTO [] None 0
  | e, _ => mkTO [] (Some (error_line (r2_g r) e)) minus_one
  end.

Definition tool_cat (t : tree) (arg dl cm : str) : tool_out :=
  match arg with
  | 47 :: _ => mkTO [] None minus_one
  | _ =>
      match split_arg arg with
      | None => mkTO [] None 1
      | Some (b, s) =>
          let h := read_dirs_history t globals0 None (Some usr_root) (Some etc_root) (Some b) (Some s) dl cm in
          match ho_res h with
          | inr files => mkTO (pr_header (Some b) (Some s) ++ concat (map pr_key_file files)) None 0
          | inl e => mkTO [] (Some (error_line (ho_g h) e)) minus_one
          end
      end
  end.

(* the arguments of "show"/"syntax" without a dot in a relative name are refused with exit status 1 *)
Definition tool_show (t : tree) (arg dl cm : str) : tool_out :=
  match arg, split_arg arg with
  | 47 :: _, _ => tool_read t arg dl cm true
  | _, None => mkTO [] None 1
  | _, _ => tool_read t arg dl cm true
  end.
Definition tool_syntax (t : tree) (arg dl cm : str) : tool_out :=
  match arg, split_arg arg with
  | 47 :: _, _ => tool_read t arg dl cm false
  | _, None => mkTO [] None 1
  | _, _ => tool_read t arg dl cm false
  end.
