(* Properties_C10.v — C10: queries never change the configuration. *)
From Coq Require Import String.
From Econf Require Import Bytes MapSpec.
Local Open Scope N_scope.

(* the read-only calls: listings, every typed / defaulted / extended getter,
   path and tag queries, writing the object out, dumping it *)
Definition read_only (c : cmd) : bool :=
  match c with
  | CGet _ _ _ _ _ | CGetExt _ _ _ | CGroups _ | CKeys _ _ | CWrite _ | CDump _
  | CGetAll _ | CPath _ | CTags _ => true
  | _ => false
  end.

Lemma kstep_readonly kf c : read_only c = true -> fst (kstep kf c) = kf.
Proof. destruct c; simpl; try discriminate; reflexivity. Qed.

(* one query, failing ones included, leaves the object as it is *)
Theorem C10_readonly : forall kf c, read_only c = true -> fst (kstep kf c) = kf.
Proof. exact kstep_readonly. Qed.
Print Assumptions C10_readonly.

(* any finite sequence of queries *)
Theorem C10_sequences : forall cs kf, forallb read_only cs = true -> kfinal kf cs = kf.
Proof.
  induction cs as [|c cs IH]; intros kf H; simpl; [reflexivity|].
  simpl in H. apply andb_true_iff in H as [H1 H2].
  rewrite (kstep_readonly kf c H1). now apply IH.
Qed.
Print Assumptions C10_sequences.

(* so a query placed anywhere in a history does not change any later result *)
Theorem C10_later_results : forall qs cs kf,
  forallb read_only qs = true -> krun (kfinal kf qs) cs = krun kf cs.
Proof. intros qs cs kf H. now rewrite C10_sequences. Qed.
Print Assumptions C10_later_results.

(* merging reads both inputs and builds a new object: in the store-level
   step the two input objects are unchanged *)
Theorem C10_merge_inputs : forall s dst a b ka kb,
  sget s a = Some ka -> sget s b = Some kb -> dst <> a -> dst <> b ->
  sget (fst (step s (CMerge dst a b))) a = Some ka /\
  sget (fst (step s (CMerge dst a b))) b = Some kb.
Proof.
  intros s dst a b ka kb Ha Hb Na Nb. simpl. rewrite Ha, Hb. simpl.
  assert (G : forall o k, dst <> o -> sget s o = Some k -> sget (sdel s dst) o = Some k).
  { clear. intros o k Hn. induction s as [|[o' k'] s IH]; simpl; [auto|].
    destruct (Nat.eqb o o') eqn:E1; destruct (Nat.eqb dst o') eqn:E2; simpl; try rewrite E1; auto.
    apply Nat.eqb_eq in E1, E2. congruence. }
  replace (Nat.eqb a dst) with false by (symmetry; apply Nat.eqb_neq; congruence).
  replace (Nat.eqb b dst) with false by (symmetry; apply Nat.eqb_neq; congruence).
  split; apply G; auto.
Qed.
Print Assumptions C10_merge_inputs.

Example C10_demo :
  let kf := fst (kstep new_ini (CSet 0 KString None (Some (bs "k")) (Some (bs "Yes Please")) 0%Z)) in
  kfinal kf [CGet 0 KBool None (Some (bs "k")) DNone; CGetAll 0; CWrite 0] = kf /\
  snd (kstep kf (CGet 0 KBool None (Some (bs "k")) DNone)) = ORc ECONF_PARSE_ERROR.
Proof. vm_compute. split; reflexivity. Qed.
