(* CommentLoop.v — the trailing-comment loop of read_file over all comment
   characters: it cuts exactly at the trailing comment. *)
From Coq Require Import String Lia List.
From Econf Require Import Bytes BytesFacts Grammar.
Local Open Scope N_scope.

(* the trailing-comment loop of read_file over all comment characters *)
Definition comment_loop (dl cm : str) (name : str) (cav0 : option str) : str * option nat * option str :=
  fold_left (fun st c => comment_step dl c st) cm (name, None, cav0).

Definition free_of (bad : str) (s : str) : bool := forallb (fun c => negb (mem c bad)) s.
Definition nonzero (s : str) : bool := forallb (fun c => negb (c =? 0)) s.

(* the text of a trailing comment is free of comment characters and quotes *)
Definition tc_ok (cm : str) (tc : option (byte * str)) : bool :=
  match tc with
  | None => true
  | Some (c, t) => mem c cm && free_of cm t && free_of [34] t && nonzero t
  end.

(* ---------- general list facts ---------- *)

Lemma rfind_idx_None (c : N) (l : str) : rfind_idx c l = None <-> ~ In c l.
Proof.
  induction l as [|x l IH]; simpl.
  - split; auto.
  - destruct (rfind_idx c l) as [i|] eqn:E.
    + split; [discriminate|]. intros H. exfalso.
      assert (H1 : ~ In c l) by tauto. apply IH in H1. discriminate.
    + destruct (N.eqb_spec x c) as [->|Hne].
      * split; [discriminate|]. intros H; exfalso; apply H; auto.
      * split; [|reflexivity]. intros _ [H|H]; [congruence|]. now apply IH in H.
Qed.

Lemma rfind_idx_notin (c : N) (l : str) : ~ In c l -> rfind_idx c l = None.
Proof. apply rfind_idx_None. Qed.

Lemma rfind_idx_lt (c : N) (l : str) (p : nat) : rfind_idx c l = Some p -> (p < length l)%nat.
Proof.
  revert p; induction l as [|x l IH]; simpl; intros p H; [discriminate|].
  destruct (rfind_idx c l) as [i|].
  - inversion H; subst. specialize (IH i eq_refl). lia.
  - destruct (x =? c); inversion H; subst. lia.
Qed.

Lemma rfind_idx_app_notin (c : N) (l1 l2 : str) :
  ~ In c l2 -> rfind_idx c (l1 ++ l2) = rfind_idx c l1.
Proof.
  intros H. induction l1 as [|x l1 IH]; simpl.
  - now apply rfind_idx_notin.
  - now rewrite IH.
Qed.

Lemma rfind_idx_app_in (c : N) (l1 l2 : str) (q : nat) :
  rfind_idx c l2 = Some q -> rfind_idx c (l1 ++ l2) = Some (length l1 + q)%nat.
Proof.
  intros H. induction l1 as [|x l1 IH]; simpl; [assumption|]. now rewrite IH.
Qed.

Lemma rfind_idx_head (c : N) (l : str) : ~ In c l -> rfind_idx c (c :: l) = Some O.
Proof. intros H. simpl. rewrite (rfind_idx_notin _ _ H). now rewrite N.eqb_refl. Qed.

Lemma find_idx_notin (c : N) (l : str) : ~ In c l -> find_idx c l = None.
Proof.
  induction l as [|x l IH]; simpl; intros H; [reflexivity|].
  destruct (N.eqb_spec x c) as [->|Hne]; [exfalso; apply H; auto|].
  rewrite IH; [reflexivity|]. intros H1; apply H; auto.
Qed.

Lemma find_idx_app_notin (c : N) (l1 l2 : str) :
  ~ In c l2 -> find_idx c (l1 ++ l2) = find_idx c l1.
Proof.
  intros H. induction l1 as [|x l1 IH]; simpl.
  - now apply find_idx_notin.
  - destruct (x =? c); [reflexivity|]. now rewrite IH.
Qed.

Lemma find_idx_app_first (c : N) (a r : str) :
  ~ In c a -> find_idx c (a ++ c :: r) = Some (length a).
Proof.
  induction a as [|x a IH]; simpl; intros H.
  - now rewrite N.eqb_refl.
  - destruct (N.eqb_spec x c) as [->|Hne]; [exfalso; apply H; auto|].
    rewrite IH; [reflexivity|]. intros H1; apply H; auto.
Qed.

Lemma firstn_length_app (a r : str) : firstn (length a) (a ++ r) = a.
Proof. induction a as [|x a IH]; simpl; [now destruct r|]. now rewrite IH. Qed.

Lemma skipn_S_length_app (a : str) (x : N) (r : str) : skipn (S (length a)) (a ++ x :: r) = r.
Proof. induction a as [|y a IH]; [reflexivity|]. exact IH. Qed.

Lemma nonzero_app (a b : str) : nonzero (a ++ b) = nonzero a && nonzero b.
Proof. apply forallb_app. Qed.

Lemma nonzero_cons (x : N) (a : str) : nonzero (x :: a) = negb (x =? 0) && nonzero a.
Proof. reflexivity. Qed.

Lemma cstr_nonzero (a : str) : nonzero a = true -> cstr a = a.
Proof. apply cstr_nozero. Qed.

Lemma cstr_app_zero (a r : str) : nonzero a = true -> cstr (a ++ 0 :: r) = a.
Proof.
  induction a as [|x a IH]; simpl; intros H; [reflexivity|].
  apply andb_true_iff in H as [H1 H2].
  destruct (x =? 0); [discriminate|]. f_equal; auto.
Qed.

Lemma free_of_notin (bad s : str) (c : N) : free_of bad s = true -> In c bad -> ~ In c s.
Proof.
  unfold free_of. intros H Hc Hs. rewrite forallb_forall in H. specialize (H c Hs).
  apply negb_true_iff in H. apply mem_In in Hc. congruence.
Qed.

Lemma free_of_one (x : N) (s : str) : free_of [x] s = true -> ~ In x s.
Proof. intros H. apply (free_of_notin [x] s x H). simpl; auto. Qed.

Lemma free_of_single (cm : str) (x c : N) : free_of cm [x] = true -> In c cm -> c <> x.
Proof. intros H Hc E. subst. apply (free_of_notin cm [x] x H Hc). simpl; auto. Qed.

(* ---------- one step of the loop ---------- *)

(* the quote test of comment_step *)
Definition qok (vis : str) (p : nat) : bool :=
  match find_idx 34 vis, rfind_idx 34 vis with
  | None, _ => true
  | Some _, Some lq => Nat.ltb lq p
  | Some _, None => true
  end.

(* comment character c leaves a buffer whose visible part is vis alone *)
Definition noeffect (c : N) (vis : str) : Prop :=
  match rfind_idx c vis with
  | None => True
  | Some O => True
  | Some p => qok vis p = false
  end.

Lemma step_noeffect (dl : str) (c : N) (nm : str) (di : option nat) (cav : option str) :
  noeffect c (cstr nm) -> exists di', comment_step dl c (nm, di, cav) = (nm, di', cav).
Proof.
  unfold noeffect, comment_step. intros H.
  destruct (rfind_idx c (cstr nm)) as [[|p]|]; eauto.
  unfold qok in H. rewrite H. eauto.
Qed.

Lemma step_cut (dl : str) (c : N) (nm : str) (di : option nat) (cav : option str) (p : nat) :
  rfind_idx c (cstr nm) = Some p -> p <> O -> qok (cstr nm) p = true ->
  exists di', comment_step dl c (nm, di, cav) =
              (firstn p nm ++ 0 :: skipn (S p) nm, di', append_opt cav (skipn (S p) (cstr nm))).
Proof.
  unfold comment_step. intros H Hp Hq. rewrite H. destruct p as [|p]; [congruence|].
  unfold qok in Hq. rewrite Hq. eauto.
Qed.

(* ---------- the loop ---------- *)

Definition run (dl cm : str) (st : str * option nat * option str) :=
  fold_left (fun st c => comment_step dl c st) cm st.

(* every comment character leaves a buffer showing pre alone *)
Definition quiet (cm pre : str) : Prop := forall c, In c cm -> noeffect c pre.

Lemma run_cons (dl : str) (c : N) (cm : str) st :
  run dl (c :: cm) st = run dl cm (comment_step dl c st).
Proof. reflexivity. Qed.

Lemma run_stable (dl cm pre : str) : quiet cm pre ->
  forall cm', incl cm' cm -> forall nm di cav, cstr nm = pre ->
  cstr (fst (fst (run dl cm' (nm, di, cav)))) = pre /\ snd (run dl cm' (nm, di, cav)) = cav.
Proof.
  intros Hq. induction cm' as [|c cm' IH]; intros Hi nm di cav Hnm; [simpl; auto|].
  rewrite !run_cons.
  assert (Hc : In c cm) by (apply Hi; simpl; auto).
  destruct (step_noeffect dl c nm di cav) as [di' E].
  { rewrite Hnm. now apply Hq. }
  rewrite E. apply IH; [|assumption]. intros x Hx; apply Hi; simpl; auto.
Qed.

Lemma qok_uncut (pre : str) (c0 : N) (t : str) (p : nat) :
  c0 <> 34 -> ~ In 34 t -> qok (pre ++ c0 :: t) p = qok pre p.
Proof.
  intros Hc Ht. unfold qok.
  assert (H : ~ In 34 (c0 :: t)) by (simpl; intros [H|H]; auto).
  now rewrite (find_idx_app_notin _ _ _ H), (rfind_idx_app_notin _ _ _ H).
Qed.

Lemma qok_length (pre : str) : qok pre (length pre) = true.
Proof.
  unfold qok. destruct (find_idx 34 pre); [|reflexivity].
  destruct (rfind_idx 34 pre) as [lq|] eqn:E; [|reflexivity].
  apply Nat.ltb_lt. now apply rfind_idx_lt in E.
Qed.

Lemma noeffect_uncut (pre : str) (c c0 : N) (t : str) :
  noeffect c pre -> c <> c0 -> ~ In c t -> c0 <> 34 -> ~ In 34 t ->
  noeffect c (pre ++ c0 :: t).
Proof.
  intros H Hc Ht H34 Ht34. unfold noeffect in *.
  assert (Hn : ~ In c (c0 :: t)) by (simpl; intros [E|E]; auto).
  rewrite (rfind_idx_app_notin _ _ _ Hn).
  destruct (rfind_idx c pre) as [[|p]|]; auto.
  now rewrite qok_uncut.
Qed.

Lemma run_uncut (dl cm pre : str) (c0 : N) (t : str) :
  quiet cm pre -> pre <> [] -> nonzero pre = true ->
  c0 <> 0 -> c0 <> 34 -> free_of cm t = true -> ~ In 34 t -> nonzero t = true ->
  forall cm', incl cm' cm -> In c0 cm' -> forall di,
  cstr (fst (fst (run dl cm' (pre ++ c0 :: t, di, None)))) = pre /\
  snd (run dl cm' (pre ++ c0 :: t, di, None)) = Some t.
Proof.
  intros Hq Hpre Hnz Hc0 Hc34 Hft Ht34 Htnz.
  assert (Hvis : cstr (pre ++ c0 :: t) = pre ++ c0 :: t).
  { apply cstr_nonzero. rewrite nonzero_app, nonzero_cons, Hnz, Htnz.
    apply N.eqb_neq in Hc0. now rewrite Hc0. }
  induction cm' as [|c cm' IH]; intros Hi Hin di; [destruct Hin|].
  assert (Hc : In c cm) by (apply Hi; simpl; auto).
  assert (Hi' : incl cm' cm) by (intros x Hx; apply Hi; simpl; auto).
  rewrite !run_cons. destruct (N.eq_dec c c0) as [->|Hne].
  - (* the cut *)
    assert (Hnt : ~ In c0 t) by (eapply free_of_notin; eauto).
    destruct (step_cut dl c0 (pre ++ c0 :: t) di None (length pre)) as [di' E].
    + rewrite Hvis. rewrite (rfind_idx_app_in c0 pre (c0 :: t) O).
      * f_equal. lia.
      * now apply rfind_idx_head.
    + destruct pre; [congruence|discriminate].
    + rewrite Hvis, qok_uncut by assumption. apply qok_length.
    + rewrite E, Hvis, firstn_length_app, skipn_S_length_app. simpl append_opt.
      apply (run_stable dl cm pre Hq cm' Hi'). now apply cstr_app_zero.
  - destruct (step_noeffect dl c (pre ++ c0 :: t) di None) as [di' E].
    { rewrite Hvis. apply noeffect_uncut; auto.
      eapply free_of_notin; eauto. }
    rewrite E. apply IH; [assumption|]. destruct Hin as [Hin|Hin]; [congruence|assumption].
Qed.

(* the common core of both theorems *)
Lemma comment_loop_core (dl cm pre : str) (tc : option (byte * str)) :
  quiet cm pre -> pre <> [] -> nonzero pre = true ->
  free_of cm [0] = true ->
  match tc with Some (c0, _) => c0 <> 34 | None => True end ->
  tc_ok cm tc = true ->
  let '(nm, di, cav) := comment_loop dl cm (pre ++ render_tc tc) None in
  cstr nm = pre /\ cav = option_map snd tc.
Proof.
  intros Hq Hpre Hnz H0 H34 Htc. unfold comment_loop.
  destruct tc as [[c0 t]|]; simpl render_tc; simpl option_map.
  - simpl in Htc.
    apply andb_true_iff in Htc as [Htc T3]. apply andb_true_iff in Htc as [Htc T2].
    apply andb_true_iff in Htc as [Htc T1].
    apply mem_In in Htc.
    pose proof (run_uncut dl cm pre c0 t Hq Hpre Hnz) as R.
    specialize (R (free_of_single cm 0 c0 H0 Htc) H34 T1 (free_of_one 34 t T2) T3
                  cm (incl_refl cm) Htc None).
    unfold run in R.
    destruct (fold_left _ cm (pre ++ c0 :: t, None, None)) as [[nm di] cav]. exact R.
  - rewrite app_nil_r.
    pose proof (run_stable dl cm pre Hq cm (incl_refl cm) pre None None (cstr_nonzero pre Hnz)) as R.
    unfold run in R.
    destruct (fold_left _ cm (pre, None, None)) as [[nm di] cav]. exact R.
Qed.

(* ---------- L1 ---------- *)

Lemma quiet_plain (cm pre : str) : free_of cm pre = true -> quiet cm pre.
Proof.
  intros H c Hc. unfold noeffect.
  rewrite rfind_idx_notin; [exact I|]. eapply free_of_notin; eauto.
Qed.

(* [comment_loop_plain] as stated in CommentLoop_statements.v is FALSE: when the
   character 34 is itself a comment character and starts the trailing comment,
   the quote test of comment_step fails at the cut (lq = p) and nothing is cut. *)
Theorem comment_loop_plain_counterexample :
  ~ (forall dl cm pre tc,
  pre <> [] -> nonzero pre = true -> free_of cm pre = true -> free_of [34] pre = true ->
  free_of cm [0] = true ->
  tc_ok cm tc = true ->
  let '(nm, di, cav) := comment_loop dl cm (pre ++ render_tc tc) None in
  cstr nm = pre /\ cav = option_map snd tc).
Proof.
  intros H.
  specialize (H [61] [34] [65] (Some (34, []))).
  simpl in H.
  destruct H as [_ H]; try reflexivity; discriminate.
Qed.

(* L1 corrected: the character of the trailing comment is not 34.  The
   hypothesis [free_of [34] pre] is not needed. *)
Theorem comment_loop_plain_corrected : forall dl cm pre tc,
  pre <> [] -> nonzero pre = true -> free_of cm pre = true -> free_of [34] pre = true ->
  free_of cm [0] = true ->            (* 0 is not a comment character *)
  tc_ok cm tc = true ->
  match tc with Some (c0, _) => c0 <> 34 | None => True end ->
  let '(nm, di, cav) := comment_loop dl cm (pre ++ render_tc tc) None in
  cstr nm = pre /\ cav = option_map snd tc.
Proof.
  intros dl cm pre tc Hpre Hnz Hf _ H0 Htc H34.
  apply comment_loop_core; auto. now apply quiet_plain.
Qed.

(* L1 corrected, with the hypothesis of L2: 34 is not a comment character *)
Theorem comment_loop_plain_corrected_noquote_cm : forall dl cm pre tc,
  pre <> [] -> nonzero pre = true -> free_of cm pre = true -> free_of [34] pre = true ->
  free_of cm [0] = true ->            (* 0 is not a comment character *)
  free_of cm [34] = true ->           (* 34 is not a comment character *)
  tc_ok cm tc = true ->
  let '(nm, di, cav) := comment_loop dl cm (pre ++ render_tc tc) None in
  cstr nm = pre /\ cav = option_map snd tc.
Proof.
  intros dl cm pre tc Hpre Hnz Hf Hq H0 H34 Htc.
  apply comment_loop_plain_corrected; auto.
  destruct tc as [[c0 t]|]; [|exact I].
  simpl in Htc. repeat (apply andb_true_iff in Htc as [Htc ?]).
  apply mem_In in Htc. eapply free_of_single; eauto.
Qed.

(* ---------- L2 ---------- *)

Lemma quiet_quoted (cm a inner b : str) :
  a <> [] -> free_of cm a = true -> free_of [34] a = true ->
  free_of cm b = true -> free_of [34] b = true -> free_of cm [34] = true ->
  quiet cm (a ++ 34 :: inner ++ 34 :: b).
Proof.
  intros Ha Hfa Hqa Hfb Hqb H34 c Hc. unfold noeffect.
  assert (Hca : ~ In c a) by exact (free_of_notin cm a c Hfa Hc).
  assert (Hcb : ~ In c b) by exact (free_of_notin cm b c Hfb Hc).
  assert (Hcq : c <> 34) by (eapply free_of_single; eauto).
  assert (Hqa' : ~ In 34 a) by now apply free_of_one.
  assert (Hqb' : ~ In 34 b) by now apply free_of_one.
  replace (a ++ 34 :: inner ++ 34 :: b) with ((a ++ 34 :: inner) ++ 34 :: b)
    by (rewrite <- app_assoc; reflexivity).
  rewrite (rfind_idx_app_notin c (a ++ 34 :: inner) (34 :: b))
    by (simpl; intros [E|E]; auto).
  destruct (rfind_idx c inner) as [q|] eqn:Ei.
  - rewrite (rfind_idx_app_in c a (34 :: inner) (S q)) by (simpl; now rewrite Ei).
    rewrite Nat.add_succ_r.
    unfold qok.
    rewrite (rfind_idx_app_in 34 (a ++ 34 :: inner) (34 :: b) O) by now apply rfind_idx_head.
    rewrite <- app_assoc. simpl app.
    rewrite (find_idx_app_first 34 a _ Hqa').
    apply Nat.ltb_ge. apply rfind_idx_lt in Ei.
    rewrite app_length. simpl length. lia.
  - apply rfind_idx_None in Ei.
    rewrite rfind_idx_notin; [exact I|].
    intros Hin. apply in_app_or in Hin. destruct Hin as [Hin|[Hin|Hin]]; auto.
Qed.

(* L2: one quoted stretch; comment characters may occur inside the quotes only *)
Theorem comment_loop_quoted : forall dl cm a inner b tc,
  a <> [] -> nonzero (a ++ inner ++ b) = true ->
  free_of cm a = true -> free_of [34] a = true ->
  free_of [34] inner = true ->
  free_of cm b = true -> free_of [34] b = true ->
  free_of cm [0] = true -> free_of cm [34] = true ->
  tc_ok cm tc = true ->
  let pre := a ++ 34 :: inner ++ 34 :: b in
  let '(nm, di, cav) := comment_loop dl cm (pre ++ render_tc tc) None in
  cstr nm = pre /\ cav = option_map snd tc.
Proof.
  intros dl cm a inner b tc Ha Hnz Hfa Hqa Hqi Hfb Hqb H0 H34 Htc pre.
  apply comment_loop_core; auto.
  - unfold pre. now apply quiet_quoted.
  - unfold pre. destruct a; [congruence|discriminate].
  - unfold pre. rewrite !nonzero_app in Hnz.
    apply andb_true_iff in Hnz as [N1 N2]. apply andb_true_iff in N2 as [N2 N3].
    rewrite nonzero_app, nonzero_cons, nonzero_app, nonzero_cons, N1, N2, N3. reflexivity.
  - destruct tc as [[c0 t]|]; [|exact I].
    simpl in Htc. repeat (apply andb_true_iff in Htc as [Htc ?]).
    apply mem_In in Htc. eapply free_of_single; eauto.
Qed.
