(* KeyfileModel.v — the configuration object and the set/get/list API
   (lib/libeconf.c, lib/helpers.c, lib/keyfile.c, lib/get_value_def.c,
   lib/libeconf_ext.c).  Model file: definitions only, no proofs. *)
From Coq Require Import String.
From Econf Require Export Bytes.
Local Open Scope N_scope.

Inductive econf_err :=
| ECONF_SUCCESS | ECONF_ERROR | ECONF_NOMEM | ECONF_NOFILE | ECONF_NOGROUP
| ECONF_NOKEY | ECONF_EMPTYKEY | ECONF_WRITEERROR | ECONF_PARSE_ERROR
| ECONF_MISSING_BRACKET | ECONF_MISSING_DELIMITER | ECONF_EMPTY_SECTION_NAME
| ECONF_TEXT_AFTER_SECTION | ECONF_FILE_LIST_IS_NULL | ECONF_WRONG_BOOLEAN_VALUE
| ECONF_KEY_HAS_NULL_VALUE | ECONF_WRONG_OWNER | ECONF_WRONG_GROUP
| ECONF_WRONG_FILE_PERMISSION | ECONF_WRONG_DIR_PERMISSION
| ECONF_ERROR_FILE_IS_SYM_LINK | ECONF_PARSING_CALLBACK_FAILED
| ECONF_ARGUMENT_IS_NULL_VALUE | ECONF_OPTION_NOT_FOUND
| ECONF_VALUE_CONVERSION_ERROR.

Definition all_errs : list econf_err :=
  [ECONF_SUCCESS; ECONF_ERROR; ECONF_NOMEM; ECONF_NOFILE; ECONF_NOGROUP;
   ECONF_NOKEY; ECONF_EMPTYKEY; ECONF_WRITEERROR; ECONF_PARSE_ERROR;
   ECONF_MISSING_BRACKET; ECONF_MISSING_DELIMITER; ECONF_EMPTY_SECTION_NAME;
   ECONF_TEXT_AFTER_SECTION; ECONF_FILE_LIST_IS_NULL; ECONF_WRONG_BOOLEAN_VALUE;
   ECONF_KEY_HAS_NULL_VALUE; ECONF_WRONG_OWNER; ECONF_WRONG_GROUP;
   ECONF_WRONG_FILE_PERMISSION; ECONF_WRONG_DIR_PERMISSION;
   ECONF_ERROR_FILE_IS_SYM_LINK; ECONF_PARSING_CALLBACK_FAILED;
   ECONF_ARGUMENT_IS_NULL_VALUE; ECONF_OPTION_NOT_FOUND;
   ECONF_VALUE_CONVERSION_ERROR].

Definition err_code (e : econf_err) : N :=
  match e with
  | ECONF_SUCCESS => 0 | ECONF_ERROR => 1 | ECONF_NOMEM => 2 | ECONF_NOFILE => 3
  | ECONF_NOGROUP => 4 | ECONF_NOKEY => 5 | ECONF_EMPTYKEY => 6
  | ECONF_WRITEERROR => 7 | ECONF_PARSE_ERROR => 8 | ECONF_MISSING_BRACKET => 9
  | ECONF_MISSING_DELIMITER => 10 | ECONF_EMPTY_SECTION_NAME => 11
  | ECONF_TEXT_AFTER_SECTION => 12 | ECONF_FILE_LIST_IS_NULL => 13
  | ECONF_WRONG_BOOLEAN_VALUE => 14 | ECONF_KEY_HAS_NULL_VALUE => 15
  | ECONF_WRONG_OWNER => 16 | ECONF_WRONG_GROUP => 17
  | ECONF_WRONG_FILE_PERMISSION => 18 | ECONF_WRONG_DIR_PERMISSION => 19
  | ECONF_ERROR_FILE_IS_SYM_LINK => 20 | ECONF_PARSING_CALLBACK_FAILED => 21
  | ECONF_ARGUMENT_IS_NULL_VALUE => 22 | ECONF_OPTION_NOT_FOUND => 23
  | ECONF_VALUE_CONVERSION_ERROR => 24
  end.

Definition err_eqb (a b : econf_err) : bool := err_code a =? err_code b.

(* lib/econf_error.c: the documented message of every code *)
Definition err_message (e : econf_err) : str :=
  match e with
  | ECONF_SUCCESS => bs "Success"
  | ECONF_ERROR => bs "Unknown error"
  | ECONF_NOMEM => bs "Out of memory"
  | ECONF_NOFILE => bs "Configuration file not found"
  | ECONF_NOGROUP => bs "Group not found"
  | ECONF_NOKEY => bs "Key not found"
  | ECONF_EMPTYKEY => bs "Key is NULL or has empty value"
  | ECONF_WRITEERROR => bs "Error creating or writing to a file"
  | ECONF_PARSE_ERROR => bs "Parse error"
  | ECONF_MISSING_BRACKET => bs "Missing bracket"
  | ECONF_MISSING_DELIMITER => bs "Missing delimiter"
  | ECONF_EMPTY_SECTION_NAME => bs "Empty section name"
  | ECONF_TEXT_AFTER_SECTION => bs "Text after section"
  | ECONF_FILE_LIST_IS_NULL => bs "Conf file list is NULL"
  | ECONF_WRONG_BOOLEAN_VALUE => bs "Wrong boolean value (1/0 true/false yes/no)"
  | ECONF_KEY_HAS_NULL_VALUE => bs "Given key has NULL value"
  | ECONF_WRONG_OWNER => bs "File has wrong owner"
  | ECONF_WRONG_GROUP => bs "File has wrong group"
  | ECONF_WRONG_FILE_PERMISSION => bs "File has wrong file permissions"
  | ECONF_WRONG_DIR_PERMISSION => bs "File has wrong dir permissions"
  | ECONF_ERROR_FILE_IS_SYM_LINK => bs "File is a sym link which is not permitted"
  | ECONF_PARSING_CALLBACK_FAILED => bs "User defined parsing callback has failed"
  | ECONF_ARGUMENT_IS_NULL_VALUE => bs "Given argument is NULL"
  | ECONF_OPTION_NOT_FOUND => bs "Given option not found"
  | ECONF_VALUE_CONVERSION_ERROR => bs "Value cannot be converted"
  end.

Definition err_name (e : econf_err) : str :=
  match e with
  | ECONF_SUCCESS => bs "ECONF_SUCCESS" | ECONF_ERROR => bs "ECONF_ERROR" | ECONF_NOMEM => bs "ECONF_NOMEM"
  | ECONF_NOFILE => bs "ECONF_NOFILE" | ECONF_NOGROUP => bs "ECONF_NOGROUP" | ECONF_NOKEY => bs "ECONF_NOKEY"
  | ECONF_EMPTYKEY => bs "ECONF_EMPTYKEY" | ECONF_WRITEERROR => bs "ECONF_WRITEERROR"
  | ECONF_PARSE_ERROR => bs "ECONF_PARSE_ERROR" | ECONF_MISSING_BRACKET => bs "ECONF_MISSING_BRACKET"
  | ECONF_MISSING_DELIMITER => bs "ECONF_MISSING_DELIMITER" | ECONF_EMPTY_SECTION_NAME => bs "ECONF_EMPTY_SECTION_NAME"
  | ECONF_TEXT_AFTER_SECTION => bs "ECONF_TEXT_AFTER_SECTION" | ECONF_FILE_LIST_IS_NULL => bs "ECONF_FILE_LIST_IS_NULL"
  | ECONF_WRONG_BOOLEAN_VALUE => bs "ECONF_WRONG_BOOLEAN_VALUE" | ECONF_KEY_HAS_NULL_VALUE => bs "ECONF_KEY_HAS_NULL_VALUE"
  | ECONF_WRONG_OWNER => bs "ECONF_WRONG_OWNER" | ECONF_WRONG_GROUP => bs "ECONF_WRONG_GROUP"
  | ECONF_WRONG_FILE_PERMISSION => bs "ECONF_WRONG_FILE_PERMISSION" | ECONF_WRONG_DIR_PERMISSION => bs "ECONF_WRONG_DIR_PERMISSION"
  | ECONF_ERROR_FILE_IS_SYM_LINK => bs "ECONF_ERROR_FILE_IS_SYM_LINK"
  | ECONF_PARSING_CALLBACK_FAILED => bs "ECONF_PARSING_CALLBACK_FAILED"
  | ECONF_ARGUMENT_IS_NULL_VALUE => bs "ECONF_ARGUMENT_IS_NULL_VALUE" | ECONF_OPTION_NOT_FOUND => bs "ECONF_OPTION_NOT_FOUND"
  | ECONF_VALUE_CONVERSION_ERROR => bs "ECONF_VALUE_CONVERSION_ERROR"
  end.

(* econf_errString: codes beyond the table get a generic text *)
Definition err_string (n : N) : str :=
  match find (fun e => err_code e =? n) all_errs with
  | Some e => err_message e
  | None => bs "Unknown libeconf error " ++
            (* %i of a small non-negative number *)
            (fix digits (fuel : nat) (z : N) (acc : str) : str :=
               match fuel with
               | O => acc
               | S f => let acc' := (48 + z mod 10) :: acc in
                        if z / 10 =? 0 then acc' else digits f (z / 10) acc'
               end) 20%nat n []
  end.

(* ------------------------------------------------------------------ *)
(* The object *)

Record entry := mkE {
  e_group : str;              (* "_none_" = group-less, as in C *)
  e_key : str;
  e_value : option str;       (* None = NULL pointer *)
  e_cbk : option str;         (* comment_before_key *)
  e_cav : option str;         (* comment_after_value *)
  e_line : N;
  e_quotes : bool }.

Record keyfile := mkKF {
  kf_entries : list entry;    (* live entries, length = kf->length *)
  kf_spare : nat;             (* alloc_length - length: pre-initialised slots *)
  kf_groups : list str;       (* kf->groups in first-appearance order *)
  kf_delim : byte;
  kf_comment : byte;
  kf_path : option str;
  kf_join : bool;
  kf_python : bool;
  kf_parse_dirs : list str;
  kf_conf_dirs : list str;
  kf_root_prefix : option str }.

Definition set_entries (kf : keyfile) (es : list entry) : keyfile :=
  mkKF es (kf_spare kf) (kf_groups kf) (kf_delim kf) (kf_comment kf) (kf_path kf)
       (kf_join kf) (kf_python kf) (kf_parse_dirs kf) (kf_conf_dirs kf) (kf_root_prefix kf).
Definition set_groups (kf : keyfile) (gs : list str) : keyfile :=
  mkKF (kf_entries kf) (kf_spare kf) gs (kf_delim kf) (kf_comment kf) (kf_path kf)
       (kf_join kf) (kf_python kf) (kf_parse_dirs kf) (kf_conf_dirs kf) (kf_root_prefix kf).
Definition set_spare (kf : keyfile) (n : nat) : keyfile :=
  mkKF (kf_entries kf) n (kf_groups kf) (kf_delim kf) (kf_comment kf) (kf_path kf)
       (kf_join kf) (kf_python kf) (kf_parse_dirs kf) (kf_conf_dirs kf) (kf_root_prefix kf).
Definition set_tags (kf : keyfile) (d c : byte) : keyfile :=
  mkKF (kf_entries kf) (kf_spare kf) (kf_groups kf) d c (kf_path kf)
       (kf_join kf) (kf_python kf) (kf_parse_dirs kf) (kf_conf_dirs kf) (kf_root_prefix kf).
Definition set_path (kf : keyfile) (p : option str) : keyfile :=
  mkKF (kf_entries kf) (kf_spare kf) (kf_groups kf) (kf_delim kf) (kf_comment kf) p
       (kf_join kf) (kf_python kf) (kf_parse_dirs kf) (kf_conf_dirs kf) (kf_root_prefix kf).

(* setGroupList: intern a group name *)
Definition intern (gs : list str) (g : str) : list str :=
  if mem_str g gs then gs else gs ++ [g].

(* helpers.c: initialize() *)
Definition init_entry : entry := mkE none_s none_s (Some none_s) None None 0 false.

(* econf_newKeyFile: 8 pre-initialised slots, each interning "_none_" *)
Definition KEY_FILE_DEFAULT_LENGTH : nat := 8.
Definition new_keyfile (d c : byte) : keyfile :=
  mkKF [] KEY_FILE_DEFAULT_LENGTH [none_s] d c None false false [] [] None.
Definition new_ini : keyfile := new_keyfile 61 35.
(* econf_newKeyFile_with_options(""): calloc, nothing pre-allocated *)
Definition new_empty : keyfile := mkKF [] 0 [] 0 0 None false false [] [] None.

(* the group argument as find_key / new_key / getKeys see it *)
Definition norm_group (g : option str) : str :=
  match g with None => none_s | Some [] => none_s | Some s => s end.

(* helpers.c: stripbrackets, including "[a]b]" |-> "a" *)
Definition strip_brackets (s : str) : str :=
  match s with
  | 91 :: rest =>
      match rev s with
      | 93 :: _ => take_while (fun c => negb (c =? 93)) rest
      | _ => s
      end
  | _ => s
  end.
Definition strip_opt (g : option str) : option str := option_map strip_brackets g.

Fixpoint find_from (es : list entry) (g k : str) (i : nat) : option nat :=
  match es with
  | [] => None
  | e :: es' => if str_eqb (e_group e) g && str_eqb (e_key e) k then Some i
                else find_from es' g k (S i)
  end.

(* helpers.c: find_key *)
Definition find_key (kf : keyfile) (g : option str) (k : option str) : econf_err + nat :=
  match k with
  | None => inl ECONF_ERROR
  | Some [] => inl ECONF_ERROR
  | Some k' => match find_from (kf_entries kf) (norm_group g) k' O with
               | Some i => inr i
               | None => inl ECONF_NOKEY
               end
  end.

Fixpoint upd_nth {A} (l : list A) (n : nat) (f : A -> A) : list A :=
  match l, n with
  | [], _ => []
  | x :: l', O => f x :: l'
  | x :: l', S n' => x :: upd_nth l' n' f
  end.

Definition with_value (v : option str) (e : entry) : entry :=
  mkE (e_group e) (e_key e) v (e_cbk e) (e_cav e) (e_line e) (e_quotes e).

(* keyfile.c: key_file_append + helpers.c: new_key — a fresh entry at the end.
   A new slot is initialised through initialize(), which interns "_none_";
   a pre-allocated slot was initialised when the object was created. *)
Definition append_new (kf : keyfile) (g k : str) : keyfile :=
  let gs0 := match kf_spare kf with O => intern (kf_groups kf) none_s | S _ => kf_groups kf end in
  let gs := intern gs0 g in
  let e := mkE g k (Some none_s) None None 0 false in
  mkKF (kf_entries kf ++ [e]) (Nat.pred (kf_spare kf)) gs (kf_delim kf) (kf_comment kf)
       (kf_path kf) (kf_join kf) (kf_python kf) (kf_parse_dirs kf) (kf_conf_dirs kf)
       (kf_root_prefix kf).

(* what a set*ValueNum does with the slot: either a new text or a refusal *)
Inductive setres := SetTo (v : str) | SetRefuse (e : econf_err).

(* helpers.c: setKeyValue, under the argument checks of the libeconf_setValue macro *)
Definition set_value (kf : keyfile) (g k : option str) (r : setres) : keyfile * econf_err :=
  match k with
  | None => (kf, ECONF_EMPTYKEY)
  | Some [] => (kf, ECONF_EMPTYKEY)
  | Some k' =>
      let g' := strip_opt g in
      let '(kf1, num) :=
        match find_key kf g' k with
        | inr i => (kf, i)
        | inl _ => let kf1 := append_new kf (norm_group g') k' in
                   (kf1, Nat.pred (length (kf_entries kf1)))
        end in
      match r with
      | SetTo v => (set_entries kf1 (upd_nth (kf_entries kf1) num (with_value (Some v))), ECONF_SUCCESS)
      | SetRefuse e => (kf1, e)
      end
  end.

(* ------------------------------------------------------------------ *)
(* text forms *)

Definition lower (s : str) : str := map tolower s.

(* keyfile.c: setBoolValueNum (after the repair: the text is compared) *)
Definition bool_set_text (v : option str) : setres :=
  let value := match v with Some s => s | None => none_s end in
  let l := lower value in
  if str_eqb value [49] || str_eqb l (bs "yes") || str_eqb l (bs "true") then SetTo (bs "true")
  else if str_eqb value [48] || str_eqb l (bs "no") || str_eqb l (bs "false") then SetTo (bs "false")
  else if str_eqb l none_s || match value with [] => true | _ => false end then SetTo none_s
  else SetRefuse ECONF_WRONG_BOOLEAN_VALUE.

(* keyfile.c: getBoolValueNum *)
Definition bool_get_text (v : option str) : econf_err + bool :=
  match v with
  | None => inl ECONF_KEY_HAS_NULL_VALUE
  | Some s =>
      let l := lower s in
      if str_eqb l [49] || str_eqb l (bs "yes") || str_eqb l (bs "true") then inr true
      else if str_eqb l [48] || str_eqb l [] || str_eqb l (bs "no") || str_eqb l (bs "false") then inr false
      else if str_eqb l none_s then inl ECONF_KEY_HAS_NULL_VALUE
      else inl ECONF_PARSE_ERROR
  end.

(* ------------------------------------------------------------------ *)
(* getters *)

Definition nth_entry (kf : keyfile) (i : nat) : entry := nth i (kf_entries kf) init_entry.

(* the econf_getValue macro: lookup with bracket stripping *)
Definition lookup (kf : keyfile) (g k : option str) : econf_err + entry :=
  match find_key kf (strip_opt g) k with
  | inl e => inl e
  | inr i => inr (nth_entry kf i)
  end.

Definition get_string (kf : keyfile) (g k : option str) : econf_err + option str :=
  match lookup kf g k with inl e => inl e | inr e => inr (e_value e) end.

Definition get_bool (kf : keyfile) (g k : option str) : econf_err + bool :=
  match lookup kf g k with inl e => inl e | inr e => bool_get_text (e_value e) end.

(* econf_getGroups *)
Definition get_groups (kf : keyfile) : econf_err + list str :=
  match kf_groups kf with
  | [] => inl ECONF_NOGROUP
  | gs => inr (filter (fun g => negb (str_eqb g none_s)) gs)
  end.

(* econf_getKeys: no bracket stripping here *)
Definition get_keys (kf : keyfile) (g : option str) : econf_err + list str :=
  let grp := norm_group g in
  match map e_key (filter (fun e => str_eqb (e_group e) grp) (kf_entries kf)) with
  | [] => inl ECONF_NOKEY
  | ks => inr ks
  end.

(* libeconf_ext.c: econf_getExtValue (find_key without bracket stripping) *)
Record extval := mkExt {
  x_values : list str; x_file : option str; x_line : N;
  x_cbk : option str; x_cav : option str }.

Definition ext_values (v : option str) : list str :=
  match v with
  | None => []
  | Some s =>
      let t := trim s in
      match t with
      | 34 :: _ => [t]
      | _ => map trim (split_on nl t)
      end
  end.

Definition get_ext (kf : keyfile) (g k : option str) : econf_err + extval :=
  match find_key kf g k with
  | inl e => inl e
  | inr i => let e := nth_entry kf i in
             inr (mkExt (ext_values (e_value e)) (kf_path kf) (e_line e) (e_cbk e) (e_cav e))
  end.

Definition get_path (kf : keyfile) : str :=
  match kf_path kf with Some p => p | None => [] end.
