(* Properties_C02.v — C02: conventional files parse to exactly the sections,
   keys and values written.  The grammar (DESIGN.md 5.1) is Grammar.v: AST,
   rendering, side conditions [wf_file], meaning [expected].  Proofs:
   LineBase.v, CommentLoop.v, KeyLine{N,W,M,0}.v, ContLines.v, ParserFacts.v,
   ParserFile.v. *)
From Coq Require Import String Lia List.
From Econf Require Import Bytes BytesFacts Grammar LineBase ParserFacts ParserFile MapSpec KeyfileFacts.
Local Open Scope N_scope.

(* For EVERY delimiter set of every class (non-blank only, blank only, mixed,
   none) and every comment-character set accepted by dl_ok / cm_ok, and every
   well-formed list of lines (unbounded number and length): reading the
   rendered bytes succeeds and yields exactly the expected entries — group,
   key, value (NULL vs empty text included), both comments, last line number
   and quote flag of each — the sections in order of first appearance and the
   number of lines read. *)
Theorem C02_parse : forall dl cm ls,
  wf_file dl cm ls = true ->
  read_bytes std_opts dl cm (render ls) =
  mkRO ECONF_SUCCESS (rev (p_rev (expected dl ls))) (p_groups (expected dl ls)) (N.of_nat (length ls)).
Proof. exact parse_file_ok. Qed.
Print Assumptions C02_parse.

(* line by line, in every parser state the invariant allows *)
Theorem C02_line : forall dl cm prev s l,
  cm_ok cm = true -> dl_ok dl cm = true -> wf_line dl cm prev l = true -> Inv prev s ->
  parse_line std_opts dl cm s (render_line l) = PCont (exp_step dl s l) /\
  Inv (is_entry_line l) (exp_step dl s l).
Proof. exact line_ok. Qed.
Print Assumptions C02_line.

(* sections (and the group-less pseudo section) in order of first mention *)
Fixpoint mentions (dl : str) (cur : option str) (ls : list cline) : list str :=
  match ls with
  | [] => []
  | LSection _ name _ :: ls' => name :: mentions dl (Some name) ls'
  | LKey _ :: ls' => (match cur with Some g => g | None => none_s end) :: mentions dl cur ls'
  | _ :: ls' => mentions dl cur ls'
  end.

Lemma groups_mentions dl ls : forall s,
  p_groups (fold_left (exp_step dl) ls s) = fold_left intern (mentions dl (p_cur s) ls) (p_groups s) /\
  True.
Proof.
  induction ls as [|l ls IH]; intros s; [split; reflexivity|].
  split; [|exact I]. cbn [fold_left]. destruct (IH (exp_step dl s l)) as [H _]. rewrite H.
  destruct l as [ws|ind c text|ind name post|k|ind text post tc]; cbn [mentions exp_step p_cur p_groups fold_left]; try reflexivity.
  destruct (p_rev s); reflexivity.
Qed.

Theorem C02_sections_order : forall dl ls,
  p_groups (expected dl ls) = fold_left intern (mentions dl None ls) [].
Proof. intros dl ls. unfold expected. now destruct (groups_mentions dl ls init_pstate). Qed.
Print Assumptions C02_sections_order.

(* looking a key up yields its first definition in file order *)
Theorem C02_first_definition : forall kf g k,
  k <> [] ->
  lookup_value kf g (Some k) =
  match get_first (kf_entries kf) (sec_of g) k with
  | Some e => inr (e_value e)
  | None => inl ECONF_NOKEY
  end.
Proof.
  intros kf g k Hk. rewrite (lookup_value_refines kf (abs kf) g (Some k) (refines_abs kf)).
  unfold spec_lookup. destruct k as [|c k]; [congruence|].
  cbn [abs sp_binds]. rewrite proj_unfold, get_first_al. now destruct (get_first _ _ _).
Qed.
Print Assumptions C02_first_definition.

(* non-vacuity: one file per delimiter class *)
Definition demo_lines (d : option byte) (b1 b2 : str) : list cline :=
  [LComment [] 35 (bs " heading = [x] ""q"" # more");
   LKey (mkKL [] (bs "top") b1 d [] (VPlain (bs "1")) [] None);
   LBlank [];
   LSection [32] (bs "sec one") [9];
   LKey (mkKL [32] (bs "k") b1 d b2 (VQuoted (bs " a # b ")) [32] (Some (35, bs " why")));
   LKey (mkKL [] (bs "k") b1 d [] (VPlain []) [] None);
   LSection [] (bs "B") [];
   LSection [] (bs "sec one") [];
   LKey (mkKL [] (bs "z") b1 d [] (VPlain (bs "x y")) [] None)].

Example C02_demo_N :
  wf_file (bs "=") (bs "#;") (demo_lines (Some 61) [] [32] ++ [LCont [32; 32] (bs "more text") [] None]) = true /\
  agrees (bs "=") (bs "#;") (demo_lines (Some 61) [] [32] ++ [LCont [32; 32] (bs "more text") [] None]) = true.
Proof. vm_compute. split; reflexivity. Qed.
Example C02_demo_W :
  wf_file (bs " ") (bs "#") (demo_lines None [9; 32] [] ++ [LCont [32] (bs "tok") [] None]) = true /\
  agrees (bs " ") (bs "#") (demo_lines None [9; 32] [] ++ [LCont [32] (bs "tok") [] None]) = true.
Proof. vm_compute. split; reflexivity. Qed.
Example C02_demo_M :
  wf_file (bs " =") (bs "#") (demo_lines (Some 61) [32] [9]) = true /\
  wf_file (bs " =") (bs "#") (demo_lines None [32] []) = true /\
  agrees (bs " =") (bs "#") (demo_lines None [32] []) = true.
Proof. vm_compute. repeat split; reflexivity. Qed.
Example C02_demo_0 :
  wf_file [] (bs "#") [LKey (mkKL [32] (bs "only") [] None [] (VPlain []) [32] None); LSection [] (bs "s") [];
                       LKey (mkKL [] (bs "keys") [] None [] (VPlain []) [] None)] = true.
Proof. vm_compute. reflexivity. Qed.
