(* Properties_C13.v — C13: parse failures name the right error and line and
   hand back nothing partial; every code maps to its documented message. *)
From Coq Require Import String Lia List.
From Econf Require Import Bytes BytesFacts Grammar CommentLoop LineBase ParserFacts ParserFile BadLines BadFacts LayeredModel LayeredScenario WorldFacts
                          Scenario Generated_facts PathFacts.
Local Open Scope N_scope.

(* a malformed line (no closing bracket, text after the bracket, empty section
   name, key followed by text without delimiter under a non-blank delimiter
   set) stops the parser with its specific code, in every state a conventional
   prefix can lead to *)
Theorem C13_line_stops : forall dl cm prev s b,
  cm_ok cm = true -> dl_ok dl cm = true -> wf_bad dl cm prev b = true -> Inv prev s ->
  parse_line std_opts dl cm s (render_bad b ++ [10]) = PStop (bad_code b) (bump s).
Proof. exact bad_line_stop. Qed.
Print Assumptions C13_line_stops.

(* file level: after any conventional prefix (first, middle or last position,
   after comments or continuation lines), whatever follows the malformed line:
   the code of that line and its 1-based line number *)
Theorem C13_error_at : forall dl cm pre b rest,
  wf_file dl cm pre = true -> wf_bad dl cm (last_is_entry pre) b = true ->
  r_err (read_bytes std_opts dl cm (render pre ++ render_bad b ++ 10 :: rest)) = bad_code b /\
  r_lines (read_bytes std_opts dl cm (render pre ++ render_bad b ++ 10 :: rest)) = N.of_nat (length pre) + 1.
Proof. exact parse_error_at. Qed.
Print Assumptions C13_error_at.

(* nothing partial: in the scenario step a failed read leaves no object *)
Theorem C13_no_partial : forall st o path content dl cm py jn,
  r_err (read_bytes (mkPopts py jn) dl cm content) <> ECONF_SUCCESS ->
  sget (fst (step st (CParse o path content dl cm py jn))) o = None.
Proof.
  intros st o path content dl cm py jn H. cbn [step].
  destruct (r_err (read_bytes (mkPopts py jn) dl cm content)) eqn:E; try congruence; cbn [fst];
  clear; induction st as [|[o' k] st IH]; cbn [sdel sget]; auto;
  destruct (Nat.eqb o o') eqn:E; auto; cbn [sget]; rewrite E; exact IH.
Qed.
Print Assumptions C13_no_partial.

(* ---- the message table, regenerated from include/libeconf.h and
        lib/econf_error.c on every run ---- *)
Definition s2b (s : string) : str := bs s.

Theorem C13_enum_matches_model :
  map (fun p => (s2b (fst p), snd p)) gen_errors = map (fun e => (err_name e, err_code e)) all_errs.
Proof. vm_compute. reflexivity. Qed.
Print Assumptions C13_enum_matches_model.

(* one message per code, labelled in enum order, with the documented text *)
Theorem C13_messages :
  length gen_messages = gen_message_count /\
  map (fun p => (s2b (fst p), s2b (snd p))) gen_messages = map (fun e => (err_name e, err_message e)) all_errs.
Proof. vm_compute. split; reflexivity. Qed.
Print Assumptions C13_messages.

Theorem C13_errstring : forall e, err_string (err_code e) = err_message e.
Proof. intros e. destruct e; vm_compute; reflexivity. Qed.
Print Assumptions C13_errstring.

(* the error location is a record, not a message that is consumed: asking for it changes nothing, asking twice gives
   the same file and line *)
Theorem C13_location_is_a_record : forall w,
  fst (wstep w WErrLoc) = w /\
  snd (wstep (fst (wstep w WErrLoc)) WErrLoc) = snd (wstep w WErrLoc).
Proof. exact errloc_is_a_record. Qed.
Print Assumptions C13_location_is_a_record.

(* the file name recorded with an object and reported as error location
   (real_name: what get_absolute_path makes of the caller's spelling) is
   absolute whatever the spelling was, and resolving it again changes nothing:
   a read by the reported name is a read of that name (PathFacts.v) *)
Theorem C13_reported_name_absolute : forall t p, is_abs (real_name t p) = true.
Proof. exact real_name_abs. Qed.
Print Assumptions C13_reported_name_absolute.
Theorem C13_reported_name_fixed_point : forall t p, real_name t (real_name t p) = real_name t p.
Proof. exact real_name_idem. Qed.
Print Assumptions C13_reported_name_fixed_point.

(* the working directory: a relative name given after the process has moved to
   [cwd] is re-spelled relative to the root (CwdModel.respell, used by the
   model driver for `readfile` after `chdir`); the re-spelled name is still
   relative, absolute names are untouched, and the file the model resolves it
   to is the one named cwd/p *)
Theorem C13_respell_relative : forall cwd p, is_abs p = false -> is_abs (respell cwd p) = false.
Proof. exact respell_rel. Qed.
Print Assumptions C13_respell_relative.
Theorem C13_respell_absolute : forall cwd p, is_abs p = true -> respell cwd p = p.
Proof. exact respell_abs. Qed.
Print Assumptions C13_respell_absolute.
Theorem C13_respell_names_cwd_file : forall t cwd p, is_abs p = false ->
  real_name t (respell cwd p) = fs_resolve 8 t (squeeze (cwd ++ 47 :: p)).
Proof. exact respell_real_name. Qed.
Print Assumptions C13_respell_names_cwd_file.

Example C13_demo :
  let pre := [LComment [] 35 (bs " x"); LKey (mkKL [] (bs "a") [] (Some 61) [] (VPlain (bs "1")) [] None);
              LCont [32] (bs "more") [] None; LBlank []] in
  wf_file (bs "=") (bs "#") pre = true /\
  wf_bad (bs "=") (bs "#") (last_is_entry pre) (BadNoDelim [] (bs "key") [32] (bs "value")) = true /\
  wf_bad (bs "=") (bs "#") false (BadTextAfter [32] (bs "s") [] (bs "x")) = true.
Proof. vm_compute. repeat split. Qed.
