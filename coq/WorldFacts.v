(* WorldFacts.v — facts about the scenario world (LayeredScenario.v): the file tree as econf_writeFile leaves it,
   the error location as a record that asking does not change. *)
From Coq Require Import String Lia List.
From Econf Require Import Bytes BytesFacts LayeredModel LayeredScenario.
Local Open Scope N_scope.

Lemma tput_lookup_same : forall t p n, tlookup (tput t p n) p = Some n.
Proof.
  induction t as [|[q m] t IH]; intros p n; cbn [tput tlookup].
  - now rewrite str_eqb_refl.
  - destruct (str_eqb q p) eqn:E; cbn [tlookup].
    + now rewrite str_eqb_refl.
    + rewrite E. apply IH.
Qed.

Lemma tput_lookup_other : forall t p q n, p <> q -> tlookup (tput t p n) q = tlookup t q.
Proof.
  induction t as [|[r m] t IH]; intros p q n Hne; cbn [tput tlookup].
  - apply str_eqb_neq in Hne. now rewrite Hne.
  - destruct (str_eqb r p) eqn:E; cbn [tlookup].
    + apply str_eqb_eq in E. subst r. apply str_eqb_neq in Hne. now rewrite Hne.
    + destruct (str_eqb r q); [reflexivity|]. now apply IH.
Qed.

(* econf_writeFile(kf, dir, name) on an existing directory, name not a directory: success, and afterwards the file
   dir/name IS the text of the object — whatever was there before (nothing, a shorter file, a longer file) — and
   no other node of the tree has changed *)
Theorem write_replaces_file : forall w o dir fname kf d1 d2,
  sget (w_store w) o = Some kf ->
  tlookup (w_tree w) (fs_resolve 8 (w_tree w) (squeeze dir)) = Some (NDir d1 d2) ->
  (forall a b, tlookup (w_tree w) (fs_resolve 8 (w_tree w) (squeeze (dir ++ 47 :: fname))) <> Some (NDir a b)) ->
  let p := fs_resolve 8 (w_tree w) (squeeze (dir ++ 47 :: fname)) in
  let w' := fst (wstep w (WWriteTo o dir fname)) in
  snd (wstep w (WWriteTo o dir fname)) = ORc ECONF_SUCCESS /\
  tlookup (w_tree w') p = Some (NFile (write_model kf) 0 0) /\
  (forall q, q <> p -> tlookup (w_tree w') q = tlookup (w_tree w) q) /\
  w_store w' = w_store w /\ w_g w' = w_g w.
Proof.
  intros w o dir fname kf d1 d2 Hget Hdir Hnd p w'.
  subst w'. cbn [wstep]. rewrite Hget, Hdir. fold p.
  destruct (tlookup (w_tree w) p) as [[c u g|t0 u g|a b]|] eqn:E; cbn [fst snd w_tree w_store w_g];
    try (repeat split; [apply tput_lookup_same | intros q Hq; apply tput_lookup_other; congruence]).
  exfalso. exact (Hnd a b E).
Qed.

(* the error location is a record: asking for it changes nothing, so asking twice gives the same answer *)
Theorem errloc_is_a_record : forall w,
  fst (wstep w WErrLoc) = w /\
  snd (wstep (fst (wstep w WErrLoc)) WErrLoc) = snd (wstep w WErrLoc).
Proof. intros w. split; reflexivity. Qed.
