(* Properties_C03.v — C03: merging two configurations is a complete, ordered,
   non-destructive override.  Statements about [merge_entries] (the model of
   econf_mergeFiles) for ALL pairs of entry lists: any length, any
   interleaving of groups, re-opened sections, duplicate keys, empty sides.
   Proofs are in MergeFacts.v. *)
From Coq Require Import String Lia List.
From Econf Require Import Bytes BytesFacts Scenario MergeModel MergeSpec MergeFacts StoreFacts.
Local Open Scope N_scope.

(* the visible value of every (section, key) of the result: the override's
   when it defines that key, otherwise the base's (NULL and "" identified) *)
Theorem C03_lookup : forall b o g k,
  vis (merge_entries b o) g k = match vis o g k with Some v => Some v | None => vis b g k end.
Proof. exact merge_lookup. Qed.
Print Assumptions C03_lookup.

(* complete: a pair is visible in the result iff it is visible in an input *)
Theorem C03_complete : forall b o g k,
  vis (merge_entries b o) g k = None <-> (vis o g k = None /\ vis b g k = None).
Proof.
  intros b o g k. rewrite merge_lookup. destruct (vis o g k); split.
  - discriminate.
  - intros [H _]. discriminate.
  - auto.
  - tauto.
Qed.
Print Assumptions C03_complete.

(* nothing else appears *)
Theorem C03_nothing_else : forall b o e,
  In e (merge_entries b o) -> exists x, In x (b ++ o) /\ gk x = gk e.
Proof. exact merge_nothing_else. Qed.
Print Assumptions C03_nothing_else.

(* a section the base has: its keys in base order with overridden values, then
   the keys only the override has, in override order — also when the section
   is opened more than once on either side *)
Theorem C03_section : forall b o g,
  has_group b g = true -> ~ (g = none_s /\ nogroup_first b o = true) ->
  proj' (merge_entries b o) g = al_override (proj' b g) (proj' o g).
Proof. exact merge_section. Qed.
Print Assumptions C03_section.

(* a section only the override has is taken over unchanged *)
Theorem C03_new_section : forall b o g,
  has_group b g = false -> proj' (merge_entries b o) g = proj' o g.
Proof. exact merge_new_section. Qed.
Print Assumptions C03_new_section.

(* base keys keep their relative order *)
Theorem C03_base_order : forall b o, subseq gk_eqb (map gk b) (map gk (merge_entries b o)) = true.
Proof. exact merge_base_order. Qed.
Print Assumptions C03_base_order.

(* sections only the override has come last *)
Theorem C03_sections_order : forall b o,
  named (groups_of (merge_entries b o)) =
  named (groups_of b) ++ filter (fun g => negb (mem_str g (named (groups_of b)))) (named (groups_of o)).
Proof. exact merge_sections. Qed.
Print Assumptions C03_sections_order.

(* group-less keys stay first *)
Theorem C03_nogroup_first : forall b o, chk_nogroup_first b o = true.
Proof. exact merge_nogroup_first. Qed.
Print Assumptions C03_nogroup_first.

(* memory safety of the result array: never more than |base| + |override| writes *)
Theorem C03_bound : forall b o, (length (merge_entries b o) <= length b + length o)%nat.
Proof. exact merge_bound. Qed.
Print Assumptions C03_bound.

(* either side empty *)
Lemma merge_runs_nil prev b : forall fe, merge_runs [] [] prev b fe = fe ++ map cpy b.
Proof.
  revert prev. induction b as [|e b IH]; intros prev fe; cbn [merge_runs map].
  - destruct prev; cbn [over_group]; now rewrite app_nil_r.
  - rewrite IH. destruct prev as [g|].
    + destruct (str_eqb g (e_group e) || group_in (e :: b) g); cbn [over_group];
        rewrite <- app_assoc; reflexivity.
    + rewrite <- app_assoc; reflexivity.
Qed.

Theorem C03_empty_override : forall b, merge_entries b [] = map cpy b.
Proof.
  intros b. unfold merge_entries. simpl.
  replace (if nogroup_first b [] then [] else []) with (@nil entry) by now destruct (nogroup_first b []).
  simpl. now rewrite merge_runs_nil.
Qed.
Print Assumptions C03_empty_override.

Theorem C03_empty_base : forall o g, proj' (merge_entries [] o) g = proj' o g.
Proof. intros o g. now apply merge_new_section. Qed.
Print Assumptions C03_empty_base.

(* inside a history (StoreFacts.v): a merge's result and return code are a
   function of its two argument objects only - whatever else the store holds
   and whatever calls, earlier merges with the same override included, produced
   it; in particular the same override merged onto a second base gives what
   that merge alone gives *)
Theorem C03_history_independent : forall s1 s2 dst a b ka kb,
  sget s1 a = Some ka -> sget s1 b = Some kb ->
  sget s2 a = Some ka -> sget s2 b = Some kb ->
  snd (step s1 (CMerge dst a b)) = snd (step s2 (CMerge dst a b)) /\
  sget (fst (step s1 (CMerge dst a b))) dst = Some (merge_model ka kb) /\
  sget (fst (step s2 (CMerge dst a b))) dst = Some (merge_model ka kb).
Proof. exact merge_history_independent. Qed.
Print Assumptions C03_history_independent.
Theorem C03_same_override_twice : forall s d1 d2 b1 b2 o k1 k2 ko,
  sget s b1 = Some k1 -> sget s b2 = Some k2 -> sget s o = Some ko ->
  d1 <> b2 -> d1 <> o ->
  sget (fst (step (fst (step s (CMerge d1 b1 o))) (CMerge d2 b2 o))) d2 = Some (merge_model k2 ko) /\
  sget (fst (step s (CMerge d2 b2 o))) d2 = Some (merge_model k2 ko).
Proof. exact merge_same_override_twice. Qed.
Print Assumptions C03_same_override_twice.

(* non-vacuity: a base that re-opens a section, an override with a duplicate
   key, a new key, a new section and a NULL value *)
Example C03_demo :
  let b := [mk (bs "A") (bs "x") (Some (bs "1")); mk (bs "B") (bs "y") (Some (bs "2"));
            mk (bs "A") (bs "z") (Some (bs "3"))] in
  let o := [mk (bs "A") (bs "q") (Some (bs "9")); mk (bs "A") (bs "x") None;
            mk (bs "A") (bs "q") (Some (bs "8")); mk (bs "C") (bs "c") (Some (bs "7"))] in
  map (fun e => (e_group e, e_key e, e_value e)) (merge_entries b o) =
  [(bs "A", bs "x", Some []); (bs "B", bs "y", Some (bs "2")); (bs "A", bs "z", Some (bs "3"));
   (bs "A", bs "q", Some (bs "9")); (bs "C", bs "c", Some (bs "7"))].
Proof. vm_compute. reflexivity. Qed.
