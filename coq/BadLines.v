(* BadLines.v — the malformed lines C13 speaks about, as an AST with side
   conditions, rendering and the error code each must produce.  Definitions only. *)
From Coq Require Import String.
From Econf Require Export Grammar.
Local Open Scope N_scope.

Inductive badline :=
| BadNoBracket (ind text : str)                 (* "[name" *)
| BadTextAfter (ind name post junk : str)       (* "[name] junk" *)
| BadEmptyName (ind post : str)                 (* "[]" *)
| BadNoDelim (ind key b1 text : str).           (* "key text" under a non-blank delimiter set *)

Definition render_bad (b : badline) : str :=
  match b with
  | BadNoBracket ind text => ind ++ 91 :: text
  | BadTextAfter ind name post junk => ind ++ 91 :: name ++ 93 :: post ++ junk
  | BadEmptyName ind post => ind ++ 91 :: 93 :: post
  | BadNoDelim ind key b1 text => ind ++ key ++ b1 ++ text
  end.

Definition bad_code (b : badline) : econf_err :=
  match b with
  | BadNoBracket _ _ => ECONF_MISSING_BRACKET
  | BadTextAfter _ _ _ _ => ECONF_TEXT_AFTER_SECTION
  | BadEmptyName _ _ => ECONF_EMPTY_SECTION_NAME
  | BadNoDelim _ _ _ _ => ECONF_MISSING_DELIMITER
  end.

(* text free of comment characters and quotes, made of printable bytes and blanks *)
Definition plain_text (cm : str) (s : str) : bool :=
  forallb (fun c => tb c && negb (mem c cm) && negb (c =? 34)) s.

(* [prev]: the line before is a key or continuation line *)
Definition wf_bad (dl cm : str) (prev : bool) (b : badline) : bool :=
  match b with
  | BadNoBracket ind text =>
      blanks ind && plain_text cm text && negb (mem 93 text)
  | BadTextAfter ind name post junk =>
      blanks ind && plain_text cm name && blanks post && plain_text cm junk &&
      match junk with
      | [] => false
      | c :: _ => negb (isblank c) && negb (isblank (last junk 0)) && negb (last junk 0 =? 93)
      end
  | BadEmptyName ind post => blanks ind && blanks post
  | BadNoDelim ind key b1 text =>
      match class_of dl with ClassN => true | _ => false end &&
      blanks ind && wf_key dl cm key && blanks b1 &&
      match b1 with [] => false | _ => true end &&
      plain_text cm text &&
      match text with
      | [] => false
      | c :: _ => negb (isblank c) && negb (mem c dl)
      end &&
      (negb prev || existsb (fun c => mem c dl) text)   (* otherwise it is a continuation line *)
  end.
