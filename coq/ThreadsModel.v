(* ThreadsModel.v — several threads calling the API on objects, trees and
   callback policies of their own; the process-wide state they share is the
   [globals] record: the security settings and drop-in directory list (set only
   by the documented global setters) and the last-error-location record.
   Interleavings are sequences of (thread, call).  Definitions only. *)
From Coq Require Import String.
From Econf Require Export LayeredScenario.
Local Open Scope N_scope.

Record tstate := mkTS { ts_store : store; ts_tree : tree; ts_cb : cbpolicy }.

Definition tstep (g : globals) (p : tstate) (c : wcmd) : globals * tstate * out :=
  let '(w', o) := wstep (mkW (ts_store p) (ts_tree p) g (ts_cb p)) c in
  (w_g w', mkTS (w_store w') (w_tree w') (w_cb w'), o).

(* the documented process-wide setters, and the one query of the exempt record *)
Definition global_setter (c : wcmd) : bool :=
  match c with WSec _ | WPerms _ _ | WConfDirs _ => true | _ => false end.
Definition reads_errloc (c : wcmd) : bool :=
  match c with WErrLoc => true | _ => false end.

Definition threads := nat -> tstate.
Definition tupd (ts : threads) (i : nat) (p : tstate) : threads :=
  fun j => if Nat.eqb j i then p else ts j.

(* one schedule: the results in the order the calls happen, tagged with the thread *)
Fixpoint run_sched (g : globals) (ts : threads) (sched : list (nat * wcmd)) : list (nat * out) :=
  match sched with
  | [] => []
  | (i, c) :: rest =>
      let '(g', p', o) := tstep g (ts i) c in
      (i, o) :: run_sched g' (tupd ts i p') rest
  end.

(* a thread running its calls alone *)
Fixpoint run_alone (g : globals) (p : tstate) (cs : list wcmd) : list out :=
  match cs with
  | [] => []
  | c :: rest => let '(g', p', o) := tstep g p c in o :: run_alone g' p' rest
  end.

Definition calls_of (i : nat) (sched : list (nat * wcmd)) : list wcmd :=
  map snd (filter (fun x => Nat.eqb (fst x) i) sched).
Definition outs_of (i : nat) (res : list (nat * out)) : list out :=
  map snd (filter (fun x => Nat.eqb (fst x) i) res).

(* the shared state a thread's results may depend on *)
Definition settings_eq (g g' : globals) : Prop :=
  g_sec g = g_sec g' /\ g_conf_dirs g = g_conf_dirs g'.
