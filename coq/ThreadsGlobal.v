(* ThreadsGlobal.v — the documented process-wide settings in the threads model: a requirement issued by one thread
   is what gates the next read of EVERY thread (ThreadsModel.v keeps them in the shared [globals]). *)
From Coq Require Import String Lia List.
From Econf Require Import Bytes BytesFacts LayeredModel LayeredScenario ThreadsModel.
Local Open Scope N_scope.

Lemma tg_tstate_eta : forall p, mkTS (ts_store p) (ts_tree p) (ts_cb p) = p.
Proof. intros [a b c]. reflexivity. Qed.

Lemma tg_tupd_id : forall ts i j, tupd ts i (ts i) j = ts j.
Proof.
  intros ts i j. unfold tupd. destruct (Nat.eqb j i) eqn:E; [|reflexivity].
  apply PeanoNat.Nat.eqb_eq in E. now subst.
Qed.

(* thread i issues the requirement, thread j (the same or another one) makes the next call: that call runs under
   exactly this requirement, on j's own objects, tree and callback *)
Theorem settings_are_process_wide : forall g ts i j s c,
  run_sched g ts [(i, WSec s); (j, c)] =
  [(i, ORc ECONF_SUCCESS);
   (j, snd (tstep (mkG s (g_conf_dirs g) (g_errfile g) (g_errline g)) (ts j) c))].
Proof.
  intros g ts i j s c.
  cbn [run_sched]. unfold tstep at 1. cbn [wstep set_g w_store w_tree w_g w_cb].
  rewrite tg_tstate_eta, tg_tupd_id.
  destruct (tstep _ (ts j) c) as [[g' p'] o]. reflexivity.
Qed.

(* likewise the permission masks *)
Theorem perms_are_process_wide : forall g ts i j fm dm c,
  run_sched g ts [(i, WPerms fm dm); (j, c)] =
  [(i, ORc ECONF_SUCCESS);
   (j, snd (tstep (mkG (mkSec (sec_owner (g_sec g)) (sec_group (g_sec g)) (sec_nolinks (g_sec g)) (Some (fm, dm)))
                       (g_conf_dirs g) (g_errfile g) (g_errline g)) (ts j) c))].
Proof.
  intros g ts i j fm dm c.
  cbn [run_sched]. unfold tstep at 1. cbn [wstep set_g w_store w_tree w_g w_cb].
  rewrite tg_tstate_eta, tg_tupd_id.
  destruct (tstep _ (ts j) c) as [[g' p'] o]. reflexivity.
Qed.
