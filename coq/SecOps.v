(* SecOps.v — the process-wide security settings as the API sets them: one call at a time (econf_requireOwner,
   econf_requireGroup, econf_followSymlinks, econf_requirePermissions, econf_reset_security_settings).  Each setter
   ASSIGNS its field: what is in force is what the LAST call for that field said, whatever was called before.
   The scenario command [WSec s] (LayeredScenario.v) installs a whole setting at once; the harness issues it as one of
   six call sequences — all of them are shown to end in [s]. *)
From Coq Require Import List Bool.
From Econf Require Import Bytes LayeredModel.
Import ListNotations.
Local Open Scope N_scope.

Inductive sec_op :=
| OpOwner (u : N)              (* econf_requireOwner *)
| OpGroup (g : N)              (* econf_requireGroup *)
| OpFollow (allow : bool)      (* econf_followSymlinks *)
| OpPerms (fm dm : N)          (* econf_requirePermissions *)
| OpReset.                     (* econf_reset_security_settings *)

Definition sec_apply (s : secset) (o : sec_op) : secset :=
  match o with
  | OpOwner u => mkSec (Some u) (sec_group s) (sec_nolinks s) (sec_perms s)
  | OpGroup g => mkSec (sec_owner s) (Some g) (sec_nolinks s) (sec_perms s)
  | OpFollow a => mkSec (sec_owner s) (sec_group s) (negb a) (sec_perms s)
  | OpPerms f d => mkSec (sec_owner s) (sec_group s) (sec_nolinks s) (Some (f, d))
  | OpReset => sec_none
  end.
Definition sec_run (s : secset) (ops : list sec_op) : secset := fold_left sec_apply ops s.

(* ---- the last call for a field decides, whatever came before ---- *)
Lemma sec_run_app : forall ops1 ops2 s, sec_run s (ops1 ++ ops2) = sec_run (sec_run s ops1) ops2.
Proof. intros. unfold sec_run. apply fold_left_app. Qed.

Definition touches_follow (o : sec_op) : bool := match o with OpFollow _ | OpReset => true | _ => false end.
Definition touches_owner (o : sec_op) : bool := match o with OpOwner _ | OpReset => true | _ => false end.
Definition touches_group (o : sec_op) : bool := match o with OpGroup _ | OpReset => true | _ => false end.

Lemma sec_run_keeps_nolinks : forall ops s, forallb (fun o => negb (touches_follow o)) ops = true ->
  sec_nolinks (sec_run s ops) = sec_nolinks s.
Proof.
  induction ops as [|o ops IH]; intros s H; [reflexivity|].
  cbn [forallb] in H. apply andb_true_iff in H as [Ho H].
  change (sec_run s (o :: ops)) with (sec_run (sec_apply s o) ops). rewrite (IH _ H).
  destruct o; cbn in Ho |- *; try reflexivity; discriminate.
Qed.
Lemma sec_run_keeps_owner : forall ops s, forallb (fun o => negb (touches_owner o)) ops = true ->
  sec_owner (sec_run s ops) = sec_owner s.
Proof.
  induction ops as [|o ops IH]; intros s H; [reflexivity|].
  cbn [forallb] in H. apply andb_true_iff in H as [Ho H].
  change (sec_run s (o :: ops)) with (sec_run (sec_apply s o) ops). rewrite (IH _ H).
  destruct o; cbn in Ho |- *; try reflexivity; discriminate.
Qed.
Lemma sec_run_keeps_group : forall ops s, forallb (fun o => negb (touches_group o)) ops = true ->
  sec_group (sec_run s ops) = sec_group s.
Proof.
  induction ops as [|o ops IH]; intros s H; [reflexivity|].
  cbn [forallb] in H. apply andb_true_iff in H as [Ho H].
  change (sec_run s (o :: ops)) with (sec_run (sec_apply s o) ops). rewrite (IH _ H).
  destruct o; cbn in Ho |- *; try reflexivity; discriminate.
Qed.

(* econf_followSymlinks(allow) as the last call about links: links are refused exactly when allow = false — any
   number of earlier calls, in any order, with any arguments, changes nothing *)
Theorem follow_last_call_counts : forall before allow after s,
  forallb (fun o => negb (touches_follow o)) after = true ->
  sec_nolinks (sec_run s (before ++ OpFollow allow :: after)) = negb allow.
Proof.
  intros before allow after s H. rewrite sec_run_app.
  change (sec_run (sec_run s before) (OpFollow allow :: after))
    with (sec_run (sec_apply (sec_run s before) (OpFollow allow)) after).
  now rewrite (sec_run_keeps_nolinks after _ H).
Qed.
Theorem owner_last_call_counts : forall before u after s,
  forallb (fun o => negb (touches_owner o)) after = true ->
  sec_owner (sec_run s (before ++ OpOwner u :: after)) = Some u.
Proof.
  intros before u after s H. rewrite sec_run_app.
  change (sec_run (sec_run s before) (OpOwner u :: after)) with (sec_run (sec_apply (sec_run s before) (OpOwner u)) after).
  now rewrite (sec_run_keeps_owner after _ H).
Qed.
Theorem group_last_call_counts : forall before g after s,
  forallb (fun o => negb (touches_group o)) after = true ->
  sec_group (sec_run s (before ++ OpGroup g :: after)) = Some g.
Proof.
  intros before g after s H. rewrite sec_run_app.
  change (sec_run (sec_run s before) (OpGroup g :: after)) with (sec_run (sec_apply (sec_run s before) (OpGroup g)) after).
  now rewrite (sec_run_keeps_group after _ H).
Qed.
Theorem reset_forgets_everything : forall before s, sec_run s (before ++ [OpReset]) = sec_none.
Proof. intros. rewrite sec_run_app. reflexivity. Qed.

(* ---- the six call sequences of the harness command "sec o g n" (harness/econf_driver.c), each started with the
        reset: all end in the setting [mkSec o g n None] ---- *)
Definition opt_owner (o : option N) : list sec_op := match o with Some u => [OpOwner u] | None => [] end.
Definition opt_group (g : option N) : list sec_op := match g with Some x => [OpGroup x] | None => [] end.
Definition harness_order (k : nat) (o g : option N) (nolinks : bool) : list sec_op :=
  OpReset ::
  match k with
  | 0%nat => opt_owner o ++ opt_group g ++ [OpFollow (negb nolinks)]
  | 1%nat => [OpFollow (negb nolinks)] ++ opt_group g ++ opt_owner o
  | 2%nat => [OpFollow false] ++ match o with Some u => [OpOwner 77777; OpOwner u] | None => [] end ++ opt_group g ++ [OpFollow (negb nolinks)]
  | 3%nat => opt_owner o ++ (if nolinks then [OpFollow false] else []) ++ opt_group g
  | 4%nat => [OpFollow true] ++ opt_owner o ++ opt_group g ++ [OpFollow (negb nolinks)]
  | _ => [OpFollow nolinks; OpFollow nolinks] ++ opt_group g ++ opt_owner o ++ [OpFollow (negb nolinks)]
  end.

Theorem harness_orders_agree : forall k o g nolinks s0,
  sec_run s0 (harness_order k o g nolinks) = mkSec o g nolinks None.
Proof.
  intros k o g nolinks s0.
  destruct k as [|[|[|[|[|k]]]]]; destruct o, g, nolinks; reflexivity.
Qed.
