(* WalkFacts.v — memory safety and functional correctness of the pointer
   walks of WalkModel.v: no read or write leaves the buffer, the fuel suffices,
   and each walk computes what the list-level model says. *)
From Coq Require Import ZArith List Lia.
From Econf Require Import Bytes BytesFacts KeyfileModel ParserModel WalkModel.
Local Open Scope Z_scope.

Notation nonzero s := (forallb (fun c => negb (N.eqb c 0)) s = true) (only parsing).
Notation zlen l := (Z.of_nat (length l)) (only parsing).

Ltac lennorm :=
  repeat first [ progress cbn [length] in *
               | rewrite app_length
               | match goal with H : _ |- _ => rewrite app_length in H end ].
Ltac lenlia := lennorm; lia.
Ltac listeq := repeat first [rewrite <- app_assoc | progress cbn [app]]; reflexivity.

(* ------------------------------------------------------------------ *)
(* lists *)

Lemma firstn_len_app {A} (a b : list A) : firstn (length a) (a ++ b) = a.
Proof. induction a as [|x a IH]; simpl; [now destruct b|]. now rewrite IH. Qed.

Lemma skipn_S_len_app {A} (a : list A) x b : skipn (S (length a)) (a ++ x :: b) = b.
Proof. induction a as [|y a IH]; [reflexivity|]. exact IH. Qed.

Lemma forallb_rev_t {A} (p : A -> bool) (l : list A) : forallb p l = true -> forallb p (rev l) = true.
Proof.
  rewrite !forallb_forall. intros H x Hx. apply H. now apply in_rev.
Qed.

Lemma forallb_app_t {A} (p : A -> bool) (a b : list A) :
  forallb p (a ++ b) = true <-> forallb p a = true /\ forallb p b = true.
Proof.
  induction a as [|x a IH]; simpl.
  - tauto.
  - rewrite !andb_true_iff, IH. tauto.
Qed.

Lemma take_while_forallb (p : N -> bool) (l : list N) : forallb p (take_while p l) = true.
Proof. induction l as [|x l IH]; simpl; [reflexivity|]. destruct (p x) eqn:E; simpl; [now rewrite E|reflexivity]. Qed.

Lemma drop_while_head (p : N -> bool) (l : list N) :
  drop_while p l = [] \/ exists x t, drop_while p l = x :: t /\ p x = false.
Proof.
  induction l as [|x l IH]; simpl; [now left|].
  destruct (p x) eqn:E; [exact IH|]. right. now exists x, l.
Qed.

(* s = (its right-trimmed part) ++ (the trailing white space) *)
Lemma rtrim_split (s : list N) :
  exists t sp, s = t ++ sp /\ rtrim s = t /\ forallb isspace sp = true /\
               (t = [] \/ exists t' x, t = t' ++ [x] /\ isspace x = false).
Proof.
  exists (rtrim s), (rev (take_while isspace (rev s))).
  unfold rtrim. repeat split.
  - rewrite <- rev_app_distr, take_drop_while. symmetry. apply rev_involutive.
  - apply forallb_rev_t, take_while_forallb.
  - destruct (drop_while_head isspace (rev s)) as [H|(x & t & H & Hx)]; rewrite H.
    + now left.
    + right. exists (rev t), x. now split.
Qed.

Lemma key_trim_split (v : list N) :
  v = [] \/
  exists t z sp, v = t ++ z :: sp /\ key_trim v = t ++ [z] /\ forallb isspace sp = true /\
                 (t = [] \/ isspace z = false).
Proof.
  destruct v as [|c r]; [now left|]. right.
  destruct (rtrim_split r) as (t & sp & Hr & Ht & Hsp & Hc). simpl. rewrite Ht.
  destruct Hc as [->|(t' & x & -> & Hx)].
  - exists [], c, sp. simpl in Hr. subst r. repeat split; auto.
  - exists (c :: t'), x, sp. subst r. repeat split; auto. listeq.
Qed.

(* matches on byte literals, as the list-level models write them *)
Lemma match93 {A} (x : N) (f g : A) :
  match x with 93%N => f | _ => g end = if N.eqb x 93 then f else g.
Proof. destruct x as [|p]; [reflexivity|]. do 8 (try (destruct p as [p|p|]; try reflexivity)). Qed.

Lemma match91 {A} (x : N) (f g : A) :
  match x with 91%N => f | _ => g end = if N.eqb x 91 then f else g.
Proof. destruct x as [|p]; [reflexivity|]. do 8 (try (destruct p as [p|p|]; try reflexivity)). Qed.

Lemma match34 {A} (x : N) (f g : A) :
  match x with 34%N => f | _ => g end = if N.eqb x 34 then f else g.
Proof. destruct x as [|p]; [reflexivity|]. do 8 (try (destruct p as [p|p|]; try reflexivity)). Qed.

Lemma match10 {A} (x : N) (f g : A) :
  match x with 10%N => f | _ => g end = if N.eqb x 10 then f else g.
Proof. destruct x as [|p]; [reflexivity|]. do 8 (try (destruct p as [p|p|]; try reflexivity)). Qed.

(* ------------------------------------------------------------------ *)
(* checked memory *)

Lemma inb_true buf i : 0 <= i < zlen buf -> inb buf i = true.
Proof. intros H. unfold inb. apply andb_true_iff. split; [apply Z.leb_le|apply Z.ltb_lt]; lia. Qed.

Lemma rd_at buf a x b i : buf = a ++ x :: b -> i = zlen a -> rd buf i = Some x.
Proof.
  intros -> ->. unfold rd. rewrite inb_true by lenlia.
  rewrite Nat2Z.id, nth_error_app2 by lia. now rewrite Nat.sub_diag.
Qed.

Lemma wr_at buf a x b i c : buf = a ++ x :: b -> i = zlen a -> wr buf i c = Some (a ++ c :: b).
Proof.
  intros -> ->. unfold wr. rewrite inb_true by lenlia.
  now rewrite Nat2Z.id, firstn_len_app, skipn_S_len_app.
Qed.

Lemma rd_forallb (P : N -> bool) sp : forall a b i,
  forallb P sp = true -> zlen a <= i < zlen a + zlen sp ->
  exists c, rd (a ++ sp ++ b) i = Some c /\ P c = true.
Proof.
  induction sp as [|y sp IH]; intros a b i H Hi; [simpl in Hi; lia|].
  simpl in H. apply andb_true_iff in H as [Hy H].
  destruct (Z.eq_dec i (zlen a)) as [E|E].
  - exists y. split; [|exact Hy]. now apply (rd_at _ a y (sp ++ b)).
  - replace (a ++ (y :: sp) ++ b) with ((a ++ [y]) ++ sp ++ b) by listeq.
    apply IH; [exact H|]. lenlia.
Qed.

(* ------------------------------------------------------------------ *)
(* libc primitives *)

Lemma strlen_at_spec s : forall buf a b i fuel,
  nonzero s -> buf = a ++ s ++ 0%N :: b -> i = zlen a -> (length s < fuel)%nat ->
  strlen_at buf i fuel = Some (zlen s).
Proof.
  induction s as [|c s IH]; intros buf a b i fuel Hs Hb Hi Hf;
    (destruct fuel as [|f]; [simpl in Hf; lia|]); cbn [strlen_at].
  - rewrite (rd_at buf a 0%N b) by assumption. reflexivity.
  - simpl in Hs. apply andb_true_iff in Hs as [Hc Hs].
    rewrite (rd_at buf a c (s ++ 0%N :: b)) by assumption. cbn [bind].
    destruct (N.eqb c 0); [discriminate|].
    rewrite (IH buf (a ++ [c]) b (i + 1) f Hs); [| subst buf; listeq | lenlia | simpl in Hf; lia].
    cbn [bind]. f_equal. lenlia.
Qed.

Lemma cstr_at_spec s : forall buf a b i fuel,
  nonzero s -> buf = a ++ s ++ 0%N :: b -> i = zlen a -> (length s < fuel)%nat ->
  cstr_at buf i fuel = Some s.
Proof.
  induction s as [|c s IH]; intros buf a b i fuel Hs Hb Hi Hf;
    (destruct fuel as [|f]; [simpl in Hf; lia|]); cbn [cstr_at].
  - rewrite (rd_at buf a 0%N b) by assumption. reflexivity.
  - simpl in Hs. apply andb_true_iff in Hs as [Hc Hs].
    rewrite (rd_at buf a c (s ++ 0%N :: b)) by assumption. cbn [bind].
    destruct (N.eqb c 0); [discriminate|].
    rewrite (IH buf (a ++ [c]) b (i + 1) f Hs); [| subst buf; listeq | lenlia | simpl in Hf; lia].
    reflexivity.
Qed.

Lemma strchr_at_spec c s : forall buf a b i fuel,
  c <> 0%N -> nonzero s -> buf = a ++ s ++ 0%N :: b -> i = zlen a -> (length s < fuel)%nat ->
  strchr_at buf i c fuel = Some (mem c s).
Proof.
  induction s as [|x s IH]; intros buf a b i fuel Hc Hs Hb Hi Hf;
    (destruct fuel as [|f]; [simpl in Hf; lia|]); cbn [strchr_at].
  - rewrite (rd_at buf a 0%N b) by assumption. cbn [bind].
    destruct (N.eqb_spec 0 c) as [E|E]; [congruence|]. reflexivity.
  - simpl in Hs. apply andb_true_iff in Hs as [Hx Hs].
    rewrite (rd_at buf a x (s ++ 0%N :: b)) by assumption. cbn [bind mem].
    destruct (N.eqb x c); [reflexivity|].
    destruct (N.eqb x 0); [discriminate|]. cbn [orb].
    apply (IH buf (a ++ [x]) b); auto; [subst buf; listeq | lenlia | simpl in Hf; lia].
Qed.

(* ------------------------------------------------------------------ *)
(* the backward walk: index form, then list form *)

Lemma wb_ix buf lo : forall n p j fuel,
  p = j + Z.of_nat n -> (n < fuel)%nat ->
  (forall i, j < i <= p -> exists c, rd buf i = Some c /\ isspace c = true) ->
  match lo with Some l => l <= j | None => True end ->
  (lo = Some j \/ exists c, rd buf j = Some c /\ isspace c = false) ->
  wb buf lo p fuel = Some j.
Proof.
  induction n as [|n IH]; intros p j fuel Hp Hf Hsp Hlo Hstop;
    (destruct fuel as [|f]; [lia|]); cbn [wb].
  - cbn [Z.of_nat] in Hp. rewrite Z.add_0_r in Hp. subst p.
    destruct Hstop as [->|(c & Hc & Hn)].
    + cbv beta iota. now rewrite Z.gtb_ltb, Z.ltb_irrefl.
    + rewrite Hc. cbn [bind]. rewrite Hn. now destruct (match lo with Some l => j >? l | None => true end).
  - assert (Ht : match lo with Some l => p >? l | None => true end = true).
    { destruct lo as [l|]; [|reflexivity]. rewrite Z.gtb_ltb. apply Z.ltb_lt. lia. }
    rewrite Ht. destruct (Hsp p) as (c & Hc & Hs); [lia|].
    rewrite Hc. cbn [bind]. rewrite Hs.
    apply IH; auto; [lia|lia|]. intros i Hi. apply Hsp. lia.
Qed.

Lemma wb_list buf a x sp b lo p j fuel :
  buf = a ++ x :: sp ++ b -> forallb isspace sp = true ->
  j = zlen a -> p = j + zlen sp -> (length sp < fuel)%nat ->
  match lo with Some l => l <= j | None => True end ->
  (lo = Some j \/ isspace x = false) ->
  wb buf lo p fuel = Some j.
Proof.
  intros Hb Hsp Hj Hp Hf Hlo Hstop.
  apply (wb_ix buf lo (length sp)); auto.
  - intros i Hi. subst buf. replace (a ++ x :: sp ++ b) with ((a ++ [x]) ++ sp ++ b) by listeq.
    apply rd_forallb; [exact Hsp|]. lenlia.
  - destruct Hstop as [H|H]; [now left|]. right. exists x. split; [|exact H].
    now apply (rd_at buf a x (sp ++ b)).
Qed.

Lemma wb_pre_eq buf : forall fuel p, wb_pre buf p fuel = wb buf None (p - 1) fuel.
Proof.
  induction fuel as [|f IH]; intros p; [reflexivity|]. cbn [wb_pre wb].
  destruct (rd buf (p - 1)) as [c|]; [|reflexivity]. cbn [bind].
  destruct (isspace c); [apply IH|reflexivity].
Qed.

(* the text shared by W1 and W2 *)
Lemma rwalk_nil buf a b i fuel :
  buf = a ++ 0%N :: b -> i = zlen a -> (0 < fuel)%nat -> rwalk buf i fuel = Some i.
Proof.
  intros Hb Hi Hf. unfold rwalk.
  rewrite (strlen_at_spec [] buf a b i fuel) by (auto; reflexivity). cbn [bind length].
  rewrite Z.add_0_r, Z.gtb_ltb, Z.ltb_irrefl.
  destruct fuel as [|f]; [lia|]. cbn [wb]. now rewrite Z.gtb_ltb, Z.ltb_irrefl.
Qed.

Lemma rwalk_cons buf a t z sp b i fuel :
  buf = a ++ (t ++ z :: sp) ++ 0%N :: b -> nonzero (t ++ z :: sp) ->
  forallb isspace sp = true -> (t = [] \/ isspace z = false) ->
  i = zlen a -> (length (t ++ z :: sp) < fuel)%nat ->
  rwalk buf i fuel = Some (i + zlen t).
Proof.
  intros Hb Hnz Hsp Hstop Hi Hf. unfold rwalk.
  rewrite (strlen_at_spec (t ++ z :: sp) buf a b i fuel) by auto. cbn [bind].
  replace (i + zlen (t ++ z :: sp) >? i) with true by (symmetry; rewrite Z.gtb_ltb; apply Z.ltb_lt; lenlia).
  apply (wb_list buf (a ++ t) z sp (0%N :: b)); auto.
  - subst buf. listeq.
  - lenlia.
  - lenlia.
  - lenlia.
  - lia.
  - destruct Hstop as [->|H]; [left; f_equal; lenlia|now right].
Qed.

(* ------------------------------------------------------------------ *)
(* W1: store(), right-trim of the key *)

Lemma W1_spec pre s fuel :
  nonzero s -> (length (pre ++ s ++ [0%N]) <= fuel)%nat ->
  W1 (pre ++ s ++ [0%N]) (zlen pre) fuel = Some (Z.max 1 (zlen (key_trim s))).
Proof.
  intros Hs Hf. unfold W1.
  destruct (key_trim_split s) as [->|(t & z & sp & Hv & Hk & Hsp & Hstop)].
  - rewrite (rwalk_nil _ pre [] (zlen pre) fuel); [| reflexivity | reflexivity | lenlia].
    cbn [bind key_trim length]. f_equal. lia.
  - rewrite Hk. clear Hk. subst s.
    rewrite (rwalk_cons _ pre t z sp [] (zlen pre) fuel); auto; [|lenlia].
    cbn [bind]. f_equal. lenlia.
Qed.

Theorem W1_safe pre s fuel :
  nonzero s -> (length (pre ++ s ++ [0%N]) <= fuel)%nat ->
  exists len, W1 (pre ++ s ++ [0%N]) (zlen pre) fuel = Some len.
Proof. intros Hs Hf. eexists. now apply W1_spec. Qed.

Theorem W1_result pre s fuel len :
  nonzero s -> (length (pre ++ s ++ [0%N]) <= fuel)%nat ->
  W1 (pre ++ s ++ [0%N]) (zlen pre) fuel = Some len ->
  firstn (Z.to_nat len) s = key_trim s.
Proof.
  intros Hs Hf H. rewrite W1_spec in H by assumption. injection H as <-.
  destruct (key_trim_split s) as [->|(t & z & sp & Hv & Hk & _)].
  - now rewrite firstn_nil.
  - rewrite Hk.
    replace (Z.to_nat (Z.max 1 (zlen (t ++ [z])))) with (length (t ++ [z])) by lenlia.
    replace s with ((t ++ [z]) ++ sp) by (subst s; listeq).
    apply firstn_len_app.
Qed.

(* ------------------------------------------------------------------ *)
(* W2: read_file, right-trim of the value *)

Lemma tail0 (sp : list N) : exists t0 tl, sp ++ [0%N] = t0 :: tl /\ length tl = length sp.
Proof.
  destruct sp as [|y sp]; [now exists 0%N, []|].
  exists y, (sp ++ [0%N]). split; [reflexivity|]. lenlia.
Qed.

Lemma cut_after_z buf a b p :
  buf = a ++ 0%N :: b -> p = zlen a -> cut_after buf p = Some buf.
Proof. intros Hb Hp. unfold cut_after. now rewrite (rd_at buf a 0%N b). Qed.

Lemma cut_after_cut buf a t0 tl p u :
  buf = a ++ t0 :: tl -> p + 1 = zlen a -> rd buf p = Some u -> u <> 0%N ->
  cut_after buf p = Some (a ++ 0%N :: tl).
Proof.
  intros Hb Hp Hu Hnz. unfold cut_after. rewrite Hu. cbn [bind].
  destruct (N.eqb_spec u 0) as [E|_]; [contradiction|]. cbn [negb].
  rewrite (rd_at buf a t0 tl) by assumption. cbn [bind].
  destruct (N.eqb_spec t0 0) as [E|_]; cbn [negb].
  - now subst.
  - now apply (wr_at buf a t0 tl).
Qed.

Lemma W2_spec_noquote pre v fuel :
  nonzero v -> (length (pre ++ v ++ [0%N]) <= fuel)%nat ->
  W2_str (pre ++ v ++ [0%N]) (zlen pre) false fuel = Some (key_trim v).
Proof.
  intros Hv Hf. unfold W2_str, W2.
  destruct (key_trim_split v) as [->|(t & z & sp & Hs & Hk & Hsp & Hstop)].
  - rewrite (rwalk_nil _ pre [] (zlen pre) fuel); [| reflexivity | reflexivity | lenlia].
    cbn [bind]. rewrite andb_false_r. cbn [bind].
    rewrite (cut_after_z _ pre []) by reflexivity. cbn [bind].
    apply (cstr_at_spec [] _ pre []); auto. lenlia.
  - rewrite Hk. clear Hk. subst v.
    rewrite (rwalk_cons _ pre t z sp [] (zlen pre) fuel); auto; [|lenlia].
    cbn [bind]. rewrite andb_false_r. cbn [bind].
    destruct (tail0 sp) as (t0 & tl & Ht & Hl).
    apply forallb_app_t in Hv as [Hvt Hvz]. simpl in Hvz. apply andb_true_iff in Hvz as [Hz _].
    rewrite (cut_after_cut _ (pre ++ t ++ [z]) t0 tl _ z).
    + cbn [bind]. apply (cstr_at_spec (t ++ [z]) _ pre tl); [|listeq|reflexivity|lenlia].
      apply forallb_app_t. split; [exact Hvt|]. simpl. now rewrite Hz.
    + rewrite <- Ht. listeq.
    + lenlia.
    + apply (rd_at _ (pre ++ t) z (sp ++ [0%N])); [listeq|lenlia].
    + intros ->. discriminate.
Qed.

Lemma W2_spec_quote pre0 v fuel :
  nonzero v -> (length ((pre0 ++ [34%N]) ++ v ++ [0%N]) <= fuel)%nat ->
  W2_str ((pre0 ++ [34%N]) ++ v ++ [0%N]) (zlen (pre0 ++ [34%N])) true fuel =
  Some (match rev (key_trim v) with 34%N :: rv => rev rv | _ => 34%N :: key_trim v end).
Proof.
  intros Hv Hf. unfold W2_str, W2. set (pre := pre0 ++ [34%N]) in *.
  destruct (key_trim_split v) as [->|(t & z & sp & Hs & Hk & Hsp & Hstop)].
  - rewrite (rwalk_nil _ pre [] (zlen pre) fuel); [| reflexivity | reflexivity | lenlia].
    cbn [bind]. rewrite andb_true_r, Z.geb_leb, Z.leb_refl.
    rewrite (rd_at _ pre 0%N []) by reflexivity. cbn [bind].
    change (N.eqb 0 34) with false. cbv beta iota. cbn [bind].
    rewrite (cut_after_z _ pre []) by reflexivity. cbn [bind].
    apply (cstr_at_spec [34%N] _ pre0 []); auto; subst pre; [listeq|lenlia|lenlia].
  - rewrite Hk, rev_unit. clear Hk. subst v.
    rewrite (rwalk_cons _ pre t z sp [] (zlen pre) fuel); auto; [|lenlia].
    cbn [bind]. rewrite andb_true_r.
    replace (zlen pre + zlen t >=? zlen pre) with true
      by (symmetry; rewrite Z.geb_leb; apply Z.leb_le; lia).
    rewrite (rd_at _ (pre ++ t) z (sp ++ [0%N])); [|listeq|lenlia]. cbn [bind].
    apply forallb_app_t in Hv as [Hvt Hvz]. simpl in Hvz. apply andb_true_iff in Hvz as [Hz _].
    rewrite match34. destruct (N.eqb_spec z 34) as [->|Hz34]; cbv beta iota; cbn [bind].
    + (* closing quote: p-- *)
      destruct (rd_forallb (fun c => negb (N.eqb c 0)) (34%N :: t) pre0 (34%N :: sp ++ [0%N])
                  (zlen pre + zlen t - 1)) as (u & Hu & Hunz).
      { simpl. exact Hvt. }
      { subst pre. lenlia. }
      rewrite (cut_after_cut _ (pre ++ t) 34%N (sp ++ [0%N]) _ u).
      * cbn [bind]. rewrite rev_involutive.
        apply (cstr_at_spec t _ pre (sp ++ [0%N])); [exact Hvt|listeq|reflexivity|lenlia].
      * listeq.
      * lenlia.
      * rewrite <- Hu. f_equal. subst pre. listeq.
      * intros ->. discriminate.
    + (* one-sided quote: data-- *)
      destruct (tail0 sp) as (t0 & tl & Ht & Hl).
      rewrite (cut_after_cut _ (pre ++ t ++ [z]) t0 tl _ z).
      * cbn [bind]. apply (cstr_at_spec (34%N :: t ++ [z]) _ pre0 tl).
        -- simpl. apply forallb_app_t. split; [exact Hvt|]. simpl. now rewrite Hz.
        -- subst pre. listeq.
        -- subst pre. lenlia.
        -- subst pre. lenlia.
      * rewrite <- Ht. listeq.
      * lenlia.
      * apply (rd_at _ (pre ++ t) z (sp ++ [0%N])); [listeq|lenlia].
      * intros ->. discriminate.
Qed.

(* the list-level clause of value_of for the bytes [v] of the value *)
Definition value_clause (quote_seen : bool) (v : list N) : list N :=
  if quote_seen
  then match rev (key_trim v) with 34%N :: rv => rev rv | _ => 34%N :: key_trim v end
  else key_trim v.

Lemma W2_spec pre v q fuel :
  nonzero v -> (q = true -> exists pre0, pre = pre0 ++ [34%N]) ->
  (length (pre ++ v ++ [0%N]) <= fuel)%nat ->
  W2_str (pre ++ v ++ [0%N]) (zlen pre) q fuel = Some (value_clause q v).
Proof.
  intros Hv Hq Hf. destruct q.
  - destruct (Hq eq_refl) as (pre0 & ->). now apply W2_spec_quote.
  - now apply W2_spec_noquote.
Qed.

Theorem W2_safe pre v q fuel :
  nonzero v -> (q = true -> exists pre0, pre = pre0 ++ [34%N]) ->
  (length (pre ++ v ++ [0%N]) <= fuel)%nat ->
  exists buf' data' r,
    W2 (pre ++ v ++ [0%N]) (zlen pre) q fuel = Some (buf', data') /\
    cstr_at buf' data' fuel = Some r.
Proof.
  intros Hv Hq Hf. pose proof (W2_spec pre v q fuel Hv Hq Hf) as H.
  unfold W2_str in H. destruct (W2 _ _ _ _) as [[buf' data']|]; [|discriminate].
  cbn [bind] in H. now exists buf', data', (value_clause q v).
Qed.

Theorem W2_result pre v q fuel r :
  nonzero v -> (q = true -> exists pre0, pre = pre0 ++ [34%N]) ->
  (length (pre ++ v ++ [0%N]) <= fuel)%nat ->
  W2_str (pre ++ v ++ [0%N]) (zlen pre) q fuel = Some r ->
  r = if q
      then match rev (key_trim v) with 34%N :: rv => rev rv | _ => 34%N :: key_trim v end
      else key_trim v.
Proof. intros Hv Hq Hf H. rewrite W2_spec in H by assumption. now injection H as <-. Qed.

(* ------------------------------------------------------------------ *)
(* W3: read_file, section header *)

(* the three outcomes, read off ParserModel.section_line *)
Definition w3_spec (s : list N) : w3res :=
  match rev (rtrim s) with
  | 93%N :: rname =>
      match rev rname with
      | [] => W3Err ECONF_EMPTY_SECTION_NAME
      | nm => W3Name nm
      end
  | _ => if mem 93 s then W3Err ECONF_TEXT_AFTER_SECTION else W3Err ECONF_MISSING_BRACKET
  end.

Definition w3_presult (st : pstate) (line : N) (r : w3res) : presult :=
  match r with
  | W3Name nm => PCont (mkPS (p_rev st) (intern (p_groups st) nm) (Some nm)
                             (p_cbk st) (p_cav st) line)
  | W3Err e => PStop e st
  end.

Lemma section_line_w3 st s line : section_line st s line = w3_presult st line (w3_spec s).
Proof.
  unfold section_line, w3_spec. cbv zeta.
  destruct (rev (rtrim s)) as [|x r]; [now destruct (mem 93 s)|].
  rewrite !match93. destruct (N.eqb x 93).
  - now destruct (rev r).
  - now destruct (mem 93 s).
Qed.

Lemma w3_spec_cases s :
  (forall nm, w3_spec s = W3Name nm <-> (rev (rtrim s) = 93%N :: rev nm /\ nm <> [])) /\
  (rtrim s = [93%N] -> w3_spec s = W3Err ECONF_EMPTY_SECTION_NAME) /\
  ((forall nm, rev (rtrim s) <> 93%N :: rev nm) ->
   w3_spec s = W3Err (if mem 93 s then ECONF_TEXT_AFTER_SECTION else ECONF_MISSING_BRACKET)).
Proof.
  unfold w3_spec. destruct (rev (rtrim s)) as [|x r] eqn:E.
  - split; [|split].
    + intros nm. split; [destruct (mem 93 s); discriminate|intros [H _]; discriminate].
    + intros H. rewrite H in E. discriminate.
    + intros _. now destruct (mem 93 s).
  - rewrite match93. destruct (N.eqb_spec x 93) as [->|Hx].
    + split; [|split].
      * intros nm. destruct (rev r) as [|c n] eqn:Er.
        -- split; [discriminate|]. intros [H Hn]. injection H as H.
           rewrite H, rev_involutive in Er. contradiction.
        -- split.
           ++ intros H. injection H as <-. split; [|discriminate].
              now rewrite <- Er, rev_involutive.
           ++ intros [H _]. injection H as H. rewrite H, rev_involutive in Er. now subst.
      * intros H. rewrite H in E. simpl in E. injection E as <-. reflexivity.
      * intros H. exfalso. apply (H (rev r)). now rewrite rev_involutive.
    + split; [|split].
      * intros nm. split; [destruct (mem 93 s); discriminate|].
        intros [H _]. injection H as H _. contradiction.
      * intros H. rewrite H in E. simpl in E. injection E as <- _. contradiction.
      * intros _. now destruct (mem 93 s).
Qed.

Lemma W3_spec pre s fuel :
  nonzero s -> (length (pre ++ 91%N :: s ++ [0%N]) <= fuel)%nat ->
  W3 (pre ++ 91%N :: s ++ [0%N]) (zlen pre + 1) fuel = Some (w3_spec s).
Proof.
  intros Hs Hf. unfold W3, w3_spec.
  rewrite (strlen_at_spec s _ (pre ++ [91%N]) [] _ fuel); [|exact Hs|listeq|lenlia|lenlia].
  cbn [bind].
  destruct (rtrim_split s) as (t & sp & Hsplit & Hrt & Hsp & Hc). rewrite Hrt. clear Hrt.
  destruct Hc as [->|(t' & x & -> & Hx)].
  - (* only white space after '[': the walk stops ON the '[' *)
    simpl in Hsplit. subst s.
    rewrite (wb_list _ pre 91%N sp [0%N] None _ (zlen pre) fuel);
      [|reflexivity|exact Hsp|reflexivity|lia|lenlia|exact I|right; reflexivity].
    cbn [bind]. rewrite (rd_at _ pre 91%N (sp ++ [0%N])) by reflexivity. cbn [bind].
    change (N.eqb 91 93) with false. cbn [negb].
    rewrite (strchr_at_spec 93%N sp _ (pre ++ [91%N]) [] _ fuel);
      [|discriminate|exact Hs|listeq|lenlia|lenlia].
    cbn [bind rev]. now destruct (mem 93 sp).
  - subst s. rewrite rev_unit. cbv beta iota. rewrite match93.
    apply forallb_app_t in Hs as Hs'. destruct Hs' as [Hs1 _].
    apply forallb_app_t in Hs1 as [Ht' _].
    rewrite (wb_list _ (pre ++ 91%N :: t') x sp [0%N] None _ (zlen pre + 1 + zlen t') fuel);
      [|listeq|exact Hsp|lenlia|lenlia|lenlia|exact I|now right].
    cbn [bind]. rewrite (rd_at _ (pre ++ 91%N :: t') x (sp ++ [0%N])); [|listeq|lenlia].
    cbn [bind]. destruct (N.eqb_spec x 93) as [->|Hx93]; cbn [negb].
    + rewrite (wr_at _ (pre ++ 91%N :: t') 93%N (sp ++ [0%N])); [|listeq|lenlia]. cbn [bind].
      rewrite (strlen_at_spec t' _ (pre ++ [91%N]) (sp ++ [0%N]) _ fuel);
        [|exact Ht'|listeq|lenlia|lenlia].
      cbn [bind]. rewrite rev_involutive. destruct t' as [|c t''].
      * reflexivity.
      * replace (zlen (c :: t'') <=? 0) with false by (symmetry; apply Z.leb_gt; lenlia).
        rewrite (cstr_at_spec (c :: t'') _ (pre ++ [91%N]) (sp ++ [0%N]) _ fuel);
          [|exact Ht'|listeq|lenlia|lenlia].
        reflexivity.
    + rewrite (strchr_at_spec 93%N ((t' ++ [x]) ++ sp) _ (pre ++ [91%N]) [] _ fuel);
        [|discriminate|exact Hs|listeq|lenlia|lenlia].
      cbn [bind]. now destruct (mem 93 _).
Qed.

Theorem W3_safe pre s fuel :
  nonzero s -> (length (pre ++ 91%N :: s ++ [0%N]) <= fuel)%nat ->
  exists r, W3 (pre ++ 91%N :: s ++ [0%N]) (zlen pre + 1) fuel = Some r.
Proof. intros Hs Hf. eexists. now apply W3_spec. Qed.

(* the outcome is the one of section_line on rest := s *)
Theorem W3_result pre s fuel r :
  nonzero s -> (length (pre ++ 91%N :: s ++ [0%N]) <= fuel)%nat ->
  W3 (pre ++ 91%N :: s ++ [0%N]) (zlen pre + 1) fuel = Some r ->
  (forall st line, section_line st s line = w3_presult st line r) /\
  (forall nm, r = W3Name nm <-> (rev (rtrim s) = 93%N :: rev nm /\ nm <> [])) /\
  (rtrim s = [93%N] -> r = W3Err ECONF_EMPTY_SECTION_NAME) /\
  ((forall nm, rev (rtrim s) <> 93%N :: rev nm) ->
   r = W3Err (if mem 93 s then ECONF_TEXT_AFTER_SECTION else ECONF_MISSING_BRACKET)).
Proof.
  intros Hs Hf H. rewrite W3_spec in H by assumption. injection H as <-.
  split; [intros; apply section_line_w3|apply w3_spec_cases].
Qed.

(* ------------------------------------------------------------------ *)
(* W4: continuation line, newline strip *)

Lemma list_last_cases {A} (s : list A) : s = [] \/ exists t x, s = t ++ [x].
Proof. induction s as [|x t _] using rev_ind; [now left|right; eauto]. Qed.

Lemma W4_spec pre s fuel :
  nonzero s -> (length (pre ++ s ++ [0%N]) <= fuel)%nat ->
  W4_str (pre ++ s ++ [0%N]) (zlen pre) fuel = Some (removelast_nl s).
Proof.
  intros Hs Hf. unfold W4_str, W4.
  destruct (list_last_cases s) as [->|(t & x & ->)].
  - rewrite (rd_at _ pre 0%N []) by reflexivity. cbn [bind].
    change (N.eqb 0 0) with true. cbn [negb bind].
    apply (cstr_at_spec [] _ pre []); auto. lenlia.
  - destruct (rd_forallb (fun c => negb (N.eqb c 0)) (t ++ [x]) pre [0%N] (zlen pre) Hs)
      as (c & Hc & Hcnz); [lenlia|].
    rewrite Hc. cbn [bind]. rewrite Hcnz.
    rewrite (strlen_at_spec (t ++ [x]) _ pre [] _ fuel); [|exact Hs|reflexivity|reflexivity|lenlia].
    cbn [bind]. rewrite (rd_at _ (pre ++ t) x [0%N]); [|listeq|lenlia]. cbn [bind].
    unfold removelast_nl. rewrite rev_unit. cbv beta iota. rewrite match10.
    apply forallb_app_t in Hs as Hs'. destruct Hs' as [Ht _].
    destruct (N.eqb_spec x 10) as [->|Hx].
    + rewrite (wr_at _ (pre ++ t) 10%N [0%N]); [|listeq|lenlia]. cbn [bind].
      rewrite rev_involutive.
      apply (cstr_at_spec t _ pre [0%N]); [exact Ht|listeq|reflexivity|lenlia].
    + cbn [bind]. apply (cstr_at_spec (t ++ [x]) _ pre []); [exact Hs|reflexivity|reflexivity|lenlia].
Qed.

Theorem W4_safe pre s fuel :
  nonzero s -> (length (pre ++ s ++ [0%N]) <= fuel)%nat ->
  exists buf' r, W4 (pre ++ s ++ [0%N]) (zlen pre) fuel = Some buf' /\
                 cstr_at buf' (zlen pre) fuel = Some r.
Proof.
  intros Hs Hf. pose proof (W4_spec pre s fuel Hs Hf) as H. unfold W4_str in H.
  destruct (W4 _ _ _) as [buf'|]; [|discriminate]. cbn [bind] in H. eauto.
Qed.

Theorem W4_result pre s fuel r :
  nonzero s -> (length (pre ++ s ++ [0%N]) <= fuel)%nat ->
  W4_str (pre ++ s ++ [0%N]) (zlen pre) fuel = Some r -> r = removelast_nl s.
Proof. intros Hs Hf H. rewrite W4_spec in H by assumption. now injection H as <-. Qed.

(* ------------------------------------------------------------------ *)
(* W5: libeconf_ext.c rtrim *)

Lemma W5_spec pre s fuel :
  nonzero s -> (s = [] \/ isspace (hd 0%N s) = false) ->
  (length (pre ++ s ++ [0%N]) <= fuel)%nat ->
  W5_str (pre ++ s ++ [0%N]) (zlen pre) fuel = Some (rtrim s).
Proof.
  intros Hs Hpre Hf. unfold W5_str, W5.
  rewrite (strlen_at_spec s _ pre [] _ fuel); [|exact Hs|reflexivity|reflexivity|lenlia].
  cbn [bind].
  destruct (rtrim_split s) as (t & sp & Hsplit & Hrt & Hsp & Hc). rewrite Hrt. clear Hrt.
  destruct Hc as [->|(t' & x & -> & Hx)].
  - simpl in Hsplit. subst sp. destruct s as [|c r].
    + cbn [length Z.of_nat]. change (0 <=? 0) with true. cbn [bind].
      apply (cstr_at_spec [] _ pre []); auto. lenlia.
    + exfalso. destruct Hpre as [H|H]; [discriminate|]. simpl in H, Hsp. rewrite H in Hsp. discriminate.
  - subst s.
    replace (zlen ((t' ++ [x]) ++ sp) <=? 0) with false by (symmetry; apply Z.leb_gt; lenlia).
    rewrite wb_pre_eq.
    rewrite (wb_list _ (pre ++ t') x sp [0%N] None _ (zlen pre + zlen t') fuel);
      [|listeq|exact Hsp|lenlia|lenlia|lenlia|exact I|now right].
    cbn [bind]. destruct (tail0 sp) as (t0 & tl & Ht & Hl).
    rewrite (wr_at _ (pre ++ t' ++ [x]) t0 tl); [|rewrite <- Ht; listeq|lenlia]. cbn [bind].
    apply forallb_app_t in Hs as [Hs1 _].
    apply (cstr_at_spec (t' ++ [x]) _ pre tl); [exact Hs1|listeq|reflexivity|lenlia].
Qed.

Theorem W5_safe pre s fuel :
  nonzero s -> (s = [] \/ isspace (hd 0%N s) = false) ->
  (length (pre ++ s ++ [0%N]) <= fuel)%nat ->
  exists buf' r, W5 (pre ++ s ++ [0%N]) (zlen pre) fuel = Some buf' /\
                 cstr_at buf' (zlen pre) fuel = Some r.
Proof.
  intros Hs Hpre Hf. pose proof (W5_spec pre s fuel Hs Hpre Hf) as H. unfold W5_str in H.
  destruct (W5 _ _ _) as [buf'|]; [|discriminate]. cbn [bind] in H. eauto.
Qed.

Theorem W5_result pre s fuel r :
  nonzero s -> (s = [] \/ isspace (hd 0%N s) = false) ->
  (length (pre ++ s ++ [0%N]) <= fuel)%nat ->
  W5_str (pre ++ s ++ [0%N]) (zlen pre) fuel = Some r -> r = rtrim s.
Proof. intros Hs Hpre Hf H. rewrite W5_spec in H by assumption. now injection H as <-. Qed.

(* without the precondition the checked model exhibits the read before the
   buffer: "  " in a buffer of its own *)
Theorem W5_needs_precondition :
  exists s, nonzero s /\ W5 ([] ++ s ++ [0%N]) 0 (length ([] ++ s ++ [0%N])) = None.
Proof. exists [32%N; 32%N]. split; reflexivity. Qed.

(* rtrim is only called on the result of ltrim *)
Theorem W5_callers_ok (x : list N) : ltrim x = [] \/ isspace (hd 0%N (ltrim x)) = false.
Proof.
  unfold ltrim. destruct (drop_while_head isspace x) as [H|(y & t & H & Hy)]; rewrite H; auto.
Qed.

(* ------------------------------------------------------------------ *)
(* W6: helpers.c stripbrackets *)

Notation ne93 := (fun c : N => negb (N.eqb c 93)) (only parsing).

Lemma strip_brackets_cons c r :
  strip_brackets (c :: r) =
  if N.eqb c 91
  then match rev (c :: r) with
       | y :: _ => if N.eqb y 93 then take_while ne93 r else c :: r
       | [] => c :: r
       end
  else c :: r.
Proof.
  unfold strip_brackets. rewrite match91. destruct (N.eqb c 91); [|reflexivity].
  destruct (rev (c :: r)) as [|y l]; [reflexivity|]. now rewrite match93.
Qed.

Lemma take_while_split93 (l : list N) :
  In 93%N l -> exists tail, l = take_while ne93 l ++ 93%N :: tail.
Proof.
  intros Hin. pose proof (take_drop_while ne93 l) as H.
  destruct (drop_while_head ne93 l) as [E|(x & t & E & Hx)]; rewrite E in H.
  - exfalso. rewrite app_nil_r in H.
    pose proof (take_while_forallb ne93 l) as Hall. rewrite H in Hall.
    rewrite forallb_forall in Hall. specialize (Hall _ Hin). discriminate.
  - exists t. apply negb_false_iff, N.eqb_eq in Hx. subst x. now symmetry.
Qed.

(* the copy loop: [d] already copied, [y] the byte under `buffer`,
   [tw] the bytes still to copy, then the closing bracket *)
Lemma sb_loop_spec pre tail tw : forall buf d y i fuel,
  forallb ne93 tw = true ->
  buf = pre ++ d ++ y :: tw ++ 93%N :: tail -> i = zlen (pre ++ d) ->
  (length tw < fuel)%nat ->
  exists y', sb_loop buf i i fuel = Some (pre ++ (d ++ tw) ++ y' :: 93%N :: tail, i + zlen tw).
Proof.
  induction tw as [|c tw IH]; intros buf d y i fuel Htw Hb Hi Hf;
    (destruct fuel as [|f]; [simpl in Hf; lia|]); cbn [sb_loop].
  - rewrite (rd_at buf (pre ++ d ++ [y]) 93%N tail); [|subst buf; listeq|lenlia].
    cbn [bind]. change (N.eqb 93 93) with true. cbn [negb].
    exists y. f_equal. f_equal; [|lenlia]. subst buf. now rewrite app_nil_r.
  - simpl in Htw. apply andb_true_iff in Htw as [Hc Htw].
    rewrite (rd_at buf (pre ++ d ++ [y]) c (tw ++ 93%N :: tail)); [|subst buf; listeq|lenlia].
    cbn [bind]. rewrite Hc.
    rewrite (wr_at buf (pre ++ d) y (c :: tw ++ 93%N :: tail)); [|subst buf; listeq|exact Hi].
    cbn [bind].
    destruct (IH ((pre ++ d) ++ c :: c :: tw ++ 93%N :: tail) (d ++ [c]) c (i + 1) f Htw)
      as (y' & Hy'); [listeq|lenlia|simpl in Hf; lia|].
    exists y'. rewrite Hy'. f_equal. f_equal; [listeq|lenlia].
Qed.

Lemma W6_spec pre s fuel :
  nonzero s -> (length (pre ++ s ++ [0%N]) <= fuel)%nat ->
  W6_str (pre ++ s ++ [0%N]) (zlen pre) fuel = Some (strip_brackets s).
Proof.
  intros Hs Hf. unfold W6_str, W6.
  rewrite (strlen_at_spec s _ pre [] _ fuel); [|exact Hs|reflexivity|reflexivity|lenlia].
  cbn [bind]. destruct s as [|c r].
  - (* empty string: length wraps, but the second read is short-circuited *)
    rewrite (rd_at _ pre 0%N []) by reflexivity. cbn [bind].
    change (N.eqb 0 91) with false. cbv beta iota. cbn [bind].
    apply (cstr_at_spec [] _ pre []); auto. lenlia.
  - rewrite (rd_at _ pre c (r ++ [0%N])) by reflexivity. cbn [bind].
    rewrite strip_brackets_cons. destruct (N.eqb_spec c 91) as [->|Hc].
    2:{ cbn [bind]. apply (cstr_at_spec (c :: r) _ pre []); [exact Hs|reflexivity|reflexivity|lenlia]. }
    destruct (list_last_cases (91%N :: r)) as [E|(w & y & Hw)]; [discriminate|].
    rewrite Hw in *. rewrite rev_unit.
    rewrite (rd_at _ (pre ++ w) y [0%N]); [|listeq|lenlia]. cbn [bind].
    destruct (N.eqb_spec y 93) as [->|Hy].
    2:{ cbn [bind]. apply (cstr_at_spec (w ++ [y]) _ pre []); [exact Hs|reflexivity|reflexivity|lenlia]. }
    destruct w as [|c' r']; [discriminate|]. injection Hw as <- ->.
    destruct (take_while_split93 (r' ++ [93%N])) as (tail & Htl).
    { apply in_or_app. right. now left. }
    set (tw := take_while ne93 (r' ++ [93%N])) in *.
    assert (Hb : pre ++ ((91%N :: r') ++ [93%N]) ++ [0%N] =
                 pre ++ [] ++ 91%N :: tw ++ 93%N :: (tail ++ [0%N])).
    { change ((91%N :: r') ++ [93%N]) with (91%N :: (r' ++ [93%N])). rewrite Htl. listeq. }
    assert (Hlen : (length tw < length (r' ++ [93%N]))%nat).
    { rewrite Htl. lenlia. }
    assert (Htw : nonzero tw).
    { simpl in Hs. rewrite Htl in Hs. apply forallb_app_t in Hs. tauto. }
    destruct (sb_loop_spec pre (tail ++ [0%N]) tw _ [] 91%N (zlen pre) fuel
                (take_while_forallb _ _) Hb) as (y' & Hy'); [lenlia|lenlia|].
    rewrite Hy'. cbn [bind].
    rewrite (wr_at _ (pre ++ tw) y' (93%N :: tail ++ [0%N])); [|listeq|lenlia]. cbn [bind].
    apply (cstr_at_spec tw _ pre (93%N :: tail ++ [0%N])); [exact Htw|listeq|reflexivity|lenlia].
Qed.

Theorem W6_safe pre s fuel :
  nonzero s -> (length (pre ++ s ++ [0%N]) <= fuel)%nat ->
  exists buf' r, W6 (pre ++ s ++ [0%N]) (zlen pre) fuel = Some buf' /\
                 cstr_at buf' (zlen pre) fuel = Some r.
Proof.
  intros Hs Hf. pose proof (W6_spec pre s fuel Hs Hf) as H. unfold W6_str in H.
  destruct (W6 _ _ _) as [buf'|]; [|discriminate]. cbn [bind] in H. eauto.
Qed.

Theorem W6_result pre s fuel r :
  nonzero s -> (length (pre ++ s ++ [0%N]) <= fuel)%nat ->
  W6_str (pre ++ s ++ [0%N]) (zlen pre) fuel = Some r -> r = strip_brackets s.
Proof. intros Hs Hf H. rewrite W6_spec in H by assumption. now injection H as <-. Qed.
