"""C13 — parse failures name the right error, file and line and return nothing partial."""
import vlib, grammar, gens, gramlib, laylib, trees
from vlib import enc
from checklib import Scenario

RULE = ("conventional files (all delimiter/comment sets) with one malformed line of each kind (no closing bracket, text "
        "after the bracket, empty section name, key + text without delimiter under non-blank delimiter sets) injected at "
        "every position, followed by arbitrary further lines; expected code and 1-based line from the Coq spec (BadLines.v) "
        "recomputed independently here; error location file; no object handed back; the same malformed lines inside the main file or a drop-in of layered reads (all four call shapes, with and without JOIN_SAME_ENTRIES / PYTHON_STYLE on the handle), compared with the model incl. error location; every error code's message and two "
        "out-of-range codes; missing file; the same relative name read again after chdir between directories that hold different (well-formed and malformed) files of that name, each compared with the read of that file by its absolute name; distinct by bytes")

CODES = {"nobracket": 9, "textafter": 12, "empty": 11, "nodelim": 10}

def bad_line(rng, dl, cm, prev_entry):
    klass = grammar.cls(dl)
    kinds = ["nobracket", "textafter", "empty"] + (["nodelim"] if klass == "N" else [])
    kind = rng.choice(kinds)
    ind = grammar.blanks(rng, 0, 2)
    plain = lambda n, extra=b"": bytes(rng.choice([c for c in grammar.TEXT + b" =:" + extra if c not in cm and c != 34]) for _ in range(n))
    if kind == "nobracket":
        t = bytes(x for x in plain(rng.randrange(0, 8), b"[") if x != 93)
        return kind, ind + b"[" + t
    if kind == "textafter":
        name = plain(rng.randrange(0, 5))
        junk = plain(rng.randrange(0, 4), b"[]") + bytes([rng.choice([c for c in grammar.TEXT if c not in cm and c != 34 and c != 93])])
        junk = junk.lstrip(b" \t") or b"x"
        if rng.random() < 0.25: junk = bytes(rng.choice(b"\x80\xa7\xb5\xe9\xff") for _ in range(rng.randrange(1, 4)))      # bytes above 127 only
        return kind, ind + b"[" + name + b"]" + grammar.blanks(rng, 0, 2) + junk
    if kind == "empty":
        return kind, ind + b"[]" + grammar.blanks(rng, 0, 2)
    k = grammar.key(rng, dl, cm)
    first = bytes([rng.choice([c for c in grammar.TEXT if c not in cm and c not in dl and c != 34])])
    rest = plain(rng.randrange(0, 6))
    if prev_entry or rng.random() < 0.3:
        rest += bytes([rng.choice([c for c in dl])]) + plain(rng.randrange(0, 3))
    return kind, ind + k + grammar.blanks(rng, 1, 2) + first + rest

def gen(rng, tier):
    n = 1800 if tier == "quick" else 60000
    asts = []
    for _ in range(n):
        dl = rng.choice(grammar.DELIMS); cm = rng.choice(grammar.COMMENTS)
        asts.append((dl, cm, grammar.gen_file(rng, dl, cm, maxlines=7)))
    exp = gramlib.expected_of(asts)
    out = []
    for (dl, cm, ls), e in zip(asts, exp):
        prev_entry = bool(ls) and ls[-1][0] in ("K", "T")
        kind, bad = bad_line(rng, dl, cm, prev_entry)
        rest = gens.mutate_conventional(rng) if rng.random() < 0.7 else b""
        if rng.random() < 0.2: rest = None                      # the offending line is the last one and has no newline
        content = e["bytes"] + bad + (b"\n" + rest if rest is not None else b"")
        # the file's own path is part of what is reported: short, and in a tenth of the cases deep (250 ... 4000 bytes)
        fpath = b"/e/bad.conf"
        if rng.random() < 0.1:
            total = rng.choice([250, 255, 256, 257, 300, 1000, 4000])
            fpath = b"/e"
            while len(fpath) + 10 < total: fpath += b"/" + b"d" * min(200, total - len(fpath) - 10)
            fpath += b"/bad.conf"
        s = Scenario([gens.parse_cmd(0, fpath, content, dl, cm), "dump 0", "groups 0"], tags=(kind,))
        s.want = "rc=%d line=%d file=%s" % (CODES[kind], len(ls) + 1, enc(fpath))
        out.append(s)
    # the malformed file as the n-th file of a layered read, with and without the per-object parser options
    for _ in range(n // 2):
        st = laylib.setup(rng, mode=rng.choice([0, 1, 1, 2, 2, 3]), popts=True)
        tree = laylib.inject_bad_line(rng, st["cmds"])
        cmds = tree + st["pre"] + [st["read"], "errloc", "dump 0"]
        if st["hist"]: cmds += [st["hist"], "errloc"]
        k = len(tree) + len(st["pre"])
        out.append(Scenario(cmds, [False] * k + [True] * (len(cmds) - k), tags=("layered",)))
    # the caller's check callback reads with the library itself (a policy configuration of its own) before it accepts
    # every file: the location reported for the malformed file of the OUTER read is still that file's
    for _ in range(n // 8):
        st = laylib.setup(rng, mode=rng.choice([0, 1, 2]))
        tree = laylib.inject_bad_line(rng, st["cmds"])
        nest = [trees.fsdir(b"/pol/usr"), trees.fsdir(b"/pol/etc"), trees.fsfile(b"/pol/usr/policy.conf", b"allow=1\nmore=2\nthird=3\n")]
        for dd in (b"/pol/etc/policy.conf.d", b"/pol/etc/policy.d", b"/pol/etc/policy/conf.d", b"/pol/etc/policy.x"):
            nest += [trees.fsdir(dd), trees.fsfile(dd + b"/allow.conf", b"# the list\n\nallowed=yes\nother=1\nand=2\n6=6\n7=7\n")]
        nest += ["cb reject", "cbnest %s %s %s %s" % (enc(b"/pol/usr"), enc(b"/pol/etc"), enc(b"policy"), enc(b"conf"))]
        cmds = tree + st["pre"] + nest + [st["read"], "errloc", "dump 0"]
        if st["hist"]: cmds += [st["hist"], "errloc"]
        k = len(tree) + len(st["pre"]) + len(nest)
        sc = Scenario(cmds, [False] * k + [True] * (len(cmds) - k), tags=("nested-callback",))
        sc.nested = True
        out.append(sc)
    # a missing file gives file-not-found however it is missing: no such name, a path component that is a regular file,
    # a component longer than NAME_MAX, a dangling link; also as one layer of a layered read whose other layer is fine
    for _ in range(20 if tier == "quick" else 400):
        long = b"n" * 300
        miss = rng.choice([b"/mf/none.conf", b"/mf/plain.conf/extra.conf", b"/mf/" + long + b".conf", b"/mf/dangling.conf", b"/mf/sub/deeper/x.conf", b"mf/none.conf"])
        cmds = [trees.fsdir(b"/mf"), trees.fsfile(b"/mf/plain.conf", b"k=1\n"), trees.fslink(b"/mf/dangling.conf", b"/mf/gone"),
                trees.fsdir(b"/good"), trees.fsfile(b"/good/app.conf", b"k=good\n"),
                "readfile 0 %s x3d x23" % enc(miss), "dump 0",
                # one layer directory is a regular file / does not exist at all, the other holds the configuration
                "readdirs 1 %s %s %s x636f6e66 x3d x23" % (enc(b"/good"), enc(rng.choice([b"/mf/plain.conf", b"/mf/none", b"/mf/" + long])), enc(b"app")), "dump 1",
                "readdirs 2 %s %s %s x636f6e66 x3d x23" % (enc(rng.choice([b"/mf/plain.conf", b"/mf/none"])), enc(b"/mf/none2"), enc(b"app")), "dump 2"]
        out.append(Scenario(cmds, [False] * 5 + [True] * 6, tags=("missing",)))
    # the same RELATIVE name read again after the process has changed its working directory (the two directories hold
    # different files of that name: well-formed ones, and malformed ones at different lines): each read answers for the
    # file the name denotes NOW - code, error location (absolute name of that file, its line) and no object - exactly as
    # the read of that file by its absolute name does right afterwards (compared with the model, which follows chdir
    # through CwdModel.respell, and - independently of that - the two reads of the implementation with each other)
    def body(j):
        ls = [b"k%d=%d" % (i, i) for i in range(rng.randrange(0, 6))]
        r = rng.random()
        if r < 0.35: return b"\n".join([b"[main]"] + ls) + b"\n"
        bad = rng.choice([b"[broken", b"[sec] junk", b"[]", b"key value"])
        return b"\n".join(ls + [bad] + [b"after=1"] * rng.randrange(0, 3)) + rng.choice([b"\n", b""])
    for j in range(60 if tier == "quick" else 1500):
        nm = rng.choice([b"app.conf", b"x", b"sub/app.conf"])
        dirs = [b"/cw/a", b"/cw/b", b"/cw/c/deeper"]
        cmds = [trees.fsdir(b"/cw"), trees.fsdir(b"/cw/c")]
        for d in dirs:
            cmds += [trees.fsdir(d), trees.fsdir(d + b"/sub"), trees.fsfile(d + b"/" + nm, body(j))]
        k = len(cmds); pairs = []
        for d in [rng.choice(dirs) for _ in range(rng.randrange(2, 6))]:
            cmds.append("chdir " + enc(d))
            dl = rng.choice(["x3d x23", "x3d x23", "x3a x3b"])
            pairs.append((len(cmds), len(cmds) + 3))
            cmds += ["readfile 0 %s %s" % (enc(nm), dl), "errloc", "dump 0", "readfile 1 %s %s" % (enc(d + b"/" + nm), dl), "errloc", "dump 1"]
        sc = Scenario(cmds, [False] * k + [True] * (len(cmds) - k), tags=("cwd",))       # the model follows chdir (CwdModel.respell)
        sc.pairs = pairs
        out.append(sc)
    out.append(Scenario(["errstring %d" % i for i in range(0, 27)] + ["errstring 1000"], tags=("messages",)))
    return out

def oracle(s, ilines):
    for (a, b) in getattr(s, "pairs", []):
        for i in range(3):
            if ilines[a + i] != ilines[b + i]:
                return "read by a relative name after chdir differs from the read of the same file by its absolute name: %s: %s | %s" % (s.cmds[a + i].split()[0], ilines[a + i][:200], ilines[b + i][:200])
    w = getattr(s, "want", None)
    if w is None: return None
    if ilines[0] != w: return "expected %s, implementation %s" % (w, ilines[0])
    if ilines[1] != "noobj": return "a configuration was handed back after a parse error: " + ilines[1][:200]
    return None
