"""C16 — owner, group and symlink restrictions gate every file of every read."""
import vlib, trees, gens, laylib
from vlib import enc
from checklib import Scenario

RULE = ("small trees with every consulted file assigned owner in {0, 1234}, group in {0, 4321} and kind in {regular, symlink "
        "to a regular file} (real chown/symlink; the check runs as root) x every combination of required owner / required group "
        "/ no-symlink rule x readFile, readDirs, readDirsHistory, readConfig and (40 %) their WithCallback variants with an accepting callback, with absolute names and (a third of the cases) names relative to the working directory; then the same read after "
        "econf_reset_security_settings; a quarter of the cases add econf_requirePermissions masks (met by all / failed by regular files / failed by directories); the oracle checks on the implementation's fopen log that no file violating a rule in "
        "force is ever opened; the specific code of the first violating file and everything else through the model; "
        "distinct by scenario; and across threads: the requirements are issued by the main thread, four worker threads read private trees (the settings are documented as process-wide: every worker's result must be the model's for requirement + read)")

def gen(rng, tier):
    n = 1200 if tier == "quick" else 40000
    out = []
    for _ in range(n):
        rel = rng.random() < 0.35
        st = laylib.setup(rng, mode=rng.choice([0, 0, 1, 2]), owners=True, links=True, relative=rel)
        ow = rng.choice(["-", "0", "1234", "-", "0", "1234", "4294967295"]); gr = rng.choice(["-", "0", "4321", "-", "0", "4321", "4294967295"]); nl = rng.choice(["0", "0", "1"])
        files = laylib.files_of(st["cmds"])
        cbc = ["cb reject"] if rng.random() < 0.4 else []          # the ...WithCallback entry points with a callback that accepts everything
        secs = ["sec %s %s %s" % (ow, gr, nl)]
        if rng.random() < 0.25:
            # the deprecated permission requirement on top (harness files are 0644, directories 0755, links 0777):
            # masks that every file meets, that regular files fail, that directories fail
            secs.append("perms %s %s" % (rng.choice(["400", "4", "100", "2", "170000", "444"]), rng.choice(["100", "5", "2", "40000", "20"])))
        cmds = st["cmds"] + st["pre"] + cbc + secs + [st["read"], "dump 0"]
        obs = [False] * (len(st["cmds"]) + len(st["pre"]) + len(cbc) + len(secs)) + [True, True]
        if st["hist"]: cmds.append(st["hist"]); obs.append(True)
        if files:
            f = rng.choice(files)
            if rel: f = rng.choice([f.lstrip(b"/"), b"./" + f.lstrip(b"/")])
            cmds.append("readfile 1 %s x3d x23" % enc(f)); obs.append(True)
        # after the reset everything is accepted again
        cmds += ["sec - - 0"] + (st["pre"] if st["mode"] != 0 else []) + [st["read"].replace(" 0 ", " 2 ", 1) if st["mode"] == 0 else st["read"], "dump %d" % (2 if st["mode"] == 0 else 0)]
        obs += [False] + ([False] * len(st["pre"]) if st["mode"] != 0 else []) + [True, True]
        s = Scenario(cmds, obs, tags=("own%s-grp%s-nl%s" % (ow, gr, nl),))
        s.meta = {"owner": ow, "group": gr, "nolinks": nl, "tree": st["cmds"], "relative": rel}
        out.append(s)
    return out

def oracle(s, ilines):
    import re
    meta = getattr(s, "meta", None)
    if not meta: return None
    attrs, links = {}, {}
    for c in meta["tree"]:
        t = c.split()
        if t[0] == "fsfile": attrs[vlib.dec(t[1])] = ("file", t[3], t[4])
        if t[0] == "fslink": attrs[vlib.dec(t[1])] = ("link", t[3], t[4]); links[vlib.dec(t[1])] = vlib.dec(t[2])
    active = True
    for c, l in zip(s.cmds, ilines):
        t = c.split()
        if t[0] == "sec": active = not (t[1] == "-" and t[2] == "-" and t[3] == "0")
        if t[0] in ("readdirs", "readconfig", "readfile", "history") and active:
            m = re.search(r"opens=(\S*)", l)
            for p in [x for x in (m.group(1).split(",") if m else []) if x]:
                path = re.sub(rb"/+", b"/", vlib.dec(p))
                if not path.startswith(b"/"): path = b"/" + re.sub(rb"^(\./)+", b"", path)
                # a name not starting with '/' is opened through realpath(): the name fopen sees is then the
                # link's target, while the rules apply to the consulted name — any consulted name leading here counts
                cands = [path] + ([l for l, tg in links.items() if tg == path] if meta.get("relative") else [])
                why = None
                for cnd in cands:
                    a = attrs.get(cnd)
                    if not a: why = None; break
                    if meta["nolinks"] == "1" and a[0] == "link": why = "symbolic link %s opened while links are forbidden" % cnd
                    elif meta["owner"] != "-" and a[1] != meta["owner"]: why = "file %s of owner %s opened while owner %s is required" % (cnd, a[1], meta["owner"])
                    elif meta["group"] != "-" and a[2] != meta["group"]: why = "file %s of group %s opened while group %s is required" % (cnd, a[2], meta["group"])
                    else: why = None; break
                if why: return why
    return None

def nontrivial(s, mlines):
    return any(l.startswith("rc=16") or l.startswith("rc=17") or l.startswith("rc=20") for l in mlines)


# ---- the settings are process-wide: a requirement issued by one thread is in force for reads in every other thread ----
def _thread_case(rng):
    ow = rng.choice(["-", "0", "1234", "1234"]); gr = rng.choice(["-", "0", "4321", "4321"]); nl = rng.choice(["0", "1", "1"])
    pre = ["sec %s %s %s" % (ow, gr, nl)]
    if rng.random() < 0.3: pre.append("perms %s %s" % (rng.choice(["400", "100", "2"]), rng.choice(["100", "2", "20"])))
    tset = []
    for _ in range(4):
        st = laylib.setup(rng, mode=rng.choice([1, 2]), owners=True, links=True)          # handle-specific directory lists only
        cmds = st["cmds"] + st["pre"] + [st["read"], "dump 0"]
        files = laylib.files_of(st["cmds"])
        if files: cmds.append("readfile 1 %s x3d x23" % enc(rng.choice(files)))
        tset.append(cmds)
    return pre, tset

def _run_thread_case(pre, tset, what="requirements set by the main thread"):
    import C18, checklib
    exe, err = vlib.impl_driver("tsan")
    if exe is None: raise vlib.BuildError(err)
    want = [w[len(pre):] for w in vlib.run_model([pre + t for t in tset])]
    out, rc, se = C18.run_threads(exe, tset, pre=pre)
    if out is None or rc != 0: return "threaded run ended abnormally: %s %s" % (rc, (se or "")[-600:])
    got = C18.split_threads(out)
    for i in range(len(tset)):
        kind, det = checklib.judge(Scenario(tset[i]), want[i], got[i] if i < len(got) else [], None)
        if kind: return "%s (%s), read in worker thread %d: %s" % (what, "; ".join(pre), i, det)
    return None

def extra_check(scens, rng, tier, cov):
    rounds = 12 if tier == "quick" else 200
    cov["cross_thread_cases"] = rounds
    for _ in range(rounds):
        pre, tset = _thread_case(rng)
        det = _run_thread_case(pre, tset)
        if det:
            body = "# property C16\n# %s\n# 'pre' block: run by the main thread; one block per worker thread; replay: ./check C16 --replay <file>\n" % det.replace("\n", " ")[:1500]
            body += "pre\n" + "\n".join(pre) + "\n"
            for i, c in enumerate(tset): body += "thread %d\n" % i + "\n".join(c) + "\n"
            return body, det
    return None

def replay(path, pid="C16"):
    text = open(path).read()
    if "\nthread 0\n" not in text:
        import sys, checklib
        return checklib.replay("C16", path, sys.modules[__name__])
    pre, tset, cur = [], [], None
    for ln in text.split("\n"):
        if ln.startswith("#") or not ln: continue
        if ln == "pre": cur = pre
        elif ln.startswith("thread "): cur = []; tset.append(cur)
        elif cur is not None: cur.append(ln)
    det = _run_thread_case(pre, tset)
    if det:
        print(det[:600]); print("VIOLATION property=%s replay=%s" % (pid, path)); return 1
    print("replay: no violation"); return 0
