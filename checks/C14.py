"""C14 — no length limit: long keys, values, comments, lines and paths are kept whole."""
import vlib, gens
from vlib import enc
from checklib import Scenario

RULE = ("every field kind (key, value, continuation line, section, comment before, comment after, file name, directory name, "
        "full path of the main file of a layered read at PATH_MAX-1 and just below, file name (NAME_MAX-5..NAME_MAX) and full path (PATH_MAX-6..PATH_MAX-1) handed to econf_writeFile, option string) x lengths {1, 2^k-1..2^k+1 for k = 6..12, BUFSIZ-2..BUFSIZ+2, 2*BUFSIZ, 64Ki (quick) / 1Mi (thorough)} and {NAME_MAX-1, NAME_MAX} "
        "x every API copying that field: read, plain getter, extended getter, merge, write + re-read, setters, layered read; "
        "pairs of different keys / sections that agree in their first n bytes stay two; the oracle checks the LENGTH of what comes back against what was put in; values also against the model; "
        "distinct by (field, length)")

BUFSIZ = 8192
vlib.IMPL_STACK_KB = 192       # the implementation runs with a 192 KiB native stack: copies of arguments on the stack (alloca, strdupa, VLAs) show

def lengths(tier):
    ls = [1, BUFSIZ - 2, BUFSIZ - 1, BUFSIZ, BUFSIZ + 1, BUFSIZ + 2, 2 * BUFSIZ, 65536]
    if tier == "thorough": ls.append(1 << 20)
    return ls

def gen(rng, tier):
    out = []
    # besides the stdio buffer size: every length next to the sizes allocators and hand-written growth code like
    windows = [n + d for n in (64, 128, 256, 512, 1024, 2048, 4096) for d in (-1, 0, 1)]
    for n in windows + lengths(tier):
        big = b"v" * n
        # value, key, section, comments, continuation line through read / getters / ext / merge / write / reread
        cases = {
            "value": b"k=" + big + b"\n",
            "key": b"K" * n + b"=1\n",
            "section": b"[" + b"S" * n + b"]\nk=1\n",
            "comment-before": b"#" + b"c" * n + b"\nk=1\n",
            "comment-after": b"k=1 #" + b"c" * n + b"\n",
            "comment-block": b"# first\n#" + b"c" * n + b"\n# last\nk=1\n",          # a long line inside a block of comment lines
            "comment-after-block": b"k=1 # t\n#" + b"c" * n + b"\n\nj=2\n",
            "continuation": b"k=a\n  " + b"w" * n + b"\n",
            "quoted": b"k=\"" + b"q" * n + b"\"\n",
        }
        for field, content in cases.items():
            cmds = [gens.parse_cmd(0, b"/l/f.conf", content, b"=", b"#"), "getall 0", "newini 1", "set 1 string x6f x6f x6f 0",
                    "merge 2 1 0", "getall 2", "reread 3 0", "getall 3"]
            s = Scenario(cmds, tags=(field,)); s.field, s.n = field, n
            out.append(s)
        # two DIFFERENT names that agree in their first n bytes: two keys of one section, two sections
        twin = b"k=0\n" + b"K" * n + b"a=first\n" + b"K" * n + b"b=second\n[" + b"S" * n + b"x]\nk=third\n[" + b"S" * n + b"y]\nk=fourth\n"
        cmds = [gens.parse_cmd(0, b"/l/t.conf", twin, b"=", b"#"), "getall 0",
                "set 0 string - %s %s 0" % (enc(b"K" * n + b"c"), enc(b"fifth")), "getall 0", "reread 1 0", "getall 1"]
        s = Scenario(cmds, tags=("twins",)); s.field, s.n = "twins", n
        if n <= 65536 + 2: out.append(s)          # (the megabyte point: five names of that size through every getter takes minutes)
        # setters with long arguments
        cmds = ["newini 0", "set 0 string %s %s %s 0" % (enc(b"G" * n), enc(b"K" * n), enc(big)), "getall 0", "reread 1 0", "getall 1"]
        s = Scenario(cmds, tags=("setter",)); s.field, s.n = "setter", n
        out.append(s)
    # PHYSICAL lines (newline included) of every length around the stdio buffer size and its doublings, for every kind of
    # line, each followed by one more line that must stay a line of its own; an earlier long line first in half of them
    for cap in (8192, 16384, 32768, 65536):
        for total in range(cap - 4, cap + 3):
            for kind in ("value", "comment", "section", "continuation", "key"):
                body = total - 1
                if kind == "value": line = b"k=" + b"v" * (body - 2)
                elif kind == "comment": line = b"#" + b"c" * (body - 1)
                elif kind == "section": line = b"[" + b"S" * (body - 2) + b"]"
                elif kind == "continuation": line = b" " + b"w" * (body - 1)
                else: line = b"K" * (body - 2) + b"=1"
                pre = (b"first=" + b"x" * (cap // 2 + 5) + b"\n") if cap > 8192 else b""
                content = pre + (b"a=1\n" if kind == "continuation" else b"") + line + b"\nsentinel=ok\nlast=1\n"
                s = Scenario([gens.parse_cmd(0, b"/l/pl.conf", content, b"=", b"#"), "dump 0", "getall 0"], tags=("physical-line",)); s.field, s.n = "physical-line-" + kind, total
                if cap <= 16384 or tier != "quick" or kind in ("value", "comment"): out.append(s)
    # names handed to getters and setters as ARGUMENTS, longer than the native stack the implementation runs with
    for n in ((262144,) if tier == "quick" else (262144, 1 << 20)):
        g, k = b"G" * n, b"K" * n
        cmds = ["newini 0", "set 0 string %s %s %s 0" % (enc(g), enc(b"k"), enc(b"v1")), "set 0 int %s %s - 5" % (enc(b"[" + g + b"]"), enc(k)),
                "get 0 string %s %s -" % (enc(b"[" + g + b"]"), enc(b"k")), "get 0 int %s %s -" % (enc(g), enc(k)), "get 0 bool %s %s b:1" % (enc(g), enc(b"absent")),
                "ext 0 %s %s" % (enc(g), enc(b"k")), "keys 0 " + enc(g)]
        s = Scenario(cmds, tags=("long-arguments",)); s.field, s.n = "long-arguments", n
        out.append(s)
    # file and directory names up to NAME_MAX, option strings
    for n in (254, 255):
        name = b"f" * (n - 7)            # <name>.conf.d must still be a legal directory name
        d = b"/x/" + b"d" * n
        cmds = ["fsdir %s 0 0" % enc(d), "fsdir %s 0 0" % enc(d + b"/" + name + b".conf.d"),
                "fsfile %s %s 0 0" % (enc(d + b"/" + name + b".conf"), enc(b"k=main\n")),
                "fsfile %s %s 0 0" % (enc(d + b"/" + name + b".conf.d/" + b"z" * (n - 5) + b".conf"), enc(b"j=dropin\n")),
                "readdirs 0 %s %s %s x636f6e66 x3d x23" % (enc(d), enc(b"/nowhere"), enc(name)), "getall 0", "path 0"]
        s = Scenario(cmds, tags=("names",)); s.field, s.n = "names", n
        out.append(s)
    # masking between layers with drop-in names of NAME_MAX-1 and NAME_MAX bytes: the lower layer's file must be ignored
    for n in (254, 255):
        dn = b"m" * (n - 5) + b".conf"
        cmds = ["fsdir %s 0 0" % enc(b"/u/ex.conf.d"), "fsdir %s 0 0" % enc(b"/e/ex.conf.d"),
                "fsfile %s %s 0 0" % (enc(b"/u/ex.conf"), enc(b"BASE=main\n")),
                "fsfile %s %s 0 0" % (enc(b"/u/ex.conf.d/" + dn), enc(b"A=vendor\nONLY_VENDOR=1\n")),
                "fsfile %s %s 0 0" % (enc(b"/e/ex.conf.d/" + dn), enc(b"A=etc\n")),
                "readdirs 0 %s %s %s x636f6e66 x3d x23" % (enc(b"/u"), enc(b"/e"), enc(b"ex")), "getall 0",
                "history %s %s %s x636f6e66 x3d x23" % (enc(b"/u"), enc(b"/e"), enc(b"ex"))]
        s = Scenario(cmds, tags=("names-masking",)); s.field, s.n = "names-masking", n
        out.append(s)
    # several drop-in directory formats, a short one first and a long one (up to NAME_MAX) behind it
    for n in (12, 200, 249):                      # "app" + format = 255 bytes = NAME_MAX for the last one
        fmt = b"." + b"p" * n + b".d"
        cmds = ["fsdir %s 0 0" % enc(b"/cd"), "fsdir %s 0 0" % enc(b"/cd/app.d"), "fsdir %s 0 0" % enc(b"/cd/app" + fmt),
                "fsfile %s %s 0 0" % (enc(b"/cd/app.conf"), enc(b"main=1\n")),
                "fsfile %s %s 0 0" % (enc(b"/cd/app.d/1.conf"), enc(b"first=1\n")),
                "fsfile %s %s 0 0" % (enc(b"/cd/app" + fmt + b"/2.conf"), enc(b"second=2\n")),
                "confdirs " + ",".join(enc(x) for x in (b".d", fmt)),
                "readdirs 0 %s %s %s x636f6e66 x3d x23" % (enc(b"/cd"), enc(b"/nowhere"), enc(b"app")), "getall 0",
                "newopts 1 " + enc(b"PARSING_DIRS=/cd;CONFIG_DIRS=.d:" + fmt), "readconfig 1 - - %s x636f6e66 x3d x23" % enc(b"app"), "getall 1"]
        s = Scenario(cmds, tags=("formats",)); s.field, s.n = "formats", n
        out.append(s)
    # the main file of a layered read at the longest names the system accepts: the REAL path of the /etc-side file is
    # PATH_MAX-1 (4095), just below, and far below; the vendor side holds a file of the same name that must lose
    rl = vlib.root_len()
    for total in (4095, 4094, 4093, 4000, 2049):
        tail = b"/app.conf"
        room = total - rl - len(b"/e") - len(tail)          # bytes for the nested directories "/ddd.../ddd..."
        comps = []
        while room > 0:
            c = min(room - 1, 200)
            if c <= 0: break
            if room - 1 - c == 1: c -= 1                     # never leave room for a lone '/'
            comps.append(b"d" * c); room -= c + 1
        etc = b"/e" + b"".join(b"/" + c for c in comps)
        assert rl + len(etc) + len(tail) == total, (rl, len(etc), total)
        cmds = ["fsfile %s %s 0 0" % (enc(b"/u/app.conf"), enc(b"KEY=vendor\n")),
                "fsfile %s %s 0 0" % (enc(etc + tail), enc(b"KEY=etc\nONLY_ETC=1\n")),
                "readdirs 0 %s %s %s x636f6e66 x3d x23" % (enc(b"/u"), enc(etc), enc(b"app")), "getall 0",
                "history %s %s %s x636f6e66 x3d x23" % (enc(b"/u"), enc(etc), enc(b"app")),
                "newopts 1 " + enc(b"PARSING_DIRS=/u:" + etc), "readconfig 1 - - %s x636f6e66 x3d x23" % enc(b"app"), "getall 1",
                "readfile 2 %s x3d x23" % enc(etc + tail), "path 2"]
        s = Scenario(cmds, tags=("pathmax",)); s.field, s.n = "pathmax", total
        out.append(s)
    # econf_writeFile with file names up to NAME_MAX and with whole paths up to PATH_MAX-1: written, and read back
    for n in (250, 251, 252, 253, 254, 255):
        fname = b"w" * (n - 5) + b".conf"
        cmds = ["fsdir %s 0 0" % enc(b"/wd"), "newini 0", "set 0 string - %s %s 0" % (enc(b"k"), enc(b"written")),
                "writeto 0 %s %s" % (enc(b"/wd"), enc(fname)), "readfile 1 %s x3d x23" % enc(b"/wd/" + fname), "getall 1"]
        s = Scenario(cmds, tags=("write-names",)); s.field, s.n = "write-names", n
        out.append(s)
    for total in (4095, 4094, 4093, 4092, 4091, 4090, 4000):
        tail = b"/out.conf"
        room = total - rl - len(b"/w") - len(tail)
        comps = []
        while room > 0:
            c = min(room - 1, 200)
            if c <= 0: break
            if room - 1 - c == 1: c -= 1
            comps.append(b"d" * c); room -= c + 1
        wd = b"/w" + b"".join(b"/" + c for c in comps)
        assert rl + len(wd) + len(tail) == total, (rl, len(wd), total)
        cmds = ["fsdir %s 0 0" % enc(wd), "newini 0", "set 0 string - %s %s 0" % (enc(b"k"), enc(b"written")),
                "writeto 0 %s %s" % (enc(wd), enc(tail[1:])), "readfile 1 %s x3d x23" % enc(wd + tail), "getall 1"]
        s = Scenario(cmds, tags=("write-pathmax",)); s.field, s.n = "write-pathmax", total
        out.append(s)
    for n in (100, 5000, 70000):
        opts = b"PARSING_DIRS=" + b":".join(b"/p%d" % i + b"x" * 20 for i in range(n // 25)) + b";ROOT_PREFIX=/" + b"r" * n
        s = Scenario(["newopts 0 " + enc(opts), "opts 0"], tags=("options",)); s.field, s.n = "options", n
        out.append(s)
    return out

def oracle(s, ilines):
    n, field = s.n, s.field
    if field in ("value", "key", "section", "comment-before", "comment-after", "comment-block", "comment-after-block", "continuation", "quoted"):
        if ilines[0] != "rc=0": return "file with a %d-byte %s refused: %s" % (n, field, ilines[0])
        for idx in (1, 5, 7):
            l = ilines[idx]
            # the longest hex-encoded token must carry all n bytes
            longest = max((len(t) for t in l.replace(";", " ").replace(",", " ").replace("=", " ").split()), default=0)
            if field in ("comment-before", "comment-after", "comment-block", "comment-after-block") and idx == 5: continue   # merge keeps comments too, checked via model
            if longest < 2 * n: return "%s of %d bytes came back shorter through `%s`: longest token %d bytes" % (field, n, s.cmds[idx], longest // 2)
    if field == "formats":
        for idx in (8, 11):
            if enc(b"second")[1:] not in ilines[idx]: return "drop-ins of the %d-byte directory format behind a shorter one are missing: %s" % (n + 3, ilines[idx][:200])
    if field == "names-masking":
        if enc(b"ONLY_VENDOR")[1:] in ilines[6]: return "a %d-byte drop-in name no longer masks the same name of the lower layer: %s" % (n, ilines[6][:200])
    if field == "pathmax":
        if "x4b4559" not in ilines[3] or enc(b"etc") [1:] not in ilines[3]: return "main file with a real path of %d bytes not used by econf_readDirs: %s" % (n, ilines[3][:200])
    if field in ("write-names", "write-pathmax"):
        if ilines[3] != "rc=0": return "econf_writeFile refuses a legal %s of %d bytes: %s" % ("file name" if field == "write-names" else "path", n, ilines[3])
        if not ilines[4].startswith("rc=0") or enc(b"written")[1:] not in ilines[5]: return "file written under a %d-byte name cannot be read back: %s %s" % (n, ilines[4][:80], ilines[5][:120])
    if field.startswith("physical-line"):
        if not ilines[0].startswith("rc=0"): return "a physical line of %d bytes (%s) makes the read fail: %s" % (n, field, ilines[0][:80])
        if enc(b"sentinel")[1:] not in ilines[1] or enc(b"last")[1:] not in ilines[1]: return "the line behind a physical line of %d bytes (%s) is lost" % (n, field)
    if field == "twins":
        for idx in (1, 3, 5):
            for v in ([b"first", b"second", b"third", b"fourth"] + ([b"fifth"] if idx > 1 else [])):
                if enc(v) not in ilines[idx].replace("=", " ").replace(";", " ").split() and ("v=" + enc(v)) not in ilines[idx]:
                    return "two names with a common prefix of %d bytes are taken for one: value %r missing in `%s`" % (n, v, s.cmds[idx][:40])
    if field == "setter":
        for idx in (2, 4):
            l = ilines[idx]
            longest = max((len(t) for t in l.replace(";", " ").replace(",", " ").replace("=", " ").split()), default=0)
            if longest < 2 * n: return "setter argument of %d bytes came back shorter" % n
    return None

def nontrivial(s, mlines):
    return s.n >= 60
