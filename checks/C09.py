"""C09 — typed getters interpret stored text faithfully or refuse."""
import gens, trees, floatoracle as fo
from gens import enc
from checklib import Scenario

RULE = ("integer literals: every type limit +-2 in decimal, octal and hexadecimal (both cases, optional sign), 33..65-bit "
        "magnitudes, random literals of 1..25 digits; booleans: all strings up to length 3 (quick) / 5 (thorough) over an "
        "alphabet holding every letter of the six words and their djb2 neighbours, plus random longer strings; decimal "
        "floating literals against an exact rational model of correct rounding; bare keys from parsed files; mixed sequences "
        "(every getter kind after every other on literals of all families, incl. conversions that leave errno set) compared with the model; "
        "each text is stored with econf_setStringValue and read with every typed getter; the expected result is computed "
        "independently in Python (int(text, base) / exact rounding); distinct by text")

LIMITS = [2**31, 2**32, 2**63, 2**64, 0, 1]

def render(v, base, upper=False, sign=None):
    m = abs(v)
    if base == 10: body = "%d" % m
    elif base == 8: body = "0%o" % m if m else "0"
    else: body = ("0X%X" if upper else "0x%x") % m
    s = "-" if v < 0 else ("+" if sign == "+" else "")
    return (s + body).encode()

def int_literals(rng, n):
    lits = []
    for L in LIMITS:
        for d in range(-2, 3):
            for sgn in (1, -1):
                v = sgn * (L + d)
                for base in (10, 8, 16):
                    lits.append(render(v, base, upper=rng.random() < 0.5, sign=rng.choice([None, "+"])))
    for bits in range(33, 66):
        v = rng.getrandbits(bits) | (1 << (bits - 1))
        lits.append(render(rng.choice([v, -v]), rng.choice([10, 8, 16])))
    while len(lits) < n:
        nd = rng.randrange(1, 26)
        base = rng.choice([10, 8, 16])
        digs = "".join(rng.choice("0123456789abcdef"[:base]) for _ in range(nd))
        v = int(digs, base)
        lits.append(render(rng.choice([v, -v]), base, upper=rng.random() < 0.3, sign=rng.choice([None, "+"])))
    lits.append(b"-0"); lits.append(b"0"); lits.append(b"00"); lits.append(b"0x0")
    return lits

def lit_value(t):
    s = t.decode()
    neg = s.startswith("-"); s = s.lstrip("+-")
    if s.lower().startswith("0x"): v = int(s[2:], 16)
    elif s.startswith("0") and len(s) > 1: v = int(s[1:], 8)
    else: v = int(s, 10)
    return -v if neg else v

def expect_int(kd, t):
    lo, hi = {"int": (-2**31, 2**31 - 1), "int64": (-2**63, 2**63 - 1), "uint": (0, 2**32 - 1), "uint64": (0, 2**64 - 1)}[kd]
    v = lit_value(t)
    return "rc=0 z=%d" % v if lo <= v <= hi else "rc=24"

BOOL_ALPHA = b"yesnotrufalYESNOTRUFAL10p-g@ _"
def expect_bool(t):
    l = t.lower()
    if l in (b"1", b"yes", b"true"): return "rc=0 b=1"
    if l in (b"0", b"", b"no", b"false"): return "rc=0 b=0"
    if l == b"_none_": return "rc=15"
    return "rc=8"

def float_literals(rng, n):
    out = [b"0", b"-0", b"1e-320", b"4.9e-324", b"2.4703282292062327e-324", b"1.7976931348623157e308", b"1.8e308", b"1e400",
           b"3.4028235e38", b"3.4028236e38", b"1.401298464324817e-45", b"7e-46", b"0.1", b".5", b"5.", b"1e", b"1e+", b"123456789012345678901234567890",
           b"9007199254740993", b"16777217", b"1.00000005960464477539062500001", b"1.000000059604644775390625"]
    while len(out) < n:
        ip = "".join(rng.choice("0123456789") for _ in range(rng.randrange(0, 20)))
        fp = "".join(rng.choice("0123456789") for _ in range(rng.randrange(0, 20)))
        if not ip and not fp: ip = "7"
        t = ip + ("." + fp if fp or rng.random() < 0.2 else "")
        if rng.random() < 0.6: t += "e%+d" % rng.randrange(-340, 320)
        out.append((rng.choice(["", "-", "+"]) + t).encode())
    return out

def oracle(s, ilines):
    text = None
    for c, l in zip(s.cmds, ilines):
        t = c.split()
        if t[0] == "set" and t[2] == "string":
            text = bytes.fromhex(t[5][1:])
        elif t[0] == "get" and text is not None and "lit" in s.tags:
            kd = t[2]
            if kd in ("int", "int64", "uint", "uint64"):
                e = expect_int(kd, text)
                if l != e: return "%s of %r: expected %s, implementation %s" % (kd, text, e, l)
        elif t[0] == "get" and text is not None and "bool" in s.tags and t[2] == "bool":
            e = expect_bool(text)
            if l != e: return "bool of %r: expected %s, implementation %s" % (text, e, l)
        elif t[0] == "get" and text is not None and "flit" in s.tags and t[2] in ("float", "double"):
            bits = 32 if t[2] == "float" else 64
            w = fo.strtox(text, bits)
            e = "rc=24" if w is None else "rc=0 bits=%d" % w
            if l != e: return "%s of %r: expected %s, implementation %s" % (t[2], text, e, l)
    return None

def gen(rng, tier):
    out = []
    per = 20
    def batch(texts, kinds, tag):
        for i in range(0, len(texts), per):
            cmds, obs = ["newini 0"], [False]
            for tx in texts[i:i + per]:
                cmds.append("set 0 string - x6b %s 0" % enc(tx)); obs.append(False)
                for kd in kinds:
                    cmds.append("get 0 %s - x6b -" % kd); obs.append(True)
            out.append(Scenario(cmds, obs, tags=(tag,)))
    batch(int_literals(rng, 1800 if tier == "quick" else 60000), ["int", "int64", "uint", "uint64"], "lit")
    # booleans: exhaustive short strings
    import itertools
    maxlen = 3 if tier == "quick" else 5
    alpha = sorted(set(BOOL_ALPHA)) if tier != "quick" else sorted(set(b"yesnotrufalYNT10p-@"))
    strs = [b""]
    for n in range(1, maxlen + 1):
        if tier == "quick" and n == 3:
            strs += [bytes(rng.choice(alpha) for _ in range(3)) for _ in range(1500)]
        elif tier != "quick" and n >= 4:
            strs += [bytes(rng.choice(alpha) for _ in range(n)) for _ in range(150000)]
        else:
            strs += [bytes(t) for t in itertools.product(alpha, repeat=n)]
    strs += [b"yes", b"Yes", b"NO", b"true", b"False", b"FALSE", b"p-", b"g@lse", b"tsTe", b"zDs", b"oN", b"_npMe_", b"_none_", b"yes ", b" no", b"truee", b"on", b"off"]
    # every accepted word, in three letter cases, with text behind it and in front of it (longer than the longest word)
    for w in (b"yes", b"no", b"true", b"false", b"1", b"0", b"_none_"):
        for v in (w, w.upper(), w.capitalize()):
            strs += [v + x for x in (b"y", b"0", b"!", b" positive", b"\n  more", b"e", b"s", v)] + [x + v for x in (b"x", b"0", b"un", b"-")]
    batch(strs, ["bool"], "bool")
    batch(float_literals(rng, 900 if tier == "quick" else 30000), ["float", "double"], "flit")
    # every getter after every other: the result of a conversion must not depend on the conversions before it
    # (errno left behind by an earlier strto* call, cached state): literals of all families, getters in random order
    ints = int_literals(rng, 300 if tier == "quick" else 20000); flts = float_literals(rng, 200 if tier == "quick" else 10000)
    pool = ints + flts + [b"99999999999999999999999", b"-99999999999999999999999", b"18446744073709551616", b"1e-320", b"1e400", b"4.9e-324",
                          b"0", b"42", b"-9223372036854775808", b"9223372036854775807", b"0x7fffffffffffffff", b"yes", b"maybe", b""]
    allk = ["int", "int64", "uint", "uint64", "float", "double", "bool", "string"]
    for _ in range(120 if tier == "quick" else 8000):
        cmds, obs = ["newini 0"], [False]
        keys = [b"k%d" % j for j in range(4)]
        for k in keys:
            cmds.append("set 0 string - %s %s 0" % (enc(k), enc(rng.choice(pool)))); obs.append(False)
        for _ in range(rng.randrange(8, 30)):
            cmds.append("get 0 %s - %s -" % (rng.choice(allk), enc(rng.choice(keys)))); obs.append(True)
        out.append(Scenario(cmds, obs, tags=("mixed",)))
    # files read without delimiter (every line a key without value), with trailing comments, names that look like numbers
    for _ in range(60 if tier == "quick" else 3000):
        lines, keys = [], []
        for j in range(rng.randrange(2, 9)):
            if rng.random() < 0.15: lines.append(b"[s%d]" % j); continue
            k = rng.choice([b"eth", b"vlan", b"lo", b"bond", b"x", b"-", b"0x", b"n"]) + rng.choice([b"", b"0", b"100", b"0x1F", b"-007", b"7e2", b"1.5"]) + (b"_%d" % j)
            keys.append(k)
            lines.append(k + rng.choice([b"", b"", b" # uplink 42", b"\t#7", b"   "]))
        cmds = [gens.parse_cmd(0, b"/d/shells", b"\n".join(lines) + b"\n", rng.choice([b"", b"\n"]), b"#"), "getall 0"]
        out.append(Scenario(cmds, [True, True], tags=("nodelim",)))
    # a key WITHOUT value overriding a key WITH a (numeric, boolean) value: through econf_mergeFiles and through a layered
    # read; the typed getters on the result must answer as for a key without value
    for _ in range(40 if tier == "quick" else 2000):
        v = rng.choice([b"4096", b"-7", b"0x1F", b"yes", b"1.5e3", b"true"])
        hi = rng.choice([b"maxproc\n", b"\nmaxproc\nother=1\n", b"# c\nmaxproc\n", b"maxproc=\n", b"[s]\nk=1\n"])
        base = b"maxproc=" + v + b"\n[s]\nmaxproc = " + v + b"\n"
        hi2 = hi + rng.choice([b"", b"[s]\nmaxproc\n", b"[s]\n\nmaxproc=\n"])
        cmds = [gens.parse_cmd(0, b"/m/base.conf", base, b"=", b"#"), gens.parse_cmd(1, b"/m/over.conf", hi2, b"=", b"#"),
                "merge 2 0 1", "getall 2", "dump 2",
                trees.fsdir(b"/lay"), trees.fsdir(b"/lay/app.conf.d"), trees.fsfile(b"/lay/app.conf", base), trees.fsfile(b"/lay/app.conf.d/9.conf", hi2),
                "readdirs 3 %s %s %s x636f6e66 x3d x23" % (enc(b"/lay"), enc(b"/none"), enc(b"app")), "getall 3"]
        out.append(Scenario(cmds, [False, False, True, True, True, False, False, False, False, True, True], tags=("override-without-value",)))
    # bare keys: no value at all
    out.append(Scenario([gens.parse_cmd(0, b"/d/bare.conf", b"k\nk2=\n[s]\nk3\n", b"=", b"#"), "getall 0"], [False, True], tags=("bare",)))
    # ... also through the getters that take a default: the default is for a MISSING key; a key without value is
    # answered with the error code, no number is invented
    bare = [gens.parse_cmd(0, b"/d/bare2.conf", b"k\nk2=\n[s]\nk3\nk4= \n", b"=", b"#")]
    for g, k in ((None, b"k"), (None, b"k2"), (b"s", b"k3"), (b"s", b"k4"), (None, b"missing")):
        for kd, d in (("int", "i:4711"), ("int64", "i:-4711"), ("uint", "i:4711"), ("uint64", "i:4711"), ("bool", "b:1"), ("string", "s:x646566"),
                      ("float", "f:x34372e35"), ("double", "f:x34372e35")):
            bare.append("get 0 %s %s %s %s" % (kd, enc(g), enc(k), d))
    out.append(Scenario(bare, [False] + [True] * (len(bare) - 1), tags=("bare-def",)))
    return out
