"""C18 — threads working on their own configuration objects do not disturb each other."""
import os, re, shutil, subprocess, tempfile, time, random
import vlib, gens, laylib, trees, checklib
from vlib import enc
from checklib import Scenario

RULE = ("2..16 threads, each running its own random call sequence (setter/getter histories, parsing, layered reads with and "
        "without callback, merge, write, free) on private objects and a private tree, in one process built with "
        "ThreadSanitizer; every thread's results are compared with the model's results for the same calls run alone (theorem "
        "C18_noninterference) ; ThreadSanitizer reports are failing schedules unless the racing location is the exempt "
        "error-location record; distinct by scenario set")

EXEMPT = ("last_scanned_line_nr", "last_scanned_filename")

def thread_scenario(rng):
    cmds = []
    r = rng.random()
    if r < 0.5:
        st = laylib.setup(rng, mode=0)
        cmds += [c for c in st["cmds"] if not c.startswith("confdirs")]      # no documented global setter in a thread
        if rng.random() < 0.5: cmds.append("cb reject")
        cmds += [st["read"], "dump 0", "getall 0"]
        if st["hist"]: cmds.append(st["hist"])
    if rng.random() < 0.5:
        # per-handle option strings with lists, then a layered read through the handle (private tree)
        st2 = laylib.setup(rng, mode=rng.choice([1, 2, 2, 3]))
        cmds += st2["cmds"] + st2["pre"] + ["opts 0", st2["read"], "dump 0"]
        cmds += ["newopts 5 " + enc(b"PARSING_DIRS=/p1:/p2/x:/p3;CONFIG_DIRS=.d:/conf.d:.conf.d;JOIN_SAME_ENTRIES=1"), "opts 5"]
    cmds.append(gens.start_cmd(rng, 1))
    for _ in range(rng.randrange(5, 40)):
        x = rng.random()
        if x < 0.5: cmds.append(gens.set_cmd(rng, 1))
        elif x < 0.8: cmds.append(gens.get_cmd(rng, 1))
        elif x < 0.9: cmds.append("getall 1")
        else: cmds.append("write 1")
    cmds += ["newini 2", gens.set_cmd(rng, 2), "merge 3 1 2", "dump 3", "free 2", "errstring %d" % rng.choice([3, 9, 1000, 77])]
    # parse a private (sometimes malformed) file
    cmds.append(gens.parse_cmd(4, b"/p/t.conf", gens.mutate_conventional(rng), b"=", b"#"))
    cmds.append("getall 4")
    return cmds

def run_threads(exe, scen_lists, timeout=300, pre=None):
    d = vlib.scratch_dir()
    try:
        files = []
        prearg = []
        if pre:
            # process-wide settings issued by the main thread before the workers start
            pp = os.path.join(d, "pre.txt")
            with open(pp, "w") as f: f.write("\n".join(pre) + "\n")
            prearg = ["--pre", pp]
        for i, cmds in enumerate(scen_lists):
            p = os.path.join(d, "s%d.txt" % i)
            with open(p, "w") as f: f.write("reset\n" + "\n".join(cmds) + "\n")
            files.append(p)
        env = dict(os.environ, TSAN_OPTIONS="halt_on_error=0 report_signal_unsafe=0 exitcode=0", LC_ALL="C")
        cmd = [exe, "--threads"] + prearg + [os.path.join(d, "root")] + files
        try:
            p = subprocess.run(cmd, stdout=subprocess.PIPE, stderr=subprocess.PIPE, timeout=timeout, env=env)
        except subprocess.TimeoutExpired:
            return None, "timeout", ""
        return p.stdout.decode("utf-8", "replace"), p.returncode, p.stderr.decode("utf-8", "replace")
    finally:
        shutil.rmtree(d, ignore_errors=True)

def split_threads(out):
    res, cur = [], None
    for ln in out.split("\n"):
        if ln.startswith("thread "): cur = []; res.append(cur)
        elif cur is not None and ln and ln != "reset": cur.append(ln)
    return res

def races(stderr, unattributed=None):
    """[(location, summary)] of the ThreadSanitizer reports in which a frame of the library (lib/*.c, util/*.c of the
    tree under test) takes part.  The property speaks about accesses the LIBRARY makes; a report whose stacks lie
    entirely in the harness, the sanitizer runtime or the uninstrumented C library (whose internal locks
    ThreadSanitizer cannot see) is counted in `unattributed` and shown in the evidence, not raised."""
    out = []
    libdirs = (os.path.join(vlib.REPO, "lib") + "/", os.path.join(vlib.REPO, "util") + "/")
    for rep in stderr.split("WARNING: ThreadSanitizer:")[1:]:
        if not any(d in rep for d in libdirs):
            if unattributed is not None: unattributed.append(rep.split("\n")[0].strip())
            continue
        m = re.search(r"Location is global '([^']+)'", rep)
        loc = m.group(1) if m else None
        if loc is None:
            m2 = re.search(r"Location is ([^\n]+)", rep)
            loc = m2.group(1) if m2 else "unknown"
            # the copy of the error-location record that econf_errLocation hands to its caller (strdup in
            # last_scanned_file): when another thread replaces the record during that strdup - the race the property
            # exempts - the copy can lack its terminator, and the caller's read of it runs into neighbouring freed
            # memory.  A report about THAT block is a report about the exempt record.
            m3 = re.search(r"Location is heap block[^\n]*\n((?:\s+#\d+[^\n]*\n)+)", rep)
            if m3 and re.search(r"#\d+ last_scanned_file ", m3.group(1)): loc = "last_scanned_filename"
        fn = re.search(r"#0 (\w+) /[^\n]*/(lib|util)/", rep)
        out.append((loc, (fn.group(1) if fn else "?") + ": " + rep.split("\n")[0].strip()))
    return out

def check(tier, seed):
    t0 = time.time()
    pid = "C18"
    rng = random.Random(seed)
    cov = {"checker_cmd": "make -C coq Properties_C18.vo && coqc -Q coq Econf coq/Properties_C18.v", "trusted_base": checklib.TRUSTED_BASE}
    ps = checklib.proof_status(pid, tier)
    cov.update(obligations=ps["obligations"], discharged=ps["discharged"], theorems=ps["theorems"], axioms=ps["axioms"])
    if "coqchk" in ps: cov["coqchk"] = {"exit": ps["coqchk"]["exit"], "axioms_of_all_loaded_libraries": ps["coqchk"]["axioms"], "unsafe": ps["coqchk"]["unsafe"]}
    exe, err = vlib.impl_driver("tsan")
    if exe is None:
        p = vlib.write_replay(pid, "build-failure.txt", "# the ThreadSanitizer build of the driver failed\n" + err[-3000:])
        cov.update(evaluations=0, distinct_nontrivial=0, samples=[], rule=RULE)
        vlib.write_evidence(pid, tier, seed, cov, time.time() - t0, 1)
        print("VIOLATION property=%s replay=%s no-failing-input-found" % (pid, p)); return 1
    rounds = 72 if tier == "quick" else 400
    viol = None; nthreads = 0; allraces = {}; unattributed = []
    samples = []
    for r in range(rounds):
        k = rng.choice([2, 3, 4, 8, 16])
        scen = [thread_scenario(rng) for _ in range(k)]
        nthreads += k
        want = vlib.run_model(scen)
        out, rc, se = run_threads(exe, scen)
        if out is None or rc != 0:
            viol = (scen, "threaded run ended abnormally: %s %s" % (rc, se[-800:])); break
        got = split_threads(out)
        for loc, summ in races(se, unattributed):
            allraces[loc] = allraces.get(loc, 0) + 1
            if loc not in EXEMPT:
                rep = next((r for r in se.split("WARNING: ThreadSanitizer:")[1:] if not any(e in r for e in EXEMPT)), "")
                viol = (scen, "unsynchronised access to shared memory: %s (%s)\n%s" % (loc, summ, rep[:6000])); break
        if viol: break
        # the error-location record is the one shared variable the property exempts: its content is not compared
        noloc = lambda ls: [re.sub(r" line=\d+ file=\S+", "", l) for l in ls]
        for i in range(k):
            s = Scenario(scen[i])
            kind, det = checklib.judge(s, noloc(want[i]), noloc(got[i]) if i < len(got) else [], None)
            if kind:
                viol = (scen, "thread %d of %d obtained a result different from running alone: %s" % (i, k, det)); break
        if viol: break
        if r < 2: samples.append([c[:80] for c in scen[0][:5]])
    cov.update(evaluations=nthreads, distinct_nontrivial=nthreads, rule=RULE, samples=samples or [["(none)"]],
               races_seen=allraces, tsan_reports_without_library_frame=unattributed[:20], traces_validated_against_impl=nthreads if not viol else 0)
    rc = 0
    if viol or not ps["ok"]:
        if viol:
            scen, det = viol
            body = "# property C18\n# %s\n# one block per thread; replay: ./check C18 --replay <file>\n" % det.replace("\n", "\n# ")
            for i, c in enumerate(scen): body += "thread %d\n" % i + "\n".join(c) + "\n"
            p = vlib.write_replay(pid, "violation-seed%d.case" % seed, body)
            print("VIOLATION property=%s replay=%s" % (pid, p))
        else:
            p = vlib.write_replay(pid, "unproven-seed%d.txt" % seed, "# theorem that no longer checks: %s\n%s\n" % (ps.get("broken_at"), ps["log"][-1500:]))
            print("VIOLATION property=%s replay=%s no-failing-input-found" % (pid, p))
        rc = 1
    vlib.write_evidence(pid, tier, seed, cov, time.time() - t0, 1 if rc else 0)
    if rc == 0:
        print("OK property=%s tier=%s obligations=%d/%d thread-runs=%d exempt-races=%s wall=%.1fs" % (pid, tier, ps["discharged"], ps["obligations"], nthreads, allraces, time.time() - t0))
    return rc

def replay(path):
    exe, err = vlib.impl_driver("tsan")
    scen, cur = [], None
    for ln in open(path).read().split("\n"):
        if ln.startswith("#") or not ln: continue
        if ln.startswith("thread "): cur = []; scen.append(cur)
        elif cur is not None: cur.append(ln)
    want = vlib.run_model(scen)
    out, rc, se = run_threads(exe, scen)
    bad = [r for r in races(se) if r[0] not in EXEMPT]
    got = split_threads(out or "")
    noloc = lambda ls: [re.sub(r" line=\d+ file=\S+", "", l) for l in ls]
    diff = any(checklib.judge(Scenario(scen[i]), noloc(want[i]), noloc(got[i]) if i < len(got) else [], None)[0] for i in range(len(scen)))
    if bad or diff or rc != 0:
        print("races:", bad, "result difference:", diff)
        print("VIOLATION property=C18 replay=%s" % path); return 1
    print("replay: no violation"); return 0
