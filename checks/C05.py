"""C05 — a commented-out line is inert whatever it contains."""
import vlib, grammar, gens, gramlib
from checklib import Scenario

RULE = ("conventional single-line-value files (all 7 delimiter sets x 3 comment sets) with comment lines inserted at every "
        "insertion point; comment texts over the full printable alphabet with 0-3 further comment characters, delimiters, "
        "quotes, brackets, with and without indentation, one in fifty between 9000 and 70000 bytes long; also under PYTHON_STYLE / JOIN_SAME_ENTRIES; the listing (sections, "
        "keys, values) of the file with the comment lines must equal that of the file without them, and both must be read "
        "successfully; the two files must also act alike as base and as override of a merge; distinct by bytes")

NASTY = [b"old=1 # disabled", b"# heading", b"a #b", b" [sec]", b"[x]", b"k = \"q", b"\"", b"=", b"#", b";", b"; x = y ; z",
         b"key value", b"\\", b" ", b"", b"a=b=c", b"[", b"]", b"[]", b"x\ty", b"#;#;", b"\xe4\xff", b"k:v"]

def comment_line(rng, cm):
    ind = rng.choice([b"", b"", b" ", b"\t", b"   "])
    c = bytes([rng.choice(cm)])
    r = rng.random()
    if r < 0.02:
        # "whatever it contains" includes how much: longer than any line buffer a reader might use
        unit = rng.choice([b"d=1 ", b"[x] ", b"k = v # ", b"word "])
        text = unit * (rng.choice([9000, 16390, 20000, 70000]) // len(unit))
    elif r < 0.5: text = rng.choice(NASTY)
    else:
        pool = grammar.TEXT + b" \t=:[]\"#;#;\"[]="
        text = bytes(rng.choice(pool) for _ in range(rng.randrange(0, 16)))
    return ind + c + text

def gen(rng, tier):
    n = 1500 if tier == "quick" else 60000
    asts = []; empties = []
    for _ in range(n):
        dl = rng.choice(grammar.DELIMS); cm = rng.choice(grammar.COMMENTS + [b"#\xa7", b"\xa7\xa4"])       # also comment characters above 127
        empty_set = rng.random() < 0.1        # the empty comment set stands for "#"
        if empty_set: cm = b"#"
        ls = [l for l in grammar.gen_file(rng, dl, cm, maxlines=8) if l[0] != "T"]
        # blank lines with blanks are only allowed where no entry precedes; drop them to keep the file conventional
        ls = [l for l in ls if not (l[0] == "B" and l[1])]
        asts.append((dl, cm, ls)); empties.append(empty_set)
    exp = gramlib.expected_of(asts)
    out = []
    for (dl, cm, ls), e, empty_set in zip(asts, exp, empties):
        lines = e["bytes"].split(b"\n")[:-1] if e["bytes"] else []
        # insert at 1..3 random points (thorough: every point, one file each)
        points = list(range(len(lines) + 1))
        rng.shuffle(points)
        variants = []
        k = len(points) if tier == "thorough" and len(points) <= 6 else min(3, len(points))
        for p in points[:k]:
            l2 = list(lines); l2.insert(p, comment_line(rng, cm))
            if rng.random() < 0.4: l2.insert(rng.randrange(len(l2) + 1), comment_line(rng, cm))
            variants.append(b"\n".join(l2) + b"\n")
        # PYTHON_STYLE: every indented line continues the previous value, so only unindented files are
        # single-line-value files there
        indented = any(l[0] in ("K", "S") and l[1] for l in ls)
        py, jn = (rng.random() < 0.1 and not indented), rng.random() < 0.1
        pcm = b"" if empty_set else cm
        cmds = [gens.parse_cmd(0, b"/g/f.conf", e["bytes"], dl, pcm, py, jn), "getall 0"]
        piped = (not py and not jn and rng.random() < 0.15)       # the files with the comment lines arrive through a named pipe
        for i, v in enumerate(variants):
            pc = gens.parse_cmd(1 + i, b"/g/f.conf", v, dl, pcm, py, jn)
            if piped: pc = "parsepipe " + " ".join(pc.split()[1:6])
            cmds += [pc, "getall %d" % (1 + i)]
        sc = Scenario(cmds, tags=("class" + grammar.cls(dl),))
        sc.npairs = 1 + len(variants)
        if variants and not py and not jn:
            # the same files as inputs of a merge: the file with the comment lines must act exactly like the one without
            sc.cmds += [gens.parse_cmd(10, b"/g/h.conf", e["bytes"], dl, pcm), "merge 19 0 10", "getall 19", "merge 20 0 1", "getall 20",
                        "merge 21 1 0", "getall 21"]
            sc.obs += [True] * 7
            sc.merged = True
        out.append(sc)
    return out

def oracle(s, ilines):
    if len(ilines) < 2: return "missing output"
    if ilines[0] != "rc=0": return "conventional file refused: " + ilines[0]
    base = gramlib.listing_of(ilines[1])
    np = getattr(s, "npairs", len(ilines) // 2)
    if getattr(s, "merged", False) and len(ilines) >= 2 * np + 7:
        ref = gramlib.listing_of(ilines[2 * np + 2])
        for j in (4, 6):
            if gramlib.listing_of(ilines[2 * np + j]) != ref:
                return "a comment line changed the result of a merge (%s): without %s | with %s" % (s.cmds[2 * np + j - 1], ref[:6], gramlib.listing_of(ilines[2 * np + j])[:6])
    for i in range(2, 2 * np - 1, 2):
        if ilines[i] != "rc=0": return "file with an inserted comment line refused: %s" % ilines[i]
        if gramlib.listing_of(ilines[i + 1]) != base:
            return "a comment line changed the configuration: %s | without: %s | with: %s" % (s.cmds[i][:200], base[:6], gramlib.listing_of(ilines[i + 1])[:6])
    return None

def nontrivial(s, mlines):
    return len(mlines) > 3 and "rc=0 l=" in mlines[1]
