"""laylib.py — scenarios for the layered readers (C01, C06, C12, C13-layered, C16, C20)."""
import re
import vlib, trees, gens
from vlib import enc
from checklib import Scenario

def setup(rng, mode=None, owners=False, links=False, bad=False, popts=False, relative=False, force_confdirs="auto", emit_confdirs=True):
    """returns dict(cmds, layers, name, sfx, confdirs, read (command reading into object 0), hist (history command or None))"""
    name = rng.choice([b"foo", b"bar"])
    sfx = rng.choice([b"conf", b".conf", b"conf", None, b""])
    confdirs = rng.choice([None, None, [b".conf.d", b".d"], [b".d"], [b".d", b".conf.d"], [b".d", b".a-much-longer-directory-format.d", b".x"]] + ([[b"/conf.d", b""]] if sfx else []))
    if force_confdirs != "auto": confdirs = force_confdirs          # the process-wide list is set elsewhere (by another thread)
    mode = rng.randrange(4) if mode is None else mode
    cmds = []
    hist = None
    if mode == 0:                                   # econf_readDirs*, process-wide drop-in directory list
        layers = rng.choice([[b"/usr/etc", b"/etc"]] * 5 + [[b"/usr:v2/etc", b"/e;tc"]])           # any legal directory name
        cmds += trees.populate(rng, layers, name, sfx, confdirs, owners=owners, links=links)
        if confdirs and emit_confdirs: cmds.append("confdirs " + ",".join(enc(x) for x in confdirs))
        rl = [l.lstrip(b"/") for l in layers] if relative else layers      # the working directory is the root of the tree
        args = "%s %s %s %s x3d x23" % (enc(rl[0]), enc(rl[1]), enc(name), enc(sfx))
        read = "readdirs 0 " + args; hist = "history " + args
        pre = []
    elif mode == 1:                                 # econf_readConfig* with ROOT_PREFIX, project, usr_subdir
        usr = rng.choice([b"/usr/lib", b"/usr/lib", b"/usr/lib", None])        # no vendor sub-directory given: "<prefix>/<project>"
        layers = [b"/r/usr/lib/proj" if usr else b"/r/proj", b"/r/run/proj", b"/r/etc/proj"]
        cmds += trees.populate(rng, layers, name, sfx, confdirs, owners=owners, links=links)
        opts = b"ROOT_PREFIX=/r" + (b";CONFIG_DIRS=" + b":".join(confdirs) if confdirs else b"")
        pre = ["newopts 0 " + enc(opts)]
        read = "readconfig 0 %s %s %s %s x3d x23" % (enc(b"proj"), enc(usr), enc(name), enc(sfx))
    elif mode == 2:                                 # econf_readConfig* with PARSING_DIRS
        layers = [b"/a", b"/b/c", b"/d"]
        cmds += trees.populate(rng, layers, name, sfx, confdirs, owners=owners, links=links)
        rl = [l.lstrip(b"/") for l in layers] if relative else layers
        opts = b"PARSING_DIRS=" + b":".join(rl) + (b";CONFIG_DIRS=" + b":".join(confdirs) if confdirs else b"")
        pre = ["newopts 0 " + enc(opts)]
        read = "readconfig 0 - - %s %s x3d x23" % (enc(name), enc(sfx))
    else:                                           # drop-ins only: <project>.d, no config name
        layers = [b"/r/usr/lib", b"/r/run", b"/r/etc"]
        confdirs = [b".d"]
        cmds += trees.populate(rng, layers, name, sfx, confdirs, owners=owners, links=links)
        cmds = [c for c in cmds if not (c.startswith("fs") and vlib.dec(c.split()[1]).endswith(name + (b"." + sfx.lstrip(b".") if sfx else b"")) and False)]
        # the handle's own CONFIG_DIRS (if any) is replaced by ".d" in this mode
        pre = ["newopts 0 " + enc(b"ROOT_PREFIX=/r" + rng.choice([b"", b"", b";CONFIG_DIRS=.x:.conf.d", b";CONFIG_DIRS=.d"]))]
        read = "readconfig 0 %s %s - %s x3d x23" % (enc(name), enc(b"/usr/lib"), enc(sfx))
    if popts and pre:
        # the per-object parser options travel with the handle into every file of the layered read
        more = rng.choice([b"", b";JOIN_SAME_ENTRIES=1", b";JOIN_SAME_ENTRIES=1", b";PYTHON_STYLE=1", b";JOIN_SAME_ENTRIES=1;PYTHON_STYLE=1", b";JOIN_SAME_ENTRIES=0"])
        t = pre[0].split()
        pre = [" ".join([t[0], t[1], enc(vlib.dec(t[2]) + more)])]
    return dict(cmds=cmds, pre=pre, layers=layers, name=name, sfx=sfx, confdirs=confdirs, read=read, hist=hist, mode=mode)

def files_of(cmds):
    """virtual paths of the regular files / links a tree creates"""
    return [vlib.dec(c.split()[1]) for c in cmds if c.startswith("fsfile") or c.startswith("fslink")]

def inject_bad_line(rng, cmds):
    """make one of the files malformed"""
    idx = [i for i, c in enumerate(cmds) if c.startswith("fsfile")]
    if not idx: return cmds
    i = rng.choice(idx)
    t = cmds[i].split()
    content = vlib.dec(t[2]) or b""
    lines = content.split(b"\n")
    lines.insert(rng.randrange(len(lines)), rng.choice([b"[broken", b"[s] junk", b"[]", b"key value"]))
    cmds = list(cmds); cmds[i] = " ".join([t[0], t[1], enc(b"\n".join(lines)), t[3], t[4]])
    return cmds

def f14_shape(hist_line):
    """does the history (model output) start with a drop-in whose name re-appears later, with no main file?"""
    if not hist_line.startswith("rc=0"): return False
    dumps = hist_line.split(" || ")[1:]
    paths = []
    for d in dumps:
        m = re.search(r"path=(\S+)", d)
        paths.append(vlib.dec(m.group(1)) if m else b"")
    if len(paths) < 2: return False
    first = paths[0]
    # a drop-in lives in a directory ending in ".d" or listed conf dir; the main file does not
    bn = first.rsplit(b"/", 1)[-1]
    in_dropin_dir = first.rsplit(b"/", 2)[-2].endswith(b".d") or b"conf.d" in first.rsplit(b"/", 2)[-2]
    return in_dropin_dir and any(p.rsplit(b"/", 1)[-1] == bn for p in paths[1:])
