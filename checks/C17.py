"""C17 — provenance metadata (path, line, comments, value lines) matches the source file."""
import re
import vlib, grammar, gens, gramlib
from checklib import Scenario

RULE = ("conventional files with comment blocks of any length before keys, trailing comments, multi-line values, sections, "
        "quoted values; read by absolute and by relative name; for every key the extended value (file, 1-based last line, "
        "comment before, comment after, value lines) is compared with the meaning the Coq grammar assigns (expected entries: "
        "theorem C02_parse gives line/comments/values, C17_block their relation to the lines of the file); econf_getPath for "
        "single files (absolute also for relative names) and \"\" for merged results; distinct by bytes")

def gen(rng, tier):
    n = 300 if tier == "quick" else 30000
    asts = []
    for _ in range(n):
        dl = rng.choice(grammar.DELIMS); cm = rng.choice(grammar.COMMENTS)
        ls = grammar.gen_file(rng, dl, cm, maxlines=10)
        # more comment blocks directly before keys
        out = []
        for l in ls:
            if l[0] == "K" and rng.random() < 0.4:
                for _ in range(rng.randrange(1, 4)): out.append(grammar.comment(rng, dl, cm))
            out.append(l)
        asts.append((dl, cm, out))
    exp = gramlib.expected_of(asts)
    res = []
    for (dl, cm, ls), e in zip(asts, exp):
        rel = rng.random() < 0.4
        name = b"rel/dir/f.conf" if rel else b"/g/f.conf"
        s = Scenario([gens.parse_cmd(0, name, e["bytes"], dl, cm), "getall 0", "path 0", "newini 1", "merge 2 0 1", "path 2"],
                     tags=("relative" if rel else "absolute",))
        s.expected = e; s.rel = rel
        res.append(s)
    return res

def oracle(s, ilines):
    e = getattr(s, "expected", None)
    if e is None: return None
    if ilines[0] != "rc=0": return "conventional file refused: " + ilines[0]
    want = e["getall"]
    if s.rel: want = want.replace(vlib.enc(b"/g/f.conf"), vlib.enc(b"/rel/dir/f.conf"))
    if not vlib.line_equal(want, ilines[1]):
        w, g = want[4:].split(";"), ilines[1][4:].split(";")
        for a, b in zip(w, g):
            if not vlib.items_equal(a, b): return "extended value differs from the file's meaning: expected %s | implementation %s" % (a[:300], b[:300])
        return "listing differs from the file's meaning"
    path = b"/rel/dir/f.conf" if s.rel else b"/g/f.conf"
    if ilines[2] != "rc=0 v=" + vlib.enc(path): return "econf_getPath of a single file: %s" % ilines[2]
    if ilines[5] != "rc=0 v=x": return "econf_getPath of a merged result is not empty: %s" % ilines[5]
    return None

def nontrivial(s, mlines):
    return "cbk=x" in mlines[1] if len(mlines) > 1 else False
