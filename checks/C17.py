"""C17 — provenance metadata (path, line, comments, value lines) matches the source file."""
import re
import re
import vlib, grammar, gens, gramlib, trees, checklib
from checklib import Scenario

RULE = ("conventional files with comment blocks of any length before keys, trailing comments, multi-line values, sections, "
        "quoted values; read by absolute and by relative name; for every key the extended value (file, 1-based last line, "
        "comment before, comment after, value lines) is compared with the meaning the Coq grammar assigns (expected entries: "
        "theorem C02_parse gives line/comments/values, C17_block their relation to the lines of the file); "
        "files with values of several lines in every accepted shape (quoted with text, blanks or a comment behind the closing "
        "quote; continuation lines with trailing blanks; blank-only lines below an entry) compared with the model; the same files parsed from 8 threads at once (each thread its own files; every thread's provenance must equal the model's for the file alone); results of layered reads whose later files have or have not any entry (path and extended values through the model); comment blocks and trailing comments of every total length in windows around 256, 512, 1024, 4096, 8192 (thorough: 2..530 and more windows); econf_getPath for single files (absolute also for relative names) and \"\" for merged results; distinct by bytes")

def gen(rng, tier):
    n = 1800 if tier == "quick" else 60000
    asts = []
    for _ in range(n):
        dl = rng.choice(grammar.DELIMS); cm = rng.choice(grammar.COMMENTS)
        ls = grammar.gen_file(rng, dl, cm, maxlines=10)
        # more comment blocks directly before keys
        out = []
        for l in ls:
            if l[0] == "K" and rng.random() < 0.4:
                for _ in range(rng.randrange(1, 4)): out.append(grammar.comment(rng, dl, cm))
            out.append(l)
        asts.append((dl, cm, out))
    exp = gramlib.expected_of(asts)
    res = []
    for (dl, cm, ls), e in zip(asts, exp):
        rel = rng.random() < 0.4
        name = b"rel/dir/f.conf" if rel else b"/g/f.conf"
        cmds = [gens.parse_cmd(0, name, e["bytes"], dl, cm), "getall 0", "path 0", "newini 1", "merge 2 0 1", "path 2"]
        if rng.random() < 0.3:
            # the process moves elsewhere (where a file of the same name may exist) after the read: path and provenance stay
            cmds += [trees.fsfile(b"/elsewhere/" + name.lstrip(b"/"), b"other=1\n"), "chdir " + vlib.enc(b"/elsewhere"), "path 0", "getall 0"]
        s = Scenario(cmds, tags=("relative" if rel else "absolute",))
        s.expected = e; s.rel = rel
        res.append(s)
    # values of several lines in every shape the reader accepts (beyond the conventional grammar): quoted values
    # running over lines with text, blanks or a comment behind the closing quote, continuation lines with trailing
    # blanks, lines of blanks only below an entry; here the proved model is the reference
    for _ in range(n // 2):
        cm = rng.choice([b"#", b";"]); dl = rng.choice([b"=", b"=", b":=", b" "])
        d = dl[:1]
        sp = lambda: rng.choice([b"", b" ", b"  ", b"\t", b" \t "])
        lines = []
        for i in range(rng.randrange(1, 6)):
            k = b"k%d" % i
            r = rng.random()
            if r < 0.1: lines.append(b"[S%d]" % i)
            if r < 0.4:
                inner = rng.choice([b"line one", b"a", b"", b" x "]) ; more = [rng.choice([b"    line two", b"b ", b"\t c d", b""]) for _ in range(rng.randrange(1, 3))]
                tail = rng.choice([b"", b" ", b"   ", b" " + cm + b" trailer", b"\t" + cm + b"t", b" junk"])
                lines.append(k + sp() + d + sp() + b'"' + inner)
                for m in more[:-1]: lines.append(m)
                lines.append(more[-1] + b'"' + tail)
            elif r < 0.8:
                lines.append(k + sp() + d + sp() + rng.choice([b"first", b"v w", b""]) + sp())
                for _ in range(rng.randrange(0, 3)):
                    lines.append(rng.choice([b"    ", b"\t", b" "]) + rng.choice([b"second", b"x y", b"z"]) + rng.choice([b"", b" ", b"  \t", b" " + cm + b" c"]))
                if rng.random() < 0.5: lines.append(rng.choice([b" ", b"   ", b"\t \t"]))
            else:
                lines.append(cm + b" note")
                lines.append(k + d + b"plain" + sp())
        data = b"\n".join(lines) + rng.choice([b"\n", b"\n", b"", b"\n   \n"])
        res.append(Scenario([gens.parse_cmd(0, b"/g/m.conf", data, dl, cm), "getall 0", "dump 0"], tags=("multiline",)))
    # comments of every total length around the sizes allocators and buffers like (256, 512, 1024, 4096, 8192): blocks of
    # two or three comment lines before a key, trailing comments spread over the lines of a multi-line value
    sweep = list(range(240, 272)) + list(range(500, 528)) + list(range(1016, 1032)) + list(range(4088, 4104)) + list(range(8184, 8200))
    if tier != "quick": sweep += list(range(2, 240)) + list(range(272, 500)) + list(range(760, 780)) + list(range(2040, 2056)) + list(range(16376, 16392))
    rng.shuffle(sweep)
    for i in range(0, len(sweep), 6):
        lines = []
        for j, T in enumerate(sweep[i:i + 6]):
            parts = 2 if rng.random() < 0.6 else 3
            cuts = sorted(rng.sample(range(1, T - 1), parts - 1)) if T > parts + 1 else [1]
            lens = [b - a for a, b in zip([0] + [c + 1 for c in cuts], cuts + [T])]       # lens sum + (parts-1) newlines = T
            lens = [max(l, 0) for l in lens]
            if rng.random() < 0.5:
                for l in lens: lines.append(b"#" + b"c" * l)
                lines.append(b"b%d=1" % j)
            else:
                lines.append(b"m%d=v0 #" % j + b"t" * lens[0])
                for l in lens[1:]: lines.append(b"   more #" + b"t" * l)
        res.append(Scenario([gens.parse_cmd(0, rng.choice([b"/g/s.conf", b"rel/s.conf"]), b"\n".join(lines) + b"\n", b"=", b"#"), "getall 0", "dump 0"], tags=("length-sweep",)))
    # results of layered reads: "" as path and as file of every extended value, whatever the later files contain
    for _ in range(n // 3):
        later = [rng.choice([b"", b"# only a comment\n", b"\n\n", b"[empty]\n", b"k9=drop\n", b"[A]\nk1=over\n"]) for _ in range(rng.randrange(1, 4))]
        cmds = [trees.fsdir(b"/usr/etc/foo.conf.d"), trees.fsdir(b"/etc/foo.conf.d"), trees.fsfile(b"/usr/etc/foo.conf", b"k1=main\n[A]\n# c\nk1=a # t\n")]
        for j, c in enumerate(later):
            cmds.append(trees.fsfile(rng.choice([b"/usr/etc", b"/etc"]) + b"/foo.conf.d/%d0-x.conf" % j, c))
        cmds += ["readdirs 0 x2f7573722f657463 x2f657463 x666f6f x636f6e66 x3d x23", "path 0", "getall 0", "dump 0"]
        res.append(Scenario(cmds, [False] * (len(later) + 3) + [True] * 4, tags=("merged",)))
    return res

def oracle(s, ilines):
    e = getattr(s, "expected", None)
    if e is None: return None
    if ilines[0] != "rc=0": return "conventional file refused: " + ilines[0]
    want = e["getall"]
    if s.rel: want = want.replace(vlib.enc(b"/g/f.conf"), vlib.enc(b"/rel/dir/f.conf"))
    if not vlib.line_equal(want, ilines[1]):
        w, g = want[4:].split(";"), ilines[1][4:].split(";")
        for a, b in zip(w, g):
            if not vlib.items_equal(a, b): return "extended value differs from the file's meaning: expected %s | implementation %s" % (a[:300], b[:300])
        return "listing differs from the file's meaning"
    path = b"/rel/dir/f.conf" if s.rel else b"/g/f.conf"
    if ilines[2] != "rc=0 v=" + vlib.enc(path): return "econf_getPath of a single file: %s" % ilines[2]
    if ilines[5] != "rc=0 v=x": return "econf_getPath of a merged result is not empty: %s" % ilines[5]
    return None

def nontrivial(s, mlines):
    return "cbk=x" in mlines[1] if len(mlines) > 1 else False


# ---- the same files parsed by several threads at once: line numbers, paths, comments and value lines of every
# ---- thread's own file must be what they are when the file is parsed alone
def _thread_sets(scens, rng, tier):
    single = [s for s in scens if s.cmds and s.cmds[0].startswith("parse 0 x2f")]          # absolute names only: threads share the cwd
    rng.shuffle(single)
    k, per, rounds = 8, 12, (6 if tier == "quick" else 60)
    sets = []
    for r in range(rounds):
        chunk = single[r * k * per:(r + 1) * k * per]
        if len(chunk) < k * per: break
        sets.append([[c for s in chunk[t * per:(t + 1) * per] for c in (s.cmds[0], "getall 0")] for t in range(k)])
    return sets

def _run_thread_set(tset):
    import C18
    exe, err = vlib.impl_driver("tsan")
    if exe is None: raise vlib.BuildError(err)
    want = vlib.run_model(tset)
    out, rc, se = C18.run_threads(exe, tset)
    if out is None or rc != 0: return "threaded run ended abnormally: %s %s" % (rc, (se or "")[-600:])
    got = C18.split_threads(out)
    noloc = lambda ls: [re.sub(r" line=\d+ file=\S+$", "", l) if l.startswith("rc=") and not l.startswith("rc=0") else l for l in ls]
    for i in range(len(tset)):
        kind, det = checklib.judge(Scenario(tset[i]), noloc(want[i]), noloc(got[i]) if i < len(got) else [], None)
        if kind: return "thread %d of %d: provenance differs from parsing the file alone: %s" % (i, len(tset), det)
    return None

def extra_check(scens, rng, tier, cov):
    sets = _thread_sets(scens, rng, tier)
    cov["threaded_parses"] = sum(len(t) // 2 for ts in sets for t in ts)
    for tset in sets:
        det = _run_thread_set(tset)
        if det:
            body = "# property C17\n# %s\n# one block per thread; replay: ./check C17 --replay <file> (the failure depends on the interleaving: the replay runs the set up to 20 times)\n" % det.replace("\n", " ")[:1500]
            for i, c in enumerate(tset): body += "thread %d\n" % i + "\n".join(c) + "\n"
            return body, det
    return None

def replay(path):
    text = open(path).read()
    if "\nthread 0\n" not in text:
        import sys
        return checklib.replay("C17", path, sys.modules[__name__])
    tset, cur = [], None
    for ln in text.split("\n"):
        if ln.startswith("#") or not ln: continue
        if ln.startswith("thread "): cur = []; tset.append(cur)
        elif cur is not None: cur.append(ln)
    for _ in range(20):
        det = _run_thread_set(tset)
        if det:
            print(det[:600]); print("VIOLATION property=C17 replay=%s" % path); return 1
    print("replay: no violation in 20 runs"); return 0
