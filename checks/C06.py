"""C06 — every file passes the caller's check before use; one rejection yields nothing."""
import vlib, trees, gens, laylib
from vlib import enc
from checklib import Scenario

RULE = ("trees of C01 (a fifth of them with one malformed file) x callback policies (accept all; reject only the main file; only the k-th drop-in; only a drop-in that "
        "is masked by a later one; several) x the four callback entry points (readFile, readDirs, readDirsHistory, readConfig "
        "WithCallback); observations: return code, out-pointer state, the exact sequence of paths the callback was asked "
        "about with its verdicts, the sequence of files really opened (fopen wrapped), the callback data pointer, dump of "
        "the result; the oracle checks directly on the implementation's logs that every opened file was accepted just before, "
        "that a rejection gives the callback code, no history and no entries; in a quarter of the scenarios the callback itself reads a "
        "layered configuration of its own with the library before every verdict (cbnest); distinct by scenario")

def gen(rng, tier):
    n = 1500 if tier == "quick" else 50000
    out = []
    for _ in range(n):
        rel = rng.random() < 0.2
        st = laylib.setup(rng, mode=rng.choice([0, 0, 1, 2, 3]), popts=True, relative=rel)
        if rng.random() < 0.2:
            # one file is malformed as well: a file the callback rejects must not even be parsed
            st["cmds"] = laylib.inject_bad_line(rng, st["cmds"])
        files = laylib.files_of(st["cmds"])
        # with names relative to the working directory (the root of the tree) the callback is asked about relative names:
        # the names to reject are spelled the same way
        if rel: files = [p.lstrip(b"/") for p in files]
        r = rng.random()
        if r < 0.25 or not files: pol = "cb reject"
        elif r < 0.8: pol = "cb reject " + ",".join(enc(p.replace(b"/r/", b"/r//", 1) if st["mode"] in (1, 3) and rng.random() < 0.8 else p)
                                                     for p in rng.sample(files, min(len(files), rng.randrange(1, 3))))
        else: pol = "cb reject " + ",".join(enc(p) for p in files)
        nestc = []
        if rng.random() < 0.25:
            # the callback takes its decision with the library itself: before every verdict it reads a layered "policy"
            # configuration of its own (main file + drop-ins in every directory format in use); nothing of that
            # may show in the outer result, and the outer read goes on with the file it asked about
            nestc = [trees.fsdir(b"/pol/usr"), trees.fsdir(b"/pol/etc"), trees.fsfile(b"/pol/usr/policy.conf", b"allow=1\n")]
            for dd in (b"/pol/etc/policy.conf.d", b"/pol/etc/policy.d", b"/pol/etc/policy/conf.d", b"/pol/usr/policy.d"):
                nestc += [trees.fsdir(dd), trees.fsfile(dd + b"/override.conf", b"secret=policy-only\n[policy]\nleak=1\n"),
                          trees.fsfile(dd + b"/zz.conf", b"secret2=policy-only\n")]
            nestc.append("cbnest %s %s %s %s" % (enc(b"/pol/usr"), enc(b"/pol/etc"), enc(b"policy"), enc(b"conf")))
        if rng.random() < 0.2: nestc = nestc + [rng.choice(["perms", "perms 400 100", "sec 0 - 0", "sec 0 0 0"])]      # requirements every file of the tree meets: the callback is asked all the same
        cmds = st["cmds"] + st["pre"] + nestc + [pol, st["read"], "dump 0"]
        obs = [False] * (len(st["cmds"]) + len(st["pre"]) + len(nestc) + 1) + [True, True]
        if st["hist"]:
            cmds.append(st["hist"]); obs.append(True)
        if files and rng.random() < 0.3:
            cmds.append("readfile 1 %s x3d x23" % enc(rng.choice(files))); obs.append(True)      # a single file, by the same (absolute or relative) name
        out.append(Scenario(cmds, obs, tags=("mode%d" % st["mode"],)))
    return out

def oracle(s, ilines):
    for c, l in zip(s.cmds, ilines):
        t = c.split()[0]
        if t in ("readdirs", "readconfig", "readfile", "history"):
            if "CALLBACK-DATA-CHANGED" in l: return "callback data pointer not passed through unchanged"
            m = __import__("re").search(r"checks=(\S*) opens=(\S*)", l)
            if not m: continue
            checks = [x.rsplit(":", 1) for x in m.group(1).split(",") if x]
            opens = [x for x in m.group(2).split(",") if x]
            accepted = [p for p, ok in checks if ok == "1"]
            # names not starting with '/' are opened through realpath(): the opened name is then not the name asked about
            relative = any(not vlib.dec(p).startswith(b"/") for p, ok in checks)
            if relative and len(opens) > len(accepted): return "%s: %d files opened, %d accepted by the callback" % (t, len(opens), len(accepted))
            for p in ([] if relative else opens):
                if p not in accepted: return "%s: file %s opened without having been accepted by the callback" % (t, vlib.dec(p))
            if any(ok == "0" for p, ok in checks):
                if not l.startswith("rc=21"): return "%s: a file was rejected but the call returned %s" % (t, l.split()[0])
                if t == "history" and " n=0" not in l: return "history handed back after a rejection"
                if t in ("readconfig", "readfile") and "obj=0" not in l and t == "readfile": return "object handed back after a rejection"
    return None

def nontrivial(s, mlines):
    return any(":0" in l for l in mlines)
