"""C12 — all layered-read entry points agree with each other and with the history."""
import vlib, trees, gens, laylib
from vlib import enc
from checklib import Scenario

RULE = ("two-layer trees (40 % with drop-ins that are symbolic links to differently named files) x suffix spellings x NULL/empty directory arguments x process-wide drop-in list: econf_readDirs, "
        "econf_readConfig with PARSING_DIRS of the same two directories, both callback variants with an accepting callback, "
        "and econf_readDirsHistory on the SAME tree; the oracle checks on the implementation's own outputs that the four "
        "results are identical and that the history lists the consulted files in processing order with their paths; "
        "merging the history (model, theorem read_dirs_is_history_merge) gives the result; the harness also merges the history itself with the public econf_mergeFiles, left to right, and shows the result and every member of the history as it is afterwards; distinct by scenario")

def gen(rng, tier):
    n = 1200 if tier == "quick" else 40000
    out = []
    for _ in range(n):
        name = rng.choice([b"foo", b"bar", b"foo", b"bar", b""]); sfx = rng.choice([b"conf", b".conf", None, b""])
        if name == b"" and not sfx: sfx = b"conf"          # "<dir>/" alone is no file name
        confdirs = rng.choice([None, None, [b".conf.d", b".d"], [b".d", b".conf.d"], [b".d", b".longer-format.conf.d"]])
        d1, d2 = rng.choice([(b"/usr/etc", b"/etc"), (b"/usr/etc", b"/etc"), (b"/usr/etc", None), (None, b"/etc"),
                             (b"/usr:v2/etc", b"/etc"), (b"/usr/etc", b"/e;tc"), (b"/a=b/etc", b"/etc:")])      # any legal directory name
        layers = [d for d in (d1, d2) if d]
        cmds = trees.populate(rng, layers, name, sfx, confdirs, links=rng.random() < 0.4)     # drop-ins that are links to differently named files
        if confdirs: cmds.append("confdirs " + ",".join(enc(x) for x in confdirs))
        if rng.random() < 0.15: cmds.append("sec - - 1")        # no-symlink rule in force for all entry points alike
        npre = len(cmds)
        args = "%s %s %s %s x3d x23" % (enc(d1), enc(d2), enc(name), enc(sfx))
        body = ["readdirs 0 " + args, "dump 0"]
        # (an option string cannot name directories with ':' or ';'; an empty configuration name means "drop-ins only,
        #  named after the project" to econf_readConfig and nothing of the kind to econf_readDirs: not the same parameters)
        if d1 and d2 and name and not any(c in d1 + d2 for c in b":;"):
            body += ["newopts 1 " + enc(b"PARSING_DIRS=" + d1 + b":" + d2), "readconfig 1 - - %s %s x3d x23" % (enc(name), enc(sfx)), "dump 1"]
        nest = []
        if rng.random() < 0.25:
            # the accepting callback consults a layered policy configuration of its own before every verdict
            nest = [trees.fsfile(b"/pol/usr/policy.conf", b"allow=1\n"), trees.fsdir(b"/pol/etc")]
            for dd in (b"/pol/etc/policy.conf.d", b"/pol/etc/policy.d", b"/pol/etc/policy.longer-format.conf.d"):
                nest += [trees.fsdir(dd), trees.fsfile(dd + b"/p.conf", b"secret=policy\n")]
            nest.append("cbnest %s %s %s %s" % (enc(b"/pol/usr"), enc(b"/pol/etc"), enc(b"policy"), enc(b"conf")))
        cmds += nest; npre = len(cmds)
        body += ["cb reject", "readdirs 2 " + args, "dump 2", "history " + args, "cb none", "history " + args, "histmerge " + args]
        out.append(Scenario(cmds + body, [False] * npre + [True] * len(body), tags=("nulldir" if not (d1 and d2) else "two",)))
    # a NULL or empty directory stands for the layer "" (files directly below "/"); the option string spells it as an
    # empty component of PARSING_DIRS.  The configuration name carries a path ("@" = the scratch root), so that the
    # layer "" has something to find: all entry points must agree here as well
    out += gen_emptydir(rng, n // 6)
    return out

def gen_emptydir(rng, count):
    out = []
    for _ in range(count):
        vname = b"L/" + rng.choice([b"foo", b"bar"]); sfx = rng.choice([b"conf", b".conf"])
        empty = rng.choice([None, b""])
        first = rng.random() < 0.5
        layers = [b"", b"/etc"] if first else [b"/usr/etc", b""]
        cmds = [c for c in trees.populate(rng, layers, vname, sfx, None) if c != trees.fsdir(b"")]
        # below the other layer the name's path comes a second time ("@" = the scratch root, absent in the model's tree)
        other = b"/etc" if first else b"/usr/etc"
        def at(c):
            t = c.split(); pth = vlib.dec(t[1])
            if pth.startswith(other + b"/L/"): t[1] = enc(other + b"/@/L/" + pth[len(other) + 3:])
            if t[0] == "fslink":
                tg = vlib.dec(t[2])
                if tg.startswith(other + b"/L/"): t[2] = enc(other + b"/@/L/" + tg[len(other) + 3:])
            return " ".join(t)
        cmds = [at(c) for c in cmds]
        npre = len(cmds)
        d1, d2 = (empty, b"/etc") if first else (b"/usr/etc", empty)
        args = "%s %s %s %s x3d x23" % (enc(d1), enc(d2), enc(b"@/" + vname), enc(sfx))
        pd = (b":/etc" if first else b"/usr/etc:")
        body = ["readdirs 0 " + args, "dump 0", "newopts 1 " + enc(b"PARSING_DIRS=" + pd), "readconfig 1 - - %s %s x3d x23" % (enc(b"@/" + vname), enc(sfx)), "dump 1",
                "cb reject", "readdirs 2 " + args, "dump 2", "history " + args, "cb none", "history " + args, "histmerge " + args]
        out.append(Scenario(cmds + body, [False] * npre + [True] * len(body), tags=("emptydir",)))
    return out

def oracle(s, ilines):
    import re
    res = {}
    hist = []
    for c, l in zip(s.cmds, ilines):
        t = c.split()
        if t[0] == "dump": res[t[1]] = re.sub(r"^dump ", "", l)
        if t[0] == "history": hist.append(l)
        if t[0] in ("readdirs", "readconfig"): res["rc" + t[1]] = l.split()[0]
    keys = [k for k in ("0", "1", "2") if k in res]
    for k in keys[1:]:
        if res[k] != res[keys[0]] or res["rc" + k] != res["rc" + keys[0]]:
            return "entry points disagree: object %s: %s %s | object %s: %s %s" % (keys[0], res["rc" + keys[0]], res[keys[0]][:300], k, res["rc" + k], res[k][:300])
    if len(hist) == 2:
        strip = lambda h: re.sub(r"checks=\S*", "checks=", h)
        if strip(hist[0]) != strip(hist[1]): return "history with accepting callback differs from history without callback"
        # every history member carries its own path, in the order the files were opened
        m = re.search(r"opens=(\S*)", hist[0])
        opens = [x for x in (m.group(1).split(",") if m else []) if x]
        paths = re.findall(r"path=(\S+)", hist[0])
        if hist[0].startswith("rc=0") and paths != opens:
            return "history members %s do not match the files opened %s" % (paths, opens)
    return None
