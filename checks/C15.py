"""C15 — parsing options do what they say: JOIN_SAME_ENTRIES, PYTHON_STYLE, unknown options."""
import re
import vlib, grammar, gens, laylib
from vlib import enc
from checklib import Scenario

RULE = ("(a) option strings built from documented items in every order, repeated, with empty list values, plus unknown / "
        "misspelt / empty items: return code and the resulting option fields of the object, expected values computed "
        "independently (last occurrence wins; any undocumented item -> ECONF_OPTION_NOT_FOUND); (b) class-N files with keys "
        "defined several times incl. empty definitions and multi-line definitions, in sections that are re-opened with other sections in between, read with and without JOIN_SAME_ENTRIES: "
        "the non-empty value lines must be those of all definitions since the last empty one (independent Python computation) "
        "resp. the first definition; (c) PYTHON_STYLE files (indented lines containing delimiters and comment characters, "
        "comment characters after values): model = implementation and the independently computed value; (d) layered reads (three call shapes) with the options on the handle over trees whose main files and drop-ins repeat keys and hold indented lines: model = implementation; distinct by scenario")

DOC = ["JOIN_SAME_ENTRIES=1", "JOIN_SAME_ENTRIES=0", "PYTHON_STYLE=1", "PYTHON_STYLE=0"]

def rand_item(rng):
    r = rng.random()
    if r < 0.4: return rng.choice(DOC), "doc"
    if r < 0.55: return "PARSING_DIRS=" + ":".join(rng.choice(["/a", "/b/c", "", "/d"]) for _ in range(rng.randrange(1, 4))), "doc"
    if r < 0.7: return "CONFIG_DIRS=" + ":".join(rng.choice([".d", ".conf.d", "", "/x"]) for _ in range(rng.randrange(1, 3))), "doc"
    if r < 0.8: return "ROOT_PREFIX=" + rng.choice(["/r", "", "/x/y"]), "doc"
    return rng.choice(["JOIN_SAME_ENTRIES=2", "JOIN_SAME_ENTRIES", "PYTHON_STYLE=yes", "PARSING_DIR=/a", "join_same_entries=1", "", "X=1",
                       " JOIN_SAME_ENTRIES=1", "ROOT_PREFIX", "CONFIG_DIRS"]), "bad"

def expect_opts(items):
    st = {"join": 0, "python": 0, "pd": [], "cd": [], "root": None}
    for it in items:
        if it == "JOIN_SAME_ENTRIES=1": st["join"] = 1
        elif it == "JOIN_SAME_ENTRIES=0": st["join"] = 0
        elif it == "PYTHON_STYLE=1": st["python"] = 1
        elif it == "PYTHON_STYLE=0": st["python"] = 0
        elif it.startswith("PARSING_DIRS="): st["pd"] = it[13:].split(":")
        elif it.startswith("CONFIG_DIRS="): st["cd"] = it[12:].split(":")
        elif it.startswith("ROOT_PREFIX="): st["root"] = it[12:]
        else: return 23, st
    return 0, st

def value_lines(v):
    return [l.strip(b" \t\n\v\f\r") for l in v.split(b"\n") if l.strip(b" \t\n\v\f\r")]

def gen(rng, tier):
    n = 1500 if tier == "quick" else 20000
    out = []
    for _ in range(n):
        items = [rand_item(rng)[0] for _ in range(rng.randrange(1, 6))]
        s = Scenario(["newopts 0 " + enc(";".join(items).encode()), "opts 0"], tags=("options",))
        rc, st = expect_opts(items)
        if ";".join(items) == "": rc = 0
        s.want = ("rc=%d" % rc, None if rc else "opts join=%d python=%d parse_dirs=%s conf_dirs=%s root=%s" % (
            st["join"], st["python"], ",".join(enc(x.encode()) for x in st["pd"]), ",".join(enc(x.encode()) for x in st["cd"]),
            enc(st["root"].encode()) if st["root"] is not None else "-"))
        out.append(s)
    # objects that were not created through an option string carry the defaults
    out.append(Scenario(["newkf 0 61 35", "opts 0", "newini 1", "opts 1", "newempty 2", "opts 2",
                         gens.parse_cmd(3, b"/o/f.conf", b"k=1\nk=2\n", b"=", b"#"), "opts 3", "get 3 string - x6b -"], tags=("defaults",)))
    for _ in range(n):
        # join: repeated keys
        keys = rng.choice([[b"k", b"k", b"k", b"other"], [b"ab", b"bA", b"ab", b"k"], [b"k", b"k", b"ac", b"bB"]])      # ab/bA, ac/bB: equal djb2 hashes
        lines, defs, cur = [], {}, None
        dense = rng.random() < 0.5        # half of the files re-open sections often: definitions of one key far apart
        for _ in range(rng.randrange(2, 14 if dense else 9)):
            r = rng.random()
            if r < (0.35 if dense else 0.15):
                g = rng.choice([b"A", b"B"]); lines.append(b"[" + g + b"]"); cur = g; continue
            k = rng.choice(keys)
            r = rng.random()
            if r < 0.2: v = b""
            elif r < 0.8: v = rng.choice([b"one", b"two words", b"3", b"x"])
            elif r < 0.9: v = rng.choice([b"first", b"a"]) + b"\n  " + rng.choice([b"second", b"b c"])
            else: v = b"\n  " + rng.choice([b"second", b"b c"]) + rng.choice([b"", b"\n\tthird"])        # nothing behind the delimiter, text on the next line
            lines.append(k + (b"=" if rng.random() < 0.5 else b" = ") + v)
            defs.setdefault((cur, k), []).append(v)
        content = b"\n".join(lines) + b"\n"
        jn = rng.random() < 0.7
        s = Scenario([gens.parse_cmd(0, b"/j/f.conf", content, b"=", b"#", False, jn), "getall 0", "dump 0"], [True, True, False], tags=("join" if jn else "nojoin",))
        s.defs, s.jn = defs, jn
        out.append(s)
    for _ in range(n // 2):
        # python style
        lines = []
        for _ in range(rng.randrange(1, 7)):
            k = rng.choice([b"a", b"b", b"key", b"\xc3\xbcbung", b"\xe9t\xe9"])
            v = rng.choice([b"1", b"v # not a comment", b"x = y", b"\"q\"", b"", b"l1", b"\xc3\xa4pfel"])
            lines.append(k + rng.choice([b"=", b" = ", b": "]) + v)
            for _ in range(rng.randrange(0, 3)):
                lines.append(rng.choice([b"  ", b"\t", b" "]) + rng.choice([b"cont = x", b"more # text", b"plain", b"k2: v2", b"\"quoted\"", b"beta=2", b"delta=4=4", b"k2:v2", b"=y", b"two words=3", b"\xc3\xa4pfel", b"\xe6\x97\xa5\xe6\x9c\xac = tee # x", b"\xff\xfe"]))
        s = Scenario([gens.parse_cmd(0, b"/p/f.conf", b"\n".join(lines) + b"\n", rng.choice([b"=", b":="]), b"#", True, False), "getall 0", "dump 0"],
                     [True, True, True], tags=("python",))
        out.append(s)
    # continuation lines of any length (python style: indented lines; join: lines without delimiter below one of several
    # definitions), with delimiters and comment characters far behind the start of the line
    for L in (100, 8000, 8189, 8190, 8191, 8192, 8193, 9000, 20000):
        longl = b"w" * (L - 24) + b" tail = x # not cut off"
        content = b"key = l1\n  " + longl + b"\n\tl3\nnext=1\n"
        out.append(Scenario([gens.parse_cmd(0, b"/p/f.conf", content, b"=", b"#", True, False), "getall 0", "dump 0"], [True, True, True], tags=("python-long",)))
        longj = b"w" * (L - 12) + b" end-of-line"
        content = b"opt=one\nopt=two\n  " + longj + b"\nother=1\nopt=three\n " + longj + b"\n"
        out.append(Scenario([gens.parse_cmd(0, b"/j/f.conf", content, b"=", b"#", False, True), "getall 0", "dump 0"], [True, True, True], tags=("join-long",)))
        out.append(Scenario([gens.parse_cmd(0, b"/j/f.conf", content, b"=", b"#", False, False), "getall 0", "dump 0"], [True, True, True], tags=("nojoin-long",)))
    # the options travel with the handle into EVERY file of a layered read: main file and drop-ins alike
    for _ in range(n // 2):
        st = laylib.setup(rng, mode=rng.choice([1, 2, 3]), popts=True)
        cmds = st["cmds"] + st["pre"] + ["opts 0", st["read"], "dump 0", "getall 0"]
        k = len(st["cmds"]) + len(st["pre"])
        out.append(Scenario(cmds, [False] * k + [True] * 4, tags=("layered-options",)))
    return out

def oracle(s, ilines):
    w = getattr(s, "want", None)
    if w:
        if ilines[0] != w[0]: return "option string: expected %s, implementation %s" % (w[0], ilines[0])
        if w[1] and ilines[1] != w[1]: return "option fields: expected %s, implementation %s" % (w[1], ilines[1])
        return None
    defs = getattr(s, "defs", None)
    if defs is not None:
        if ilines[0] != "rc=0": return "file refused: " + ilines[0]
        items = ilines[1][4:].split(";")
        # walk the getall structure: groups line, then per group keys line and 9 items per key
        groups = [g for g in items[0][7:].split(",") if g] if items[0].startswith("rc=0 l=") else []
        i = 1
        for g in [None] + [vlib.dec(x) for x in groups]:
            if i >= len(items) or not items[i].startswith("rc=0 l="):
                i += 1; continue
            keys = [vlib.dec(k) for k in items[i][7:].split(",") if k]; i += 1
            seen = set()
            for k in keys:
                ext = items[i + 8]; i += 9
                if k in seen: continue
                seen.add(k)
                m = re.search(r"vals=(\S*) file", ext)
                got = [vlib.dec(x) for x in m.group(1).split(",") if x] if m else []
                got = [x for x in got if x]
                ds = defs.get((g, k), [])
                if s.jn:
                    acc = []
                    for j, d in enumerate(ds):
                        if j > 0 and d == b"": acc = []
                        else: acc = acc + value_lines(d)
                    want = acc
                else:
                    want = value_lines(ds[0]) if ds else []
                if got != want: return "key %r in %r: expected value lines %r, implementation %r" % (k, g, want, got)
    return None

def nontrivial(s, mlines):
    return True
