"""C08 — typed values survive set/get and set/write/read/get."""
import gens, vlib, floatoracle as fo
from gens import enc
from checklib import Scenario

RULE = ("per type: all boundary values, single-bit and power-of-ten neighbours and pseudo-random values (float/double: bit "
        "patterns incl. NaN, infinities, subnormals, zeros), every case variant of the boolean words; each value is set with "
        "the typed setter (in half of the floating-point cases over a key that already holds the opposite zero / the neighbouring bit pattern), read with the matching getter, then the object is written (in half of the scenarios over a longer file saved before), read back and read again; "
        "the float/double expectations come from an exact rational model of correctly rounded printf/strtod "
        "(tools/floatoracle.py); distinct by value; thorough tier: EVERY float bit pattern, every int32 and every uint32 "
        "through setter and getter in-process (harness/sweep.c, 3 x 2^32 round trips, coverage.exhaustive_32bit); quick tier: 57 slices")

RANGES = {"int": (-2**31, 2**31 - 1), "int64": (-2**63, 2**63 - 1), "uint": (0, 2**32 - 1), "uint64": (0, 2**64 - 1)}

def int_values(rng, kd, n):
    lo, hi = RANGES[kd]
    vals = {lo, lo + 1, lo + 2, hi, hi - 1, hi - 2, 0, 1, max(lo, -1)}
    for b in range(0, 64):
        for v in (1 << b, (1 << b) - 1, (1 << b) + 1, -(1 << b), -(1 << b) - 1):
            if lo <= v <= hi: vals.add(v)
    for p in range(0, 20):
        for v in (10 ** p, 10 ** p - 1, 10 ** p + 1, -(10 ** p)):
            if lo <= v <= hi: vals.add(v)
    vals = sorted(vals)
    rng.shuffle(vals)
    out = vals[:n // 2]
    while len(out) < n: out.append(rng.randint(lo, hi))
    return out

def float_values(rng, bits, n):
    prec = 24 if bits == 32 else 53
    ebits = 8 if bits == 32 else 11
    top = 1 << (bits - 1)
    special = [0, top, 1, top | 1, (1 << (prec - 1)) - 1, 1 << (prec - 1), ((2 ** ebits - 1) << (prec - 1)),
               top | ((2 ** ebits - 1) << (prec - 1)), ((2 ** ebits - 1) << (prec - 1)) | 1, ((2 ** ebits - 2) << (prec - 1)) | ((1 << (prec - 1)) - 1),
               top | ((2 ** ebits - 1) << (prec - 1)) | 5]
    out = list(special)
    while len(out) < n:
        r = rng.random()
        if r < 0.15: out.append(rng.getrandbits(prec - 1) | (rng.getrandbits(1) << (bits - 1)))     # subnormal
        elif r < 0.3:                                                                        # near a power of two / ten
            e = rng.randrange(1, 2 ** ebits - 1)
            out.append((e << (prec - 1)) + rng.choice([0, 1, 2, (1 << (prec - 1)) - 1]))
        else: out.append(rng.getrandbits(bits))
    return out[:n]

def case_variants(w):
    res = [b""]
    for ch in w:
        c = bytes([ch])
        res = [r + x for r in res for x in ({c.lower(), c.upper()})]
    return res

BOOLS = [v for w in (b"yes", b"no", b"true", b"false") for v in case_variants(w)] + [b"1", b"0"]

def oracle(s, ilines):
    """set/get (directly and after write+read) returns exactly the stored value"""
    want = None; prev = None
    for c, l in zip(s.cmds, ilines):
        t = c.split()
        if c.startswith("get 1 string") and prev and prev[0] == "get 0 string" + c[12:] and prev[1] != l:
            return "%s: the text stored in the object is %s, after writing and reading back %s" % (c[:60], prev[1], l)
        prev = (c, l)
        if t[0] == "set":
            kd = t[2]
            if kd == "string": want = None; continue
            if kd in ("float", "double"): want = ("bits", int(t[6]), 32 if kd == "float" else 64)
            elif kd == "bool":
                w = (bytes.fromhex(t[5][1:])).lower()
                if w not in (b"1", b"0", b"yes", b"no", b"true", b"false"): continue      # a refused call: the stored value stays
                want = ("b", 1 if w in (b"1", b"yes", b"true") else 0)
            else: want = ("z", int(t[6]))
        elif t[0] == "get" and want and t[2] != "string":
            if want[0] == "z" and l != "rc=0 z=%d" % want[1]: return "%s after set %d: %s" % (c[:60], want[1], l)
            if want[0] == "b" and l != "rc=0 b=%d" % want[1]: return "%s: %s" % (c[:60], l)
            if want[0] == "bits":
                bits = want[2]; prec = 24 if bits == 32 else 53; ebits = 8 if bits == 32 else 11
                isnan = (want[1] >> (prec - 1)) & (2 ** ebits - 1) == 2 ** ebits - 1 and want[1] & ((1 << (prec - 1)) - 1)
                if not l.startswith("rc=0 bits="): return "%s after set bits %d: %s" % (c[:60], want[1], l)
                got = int(l.split("=")[2])
                if isnan:
                    if not ((got >> (prec - 1)) & (2 ** ebits - 1) == 2 ** ebits - 1 and got & ((1 << (prec - 1)) - 1)):
                        return "NaN not read back as NaN: %d -> %d" % (want[1], got)
                elif got != want[1]: return "%s: stored bits %d, read back %d" % (c[:60], want[1], got)
    return None

def gen(rng, tier):
    n = 360 if tier == "quick" else 4000
    per = 25
    out = []
    def batch(kd, vals, mk):
        for i in range(0, len(vals), per):
            cmds = ["newini 0"]; obs = [False]
            grp = [rng.choice([None, b"sec", b"other", b"sec", b"Sec", b"SEC"]) for _ in range(per)]
            if rng.random() < 0.3:
                # the object comes from a file that assigns every key twice (the first assignment is the visible one:
                # it is the one a setter replaces, and the one that must be visible again after writing and reading)
                txt = b""
                for gname in (None, b"sec", b"other", b"Sec", b"SEC"):
                    ks = [b"k%d" % j for j in range(len(vals[i:i + per])) if grp[j] == gname]
                    if gname is not None and ks: txt += b"[" + gname + b"]\n"
                    for kk in ks: txt += kk + b"=1\n"
                    for kk in ks: txt += kk + b"=2\n"
                cmds = [gens.parse_cmd(0, b"/d/twice.conf", txt, b"=", b"#")]
            if rng.random() < 0.5:
                # the file the values are written to exists already and is longer: the same keys with long texts,
                # saved once before (a second save of the same file must replace it, not overlay it)
                for j in range(len(vals[i:i + per])):
                    cmds.append("set 0 string %s %s %s -" % (enc(grp[j]), enc(b"k%d" % j), enc(b"an older, much longer text %d" % j * 2))); obs.append(False)
                cmds += ["reread 3 0"]; obs.append(False)
            for j, v in enumerate(vals[i:i + per]):
                k = b"k%d" % j
                g = grp[j]
                if kd in ("float", "double") and rng.random() < 0.5:
                    # the key holds another value of the same type first: the opposite zero for a zero (equal under ==,
                    # different bits), the neighbouring bit pattern otherwise
                    bits = 32 if kd == "float" else 64
                    pv = v ^ (1 << (bits - 1)) if v & ~(1 << (bits - 1)) == 0 else v ^ 1
                    cmds.append(mk(kd, g, k, pv)); obs.append(False)
                elif kd in ("int", "int64", "uint", "uint64") and rng.random() < 0.3:
                    cmds.append(mk(kd, g, k, v ^ 1)); obs.append(False)
                cmds.append(mk(kd, g, k, v)); obs.append(False)
                if rng.random() < 0.25:
                    # a call that is refused must leave the stored value alone
                    cmds.append("set 0 bool %s %s %s 0" % (enc(g), enc(k), enc(rng.choice([b"maybe", b"on", b"2", b"01", b" true", b"truee"])))); obs.append(True)
                cmds.append("get 0 %s %s %s -" % (kd, enc(g), enc(k))); obs.append(True)
            cmds.append("reread 1 0"); obs.append(False)
            # the same getters on the object that was written and read back
            for c in list(cmds):
                if c.startswith("get 0 "):
                    pass
            k2 = []
            for c in cmds:
                if c.startswith("set 0 ") and not (c.startswith("set 0 bool") and c.split()[5] in [enc(x) for x in (b"maybe", b"on", b"2", b"01", b" true", b"truee")]): k2.append(c)
                if c.startswith("get 0 "): k2.append("get 1 " + c[6:])
            # interleave so that the oracle sees the matching set before each get
            cmds2, obs2 = list(cmds), list(obs)
            for c in k2:
                if c.startswith("set 0 "):
                    # a no-op marker for the oracle: repeat the set on a scratch object
                    cmds2.append(c.replace("set 0 ", "set 2 ", 1)); obs2.append(False)
                else:
                    cmds2.append(c); obs2.append(True)
            # the stored text itself, before and after the write/read leg (the typed getters tolerate some trailing junk)
            for j in range(len(vals[i:i + per])):
                a = "%s %s -" % (enc(grp[j]), enc(b"k%d" % j))
                cmds2 += ["get 0 string " + a, "get 1 string " + a]; obs2 += [True, True]
            out.append(Scenario(["newini 2"] + cmds2, [False] + obs2, tags=(kd,)))
    for kd in ("int", "int64", "uint", "uint64"):
        batch(kd, int_values(rng, kd, n * per // 4), lambda kd, g, k, v: "set 0 %s %s %s - %d" % (kd, enc(g), enc(k), v))
    for kd, bits in (("float", 32), ("double", 64)):
        batch(kd, float_values(rng, bits, n * per // 4),
              lambda kd, g, k, v, bits=bits: "set 0 %s %s %s %s %d" % (kd, enc(g), enc(k), enc(fo.fmt_g(v, bits)), v))
    batch("bool", BOOLS, lambda kd, g, k, v: "set 0 bool %s %s %s 0" % (enc(g), enc(k), enc(v)))
    return out

def nontrivial(s, mlines):
    return True


# ---- exhaustive pass over the 32-bit types: every float bit pattern, every int32, every uint32 (thorough tier);
# ---- the quick tier runs 48 random slices of 2^18 values each
def extra_check(scens, rng, tier, cov):
    import os, subprocess, glob, shutil, concurrent.futures
    d = vlib.scratch_dir()
    try:
        exe = os.path.join(d, "sweep")
        csrc = sorted(glob.glob(os.path.join(vlib.REPO, "lib", "*.c")))
        cmd = ["gcc", "-O2", "-D_GNU_SOURCE", "-w", "-I" + os.path.join(vlib.REPO, "include"), "-I" + os.path.join(vlib.REPO, "lib"),
               "-o", exe, os.path.join(vlib.VERIF, "harness", "sweep.c")] + csrc + ["-lm"]
        p = subprocess.run(cmd, stdout=subprocess.PIPE, stderr=subprocess.STDOUT)
        if p.returncode != 0: raise vlib.BuildError(p.stdout.decode("utf-8", "replace")[-2000:])
        jobs = []
        if tier == "thorough":
            step = 1 << 26
            for kd in ("float", "int", "uint"):
                jobs += [(kd, lo, min(lo + step, 1 << 32)) for lo in range(0, 1 << 32, step)]
        else:
            for kd in ("float", "int", "uint"):
                for _ in range(16):
                    lo = rng.randrange(0, (1 << 32) - (1 << 18)); jobs.append((kd, lo, lo + (1 << 18)))
                jobs += [(kd, 0, 1 << 12), (kd, (1 << 31) - (1 << 11), (1 << 31) + (1 << 11)), (kd, (1 << 32) - (1 << 12), 1 << 32)]
        def run(j):
            r = subprocess.run([exe, j[0], str(j[1]), str(j[2])], stdout=subprocess.PIPE, stderr=subprocess.PIPE, timeout=7200)
            return j, r.returncode, r.stdout.decode().strip(), r.stderr.decode()[-300:]
        total = {"float": 0, "int": 0, "uint": 0}
        with concurrent.futures.ThreadPoolExecutor(max_workers=vlib.NPROC) as ex:
            for j, rc, out, err in ex.map(run, jobs):
                if rc != 0:
                    det = "exhaustive 32-bit pass, %s in [%d, %d): %s %s" % (j[0], j[1], j[2], out[:200], err)
                    body = "# property C08\n# %s\n# replay: gcc -O2 -D_GNU_SOURCE -I<repo>/include -I<repo>/lib harness/sweep.c <repo>/lib/*.c -lm && ./a.out %s %d %d\n" % (det, j[0], j[1], j[2])
                    return body, det
                total[j[0]] += j[2] - j[1]
        cov["swept_32bit_values"] = total
        cov["exhaustive_32bit"] = (tier == "thorough")
    finally:
        shutil.rmtree(d, ignore_errors=True)
    return None
