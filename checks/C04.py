"""C04 — no file content can corrupt memory, crash or hang read, query, merge or write."""
import vlib, gens, trees
from checklib import Scenario

RULE = ("arbitrary byte strings as file content (uniform bytes, structural-character-heavy, mutated conventional files, NUL and "
        "8-bit bytes, no trailing newline, very long lines; files of 600 and 800 KiB while the implementation runs with a 256 KiB stack) x 7 delimiter sets (+ exotic ones) x 3 comment sets (+ a blank) x "
        "{default, JOIN_SAME_ENTRIES, PYTHON_STYLE}; after a successful read: every listing, every typed and extended getter "
        "on every listed key, merge with a second random file in both roles, write and read back, and every object queried, merged and written AGAIN after it was written (section names with brackets of their own included); the same contents as main file and drop-ins of layered reads; run under ASan+UBSan and once more under clang MemorySanitizer with a "
        "per-run timeout; the return code must be success or one of the four parse codes (theorem), every sanitizer report, "
        "crash or timeout is a failing input; values are additionally compared with the model (fidelity); distinct by bytes")

XDELIMS = gens.DELIMS + [b"=:", b"\t", b"[", b"\"", b"#", b"= \t", b"\xe4", b"=\xff"]
XCOMMENTS = gens.COMMENTS + [b"# ", b"\"", b"[", b"=", b"", b"\xe4#", b"#\xff"]

def rfile(rng):
    r = rng.random()
    if r < 0.5: return gens.rand_bytes_file(rng)
    if r < 0.9: return gens.mutate_conventional(rng)
    if r < 0.95: return bytes(rng.choice(b"a=# [\"]") for _ in range(rng.randrange(8000, 20000))) + b"\n"
    return (b"k=" + b"v" * rng.randrange(8180, 8200) + b"\n #c\n") * 2

vlib.IMPL_STACK_KB = 256       # the implementation runs with a 256 KiB native stack: stack use that grows with the input shows at files of half a megabyte
EXTRA_FLAVOURS = ["msan"]     # clang MemorySanitizer build of the same driver: reads of uninitialised memory

def gen(rng, tier):
    n = 4200 if tier == "quick" else 100000
    out = []
    for _ in range(n):
        dl = rng.choice(XDELIMS if rng.random() < 0.3 else gens.DELIMS)
        cm = rng.choice(XCOMMENTS if rng.random() < 0.3 else gens.COMMENTS)
        mode = rng.randrange(4)
        py, jn = mode == 1, mode == 2
        cmds = [gens.parse_cmd(0, b"/d/f.conf", rfile(rng), dl, cm, py, jn), "getall 0", "dump 0",
                gens.parse_cmd(1, b"/d/g.conf", rfile(rng), dl, cm), "merge 2 0 1", "getall 2", "merge 3 1 0", "getall 3",
                "write 2", "getall 2", "reread 4 0", "getall 4", "getall 0", "merge 5 0 4", "write 0"]
        obs = [True] + [False] * (len(cmds) - 1)
        out.append(Scenario(cmds, obs, tags=("py" if py else "join" if jn else "default",)))
    # 1 .. 40 distinct sections, with and without group-less keys on top, read, merged with another such file, written
    for k in range(1, 41):
        for top in (b"", b"g=0\n"):
            c1 = top + b"".join(b"[S%d]\nk=%d\n" % (i, i) for i in range(k))
            c2 = b"".join(b"[T%d]\nj=%d\n" % (i, i) for i in range(max(1, 41 - k)))
            out.append(Scenario([gens.parse_cmd(0, b"/d/s1.conf", c1, b"=", b"#"), "groups 0", gens.parse_cmd(1, b"/d/s2.conf", c2, b"=", b"#"),
                                 "merge 2 0 1", "groups 2", "merge 3 1 0", "groups 3", "reread 4 2", "groups 4",
                                 "newini 5"] + ["set 5 string %s x6b x76 0" % vlib.enc(b"N%d" % i) for i in range(k)] + ["groups 5", "write 5"],
                                [True] + [False] * (10 + k + 1), tags=("sections",)))
    # files far larger than the stack the implementation runs with: many long lines, and one very long line
    big1 = b"".join(b"key%d=" % i + b"v" * 990 + b"\n" for i in range(600))
    big2 = b"k=" + b"w" * (3 << 17) + b"\n  " + b"c" * (3 << 17) + b"\n[s]\nj=1\n"
    for content in (big1, big2):
        for mode in range(3):
            out.append(Scenario([gens.parse_cmd(0, b"/d/big.conf", content, b"=", b"#", mode == 1, mode == 2), "groups 0", "keys 0 -", "get 0 string - x6b -", "reread 1 0", "keys 1 -"],
                                [True, False, False, False, False, False], tags=("big",)))
    # the same arbitrary contents as main file and drop-ins of a layered read (several files per directory, any of
    # them refused by the parser): the failure paths of the directory readers run on the same bytes
    for _ in range(n // 5):
        dl = rng.choice(gens.DELIMS); cm = rng.choice(gens.COMMENTS)
        cmds = [trees.fsdir(b"/l"), trees.fsdir(b"/l/x.conf.d"), trees.fsdir(b"/m"), trees.fsdir(b"/m/x.conf.d")]
        if rng.random() < 0.7: cmds.append(trees.fsfile(b"/l/x.conf", rfile(rng)))
        for d in (b"/l/x.conf.d", b"/m/x.conf.d"):
            for nm in rng.sample([b"1.conf", b"2.conf", b"3.conf", b"a.conf"], rng.randrange(0, 4)):
                cmds.append(trees.fsfile(d + b"/" + nm, rfile(rng) if rng.random() < 0.7 else b"k=ok\n[s]\nj=1\n"))
        k = len(cmds)
        args = "%s %s %s x636f6e66 %s %s" % (vlib.enc(b"/l"), vlib.enc(b"/m"), vlib.enc(b"x"), vlib.enc(dl), vlib.enc(cm))
        cmds += ["readdirs 0 " + args, "getall 0", "history " + args,
                 "newopts 1 " + vlib.enc(b"PARSING_DIRS=/l:/m" + rng.choice([b"", b";JOIN_SAME_ENTRIES=1", b";PYTHON_STYLE=1"])),
                 "readconfig 1 - - %s x636f6e66 %s %s" % (vlib.enc(b"x"), vlib.enc(dl), vlib.enc(cm)), "getall 1"]
        out.append(Scenario(cmds, [False] * k + [True, False, True, False, True, False], tags=("layered",)))
    return out

def oracle(s, ilines):
    for c, l in zip(s.cmds, ilines):
        if c.startswith("parse") or c.startswith("reread") or c.startswith("readdirs") or c.startswith("readconfig") or c.startswith("history"):
            code = l.split()[0] if l else ""
            if code not in ("rc=0", "rc=9", "rc=10", "rc=11", "rc=12", "noobj") and not (code == "rc=3" and not c.startswith("parse") and not c.startswith("reread")):
                return "reading returned an undocumented code: %s" % l[:80]
    return None

def nontrivial(s, mlines):
    return mlines and mlines[0] == "rc=0" and len(mlines) > 2 and " n=0 " not in mlines[2]
