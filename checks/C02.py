"""C02 — conventional files parse to exactly the sections, keys and values written."""
import vlib, grammar, gens, gramlib
from checklib import Scenario
from vlib import enc

RULE = ("files generated from the conventional grammar (Grammar.v / DESIGN.md 5.1) as ASTs aimed at the case splits of the "
        "proof (each delimiter class; key ending at blank vs delimiter; value empty / plain / quoted; trailing comment; "
        "continuation lines; sections first / re-opened / empty; comment lines with arbitrary text; one file in a hundred with a field stretched beyond 8192 bytes), rendered and given their "
        "meaning by the Coq definitions; 7 delimiter sets x 3 comment sets; compared: the implementation's full dump and every "
        "listing/getter against the EXPECTED configuration (spec) and against the model parser; non-trivial = has a key line; "
        "distinct by rendered bytes")

def gen(rng, tier):
    n = 4200 if tier == "quick" else 60000
    asts = []
    for _ in range(n):
        dl = rng.choice(grammar.DELIMS); cm = rng.choice(grammar.COMMENTS)
        ls = grammar.gen_file(rng, dl, cm, maxlines=12)
        if rng.random() < 0.01:
            # the grammar has no length limit: stretch one value, continuation text, key or comment beyond the stdio buffer size
            idx = [i for i, l in enumerate(ls) if l[0] in ("K", "T", "C")]
            if idx:
                i = rng.choice(idx); l = list(ls[i]); pad = b"w" * rng.choice([8185, 8192, 8200, 20000])
                if l[0] == "T": l[2] = l[2] + pad
                elif l[0] == "C": l[3] = l[3] + pad
                elif l[6] == "P" and l[7]: l[7] = l[7] + pad
                else: l[2] = l[2] + pad
                ls[i] = tuple(l)
        asts.append((dl, cm, ls))
    exp = gramlib.expected_of(asts)
    out = []
    for (dl, cm, ls), e in zip(asts, exp):
        if not e["wf"]:
            raise RuntimeError("generator produced a file outside the grammar: %r %r %r" % (dl, cm, e["bytes"]))
        s = Scenario([gens.parse_cmd(0, b"/g/f.conf", e["bytes"], dl, cm), "dump 0", "getall 0"], [True, True, True],
                     tags=("class" + grammar.cls(dl),))
        s.expected = e
        out.append(s)
    # section names that are prefixes of each other (and differ in case only), in every order, all defining the same keys
    for _ in range(60 if tier == "quick" else 2000):
        names = rng.sample([b"network", b"net", b"ne", b"n", b"Net", b"NETWORK", b"net work", b"network2"], rng.randrange(2, 6))
        lines = [b"port=0"] if rng.random() < 0.5 else []
        for i, nm in enumerate(names + ([names[0]] if rng.random() < 0.3 else [])):
            lines.append(b"[" + nm + b"]")
            for k in rng.sample([b"port", b"mode", b"mtu", b"name"], rng.randrange(1, 4)): lines.append(k + b"=" + nm + b"-%d" % i)
        cmds = [gens.parse_cmd(0, b"/g/p.conf", b"\n".join(lines) + b"\n", b"=", b"#"), "dump 0", "getall 0"]
        for nm in names:
            for k in (b"port", b"mode", b"mtu", b"name"): cmds.append("get 0 string %s %s -" % (enc(rng.choice([nm, b"[" + nm + b"]"])), enc(k)))
        out.append(Scenario(cmds, [True] * len(cmds), tags=("prefix-names",)))
    # big files: hundreds of sections (many of them re-opened further down), thousands of keys — compared with the model
    for nsec, nkeys in (((80, 600), (400, 2500)) if tier == "quick" else ((80, 600), (400, 2500), (2000, 20000))):
        lines = [b"top=0", b"top2 = x"]
        for i in range(nkeys):
            if i % (nkeys // nsec) == 0 or rng.random() < 0.02:
                lines.append(b"[S%d]" % rng.randrange(nsec) if rng.random() < 0.3 else b"[S%d]" % (i * nsec // nkeys))
            lines.append(b"key%d=%d" % (rng.randrange(nkeys // 2), i))
            if i % 50 == 0: lines.append(b"  continued %d" % i)
        out.append(Scenario([gens.parse_cmd(0, b"/g/big.conf", b"\n".join(lines) + b"\n", b"=", b"#"), "dump 0", "groups 0", "keys 0 " + enc(b"S3"), "keys 0 -"],
                            [True, True, True, True, True], tags=("big",)))
    return out

def oracle(s, ilines):
    e = getattr(s, "expected", None)
    if e is None: return None
    if not e["agree"]:
        return "the model parser itself disagrees with the expected configuration (theorem C02_parse contradicted?)"
    if len(ilines) < 3: return "missing output"
    if ilines[0] != "rc=0": return "conventional file refused: " + ilines[0]
    if ilines[1] != e["dump"]:
        return "parsed configuration differs from the expected one: expected %s | implementation %s" % (e["dump"][:400], ilines[1][:400])
    if not vlib.line_equal(e["getall"], ilines[2]):
        return "listing/getters differ from the expected configuration"
    return None

def nontrivial(s, mlines):
    return len(mlines) > 1 and " n=0 " not in mlines[1]
