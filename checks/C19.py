"""C19 — econftool shows what an application would get."""
import os, re, shutil, subprocess, random, time
import vlib, trees, gens, checklib
from vlib import enc
from checklib import Scenario

RULE = ("two-layer trees under $ECONFTOOL_ROOT (a sixth of them below a root of 250 ... 700 bytes) (configuration names with one and with several dots) (vendor /usr/etc, local /etc) and single absolute files x --delimiters / "
        "--comment choices (one character and sets of two; --delimiters also with one to three of the escape sequences \\t \\f \\n \\r \\v in any order, a repeated one, an unknown one, and the word spaces) x files using both comment characters, files with only group-less keys, only sections, both, empty sections, multi-line values, "
        "malformed lines; the real econftool binary (ASan build of util/econftool.c + lib) is run for show, syntax and cat; "
        "stdout, the error line on stderr and the exit status are compared with the model of the tool, which is built on the "
        "model of the library's readers (so the tool is compared with what an application would get); distinct by scenario")

def content(rng, tag):
    r = rng.random()
    if r < 0.1: return b"g1=" + tag + b"\ng2 = two words\n"
    if r < 0.2: return b"top=" + tag + b"\n[S]\nk=" + tag + b"\n[T]\nz=1\n[S]\nlater=" + tag + b"\nk2=2\n[U]\n[T]\nz2=3\n"     # sections opened twice
    if r < 0.35: return b"[S]\nk=" + tag + b"\n[E]\n[T]\nz=1\n cont\n"
    if r < 0.4: return b"only=" + tag + b"\n[broken\n"
    if r < 0.45: return rng.choice([b"only=" + tag + b"\nx=1\n[broken", b"[broken", b"a=1\n[s] junk"])       # offending line last, no newline
    if r < 0.5: return b"key value without delimiter\n"
    if r < 0.57:   # text whose first or last byte is above 127 (UTF-8, Latin-1)
        return b"currency=\xe2\x82\xac\nname = Jos\xc3\xa9\n[\xc3\x9cber]\nmotto=\xc2\xa1hola! # t\nlist=caf\xe9\n  \xe9t\xe9\n" + b"tag=" + tag + b"\n"
    if r < 0.65:   # both comment characters in use: a standalone note, a note below an entry, a trailing note
        return b"; note of " + tag + b"\na=" + tag + b" ; trailing\n# hash note\nb=2\n; below an entry\n[S]\nc=3 # t\n"
    return trees.content(rng, tag)

def materialise(root, cmds):
    for c in cmds:
        t = c.split()
        p = root + vlib.dec(t[1]).decode("latin-1")
        if t[0] == "fsdir": os.makedirs(p, exist_ok=True)
        elif t[0] == "fsfile":
            os.makedirs(os.path.dirname(p), exist_ok=True)
            with open(p, "wb") as f: f.write(vlib.dec(t[2]) or b"")
        elif t[0] == "fslink":
            os.makedirs(os.path.dirname(p), exist_ok=True)
            tg = vlib.dec(t[2]).decode("latin-1")
            if os.path.lexists(p): os.unlink(p)
            os.symlink(tg if tg == "/dev/null" else root + tg, p)

def run_tool(exe, root, cmd, arg, dl, cm, bare=False):
    env = dict(os.environ, ECONFTOOL_ROOT=root, LC_ALL="C", ASAN_OPTIONS="detect_leaks=0:exitcode=99", UBSAN_OPTIONS="exitcode=98")
    a = arg.decode("latin-1")
    if a.startswith("/"): a = root + a
    try:
        opts = [] if bare else ["--delimiters=" + dl.decode("latin-1"), "--comment=" + cm.decode("latin-1")]      # bare: the tool's defaults (= and #)
        p = subprocess.run([exe, cmd] + opts + [a],
                           stdout=subprocess.PIPE, stderr=subprocess.PIPE, env=env, timeout=30)
    except subprocess.TimeoutExpired:
        return None, "timeout", b""
    norm = lambda b: b.replace(root.encode(), b"")
    return norm(p.stdout), p.returncode, norm(p.stderr)

def check(tier, seed):
    t0 = time.time(); pid = "C19"
    rng = random.Random(seed)
    cov = {"checker_cmd": "make -C coq Properties_C19.vo && coqc -Q coq Econf coq/Properties_C19.v", "trusted_base": checklib.TRUSTED_BASE}
    ps = checklib.proof_status(pid, tier)
    cov.update(obligations=ps["obligations"], discharged=ps["discharged"], theorems=ps["theorems"], axioms=ps["axioms"])
    if "coqchk" in ps: cov["coqchk"] = {"exit": ps["coqchk"]["exit"], "axioms_of_all_loaded_libraries": ps["coqchk"]["axioms"], "unsafe": ps["coqchk"]["unsafe"]}
    exe, err = vlib.tool_binary()
    if exe is None:
        p = vlib.write_replay(pid, "build-failure.txt", "# econftool no longer builds\n" + err[-3000:])
        cov.update(evaluations=0, distinct_nontrivial=0, samples=[], rule=RULE)
        vlib.write_evidence(pid, tier, seed, cov, time.time() - t0, 1)
        print("VIOLATION property=%s replay=%s no-failing-input-found" % (pid, p)); return 1
    n = 720 if tier == "quick" else 15000
    scen, meta = [], []
    for _ in range(n):
        name = rng.choice([b"foo", b"bar", b"app.service", b"a.b.c"]); sfx = rng.choice([b"conf", b"cfg"])
        dl = rng.choice([b"=", b"=", b":=", b" "]); cm = rng.choice([b"#", b";", b"#;", b";#", b"#"])
        if rng.random() < 0.2:
            # escape sequences as main() translates them (first occurrence of each, in the order t f n r v), the word "spaces"
            dl = rng.choice([b"=\\t", b"=\\t\\f", b"=\\t\\v", b"=\\f\\t", b"\\t=\\v", b":\\v\\r\\t=", b"=\\t\\t", b"spaces", b"\\f:\\n", b"=\\x", b"=" + b"a" * 1100 + b"\\t"])
        cmds = []
        for li, d in enumerate([b"/usr/etc", b"/etc"]):
            cmds.append(trees.fsdir(d))
            if rng.random() < 0.6: cmds.append(trees.fsfile(d + b"/" + name + b"." + sfx, content(rng, b"L%d" % li)))
            dd = d + b"/" + name + b"." + sfx + b".d"
            if rng.random() < 0.6:
                cmds.append(trees.fsdir(dd))
                for nm in rng.sample([b"10-a", b"9-b", b"x", b"note"], rng.randrange(0, 3)):
                    cmds.append(trees.fsfile(dd + b"/" + nm + (b"." + sfx if nm != b"note" else b".txt"), content(rng, b"L%d-" % li + nm)))
        single = rng.random() < 0.25
        arg = (b"/abs/one." + sfx) if single else name + b"." + sfx
        if single: cmds.append(trees.fsfile(arg, content(rng, b"single")))
        tcmds = [c for c in ("show", "syntax", "cat")]
        scen.append(cmds + ["tool %s %s %s %s" % (c, enc(arg), enc(dl), enc(cm)) for c in tcmds])
        meta.append((cmds, arg, dl, cm, tcmds))
    want = vlib.run_model(scen)
    viol = None; evals = 0; kf = [f for f in vlib.known_findings() if f["property"] == pid and f.get("status") == "known"]
    samples = []
    for (cmds, arg, dl, cm, tcmds), w in zip(meta, want):
        root0 = vlib.scratch_dir(); root = root0
        if len(samples) % 7 == 3 or (evals // 3) % 6 == 5:
            # $ECONFTOOL_ROOT may be deep: every name the tool prints is then long (250 ... 700 bytes)
            for comp in ("r" * 200, "s" * (evals % 5 * 40 + 30)) + (("t" * 250,) * (evals % 2)): root = os.path.join(root, comp)
            os.makedirs(root)
        if (evals // 3) % 9 == 4:
            root = os.path.join(root, "vendor:v2;x"); os.makedirs(root)       # any legal directory name
        try:
            materialise(root, cmds)
            for c, line in zip(tcmds, w[len(cmds):]):
                m = re.match(r"exit=(\d+) stdout=(\S+) err=(\S+)", line)
                so, rc, se = run_tool(exe, root, c, arg, dl, cm, bare=(dl == b"=" and cm == b"#" and evals % 2 == 0))
                evals += 1
                wexit, wout, werr = int(m.group(1)), vlib.dec(m.group(2)), vlib.dec(m.group(3))
                got_exit = rc if isinstance(rc, str) else rc % 256
                det = None
                if rc in (98, 99) or isinstance(rc, str): det = "econftool %s crashed or hung: %s %s" % (c, rc, se[-600:])
                elif got_exit != wexit: det = "econftool %s: exit status %s, the library's result implies %s (stderr %r)" % (c, got_exit, wexit, se[-300:])
                elif so != wout: det = "econftool %s prints something else than the configuration the library returns: expected %r, printed %r" % (c, wout[:600], (so or b"")[:600])
                elif werr is not None and werr + b"\n" not in se: det = "econftool %s does not name the file and line: expected %r in stderr %r" % (c, werr, se[-400:])
                if det:
                    viol = (cmds + ["tool %s %s %s %s" % (c, enc(arg), enc(dl), enc(cm))], det); break
            if len(samples) < 2: samples.append([x[:90] for x in cmds[:4]] + ["tool show %s" % arg.decode()])
        finally:
            shutil.rmtree(root0, ignore_errors=True)
        if viol: break
    cov.update(evaluations=evals, distinct_nontrivial=evals, rule=RULE, samples=samples or [["-"]],
               traces_validated_against_impl=evals if not viol else 0)
    for f in kf:
        # replay the recorded input: named as long as it still fails
        tr = f.get("tool_replay")
        if tr:
            root = vlib.scratch_dir()
            try:
                os.makedirs(root + "/etc", exist_ok=True); os.makedirs(root + "/usr/etc", exist_ok=True)
                with open(root + "/etc/foo.conf", "wb") as fh: fh.write(b"k=1\n")
                so, rc2, se = run_tool(exe, root, tr["cmd"], tr["arg"].encode(), b"a" * tr["delimiters_len"] + b"\\t", b"#")
            finally:
                shutil.rmtree(root, ignore_errors=True)
            if not (rc2 in (98, 99) or b"AddressSanitizer" in se):
                continue
        print("KNOWN-FINDING: property=%s %s" % (pid, f["what"]))
    rc = 0
    if viol or not ps["ok"]:
        if viol:
            body = "# property C19\n# %s\n# replay: ./check C19 --replay <file>\n" % viol[1].replace("\n", " ")[:1500] + "\n".join(viol[0]) + "\n"
            p = vlib.write_replay(pid, "violation-seed%d.case" % seed, body)
            print("VIOLATION property=%s replay=%s" % (pid, p))
        else:
            p = vlib.write_replay(pid, "unproven-seed%d.txt" % seed, "# theorem that no longer checks: %s\n%s\n" % (ps.get("broken_at"), ps["log"][-1500:]))
            print("VIOLATION property=%s replay=%s no-failing-input-found" % (pid, p))
        rc = 1
    vlib.write_evidence(pid, tier, seed, cov, time.time() - t0, 1 if rc else 0)
    if rc == 0: print("OK property=%s tier=%s obligations=%d/%d tool-runs=%d wall=%.1fs" % (pid, tier, ps["discharged"], ps["obligations"], evals, time.time() - t0))
    return rc

def replay(path):
    cmds = [l for l in open(path).read().split("\n") if l and not l.startswith("#")]
    tree, tool = [c for c in cmds if not c.startswith("tool")], [c for c in cmds if c.startswith("tool")]
    exe, err = vlib.tool_binary()
    want = vlib.run_model([cmds])[0]
    root = vlib.scratch_dir(); bad = False
    try:
        materialise(root, tree)
        for c, line in zip(tool, want[len(tree):]):
            t = c.split(); m = re.match(r"exit=(\d+) stdout=(\S+) err=(\S+)", line)
            so, rc, se = run_tool(exe, root, t[1], vlib.dec(t[2]), vlib.dec(t[3]), vlib.dec(t[4]))
            print(c[:100]); print("  model:", m.group(1), vlib.dec(m.group(2))); print("  tool :", rc, so, se[-300:])
            if (rc % 256 if isinstance(rc, int) else rc) != int(m.group(1)) or so != vlib.dec(m.group(2)): bad = True
    finally:
        shutil.rmtree(root, ignore_errors=True)
    if bad: print("VIOLATION property=C19 replay=%s" % path); return 1
    print("replay: no violation"); return 0
