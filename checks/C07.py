"""C07 — a written configuration reads back identically."""
import re
import vlib, grammar, gens, gramlib, writable
from checklib import Scenario

RULE = ("objects built by random setter histories (any interleaving of group-less and sectioned keys, re-opened sections, "
        "overwritten keys; typed values) or parsed from conventional files (general ones, and dense ones where value-less keys stand directly below other entries) and then modified, for delimiter tags =, :, space "
        "and comment tags #, ;; each is written with econf_writeFile (in half of the cases over a longer file saved earlier under the same name) and read back with its own tags; for objects the Coq "
        "predicate `writable` accepts (decided by the extracted model), every section must hold the same keys in order with "
        "the same values, and single-line entries keep their comments; values whose first or continuation line (indentation included) is 4094..4097, 8189..8200, 16383..16385, 20000, 65536, 70001 bytes long, on every delimiter/comment pair, with a key behind them; non-writable objects only check model = implementation; "
        "distinct by written bytes")

def sections_of(getall):
    """{section: [(key, value)]} from a getall line"""
    items = getall[4:].split(";")
    res, i = {}, 0
    if not items[0].startswith("rc=0 l="):
        groups = []
    else:
        groups = [g for g in items[0][7:].split(",") if g]
    i = 1
    for g in ["-"] + groups:
        if i >= len(items): break
        if not items[i].startswith("rc=0 l="):
            i += 1; continue
        keys = [k for k in items[i][7:].split(",") if k]
        i += 1
        kv = []
        for k in keys:
            v = items[i]  # string getter is the first of nine items per key
            kv.append((k, v.replace("v=-", "v=x")))
            i += 9
        res[g] = kv
    return res

def gen(rng, tier):
    n = 1500 if tier == "quick" else 50000
    pre = []
    for _ in range(n):
        d = rng.choice([61, 58, 32]); c = rng.choice([35, 59])
        r = rng.random()
        if r < 0.5:
            cmds = writable.history(rng, 0, d, c)
        elif r < 0.7:
            cmds = [gens.parse_cmd(0, b"/w/f.conf", writable.compact_file(rng, d, c), bytes([d]), bytes([c]))]
            if rng.random() < 0.3:
                cmds.append("set 0 string %s %s %s 0" % (vlib.enc(rng.choice([None, b"A", b"main"])), vlib.enc(b"added"),
                                                          vlib.enc(writable.sval(rng, d, c))))
        else:
            ls, dl, cm = writable.from_file(rng, 0, d, c)
            e = gramlib.expected_of([(dl, cm, ls)])[0]
            cmds = [gens.parse_cmd(0, b"/w/f.conf", e["bytes"], dl, cm)]
            for _ in range(rng.randrange(0, 3)):
                cmds.append("set 0 string %s %s %s 0" % (vlib.enc(rng.choice([None, b"A", b"new"])), vlib.enc(b"added"),
                                                          vlib.enc(writable.sval(rng, d, c))))
        pre.append(cmds)
    # values whose lines are long: a first line or a continuation line (indentation included) of a length around the sizes
    # stack buffers like (BUFSIZ = 8192 and its neighbours), on every delimiter and comment character; a key behind it
    Ls = [4094, 4095, 4096, 4097, 8189, 8190, 8191, 8192, 8193, 8200, 16383, 16384, 16385, 20000, 65536, 70001]
    for i in range(2 * 3 * len(Ls) if tier == "quick" else 192):
        d = (61, 58, 32)[(i // 7) % 3]; c = (35, 59)[(i // 5) % 2]
        L = Ls[(i // 3) % len(Ls)] if i < 6 * len(Ls) or rng.random() < 0.5 else rng.randrange(100, 40000)
        ind = rng.choice([b" ", b"\t", b"    "])
        body = lambda n: bytes(rng.choice(b"abcxyz0189_-.") for _ in range(max(n, 1)))
        shape = i % 3
        if shape == 0: v = b"first\n" + ind + body(L - len(ind))                      # one long continuation line
        elif shape == 1: v = body(L) + b"\n" + ind + b"second"                          # a long first line, continued
        else: v = b"a\n" + ind + body(L - len(ind)) + b"\n" + ind + body(L + 1 - len(ind)) + b"\n" + ind + b"end"
        pre.append(["newkf 0 %d %d" % (d, c), "set 0 string %s %s %s 0" % (vlib.enc(rng.choice([None, b"A"])), vlib.enc(b"longval"), vlib.enc(v)),
                    "set 0 string %s %s %s 0" % (vlib.enc(b"A"), vlib.enc(b"after"), vlib.enc(b"short"))])
    # which objects are writable: decided by the Coq predicate
    verdicts = vlib.run_model([c + ["wspec 0"] for c in pre])
    out = []
    for cmds, v in zip(pre, verdicts):
        w = v[-1]
        pre_w = []
        if rng.random() < 0.5:
            # an earlier, longer save exists under the same name: the write has to replace it, not overwrite its beginning
            pre_w = ["newini 9"] + ["set 9 string %s %s %s 0" % (vlib.enc(b"old section %d" % j), vlib.enc(b"old-key-%d" % j), vlib.enc(b"old value " * 8))
                                     for j in range(rng.randrange(1, 6))] + ["write 9"]
        if rng.random() < 0.4: pre_w = pre_w + ["write 0"]        # the object has been written before: the second file must be as good as the first
        tail, tobs = [], []
        if rng.random() < 0.15:
            # econf_writeFile into directories of a tree: existing, missing, a regular file, a name taken by a directory;
            # the written file is then read back from the tree
            E = vlib.enc
            tail = ["fsdir %s 0 0" % E(b"/wd"), "fsdir %s 0 0" % E(b"/wd/sub"), "fsfile %s %s 0 0" % (E(b"/wd/plain"), E(b"x=1\n")),
                    "writeto 0 %s %s" % (E(b"/wd"), E(b"out.conf")), "readfile 5 %s %s %s" % (E(b"/wd/out.conf"), E(bytes([d])), E(bytes([c]))), "getall 5",
                    "writeto 0 %s %s" % (E(b"/missing"), E(b"x.conf")), "writeto 0 %s %s" % (E(b"/wd/plain"), E(b"x.conf")),
                    "writeto 0 %s %s" % (E(b"/wd"), E(b"sub")), "writeto 0 %s %s" % (E(b"/wd/"), E(b"plain")), "readfile 6 %s x3d x23" % E(b"/wd/plain")]
            tobs = [False, False, False] + [True] * 8
        s = Scenario(cmds + pre_w + ["dump 0", "getall 0", "reread 1 0", "getall 1", "ext 1 - x6b31"] + tail,
                     [False] * (len(cmds) + len(pre_w)) + [False, True, True, True, False] + tobs, tags=("writable" if w.startswith("writable=1") else "other",))
        s.wspec = w
        out.append(s)
    return out

def oracle(s, ilines):
    w = getattr(s, "wspec", "")
    if not w.startswith("writable=1"): return None
    if w != "writable=1 render=1 wf=1 roundtrip=1":
        return "the model contradicts theorem C07_roundtrip: " + w
    n = len(s.cmds) - (11 if s.cmds[-1].startswith("readfile 6") else 0)
    ga0, rr, ga1 = ilines[n - 4], ilines[n - 3], ilines[n - 2]
    if rr != "rc=0": return "written file of a writable object is refused on re-reading: " + rr
    a, b = sections_of(ga0), sections_of(ga1)
    a = {g: kv for g, kv in a.items() if kv}; b = {g: kv for g, kv in b.items() if kv}
    if a != b:
        for g in set(a) | set(b):
            if a.get(g) != b.get(g):
                return "section %s differs after write+read: before %s | after %s" % (g, a.get(g), b.get(g))
    return None

def nontrivial(s, mlines):
    return "writable" in s.tags and len(s.cmds) > 8
