"""C01 — layered lookup yields the vendor < /run < /etc precedence for every tree."""
import vlib, trees, gens, laylib
from vlib import enc
from checklib import Scenario

RULE = ("random trees over 2 or 3 layers: main file {absent, regular, empty, link to /dev/null, dangling link, directory} per "
        "layer, drop-in names colliding across layers / without suffix / dot files / byte order != numeric order, contents with "
        "group-less and grouped keys tagged by origin; parameter shapes: readDirs with process-wide drop-in list, readConfig "
        "with ROOT_PREFIX+project+usr_subdir, with PARSING_DIRS/CONFIG_DIRS, drop-ins only (<project>.d), suffix with/without "
        "dot/absent/empty, both names NULL; observations: return code, full dump and every getter of the result, path; the "
        "model (proved equal to the layered specification when the first consulted file is not a masked drop-in) is the oracle; "
        "distinct by scenario")

def gen(rng, tier):
    n = 1500 if tier == "quick" else 60000
    out = []
    for _ in range(n):
        st = laylib.setup(rng, popts=rng.random() < 0.3, relative=rng.random() < 0.15, links=rng.random() < 0.3)
        cmds = st["cmds"] + st["pre"] + [st["read"], "dump 0", "getall 0", "path 0"]
        obs = [False] * (len(st["cmds"]) + len(st["pre"])) + [True, True, True, True]
        out.append(Scenario(cmds, obs, tags=("mode%d" % st["mode"],)))
    # many drop-ins in one directory, spread over two layers: every one of them is applied, in byte order, later ones
    # override; a name present in both layers counts once (the main file exists: the known finding F14 is out of the way)
    for count in ((70, 300) if tier == "quick" else (70, 300, 1100)):
        cmds = [trees.fsdir(b"/usr/etc/big.conf.d"), trees.fsdir(b"/etc/big.conf.d"), trees.fsfile(b"/usr/etc/big.conf", b"common=main\nmain=1\n")]
        for i in range(count):
            nm = b"%04d-x.conf" % (i * 7 % count)
            layer = b"/etc" if i % 3 == 0 else b"/usr/etc"
            cmds.append(trees.fsfile(layer + b"/big.conf.d/" + nm, b"common=%d\nk%d=%d\n[S%d]\nj=%d\n" % (i, i, i, i % 40, i)))
            if i % 10 == 0: cmds.append(trees.fsfile(b"/usr/etc/big.conf.d/" + nm, b"masked%d=1\n" % i))
        k = len(cmds)
        cmds += ["readdirs 0 x2f7573722f657463 x2f657463 %s x636f6e66 x3d x23" % enc(b"big"), "dump 0", "getall 0"]
        out.append(Scenario(cmds, [False] * k + [True, True, True], tags=("many-dropins",)))
    # no suffix and a drop-in directory format that nests BELOW the configuration name ("/conf.d", "/"): where the main
    # file "<layer>/<name>" is a regular file, "<layer>/<name>/conf.d" cannot be listed (not a directory) — that is "no
    # drop-ins there", never a reason to fail the read
    for _ in range(40 if tier == "quick" else 1500):
        name = rng.choice([b"foo", b"bar"]); sfx = rng.choice([None, b""])
        cd = rng.choice([[b"/conf.d", b".d"], [b".d", b"/"], [b"/"], [b"/conf.d"], [b"/conf.d", b"/"]])
        cmds = []
        for li, d in enumerate([b"/usr/etc", b"/etc"]):
            cmds.append(trees.fsdir(d))
            if rng.random() < 0.7: cmds.append(trees.fsfile(d + b"/" + name, b"main=L%d\nk=L%d\n" % (li, li)))
            if rng.random() < 0.5:
                cmds.append(trees.fsdir(d + b"/" + name + b".d"))
                for nm in rng.sample([b"10-a", b"9-b", b"x.conf", b"z"], rng.randrange(0, 3)):
                    cmds.append(trees.fsfile(d + b"/" + name + b".d/" + nm, b"k=L%d-" % li + nm + b"\n[S]\n" + nm + b"=1\n"))
        k = len(cmds)
        args = "%s %s %s %s x3d x23" % (enc(b"/usr/etc"), enc(b"/etc"), enc(name), enc(sfx))
        cmds += ["confdirs " + ",".join(enc(x) for x in cd), "readdirs 0 " + args, "dump 0", "history " + args,
                 "newopts 1 " + enc(b"PARSING_DIRS=/usr/etc:/etc;CONFIG_DIRS=" + b":".join(cd)), "readconfig 1 - - %s %s x3d x23" % (enc(name), enc(sfx)), "dump 1"]
        out.append(Scenario(cmds, [False] * (k + 1) + [True, True, True, False, True, True], tags=("nested-format-below-a-file",)))
    # a NULL / empty layer directory stands for "/": its main file AND its drop-in directories are absolute names (never
    # relative to the working directory); family shared with C12
    import C12
    out += C12.gen_emptydir(rng, 60 if tier == "quick" else 2000)
    # both names NULL must be refused, not crash
    out.append(Scenario(["newopts 0 " + enc(b"ROOT_PREFIX=/r"), "readconfig 0 - - - x636f6e66 x3d x23", "dump 0"], tags=("nullnames",)))
    out.append(Scenario(["readdirs 0 x2f75 x2f65 - x636f6e66 x3d x23", "dump 0"], tags=("nullnames",)))
    return out

def nontrivial(s, mlines):
    return any(l.startswith("rc=0 obj=1") and l.count(",") >= 1 for l in mlines)

def matches_finding(f, s, det):
    return False


# ---- the drop-in directory list of econf_set_conf_dirs is process-wide: set by the main thread, it is the list every
# ---- worker thread's econf_readDirs uses (handles with CONFIG_DIRS of their own are not affected)
def extra_check(scens, rng, tier, cov):
    import C16
    rounds = 10 if tier == "quick" else 150
    cov["cross_thread_cases"] = rounds
    for _ in range(rounds):
        cd = rng.choice([[b".conf.d", b".d"], [b".d"], [b".d", b".conf.d"], [b".x", b".d"]])
        pre = ["confdirs " + ",".join(enc(x) for x in cd)]
        tset = []
        for t in range(4):
            if t < 3: st = laylib.setup(rng, mode=0, force_confdirs=cd, emit_confdirs=False)
            else: st = laylib.setup(rng, mode=rng.choice([1, 2]))
            cmds = st["cmds"] + st["pre"] + [st["read"], "dump 0"]
            if st["hist"]: cmds.append(st["hist"])
            tset.append(cmds)
        det = C16._run_thread_case(pre, tset, what="drop-in directory list set by the main thread")
        if det:
            body = "# property C01\n# %s\n# 'pre' block: run by the main thread; one block per worker thread; replay: ./check C01 --replay <file>\n" % det.replace("\n", " ")[:1500]
            body += "pre\n" + "\n".join(pre) + "\n"
            for i, c in enumerate(tset): body += "thread %d\n" % i + "\n".join(c) + "\n"
            return body, det
    return None

def replay(path):
    import C16, sys, checklib
    if "\nthread 0\n" not in open(path).read(): return checklib.replay("C01", path, sys.modules[__name__])
    return C16.replay(path, pid="C01")
