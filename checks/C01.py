"""C01 — layered lookup yields the vendor < /run < /etc precedence for every tree."""
import vlib, trees, gens, laylib
from vlib import enc
from checklib import Scenario

RULE = ("random trees over 2 or 3 layers: main file {absent, regular, empty, link to /dev/null, dangling link, directory} per "
        "layer, drop-in names colliding across layers / without suffix / dot files / byte order != numeric order, contents with "
        "group-less and grouped keys tagged by origin; parameter shapes: readDirs with process-wide drop-in list, readConfig "
        "with ROOT_PREFIX+project+usr_subdir, with PARSING_DIRS/CONFIG_DIRS, drop-ins only (<project>.d), suffix with/without "
        "dot/absent/empty, both names NULL; observations: return code, full dump and every getter of the result, path; the "
        "model (proved equal to the layered specification when the first consulted file is not a masked drop-in) is the oracle; "
        "distinct by scenario")

def gen(rng, tier):
    n = 1500 if tier == "quick" else 60000
    out = []
    for _ in range(n):
        st = laylib.setup(rng, popts=rng.random() < 0.3, relative=rng.random() < 0.15, links=rng.random() < 0.3)
        cmds = st["cmds"] + st["pre"] + [st["read"], "dump 0", "getall 0", "path 0"]
        obs = [False] * (len(st["cmds"]) + len(st["pre"])) + [True, True, True, True]
        out.append(Scenario(cmds, obs, tags=("mode%d" % st["mode"],)))
    # both names NULL must be refused, not crash
    out.append(Scenario(["newopts 0 " + enc(b"ROOT_PREFIX=/r"), "readconfig 0 - - - x636f6e66 x3d x23", "dump 0"], tags=("nullnames",)))
    out.append(Scenario(["readdirs 0 x2f75 x2f65 - x636f6e66 x3d x23", "dump 0"], tags=("nullnames",)))
    return out

def nontrivial(s, mlines):
    return any(l.startswith("rc=0 obj=1") and l.count(",") >= 1 for l in mlines)

def matches_finding(f, s, det):
    return False
