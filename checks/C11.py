"""C11 — the set/get/list API behaves as an ordered map (histories)."""
import gens
from checklib import Scenario

RULE = ("histories of up to 60 set/get/get-with-default/list calls over 10 section spellings x 5 keys (+ NULL and empty), "
        "from econf_newKeyFile, econf_newIniFile, econf_newKeyFile_with_options, parsed files (with and without group-less keys, sections only, empty sections, re-opened sections) and merge results; a case is non-trivial "
        "when it contains a creation, an overwrite and a lookup miss; distinct by the model's output lines")

def gen(rng, tier):
    n = 2400 if tier == "quick" else 100000
    out = []
    for _ in range(n):
        cmds = gens.start_cmds(rng, 0)
        obs = [False] * len(cmds)
        for _ in range(rng.randrange(3, 60)):
            r = rng.random()
            if r < 0.5: cmds.append(gens.set_cmd(rng, 0))
            elif r < 0.8: cmds.append(gens.get_cmd(rng, 0))
            elif r < 0.85: cmds.append("getnull 0 %s %s %s" % (rng.choice(["string", "int", "int64", "uint", "uint64", "bool", "float", "double"]),
                                                                gens.enc(rng.choice(gens.SECTIONS)), gens.enc(rng.choice(gens.KEYS))))      # NULL result pointer
            elif r < 0.93: cmds.append("keys 0 " + gens.enc(rng.choice(gens.SECTIONS)))
            else: cmds.append("groups 0")
            obs.append(True)
        cmds.append("dump 0"); obs.append(False)
        out.append(Scenario(cmds, obs, tags=("history",)))
    # long histories: hundreds of keys in dozens of sections (array growth far beyond the pre-allocated slots)
    for count in ((300, 1200) if tier == "quick" else (300, 1200, 5000)):
        cmds = gens.start_cmds(rng, 0); obs = [False] * len(cmds)
        for i in range(count):
            g = rng.choice([None, b"S%d" % (i % 70), b"S%d" % rng.randrange(70)])
            cmds.append("set 0 string %s %s %s 0" % (gens.enc(g), gens.enc(b"key%d" % rng.randrange(count // 2)), gens.enc(b"v%d" % i))); obs.append(True)
            if i % 9 == 0: cmds.append("get 0 string %s %s -" % (gens.enc(g), gens.enc(b"key%d" % rng.randrange(count // 2)))); obs.append(True)
        cmds += ["groups 0", "keys 0 -", "keys 0 " + gens.enc(b"S3"), "dump 0"]; obs += [True, True, True, False]
        out.append(Scenario(cmds, obs, tags=("long-history",)))
    # calls without object
    out.append(Scenario(["set 5 string - x6b x76 0", "get 5 int - x6b -", "groups 5", "keys 5 -"], tags=("noobject",)))
    return out

def nontrivial(s, mlines):
    return any(l.startswith("rc=5") for l in mlines) and sum(1 for c in s.cmds if c.startswith("set")) >= 2
