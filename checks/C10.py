"""C10 — queries never change the configuration."""
import gens, grammar, gramlib, laylib
from checklib import Scenario

RULE = ("objects built by random setter histories or parsed from files with mixed-case / non-boolean / absent values, multi-line comments before keys and after values, random conventional files, or results of layered reads; "
        "dump and written bytes before and after a random sequence of read-only calls (every typed, defaulted and "
        "extended getter incl. failing ones, listings, path, tags, write, use as merge input); distinct by model output")

FILES = [b"k1=Yes Please\nk2=TRUE\n[A]\nk3\nk4=\n[B]\nk1 = \"Mixed Case\" # c\n", b"a=No\nb=YeS\nc=_None_\n", b"[X]\nv=1\n cont\n",
         b"# one\n# two\nk1=v # t1\n# t2\n# t3\n\n[A]\n# h1\n# h2\n# h3\nk2=true\nk3=\"q\n r\" # c1\n# c2\n",
         b"; a\n;\n; c\nk1 = 1 ; x\n; y\n[B]\n; only\nk4 = No\n"]

def oracle(s, ilines):
    # the observation itself: every dump / write of an object is identical before and after
    seen = {}
    for c, l in zip(s.cmds, ilines):
        t = c.split()
        if t[0] in ("dump", "write"):
            key = (t[0], t[1])
            if key in seen and seen[key] != l:
                return "object %s: `%s` changed after read-only calls: %s -> %s" % (t[1], t[0], seen[key][:200], l[:200])
            seen.setdefault(key, l)
    return None

def gen(rng, tier):
    n = 1800 if tier == "quick" else 60000
    out = []
    for _ in range(n):
        r0 = rng.random()
        if r0 < 0.12:
            # the object under observation is the result of a layered read (such objects carry internal flags of their own)
            st = laylib.setup(rng, mode=0)
            cmds = [c for c in st["cmds"]] + [st["read"]]
        elif r0 < 0.35:
            cmds = [gens.parse_cmd(0, b"/d/q.conf", rng.choice(FILES), b"=", rng.choice([b"#", b"#;"]))]
        elif r0 < 0.5:
            dl, cm = rng.choice([b"=", b" ", b":="]), rng.choice([b"#", b";"])
            data = gramlib.expected_of([(dl, cm, grammar.gen_file(rng, dl, cm, maxlines=12))])[0]["bytes"]
            cmds = [gens.parse_cmd(0, b"/d/q.conf", data, dl, cm)]
        else:
            cmds = [gens.start_cmd(rng, 0)] + [gens.set_cmd(rng, 0) for _ in range(rng.randrange(1, 14))]
        cmds += ["newini 1", gens.set_cmd(rng, 1), "dump 0", "write 0", "dump 1"]
        for _ in range(rng.randrange(2, 25)):
            r = rng.random()
            if r < 0.55: cmds.append(gens.get_cmd(rng, 0, kd=rng.choice(["bool", "bool", "string", "int", "uint64", "double", "float", "int64", "uint"])))
            elif r < 0.65: cmds.append("ext 0 %s %s" % (gens.enc(rng.choice(gens.SECTIONS)), gens.enc(rng.choice(gens.KEYS))))
            elif r < 0.72: cmds.append("getall 0")
            elif r < 0.78: cmds.append("keys 0 " + gens.enc(rng.choice(gens.SECTIONS)))
            elif r < 0.82: cmds.append("groups 0")
            elif r < 0.86: cmds.append("path 0")
            elif r < 0.9: cmds.append("tags 0")
            elif r < 0.95: cmds.append("merge 2 0 1" if rng.random() < 0.5 else "merge 2 1 0")
            else: cmds.append("write 0")
        cmds += ["dump 0", "write 0", "dump 1"]
        out.append(Scenario(cmds, tags=("queries",)))
    return out

def nontrivial(s, mlines):
    return any(c.startswith("get 0 bool") for c in s.cmds)
