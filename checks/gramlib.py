"""gramlib.py — conventional files for the grammar-based checks (C02, C05, C13,
C17, C07): the AST is rendered and given its meaning by the Coq definitions
(model driver, `grammar` command); the bytes then go through the model parser
and the implementation."""
import re
import vlib, grammar, gens
from checklib import Scenario

def expected_of(asts):
    """asts: list of (dl, cm, lines).  Returns list of dict(bytes, exp_dump, exp_getall, wf, agree)"""
    sc = [["grammar 0 %s %s %s %s" % (vlib.enc(b"/g/f.conf"), vlib.enc(dl), vlib.enc(cm), grammar.enc_ast(ls)),
           "dump 0", "getall 0"] for dl, cm, ls in asts]
    outs = vlib.run_model(sc)
    res = []
    for o in outs:
        m = re.match(r"wf=(\d) agree=(\d) lines=(\d+) bytes=(\S+)", o[0])
        res.append({"wf": m.group(1) == "1", "agree": m.group(2) == "1", "bytes": vlib.dec(m.group(4)),
                    "dump": o[1], "getall": o[2]})
    return res

def listing_of(getall_line):
    """the listing observation of a getall line: sections, keys, string values (NULL = empty)"""
    items = getall_line[4:].split(";")
    out = []
    for it in items:
        if it.startswith("rc=0 l=") or it.startswith("rc=0 v=") or it.startswith("rc=5") or it.startswith("rc=4"):
            out.append(it.replace("v=-", "v=x"))
    return out
