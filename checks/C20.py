"""C20 — every allocation is released exactly once on every path, failures included."""
import vlib, trees, gens, laylib
from vlib import enc
from checklib import Scenario

RULE = ("(a) set/get/list histories of C11 incl. refused calls, growth, merges, writes, extended getters; (b) layered reads of "
        "C01/C06/C13/C16 with a failure injected at each consulted file in turn: callback rejection, foreign owner, malformed "
        "line, dangling link, plus unknown options and missing files; after every scenario all handles the caller holds are "
        "released with the documented free functions and LeakSanitizer must find nothing left; AddressSanitizer reports double "
        "frees and use after free; every scenario also runs in a clang MemorySanitizer build of the driver (reads of uninitialised memory); the out-pointer state (NULL / object) is compared with the model, whose object ledger is "
        "proved balanced (theorems); the free functions are called with NULL; distinct by scenario")

EXTRA_FLAVOURS = ["msan"]     # clang MemorySanitizer build of the same driver: reads of uninitialised memory

def gen(rng, tier):
    n = 900 if tier == "quick" else 40000
    out = []
    for _ in range(n):
        cmds = [gens.start_cmd(rng, 0)]
        for _ in range(rng.randrange(3, 40)):
            r = rng.random()
            if r < 0.5: cmds.append(gens.set_cmd(rng, 0))
            elif r < 0.7: cmds.append(gens.get_cmd(rng, 0))
            elif r < 0.8: cmds.append("ext 0 %s %s" % (enc(rng.choice(gens.SECTIONS)), enc(rng.choice(gens.KEYS))))
            elif r < 0.9: cmds.append("getall 0")
            else: cmds += ["newini 1", gens.set_cmd(rng, 1), "merge 2 0 1", "write 2"]
        cmds.append("freenull")
        if rng.random() < 0.1:
            # NULL arguments to econf_readFile: refused, the out-pointer stays NULL
            cmds += ["readfile 9 - x3d x23", "readfile 9 %s - x23" % enc(b"/d/start.conf"), "readfile 9 %s x3d -" % enc(b"/d/start.conf"), "dump 9"]
        out.append(Scenario(cmds, tags=("history",)))
    for _ in range(n * 2):
        st = laylib.setup(rng, mode=rng.choice([0, 1, 2, 3]), owners=True, links=True, popts=True, relative=rng.random() < 0.2)
        tree = st["cmds"]
        files = laylib.files_of(tree)
        inj = rng.choice(["callback", "owner", "badline", "dangling", "none", "option"])
        pre = list(st["pre"])
        extra = []
        if inj == "callback" and files:
            extra = ["cb reject " + ",".join(enc(p.replace(b"/r/", b"/r//", 1) if st["mode"] in (1, 3) else p) for p in rng.sample(files, 1))]
            if rng.random() < 0.3: extra = ["cb reject " + ",".join(enc(p) for p in files)]
        elif inj == "owner":
            extra = ["sec %s %s %s" % (rng.choice(["0", "1234"]), rng.choice(["-", "4321"]), rng.choice(["0", "1"]))]
        elif inj == "badline":
            tree = laylib.inject_bad_line(rng, tree)
        elif inj == "dangling" and files:
            p = rng.choice(files)
            tree = tree + [trees.fslink(p, b"/nowhere/gone")]
        elif inj == "option":
            pre = ["newopts 0 " + enc(rng.choice([b"JOIN_SAME_ENTRIES=1;BAD=1", b"ROOT_PREFIX=/r;ROOT_PREFIX=/r;PARSING_DIRS=/a;PARSING_DIRS=/b:/c;NOPE", b"PYTHON_STYLE=2"]))]
        if inj == "option":
            # an option string that is refused: the object is left to the caller, who frees it
            out.append(Scenario(pre + ["opts 0", "dump 0"], tags=(inj,)))
            continue
        if rng.random() < 0.2: extra = extra + ["perms"]          # econf_requirePermissions with masks every file of the tree satisfies
        cmds = tree + extra + pre + [st["read"], "dump 0"]
        if st["hist"]: cmds.append(st["hist"])
        if files: cmds.append("readfile 3 %s x3d x23" % enc(rng.choice(files)))
        if rng.random() < 0.3:
            # a file named without any directory part (relative to the working directory)
            cmds += [trees.fsfile(b"/plain.conf", b"k=1\n[s]\nj=2\n"), "readfile 4 %s x3d x23" % enc(b"plain.conf"), "dump 4"]
        if rng.random() < 0.1:
            # econf_readConfig creating the handle itself, and with a handle that names no directories: the default
            # directories /usr/lib|/run|/etc + project are looked at (a project that exists nowhere): file-not-found,
            # the created handle is released again, a given one stays with the caller
            pr = enc(b"verif-absent-%d" % rng.randrange(10**6))
            cmds += ["readconfig 8 %s %s %s %s x3d x23" % (pr, enc(b"/usr/lib"), enc(rng.choice([b"foo", b""])), enc(rng.choice([b"conf", b""]))), "dump 8",
                     rng.choice(["newkf 9 61 35", "newini 9"]), "opts 9", "readconfig 9 %s - %s x636f6e66 x3d x23" % (pr, enc(b"foo")), "dump 9"]
        if rng.random() < 0.35:
            # the caller goes on with what a layered read handed over: it is an input of the caller's own merges (in both
            # roles), is queried again afterwards, and every handle is released exactly once at the end; the members of
            # the history are merged by the caller as well
            cmds += ["newini 5", gens.set_cmd(rng, 5), "merge 6 0 5", "merge 7 5 0", "getall 0", "dump 6", "merge 6 6 0", "dump 0"]
            if st["hist"]: cmds.append("histmerge" + st["hist"][len("history"):])
        obs = [False] * (len(tree) + len(extra) + len(pre)) + [True] * (len(cmds) - len(tree) - len(extra) - len(pre))
        out.append(Scenario(cmds, obs, tags=(inj,)))
    # econf_readConfig WITHOUT a root prefix: the vendor directory is <usr_subdir>[/<project>] as given (here below the
    # scratch root), /run and /etc are the real ones (where a "verif-absent-..." name exists nowhere); with and without a
    # handle, with and without a project
    for _ in range(30 if tier == "quick" else 600):
        nm = b"verif-absent-%d" % rng.randrange(10**6)
        withproj = rng.random() < 0.5
        vdir = b"/vendor/" + nm if withproj else b"/vendor"
        cname = b"app" if withproj else nm
        cmds = [trees.fsdir(vdir), trees.fsfile(vdir + b"/" + cname + b".conf", b"k=vendor\n[s]\nj=1\n"), trees.fsdir(vdir + b"/" + cname + b".conf.d"),
                trees.fsfile(vdir + b"/" + cname + b".conf.d/10-x.conf", rng.choice([b"k=dropin\n", b"[broken\n", b"k=dropin\n[s]\nj=2\n"]))]
        k = len(cmds)
        a = "%s %s %s x636f6e66 x3d x23" % (enc(nm) if withproj else "-", enc(b"@/vendor"), enc(cname))
        cmds += ["readconfig 8 " + a, "dump 8", rng.choice(["newkf 9 61 35", "newini 9", "newempty 9"]), "readconfig 9 " + a, "dump 9", "getall 9"]
        out.append(Scenario(cmds, [False] * k + [True] * 6, tags=("no-root-prefix",)))
    return out

def nontrivial(s, mlines):
    return any(l.startswith("rc=") and not l.startswith("rc=0") for l in mlines)
