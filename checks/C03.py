"""C03 — merge is a complete, ordered, non-destructive override."""
import itertools
import gens, trees
from gens import enc
from checklib import Scenario

RULE = ("pairs of objects built by setter sequences (any interleaving of group-less/A/B/C keys, re-opened sections, "
        "group-less after grouped) or parsed from files (bare keys, NULL values, re-opened sections, duplicate keys) or handed back by a layered read, and the "
        "three kinds of empty object, merged in both roles; quick: random pairs, thorough: all pairs of entry lists up to "
        "length 3+3 over {group-less,A,B}x{x,y}; observations: every listing and getter of the result, dumps of both inputs "
        "before and after; histories of eight merges that share objects (one override onto two bases and onto the first again, one base under two overrides, a merge result as input of the next), every result compared with the model; non-trivial when both sides are non-empty and share a group; distinct by model output")

GROUPS = [None, b"A", b"B", b"C"]
KEYS = [b"x", b"y", b"z", b"az", b"bY"]       # az / bY: equal djb2 hashes

def build_by_setters(rng, o, entries, tagv):
    cmds = [rng.choice(["newini %d" % o, "newkf %d 58 59" % o, "newempty %d" % o])]
    for n, (g, k) in enumerate(entries):
        cmds.append("set %d string %s %s %s 0" % (o, enc(g), enc(k), enc(b"" if rng.random() < 0.12 else tagv + b"%d" % n)))
    return cmds

def build_by_file(rng, o, entries, tagv):
    lines, cur = [], None
    for n, (g, k) in enumerate(entries):
        if g != cur:
            if g is None: continue          # a file cannot return to group-less
            lines.append(b"[" + g + b"]"); cur = g
        r = rng.random()
        lines.append(k if r < 0.1 else k + b"=" if r < 0.2 else k + b'=""' if r < 0.27 else k + b"= " if r < 0.32 else k + b"=" + tagv + b"%d" % n)       # no value / NULL / the empty string (two spellings) / text
    return [gens.parse_cmd(o, b"/m/f%d.conf" % o, b"\n".join(lines) + (b"\n" if lines else b""), b"=", b"#")]

def build_by_layered_read(rng, o, entries, tagv):
    """the object is what econf_readDirs hands back for a main file plus one drop-in (such results carry internal
    flags of their own and are legal inputs of econf_mergeFiles like any other object)"""
    half = len(entries) // 2
    def text(es, t):
        lines, cur = [], None
        for n, (g, k) in enumerate(es):
            if g != cur:
                if g is None: continue
                lines.append(b"[" + g + b"]"); cur = g
            lines.append(k + b"=" + t + b"%d" % n)
        return b"\n".join(lines) + (b"\n" if lines else b"")
    d = b"/lay%d" % o
    return [trees.fsdir(d), trees.fsdir(d + b"/m.conf.d"), trees.fsfile(d + b"/m.conf", text(entries[:half], tagv + b"m")),
            trees.fsfile(d + b"/m.conf.d/1.conf", text(entries[half:], tagv + b"d")),
            "readdirs %d %s %s %s x636f6e66 x3d x23" % (o, enc(d), enc(b"/nowhere%d" % o), enc(b"m"))]

def pair_scenario(rng, eb, eo):
    def mk(o, es, t):
        r = rng.random()
        return (build_by_setters if r < 0.5 else build_by_file if r < 0.85 else build_by_layered_read)(rng, o, es, t)
    cmds = mk(0, eb, b"b") + mk(1, eo, b"o")
    obs = [False] * len(cmds)
    body = ["dump 0", "dump 1", "merge 2 0 1", "getall 2", "dump 2", "dump 0", "dump 1", "write 2"]
    bobs = [False, False, True, True, False, False, False, True]
    if rng.random() < 0.06:
        body += ["merge 3 0 0", "getall 3", "dump 0"]; bobs += [True, True, False]      # the same object in both roles
    return Scenario(cmds + body, obs + bobs, tags=("pair",))

def sequence_scenario(rng):
    """several merges in one history that share an object: the same override merged onto two different bases (and onto
    the first again), the same base under two overrides, and a merge result as the input of the next merge; a merge's
    result depends on its two arguments only, not on the merges before it"""
    def mk(o, es, t):
        r = rng.random()
        return (build_by_setters if r < 0.5 else build_by_file if r < 0.85 else build_by_layered_read)(rng, o, es, t)
    # bases and overrides with few sections, so that the same section is often present in one base and absent in the other
    def few(rng):
        secs = rng.sample(GROUPS, min(len(GROUPS), rng.randrange(1, 3)))
        es = []
        for g in (secs if rng.random() < 0.5 else [None] + secs):
            for _ in range(rng.randrange(1, 3)): es.append((g, rng.choice(KEYS)))
        return es
    cmds = mk(0, few(rng), b"b") + mk(1, few(rng), b"c") + mk(2, few(rng), b"o") + mk(3, few(rng), b"p")
    obs = [False] * len(cmds)
    body = []
    for a, b, r in rng.sample([(0, 2, 5), (1, 2, 6), (0, 2, 7), (0, 3, 8), (1, 3, 9)], 5) + [(5, 3, 10), (2, 6, 11), (1, 2, 12)]:
        body += ["merge %d %d %d" % (r, a, b), "getall %d" % r]
    return Scenario(cmds + body, obs + [True] * len(body), tags=("sequence",))

def oracle(s, ilines):
    # inputs unchanged: dumps of object 0 and 1 before and after the merge
    d = {}
    for c, l in zip(s.cmds, ilines):
        if c in ("dump 0", "dump 1"):
            if c in d and d[c] != l: return "merge changed an input: %s: %s -> %s" % (c, d[c][:200], l[:200])
            d.setdefault(c, l)
    return None

def rand_entries(rng):
    n = rng.choice([0, 0, 1, 2, 3, 4, 5, 6, 9, 9, 17, 33])          # also beyond the 8 pre-allocated entries and their doublings
    es = []
    g = rng.choice(GROUPS)
    for _ in range(n):
        if rng.random() < 0.45: g = rng.choice(GROUPS)
        es.append((g, rng.choice(KEYS)))
    return es

def gen(rng, tier):
    out = []
    if tier == "thorough":
        uni = [(g, k) for g in (None, b"A", b"B") for k in (b"x", b"y")]
        lists = [()] + [l for n in (1, 2, 3) for l in itertools.product(uni, repeat=n)]
        for eb in lists:
            for eo in lists:
                out.append(pair_scenario(rng, list(eb), list(eo)))
        n = 20000
    else:
        n = 600
    for _ in range(n):
        out.append(pair_scenario(rng, rand_entries(rng), rand_entries(rng)))
    for _ in range(n // 3):
        out.append(sequence_scenario(rng))
    # merge with missing arguments
    out.append(Scenario(["newini 0", "merge 2 0 9", "merge 2 9 0"], tags=("null-arg",)))
    return out

def nontrivial(s, mlines):
    return sum(1 for c in s.cmds if c.startswith("set ") or c.startswith("parse ")) >= 3
