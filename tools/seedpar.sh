#!/bin/bash
# seedpar.sh <seed id> <check ids...> : run quick checks against a seeded change without touching /repo:
# a scratch worktree of /repo gets seeded/<id>/patch.diff (or, if <seed id> names a file, that patch), a private copy of /verif runs the checks with
# VERIF_REPO pointing at it; both are removed afterwards.  Several of these can run side by side.
s=$1; shift
pf=/verif/seeded/$s/patch.diff; [ -f "$s" ] && { pf=$(readlink -f "$s"); s=$(basename "$s" .diff); }
wt=$(mktemp -d /tmp/wt-$s-XXXX); vc=$(mktemp -d /tmp/vc-$s-XXXX); rmdir $wt
git -C /repo worktree add -q --detach $wt HEAD || exit 2
git -C $wt apply $pf || { echo "$s: patch does not apply"; git -C /repo worktree remove --force $wt; exit 2; }
rsync -a --exclude .git /verif/ $vc/
cd $vc
for id in "$@"; do
  VERIF_REPO=$wt timeout 1800 ./check $id --tier quick > $vc/res-$id.log 2>&1
  echo "$s -> $id: exit=$? $(grep '^VIOLATION' $vc/res-$id.log | head -1 | sed "s#$vc#/verif#")"
done
cd /; git -C /repo worktree remove --force $wt; rm -rf $vc
