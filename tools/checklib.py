"""checklib.py — the flow every property check goes through:
proof obligations -> implementation build -> scenarios through model and
implementation -> verdict, replay, evidence."""
import glob, json, os, random, re, sys, time, importlib
import vlib
from vlib import VERIF, COQ, log

ALLOWED_AXIOMS = {
    # axioms the standard library itself declares; listed per theorem in the evidence
    "ClassicalDedekindReals.sig_forall_dec", "ClassicalDedekindReals.sig_not_dec",
    "FunctionalExtensionality.functional_extensionality_dep",
    "Classical_Prop.classic", "Eqdep.Eq_rect_eq.eq_rect_eq", "JMeq.JMeq_eq",
    "ProofIrrelevance.proof_irrelevance",
}
FORBIDDEN = re.compile(r"\b(Admitted|admit|Axiom|Parameter|Conjecture|Admit Obligations|Unset Guard Checking|"
                       r"bypass_check|type-in-type|impredicative-set|Unset Universe Checking|Unset Positivity Checking)\b")

class Scenario:
    """cmds: list of command lines; obs: parallel list of bools — True when the
    command's result is an observation the property speaks about (a difference
    there is a failing input), False when it only checks model fidelity."""
    def __init__(self, cmds, obs=None, tags=(), note=""):
        self.cmds = list(cmds)
        self.obs = list(obs) if obs is not None else [True] * len(self.cmds)
        self.tags = tuple(tags)
        self.note = note
    def text(self):
        return "\n".join(self.cmds) + "\n"

# ------------------------------------------------------------------ proofs
def coqchk_status(pid):
    """thorough tier: the independent checker re-checks the compiled property file and everything it depends on"""
    with vlib.Lock("coq"):
        rc, out = vlib.sh(["coqchk", "-o", "-silent", "-Q", ".", "Econf", "Econf.Properties_%s" % pid], cwd=COQ, timeout=3600)
    summ = out[out.find("CONTEXT SUMMARY"):] if "CONTEXT SUMMARY" in out else out[-2000:]
    sec = {}
    for m in re.finditer(r"\* ([^\n:]+):(.*?)(?=\n\* |\Z)", summ, re.S):
        body = m.group(2).strip()
        sec[m.group(1).strip()] = [] if body == "<none>" else [l.strip() for l in body.split("\n") if l.strip()]
    bad = [k for k in ("Constants/Inductives relying on type-in-type", "Constants/Inductives relying on unsafe (co)fixpoints",
                       "Inductives whose positivity is assumed") if sec.get(k)]
    return {"exit": rc, "axioms": sec.get("Axioms", []), "unsafe": bad, "ok": rc == 0 and not bad, "tail": out[-600:] if rc else ""}

def proof_status(pid, tier="quick"):
    """build the development, re-check Properties_<pid>.v and read its assumptions.
    Returns dict(obligations, discharged, theorems, axioms, ok, log)."""
    pf = os.path.join(COQ, "Properties_%s.v" % pid)
    src = open(pf).read()
    theorems = re.findall(r"^Theorem\s+(\w+)", src, re.M)
    res = {"obligations": len(theorems), "discharged": 0, "theorems": theorems, "axioms": {}, "ok": False, "log": ""}
    # no escape hatches anywhere in the development
    for f in glob.glob(os.path.join(COQ, "*.v")):
        body = re.sub(r"\(\*.*?\*\)", "", open(f).read(), flags=re.S)
        m = FORBIDDEN.search(body)
        if m:
            res["log"] = "forbidden construct %r in %s" % (m.group(0), os.path.basename(f))
            return res
    ok, out = vlib.coq_build(targets=["Properties_%s.vo" % pid], keep_going=False)
    if not ok:
        res["log"] = out[-3000:]
        m = re.search(r'File "\./(\w+\.v)", line (\d+)', out)
        res["broken_at"] = "%s:%s" % (m.group(1), m.group(2)) if m else "unknown"
        return res
    with vlib.Lock("coq"):
        rc, out = vlib.sh(["coqc", "-Q", ".", "Econf", "Properties_%s.v" % pid], cwd=COQ, timeout=1800)
    if rc != 0:
        res["log"] = out[-3000:]; res["broken_at"] = "Properties_%s.v" % pid
        return res
    # Print Assumptions blocks appear in order of the theorems
    blocks = re.split(r"(?=Closed under the global context|Axioms:)", out)
    blocks = [b for b in blocks if b.startswith("Closed") or b.startswith("Axioms:")]
    good = 0
    for name, b in zip(theorems, blocks):
        if b.startswith("Closed"):
            res["axioms"][name] = []
            good += 1
        else:
            names = [l.split()[0] for l in b.split("\n")[1:] if l and not l[0].isspace() and re.match(r"[A-Za-z_][\w.]*", l)]
            res["axioms"][name] = names
            if names and all(n in ALLOWED_AXIOMS for n in names):
                good += 1
    res["discharged"] = good if len(blocks) >= len(theorems) else min(good, len(blocks))
    res["ok"] = res["discharged"] == res["obligations"] and res["obligations"] > 0
    if not res["ok"]:
        res["log"] = "assumptions outside the allow-list or missing Print Assumptions: %r" % res["axioms"]
        res["broken_at"] = "Properties_%s.v" % pid
    if res["ok"] and tier == "thorough":
        ck = coqchk_status(pid)
        res["coqchk"] = ck
        if not ck["ok"]:
            res["ok"] = False; res["log"] = "coqchk: exit %s %s %s" % (ck["exit"], ck["unsafe"], ck["tail"]); res["broken_at"] = "coqchk Properties_%s" % pid
    return res

TRUSTED_BASE = [
    "Coq 8.16.1 kernel (coqc; vm_compute used for finite sweeps and examples; no native_compute)",
    "no axioms declared by the development; per-theorem Print Assumptions output is in coverage.axioms",
    "extraction with ExtrOcamlBasic only (bool, option, unit, list, prod, sumbool, sumor mapped to OCaml types; "
    "andb orb negb fst snd inlined) plus one directive of our own, Extract Constant List.rev => \"List.rev\" "
    "(Coq's rev is quadratic); OCaml 4.13.1; ocaml/driver.ml (scenario parsing and printing)",
    "thorough tier: coqchk -o re-checks the compiled property file and its dependencies (coverage.coqchk)",
    "hand-written model coq/*Model.v, Scenario.v tied to /repo by differential execution "
    "(harness/econf_driver.c built with gcc ASan+UBSan — TSan for C18, clang MemorySanitizer for C04/C20 — from the working tree, tools/vlib.py comparator)",
    "tools/gen_facts.py (regex translator of tables and inventories into coq/Generated_*.v)",
    "glibc: getline, isspace/tolower in the C locale, strtol family, printf, strtod (oracle tools/floatoracle.py), "
    "file system calls; gcc; allocation never fails",
]

# ------------------------------------------------------------------ running
def run_all(scens, flavour="asan", env_extra=None, timeout_per=20.0):
    cmdlists = [s.cmds for s in scens]
    m = vlib.run_model(cmdlists)
    i, leaks = vlib.run_impl(cmdlists, flavour=flavour, env_extra=env_extra, timeout_per=timeout_per)
    return m, i, leaks

def judge(s, mlines, ilines, verdict, oracle=None):
    """returns (kind, detail): kind in None | 'violation' | 'fidelity'"""
    if verdict:
        return "violation", "sanitizer/crash: " + verdict.split("|")[0]
    if "leak" in ilines:
        return "violation", "after the scenario, all handles released: memory still allocated (LeakSanitizer) or a file descriptor still open"
    if oracle:
        o = oracle(s, ilines)
        if o:
            return "violation", "oracle: " + o
    il = [x for x in ilines if x != "leak"]
    first_fidelity = None
    for k in range(max(len(mlines), len(il))):
        a = mlines[k] if k < len(mlines) else "<missing>"
        b = il[k] if k < len(il) else "<missing>"
        if a.startswith("loc ") and b.startswith("loc ") and k > 0:
            # the error location is only meaningful after a parse error; otherwise it is whatever an
            # earlier read (possibly of an earlier scenario in the same process) left behind
            if not re.match(r"rc=(9|10|11|12) ", il[k - 1] + " "):
                continue
        if not vlib.line_equal(a, b):
            is_obs = s.obs[k] if k < len(s.obs) else True
            det = "command %d `%s`: model %s | implementation %s" % (k, s.cmds[k][:120] if k < len(s.cmds) else "?", a[:300], b[:300])
            if is_obs: return "violation", det
            # a difference on a fidelity-only command: keep looking, a later observation of the property may differ too
            if first_fidelity is None: first_fidelity = det
    if first_fidelity: return "fidelity", first_fidelity
    return None, ""

def minimise(s, still_fails, budget=60):
    """greedy line removal (never the first command) while the failure persists"""
    cmds, obs = list(s.cmds), list(s.obs)
    tries = 0
    changed = True
    while changed and tries < budget:
        changed = False
        for k in range(len(cmds) - 1, 0, -1):
            if tries >= budget: break
            c2, o2 = cmds[:k] + cmds[k+1:], obs[:k] + obs[k+1:]
            tries += 1
            if still_fails(Scenario(c2, o2, s.tags)):
                cmds, obs = c2, o2; changed = True
    return Scenario(cmds, obs, s.tags, s.note)

def history_fails(pre, s, flavour, oracle):
    """does scenario s fail when it runs after the scenarios `pre` in ONE driver process?"""
    scs = list(pre) + [s]
    m = vlib.run_model([x.cmds for x in scs])
    exe, err = vlib.impl_driver(flavour)
    res = [r for r in vlib.run_impl_chunk(exe, [x.cmds for x in scs]) if r[0] != "__LEAK__"]
    if len(res) < len(scs): return False
    k, _d = judge(s, m[-1], res[-1][0], res[-1][1], oracle)
    return k == "violation"

def find_history(scens, s, flavour, oracle):
    """s failed inside a run but not alone: the shortest run of its predecessors in the same driver process
    after which it fails again (state kept by the library or the C runtime between calls: errno, statics)"""
    k = scens.index(s); n = vlib.nchunks(len(scens))
    preds = [scens[j] for j in range(k % n, k, n)]
    for w in (1, 2, 4, 8, 16, 32, len(preds)):
        if w > len(preds): w = len(preds)
        if w and history_fails(preds[-w:], s, flavour, oracle): return preds[-w:]
        if w == len(preds): break
    return None

def load_corpus(pid):
    out = []
    for f in sorted(glob.glob(os.path.join(VERIF, "corpus", pid, "*.case"))):
        cmds, obs = [], []
        for ln in open(f).read().split("\n"):
            if not ln or ln.startswith("#"): continue
            if ln.startswith("~"): cmds.append(ln[1:]); obs.append(False)
            else: cmds.append(ln); obs.append(True)
        out.append(Scenario(cmds, obs, tags=("corpus:" + os.path.basename(f),)))
    return out

def replay_text(pid, s, detail, extra=""):
    lines = ["# property %s" % pid, "# " + detail.replace("\n", " ")[:1500]]
    if extra: lines += ["# " + x for x in extra.split("\n")]
    if getattr(s, "note", ""): lines.append("# " + s.note)
    lines.append("# replay: ./check %s --replay <this file>   (commands prefixed with ~ are fidelity-only)" % pid)
    for h in (getattr(s, "history", None) or []):
        # scenarios that ran before in the same process and are needed for the failure; `reset` separates scenarios
        lines += ["~" + c for c in h.cmds] + ["reset"]
    for c, o in zip(s.cmds, s.obs):
        lines.append(c if o else "~" + c)
    return "\n".join(lines) + "\n"

# ------------------------------------------------------------------ the generic check
def generic_check(pid, tier, seed, mod):
    """mod provides: gen(rng, tier) -> [Scenario]; optional oracle(s, ilines),
    nontrivial(s, mlines) -> bool, rule (str), level_text."""
    t0 = time.time()
    rng = random.Random(seed)
    kf = [f for f in vlib.known_findings() if f["property"] == pid and f.get("status") == "known"]
    cov = {"checker_cmd": "make -C coq Properties_%s.vo && coqc -Q coq Econf coq/Properties_%s.v" % (pid, pid),
           "trusted_base": TRUSTED_BASE}
    viol = []          # (scenario, detail)
    notes = []

    ps = proof_status(pid, tier)
    cov.update(obligations=ps["obligations"], discharged=ps["discharged"], theorems=ps["theorems"], axioms=ps["axioms"])
    if "coqchk" in ps: cov["coqchk"] = {"exit": ps["coqchk"]["exit"], "axioms_of_all_loaded_libraries": ps["coqchk"]["axioms"], "unsafe": ps["coqchk"]["unsafe"]}
    proof_broken = not ps["ok"]
    if proof_broken:
        notes.append("proof obligation no longer checks: %s: %s" % (ps.get("broken_at"), ps["log"][-800:]))

    try:
        scens = load_corpus(pid) + mod.gen(rng, tier)
        oracle = getattr(mod, "oracle", None)
        flavour = getattr(mod, "FLAVOUR", "asan")
        m, i, leaks = run_all(scens, flavour=flavour)
    except vlib.BuildError as be:
        p = vlib.write_replay(pid, "build-failure.txt",
                              "# property %s\n# the implementation driver no longer builds from /repo's working tree;\n"
                              "# the correspondence model <-> implementation cannot be checked\n%s\n" % (pid, str(be)[-3000:]))
        cov.update(evaluations=0, distinct_nontrivial=0, samples=[], rule=getattr(mod, "RULE", ""))
        vlib.write_evidence(pid, tier, seed, cov, time.time() - t0, 1)
        print("VIOLATION property=%s replay=%s no-failing-input-found" % (pid, p))
        return 1

    # further builds of the same driver (e.g. MemorySanitizer): only their reports count, the results were compared above
    extra_flavour = {}
    for fl in getattr(mod, "EXTRA_FLAVOURS", []):
        try:
            i2, _l2 = vlib.run_impl([s.cmds for s in scens], flavour=fl)
        except vlib.BuildError as be:
            notes.append("the %s build of the driver failed: %s" % (fl, str(be)[-400:])); continue
        for s, (il2, v2) in zip(scens, i2):
            if v2 and not v2.startswith("missing"):
                viol.append((s, "%s build: %s" % (fl, v2.split("|")[0]))); extra_flavour[id(s)] = fl
        cov.setdefault("extra_flavours", []).append(fl)

    fidelity = []
    distinct = set()
    tagcount = {}
    for s, ml, (il, v) in zip(scens, m, i):
        kind, det = judge(s, ml, il, v, oracle)
        if kind == "violation": viol.append((s, det))
        elif kind == "fidelity": fidelity.append((s, det))
        nt = getattr(mod, "nontrivial", None)
        if nt is None or nt(s, ml):
            distinct.add(hash(tuple(s.cmds)))
        for t in s.tags: tagcount[t.split(":")[0] if t.startswith("corpus") else t] = tagcount.get(t.split(":")[0] if t.startswith("corpus") else t, 0) + 1
    if leaks and not viol:
        notes.append("LeakSanitizer reported at process exit: " + leaks[0][-600:])

    cov.update(evaluations=len(scens), distinct_nontrivial=len(distinct),
               traces_validated_against_impl=len(scens) - len(viol) - len(fidelity),
               rule=getattr(mod, "RULE", ""), distribution=tagcount,
               samples=[s.cmds[:6] for s in scens[len(load_corpus(pid)):][:3]] or [scens[0].cmds[:6]] if scens else [])

    # a check may bring a further pass of its own (e.g. the same scenarios from several threads at once)
    xc = getattr(mod, "extra_check", None)
    extra_viol = None
    if xc and not viol:
        try:
            extra_viol = xc(scens, random.Random(seed + 1), tier, cov)      # None or (replay file body, one-line detail)
        except vlib.BuildError as be:
            notes.append("extra pass could not be built: " + str(be)[-300:])

    # known findings: replayed, named, not counted
    rc = 0
    out_lines = []
    unknown = []
    for s, det in viol:
        hit = None
        for f in kf:
            if getattr(mod, "matches_finding", lambda f, s, det: False)(f, s, det):
                hit = f; break
        if hit: hit["_seen"] = True
        else: unknown.append((s, det))
    for f in kf:
        # replay the recorded input: the finding is named as long as it still fails
        if "replay" in f:
            try:
                sc = Scenario(f["replay"])
                _m, _i, _l = run_all([sc], flavour=flavour)
                line = _i[0][0][f["persists_if"]["cmd_index"]]
                if f["persists_if"]["contains"] not in line:
                    notes.append("known finding %s no longer reproduces" % f["id"])
                    continue
            except Exception as e:
                notes.append("known finding %s could not be replayed: %r" % (f["id"], e))
        out_lines.append("KNOWN-FINDING: property=%s %s" % (pid, f["what"]))

    def fails(sc, fl=None):
        if fl:
            ii, _ = vlib.run_impl([sc.cmds], flavour=fl)
            return bool(ii[0][1])
        mm, ii, _ = run_all([sc], flavour=flavour)
        k, _d = judge(sc, mm[0], ii[0][0], ii[0][1], oracle)
        return k == "violation"

    if extra_viol and not unknown:
        p = vlib.write_replay(pid, "violation-seed%d.case" % seed, extra_viol[0])
        out_lines.append("VIOLATION property=%s replay=%s" % (pid, p))
        rc = 1; unknown = [(None, extra_viol[1])]
    elif unknown:
        s, det = unknown[0]
        xfl = extra_flavour.get(id(s))
        try:
            if xfl:
                if fails(s, xfl): s = minimise(s, lambda sc: fails(sc, xfl))
                s.note = "build flavour: " + xfl
            elif fails(s): s = minimise(s, fails)
            else:
                h = find_history(scens, s, flavour, oracle)
                if h is not None: s.history = h
                else: notes.append("the failing scenario fails neither alone nor after its predecessors when re-run")
        except Exception as e: notes.append("minimisation failed: %r" % e)
        p = vlib.write_replay(pid, "violation-seed%d.case" % seed, replay_text(pid, s, det))
        out_lines.append("VIOLATION property=%s replay=%s" % (pid, p))
        rc = 1
    elif fidelity or proof_broken:
        # the tie is broken; look for a concrete failing input with further seeds
        found = None
        for extra in range(1, 4):
            r2 = random.Random(seed * 7919 + extra)
            sc2 = mod.gen(r2, tier)
            m2, i2, _ = run_all(sc2, flavour=flavour)
            for s, ml, (il, v) in zip(sc2, m2, i2):
                kind, det = judge(s, ml, il, v, oracle)
                if kind == "violation":
                    found = (s, det); break
            if found: break
        if found:
            s, det = found
            try: s = minimise(s, fails)
            except Exception as e: notes.append("minimisation failed: %r" % e)
            p = vlib.write_replay(pid, "violation-seed%d.case" % seed, replay_text(pid, s, det))
            out_lines.append("VIOLATION property=%s replay=%s" % (pid, p))
        else:
            what = []
            if proof_broken: what.append("theorem/obligation that no longer checks: %s\n%s" % (ps.get("broken_at"), ps["log"][-1500:]))
            if fidelity: what.append("correspondence model<->implementation differs (not on an observation of the property): " + fidelity[0][1])
            body = "# property %s\n# no failing input found; what no longer checks:\n# %s\n" % (pid, "\n# ".join("\n".join(what).split("\n")))
            if fidelity: body += replay_text(pid, fidelity[0][0], fidelity[0][1])
            p = vlib.write_replay(pid, "unproven-seed%d.txt" % seed, body)
            out_lines.append("VIOLATION property=%s replay=%s no-failing-input-found" % (pid, p))
        rc = 1
    cov["notes"] = notes
    cov["known_findings_replayed"] = [f["id"] for f in kf]
    vlib.write_evidence(pid, tier, seed, cov, time.time() - t0, len(unknown) + (1 if rc and not unknown else 0),
                        assumptions=getattr(mod, "ASSUMPTIONS", None))
    for l in out_lines: print(l)
    if rc == 0:
        print("OK property=%s tier=%s obligations=%d/%d evaluations=%d distinct_nontrivial=%d wall=%.1fs" % (
            pid, tier, ps["discharged"], ps["obligations"], len(scens), len(distinct), time.time() - t0))
    return rc

def replay(pid, path, mod):
    cmds, obs = [], []
    for ln in open(path).read().split("\n"):
        if not ln or ln.startswith("#"): continue
        if ln.startswith("~"): cmds.append(ln[1:]); obs.append(False)
        else: cmds.append(ln); obs.append(True)
    if "reset" in cmds:
        # a history: several scenarios that have to run in one process; the last one is the failing one
        scs, cur_c, cur_o = [], [], []
        for c, o in zip(cmds + ["reset"], obs + [False]):
            if c == "reset": scs.append(Scenario(cur_c, cur_o)); cur_c, cur_o = [], []
            else: cur_c.append(c); cur_o.append(o)
        s = scs[-1]
        bad = history_fails(scs[:-1], s, getattr(mod, "FLAVOUR", "asan"), getattr(mod, "oracle", None))
        print("history of %d scenarios, last one %s" % (len(scs), "fails" if bad else "agrees"))
        if bad:
            print("VIOLATION property=%s replay=%s" % (pid, path)); return 1
        print("replay: no violation"); return 0
    s = Scenario(cmds, obs)
    m, i, _ = run_all([s], flavour=getattr(mod, "FLAVOUR", "asan"))
    kind, det = judge(s, m[0], i[0][0], i[0][1], getattr(mod, "oracle", None))
    for c, a, b in zip(s.cmds, m[0], i[0][0] + ["<missing>"] * len(m[0])):
        print(c[:100]); print("   model:", a[:300]); print("   impl :", b[:300])
    for fl in getattr(mod, "EXTRA_FLAVOURS", []):
        i2, _ = vlib.run_impl([s.cmds], flavour=fl)
        if i2[0][1]:
            print("%s build: %s" % (fl, i2[0][1][:1500])); kind = "violation"
    if kind == "violation":
        print("VIOLATION property=%s replay=%s" % (pid, path)); return 1
    print("replay: no violation (%s)" % (kind or "agrees")); return 0
