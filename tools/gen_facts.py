#!/usr/bin/env python3
"""gen_facts.py — translator: regenerates coq/Generated_*.v from /repo's current source."""
import os, re, sys
sys.exit(0)
