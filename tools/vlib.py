"""vlib.py — shared machinery of the checks: builds (Coq development, extracted
model driver, implementation driver from /repo's working tree), running
scenarios through both drivers, comparing, evidence and verdict output."""
import fcntl, glob, hashlib, json, os, random, re, shutil, subprocess, sys, tempfile, time

VERIF = os.path.dirname(os.path.dirname(os.path.abspath(__file__)))
REPO = os.environ.get("VERIF_REPO", "/repo")
BUILD = os.path.join(VERIF, "build")
COQ = os.path.join(VERIF, "coq")
NPROC = os.cpu_count() or 4
GUARD = "LIBECONF_VERIF"

def log(*a):
    print(*a, file=sys.stderr, flush=True)

class Lock:
    def __init__(self, name):
        os.makedirs(BUILD, exist_ok=True)
        self.path = os.path.join(BUILD, name + ".lock")
    def __enter__(self):
        self.f = open(self.path, "w"); fcntl.flock(self.f, fcntl.LOCK_EX); return self
    def __exit__(self, *a):
        fcntl.flock(self.f, fcntl.LOCK_UN); self.f.close()

def sh(cmd, cwd=None, timeout=1800, env=None, check=False, input=None):
    p = subprocess.run(cmd, cwd=cwd, shell=isinstance(cmd, str), stdout=subprocess.PIPE,
                       stderr=subprocess.STDOUT, timeout=timeout, env=env, input=input)
    out = p.stdout.decode("utf-8", "replace")
    if check and p.returncode != 0:
        raise RuntimeError("command failed (%d): %s\n%s" % (p.returncode, cmd, out[-4000:]))
    return p.returncode, out

def sha_files(paths):
    h = hashlib.sha256()
    for p in sorted(paths):
        h.update(p.encode()); h.update(b"\0")
        with open(p, "rb") as f: h.update(f.read())
    return h.hexdigest()[:20]

# ---------------------------------------------------------------- source facts
def gen_facts():
    """regenerate coq/Generated_*.v from /repo's current sources"""
    rc, out = sh([sys.executable, os.path.join(VERIF, "tools", "gen_facts.py")])
    if rc != 0:
        raise RuntimeError("gen_facts failed:\n" + out)

# ---------------------------------------------------------------- Coq
def coq_build(targets=None, keep_going=True):
    """full .vo build of the development (or of the given targets).
    Returns (ok, log)."""
    with Lock("coq"):
        gen_facts()
        if not os.path.exists(os.path.join(COQ, "Makefile")) or \
           os.path.getmtime(os.path.join(COQ, "_CoqProject")) > os.path.getmtime(os.path.join(COQ, "Makefile")):
            sh("coq_makefile -f _CoqProject -o Makefile", cwd=COQ, check=True)
        cmd = ["make", "-j%d" % NPROC] + (["-k"] if keep_going else []) + (targets or [])
        rc, out = sh(cmd, cwd=COQ, timeout=3000)
        return rc == 0, out

def model_driver():
    """extract the model and build the OCaml driver; returns path of the binary"""
    with Lock("coq"):
        srcs = [os.path.join(VERIF, "ocaml", "driver.ml")] + \
               [f for f in glob.glob(os.path.join(COQ, "*.v"))
                if not re.search(r"(Facts|Properties_\w+|Generated_\w+|_statements)\.v$", f)]
        key = sha_files(srcs)
        d = os.path.join(BUILD, "model-" + key)
        exe = os.path.join(d, "model_driver")
        if os.path.exists(exe):
            return exe
        for old in glob.glob(os.path.join(BUILD, "model-*")):
            shutil.rmtree(old, ignore_errors=True)
        os.makedirs(d, exist_ok=True)
        sh("coq_makefile -f _CoqProject -o Makefile", cwd=COQ, check=True)
        sh(["make", "-j%d" % NPROC, "Scenario.vo", "Grammar.vo"], cwd=COQ, check=True, timeout=3000)
        sh(["coqc", "-Q", COQ, "Econf", os.path.join(COQ, "Extract.v")], cwd=d, check=True, timeout=600)
        shutil.copy(os.path.join(VERIF, "ocaml", "driver.ml"), d)
        sh("ocamlfind ocamlopt -O3 -w -a -package str model.mli model.ml driver.ml -o model_driver 2>&1 || "
           "ocamlfind ocamlopt -w -a model.mli model.ml driver.ml -o model_driver", cwd=d, check=True, timeout=600)
        return exe

# ---------------------------------------------------------------- implementation
def repo_sources():
    return sorted(glob.glob(os.path.join(REPO, "lib", "*.c")) + glob.glob(os.path.join(REPO, "lib", "*.h")) +
                  glob.glob(os.path.join(REPO, "include", "*.h")))

def impl_driver(flavour="asan"):
    """build harness/econf_driver.c + /repo/lib/*.c from the working tree.
    Returns (path, None) or (None, compiler output)."""
    drv = os.path.join(VERIF, "harness", "econf_driver.c")
    key = sha_files(repo_sources() + [drv]) + "-" + flavour
    with Lock("impl"):
        d = os.path.join(BUILD, "impl-" + key)
        exe = os.path.join(d, "econf_driver")
        if os.path.exists(exe):
            return exe, None
        olds = sorted(glob.glob(os.path.join(BUILD, "impl-*-" + flavour)), key=os.path.getmtime)
        for old in olds[:-2]:
            shutil.rmtree(old, ignore_errors=True)
        os.makedirs(d, exist_ok=True)
        flags = {"asan": "-O1 -g -fsanitize=address,undefined -fno-sanitize-recover=all -fno-omit-frame-pointer",
                 "tsan": "-O1 -g -fsanitize=thread",
                 "msan": "-O1 -g -fsanitize=memory -fsanitize-memory-track-origins -fno-omit-frame-pointer",
                 "plain": "-O1 -g"}[flavour]
        cc = "clang" if flavour == "msan" else "gcc"       # MemorySanitizer exists in clang only
        csrc = " ".join(sorted(glob.glob(os.path.join(REPO, "lib", "*.c"))))
        cmd = cc + " %s -D_GNU_SOURCE -D_REENTRANT -D%s -w -Wl,--wrap=fopen -I%s/include -I%s/lib -o %s %s %s -lpthread" % (
            flags, GUARD, REPO, REPO, exe, drv, csrc)
        rc, out = sh(cmd, timeout=600)
        if rc != 0:
            shutil.rmtree(d, ignore_errors=True)
            return None, out
        return exe, None

def tool_binary():
    """util/econftool.c + lib, ASan build"""
    key = sha_files(repo_sources() + [os.path.join(REPO, "util", "econftool.c")]) + "-tool"
    with Lock("impl"):
        d = os.path.join(BUILD, "impl-" + key)
        exe = os.path.join(d, "econftool")
        if os.path.exists(exe):
            return exe, None
        for old in sorted(glob.glob(os.path.join(BUILD, "impl-*-tool")), key=os.path.getmtime)[:-2]:
            shutil.rmtree(old, ignore_errors=True)
        os.makedirs(d, exist_ok=True)
        csrc = " ".join(sorted(glob.glob(os.path.join(REPO, "lib", "*.c"))))
        cmd = ("gcc -O1 -g -fsanitize=address,undefined -fno-sanitize-recover=all -D_GNU_SOURCE -D%s -w "
               "-I%s/include -I%s/lib -o %s %s/util/econftool.c %s") % (GUARD, REPO, REPO, exe, REPO, csrc)
        rc, out = sh(cmd, timeout=600)
        if rc != 0:
            shutil.rmtree(d, ignore_errors=True)
            return None, out
        return exe, None

# ---------------------------------------------------------------- encoding
def enc(b):
    if b is None: return "-"
    if isinstance(b, str): b = b.encode("latin-1")
    return "x" + b.hex()
def dec(t):
    if t == "-": return None
    return bytes.fromhex(t[1:])
def dec_list(t):
    return [dec(x) for x in t.split(",")] if t else []

# ---------------------------------------------------------------- running scenarios
def scratch_dir():
    base = "/dev/shm" if os.path.isdir("/dev/shm") and os.access("/dev/shm", os.W_OK) else tempfile.gettempdir()
    return tempfile.mkdtemp(prefix="econf-verif-", dir=base)

def root_len():
    """length of the real path of a scratch root as scratch_dir() makes them (mkdtemp: 8 random characters)"""
    base = "/dev/shm" if os.path.isdir("/dev/shm") and os.access("/dev/shm", os.W_OK) else tempfile.gettempdir()
    return len(os.path.realpath(base)) + 1 + len("econf-verif-") + 8

def split_outputs(text):
    """output of a driver -> list of per-scenario lists of lines"""
    res, cur = [], None
    for ln in text.split("\n"):
        if ln == "reset":
            cur = []; res.append(cur)
        elif cur is not None and ln != "":
            cur.append(ln)
    return res

def _big_stack():
    """the extracted list functions are not tail recursive: megabyte-long values need a deep native stack"""
    import resource
    soft, hard = resource.getrlimit(resource.RLIMIT_STACK)
    want = 8 << 30
    if hard != resource.RLIM_INFINITY: want = min(want, hard)
    try: resource.setrlimit(resource.RLIMIT_STACK, (want, hard))
    except Exception: pass

def run_model(scenarios):
    """scenarios: list of lists of command lines.  Returns list of lists of output lines."""
    exe = model_driver()
    data = "".join("reset\n" + "\n".join(s) + "\n" for s in scenarios)
    outs = []
    # shard over cores
    n = max(1, min(NPROC, len(scenarios) // 50 + 1))
    chunks = [scenarios[i::n] for i in range(n)]
    procs = []
    for ch in chunks:
        d = "".join("reset\n" + "\n".join(s) + "\n" for s in ch).encode()
        p = subprocess.Popen([exe], stdin=subprocess.PIPE, stdout=subprocess.PIPE, stderr=subprocess.PIPE, preexec_fn=_big_stack)
        procs.append((p, d))
    results = []
    import threading
    def feed(p, d, slot):
        o, e = p.communicate(d)
        slot.append((p.returncode, o.decode(), e.decode()))
    slots = [[] for _ in procs]
    ths = [threading.Thread(target=feed, args=(p, d, s)) for (p, d), s in zip(procs, slots)]
    for t in ths: t.start()
    for t in ths: t.join()
    per_chunk = []
    for s in slots:
        rc, o, e = s[0]
        if rc != 0:
            raise RuntimeError("model driver failed: " + e[-2000:])
        per_chunk.append(split_outputs(o))
    out = [None] * len(scenarios)
    for ci in range(n):
        for j, r in enumerate(per_chunk[ci]):
            out[ci + j * n] = r
    return out

SAN_RE = re.compile(r"(ERROR: AddressSanitizer: ([\w-]+)|runtime error: ([^\n]*)|ERROR: LeakSanitizer|ThreadSanitizer: ([\w -]+)|WARNING: MemorySanitizer: ([\w-]+))")

def san_verdict(stderr):
    m = SAN_RE.search(stderr)
    if not m:
        return None
    where = ""
    fm = re.search(r"#\d+ 0x[0-9a-f]+ in (\w+) /[^\n]*?/(lib|util)/", stderr)
    if fm: where = "@" + fm.group(1)
    if m.group(2): return "asan:" + m.group(2) + where
    if m.group(3): return "ubsan:" + m.group(3)[:60] + where
    if m.group(4): return "tsan:" + m.group(4).strip() + where
    if m.group(5): return "msan:" + m.group(5) + where
    return "leak" + where

IMPL_STACK_KB = None        # a check may run the implementation with a small native stack (input-proportional stack use shows)
def _impl_limits():
    if IMPL_STACK_KB:
        import resource
        try: resource.setrlimit(resource.RLIMIT_STACK, (IMPL_STACK_KB * 1024, resource.getrlimit(resource.RLIMIT_STACK)[1]))
        except Exception: pass

def run_impl_chunk(exe, scenarios, timeout_per=20.0, env_extra=None):
    """run scenarios sequentially in one driver process; on crash, record and
    restart after the failing scenario.  Returns list of (lines, verdict)."""
    results = []
    i = 0
    env = dict(os.environ)
    env["ASAN_OPTIONS"] = "detect_leaks=1:abort_on_error=0:exitcode=99:allocator_may_return_null=1"
    env["UBSAN_OPTIONS"] = "print_stacktrace=1:exitcode=98"
    env["MSAN_OPTIONS"] = "exitcode=97"
    env["LC_ALL"] = "C"
    if env_extra: env.update(env_extra)
    while i < len(scenarios):
        root = scratch_dir()
        try:
            data = "".join("reset\n" + "\n".join(s) + "\n" for s in scenarios[i:]).encode()
            try:
                p = subprocess.run([exe, root], input=data, stdout=subprocess.PIPE, stderr=subprocess.PIPE,
                                   timeout=max(30.0, timeout_per * min(len(scenarios) - i, 50), 1.0 * (len(scenarios) - i)), env=env, preexec_fn=_impl_limits)     # scales with the chunk: a loaded machine is not a hang
                rc, so, se = p.returncode, p.stdout.decode("utf-8", "replace"), p.stderr.decode("utf-8", "replace")
                timed_out = False
            except subprocess.TimeoutExpired as te:
                rc, so, se = -9, (te.stdout or b"").decode("utf-8", "replace"), (te.stderr or b"").decode("utf-8", "replace")
                timed_out = True
        finally:
            shutil.rmtree(root, ignore_errors=True)
        outs = split_outputs(so)
        if rc == 0 and len(outs) == len(scenarios) - i:
            results += [(o, None) for o in outs]
            break
        # abnormal end: the last started scenario is the culprit
        done = max(len(outs) - 1, 0)
        results += [(o, None) for o in outs[:done]]
        verdict = "timeout" if timed_out else (san_verdict(se) or ("exit:%d" % rc))
        if rc == 0 or (rc == 99 and "LeakSanitizer" in se and len(outs) == len(scenarios) - i):
            # leak report at exit: cannot be attributed to one scenario here; attribute to all-run
            results += [(o, None) for o in outs[done:]]
            results.append(("__LEAK__", se))
            break
        last = outs[done] if outs else []
        results.append((last, verdict + "|" + se[-1500:]))
        i += done + 1
    return results

def nchunks(total):
    """number of driver processes a run of `total` scenarios is spread over (scenario k runs in process k % n,
    after the scenarios k-n, k-2n, ... of the same process)"""
    return max(1, min(NPROC, total // 20 + 1))

def run_impl(scenarios, flavour="asan", timeout_per=20.0, env_extra=None):
    """returns (list of (lines, verdict-or-None) per scenario, leak_reports)"""
    exe, err = impl_driver(flavour)
    if exe is None:
        raise BuildError(err)
    n = nchunks(len(scenarios))
    chunks = [scenarios[i::n] for i in range(n)]
    import concurrent.futures
    with concurrent.futures.ThreadPoolExecutor(max_workers=n) as ex:
        futs = [ex.submit(run_impl_chunk, exe, ch, timeout_per, env_extra) for ch in chunks]
        per_chunk = [f.result() for f in futs]
    out = [None] * len(scenarios)
    leaks = []
    for ci in range(n):
        j = 0
        for r in per_chunk[ci]:
            if r[0] == "__LEAK__":
                leaks.append(r[1]); continue
            out[ci + j * n] = r; j += 1
    for k in range(len(out)):
        if out[k] is None: out[k] = ([], "missing")
    return out, leaks

class BuildError(Exception):
    pass

# ---------------------------------------------------------------- evidence / verdict
def write_evidence(pid, tier, seed, coverage, wall, violations, assumptions=None, level="proof"):
    os.makedirs(os.path.join(VERIF, "evidence"), exist_ok=True)
    ev = {"property_id": pid, "tier": tier, "seed": int(seed), "level": level,
          "coverage": coverage, "wall_s": round(wall, 2), "violations": int(violations)}
    if assumptions: ev["assumptions"] = assumptions
    with open(os.path.join(VERIF, "evidence", pid + ".json"), "w") as f:
        json.dump(ev, f, indent=1, sort_keys=True)

def write_replay(pid, name, content):
    d = os.path.join(VERIF, "replays", pid)
    os.makedirs(d, exist_ok=True)
    p = os.path.join(d, name)
    with open(p, "w") as f:
        f.write(content)
    return p

def known_findings():
    p = os.path.join(VERIF, "known_findings.json")
    if not os.path.exists(p): return []
    with open(p) as f: return json.load(f)["findings"]

# ---------------------------------------------------------------- comparing model and implementation
import floatoracle as _fo

def _float_item_ok(mitem, iitem):
    """model 'rc=0 ftext=x..' against impl 'rc=0 bits=N' through the oracle"""
    mm = re.match(r"rc=(\d+) ([fd])text=(\S+)$", mitem)
    im = re.match(r"rc=(\d+) bits=(\d+)$", iitem)
    if not mm or not im or mm.group(1) != im.group(1):
        return False
    bits = 64 if mm.group(2) == "d" else 32
    want = _fo.strtox(dec(mm.group(3)) or b"", bits)
    got = int(im.group(2))
    if want == "nan":
        prec, _, _, ebits = _fo.FMT[bits]
        return (got >> (prec - 1)) & (2 ** ebits - 1) == 2 ** ebits - 1 and got & (2 ** (prec - 1) - 1) != 0
    return want == got

def items_equal(m, i):
    if m == i: return True
    if "text=" in m and "bits=" in i:
        return _float_item_ok(m.strip(), i.strip())
    return False

def line_equal(m, i):
    if m == i: return True
    if m.startswith("all ") and i.startswith("all "):
        ms, is_ = m[4:].split(";"), i[4:].split(";")
        return len(ms) == len(is_) and all(items_equal(a, b) for a, b in zip(ms, is_))
    return items_equal(m, i)

def first_diff(mlines, ilines):
    """index and pair of the first differing line, or None"""
    for k in range(max(len(mlines), len(ilines))):
        a = mlines[k] if k < len(mlines) else "<missing>"
        b = ilines[k] if k < len(ilines) else "<missing>"
        if not line_equal(a, b):
            return k, a, b
    return None
