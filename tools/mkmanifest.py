#!/usr/bin/env python3
"""mkmanifest.py — writes MANIFEST.json from the table below (kept valid at all times)."""
import json, os, sys
HERE = os.path.dirname(os.path.dirname(os.path.abspath(__file__)))
ALL = ["C%02d" % i for i in range(1, 21)]

NOTE = ("Trusted: Coq 8.16.1 kernel (vm_compute, no native_compute); no axioms declared (Print Assumptions per theorem "
        "in the evidence); extraction via ExtrOcamlBasic only + ocaml/driver.ml; the hand-written model is tied to /repo by "
        "differential execution against an ASan+UBSan build of the working tree (harness/econf_driver.c, tools/vlib.py) and by "
        "tools/gen_facts.py for tables; glibc and the file system are oracles (DESIGN.md section 8).")

CLAIMS = {
 "C01": dict(
   text=("Theorems on the model of the layered reader (all trees, any number of layers and files): C01_main_highest_wins / "
         "C01_main_absent_goes_on (the main file comes from the highest layer that has one; an empty file or a link to /dev/null "
         "counts, lower layers are not opened), C01_dropins_consulted (drop-in directories in ascending layer order, names "
         "strictly longer than and ending in the suffix, byte-sorted), C01_masked_ignored + C01_override_key_by_key (every "
         "(section,key) has the value of the LAST consulted file not hidden by a later file of the same name — by C03_lookup "
         "along the fold), C01_nofile, C01_no_names_refused, C01_default_layers, C01_result_is_spec (the code's loop equals the "
         "specification's fold unless the first consulted file is itself hidden: known finding F14, refuted witness in "
         "Properties_C12). Tie: random trees through readDirs/readConfig (ROOT_PREFIX, PARSING_DIRS, CONFIG_DIRS, drop-in-only "
         "mode, process-wide list), dumps and the sequence of files opened. The file system is an oracle (finite tree instance)."),
   technique="Coq proof over a model of the layered reader (induction over layers/files, composition with the merge theorems) + differential correspondence on generated trees",
   ref="6 (C01), Appendix C"),
 "C02": dict(
   text=("Theorem C02_parse: for every delimiter set of each of the four classes and every comment set (dl_ok/cm_ok), and every "
         "well-formed list of lines of the conventional grammar (blank, comment with arbitrary text, section, key line with "
         "optional blanks/quotes/trailing comment, continuation lines; unbounded number and length), the model of read_file on "
         "the rendered bytes succeeds and yields EXACTLY the expected entries (group, key, value incl. NULL vs empty, both "
         "comments, line, quote flag), the sections in order of first appearance and the line count. C02_line (per line, any "
         "state), C02_sections_order, C02_first_definition. Proved by per-line lemmas for each class and induction over the "
         "lines. Tie: the implementation's dump and getters on rendered files against the expected configuration and the model."),
   technique="Coq proof (line lemmas per delimiter class + induction over lines) + differential correspondence on grammar-generated files",
   ref="5.1, 6 (C02)"),
 "C03": dict(
   text=("Theorems C03_lookup (the visible value of every (section,key) is the override's if it defines the key, else the "
         "base's), C03_complete, C03_nothing_else, C03_section (per section: base keys in base order with overridden values, "
         "then override-only keys), C03_new_section, C03_base_order, C03_sections_order, C03_nogroup_first, C03_bound (the result "
         "array is never written beyond |base|+|override| — the memory-safety obligation), C03_empty_*: all for ALL pairs of "
         "entry lists (any length, re-opened sections, duplicate keys, empty sides) of the model of econf_mergeFiles. "
         "Inputs unchanged: C10_merge_inputs + dumps before/after in the runs. Inside a history (StoreFacts.v): "
         "C03_history_independent (result and code are a function of the two argument objects only), C03_same_override_twice. "
         "Correspondence: histories of eight merges sharing objects, and full dump of merge results "
         "of random pairs (quick) / all pairs up to 3+3 over {none,A,B}x{x,y} (thorough) built by setters or parsed."),
   technique="Coq proof (induction over the base's runs; per-section refinement to an association-list override) + differential correspondence",
   ref="6 (C03)"),
 "C04": dict(
   text=("PARTIAL. Theorems: C04_read_codes / C04_line_codes (for EVERY byte string, delimiter set, comment set and option the "
         "parser model terminates — it is a total Coq function, every loop structural — with success or one of the four "
         "documented parse codes); C04_W1..W6_safe (index-level models with CHECKED reads/writes of the six pointer walks that "
         "move backwards or index strlen-1 — key trim, value trim with the quote data--/p--, the unbounded walk before ']', "
         "newline strip, libeconf_ext rtrim, stripbrackets — never leave the buffer, for all buffers; the two walks without a "
         "bound test are safe because of a sentinel '[' resp. the ltrim precondition, C04_W5_needs_precondition shows the model "
         "exhibits the overrun without it) and C04_W*_result (they compute what the list-level parser model uses); "
         "C04_merge_bound. NOT covered by theorems: heap lifetime, use-after-free, libc internals, code outside those sites — "
         "there the ASan/UBSan + timeout runs on arbitrary byte files (read, every getter, merge in both roles, write, re-read) "
         "are a search for a failing input, not a claim."),
   technique="Coq proof (totality/result codes of the parser model; bounds-checked index models of the backward walks) + sanitizer-instrumented differential runs on arbitrary bytes",
   ref="6 (C04)"),
 "C05": dict(
   text=("Theorem C05_inert: in EVERY parser state, for every option, delimiter set and comment set, a line whose first "
         "non-blank byte is a comment character only extends the pending comment — no key, value, section, continuation or "
         "error — whatever bytes follow (arbitrary bytes except newline; NUL ends the text). C05_insert_delete: inserting or "
         "deleting such a line anywhere in a conventional single-line-value file leaves all sections, keys, values unchanged "
         "(via C02_parse); C05_meaning for all line lists. Tie: listing of files with/without inserted nasty comment lines."),
   technique="Coq proof (case analysis of the line parser in an arbitrary state; simulation over line meanings) + differential correspondence",
   ref="6 (C05)"),
 "C06": dict(
   text=("Theorems over the model of the gate and the layered readers, for all trees, parameters and callbacks: C06_gate (the "
         "callback is asked about exactly the consulted path before the file is opened; a file is used only if accepted; a "
         "rejection gives ECONF_PARSING_CALLBACK_FAILED and the file is not opened), C06_history (every opened file was accepted "
         "immediately before; the consulted files are exactly the files opened, in processing order, each with its own path; any "
         "rejection fails the read), C06_readDirs/readConfig/readFile/history_rejected (callback code, no entries / NULL, no "
         "history), C06_readDirs_order, C06_readConfig_order. Tie: the implementation's real callback log (paths, verdicts, data "
         "pointer) and fopen log (link-time --wrap) against the model's event trace on random trees x rejection policies; "
         "independent oracle on the logs."),
   technique="Coq proof (event-trace invariants by induction over layers and files) + differential correspondence with callback and fopen interception",
   ref="6 (C06)"),
 "C07": dict(
   text=("Theorem C07_roundtrip: for EVERY writable object (the Coq predicate `writable` = DESIGN.md 5.4: delimiter tag =, : or "
         "space, comment tag # or ;, keys/sections of the grammar, values quoted or plain with indented delimiter-free "
         "continuation lines, comment texts printable) — whatever the order of its entries (group-less after sectioned, "
         "re-opened sections) — the bytes the writer model produces are a well-formed conventional file (C07_written_file_is_"
         "conventional), reading them back with the object's tags succeeds and every section has the same keys in order with "
         "the same values. Composition of write_is_render, ast_of_wf, ast_of_meaning and C02_parse. C07_int_text_writable: "
         "the integer setters' texts are in the domain. Tie: setter histories / parsed files, written and re-read by the "
         "implementation; writability decided by the extracted predicate. Comments of single-line entries: checked in the "
         "runs (model = implementation on the re-read dump), no separate theorem."),
   technique="Coq proof (writer output = rendering of an AST; AST well-formed; meaning preserved; composed with the parser theorem) + differential correspondence",
   ref="5.4, 6 (C07)"),
 "C08": dict(
   text=("Theorems C08_int32/int64/uint32/uint64: for EVERY value of the type, the typed setter followed by the matching getter "
         "returns the value (decimal printing and strtol-family parsing are modelled and proved inverse, all sizes, by induction "
         "on digits); C08_bool for every accepted spelling in any case; C08_string. Floating point: C08_float_digits / "
         "C08_double_digits (Flocq): printing with FLT_DECIMAL_DIG=9 / DBL_DECIMAL_DIG=17 significant digits (values and the "
         "conversions used are regenerated from the source on every run) and reading back is the identity for all finite "
         "numbers incl. subnormals. Partial: glibc's printf/strtod being correctly rounded is an oracle; the write/read leg is "
         "covered by the correspondence runs (set, get, write, re-read, get), its theorem belongs to C07."),
   technique="Coq proof (digit-list induction; Flocq rounding theorem) + generated source facts + differential correspondence",
   ref="6 (C08)",
   note=NOTE + " Axioms (standard library, through Flocq/Reals, only for C08_float_digits/C08_double_digits): "
        "ClassicalDedekindReals.sig_forall_dec, sig_not_dec, FunctionalExtensionality.functional_extensionality_dep, Classical_Prop.classic."),
 "C09": dict(
   text=("Theorems C09_int32/int64/uint32/uint64: for every well-formed integer literal (decimal, octal, hexadecimal in either "
         "case, optional sign, any number of digits) the getter returns the mathematical value when the type can hold it and "
         "ECONF_VALUE_CONVERSION_ERROR otherwise; C09_bool_exact: the boolean getter succeeds exactly on 1/0/yes/no/true/false in "
         "any case and the empty value; C09_null_value. Partial: correctly rounded strtof/strtod is glibc's contract (oracle, "
         "checked against an exact rational model on sampled literals)."),
   technique="Coq proof over a model of strtol/strtoul base 0 + differential correspondence with independent Python oracle",
   ref="6 (C09)"),
 "C12": dict(
   text=("Theorems: C12_dirs_is_history_merge (econf_readDirs* = merge_files of exactly the list econf_readDirsHistory* returns, "
         "same consulted files, same outcome), C12_dirs_is_config (= the layered read configured with the same two directories, "
         "also for NULL/empty directory arguments), C12_accepting_callback (an always-accepting callback changes neither result "
         "nor files opened), C12_history_merge / C12_merge_loop_is_fold (merging the history left to right skipping hidden files "
         "reproduces the result when the first file is not itself hidden; C12_history_merge_refuted gives the F14 witness). "
         "Tie: all entry points on the same generated tree, compared on the implementation's own outputs."),
   technique="Coq proof (unfolding the wrappers to the one internal reader; simulation between callback variants) + differential correspondence",
   ref="6 (C12)"),
 "C13": dict(
   text=("Theorems C13_line_stops / C13_error_at: after ANY conventional prefix (any length, any delimiter class), a malformed "
         "line of each kind (no closing bracket, text after bracket, empty section name, key+text without delimiter under a "
         "non-blank delimiter set and not in continuation position) makes the model of read_file fail with exactly that code, "
         "the reported line is the 1-based number of that line, whatever follows; C13_no_partial; C13_enum_matches_model, "
         "C13_messages, C13_errstring over the enum and message table REGENERATED from libeconf.h / econf_error.c on every "
         "run; C13_location_is_a_record; C13_reported_name_absolute / _fixed_point (PathFacts.v: the reported name is absolute "
         "whatever the caller's spelling, and resolving it again changes nothing); C13_respell_* (CwdModel.respell, through which "
         "the model follows chdir, names cwd/name). Layered reads (n-th drop-in malformed) are "
         "compared with the model of the layered reader; the same relative name after chdir is compared with the read by the "
         "absolute name."),
   technique="Coq proof (line lemmas + induction over the prefix) + generated source tables + differential correspondence",
   ref="6 (C13)"),
 "C14": dict(
   text=("PARTIAL. The model has no bound anywhere, so C02_parse, C03_*, C07_roundtrip, C17_* hold for all lengths. "
         "C14_buffer_inventory: every fixed-size char buffer and alloca of lib/ and util/, REGENERATED from the source on every "
         "run, must be exactly the accounted-for list (none holds a key, value, section, comment or line; a re-introduced "
         "char buf[BUFSIZ] breaks the obligation); C14_ext_whole, C14_writer_comment_whole (no truncation in the extended "
         "getter and the writer), C14_paths (layer paths below PATH_MAX are composed whole). Not covered: stack exhaustion by "
         "alloca, OS limits, econftool's 1024-byte --delimiters buffer (finding F21, listed under C19). Tie: each field kind x "
         "lengths around BUFSIZ, 2*BUFSIZ, 64Ki/1Mi, NAME_MAX through read, getters, merge, write, re-read, setters, layered "
         "read and option strings; the oracle checks lengths."),
   technique="Coq proof (unbounded model; generated buffer inventory as an obligation) + differential length sweeps",
   ref="6 (C14)"),
 "C15": dict(
   text=("Theorems: C15_options_ok (every option string of documented items — any order, repeated — is accepted and each item has "
         "its documented effect, a repeated item acting as its last occurrence: tokenizer model = fold of item meanings), "
         "C15_last_occurrence (an earlier occurrence of an item given again later has no effect at all, list-valued items of any "
         "two lengths included) and C15_kinds_independent (OptionLaws.v), "
         "C15_options_unknown, C15_options_absent, C15_option_names (the names the source recognises, regenerated each run), "
         "C15_join (for every entry list: the value lines of a key under JOIN_SAME_ENTRIES are those of all its definitions since "
         "its last empty one), C15_nojoin_first, C15_python_indented (in every state directly after an entry an indented line "
         "continues the value with indentation removed whatever delimiters/comment characters it contains). Partial: the python "
         "key-line grammar as a whole has no file-level theorem; it is covered by the correspondence runs."),
   technique="Coq proof (split/join inverse for the tokenizer; fold characterisation of the join pass; line lemma for python continuation) + generated option names + differential correspondence",
   ref="5.2, 6 (C15)"),
 "C16": dict(
   text=("Theorems: C16_refuse (a file violating an active owner / group / no-symlink rule is refused with the specific code "
         "before the callback is asked and before it is opened), C16_unaffected (files satisfying the rules are read exactly as "
         "without rules), C16_every_opened_file / C16_readDirs / C16_readConfig (every file any layered read opens satisfies the "
         "rules in force — all trees, parameters, entry points), C16_reset, C16_single_entrance (regenerated call-site "
         "inventory: the parser is entered only through the gate). Partial: lstat semantics, lstat/fopen races and symlinked "
         "directories are file-system behaviour outside the model. Tie: real chown/symlink trees (run as root), fopen log."),
   technique="Coq proof over the gate model + generated call-site inventory + differential correspondence on real ownership/symlink trees",
   ref="6 (C16)"),
 "C17": dict(
   text=("Theorems: C17_block (for any preceding state without pending comment: a comment block of any length directly before a "
         "key line, the key line and its continuation lines produce an entry carrying the 1-based number of its LAST physical "
         "line, exactly that block's text, the line's trailing comment and the value lines), C17_ext (the extended getter hands "
         "out what the first entry of the key carries, with the object's path), C17_value_lines, C17_path_single / _relative / "
         "_merged. Together with C02_parse (parsed file = expected entries) this gives the property for all conventional files. "
         "Tie: ext values of every key and path queries on grammar-generated files read by absolute and relative name."),
   technique="Coq proof (fold lemmas over line meanings, on top of the parser theorem) + differential correspondence",
   ref="6 (C17)"),
 "C18": dict(
   text=("PARTIAL. Theorems: C18_frame (what a call returns and does to the caller's own objects depends on the shared state only "
         "through the settings written by the documented global setters; a non-setter call leaves them alone; all else a call "
         "writes is the error-location record), C18_noninterference (for EVERY interleaving of any number of threads running "
         "arbitrary call sequences on private objects, trees and callbacks, each thread obtains exactly the results of running "
         "alone), C18_shared_state_inventory (all variables with static storage, regenerated from freshly compiled objects: "
         "read-only table, thread-local scratch, settings, error location — a new static buffer breaks the obligation). The "
         "theorem speaks about sequentially consistent interleavings of modelled calls; torn accesses, compiler reordering and "
         "libc's own locks are runtime: there a ThreadSanitizer build runs 2..16 threads of independent scenarios, compares "
         "each thread with its serial model run and treats every race report not located in the exempt record as a failing "
         "schedule."),
   technique="Coq proof (frame property + induction over schedules) + generated static-storage inventory + ThreadSanitizer runs",
   ref="6 (C18)"),
 "C19": dict(
   text=("Theorems on the model of econftool (show, syntax, cat; built on the model of the library's readers): C19_show (the output "
         "is the header plus the listing of exactly the object econf_readDirs returns for the same tree), C19_listing_blocks "
         "(group-less keys first, then every section in the library's order), C19_every_key_printed, C19_nothing_else, C19_syntax "
         "(exit 0 exactly when the library reports no error, otherwise the error line names file and line), C19_cat (the "
         "consulted files in processing order). Tie: the REAL econftool binary (ASan build) on generated trees under "
         "$ECONFTOOL_ROOT and absolute files: stdout, error line, exit status against the model. edit/revert are not modelled. "
         "Known finding F21 (--delimiters >= 1024 bytes with an escape) is replayed and named."),
   technique="Coq proof over a model of the tool on top of the reader model + differential runs of the real binary",
   ref="6 (C19)"),
 "C20": dict(
   text=("PARTIAL (object granularity). Theorems over an ownership ledger whose control flow — which failure frees what, where "
         "— follows readconfig.c / mergefiles.c / getfilecontents.c as they are now: C20_readDirs/readConfig/history_balanced "
         "(for EVERY tree, settings, callback and parameter shape, i.e. every pattern of refusals — missing file, rejected "
         "callback, restriction, parse error in the n-th drop-in — every econf_file created is freed exactly once or handed to "
         "the caller; nothing freed twice or without having been created), C20_*_owned (the out-pointer afterwards: one object "
         "on success; readDirs' empty object / NULL / no history on failure), C20_ledger_matches_reader (the instrumented flow "
         "has the outcome of the reader model that the correspondence runs tie to the code); at BLOCK granularity for "
         "econf_newKeyFile_with_options (OptLedger.v): C20_options_owned (for every option string, unknown items and repeated "
         "list items of any lengths included, the live blocks after the call are exactly those reachable from the object, nothing "
         "freed twice, econf_free releases all), C20_options_code (same code as the C15 model). Other strings inside objects, "
         "uninitialised reads and allocator state are runtime: AddressSanitizer + a LeakSanitizer check after EVERY scenario "
         "(all handles released with the documented free functions) on C11 histories and layered reads with a failure injected "
         "at each consulted file; free functions called with NULL."),
   technique="Coq proof (ownership invariant through an instrumented model of the readers) + ASan/LeakSanitizer runs with fault injection",
   ref="6 (C20)"),
 "C10": dict(
   text=("Theorems C10_readonly / C10_sequences / C10_later_results / C10_merge_inputs: in the model every query (failing ones "
         "included), any finite sequence of them, and a merge leave the object(s) unchanged, for all objects. The model is tied "
         "to the code by differential runs comparing dump and written bytes before/after random query sequences; a difference "
         "is a failing history."),
   technique="Coq proof over the API model (induction over query sequences) + differential correspondence",
   ref="6 (C10)"),
 "C11": dict(
   text=("Theorem C11_refines: for every history of set/get/get-with-default/list calls, from any well-formed object, the "
         "model's results equal those of a reference ordered map (per-section insertion-ordered association lists) and the "
         "final states correspond; C11_nodup, bracket/group-less/refusal/default laws and the laws of the reference (overwrite in place, "
         "no-op set, commuting sets, size, other bindings and other sections untouched: MapLaws.v) as separate theorems. Unbounded in "
         "history length and object size. Correspondence: random histories through the real API."),
   technique="Coq refinement proof (simulation + induction over histories) + differential correspondence",
   ref="6 (C11)"),
}
PENDING = "check not built yet in this revision (work in progress; the design for it is in DESIGN.md section 6)"

def main():
    checks = []
    for pid in ALL:
        if pid not in CLAIMS: continue
        c = CLAIMS[pid]
        checks.append({
            "property_id": pid,
            "quick_cmd": "./check %s --tier quick" % pid,
            "thorough_cmd": "./check %s --tier thorough" % pid,
            "evidence_file": "evidence/%s.json" % pid,
            "replay_cmd_template": "./check %s --replay {path}" % pid,
            "engine": "coq-model",
            "level_claimed": {"category": "proof", "text": c["text"], "design_ref": "DESIGN.md " + c["ref"]},
            "level_note": c.get("note", NOTE),
            "technique": c["technique"],
        })
    man = {
        "version": 1,
        "setup_cmd": "./setup.sh",
        "hooks": {"guard": "LIBECONF_VERIF", "enable": "checks compile /repo/lib/*.c themselves with -DLIBECONF_VERIF (no hook is needed so far)",
                  "baseline_off_cmd": "cmake --build /repo/_build && ctest --test-dir /repo/_build -j8 --timeout 900",
                  "source_commits": [], "add_only": True},
        "engines": [{"name": "coq-model", "path": "coq/", "serves_properties": sorted(CLAIMS),
                     "kind_free_text": "executable Gallina model + theorems (Coq 8.16.1), extracted to OCaml and run against the C library"}],
        "checks": checks,
        "notes": "fix: commits in /repo and known findings are listed in known_findings.json",
        "not_applicable": [{"property_id": p, "reason": PENDING} for p in ALL if p not in CLAIMS],
    }
    with open(os.path.join(HERE, "MANIFEST.json"), "w") as f:
        json.dump(man, f, indent=1)
if __name__ == "__main__":
    main()
